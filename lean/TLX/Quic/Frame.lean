/-
Model of tlexport/quic/quic_frame.py (C17): `parse_frames` and every frame class constructor.

  source                                   model
  ---------------------------------------  ---------------------------------------------
  parse_frames (quic_frame.py:5-25)        `lookup` (key loop, LAST matching key wins, over the
                                           table regenerated from the source: TLX.Gen.frameTable),
                                           `parseOne` (dispatch + constructor), `parseFrames` (loop)
  PaddingFrame.__init__ (36-47)            `padLen`, `parsePadding`
  GenericFrame (50-58)                     `parseGeneric` (with its odd `data` slice starting at 1 + self.length)
  PingFrame (61-66), HandshakeDoneFrame    `.ping`, `.handshakeDone` (class attribute length = 1)
  AckFrame (69-112)                        `parseAck`, `ackRanges` (the `for i in range(0, range_count)` loop)
  ResetStreamFrame … DatagramFrame         `parseResetStream` … `parseDatagram`

Python semantics kept: slices clamp (`Bytes.slice`), `payload[i]` raises, every exception the
constructors can raise on `bytes` input is an `IndexError` and makes `parse_frames` raise as a
whole: the model returns `none` (no frames). `src_packet` is stored, never read: not modelled.
`PseudoVersionNegotiationFrame` is not in `frame_type`, hence unreachable from `parse_frames`: not modelled.
Attributes that are pure functions of another attribute (`StreamFrame.server_initiated`,
`stream_unidirectional`) are the functions `streamServerInitiated`/`streamUnidirectional` below.

`parseFrames` is defined by well-founded recursion on the remaining payload length; Lean accepts it
only because of `parseOne_length_pos` (every constructed frame has `length ≥ 1`) — this is the
"cannot hang" half of C17: an edit of the model mirroring a source change that lets some frame
have length 0 breaks the build at the termination obligation.
Core Lean only (linked into `tlxdriver`).
-/
import TLX.Quic.Varint
import TLX.Gen.FrameTable
namespace TLX.Quic.Frame
open TLX TLX.Quic TLX.Quic.Varint

/-- The attributes a frame object carries after construction (`length` always; per class the rest). -/
inductive Parsed where
  | padding (length : Nat)
  | ping
  | ack (ftype length largest delay rangeCount firstRange : Nat) (ranges : List (Nat × Nat))
      (ecn : Option (Nat × Nat × Nat))
  | resetStream (length sid err finalSize : Nat)
  | stopSending (length sid err : Nat)
  | crypto (length offset cryptoLength : Nat) (data : Bytes)
  | newToken (length tokenLength : Nat) (token : Bytes)
  | stream (ftype length : Nat) (fin lenBit offBit : Bool) (sid offset dataLength : Nat) (data : Bytes)
  | maxData (length max : Nat)
  | maxStreamData (length sid max : Nat)
  | maxStreams (ftype length max : Nat)
  | dataBlocked (length max : Nat)
  | streamDataBlocked (length sid max : Nat)
  | streamsBlocked (ftype length max : Nat)
  | newConnectionId (length seq retire cidLen : Nat) (cid token : Bytes)
  | retireConnectionId (length seq : Nat)
  | pathChallenge (data : Bytes)
  | pathResponse (data : Bytes)
  | connectionClose (ftype length err : Nat) (closeType : Option Nat) (reasonLength : Nat) (reason : Bytes)
  | handshakeDone
  | datagram (ftype length : Nat) (lenBit : Bool) (payload : Bytes)
  | generic (length frameLength : Nat) (data : Bytes)
  deriving DecidableEq, Repr

/-- `frame.length` -/
def Parsed.length : Parsed → Nat
  | .padding n => n
  | .ping => 1
  | .ack _ n _ _ _ _ _ _ => n
  | .resetStream n _ _ _ => n
  | .stopSending n _ _ => n
  | .crypto n _ _ _ => n
  | .newToken n _ _ => n
  | .stream _ n _ _ _ _ _ _ _ => n
  | .maxData n _ => n
  | .maxStreamData n _ _ => n
  | .maxStreams _ n _ => n
  | .dataBlocked n _ => n
  | .streamDataBlocked n _ _ => n
  | .streamsBlocked _ n _ => n
  | .newConnectionId n _ _ _ _ _ => n
  | .retireConnectionId n _ => n
  | .pathChallenge _ => 9
  | .pathResponse _ => 9
  | .connectionClose _ n _ _ _ _ => n
  | .handshakeDone => 1
  | .datagram _ n _ _ => n
  | .generic n _ _ => n

/-- `type(frame).__name__` -/
def Parsed.cls : Parsed → Cls
  | .padding .. => .PaddingFrame
  | .ping => .PingFrame
  | .ack .. => .AckFrame
  | .resetStream .. => .ResetStreamFrame
  | .stopSending .. => .StopSendingFrame
  | .crypto .. => .CryptoFrame
  | .newToken .. => .NewTokenFrame
  | .stream .. => .StreamFrame
  | .maxData .. => .MaxDataFrame
  | .maxStreamData .. => .MaxStreamDataFrame
  | .maxStreams .. => .MaxStreamsFrame
  | .dataBlocked .. => .DataBlockedFrame
  | .streamDataBlocked .. => .StreamDataBlockedFrame
  | .streamsBlocked .. => .StreamsBlockedFrame
  | .newConnectionId .. => .NewConnectionIdFrame
  | .retireConnectionId .. => .RetireConnectionIdFrame
  | .pathChallenge .. => .PathChallengeFrame
  | .pathResponse .. => .PathResponseFrame
  | .connectionClose .. => .ConnectionCloseFrame
  | .handshakeDone => .HandshakeDoneFrame
  | .datagram .. => .DatagramFrame
  | .generic .. => .GenericFrame

/-- The byte-string attributes of a frame (`crypto`, `token`, `stream_data`, `connection_id`,
    `stateless_reset_token`, `data`, `reason_phrase`, `payload`), in wire order. -/
def Parsed.datas : Parsed → List Bytes
  | .crypto _ _ _ d => [d]
  | .newToken _ _ d => [d]
  | .stream _ _ _ _ _ _ _ _ d => [d]
  | .newConnectionId _ _ _ _ cid tok => [cid, tok]
  | .pathChallenge d => [d]
  | .pathResponse d => [d]
  | .connectionClose _ _ _ _ _ d => [d]
  | .datagram _ _ _ d => [d]
  | .generic _ _ d => [d]
  | _ => []

/-- `self.server_initiated = bool(self.stream_id & 1)` -/
def streamServerInitiated (sid : Nat) : Bool := sid &&& 1 != 0
/-- `self.stream_unidirectional = bool((self.stream_id >> 1) & 1)` -/
def streamUnidirectional (sid : Nat) : Bool := (sid >>> 1) &&& 1 != 0

/-! ### frame class constructors -/

/-- PaddingFrame: index of the first non-zero byte, or `len(payload)`. -/
def padLen : Bytes → Nat
  | [] => 0
  | x :: r => if x = 0 then padLen r + 1 else 0

def parsePadding (p : Bytes) : Option Parsed := some (.padding (padLen p))

/-- GenericFrame: `length = 1 + vlen; frame_length = varint; data = payload[1+length : 1+length+frame_length]`
    (sic: one byte further than the length field ends); `length += frame_length`. -/
def parseGeneric (p : Bytes) : Option Parsed := do
  let (fl, l) ← readVarint p 1
  pure (.generic (l + fl) fl (Bytes.slice p (1 + l) (1 + l + fl)))

/-- The `for i in range(0, self.range_count)` loop of AckFrame, from `index = idx`. -/
def ackRanges (p : Bytes) : Nat → Nat → Option (List (Nat × Nat) × Nat)
  | 0, idx => some ([], idx)
  | n + 1, idx => do
    let (gap, i1) ← readVarint p idx
    let (len, i2) ← readVarint p i1
    let (rs, j) ← ackRanges p n i2
    pure ((gap, len) :: rs, j)

def parseAck (p : Bytes) : Option Parsed := do
  let t ← p[0]?
  let (largest, i1) ← readVarint p 1
  let (delay, i2) ← readVarint p i1
  let (cnt, i3) ← readVarint p i2
  let (first, i4) ← readVarint p i3
  let (ranges, i5) ← ackRanges p cnt i4
  if t.toNat = 0x03 then do
    let (e0, i6) ← readVarint p i5
    let (e1, i7) ← readVarint p i6
    let (ce, i8) ← readVarint p i7
    pure (.ack t.toNat i8 largest delay cnt first ranges (some (e0, e1, ce)))
  else
    pure (.ack t.toNat i5 largest delay cnt first ranges none)

def parseResetStream (p : Bytes) : Option Parsed := do
  let (sid, i1) ← readVarint p 1
  let (err, i2) ← readVarint p i1
  let (fs, i3) ← readVarint p i2
  pure (.resetStream i3 sid err fs)

def parseStopSending (p : Bytes) : Option Parsed := do
  let (sid, i1) ← readVarint p 1
  let (err, i2) ← readVarint p i1
  pure (.stopSending i2 sid err)

def parseCrypto (p : Bytes) : Option Parsed := do
  let (off, i1) ← readVarint p 1
  let (n, i2) ← readVarint p i1
  pure (.crypto (i2 + n) off n (Bytes.slice p i2 (i2 + n)))

def parseNewToken (p : Bytes) : Option Parsed := do
  let (n, i1) ← readVarint p 1
  pure (.newToken (i1 + n) n (Bytes.slice p i1 (i1 + n)))

/-- `if self.off: <read offset> else: self.offset = 0` -/
def readOffsetIf (c : Bool) (p : Bytes) (i : Nat) : Option (Nat × Nat) :=
  if c then readVarint p i else some (0, i)

/-- `if self.frame_type == 0x1c: <read close_frame_type>` (attribute absent otherwise) -/
def readCloseTypeIf (c : Bool) (p : Bytes) (i : Nat) : Option (Option Nat × Nat) :=
  if c then (readVarint p i).map (fun (v, j) => (some v, j)) else some (none, i)

def parseStream (p : Bytes) : Option Parsed := do
  let t ← p[0]?
  let ft := t.toNat
  let fin := ft &&& 1 != 0
  let len := (ft >>> 1) &&& 1 != 0
  let off := (ft >>> 2) &&& 1 != 0
  let (sid, i1) ← readVarint p 1
  let (offset, i2) ← readOffsetIf off p i1
  if len then do
    let (n, i3) ← readVarint p i2
    pure (.stream ft (i3 + n) fin len off sid offset n (Bytes.slice p i3 (i3 + n)))
  else
    -- `self.length = len(payload); self.data_length = len(payload) - index` (index ≤ len: readVarint_le)
    pure (.stream ft p.length fin len off sid offset (p.length - i2) (Bytes.slice p i2 p.length))

def parseMaxData (p : Bytes) : Option Parsed := do
  let (m, i1) ← readVarint p 1
  pure (.maxData i1 m)

def parseMaxStreamData (p : Bytes) : Option Parsed := do
  let (sid, i1) ← readVarint p 1
  let (m, i2) ← readVarint p i1
  pure (.maxStreamData i2 sid m)

def parseMaxStreams (p : Bytes) : Option Parsed := do
  let t ← p[0]?
  let (m, i1) ← readVarint p 1
  pure (.maxStreams t.toNat i1 m)

def parseDataBlocked (p : Bytes) : Option Parsed := do
  let (m, i1) ← readVarint p 1
  pure (.dataBlocked i1 m)

def parseStreamDataBlocked (p : Bytes) : Option Parsed := do
  let (sid, i1) ← readVarint p 1
  let (m, i2) ← readVarint p i1
  pure (.streamDataBlocked i2 sid m)

def parseStreamsBlocked (p : Bytes) : Option Parsed := do
  let t ← p[0]?
  let (m, i1) ← readVarint p 1
  pure (.streamsBlocked t.toNat i1 m)

def parseNewConnectionId (p : Bytes) : Option Parsed := do
  let (seq, i1) ← readVarint p 1
  let (rpt, i2) ← readVarint p i1
  let cl ← p[i2]?                       -- `payload[self.length]` raises when the payload ends here
  let l := i2 + 1
  let cid := Bytes.slice p l (l + cl.toNat)
  let l := l + cl.toNat
  let tok := Bytes.slice p l (l + 16)
  pure (.newConnectionId (l + 16) seq rpt cl.toNat cid tok)

def parseRetireConnectionId (p : Bytes) : Option Parsed := do
  let (seq, i1) ← readVarint p 1
  pure (.retireConnectionId i1 seq)

def parsePathChallenge (p : Bytes) : Option Parsed := some (.pathChallenge (Bytes.slice p 1 9))
def parsePathResponse (p : Bytes) : Option Parsed := some (.pathResponse (Bytes.slice p 1 9))

def parseConnectionClose (p : Bytes) : Option Parsed := do
  let t ← p[0]?
  let (err, i1) ← readVarint p 1
  let (ct, i2) ← readCloseTypeIf (t.toNat == 0x1c) p i1
  let (rl, i3) ← readVarint p i2
  pure (.connectionClose t.toNat (i3 + rl) err ct rl (Bytes.slice p i3 (i3 + rl)))

def parseDatagram (p : Bytes) : Option Parsed := do
  let t ← p[0]?
  let lenBit := t.toNat &&& 1 == 1
  if lenBit then do
    let (n, i1) ← readVarint p 1       -- i1 = 1 + var_int_length
    pure (.datagram t.toNat (i1 + n) lenBit (Bytes.slice p i1 (i1 + n)))
  else
    pure (.datagram t.toNat p.length lenBit (Bytes.slice p 1 p.length))

/-- `frame_type.get(key)(payload, src_packet)` for the class `key` maps to. -/
def construct : Cls → Bytes → Option Parsed
  | .PaddingFrame, p => parsePadding p
  | .PingFrame, _ => some .ping
  | .AckFrame, p => parseAck p
  | .ResetStreamFrame, p => parseResetStream p
  | .StopSendingFrame, p => parseStopSending p
  | .CryptoFrame, p => parseCrypto p
  | .NewTokenFrame, p => parseNewToken p
  | .StreamFrame, p => parseStream p
  | .MaxDataFrame, p => parseMaxData p
  | .MaxStreamDataFrame, p => parseMaxStreamData p
  | .MaxStreamsFrame, p => parseMaxStreams p
  | .DataBlockedFrame, p => parseDataBlocked p
  | .StreamDataBlockedFrame, p => parseStreamDataBlocked p
  | .StreamsBlockedFrame, p => parseStreamsBlocked p
  | .NewConnectionIdFrame, p => parseNewConnectionId p
  | .RetireConnectionIdFrame, p => parseRetireConnectionId p
  | .PathChallengeFrame, p => parsePathChallenge p
  | .PathResponseFrame, p => parsePathResponse p
  | .ConnectionCloseFrame, p => parseConnectionClose p
  | .HandshakeDoneFrame, _ => some .handshakeDone
  | .DatagramFrame, p => parseDatagram p
  | .GenericFrame, p => parseGeneric p

/-- The key loop of parse_frames: `for k in keys: if payload[0] in k: key = k` — the LAST matching
    key of the table (dict iteration order) wins; `none` = `key` stayed `0xff` → GenericFrame. -/
def lookup (t : Nat) : Option Cls :=
  TLX.Gen.frameTable.foldl (fun acc kc => if t ∈ kc.1 then some kc.2 else acc) none

/-- One iteration of the loop body on a non-empty payload: the frame object constructed. -/
def parseOne (p : Bytes) : Option Parsed :=
  match p with
  | [] => none                 -- not reached: the loop runs only while `len(payload) != 0`
  | t :: _ =>
    match lookup t.toNat with
    | some c => construct c p
    | none => parseGeneric p

/-! ### every constructed frame has length ≥ 1 -/

theorem padLen_pos (x : UInt8) (r : Bytes) (h : x = 0) : 1 ≤ padLen (x :: r) := by simp [padLen, h]

/-- Only type byte 0 is dispatched to PaddingFrame (checked against the regenerated table). -/
theorem lookup_padding : ∀ t : Fin 256, lookup t.val = some .PaddingFrame → t.val = 0 := by
  decide +kernel

theorem ackRanges_idx (p : Bytes) (n i : Nat) (rs : List (Nat × Nat)) (j : Nat)
    (h : ackRanges p n i = some (rs, j)) : i ≤ j := by
  induction n generalizing i rs j with
  | zero => simp [ackRanges] at h; omega
  | succ n ih =>
    simp only [ackRanges, Option.bind_eq_bind, Option.bind_eq_some_iff, Option.pure_def] at h
    obtain ⟨⟨g, i1⟩, h1, ⟨l, i2⟩, h2, ⟨rs', j'⟩, h3, h4⟩ := h
    simp only [Option.some.injEq, Prod.mk.injEq] at h4
    have := readVarint_idx _ _ _ _ h1
    have := readVarint_idx _ _ _ _ h2
    have := ih _ _ _ h3
    omega

theorem readOffsetIf_idx (c : Bool) (p : Bytes) (i v j : Nat) (h : readOffsetIf c p i = some (v, j)) : i ≤ j := by
  unfold readOffsetIf at h
  split at h
  · exact Nat.le_of_lt (readVarint_idx _ _ _ _ h)
  · simp only [Option.some.injEq, Prod.mk.injEq] at h; omega

theorem readCloseTypeIf_idx (c : Bool) (p : Bytes) (i : Nat) (v : Option Nat) (j : Nat)
    (h : readCloseTypeIf c p i = some (v, j)) : i ≤ j := by
  unfold readCloseTypeIf at h
  split at h
  · simp only [Option.map_eq_some_iff, Prod.exists, Prod.mk.injEq] at h
    obtain ⟨a, b, h1, _, rfl⟩ := h
    exact Nat.le_of_lt (readVarint_idx _ _ _ _ h1)
  · simp only [Option.some.injEq, Prod.mk.injEq] at h; omega

theorem construct_length_pos (c : Cls) (t : UInt8) (r : Bytes) (f : Parsed)
    (hc : c = .PaddingFrame → t = 0) (h : construct c (t :: r) = some f) : 1 ≤ f.length := by
  have rv := fun i v j => readVarint_idx (t :: r) i v j
  cases c <;> simp only [construct] at h
  case PaddingFrame =>
    simp only [parsePadding, Option.some.injEq] at h; subst h
    exact padLen_pos t r (hc rfl)
  case PingFrame => simp only [Option.some.injEq] at h; subst h; simp [Parsed.length]
  case HandshakeDoneFrame => simp only [Option.some.injEq] at h; subst h; simp [Parsed.length]
  case PathChallengeFrame => simp only [parsePathChallenge, Option.some.injEq] at h; subst h; simp [Parsed.length]
  case PathResponseFrame => simp only [parsePathResponse, Option.some.injEq] at h; subst h; simp [Parsed.length]
  case AckFrame =>
    simp only [parseAck, Option.bind_eq_bind, Option.bind_eq_some_iff, Option.pure_def, Prod.exists] at h
    obtain ⟨t', _, v1, i1, h1, v2, i2, h2, v3, i3, h3, v4, i4, h4, rs, i5, h5, h6⟩ := h
    have := rv _ _ _ h1; have := rv _ _ _ h2; have := rv _ _ _ h3; have := rv _ _ _ h4
    have := ackRanges_idx _ _ _ _ _ h5
    split at h6
    · simp only [Option.bind_eq_some_iff, Prod.exists, Option.some.injEq] at h6
      obtain ⟨e0, i6, h7, e1, i7, h8, e2, i8, h9, rfl⟩ := h6
      have := rv _ _ _ h7; have := rv _ _ _ h8; have := rv _ _ _ h9
      simp only [Parsed.length]; omega
    · simp only [Option.some.injEq] at h6; subst h6
      simp only [Parsed.length]; omega
  case ResetStreamFrame =>
    simp only [parseResetStream, Option.bind_eq_bind, Option.bind_eq_some_iff, Option.pure_def, Prod.exists, Option.some.injEq] at h
    obtain ⟨v1, i1, h1, v2, i2, h2, v3, i3, h3, rfl⟩ := h
    have := rv _ _ _ h1; have := rv _ _ _ h2; have := rv _ _ _ h3
    simp only [Parsed.length]; omega
  case StopSendingFrame =>
    simp only [parseStopSending, Option.bind_eq_bind, Option.bind_eq_some_iff, Option.pure_def, Prod.exists, Option.some.injEq] at h
    obtain ⟨v1, i1, h1, v2, i2, h2, rfl⟩ := h
    have := rv _ _ _ h1; have := rv _ _ _ h2
    simp only [Parsed.length]; omega
  case CryptoFrame =>
    simp only [parseCrypto, Option.bind_eq_bind, Option.bind_eq_some_iff, Option.pure_def, Prod.exists, Option.some.injEq] at h
    obtain ⟨v1, i1, h1, v2, i2, h2, rfl⟩ := h
    have := rv _ _ _ h1; have := rv _ _ _ h2
    simp only [Parsed.length]; omega
  case NewTokenFrame =>
    simp only [parseNewToken, Option.bind_eq_bind, Option.bind_eq_some_iff, Option.pure_def, Prod.exists, Option.some.injEq] at h
    obtain ⟨v1, i1, h1, rfl⟩ := h
    have := rv _ _ _ h1
    simp only [Parsed.length]; omega
  case StreamFrame =>
    simp only [parseStream, Option.bind_eq_bind, Option.bind_eq_some_iff, Option.pure_def, Prod.exists] at h
    obtain ⟨t', _, v1, i1, h1, v2, i2, _, h3⟩ := h
    have := rv _ _ _ h1
    split at h3
    · simp only [Option.bind_eq_some_iff, Prod.exists, Option.some.injEq] at h3
      obtain ⟨n, i3, h4, rfl⟩ := h3
      have := rv _ _ _ h4
      simp only [Parsed.length]; omega
    · simp only [Option.some.injEq] at h3; subst h3
      simp [Parsed.length]
  case MaxDataFrame =>
    simp only [parseMaxData, Option.bind_eq_bind, Option.bind_eq_some_iff, Option.pure_def, Prod.exists, Option.some.injEq] at h
    obtain ⟨v1, i1, h1, rfl⟩ := h
    have := rv _ _ _ h1
    simp only [Parsed.length]; omega
  case MaxStreamDataFrame =>
    simp only [parseMaxStreamData, Option.bind_eq_bind, Option.bind_eq_some_iff, Option.pure_def, Prod.exists, Option.some.injEq] at h
    obtain ⟨v1, i1, h1, v2, i2, h2, rfl⟩ := h
    have := rv _ _ _ h1; have := rv _ _ _ h2
    simp only [Parsed.length]; omega
  case MaxStreamsFrame =>
    simp only [parseMaxStreams, Option.bind_eq_bind, Option.bind_eq_some_iff, Option.pure_def, Prod.exists, Option.some.injEq] at h
    obtain ⟨t', _, v1, i1, h1, rfl⟩ := h
    have := rv _ _ _ h1
    simp only [Parsed.length]; omega
  case DataBlockedFrame =>
    simp only [parseDataBlocked, Option.bind_eq_bind, Option.bind_eq_some_iff, Option.pure_def, Prod.exists, Option.some.injEq] at h
    obtain ⟨v1, i1, h1, rfl⟩ := h
    have := rv _ _ _ h1
    simp only [Parsed.length]; omega
  case StreamDataBlockedFrame =>
    simp only [parseStreamDataBlocked, Option.bind_eq_bind, Option.bind_eq_some_iff, Option.pure_def, Prod.exists, Option.some.injEq] at h
    obtain ⟨v1, i1, h1, v2, i2, h2, rfl⟩ := h
    have := rv _ _ _ h1; have := rv _ _ _ h2
    simp only [Parsed.length]; omega
  case StreamsBlockedFrame =>
    simp only [parseStreamsBlocked, Option.bind_eq_bind, Option.bind_eq_some_iff, Option.pure_def, Prod.exists, Option.some.injEq] at h
    obtain ⟨t', _, v1, i1, h1, rfl⟩ := h
    have := rv _ _ _ h1
    simp only [Parsed.length]; omega
  case NewConnectionIdFrame =>
    simp only [parseNewConnectionId, Option.bind_eq_bind, Option.bind_eq_some_iff, Option.pure_def, Prod.exists, Option.some.injEq] at h
    obtain ⟨v1, i1, h1, v2, i2, h2, cl, _, rfl⟩ := h
    simp only [Parsed.length]; omega
  case RetireConnectionIdFrame =>
    simp only [parseRetireConnectionId, Option.bind_eq_bind, Option.bind_eq_some_iff, Option.pure_def, Prod.exists, Option.some.injEq] at h
    obtain ⟨v1, i1, h1, rfl⟩ := h
    have := rv _ _ _ h1
    simp only [Parsed.length]; omega
  case ConnectionCloseFrame =>
    simp only [parseConnectionClose, Option.bind_eq_bind, Option.bind_eq_some_iff, Option.pure_def, Prod.exists, Option.some.injEq] at h
    obtain ⟨t', _, v1, i1, h1, ct, i2, _, v3, i3, h3, rfl⟩ := h
    have := rv _ _ _ h3
    simp only [Parsed.length]; omega
  case DatagramFrame =>
    simp only [parseDatagram, Option.bind_eq_bind, Option.bind_eq_some_iff, Option.pure_def] at h
    obtain ⟨t', _, h2⟩ := h
    split at h2
    · simp only [Option.bind_eq_some_iff, Prod.exists, Option.some.injEq] at h2
      obtain ⟨n, i1, h1, rfl⟩ := h2
      have := rv _ _ _ h1
      simp only [Parsed.length]; omega
    · simp only [Option.some.injEq] at h2; subst h2
      simp [Parsed.length]
  case GenericFrame =>
    simp only [parseGeneric, Option.bind_eq_bind, Option.bind_eq_some_iff, Option.pure_def, Prod.exists, Option.some.injEq] at h
    obtain ⟨v1, i1, h1, rfl⟩ := h
    have := rv _ _ _ h1
    simp only [Parsed.length]; omega

/-- Every frame the loop body constructs consumes at least one byte: the parse loop cannot spin. -/
theorem parseOne_length_pos (p : Bytes) (f : Parsed) (h : parseOne p = some f) : 1 ≤ f.length := by
  unfold parseOne at h
  split at h
  · exact absurd h (by simp)
  · rename_i t r
    split at h
    · rename_i c hc
      refine construct_length_pos c t r f (fun hp => ?_) h
      subst hp
      have := lookup_padding ⟨t.toNat, t.toNat_lt⟩ hc
      exact UInt8.toNat_inj.mp (by simpa using this)
    · exact construct_length_pos .GenericFrame t r f (fun hp => by cases hp) h

set_option linter.unusedVariables false in
/-- `parse_frames`: `while len(payload) != 0: frame = …; frames.append(frame); payload = payload[frame.length:]`.
    `none` = the call raised (IndexError). Accepted by Lean only because of `parseOne_length_pos`. -/
def parseFrames (p : Bytes) : Option (List Parsed) :=
  if _hp : p.length = 0 then some []
  else
    match h : parseOne p with
    | none => none
    | some f => (parseFrames (p.drop f.length)).map (f :: ·)
termination_by p.length
decreasing_by
  have := parseOne_length_pos p f h
  simp only [List.length_drop]
  omega

end TLX.Quic.Frame
