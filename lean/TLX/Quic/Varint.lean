/-
Model of tlexport/quic/quic_decode.py (C17):

  * `getVarintLength`  — `get_variable_length_int_length(b)`  (quic_decode.py:16-21)
  * `decodeVarint`     — `decode_variable_length_int(b)`      (quic_decode.py:4-13)
  * `readVarint p idx` — the two-line idiom every frame class of quic_frame.py uses:
        self.length += get_variable_length_int_length(payload[index:index + 1])
        value = decode_variable_length_int(payload[index:self.length])
    returning the value and the new `self.length` (= next index).

`none` is Python's `IndexError` (`b[0]` on an empty slice, `b[i]` past the end of a short slice) —
the only exception these functions can raise on `bytes` input.
Core Lean only (linked into `tlxdriver`).
-/
import TLX.Py
namespace TLX.Quic.Varint
open TLX

/-- `v = (v << 8) + b[i]` folded over the bytes `b`, starting from `a`. -/
def accBE (a : Nat) (b : Bytes) : Nat := b.foldl (fun a x => a * 256 + x.toNat) a

/-- `prefix = v >> 6; length = 1 << prefix` on the first byte. -/
def varintLen (x : UInt8) : Nat := 1 <<< (x.toNat >>> 6)

/-- `get_variable_length_int_length(first_byte_of_variable_int)`: `b[0]` raises on `b""`. -/
def getVarintLength : Bytes → Option Nat
  | [] => none
  | x :: _ => some (varintLen x)

/-- `decode_variable_length_int(variable_integer)`: reads `b[0]`, then `b[1] … b[length-1]`
    (IndexError if the slice is shorter than the announced length; extra bytes are ignored). -/
def decodeVarint : Bytes → Option Nat
  | [] => none
  | x :: rest =>
    let len := varintLen x
    if rest.length < len - 1 then none
    else some (accBE (x.toNat &&& 0x3f) (rest.take (len - 1)))

/-- The idiom at `index = idx`: returns `(value, idx + varint length)`. -/
def readVarint (p : Bytes) (idx : Nat) : Option (Nat × Nat) :=
  match getVarintLength (Bytes.slice p idx (idx + 1)) with
  | none => none
  | some l =>
    match decodeVarint (Bytes.slice p idx (idx + l)) with
    | none => none
    | some v => some (v, idx + l)

theorem varintLen_pos (x : UInt8) : 1 ≤ varintLen x := by
  unfold varintLen
  rw [Nat.shiftLeft_eq, Nat.one_mul]
  exact Nat.one_le_two_pow

/-- A successful read moves the index forward … -/
theorem readVarint_idx (p : Bytes) (i v j : Nat) (h : readVarint p i = some (v, j)) : i < j := by
  unfold readVarint at h
  split at h
  · exact absurd h (by simp)
  · rename_i l hl
    split at h
    · exact absurd h (by simp)
    · simp only [Option.some.injEq, Prod.mk.injEq] at h
      unfold getVarintLength at hl
      split at hl
      · exact absurd hl (by simp)
      · rename_i x _ _
        simp only [Option.some.injEq] at hl
        have := varintLen_pos x
        omega

/-- `readVarint` seen from the bytes that remain at `idx` (used by all lemmas). -/
theorem readVarint_eq (p : Bytes) (idx : Nat) :
    readVarint p idx =
      match p.drop idx with
      | [] => none
      | x :: r =>
        if r.length < varintLen x - 1 then none
        else some (accBE (x.toNat &&& 0x3f) (r.take (varintLen x - 1)), idx + varintLen x) := by
  unfold readVarint Bytes.slice
  cases h : p.drop idx with
  | nil => simp [getVarintLength]
  | cons x r =>
    have hl := varintLen_pos x
    simp only [Nat.add_sub_cancel_left, List.take_succ_cons, List.take_zero, getVarintLength]
    obtain ⟨m, hm⟩ : ∃ m, varintLen x = m + 1 := ⟨varintLen x - 1, by omega⟩
    simp only [hm, List.take_succ_cons, decodeVarint, Nat.add_sub_cancel, List.length_take,
      List.take_take, Nat.min_self]
    by_cases hlt : r.length < m
    · have : min m r.length < m := by omega
      simp [hlt, this]
    · have : ¬ min m r.length < m := by omega
      simp [hlt, this]

/-- … and stays inside the payload (so `len(payload) - index` in StreamFrame is never negative). -/
theorem readVarint_le (p : Bytes) (i v j : Nat) (h : readVarint p i = some (v, j)) : j ≤ p.length := by
  rw [readVarint_eq] at h
  split at h
  · exact absurd h (by simp)
  · rename_i x r hd
    split at h
    · exact absurd h (by simp)
    · rename_i hlen
      simp only [Option.some.injEq, Prod.mk.injEq] at h
      have : (p.drop i).length = r.length + 1 := by rw [hd]; rfl
      simp only [List.length_drop] at this
      have := varintLen_pos x
      omega

end TLX.Quic.Varint
