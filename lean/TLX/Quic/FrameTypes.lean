/-
The frame classes of tlexport/quic/quic_frame.py, by their Python class names (C17).
`TLX/Gen/FrameTable.lean` (regenerated from /repo on every run) refers to these constructors;
a class the model does not know makes the generated file fail to compile, i.e. breaks the proof stage.
-/
namespace TLX.Quic

inductive Cls
  | PaddingFrame | PingFrame | AckFrame | ResetStreamFrame | StopSendingFrame | CryptoFrame
  | NewTokenFrame | StreamFrame | MaxDataFrame | MaxStreamDataFrame | MaxStreamsFrame
  | DataBlockedFrame | StreamDataBlockedFrame | StreamsBlockedFrame | NewConnectionIdFrame
  | RetireConnectionIdFrame | PathChallengeFrame | PathResponseFrame | ConnectionCloseFrame
  | HandshakeDoneFrame | DatagramFrame | GenericFrame
  deriving DecidableEq, Repr

end TLX.Quic
