/-
The ONE concrete executable instance of `Quic.Session.Params` (twin: `harness/q2b_session.py`, the same functions
byte for byte): toy AEAD of `TLX/Crypto/Toy.lean`, toy key derivations (deterministic FNV pads of ALL their inputs),
and a toy TLS handshake parser that stands in for `QuicTlsSession` (its model is another package): it records every
argument it is handed in a running hash, so that a wrong direction, packet type, offset, length or data shows.

NOT cryptography and not a TLS parser. Used by the driver (`TLX/Drv/QuicSession.lean`) and for non-vacuity examples.
Core Lean only.
-/
import TLX.Quic.Session
import TLX.Crypto.Toy
namespace TLX.Quic.SessionToy
open TLX TLX.Quic TLX.Cipher TLX.Quic.Session

/-- `n` pad bytes of the stream seeded by `tag` and the length-prefixed `parts` -/
def toyBytes (tag : Nat) (parts : List Bytes) (n : Nat) : Bytes :=
  let h := parts.foldl Toy.fnvL (Toy.fnvStep 2166136261 tag)
  (List.range n).map (fun j => Toy.pad h j)

def Version.id : Version → Nat
  | .unknown => 0 | .v1 => 1 | .v2 => 2

def HashSel.id : HashSel → Nat
  | .sha256 => 1 | .sha384 => 2

def HashSel.len : HashSel → Nat
  | .sha256 => 32 | .sha384 => 48

def devInitialKeys (v : Version) (dcid : Bytes) : Option (DirKeys × DirKeys) :=
  if v = .unknown then none
  else
    let vb : Bytes := [UInt8.ofNat (Version.id v)]
    some (⟨toyBytes 11 [vb, dcid] 16, toyBytes 12 [vb, dcid] 12⟩, ⟨toyBytes 13 [vb, dcid] 16, toyBytes 14 [vb, dcid] 12⟩)

def selBytes (sel : SuiteSel) (v : Version) : Bytes :=
  [UInt8.ofNat (HashSel.id sel.hash), UInt8.ofNat (Version.id v), UInt8.ofNat sel.keyLen]

def dirKeys (sel : SuiteSel) (v : Version) (secret : Bytes) : DirKeys :=
  ⟨toyBytes 21 [selBytes sel v, secret] sel.keyLen, toyBytes 22 [selBytes sel v, secret] 12⟩

/-- one key-log line: client random, label (0 CLIENT_HANDSHAKE_TRAFFIC_SECRET, 1 SERVER_HANDSHAKE_TRAFFIC_SECRET,
    2 CLIENT_TRAFFIC_SECRET_0, 3 SERVER_TRAFFIC_SECRET_0, 4 CLIENT_EARLY_TRAFFIC_SECRET), secret -/
structure KlEntry where
  cr : Bytes
  label : Nat
  secret : Bytes
  deriving Repr

/-- the last line with that label wins (the loop of dev_quic_keys overwrites) -/
def lookupLabel (kl : List KlEntry) (cr : Bytes) (label : Nat) : Option Bytes :=
  kl.foldl (fun acc e => if e.cr = cr ∧ e.label = label then some e.secret else acc) none

/-- `unbound = true`: like the real dev_quic_keys, a missing handshake/application line leaves a local unbound and
    the function raises UnboundLocalError; `false`: the dict simply lacks the group (KeyError inside the try/excepts). -/
def devQuicKeys (kl : List KlEntry) (unbound : Bool) (sel : SuiteSel) (v : Version) (cr : Bytes) : Except PyErr KeyGroups :=
  let ch := lookupLabel kl cr 0
  let sh := lookupLabel kl cr 1
  let ct := lookupLabel kl cr 2
  let st := lookupLabel kl cr 3
  let ce := lookupLabel kl cr 4
  if unbound ∧ (ch.isNone ∨ sh.isNone ∨ ct.isNone ∨ st.isNone) then .error .unbound
  else .ok {
    hs := match sh, ch with
      | some s, some c => some (dirKeys sel v s, dirKeys sel v c)
      | _, _ => none
    app := match st, ct with
      | some s, some c => some ⟨dirKeys sel v s, dirKeys sel v c, s, c⟩
      | _, _ => none
    early := ce.map (dirKeys sel v) }

def keyUpdate (sel : SuiteSel) (v : Version) (ssec csec : Bytes) : AppKeys :=
  let hb : Bytes := [UInt8.ofNat (HashSel.id sel.hash)]
  let s' := toyBytes 23 [hb, ssec] (HashSel.len sel.hash)
  let c' := toyBytes 23 [hb, csec] (HashSel.len sel.hash)
  ⟨dirKeys sel v s', dirKeys sel v c', s', c'⟩

/-! ### toy TLS parser -/

structure Tls where
  cr : Option Bytes := none
  cs : Option Bytes := none
  newData : Bool := false
  n : Nat := 0
  h : Nat := 2166136261
  deriving DecidableEq, Repr

def PType.id : PType → Nat
  | .initial => 0 | .rtt0 => 1 | .rtt1 => 2 | .handshake => 3 | .retry => 4 | .versionNeg => 5

def tlsUpdate (t : Tls) (c : CryptoIn) : Tls × Option PyErr :=
  let h := Toy.fnvL (Toy.fnvStep (Toy.fnvStep (Toy.fnvStep (Toy.fnvStep t.h (if c.isServer then 1 else 0))
    (PType.id c.ptype)) c.offset) c.length) c.data
  let t := { t with n := t.n + 1, h := h }
  match c.data with
  | 0x01 :: a :: b :: rest => ({ t with cs := some [a, b], cr := some rest, newData := true }, none)
  | 0x02 :: a :: b :: _ => ({ t with cs := some [a, b], newData := true }, none)
  | 0x08 :: _ => ({ t with newData := true }, none)
  | 0xEE :: _ => ({ t with newData := true }, some .index)
  | 0xEF :: _ => (t, some .key)
  | _ => (t, none)

def params (kl : List KlEntry) (unbound : Bool) : Params Tls where
  prims := Toy.prims
  devInitialKeys := devInitialKeys
  devQuicKeys := devQuicKeys kl unbound
  keyUpdate := keyUpdate
  tlsInit := {}
  tlsUpdate := tlsUpdate
  tlsClientRandom := (·.cr)
  tlsCiphersuite := (·.cs)
  tlsNewData := (·.newData)
  tlsClearNewData := fun t => { t with newData := false }

end TLX.Quic.SessionToy
