/-
Packet-level state machine of `QuicSession` (tlexport/quic/quic_session.py) and `QuicDecryptor`
(tlexport/quic/quic_decryptor.py). Serves C02 (exported = sent) and C03 (a damaged flow never aborts).
Core Lean only (linked into `tlxdriver`).

INPUT  already-dissected packets `TLX.Quic.Pkt` (the dissector `extract_quic_packet` is another model's job).
       A Python attribute that is `None` OR was never assigned by the class constructor is `none` in `Pkt`.

  source (quic_session.py)                      model
  --------------------------------------------  ---------------------------------------------------------------
  __init__ (30-83)                              `St.init`
  set_tls_decryptors (397-470)                  `selectSuite`, `setTlsDecryptors` (the three try/excepts; the call of
                                                dev_quic_keys is OUTSIDE them: its exception propagates)
  set_initial_decryptor (330-349)               `setInitialDecryptor` (`None` from dev_initial_keys → can_decrypt False)
  check_key_epoch (170-184)                     `checkKeyEpoch` (runs BEFORE decryption: mutations persist when the
                                                packet turns out to be garbage; KeyError when "Application" is absent
                                                comes AFTER the epoch was advanced)
  decrypt_packet (186-229)                      `selectDecryptor`, `getFullPn`, `assocData`, `decDecrypt`,
                                                `handleFrames`, `decryptPacket` (try/except: error value + state)
  get_full_packet_number                        `getFullPn` over `PktNum.implDecode` (C16), PURE; first-packet shortcut
                                                returns the RAW truncated bytes
  set_largest_packet_number                     `setLargestPn`: stored after `decryptor.decrypt` succeeded (repair 45c871e);
                                                `Legacy.*` = the code before (table updated before decryption)
  QuicDecryptor.decrypt (quic_decryptor.py)     `decDecrypt`: nonce = zip(left-zero-padded pn, iv) XOR (zip truncates
                                                to the shorter: a pn longer than the iv loses its LOW bytes' partners)
  handle_frame / handle_crypto_frame (140-168)  `handleFrame`
  packet_isserver (231-240)                     `packetIsServer`
  handle_packet (242-259)                       `handlePacket` (version latch, Initial decryptor from the routing DCID,
                                                direction; the `while`/`extract_quic_packet` loop is represented by the
                                                list of dissected packets, all carrying the direction computed here —
                                                `extract_quic_packet(isserver=…)` copies it into every packet)
  handle_quic_packet (261-288)                  `stepPkt`, `handleQuicPackets`

Python exceptions are explicit `PyErr` values; every function returns the state as mutated up to the raise.
`decryptPacket` returns the exception its `try/except Exception` swallowed (observable: the handler prints it).
`stepPkt` additionally returns an ESCAPED exception: the only raise sites outside the try/except are
`quic_packet.supported_version` / `quic_packet.scid` on a `ShortQuicPacket` whose `packet_type` is VERSION_NEG /
INITIAL — objects the dissector never builds (`Pkt.classOk`).

PARAMETERS (`Params σ`): AEAD (`Cipher.Prims.aeadOpen`, tag length 16: `AESGCM(key)`, `ChaCha20Poly1305(key)`,
`AESCCM(key)` default), key derivations `devInitialKeys`, `devQuicKeys` (incl. the key-log filtering loop before the
call; result = which key groups exist, or the exception dev_quic_keys raised), `keyUpdate`, and the TLS handshake
parser `QuicTlsSession` as an abstract state `σ` (`tlsUpdate` returns the mutated state AND the exception, if any).
Constructing a `QuicDecryptor` calls `bulk_cipher(key)`, which validates the key length: the derivations are assumed
to return keys of the length the selected cipher takes (true of the real HKDF calls with `key_length`), except that a
`None` early key makes the third try/except fire — that is `KeyGroups.early = none`.

OBSERVATIONS on the code as it is (mirrored here; each replayed on the real code by harness/q2b_session.py):
  * `check_key_epoch` before the AEAD check: ONE damaged/forged 1-RTT packet with a flipped key-phase bit advances the
    epoch of its direction for good; the next genuine packet flips it again; every later packet of that direction is
    tried with a wrong generation and lost (`Props.C02Session.damaged_key_phase_advances_epoch`).
  * `dev_quic_keys` raises UnboundLocalError when a handshake- or application-secret line is missing (its locals are
    not initialised), so the "Missing Key Material" handlers of set_tls_decryptors never see that case: the exception
    leaves through handle_crypto_frame (CRYPTO frame not appended, `new_data` stays set) and with only the two
    `*_TRAFFIC_SECRET_0` lines in the key log no Application decryptor is ever installed.
  * a second `set_tls_decryptors` (e.g. after a later handshake message) resets "Application" to one generation
    while the epochs keep their values.
  * the only raise sites outside decrypt_packet's try/except need a `ShortQuicPacket` typed VERSION_NEG / INITIAL,
    which `extract_quic_packet` never builds (`session_total`, `session_total_counterexample`).

REPAIRED (45c871e): the largest packet number of a space used to be stored inside `get_full_packet_number`, i.e. BEFORE the
  AEAD check; one unauthenticated packet with a far-away number made every later packet of that direction and space
  fail (`Legacy.*`, `Props.C02Session.legacy_pn_poisoned`). Now `set_largest_packet_number` runs after
  `decryptor.decrypt` succeeded (`Props.C02Session.failed_packet_leaves_pn_table`).

NOT modelled: `alpn`, `greasy_bit`, frame/packet buffers that are never read, `build_output`, `reset()` (never
called), `matches_session_*` (main-loop model), the payload of the VERSION_NEG pseudo frame (`Pkt` has no field
for it; it is stored, never read here), the value `None` inside a CID set (a long Initial with `scid is None` adds
`None`, which no `bytes` DCID ever equals).
-/
import TLX.Quic.Packet
import TLX.Quic.PktNum
import TLX.Quic.Frame
import TLX.Crypto.Prims
namespace TLX.Quic.Session
open TLX TLX.Quic TLX.Cipher

/-- `QuicVersion` -/
inductive Version | unknown | v1 | v2
  deriving DecidableEq, Repr, Inhabited

/-- `self.hash_fun` -/
inductive HashSel | sha256 | sha384
  deriving DecidableEq, Repr, Inhabited

/-- `(self.hash_fun, self.cipher, self.key_length)` as set by `set_tls_decryptors` -/
structure SuiteSel where
  hash : HashSel
  alg : Alg
  keyLen : Nat
  deriving DecidableEq, Repr

/-- the `match ciphersuite:` of set_tls_decryptors; `none` = `case _` (unknown suite) -/
def selectSuite (cs : Bytes) : Option SuiteSel :=
  if cs = [0x13, 0x01] then some ⟨.sha256, .aesgcm, 16⟩
  else if cs = [0x13, 0x02] then some ⟨.sha384, .aesgcm, 32⟩
  else if cs = [0x13, 0x03] then some ⟨.sha256, .chachaPoly, 32⟩
  else if cs = [0x13, 0x04] then some ⟨.sha256, .aesccm, 16⟩
  else none

/-- one direction of a `QuicDecryptor`: `*_key` (inside `*_bulk_cipher`) and `*_iv` -/
structure DirKeys where
  key : Bytes
  iv : Bytes
  deriving DecidableEq, Repr, Inhabited

/-- `QuicDecryptor`. `server = none` ⇔ constructed with `early=True` (no `server_*` attributes).
    `serverSec`/`clientSec` are `keys[4]`, `keys[5]` (application generations only; `[]` otherwise). -/
structure Dec where
  alg : Alg
  server : Option DirKeys
  client : DirKeys
  serverSec : Bytes := []
  clientSec : Bytes := []
  deriving DecidableEq, Repr

/-- application keys of one generation: server, client, server secret, client secret -/
structure AppKeys where
  server : DirKeys
  client : DirKeys
  serverSec : Bytes
  clientSec : Bytes
  deriving DecidableEq, Repr, Inhabited

def AppKeys.toDec (alg : Alg) (k : AppKeys) : Dec :=
  { alg := alg, server := some k.server, client := k.client, serverSec := k.serverSec, clientSec := k.clientSec }

/-- what `dev_quic_keys` returned, as far as `set_tls_decryptors` reads it: a group is `none` when a lookup
    `keys["…"]` of that group raises KeyError or the constructor raises on a `None` key -/
structure KeyGroups where
  hs : Option (DirKeys × DirKeys)        -- (server, client)
  app : Option AppKeys
  early : Option DirKeys
  deriving DecidableEq, Repr, Inhabited

/-- the CRYPTO frame as `QuicTlsSession.update_session` sees it -/
structure CryptoIn where
  isServer : Bool
  ptype : PType
  offset : Nat
  length : Nat
  data : Bytes
  deriving DecidableEq, Repr

structure Params (σ : Type) where
  prims : Prims
  /-- `dev_initial_keys(dcid, version, False)`: `none` = returned `None`; result (server, client) -/
  devInitialKeys : Version → Bytes → Option (DirKeys × DirKeys)
  /-- key-log filter by client random + `dev_quic_keys(key_length, session_keys, hash_fun(), version)` -/
  devQuicKeys : SuiteSel → Version → (clientRandom : Bytes) → Except PyErr KeyGroups
  /-- `key_update(decryptor_n, hash_fun, key_length, cipher, version)` on `keys[4], keys[5]` -/
  keyUpdate : SuiteSel → Version → (serverSec clientSec : Bytes) → AppKeys
  tlsInit : σ
  tlsUpdate : σ → CryptoIn → σ × Option PyErr
  tlsClientRandom : σ → Option Bytes
  tlsCiphersuite : σ → Option Bytes
  tlsNewData : σ → Bool
  tlsClearNewData : σ → σ

/-- largest packet number per space (`packet_number_client` / `packet_number_server`) -/
structure PnTab where
  initial : Nat := 0
  handshake : Nat := 0
  app : Nat := 0
  deriving DecidableEq, Repr, Inhabited

def PnTab.get (t : PnTab) : Space → Nat
  | .initial => t.initial | .handshake => t.handshake | .app => t.app

def PnTab.set (t : PnTab) : Space → Nat → PnTab
  | .initial, v => { t with initial := v }
  | .handshake, v => { t with handshake := v }
  | .app, v => { t with app := v }

inductive OutFrame
  | parsed (f : Frame.Parsed)
  | versionNeg
  deriving DecidableEq, Repr

/-- one element of `output_buffer`: the frame and what the output builder reads of `frame.src_packet` -/
structure Out where
  frame : OutFrame
  ts : Nat
  isServer : Bool
  ptype : PType
  deriving DecidableEq, Repr

structure St (σ : Type) where
  version : Version := .unknown
  decInitial : Option Dec := none
  decHandshake : Option Dec := none
  decEarly : Option Dec := none
  /-- `decryptors["Application"]`: the list of generations -/
  decApp : Option (List Dec) := none
  /-- which groups `self.keys` holds -/
  keysInitial : Bool := false
  keysHs : Bool := false
  keysApp : Bool := false
  keysEarly : Bool := false
  suite : Option SuiteSel := none
  canDecrypt : Bool := true
  earlyTrafficKeys : Bool := false
  epochClient : Nat := 0
  epochServer : Nat := 0
  /-- `last_key_phase_*`: starts as `0`; becomes whatever `key_phase` was, `None` included -/
  lastPhaseClient : Option Nat := some 0
  lastPhaseServer : Option Nat := some 0
  pnClient : PnTab := {}
  pnServer : PnTab := {}
  /-- Python sets (order irrelevant; kept without duplicates) -/
  clientCids : List Bytes := []
  serverCids : List Bytes := []
  out : List Out := []
  tls : σ

def St.init {σ : Type} (P : Params σ) : St σ := { tls := P.tlsInit }

def setAdd (s : List Bytes) (x : Bytes) : List Bytes := if x ∈ s then s else s ++ [x]

def u64Bound : Nat := 2 ^ 64

variable {σ : Type}

/-! ### set_tls_decryptors / set_initial_decryptor -/

/-- the part of `set_tls_decryptors` after `dev_quic_keys` returned: `self.keys.update(keys)` and the three try/excepts -/
def installGroups (s : St σ) (sel : SuiteSel) (kg : KeyGroups) : St σ :=
  match kg.hs with
  | none =>
    { s with keysHs := s.keysHs || kg.hs.isSome, keysApp := s.keysApp || kg.app.isSome,
             keysEarly := s.keysEarly || kg.early.isSome, canDecrypt := false }
  | some (hsS, hsC) =>
    match kg.app with
    | none =>
      { s with keysHs := s.keysHs || kg.hs.isSome, keysApp := s.keysApp || kg.app.isSome,
               keysEarly := s.keysEarly || kg.early.isSome,
               decHandshake := some { alg := sel.alg, server := some hsS, client := hsC }, canDecrypt := false }
    | some ak =>
      match kg.early with
      | none =>
        { s with keysHs := s.keysHs || kg.hs.isSome, keysApp := s.keysApp || kg.app.isSome,
                 keysEarly := s.keysEarly || kg.early.isSome,
                 decHandshake := some { alg := sel.alg, server := some hsS, client := hsC },
                 decApp := some [ak.toDec sel.alg] }
      | some ek =>
        { s with keysHs := s.keysHs || kg.hs.isSome, keysApp := s.keysApp || kg.app.isSome,
                 keysEarly := s.keysEarly || kg.early.isSome,
                 decHandshake := some { alg := sel.alg, server := some hsS, client := hsC },
                 decApp := some [ak.toDec sel.alg],
                 decEarly := some { alg := sel.alg, server := none, client := ek }, earlyTrafficKeys := true }

def setTlsDecryptors (P : Params σ) (s : St σ) (clientRandom cs : Bytes) : St σ × Option PyErr :=
  match selectSuite cs with
  | none => ({ s with canDecrypt := false }, none)
  | some sel =>
    match P.devQuicKeys sel s.version clientRandom with
    | .error e => ({ s with suite := some sel }, some e)       -- not inside any of the try/excepts
    | .ok kg => (installGroups { s with suite := some sel } sel kg, none)

def setInitialDecryptor (P : Params σ) (s : St σ) (dcid : Bytes) : St σ :=
  match P.devInitialKeys s.version dcid with
  | none => { s with canDecrypt := false }
  | some (srv, cli) =>
    { s with keysInitial := true, decInitial := some { alg := .aesgcm, server := some srv, client := cli } }

/-! ### decrypt_packet -/

/-- first half of `check_key_epoch`: a key-phase value different from the last one of that direction advances the epoch -/
def flipEpoch (s : St σ) (phase : Option Nat) (srv : Bool) : St σ :=
  if srv then
    if s.lastPhaseServer ≠ phase then { s with epochServer := s.epochServer + 1, lastPhaseServer := phase } else s
  else
    if s.lastPhaseClient ≠ phase then { s with epochClient := s.epochClient + 1, lastPhaseClient := phase } else s

/-- second half: `if self.epoch_client == len(self.decryptors["Application"]) or …: append(key_update(…[-1], …))` -/
def extendGens (P : Params σ) (s : St σ) : St σ × Option PyErr :=
  match s.decApp with
  | none => (s, some .key)
  | some gens =>
    if s.epochClient = gens.length ∨ s.epochServer = gens.length then
      match gens.getLast? with
      | none => (s, some .index)                    -- `[-1]` of an empty list (the list is never empty)
      | some d =>
        match s.suite with
        | none => (s, some .attr)                   -- `None.digest_size` (never: the list exists ⇒ a suite was set)
        | some sel =>
          ({ s with decApp := some (gens ++ [(P.keyUpdate sel s.version d.serverSec d.clientSec).toDec sel.alg]) }, none)
    else (s, none)

/-- `check_key_epoch(key_phase_bit, isserver)` -/
def checkKeyEpoch (P : Params σ) (s : St σ) (phase : Option Nat) (srv : Bool) : St σ × Option PyErr :=
  extendGens P (flipEpoch s phase srv)

/-- `self.decryptors["Application"][self.epoch_server | self.epoch_client]` -/
def appDecryptor (s : St σ) (srv : Bool) : Except PyErr (Option Dec) :=
  match s.decApp with
  | none => .error .key
  | some gens =>
    match gens[if srv then s.epochServer else s.epochClient]? with
    | none => .error .index
    | some d => .ok (some d)

/-- the `match quic_packet.packet_type:` for long headers; `.ok none` = no case: `decryptor` stays unbound -/
def longDecryptor (s : St σ) : PType → Except PyErr (Option Dec)
  | .initial => match s.decInitial with | none => .error .key | some d => .ok (some d)
  | .handshake => match s.decHandshake with | none => .error .key | some d => .ok (some d)
  | .rtt0 => match s.decEarly with | none => .error .key | some d => .ok (some d)
  | _ => .ok none

/-- first part of the `try:` -/
def selectDecryptor (P : Params σ) (s : St σ) (p : Pkt) : St σ × Except PyErr (Option Dec) :=
  match p.htype with
  | .short =>
    if p.ptype = .rtt1 then
      match checkKeyEpoch P s p.keyPhase p.isServer with
      | (s, some e) => (s, .error e)
      | (s, none) => (s, appDecryptor s p.isServer)
    else (s, appDecryptor s p.isServer)
  | .long => (s, longDecryptor s p.ptype)

/-- does the object have a `packet_num` attribute at all? (`LongQuicPacket.__init__` assigns it for
    INITIAL / HANDSHAKE / RTT_O only; `ShortQuicPacket.__init__` always) -/
def hasPnAttr (p : Pkt) : Bool :=
  match p.htype, p.ptype with
  | .short, _ => true
  | .long, .initial | .long, .handshake | .long, .rtt0 => true
  | .long, _ => false

def pnLargest (s : St σ) (srv : Bool) (sp : Space) : Nat := if srv then s.pnServer.get sp else s.pnClient.get sp

def pnStore (s : St σ) (srv : Bool) (sp : Space) (v : Nat) : St σ :=
  if srv then { s with pnServer := s.pnServer.set sp v } else { s with pnClient := s.pnClient.set sp v }

/-- what `get_full_packet_number` returns: the raw bytes in the first-packet shortcut, else 8 bytes big endian -/
def pnResult (largest : Nat) (pnb : Bytes) : Except PyErr Bytes :=
  if Bytes.beNat pnb > largest ∧ largest = 0 then .ok pnb
  else if PktNum.implDecode (2 ^ (8 * pnb.length)) (2 ^ 62) largest (Bytes.beNat pnb) ≥ u64Bound then .error .overflow
  else .ok (Bytes.ofNatBE 8 (PktNum.implDecode (2 ^ (8 * pnb.length)) (2 ^ 62) largest (Bytes.beNat pnb)))

/-- `get_full_packet_number`: pure since the repair "only an authenticated QUIC packet moves the largest packet number of
    its space" — it reads the table and builds the bytes handed to `QuicDecryptor.decrypt`; nothing is stored -/
def getFullPn (s : St σ) (p : Pkt) : Except PyErr Bytes :=
  match p.ptype.space with
  | none => .error .key                             -- PACKET_TYPE_MAP[RETRY / VERSION_NEG]
  | some sp =>
    if !hasPnAttr p then .error .attr else
    match p.pn with
    | none => .error .type                          -- int.from_bytes(None)
    | some pnb => pnResult (pnLargest s p.isServer sp) pnb

/-- `set_largest_packet_number(quic_packet, packet_number)`: `out_pkn = int.from_bytes(packet_number)` (the raw bytes of
    the first-packet shortcut, or the 8-byte encoding); `if out_pkn > table[…]: table[…] = out_pkn` per direction and
    space. Called only after `get_full_packet_number` succeeded for the same packet, so `PACKET_TYPE_MAP[…]` cannot
    raise here (`none` branch). -/
def setLargestPn (s : St σ) (p : Pkt) (pn : Bytes) : St σ :=
  match p.ptype.space with
  | none => s
  | some sp => pnStore s p.isServer sp (PktNum.implUpdate (pnLargest s p.isServer sp) (Bytes.beNat pn))

def cat (l : List (Option Bytes)) : Option Bytes :=
  l.foldr (fun x acc => match x, acc with | some a, some b => some (a ++ b) | _, _ => none) (some [])

/-- the `associated_data = …` statements; `.type` = `bytes + None`; `.unbound` = no case assigned it -/
def assocData (p : Pkt) : Except PyErr Bytes :=
  match p.htype with
  | .long =>
    match p.ptype with
    | .initial =>
      match cat [some p.firstByte, p.version, p.dcidLen, some p.dcid, p.scidLen, p.scid, p.tokenLenBytes, p.token,
                 p.lenBytes, p.pn] with
      | some a => .ok a | none => .error .type
    | .handshake | .rtt0 =>
      match cat [some p.firstByte, p.version, p.dcidLen, some p.dcid, p.scidLen, p.scid, p.lenBytes, p.pn] with
      | some a => .ok a | none => .error .type
    | _ => .error .unbound
  | .short =>
    match cat [some p.firstByte, some p.dcid, p.pn] with
    | some a => .ok a | none => .error .type

/-- `bytes([_a ^ _b for _a, _b in zip(b"\x00" * (len(iv) - len(pn)) + pn, iv)])` -/
def nonceOf (iv pn : Bytes) : Bytes :=
  List.zipWith (· ^^^ ·) (List.replicate (iv.length - pn.length) 0 ++ pn) iv

/-- `QuicDecryptor.decrypt(payload, packet_number, associated_data, isserver)` -/
def decDecrypt (P : Params σ) (d : Dec) (payload : Option Bytes) (pn aad : Bytes) (srv : Bool) : Except PyErr Bytes :=
  match (if srv then d.server else some d.client) with
  | none => .error .attr                            -- early decryptor has no `server_bulk_cipher`
  | some k =>
    match payload with
    | none => .error .type
    | some ct => P.prims.aeadOpen d.alg k.key (nonceOf k.iv pn) aad 16 ct

def cryptoIn (p : Pkt) (off len : Nat) (data : Bytes) : CryptoIn := ⟨p.isServer, p.ptype, off, len, data⟩

def mkOut (p : Pkt) (f : Frame.Parsed) : Out := ⟨.parsed f, p.ts, p.isServer, p.ptype⟩

/-- the `if self.tls_session.new_data:` block of `handle_crypto_frame` -/
def afterTls (P : Params σ) (s : St σ) : St σ × Option PyErr :=
  if P.tlsNewData s.tls then
    match P.tlsClientRandom s.tls, P.tlsCiphersuite s.tls with
    | some cr, some cs =>
      match setTlsDecryptors P s cr cs with
      | (s, some e) => (s, some e)
      | (s, none) => ({ s with tls := P.tlsClearNewData s.tls }, none)
    | _, _ => ({ s with tls := P.tlsClearNewData s.tls }, none)
  else (s, none)

/-- `handle_crypto_frame` -/
def handleCrypto (P : Params σ) (s : St σ) (p : Pkt) (f : Frame.Parsed) (c : CryptoIn) : St σ × Option PyErr :=
  match P.tlsUpdate s.tls c with
  | (t, some e) => ({ s with tls := t }, some e)
  | (t, none) =>
    match afterTls P { s with tls := t } with
    | (s, some e) => (s, some e)
    | (s, none) => ({ s with out := s.out ++ [mkOut p f] }, none)

/-- `handle_frame` for a frame returned by `parse_frames` -/
def handleFrame (P : Params σ) (s : St σ) (p : Pkt) (f : Frame.Parsed) : St σ × Option PyErr :=
  match f with
  | .crypto _ off len data => handleCrypto P s p f (cryptoIn p off len data)
  | .stream .. => ({ s with out := s.out ++ [mkOut p f] }, none)
  | .newConnectionId _ _ _ _ cid _ =>
    if p.isServer then ({ s with serverCids := setAdd s.serverCids cid }, none)
    else ({ s with clientCids := setAdd s.clientCids cid }, none)
  | _ => (s, none)

/-- `for frame in frames: self.handle_frame(frame)` -/
def handleFrames (P : Params σ) (s : St σ) (p : Pkt) : List Frame.Parsed → St σ × Option PyErr
  | [] => (s, none)
  | f :: fs =>
    match handleFrame P s p f with
    | (s, some e) => (s, some e)
    | (s, none) => handleFrames P s p fs

/-- `decrypt_packet` after the decryptor was looked up (`d? = none`: the name `decryptor` is unbound). The largest
    packet number is stored right after `decryptor.decrypt(…)` returned and before `parse_frames`: every failure up to
    and including the AEAD check leaves the state as it was; exceptions of `parse_frames` / `handle_frame` come after
    the store. -/
def decryptRest (P : Params σ) (s : St σ) (p : Pkt) (d? : Option Dec) : St σ × Option PyErr :=
  match getFullPn s p with
  | .error e => (s, some e)
  | .ok pn =>
    -- the AAD statements come first; with no case matched both names are unbound (same exception kind)
    match assocData p with
    | .error e => (s, some e)
    | .ok aad =>
      match d? with
      | none => (s, some .unbound)
      | some d =>
        match decDecrypt P d p.payload pn aad p.isServer with
        | .error e => (s, some e)
        | .ok pt =>
          match Frame.parseFrames pt with
          | none => (setLargestPn s p pn, some .index)
          | some fs => handleFrames P (setLargestPn s p pn) p fs

/-- `decrypt_packet`: the state afterwards and the exception its try/except swallowed -/
def decryptPacket (P : Params σ) (s : St σ) (p : Pkt) : St σ × Option PyErr :=
  match selectDecryptor P s p with
  | (s, .error e) => (s, some e)
  | (s, .ok d?) => decryptRest P s p d?

/-! ### the code before the repair (kept for the witness theorem `Props.C02Session.legacy_pn_poisoned`) -/

namespace Legacy

/-- old `get_full_packet_number`: the table was updated BEFORE the AEAD check -/
def getFullPn (s : St σ) (p : Pkt) : St σ × Except PyErr Bytes :=
  match p.ptype.space with
  | none => (s, .error .key)
  | some sp =>
    if !hasPnAttr p then (s, .error .attr) else
    match p.pn with
    | none => (s, .error .type)
    | some pnb =>
      (pnStore s p.isServer sp (PktNum.implUpdate (pnLargest s p.isServer sp)
          (PktNum.implDecode (2 ^ (8 * pnb.length)) (2 ^ 62) (pnLargest s p.isServer sp) (Bytes.beNat pnb))),
       pnResult (pnLargest s p.isServer sp) pnb)

def decryptRest (P : Params σ) (s : St σ) (p : Pkt) (d? : Option Dec) : St σ × Option PyErr :=
  match getFullPn s p with
  | (s, .error e) => (s, some e)
  | (s, .ok pn) =>
    match assocData p with
    | .error e => (s, some e)
    | .ok aad =>
      match d? with
      | none => (s, some .unbound)
      | some d =>
        match decDecrypt P d p.payload pn aad p.isServer with
        | .error e => (s, some e)
        | .ok pt =>
          match Frame.parseFrames pt with
          | none => (s, some .index)
          | some fs => handleFrames P s p fs

def decryptPacket (P : Params σ) (s : St σ) (p : Pkt) : St σ × Option PyErr :=
  match selectDecryptor P s p with
  | (s, .error e) => (s, some e)
  | (s, .ok d?) => decryptRest P s p d?

end Legacy

/-! ### handle_quic_packet / handle_packet -/

structure StepRes (σ : Type) where
  st : St σ
  /-- swallowed by decrypt_packet's try/except -/
  caught : Option PyErr := none
  /-- propagates out of handle_quic_packet (and handle_packet) -/
  escaped : Option PyErr := none

/-- the RETRY branch -/
def retryReset (P : Params σ) (s : St σ) : St σ :=
  { s with tls := P.tlsInit, decInitial := none, decHandshake := none, decEarly := none, decApp := none,
           keysInitial := false, keysHs := false, keysApp := false, keysEarly := false, suite := none }

def optAdd (s : List Bytes) : Option Bytes → List Bytes
  | none => s
  | some x => setAdd s x

/-- the INITIAL branch: learn both CIDs -/
def learnCids (s : St σ) (p : Pkt) : St σ :=
  if p.isServer then { s with serverCids := optAdd s.serverCids p.scid, clientCids := setAdd s.clientCids p.dcid }
  else { s with clientCids := optAdd s.clientCids p.scid, serverCids := setAdd s.serverCids p.dcid }

/-- the three `if quic_packet.packet_type == …` statements after the decryption attempt -/
def afterDecrypt (P : Params σ) (s : St σ) (caught : Option PyErr) (p : Pkt) : StepRes σ :=
  if p.ptype = .versionNeg then
    if p.htype = .short then { st := s, caught := caught, escaped := some .attr }   -- no `supported_version`
    else { st := { s with out := s.out ++ [⟨.versionNeg, p.ts, p.isServer, p.ptype⟩] }, caught := caught }
  else if p.ptype = .retry then { st := retryReset P s, caught := caught }
  else if p.ptype = .initial then
    if p.htype = .short then { st := s, caught := caught, escaped := some .attr }   -- no `scid`
    else { st := learnCids s p, caught := caught }
  else { st := s, caught := caught }

/-- one iteration of the loop of `handle_quic_packet` -/
def stepPkt (P : Params σ) (s : St σ) (p : Pkt) : StepRes σ :=
  if p.ptype ≠ .retry ∧ p.ptype ≠ .versionNeg then
    afterDecrypt P (decryptPacket P s p).1 (decryptPacket P s p).2 p
  else afterDecrypt P s none p

/-- one loop turn of `handle_quic_packet` on the code before the pn-store repair -/
def Legacy.stepPkt (P : Params σ) (s : St σ) (p : Pkt) : StepRes σ :=
  if p.ptype ≠ .retry ∧ p.ptype ≠ .versionNeg then
    afterDecrypt P (Legacy.decryptPacket P s p).1 (Legacy.decryptPacket P s p).2 p
  else afterDecrypt P s none p

/-- the loop of `handle_quic_packet`; stops at an escaping exception. Returns the swallowed exceptions in order. -/
def handleQuicPackets (P : Params σ) (s : St σ) : List Pkt → St σ × List (Option PyErr) × Option PyErr
  | [] => (s, [], none)
  | p :: ps =>
    let r := stepPkt P s p
    match r.escaped with
    | some e => (r.st, [r.caught], some e)
    | none =>
      let (s', cs, esc) := handleQuicPackets P r.st ps
      (s', r.caught :: cs, esc)

/-- the state component of `handleQuicPackets` (same recursion, without the bookkeeping) -/
def runPkts (P : Params σ) (s : St σ) : List Pkt → St σ
  | [] => s
  | p :: ps =>
    match (stepPkt P s p).escaped with
    | some _ => (stepPkt P s p).st
    | none => runPkts P (stepPkt P s p).st ps

/-- the escaping exception of `handleQuicPackets`, if any -/
def escapes (P : Params σ) (s : St σ) : List Pkt → Option PyErr
  | [] => none
  | p :: ps =>
    match (stepPkt P s p).escaped with
    | some e => some e
    | none => escapes P (stepPkt P s p).st ps

/-- the swallowed exceptions of `handleQuicPackets`, packet by packet -/
def caughtList (P : Params σ) (s : St σ) : List Pkt → List (Option PyErr)
  | [] => []
  | p :: ps =>
    (stepPkt P s p).caught ::
      match (stepPkt P s p).escaped with
      | some _ => []
      | none => caughtList P (stepPkt P s p).st ps

/-- `packet_isserver(packet, dcid)`; `fromClientAddr` = `packet.ip_src == self.client_ip and packet.sport == self.client_port` -/
def packetIsServer (s : St σ) (fromClientAddr : Bool) (dcid : Bytes) : Bool :=
  if dcid.length > 0 ∧ dcid ∈ s.serverCids ∧ dcid ∉ s.clientCids then false
  else if dcid.length > 0 ∧ dcid ∈ s.clientCids ∧ dcid ∉ s.serverCids then true
  else if fromClientAddr then false
  else true

/-- one UDP datagram as `handle_packet` gets it from the main loop, with what the dissector will find in it -/
structure Dgram where
  fromClientAddr : Bool
  /-- the routing DCID the main loop passes -/
  dcid : Bytes
  version : Version
  pkts : List Pkt

/-- the part of `handle_packet` before the loop -/
def latchVersion (s : St σ) (v : Version) : St σ := if s.version = .unknown then { s with version := v } else s

def handlePacketPre (P : Params σ) (s : St σ) (dcid : Bytes) (v : Version) : St σ :=
  if (latchVersion s v).decInitial.isNone then setInitialDecryptor P (latchVersion s v) dcid else latchVersion s v

/-- `handle_packet` -/
def handlePacket (P : Params σ) (s : St σ) (d : Dgram) : St σ × List (Option PyErr) × Option PyErr :=
  handleQuicPackets P (handlePacketPre P s d.dcid d.version)
    (d.pkts.map fun p =>
      { p with isServer := packetIsServer (handlePacketPre P s d.dcid d.version) d.fromClientAddr d.dcid })

/-- a whole capture of one flow -/
def run (P : Params σ) (s : St σ) : List Dgram → St σ × Option PyErr
  | [] => (s, none)
  | d :: ds =>
    match handlePacket P s d with
    | (s, _, some e) => (s, some e)
    | (s, _, none) => run P s ds

/-- what the class constructors + the dissector guarantee: a `ShortQuicPacket` is always RTT_1 -/
def Pkt.classOk (p : Pkt) : Prop := p.htype = .short → p.ptype = .rtt1

instance (p : Pkt) : Decidable (Pkt.classOk p) := by unfold Pkt.classOk; infer_instance

end TLX.Quic.Session
