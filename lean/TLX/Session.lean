/-
Model of the TLS-over-TCP session state machine `Session` (tlexport/session.py): what happens to every TLS record
that reassembly hands on (`handle_tls_record` and everything below it), generic in the decryptor.

Source map (line numbers of /repo/tlexport/session.py):
  `handleRecordRaw`     handle_tls_record 441-485
  `handshakeRecord`     handle_tls_handshake_record 301-328 (the three try/except blocks are `tryExcept`)
  `handshakeFinished`   handle_handshake_finished 330-341 (`_plaintext` may be unbound: UnboundLocalError)
  `clientHello`         handle_tls_client_hello 343-349
  `serverHello`         handle_tls_server_hello 351-396 (+ the early returns / exceptions of generate_keys 116-214
                        as the four outcomes `Gen` of the parameter `Ops.genKeys`)
  `alert`               handle_alert 398-403
  `hs13Loop`            handle_decrypted_tls_13_handshake_record (as repaired: per-direction buffer `handshake_13_buffer`,
                        whole messages consumed from its front); `Legacy.hs13Loop` = the per-record walk before the repair
  `app13`               handle_tls_13_application_record 416-430 (whole body inside try/except)
  `appLegacy`           handle_tls_application_record 432-438
  `runRaw`              the `for record in …_tls_records: self.handle_tls_record(record, …)` calls of get_tls_records

The decryptor is a parameter (`Ops`): `decrypt` returns the decryptor's state afterwards together with the value
(`some none` = Python `None`) or `none` for an exception; `updateKeys` likewise; `genKeys` stands for
`split_cipher_suite` + `find_session_secrets` + the key derivation + `Decryptor(...)` and has four outcomes.
Instances: `TLX.Drv.Session` (a scripted decryptor, for the correspondence run against the real `Session` with a
stub `Decryptor`) and `TLX.Pipeline` (the real record-layer / key-schedule / cipher-suite / key-log models composed).

Python exceptions: a function that may raise returns `Out` (`ok s` / `raised s`, the state at that moment in both
cases: mutations before the raise persist); `try: f() except Exception: h()` is `tryExcept (f s) h`.
`handleRecordRaw` propagates whatever is not caught; `Props.C03.handleRecord_never_raises` proves nothing is.

Attributes that exist only after some record was seen: `client_random` (`cr : Option`, reading it unassigned raises
AttributeError); `server_random`, `ciphersuite`, `compression_method`, `extensions` are written and read inside one
`handle_tls_server_hello` call only and are locals here. `tls_version` starts as `None`.
Ghost field: `Entry.isApp` marks the entries appended by the application-data paths (lines 426, 438); it is not
observable in Python and is used to state C13.
Not modelled: logging (its f-strings cannot raise here: `.hex()` is called on slices of a bytearray), the print in
`decrypt()`. `TlsRecord.__init__` on fewer than 1 byte (reassembly hands on ≥ 5 bytes; `typ = none` is the unreachable
case and is a no-op here).
Core Lean only.
-/
import TLX.Py
namespace TLX.Session
open TLX

inductive Ver | ssl30 | tls10 | tls11 | tls12 | tls13
  deriving DecidableEq, Repr

/-- `TlsRecord`: `raw` is the whole record, `carriers` identifies the packets in `metadata` (capture times) -/
structure Rec where
  raw : Bytes
  carriers : List Nat
  deriving DecidableEq, Repr

def Rec.typ (r : Rec) : Option UInt8 := r.raw.head?
def Rec.ver (r : Rec) : Bytes := Bytes.slice r.raw 1 3
def Rec.body (r : Rec) : Bytes := r.raw.drop 5

/-- one element of `application_traffic`: `(data, record, isserver)`; `isApp` is a ghost tag -/
structure Entry where
  data : Option Bytes
  record : Rec
  fromServer : Bool
  isApp : Bool
  deriving DecidableEq, Repr

/-- outcomes of `generate_keys`: unknown suite (`can_decrypt = False; return`), no usable key-log line (same), an
    exception anywhere inside (derivation, `Decryptor(...)`), or a new decryptor -/
inductive Gen (δ : Type)
  | noSuite | noSecrets | raised
  | installed (d : δ)

abbrev Exts := List (Bytes × Bytes)

structure Ops (δ : Type) where
  /-- `Decryptor.decrypt(record, isserver)`: state afterwards; `none` = raised, `some none` = returned `None` -/
  decrypt : δ → Rec → Bool → δ × Option (Option Bytes)
  /-- `Decryptor.update_keys(isserver)`: state afterwards; `false` = raised -/
  updateKeys : δ → Bool → δ × Bool
  /-- `generate_keys(tls_version, ciphersuite, client_random, server_random)` reading `self.extensions`,
      `self.compression_method` -/
  genKeys : Option Ver → Bytes → Bytes → Bytes → Exts → UInt8 → Gen δ

structure St (δ : Type) where
  canDecrypt : Bool := false
  chSeen : Bool := false
  ver : Option Ver := none
  srvCC : Bool := false
  cliCC : Bool := false
  dec : Option δ := none
  cr : Option Bytes := none
  traffic : List Entry := []
  /-- `handshake_13_buffer.get(False / True, b"")`: bytes of an unfinished TLS 1.3 handshake message per direction -/
  hsBufC : Bytes := []
  hsBufS : Bytes := []

def St.init {δ : Type} : St δ := {}

def St.push {δ : Type} (s : St δ) (e : Entry) : St δ := { s with traffic := s.traffic ++ [e] }

def St.hsBuf {δ : Type} (s : St δ) (srv : Bool) : Bytes := if srv then s.hsBufS else s.hsBufC
def St.setHsBuf {δ : Type} (s : St δ) (srv : Bool) (b : Bytes) : St δ :=
  if srv then { s with hsBufS := b } else { s with hsBufC := b }

/-- state after a call that may have raised -/
inductive Out (σ : Type)
  | ok (s : σ)
  | raised (s : σ)

def Out.st {σ : Type} : Out σ → σ
  | .ok s => s
  | .raised s => s

def Out.isOk {σ : Type} : Out σ → Bool
  | .ok _ => true
  | .raised _ => false

/-- `try: … except Exception: handler` -/
def tryExcept {σ : Type} (x : Out σ) (handler : σ → σ) : Out σ :=
  match x with
  | .ok s => .ok s
  | .raised s => .ok (handler s)

/-- `if self.exp_meta: self.application_traffic.append((record.raw, record, isserver))` -/
def pushMeta {δ : Type} (exportMeta : Bool) (s : St δ) (r : Rec) (srv : Bool) : St δ :=
  if exportMeta then s.push ⟨some r.raw, r, srv, false⟩ else s

-- ------------------------------------------------------------------ handshake records
/-- handle_tls_client_hello 343-349 (slices never raise) -/
def clientHello {δ : Type} (s : St δ) (r : Rec) : St δ :=
  { s with canDecrypt := false, srvCC := false, cliCC := false, hsBufC := [], hsBufS := [],
           cr := some (Bytes.slice r.body 6 38), chSeen := true }

/-- the `while extensions_index < extensions_length` loop 372-376; `fuel = extensions_length` suffices because the
    index grows by at least 4 per round -/
def extLoop (ebin : Bytes) (elen : Nat) : Nat → Nat → Exts → Exts
  | 0, _, acc => acc
  | fuel + 1, i, acc =>
    if i < elen then
      let l := Bytes.beNat (Bytes.slice ebin (i + 2) (i + 4))
      extLoop ebin elen fuel (i + l + 4) (acc ++ [(Bytes.slice ebin i (i + 2), Bytes.slice ebin (i + 4) (i + 4 + l))])
    else acc

def parseExts (ebin : Bytes) (elen : Nat) : Exts := extLoop ebin elen elen 0 []

/-- `dict.get`: a later assignment to the same key wins -/
def extGet (e : Exts) (k : Bytes) : Option Bytes := (e.reverse.find? (·.1 = k)).map (·.2)

/-- lines 381-395 -/
def chooseVersion {δ : Type} (s : St δ) (recVer helloVer : Nat) (is13 : Bool) : St δ :=
  if recVer = 0x0300 then { s with ver := some .ssl30 }
  else if recVer = 0x0302 then { s with ver := some .tls11 }
  else if helloVer = 0x0301 then { s with ver := some .tls10 }
  else if helloVer = 0x0303 then (if is13 then { s with ver := some .tls13 } else { s with ver := some .tls12 })
  else { s with canDecrypt := false }

/-- line 352-353: `if self.client_hello_seen: self.can_decrypt = True` -/
def latch {δ : Type} (s : St δ) : St δ := if s.chSeen then { s with canDecrypt := true } else s

/-- line 396, `generate_keys(self.tls_version, self.ciphersuite, self.client_random, self.server_random)` and what
    its four outcomes do to the session -/
def serverHelloKeys {δ : Type} (O : Ops δ) (s2 : St δ) (suite sr : Bytes) (exts : Exts) (comp : UInt8) : Out (St δ) :=
  match s2.cr with
  | none => .raised s2                                          -- AttributeError: self.client_random
  | some cr =>
    match O.genKeys s2.ver suite cr sr exts comp with
    | .noSuite => .ok { s2 with canDecrypt := false }
    | .noSecrets => .ok { s2 with canDecrypt := false }
    | .raised => .raised s2
    | .installed d => .ok { s2 with dec := some d }

/-- handle_tls_server_hello 351-396 -/
def serverHello {δ : Type} (O : Ops δ) (s : St δ) (r : Rec) : Out (St δ) :=
  let s1 := latch s
  let b := r.body
  match b[38]? with
  | none => .raised s1                                          -- IndexError: session_id_length
  | some sidLen =>
    let index := 38 + sidLen.toNat + 1
    let suite := Bytes.slice b index (index + 2)
    match b[index + 2]? with
    | none => .raised s1                                        -- IndexError: compression_method
    | some comp =>
      let elen := Bytes.beNat (Bytes.slice b (index + 3) (index + 5))
      let ebin := Bytes.slice b (index + 5) (index + 5 + elen)
      let exts := parseExts ebin elen
      let is13 := decide (extGet exts [0x00, 0x2b] = some [0x03, 0x04])
      let s2 := chooseVersion s1 (Bytes.beNat r.ver) (Bytes.beNat (Bytes.slice b 4 6)) is13
      serverHelloKeys O s2 suite (Bytes.slice b 6 38) exts comp

/-- handle_handshake_finished 330-341. The two `if`s are exclusive (`isserver` / `not isserver`); when neither
    fires `_plaintext` is unbound and line 340 raises iff `exp_meta` (short-circuit `and`). -/
def handshakeFinished {δ : Type} (O : Ops δ) (exportMeta : Bool) (s : St δ) (r : Rec) (srv : Bool) : Out (St δ) :=
  match s.dec with
  | none => .ok s
  | some d =>
    if (s.srvCC && srv && s.canDecrypt) || (s.cliCC && !srv && s.canDecrypt) then
      match O.decrypt d r srv with
      | (d', none) => .raised { s with dec := some d' }
      | (d', some pt) =>
        let s' := { s with dec := some d' }
        if exportMeta && decide (pt ≠ some []) then .ok (s'.push ⟨pt, r, srv, false⟩) else .ok s'
    else if exportMeta then .raised s else .ok s

/-- handle_tls_handshake_record 301-328 -/
def handshakeRecord {δ : Type} (O : Ops δ) (exportMeta : Bool) (s : St δ) (r : Rec) (srv : Bool) : Out (St δ) :=
  if s.srvCC || s.cliCC then tryExcept (handshakeFinished O exportMeta s r srv) id
  else
    match r.body with
    | [] => .ok s
    | t :: _ =>
      if t = 0x01 then .ok (clientHello s r)
      else if t = 0x02 then tryExcept (serverHello O s r) (fun s' => { s' with canDecrypt := false })
      else tryExcept (handshakeFinished O exportMeta s r srv) id

-- ------------------------------------------------------------------ alerts
/-- handle_alert 398-403 -/
def alert {δ : Type} (s : St δ) (level : UInt8) : St δ :=
  if level = 0x01 ∧ s.ver ≠ some .tls13 then s else { s with canDecrypt := false, chSeen := false }

-- ------------------------------------------------------------------ application records
/-- handle_decrypted_tls_13_handshake_record as repaired: `buf` is `handshake_13_buffer[isserver] + plaintext`; whole
    messages are consumed from its front (`while len(buffer) >= 4`, `if len(buffer) < length + 4: break`); the shortened
    buffer is stored BEFORE `update_keys` runs, so a raising `update_keys` leaves the message consumed.
    Result: decryptor, the buffer as stored, `false` = `update_keys` raised. Fuel = `len(buffer)` suffices (every round
    drops at least 4 bytes). -/
def hs13Loop {δ : Type} (O : Ops δ) (srv : Bool) : Nat → Bytes → δ → δ × Bytes × Bool
  | 0, buf, d => (d, buf, true)
  | fuel + 1, buf, d =>
    if buf.length < 4 then (d, buf, true)
    else
      match buf.head? with
      | none => (d, buf, true)                                  -- not reachable: 4 ≤ length
      | some t =>
        let len := Bytes.beNat (Bytes.slice buf 1 4)
        if buf.length < len + 4 then (d, buf, true)
        else
          let rest := buf.drop (len + 4)
          if t = 20 then
            match O.updateKeys d srv with
            | (d', true) => hs13Loop O srv fuel rest d'
            | (d', false) => (d', rest, false)
          else hs13Loop O srv fuel rest d

namespace Legacy
/-- handle_decrypted_tls_13_handshake_record BEFORE the repair (session.py 405-414 of the pinned tree): the walk restarts
    at offset 0 of every record's plaintext; `false` = `update_keys` raised (earlier updates persist) -/
def hs13Loop {δ : Type} (O : Ops δ) (pt : Bytes) (srv : Bool) : Nat → Nat → δ → δ × Bool
  | 0, _, d => (d, true)
  | fuel + 1, i, d =>
    match pt[i]? with
    | none => (d, true)                                         -- `while index < len(plaintext)` ends
    | some t =>
      let len := Bytes.beNat (Bytes.slice pt (i + 1) (i + 4))
      if t = 20 then
        match O.updateKeys d srv with
        | (d', true) => hs13Loop O pt srv fuel (i + len + 4) d'
        | (d', false) => (d', false)
      else hs13Loop O pt srv fuel (i + len + 4) d
end Legacy

/-- `plaintext.rstrip(b'\x00')` -/
def rstrip0 (b : Bytes) : Bytes := (b.reverse.dropWhile (· = 0)).reverse

/-- handle_tls_13_application_record 416-430; `subrecord_type == 21` compares bytes with an int and never holds -/
def app13 {δ : Type} (O : Ops δ) (s : St δ) (r : Rec) (srv : Bool) : Out (St δ) :=
  match s.dec with
  | none => .raised s                                           -- AttributeError on None (caller excludes it)
  | some d =>
    match O.decrypt d r srv with
    | (d1, none) => .raised { s with dec := some d1 }
    | (d1, some none) => .raised { s with dec := some d1 }      -- None.rstrip
    | (d1, some (some pt)) =>
      let p := rstrip0 pt
      let s1 := { s with dec := some d1 }
      match p.getLast? with
      | none => .ok s1
      | some t =>
        if t = 0x16 then
          let buf := s.hsBuf srv ++ p.dropLast
          match hs13Loop O srv buf.length buf d1 with
          | (d2, b, true) => .ok ({ s1 with dec := some d2 }.setHsBuf srv b)
          | (d2, b, false) => .raised ({ s1 with dec := some d2 }.setHsBuf srv b)
        else if t = 0x17 then .ok (s1.push ⟨some p.dropLast, r, srv, true⟩)
        else .ok s1

/-- handle_tls_application_record 432-438 -/
def appLegacy {δ : Type} (O : Ops δ) (s : St δ) (r : Rec) (srv : Bool) : Out (St δ) :=
  match s.dec with
  | none => .ok s                                               -- AttributeError inside the try, then `return`
  | some d =>
    match O.decrypt d r srv with
    | (d1, none) => .ok { s with dec := some d1 }               -- except: return
    | (d1, some pt) => .ok ({ s with dec := some d1 }.push ⟨pt, r, srv, true⟩)

-- ------------------------------------------------------------------ handle_tls_record
def handleRecordRaw {δ : Type} (O : Ops δ) (exportMeta : Bool) (s : St δ) (r : Rec) (srv : Bool) : Out (St δ) :=
  match r.typ with
  | none => .ok s
  | some t =>
    if t = 0x16 then
      match handshakeRecord O exportMeta s r srv with
      | .ok s1 => .ok (pushMeta exportMeta s1 r srv)
      | .raised s1 => .raised s1
    else if t = 0x17 then
      if s.canDecrypt && s.dec.isSome then
        match s.ver with
        | some .tls13 => tryExcept (app13 O s r srv) id
        | some _ => appLegacy O s r srv
        | none => .ok { s with canDecrypt := false }
      else .ok s
    else if t = 0x15 then
      let s1 := match r.body with
        | [] => s
        | lvl :: _ => alert s lvl
      .ok (pushMeta exportMeta s1 r srv)
    else if t = 0x14 then
      let s1 := if srv then { s with srvCC := true } else { s with cliCC := true }
      .ok (pushMeta exportMeta s1 r srv)
    else .ok s

def handleRecord {δ : Type} (O : Ops δ) (exportMeta : Bool) (s : St δ) (r : Rec) (srv : Bool) : St δ :=
  (handleRecordRaw O exportMeta s r srv).st

/-- all records in the order get_tls_records hands them on; an uncaught exception would end the run there -/
def runRaw {δ : Type} (O : Ops δ) (exportMeta : Bool) : St δ → List (Rec × Bool) → Out (St δ)
  | s, [] => .ok s
  | s, (r, srv) :: rest =>
    match handleRecordRaw O exportMeta s r srv with
    | .ok s1 => runRaw O exportMeta s1 rest
    | .raised s1 => .raised s1

def run {δ : Type} (O : Ops δ) (exportMeta : Bool) (s : St δ) (rs : List (Rec × Bool)) : St δ :=
  rs.foldl (fun s x => handleRecord O exportMeta s x.1 x.2) s

end TLX.Session
