/-
The QUIC export of TLExport as ONE executable model: the component models composed the way the source composes the
components (the QUIC twin of TLX/Pipeline.lean).

  main loop (TLX.MainLoop: classification, routing by connection ID / 4-tuple, final concatenation)
    └─ per connection (`quicMachine`, this file = `QuicSession.__init__ / handle_packet / build_output`):
         `extract_quic_packet` + the coalescing loop (TLX.Quic.Dissect, header-protection mask = parameter `mask`)
           fed, turn by turn, with `self.keys` (header-protection keys) and `self.tls_session.ciphersuite`
         packet-level session (TLX.Quic.Session: decryptor choice, key epochs, packet-number spaces, CID learning,
           Retry reset, `handle_frame`) with `Params` instantiated by
              `dev_initial_keys`, `dev_quic_keys`, `key_update`   (TLX.KeySchedule over the hash functions `H`;
                                                                   the driver passes Lean's own SHA-256/384: REAL keys)
              the key-log selection of `set_tls_decryptors`        (TLX.Keylog.quicSessionKeys, `bytes.fromhex`)
              AEAD open                                            (`Pc : Cipher.Prims`; the driver passes `Toy.prims`)
              `QuicTlsSession`                                     (TLX.Quic.CryptoStream for `update_session` /
                                                                   `handle_buffer`, TLX.Quic.TlsMsgs for `handle_record`)
         `output_buffer` → `QUICOutputbuilder.build(metadata)` (TLX.Quic.UdpOut) → frames with addresses and ports

Glue mirrored here
  quic_session.py  __init__ 30-83 (`new`: roles by `set_server_client_address` 304-325, MACs, `ipv6`)
                   handle_packet 242-259 (`feed`: version latch and Initial decryptor = `Quic.Session.handlePacketPre`,
                     `packet_isserver`, the `while len(packet.tls_data) != 0` loop = `Dissect.dissectLoop` whose `handle`
                     is `handle_quic_packet` = `Quic.Session.handleQuicPackets`, so the keys derived while handling one
                     coalesced packet are the ones the next `extract_quic_packet` call of the same datagram reads)
                   handle_crypto_frame 146-154 (`Quic.Session.afterTls` with this file's `params`)
                   set_initial_decryptor 341-358 / set_tls_decryptors 443-447: `self.keys.update(keys)` (`HpKeys`)
                   build_output 121-126 (`out`)
  quic_output_builder.py __init__ 10-26 (`addressed`: port rule = `TcpOut.exportedServerPort`, the same statement
                     as in output_builder.py), the Ether/IP/UDP choice per direction in build 53-111
  quic_tls_parser.py QuicTlsSession: `tlsUpdate` threads the messages `handle_buffer` cuts out through `handle_record`

ADAPTERS (where a component's interface does not fit; none of the component files was changed)
  * `Quic.Session.St` records only WHICH groups `self.keys` holds (four booleans); the dissector needs the header-protection
    key BYTES. `Params` has no channel for them, so they ride in the TLS-parser state `Tls` (`hp`), which the session
    model treats as opaque: `tlsClearNewData` — called by `Quic.Session.afterTls` exactly when `set_tls_decryptors` returned
    normally — redoes the derivation with the same arguments (client random and cipher suite of the parser state,
    version stamped into `Tls.ver` by `feed`, same key log) and stores what `self.keys.update(keys)` stored;
    `feed` does the same for `set_initial_decryptor`. `Params.tlsInit` has them empty, so the Retry reset
    (`self.keys = {}`) clears them with the rest.
  * `CryptoStream.update` takes `raises : Bytes → Bool` (does `handle_record` raise on this message?) while
    `TlsMsgs.handleRecord` answers that together with the new parser state: `recordRaises` asks it on the initial
    state (the answer does not depend on the state: `Props.C02Pipeline.handleRecord_err_indep`).
  * `Dissect.dissectLoop`'s `handle` cannot stop the loop; an exception escaping `handle_quic_packet` (none exists for
    packets the dissector builds: `Props.C02Pipeline.quic_conn_never_raises`) is latched in the loop state and makes
    every later turn a no-op; `QConn.raised` keeps it.
  * `KeySchedule.devInitialKeys / keyUpdate` return `Except` (OverflowError of `int.to_bytes` in `make_info`, IndexError
    of `keys[4]`): impossible for the constant lengths used here; the adapters map an error to "no keys" / default keys.

Not modelled: `alpn` / `greasy_bit` copies of handle_crypto_frame (stored, never read), logging and `print`, scapy
serialisation and the pcapng writer (the correspondence parses the real output file back), `reset()` (never called).
Core Lean only (linked into `tlxdriver`).
-/
import TLX.Pipeline
import TLX.Quic.Dissect
import TLX.Quic.Session
import TLX.Quic.CryptoStream
import TLX.Quic.TlsMsgs
import TLX.Quic.UdpOut
namespace TLX.QuicPipeline
open TLX TLX.Quic

-- ------------------------------------------------------------------ `self.keys`: what the dissector reads of it
/-- the seven entries of `self.keys` that `extract_quic_packet` looks up; `none`: missing or `None` -/
structure HpKeys where
  serverInitial : Option Bytes := none
  clientInitial : Option Bytes := none
  serverHandshake : Option Bytes := none
  clientHandshake : Option Bytes := none
  clientEarly : Option Bytes := none
  serverApplication : Option Bytes := none
  clientApplication : Option Bytes := none
  deriving DecidableEq, Repr, Inhabited

def HpKeys.get (k : HpKeys) : Dissect.KeyName → Option Bytes
  | .serverInitial => k.serverInitial | .clientInitial => k.clientInitial
  | .serverHandshake => k.serverHandshake | .clientHandshake => k.clientHandshake
  | .clientEarly => k.clientEarly
  | .serverApplication => k.serverApplication | .clientApplication => k.clientApplication

/-- `self.keys.update(keys)` in set_initial_decryptor -/
def HpKeys.withInitial (k : HpKeys) (i : KeySchedule.InitialKeys) : HpKeys :=
  { k with serverInitial := some i.serverHp, clientInitial := some i.clientHp }

/-- `self.keys.update(keys)` in set_tls_decryptors: the dict of dev_quic_keys has every name; the early entries are
    `None` without an early secret (and overwrite what an earlier call stored) -/
def HpKeys.withTls (k : HpKeys) (q : KeySchedule.QuicKeys) : HpKeys :=
  { k with serverHandshake := some q.serverHs.hp, clientHandshake := some q.clientHs.hp,
           serverApplication := some q.serverApp.hp, clientApplication := some q.clientApp.hp,
           clientEarly := q.clientEarly.map (·.hp) }

-- ------------------------------------------------------------------ the key derivations
def qver : Quic.Session.Version → KeySchedule.QuicVersion
  | .unknown => .unknown | .v1 => .v1 | .v2 => .v2

def sver : MainLoop.Version → Quic.Session.Version
  | .unknown => .unknown | .v1 => .v1 | .v2 => .v2

def hashOf (H : Crypto.Prims) : Quic.Session.HashSel → Crypto.HashSuite
  | .sha256 => H.sha256 | .sha384 => H.sha384

/-- `dev_initial_keys(dcid, self.quic_version, False)` -/
def devInitial (H : Crypto.Prims) (v : Quic.Session.Version) (dcid : Bytes) : Option KeySchedule.InitialKeys :=
  match KeySchedule.devInitialKeys H.sha256 dcid (qver v) false with
  | .ok r => r
  | .error _ => none

/-- the lines dev_quic_keys will `bytes.fromhex`: those with one of its six labels; `none` = ValueError -/
def quicSecrets (ks : List Keylog.Key) : Option (List KeySchedule.Secret) :=
  ks.mapM fun k =>
    if Keylog.labelsQuic.contains k.label then
      (Keylog.fromHex k.value).map fun v => (Pipeline.labelOf k.label, Pipeline.bytesOfNats v)
    else some (.other, [])

/-- set_tls_decryptors 435-441: the key-log filter `bytes.fromhex(key.client_random) == client_random` and
    `dev_quic_keys(self.key_length, session_keys, self.hash_fun(), self.quic_version)` -/
def devQuic (H : Crypto.Prims) (kl : List Keylog.Key) (sel : Quic.Session.SuiteSel) (v : Quic.Session.Version) (cr : Bytes) :
    Except Cipher.PyErr KeySchedule.QuicKeys :=
  match Keylog.quicSessionKeys kl (Pipeline.natsOfBytes cr) with
  | none => .error .value
  | some sks =>
    match quicSecrets sks with
    | none => .error .value
    | some secrets =>
      match KeySchedule.devQuicKeys (hashOf H sel.hash) sel.keyLen secrets (qver v) with
      | .ok k => .ok k
      | .error .unbound => .error .unbound
      | .error .overflow => .error .overflow
      | .error _ => .error .other

def dirOf (t : KeySchedule.Triple) : Quic.Session.DirKeys := ⟨t.key, t.iv⟩

/-- what set_tls_decryptors reads of the dict: with the derived keys every `QuicDecryptor(...)` succeeds, except
    `bulk_cipher(None)` for the Early decryptor without an early secret -/
def groupsOf (k : KeySchedule.QuicKeys) : Quic.Session.KeyGroups :=
  { hs := some (dirOf k.serverHs, dirOf k.clientHs)
    app := some ⟨dirOf k.serverApp, dirOf k.clientApp, k.serverAppSec, k.clientAppSec⟩
    early := k.clientEarly.map dirOf }

/-- `key_update(self.decryptors["Application"][-1], self.hash_fun, self.key_length, self.cipher, self.quic_version)` -/
def keyUpdate (H : Crypto.Prims) (sel : Quic.Session.SuiteSel) (_v : Quic.Session.Version) (ssec csec : Bytes) : Quic.Session.AppKeys :=
  match KeySchedule.keyUpdate (hashOf H sel.hash) sel.keyLen [[], [], [], [], ssec, csec] with
  | .ok [sk, siv, ck, civ, ss, cs] => ⟨⟨sk, siv⟩, ⟨ck, civ⟩, ss, cs⟩
  | _ => default

-- ------------------------------------------------------------------ `QuicTlsSession`
/-- the dict keys of the per-direction tables; `none`: KeyError (a RETRY / VERSION_NEG packet is never decrypted) -/
def ptOf : PType → Option CryptoStream.PT
  | .initial => some .initial | .rtt0 => some .rtt0 | .rtt1 => some .rtt1 | .handshake => some .handshake
  | .retry | .versionNeg => none

/-- does `handle_record(m[0], m)` raise? -/
def recordRaises (m : Bytes) : Bool :=
  match m with
  | [] => false
  | t :: _ => (TlsMsgs.handleRecord {} t.toNat m).2.isSome

/-- `handle_record(buffer[0], buffer[:4 + record_len])` for the messages of one `handle_buffer`, in call order -/
def feedRecords (s : TlsMsgs.State) (ms : List Bytes) : TlsMsgs.State :=
  ms.foldl (fun s m => match m with
    | [] => s
    | t :: _ => (TlsMsgs.handleRecord s t.toNat m).1) s

/-- a `QuicTlsSession` object, plus the adapter fields (header) -/
structure Tls where
  frames : CryptoStream.State := CryptoStream.State.init
  msgs : TlsMsgs.State := {}
  /-- object identity of the next CryptoFrame -/
  nextId : Nat := 0
  /-- adapter: `QuicSession.quic_version` as `feed` stamped it -/
  ver : Quic.Session.Version := .unknown
  /-- adapter: the header-protection entries of `QuicSession.keys` -/
  hp : HpKeys := {}

/-- `update_session(frame)` -/
def tlsUpdate (t : Tls) (c : Quic.Session.CryptoIn) : Tls × Option Cipher.PyErr :=
  match ptOf c.ptype with
  | none => (t, some .key)
  | some pt =>
    let r := CryptoStream.update recordRaises t.frames (c.isServer, pt) ⟨t.nextId, c.offset, c.data, c.length⟩
    ({ t with frames := r.1, msgs := feedRecords t.msgs r.2.1, nextId := t.nextId + 1 },
     if r.2.2 then some .index else none)

/-- `self.tls_session.new_data = False`, reached only after `set_tls_decryptors(client_random, ciphersuite)` returned
    normally or was not called: the place where `self.keys.update(keys)` becomes visible to the dissector -/
def tlsClearNewData (H : Crypto.Prims) (kl : List Keylog.Key) (t : Tls) : Tls :=
  let hp :=
    match t.msgs.clientRandom, t.msgs.ciphersuite with
    | some cr, some cs =>
      match Quic.Session.selectSuite cs with
      | none => t.hp                                  -- unknown suite: returns before the derivation
      | some sel =>
        match devQuic H kl sel t.ver cr with
        | .ok k => t.hp.withTls k
        | .error _ => t.hp                            -- not reached: `afterTls` leaves `new_data` set on an exception
    | _, _ => t.hp
  { t with msgs := { t.msgs with newData := false }, hp := hp }

/-- the `Params` of the real pipeline -/
def params (H : Crypto.Prims) (Pc : Cipher.Prims) (kl : List Keylog.Key) : Quic.Session.Params Tls where
  prims := Pc
  devInitialKeys v dcid :=
    (devInitial H v dcid).map fun k => (⟨k.serverKey, k.serverIv⟩, ⟨k.clientKey, k.clientIv⟩)
  devQuicKeys sel v cr := (devQuic H kl sel v cr).map groupsOf
  keyUpdate := keyUpdate H
  tlsInit := {}
  tlsUpdate := tlsUpdate
  tlsClientRandom t := t.msgs.clientRandom
  tlsCiphersuite t := t.msgs.ciphersuite
  tlsNewData t := t.msgs.newData
  tlsClearNewData := tlsClearNewData H kl

-- ------------------------------------------------------------------ one connection
/-- a `QuicSession` object -/
structure QConn where
  /-- `portmap`, `keep_original_ports` as stored by `__init__` -/
  opts : MainLoop.Opts
  server : MainLoop.Endpoint
  client : MainLoop.Endpoint
  serverMac : Bytes
  clientMac : Bytes
  ipv6 : Bool
  st : Quic.Session.St Tls
  /-- an exception that left `handle_packet` (none ever does: `Props.C02Pipeline.quic_conn_never_raises`) -/
  raised : Option Cipher.PyErr := none

abbrev LoopSt := Quic.Session.St Tls × Option Cipher.PyErr

/-- `keys=self.keys, ciphersuite=self.tls_session.ciphersuite` of the next `extract_quic_packet` call -/
def envOf (s : Quic.Session.St Tls) : Dissect.Env :=
  { keys := s.tls.hp.get, chacha := s.tls.msgs.ciphersuite == some [0x13, 0x03] }

def stampVer (s : Quic.Session.St Tls) : Quic.Session.St Tls := { s with tls := { s.tls with ver := s.version } }

/-- `self.packet_buffer_quic.extend(quic_packets); self.handle_quic_packet()` -/
def handleTurn (P : Quic.Session.Params Tls) (x : LoopSt) (pkts : List Pkt) : LoopSt :=
  match x.2 with
  | some _ => x
  | none =>
    let r := Quic.Session.handleQuicPackets P x.1 pkts
    (stampVer r.1, r.2.2)

/-- `handle_packet` up to the loop: the state, with `self.keys` updated by set_initial_decryptor -/
def feedPre (H : Crypto.Prims) (P : Quic.Session.Params Tls) (s : Quic.Session.St Tls) (dcid : Bytes) (v : Quic.Session.Version) :
    Quic.Session.St Tls :=
  let s0 := Quic.Session.latchVersion s v
  let s1 := Quic.Session.handlePacketPre P s dcid v
  let s2 : Quic.Session.St Tls :=
    if s0.decInitial.isNone then
      match devInitial H s0.version dcid with
      | some k => { s1 with tls := { s1.tls with hp := s1.tls.hp.withInitial k } }
      | none => s1
    else s1
  stampVer s2

/-- `handle_packet(packet, dcid, quic_version)` on the datagram `payload` captured at `ts`;
    `fromClientAddr` = `packet.ip_src == self.client_ip and packet.sport == self.client_port` -/
def handleDatagram (mask : Dissect.MaskFn) (H : Crypto.Prims) (P : Quic.Session.Params Tls) (s : Quic.Session.St Tls)
    (fromClientAddr : Bool) (dcid : Bytes) (v : Quic.Session.Version) (ts : Nat) (payload : Bytes) : LoopSt :=
  let s1 := feedPre H P s dcid v
  let srv := Quic.Session.packetIsServer s1 fromClientAddr dcid
  (Dissect.dissectLoop mask (fun x : LoopSt => envOf x.1) (handleTurn P) srv dcid ts (s1, none) payload).1

/-- one element of `output_buffer` as the output builder reads it: `frame_type`, `src_packet.ts`,
    `src_packet.isserver`, and `crypto` / `stream_data` / `payload` (`supported_version`, the empty tuple) -/
def frameOf (o : Quic.Session.Out) : UdpOut.Frame :=
  match o.frame with
  | .parsed (.crypto _ _ _ d) => ⟨0x06, o.ts, o.isServer, d⟩
  | .parsed (.stream ft _ _ _ _ _ _ _ d) => ⟨ft, o.ts, o.isServer, d⟩
  | .parsed _ => ⟨0xff, o.ts, o.isServer, []⟩          -- never appended to `output_buffer`
  | .versionNeg => ⟨0xfe, o.ts, o.isServer, []⟩

/-- the Ether / IP / UDP layers `build` puts around the payload (QUICOutputbuilder.__init__ and the four branches) -/
def addressed (c : QConn) (d : UdpOut.Dgram) : Pipeline.OutPkt :=
  let sp := TcpOut.exportedServerPort c.opts.keep (Pipeline.portmapFn c.opts.portmap) c.server.port
  let s : MainLoop.Endpoint := ⟨c.server.ip, sp⟩
  if d.isServer then ⟨d.ts, c.serverMac, c.clientMac, s, c.client, c.ipv6, 0, 0, 0, d.payload, true⟩
  else ⟨d.ts, c.clientMac, c.serverMac, c.client, s, c.ipv6, 0, 0, 0, d.payload, true⟩

/-- `build_output(metadata)` -/
def connOut (metadata : Bool) (c : QConn) : List Pipeline.OutPkt :=
  if c.st.out.isEmpty then []
  else (UdpOut.build metadata (c.st.out.map frameOf)).map (addressed c)

/-- the QUIC machine of the main loop -/
def quicMachine (mask : Dissect.MaskFn) (H : Crypto.Prims) (Pc : Cipher.Prims) (info : Nat → Pipeline.Info) :
    MainLoop.QuicMachine Keylog.Key QConn Pipeline.OutPkt where
  new o p :=
    let r := MainLoop.rolesOf o.ports p
    let i := info p.tag
    let srcIsServer := o.ports.contains (p.src.port : Int)       -- `packet.sport in server_ports`
    { opts := o, server := r.1, client := r.2,
      serverMac := if srcIsServer then i.srcMac else i.dstMac,
      clientMac := if srcIsServer then i.dstMac else i.srcMac,
      ipv6 := i.ipv6, st := Quic.Session.St.init (params H Pc []) }
  feed c kl p dcid ver :=
    match c.raised with
    | some _ => c
    | none =>
      let r := handleDatagram mask H (params H Pc kl) c.st (p.src == c.client) dcid (sver ver) (info p.tag).ts p.payload
      { c with st := r.1, raised := r.2 }
  clientCids c := c.st.clientCids
  serverCids c := c.st.serverCids
  out md c := connOut md c

end TLX.QuicPipeline
