/-
C02 (dissector part) — QUIC v1 packets are taken out of a datagram exactly, whatever the connection-ID lengths, the
packet-number length, the varint widths, coalescing, Retry or Version Negotiation; arbitrary bytes never abort or hang
the dissector (C03/C17-style totality).

Model:  TLX/Quic/Dissect.lean — `extract` (= extract_quic_packet of tlexport/quic/quic_dissector.py with
        remove_header_protection, byte_xor/byte_and, get_header_type/get_packet_type), `dissectLoop` / `dissectAll`
        (the `while len(packet.tls_data) != 0` loop of QuicSession.handle_packet), `aad` (the associated data
        QuicSession.decrypt_packet assembles). The header-protection primitive is a PARAMETER `mask`
        (`none` = it raises); the `keys` dict and the cipher-suite test are the input `Env`.
Spec:   TLX/Spec/QuicPackets.lean (RFC 9000 §17.2/§17.3 encoders, RFC 9001 §5.4 header protection with the same
        abstract mask), TLX/Spec/QuicPacketsExpect.lean (`toPkt`: what a correct dissector reports),
        TLX/Spec/QuicDissectStmt.lean (`senderKey`, `LongOK`, `Tail`, `Chain`: vocabulary of the statements).
Property theorems only; helper lemmas are in TLX/Lemmas/QuicDissect.lean. All statements are for all inputs.

Hypotheses of the round-trip theorems, and where each comes from:
  `p.wf`                         the packet is encodable at all (8-bit CID length fields, varints fit their widths,
                                 packet number 1..4 bytes, 2 reserved bits)            — RFC 9000 §17.2
  `p.version ≠ 0`                version 0 IS Version Negotiation                     — RFC 9000 §17.2.1
  `p.scid.length ≤ 63`           CODE LIMIT, weaker than RFC 9000 v1 (≤ 20): `scid_len` is decoded as a varint;
                                 `scid_len_limit` is the failing side (64 ≤ length ⇒ datagram dropped)
  (DCID: any length the 8-bit field can carry, 0..255; short header: any length — it is `guessed_dcid`)
  `20 ≤ pn.length + payload.length`   the 16-byte sample exists                   — RFC 9001 §5.4.2 (senders pad)
  keys/mask                      the receiver holds the sender's header-protection key under the name of the sender's
                                 level and direction; the primitive returns a mask of ≥ 5 bytes for the sample
                                                                                       — RFC 9001 §5.4.1/§5.4.3/§5.4.4
  short header: `guessed = p.dcid` (the session guessed the connection ID); NOTHING may follow a short-header packet
                                 (it has no length: RFC 9000 §12.2 "cannot be followed by another packet")
  long header: ANY bytes may follow (`rest`), in particular more packets or zero padding.
Termination ("cannot hang") is carried by the DEFINITION of `dissectLoop` (well-founded recursion on the remaining
length, accepted only because of `Dissect.extract_rest_lt`); `dissect_progress` / `dissect_total` state it.
-/
import TLX.Lemmas.QuicDissect
namespace TLX.Props.C02Dissect
open TLX TLX.Quic TLX.Quic.Dissect TLX.Spec.QuicPackets TLX.Spec.QuicFrames

/-! ### one packet -/

/-- Initial, 0-RTT and Handshake packets, every DCID length 0..255, SCID length 0..63, any token, any varint widths,
    packet-number length 1..4, any reserved bits, any mask, ANYTHING after the packet: one call of
    extract_quic_packet returns exactly that packet — unprotected first byte, packet-number bytes, payload, DCID,
    SCID, their length bytes, token and token-length bytes, Length bytes — and leaves exactly what followed it. -/
theorem dissect_encode_long (mask : MaskFn) (env : Env) (isServer : Bool) (guessed : Bytes) (ts : Nat) (p : Long)
    (hwf : p.wf) (hver : p.version ≠ [0, 0, 0, 0]) (hscid : p.scid.length ≤ 63)
    (h20 : 20 ≤ p.pn.length + p.payload.length)
    (key m : Bytes) (hk : env.keys (senderKey p.ty isServer) = some key)
    (hm : mask (senderChacha p.ty env.chacha) key p.sample = some m) (hm5 : 5 ≤ m.length) (rest : Bytes) :
    extract mask env isServer guessed ts (p.protect m ++ rest) = { pkts := [p.toPkt isServer ts], rest := rest } :=
  Lemmas.QuicDissect.extract_protect_long mask env isServer guessed ts p hwf hver hscid h20 key m hk hm hm5 rest

/-- 1-RTT packets, any DCID length (the guessed one), packet-number length 1..4, any spin / reserved / key-phase
    bits, any mask: the packet is returned with its unprotected first byte, packet number, payload and key phase;
    it takes the whole rest of the datagram. -/
theorem dissect_encode_short (mask : MaskFn) (env : Env) (isServer : Bool) (ts : Nat) (p : Short)
    (hwf : p.wf) (h20 : 20 ≤ p.pn.length + p.payload.length) (key m : Bytes)
    (hk : env.keys (if isServer then .serverApplication else .clientApplication) = some key)
    (hm : mask env.chacha key p.sample = some m) (hm5 : 5 ≤ m.length) :
    extract mask env isServer p.dcid ts (p.protect m) = { pkts := [p.toPkt isServer ts], rest := [] } :=
  Lemmas.QuicDissect.extract_protect_short mask env isServer ts p hwf h20 key m hk hm hm5

/-- Retry: connection IDs, token and the 16-byte integrity tag, whatever keys are (not) there. -/
theorem dissect_encode_retry (mask : MaskFn) (env : Env) (isServer : Bool) (guessed : Bytes) (ts : Nat) (p : Retry)
    (hwf : p.wf) (hver : p.version ≠ [0, 0, 0, 0]) (hscid : p.scid.length ≤ 63) :
    extract mask env isServer guessed ts p.encode = { pkts := [p.toPkt isServer ts], rest := [] } :=
  Lemmas.QuicDissect.extract_retry mask env isServer guessed ts p hwf hver hscid

/-- Version Negotiation: the packet is returned with its connection IDs (tlexport keeps no version list); the code
    leaves `total_packet_len` unbound, the UnboundLocalError is caught and ends the datagram — which is where a
    Version Negotiation packet ends anyway. -/
theorem dissect_encode_version_negotiation (mask : MaskFn) (env : Env) (isServer : Bool) (guessed : Bytes) (ts : Nat)
    (p : VerNeg) (hwf : p.wf) (hscid : p.scid.length ≤ 63) :
    extract mask env isServer guessed ts p.encode =
      { pkts := [p.toPkt isServer ts], rest := [], err := some .unbound } :=
  Lemmas.QuicDissect.extract_verneg mask env isServer guessed ts p hwf hscid

/-- the all-zero remainder of a datagram is dropped without a packet and without an error -/
theorem zero_padding_dropped (mask : MaskFn) (env : Env) (isServer : Bool) (guessed : Bytes) (ts : Nat) (n : Nat) :
    extract mask env isServer guessed ts (List.replicate (n + 1) 0) = { pkts := [], rest := [] } :=
  Lemmas.QuicDissect.extract_zeros mask env isServer guessed ts n

/-- CODE LIMIT (the excluded side of `hscid`): a long-header packet whose Source Connection ID has 64..255 bytes —
    encodable, but outside QUIC v1 (≤ 20) — is not dissected: IndexError in `decode_variable_length_int` on the
    one-byte SCID Length field, the whole datagram is dropped. -/
theorem scid_len_limit (mask : MaskFn) (env : Env) (isServer : Bool) (guessed : Bytes) (ts : Nat) (p : Long)
    (hwf : p.wf) (h64 : 64 ≤ p.scid.length) (m rest : Bytes) :
    extract mask env isServer guessed ts (p.protect m ++ rest) = { pkts := [], rest := [], err := some .index } :=
  Lemmas.QuicDissect.extract_scid_too_long mask env isServer guessed ts p hwf h64 m rest

/-! ### coalesced datagrams -/

/-- The loop of handle_packet on a datagram that is the concatenation of n protected long-header packets (any mix
    of Initial / 0-RTT / Handshake), optionally followed by one short-header packet or by zero padding, yields exactly
    those packets in order — for a session whose keys may change while the datagram is processed (`LongsOK`: packet i
    is protected under the keys the session holds after packets < i were handled). By induction on n. -/
theorem dissect_coalesced_loop {σ : Type} (mask : MaskFn) (envOf : σ → Env) (handle : σ → List Pkt → σ)
    (isServer : Bool) (guessed : Bytes) (ts : Nat) (longs : List (Long × Bytes)) (tail : Tail) (s : σ)
    (hl : LongsOK mask envOf handle isServer ts s longs)
    (ht : TailOK mask (envOf (afterLongs handle isServer ts s longs)) isServer guessed tail) :
    (dissectLoop mask envOf handle isServer guessed ts s
        ((longs.map (fun x => x.1.protect x.2)).flatten ++ tail.bytes)).2 =
      longs.map (fun x => x.1.toPkt isServer ts) ++ tail.pkts isServer ts :=
  Lemmas.QuicDissect.loop_coalesced mask envOf handle isServer guessed ts longs tail s hl ht

/-- … with keys that are all there from the start. -/
theorem dissect_coalesced (mask : MaskFn) (env : Env) (isServer : Bool) (guessed : Bytes) (ts : Nat)
    (longs : List (Long × Bytes)) (tail : Tail)
    (hl : ∀ x ∈ longs, LongOK mask env isServer x) (ht : TailOK mask env isServer guessed tail) :
    dissectAll mask env isServer guessed ts ((longs.map (fun x => x.1.protect x.2)).flatten ++ tail.bytes) =
      longs.map (fun x => x.1.toPkt isServer ts) ++ tail.pkts isServer ts := by
  unfold dissectAll
  apply dissect_coalesced_loop
  · induction longs with
    | nil => trivial
    | cons x xs ih => exact ⟨hl x (by simp), ih (fun y hy => hl y (by simp [hy]))⟩
  · exact ht

/-! ### arbitrary bytes -/

/-- every call on non-empty data — ANY bytes, keys, mask, guessed connection ID — returns at most one packet and a
    remainder that is a proper suffix `d[t:]`, `t ≥ 1` (the measure that makes the loop terminate) -/
theorem dissect_progress (mask : MaskFn) (env : Env) (isServer : Bool) (guessed : Bytes) (ts : Nat) (d : Bytes)
    (hd : d ≠ []) :
    (∃ t, 1 ≤ t ∧ (extract mask env isServer guessed ts d).rest = d.drop t) ∧
    (extract mask env isServer guessed ts d).rest.length < d.length ∧
    (extract mask env isServer guessed ts d).pkts.length ≤ 1 :=
  ⟨extract_rest_suffix mask env isServer guessed ts d hd,
   extract_rest_lt mask env isServer guessed ts d (by intro h; exact hd (List.eq_nil_of_length_eq_zero h)),
   Lemmas.QuicDissect.extract_pkts_le_one mask isServer guessed ts env d⟩

/-- For ALL byte strings, keys, masks and session behaviours the loop of handle_packet terminates (`dissectLoop` is a
    total function — no uncaught error, no hang); its calls tile the datagram (`Chain`: each call gets the non-empty
    remainder of the previous one, consumes or drops ≥ 1 byte, the last leaves nothing: every byte is consumed or
    dropped), there are at most `len(datagram)` calls, and the packets returned are those of the calls, in order. -/
theorem dissect_loop_total {σ : Type} (mask : MaskFn) (envOf : σ → Env) (handle : σ → List Pkt → σ)
    (isServer : Bool) (guessed : Bytes) (ts : Nat) (s : σ) (d : Bytes) :
    let tr := dissectTrace mask envOf handle isServer guessed ts s d
    Chain d tr ∧ tr.length ≤ d.length ∧
    (dissectLoop mask envOf handle isServer guessed ts s d).2 = (tr.map (·.2.pkts)).flatten :=
  Lemmas.QuicDissect.trace_chain mask envOf handle isServer guessed ts d.length s d rfl

/-- … for fixed keys: `dissectAll`. -/
theorem dissect_total (mask : MaskFn) (env : Env) (isServer : Bool) (guessed : Bytes) (ts : Nat) (d : Bytes) :
    ∃ tr : List (Bytes × Out), ∃ pkts : List Pkt,
      dissectAll mask env isServer guessed ts d = pkts ∧ pkts = (tr.map (·.2.pkts)).flatten ∧
      Chain d tr ∧ tr.length ≤ d.length ∧ pkts.length ≤ d.length := by
  obtain ⟨h1, h2, h3⟩ := dissect_loop_total (σ := Unit) mask (fun _ => env) (fun _ _ => ()) isServer guessed ts () d
  refine ⟨_, _, rfl, h3, h1, h2, ?_⟩
  unfold dissectAll
  rw [h3]
  refine Nat.le_trans ?_ h2
  have key : ∀ (tr : List (Bytes × Out)) (d : Bytes), Chain d tr → ((tr.map (·.2.pkts)).flatten).length ≤ tr.length := by
    intro tr
    induction tr with
    | nil => intro _ _; simp
    | cons x xs ih =>
      intro d hc
      obtain ⟨_, _, _, hle, hch⟩ := hc
      simp only [List.map_cons, List.flatten_cons, List.length_append, List.length_cons]
      have := ih _ hch
      omega
  exact key _ _ h1

/-- "never invents data": on ARBITRARY bytes the payload, the token and the Length bytes of every returned packet are
    Python slices `datagram[a:b]` of the data the call was given (the packet number is such a slice XOR the mask) -/
theorem no_invented_data (mask : MaskFn) (env : Env) (isServer : Bool) (guessed : Bytes) (ts : Nat) (d : Bytes)
    (p : Pkt) (hp : p ∈ (extract mask env isServer guessed ts d).pkts) :
    (∀ x, p.payload = some x → ∃ a b, x = Bytes.slice d a b) ∧
    (∀ x, p.token = some x → ∃ a b, x = Bytes.slice d a b) ∧
    (∀ x, p.lenBytes = some x → ∃ a b, x = Bytes.slice d a b) :=
  Lemmas.QuicDissect.extract_fields_slices mask env isServer guessed ts d p hp

/-! ### the associated data -/

/-- RFC 9001 §5.3: the associated data QuicSession.decrypt_packet assembles from the dissected fields of a long-header
    packet is the unprotected header, first byte up to and including the packet number … -/
theorem aad_is_header_long (p : Long) (fromServer : Bool) (ts : Nat) :
    aad (p.toPkt fromServer ts) = some p.header :=
  Lemmas.QuicDissect.aad_long p fromServer ts

/-- … and so for a short-header packet. -/
theorem aad_is_header_short (p : Short) (fromServer : Bool) (ts : Nat) :
    aad (p.toPkt fromServer ts) = some p.header :=
  Lemmas.QuicDissect.aad_short p fromServer ts

/-- From the wire: the packet that extract_quic_packet returns for a protected long-header packet carries exactly the
    sender's AEAD associated data. -/
theorem aad_is_header (mask : MaskFn) (env : Env) (isServer : Bool) (guessed : Bytes) (ts : Nat) (p : Long)
    (hwf : p.wf) (hver : p.version ≠ [0, 0, 0, 0]) (hscid : p.scid.length ≤ 63)
    (h20 : 20 ≤ p.pn.length + p.payload.length)
    (key m : Bytes) (hk : env.keys (senderKey p.ty isServer) = some key)
    (hm : mask (senderChacha p.ty env.chacha) key p.sample = some m) (hm5 : 5 ≤ m.length) (rest : Bytes) :
    (extract mask env isServer guessed ts (p.protect m ++ rest)).pkts.map aad = [some p.header] := by
  rw [dissect_encode_long mask env isServer guessed ts p hwf hver hscid h20 key m hk hm hm5 rest]
  simp [aad_is_header_long]

/-! ### the hypotheses are satisfiable: concrete packets -/

/-- a primitive in which flag, key and sample matter -/
def exMask : MaskFn := fun c k s =>
  some [UInt8.ofNat (s.length + k.length), if c then 0x11 else 0x01, 0x22, 0x33, 0x44]
def exEnv : Env := { keys := fun n => if n = .clientEarly then none else some [1, 2, 3], chacha := true }

def exInitial : Long :=
  { ty := .initial, reserved := 0, dcid := [1, 2, 3, 4, 5, 6, 7, 8], scid := [], tokenW := ⟨1, by decide⟩,
    token := [9, 9, 9], lenW := ⟨1, by decide⟩, pn := [0, 7], payload := List.replicate 30 0xAB }
def exHandshake : Long :=
  { ty := .handshake, reserved := 1, dcid := [], scid := List.replicate 20 5, lenW := ⟨2, by decide⟩,
    pn := [1, 2, 3, 4], payload := List.replicate 16 0xCD }
def exShort : Short := { keyPhase := true, dcid := [], pn := [0x2a], payload := List.replicate 19 0xEF }
def exRetry : Retry := { dcid := [1], scid := [2, 3], token := [7, 7, 7], tag := List.replicate 16 0xAA }
def exVerNeg : VerNeg := { dcid := [1], scid := [2, 3], versions := [[0, 0, 0, 1], [0x6b, 0x33, 0x43, 0xcf]] }
def exMaskI : Bytes := [19, 0x01, 0x22, 0x33, 0x44]
def exMaskH : Bytes := [19, 0x11, 0x22, 0x33, 0x44]

example : extract exMask exEnv false [] 5 (exInitial.protect exMaskI ++ [0xde, 0xad]) =
    { pkts := [exInitial.toPkt false 5], rest := [0xde, 0xad] } :=
  dissect_encode_long exMask exEnv false [] 5 exInitial (by decide) (by decide) (by decide) (by decide)
    [1, 2, 3] exMaskI rfl (by decide) (by decide) _

example : extract exMask exEnv true [] 5 (exShort.protect exMaskH) = { pkts := [exShort.toPkt true 5], rest := [] } :=
  dissect_encode_short exMask exEnv true 5 exShort (by decide) (by decide) [1, 2, 3] exMaskH rfl (by decide) (by decide)

example : extract exMask exEnv true [9] 5 exRetry.encode = { pkts := [exRetry.toPkt true 5], rest := [] } :=
  dissect_encode_retry exMask exEnv true [9] 5 exRetry (by decide) (by decide) (by decide)

example : extract exMask exEnv true [9] 5 exVerNeg.encode =
    { pkts := [exVerNeg.toPkt true 5], rest := [], err := some .unbound } :=
  dissect_encode_version_negotiation exMask exEnv true [9] 5 exVerNeg (by decide) (by decide)

example : extract exMask exEnv true [9] 5 [0, 0, 0] = { pkts := [], rest := [] } :=
  zero_padding_dropped exMask exEnv true [9] 5 2

example : extract exMask exEnv true [] 5 ({ exHandshake with scid := List.replicate 64 5 }.protect exMaskH ++ [1]) =
    { pkts := [], rest := [], err := some .index } :=
  scid_len_limit exMask exEnv true [] 5 _ (by decide) (by decide) _ _

/-- Initial + Handshake + 1-RTT in one datagram -/
example : dissectAll exMask exEnv false [] 5
    (exInitial.protect exMaskI ++ (exHandshake.protect exMaskH ++ exShort.protect exMaskH)) =
    [exInitial.toPkt false 5, exHandshake.toPkt false 5, exShort.toPkt false 5] := by
  have := dissect_coalesced exMask exEnv false [] 5 [(exInitial, exMaskI), (exHandshake, exMaskH)]
    (.short exShort exMaskH)
    (by
      intro x hx
      simp only [List.mem_cons, List.not_mem_nil, or_false] at hx
      rcases hx with rfl | rfl
      · exact ⟨by decide, by decide, by decide, by decide, by decide, [1, 2, 3], rfl, by decide⟩
      · exact ⟨by decide, by decide, by decide, by decide, by decide, [1, 2, 3], rfl, by decide⟩)
    ⟨by decide, by decide, by decide, rfl, [1, 2, 3], rfl, by decide⟩
  simpa [Tail.bytes, Tail.pkts] using this

/-- … and with zero padding instead of the short-header packet -/
example : dissectAll exMask exEnv false [] 5 (exInitial.protect exMaskI ++ List.replicate 100 0) =
    [exInitial.toPkt false 5] := by
  have := dissect_coalesced exMask exEnv false [] 5 [(exInitial, exMaskI)] (.zeros 100)
    (by
      intro x hx
      simp only [List.mem_cons, List.not_mem_nil, or_false] at hx
      subst hx
      exact ⟨by decide, by decide, by decide, by decide, by decide, [1, 2, 3], rfl, by decide⟩)
    trivial
  simpa [Tail.bytes, Tail.pkts] using this

example : ∃ t, 1 ≤ t ∧ (extract exMask exEnv true [] 5 [0xc3, 1, 2]).rest = ([0xc3, 1, 2] : Bytes).drop t :=
  (dissect_progress exMask exEnv true [] 5 [0xc3, 1, 2] (by simp)).1

example : ∀ x, (exInitial.toPkt false 5).payload = some x → ∃ a b, x = Bytes.slice (exInitial.protect exMaskI) a b :=
  (no_invented_data exMask exEnv false [] 5 (exInitial.protect exMaskI) (exInitial.toPkt false 5) (by
    have := dissect_encode_long exMask exEnv false [] 5 exInitial (by decide) (by decide) (by decide) (by decide)
      [1, 2, 3] exMaskI rfl (by decide) (by decide) []
    rw [List.append_nil] at this
    rw [this]; simp)).1

example : aad (exInitial.toPkt false 5) = some exInitial.header := aad_is_header_long _ _ _
example : aad (exShort.toPkt false 5) = some exShort.header := aad_is_header_short _ _ _
example : (exInitial.header).length = 1 + 4 + 1 + 8 + 1 + 0 + 2 + 3 + 2 + 2 := by decide

end TLX.Props.C02Dissect
