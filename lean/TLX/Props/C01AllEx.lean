/-
Non-vacuity of `Props/C01All.lean`: ONE capture with everything at once.

  `tls13_all_instance`   TLS 1.3 (0x1301), the connection `Ex2.tFG` of `Props/C01Capstone2` — the server's flight
      EncryptedExtensions ‖ Certificate ‖ Finished cut into THREE protected records (inside the Certificate, at the start of
      the Finished) — captured over IPv6 where every segment carries a hop-by-hop options, a routing and a fragment header,
      with valid TCP checksums; the server's second handshake record is captured BEFORE its first (displaced segment) and the
      first is captured TWICE (retransmission); options `-a -c`;
      next to it in the same capture: an ARP request, a SECOND TLS connection (another client port, no extension headers,
      valid checksums; not in the key log — with `-a` its hello records are exported, in a block BEFORE ours), and a QUIC
      long-header datagram over IPv4 / UDP with a valid checksum (no keys: nothing exported).
      Every hypothesis of `tls13_capture_exact_all` by evaluation — `FlightsFirst` (packet order), `WiresDelivered`
      (`Delivers 1` with a duplicate), `OthersFitC` for the real other sessions (`Lemmas.C01All.conv_fits`) — except the
      IEEE-754 fact `hus`.
-/
import TLX.Props.C01All
import TLX.Props.C01FullEx
import TLX.Props.ExportDemux
set_option autoImplicit false
set_option linter.unusedSimpArgs false
set_option linter.unusedVariables false
namespace TLX.Props.C01All.Ex
open TLX TLX.MainLoop TLX.Spec.Demux TLX.Dissect TLX.Export TLX.Props.C01File TLX.Props.C01File.Ex
open TLX.Spec.FrameBuild TLX.Spec.TlsCapture TLX.Spec.NssKeylog
open TLX.Cipher TLX.RecordLayer TLX.Spec.TlsSender TLX.Props.C01 TLX.Lemmas.Pipeline TLX.Spec.TlsConnection
open TLX.Lemmas.Capstone TLX.Lemmas.Capstone2 TLX.Props.C01Pipeline TLX.Spec.TlsFraming TLX.Props.C01Capstone
open TLX.Props.C01Capstone.Ex TLX.Props.C01Capstone.Ex2 TLX.Spec.TlsFragmented13
open TLX.Props.C01Pipeline.Ex2 TLX.Props.C01.Ex TLX.Props.C01File2 TLX.Props.C01File2.Ex
open TLX.Spec.KeySchedules TLX.Lemmas.C01Rfc TLX.Props.C09Found TLX.Lemmas.C01Full TLX.Props.C01Rfc.Ex TLX.Props.C01Full.Ex
open TLX.Lemmas.C01All TLX.Lemmas.ExportProps TLX.Props.ExportPropsQuic TLX.Props.C01Full
open TLX.Spec.RfcSuite (SuiteSpec suiteOfCode cls12 snd12 snd13 ValidFor etmNegotiated labelClientRandom labelCHTS labelSHTS
  labelCTS0 labelSTS0)
open TLX.Spec.Rfc1071 (ocSum pseudoWords words)

/-! ### the other traffic -/

/-- the second TLS connection: [2001:db8::1]:6666 ↔ [2001:db8::2]:443, no extension headers, valid checksums -/
def fl7 : Flow := ⟨true, ip6c, 6666, ip6s, 443⟩
def tcp7 (d : Bool) (seq : Nat) (pl : Bytes) : Tcp :=
  let t : Tcp := ⟨if d then 443 else 6666, if d then 6666 else 443, seq, 0, 0x18, 0, 8192, 0, 0, [], pl⟩
  { t with csum := csumFor (if d then ip6s else ip6c) (if d then ip6c else ip6s) t }
def frame7 (d : Bool) (seq : Nat) (pl : Bytes) : Spec.FrameBuild.Frame :=
  ⟨if d then cMac else sMac, if d then sMac else cMac,
   .v6 ⟨0, 5, 64, if d then ip6s else ip6c, if d then ip6c else ip6s, []⟩, .tcp (tcp7 d seq pl), []⟩
def ev7 (n : Nat) (d : Bool) (seq : Nat) (pl : Bytes) : CapEv := ⟨timeAt n, (frame7 d seq pl).encode, viewOf (frame7 d seq pl)⟩

theorem isSegX7 (d : Bool) (seq : Nat) (pl : Bytes) (hs : seq < 4294967296) (hp : pl.length < 60000) (hp0 : 0 < pl.length) :
    IsSegX fl7 d (frame7 d seq pl) (tcp7 d seq pl) := by
  cases d <;>
    simp [IsSegX, Frame.WF, Upper.WF, Tcp.WF, V6.WF, frame7, tcp7, encChain, Upper.encode, Upper.proto, Tcp.encode,
      Tcp.header, be2, be4, fl7, fragFirst, fragLast, cMac, sMac, ip6c, ip6s] <;> omega

theorem foreign7 (n : Nat) (d : Bool) (seq : Nat) (pl : Bytes) (hs : seq < 4294967296) (hp : pl.length < 60000)
    (hp0 : 0 < pl.length) : ForeignC fl6 true (ev7 n d seq pl) := by
  have hseg := isSegX7 d seq pl hs hp hp0
  refine ⟨⟨dissect_segX fl7 d _ _ hseg, ?_⟩, fun _ x hx => ⟨_, verdict_segX fl7 d _ _ hseg x hx⟩⟩
  intro tag _ _
  show sameFlow (refPkt fl6) (pktOf tag (viewOf (frame7 d seq pl))) = false
  rw [pktOf_segX fl7 d _ _ hseg tag]
  cases d <;> simp [sameFlow, refPkt, clientEp, serverEp, fl6, fl7]

/-- a QUIC long-header datagram (version 1, an 8-byte DCID) over IPv4 / UDP, 10.0.0.7:50000 → 10.0.0.2:443, with the UDP
    checksum a sender computes -/
def quicPl : Bytes := [0xC3, 0, 0, 0, 1, 8, 1, 2, 3, 4, 5, 6, 7, 8, 0, 0, 0x44, 0x00] ++ List.replicate 40 0x55
def udpCsum (src dst : Bytes) (u : Udp) : Nat :=
  0xFFFF - ocSum (pseudoWords false src dst .udp u.encode.length ++ words u.encode)
def udpQ : Udp := let u : Udp := ⟨50000, 443, 0, quicPl⟩; { u with csum := udpCsum [10, 0, 0, 7] [10, 0, 0, 2] u }
def frameQ : Spec.FrameBuild.Frame :=
  ⟨sMac, cMac, .v4 ⟨0, 1, true, false, 64, 0, [10, 0, 0, 7], [10, 0, 0, 2], []⟩, .udp udpQ, []⟩
def evQ (n : Nat) : CapEv := ⟨timeAt n, frameQ.encode, viewOf frameQ⟩

theorem foreignQ (n : Nat) : ForeignC fl6 true (evQ n) := by
  have hwf : frameQ.WF := by
    simp [Frame.WF, Upper.WF, Udp.WF, V4.WF, frameQ, udpQ, quicPl, Upper.encode, Udp.encode, be2, cMac, sMac]
  refine ⟨⟨?_, ?_⟩, ?_⟩
  · exact Props.C12Dissect.dissect_build_v4 frameQ _ rfl hwf
  · intro tag h
    exact absurd h (by simp [evQ, viewOf, frameQ, pktOf, Props.C12Dissect.transportOf])
  · intro _ x hx
    have hx' : x = ⟨false, frameQ.srcMac, frameQ.dstMac, [10, 0, 0, 7], [10, 0, 0, 2], 17, (Upper.udp udpQ).encode,
        Props.C12Dissect.transportOf (.udp udpQ)⟩ := by
      simp only [evQ, viewOf, frameQ] at hx
      exact (Dissected.ip.inj hx).symm
    subst hx'
    have : (match Ingest.verdict ⟨false, frameQ.srcMac, frameQ.dstMac, [10, 0, 0, 7], [10, 0, 0, 2], 17,
        (Upper.udp udpQ).encode, Props.C12Dissect.transportOf (.udp udpQ)⟩ with | .ok _ => true | .error _ => false) = true := by
      decide +kernel
    revert this
    cases Ingest.verdict _ with
    | ok v => intro _; exact ⟨v, rfl⟩
    | error e => intro h; cases h

/-- the datagram passes the checksum test and reaches the QUIC part of the loop -/
example : (match (classify (C01File.optsOf ⟨none, none, true, false, true⟩ ports0 []) (.frame (pktOfC true 3 (evQ 3).d)) :
    Class Keylog.Key) with | .quic .. => true | _ => false) = true := by decide +kernel

/-! ### the capture -/

/-- the connection's segments behind the ClientHello: the ServerHello flight (ServerHello and dummy CCS in one segment), the
    client's CCS + Finished, then the server's SECOND handshake record before its FIRST, the first once more, the rest -/
def capAll : List (Bool × Bytes × Nat) :=
  [(true, uSG 0 ++ uSG 1, 0), (false, uCG 1 ++ uCG 2, (uCG 0).length),
   (true, uSG 3, (uSG 0).length + (uSG 1).length + (uSG 2).length),
   (true, uSG 2, (uSG 0).length + (uSG 1).length), (true, uSG 2, (uSG 0).length + (uSG 1).length),
   (true, uSG 4 ++ uSG 5, (uSG 0).length + (uSG 1).length + (uSG 2).length + (uSG 3).length)]

def chSeg : CEv :=
  .seg (timeAt 2) false (frame6 false (isnOf false % 4294967296) (uCG 0)) (tcp6 false (isnOf false % 4294967296) (uCG 0))

/-- ARP; the other connection's ClientHello; OUR ClientHello; the QUIC datagram; the other connection's ServerHello; the rest -/
def evsAll : List CEv :=
  [.foreign arp, .foreign (ev7 1 false 100 (rC 0)), chSeg, .foreign (evQ 3), .foreign (ev7 4 true 700 (rS 0))] ++
    segEvs6 5 capAll

def argsAC : Args := ⟨none, none, true, false, true⟩

theorem describedAll : DescribedX fl6 true evsAll := by
  intro ev hev
  simp only [evsAll, List.mem_append, List.mem_cons, List.mem_nil_iff, or_false] at hev
  rcases hev with (rfl | rfl | rfl | rfl | rfl) | hev
  · exact ⟨⟨arp_foreign.1, fun tag h => by simp [arp, pktOf, Ingest.otherPkt] at h⟩, fun _ x hx => by simp [arp] at hx⟩
  · exact foreign7 1 false 100 (rC 0) (by decide) (by decide +kernel) (by decide +kernel)
  · exact ⟨isSegX_mk6 false _ (uCG 0) (Nat.mod_lt _ (by decide)) (by decide +kernel), fun _ _ => by decide +kernel⟩
  · exact foreignQ 3
  · exact foreign7 4 true 700 (rS 0) (by decide) (by decide +kernel) (by decide +kernel)
  · exact segEvs6_describedX capAll (by decide +kernel) 5 (by decide +kernel) ev hev

theorem timesAll : ∀ e ∈ evsAll.map CEv.cap, Ingest.isMinusOne e.t = false := by
  intro e he
  simp only [evsAll, List.map_append, List.map_cons, List.map_nil, List.mem_append, List.mem_cons, List.mem_nil_iff,
    or_false] at he
  rcases he with (rfl | rfl | rfl | rfl | rfl) | he
  · exact notMinusOne 0
  · exact notMinusOne 1
  · exact notMinusOne 2
  · exact notMinusOne 3
  · exact notMinusOne 4
  · exact segEvs6_times capAll 5 e he

def cevsAll : List Spec.Containers.Ev := (evsAll.map CEv.cap).map cevOf

theorem evsAll_bounds (c : CEv) (hc : c ∈ evsAll) :
    ∃ k, k < 100 ∧ (CEv.cap c).t = timeAt k ∧ (CEv.cap c).buf.length < 70000 := by
  simp only [evsAll, List.mem_append, List.mem_cons, List.mem_nil_iff, or_false] at hc
  rcases hc with (rfl | rfl | rfl | rfl | rfl) | hc
  · exact ⟨0, by decide, rfl, by decide⟩
  · exact ⟨1, by decide, rfl, by decide +kernel⟩
  · exact ⟨2, by decide, rfl, by decide +kernel⟩
  · exact ⟨3, by decide, rfl, by decide +kernel⟩
  · exact ⟨4, by decide, rfl, by decide +kernel⟩
  · obtain ⟨k, hk, h1, h2⟩ := segEvs6_bounds capAll (by decide +kernel) 5 _ (List.mem_map.mpr ⟨c, hc, rfl⟩)
    exact ⟨k, by have : capAll.length = 6 := rfl; omega, h1, h2⟩

theorem cwfAll : cv0.WF cevsAll := by
  refine ⟨by decide, by decide, by decide, by decide, by decide, legacy_wf _ _ rfl ?_ 0⟩
  intro ev hev
  simp only [cevsAll, List.mem_map] at hev
  obtain ⟨e, ⟨c, hc, rfl⟩, rfl⟩ := hev
  obtain ⟨k, hk, ht, hl⟩ := evsAll_bounds c hc
  refine ⟨_, _, rfl, ?_, by omega⟩
  rw [ht]
  simp only [timeAt, Spec.Containers.LegacyVariant.unitsPerSecond, if_true]
  have : ((1700000000 : Int).toNat * 10 ^ 9 + (1000 + k)) / 10 ^ 9 = 1700000000 := by
    have : (1700000000 : Int).toNat = 1700000000 := rfl
    rw [this]; omega
  rw [this]; decide

theorem itemsAll : cevsAll.filterMap (Spec.Containers.scale cv0) = (evsAll.map CEv.cap).map CapEv.item := by
  unfold cevsAll
  apply filterMap_map_some
  intro e he
  simp only [List.mem_map] at he
  obtain ⟨c, hc, rfl⟩ := he
  obtain ⟨k, hk, ht, _⟩ := evsAll_bounds c hc
  exact scale_cev _ k hk ht

def pktsAll : List Pkt := flowPkts fl6 0 evsAll
def pA0 : Pkt := ⟨.tcp, ⟨ip6c, 5555⟩, ⟨ip6s, 443⟩, uCG 0, true, 2⟩
theorem fpAll : flowPkts fl6 0 evsAll = pA0 :: pktsAll.tail := by decide +kernel

def sessAll : Pipeline.Conn := sessionOf (evsAll.map CEv.cap) (optsOf argsAC ports0 []) pA0 pktsAll.tail

/-! ### delivery and packet order -/

def chunksC : List Bytes := [uCG 0, uCG 1 ++ uCG 2]
def chunksS : List Bytes := [uSG 0 ++ uSG 1, uSG 2, uSG 3, uSG 4 ++ uSG 5]

theorem first_seq (d : Bool) : ∀ s, (capSegs d 0 evsAll).head? = some s → s.seq = isnOf d % 2 ^ 32 := by
  have h : ∀ d, (capSegs d 0 evsAll).head?.map (·.seq) = some (isnOf d % 2 ^ 32) := by
    intro d; cases d <;> decide +kernel
  intro s hs
  have := h d
  rw [hs] at this
  exact Option.some.inj this

/-- the client's direction in order; the server's: one segment displaced by one position (`Delivers 1`) and captured twice -/
theorem wiresAll : WiresDelivered evsAll (tFG.stream Cipher.Toy.prims Cipher.Toy.laws C01Capstone.Ex.cls13 x13) := by
  intro d
  cases d
  · refine ⟨⟨0, isnOf false, ?_, noEarly_of_first _ _ (first_seq false)⟩, by decide +kernel⟩
    have hcut : IsCut (tFG.stream Cipher.Toy.prims Cipher.Toy.laws C01Capstone.Ex.cls13 x13 false) chunksC :=
      ⟨by decide +kernel, by decide +kernel⟩
    have e2 : dirWires false evsAll = segsOf (isnOf false) 0 chunksC := by decide +kernel
    rw [e2]; exact Delivers.cut _ hcut
  · refine ⟨⟨1, isnOf true, ?_, noEarly_of_first _ _ (first_seq true)⟩, by decide +kernel⟩
    have hcut : IsCut (tFG.stream Cipher.Toy.prims Cipher.Toy.laws C01Capstone.Ex.cls13 x13 true) chunksS :=
      ⟨by decide +kernel, by decide +kernel⟩
    have hc := Delivers.cut (k := 1) (isn := isnOf true) chunksS hcut
    -- the cut in the order sent: s01, s2, s3, s45
    have e1 : segsOf (isnOf true) 0 chunksS =
        (segsOf (isnOf true) 0 chunksS).take 1 ++ (segsOf (isnOf true) 0 chunksS).getD 1 (0, []) ::
          ([(segsOf (isnOf true) 0 chunksS).getD 2 (0, [])] ++ (segsOf (isnOf true) 0 chunksS).drop 3) := by decide +kernel
    -- displaced: s01, s3, s2, s45
    have hdisp : Delivers 1 (isnOf true) (tFG.stream Cipher.Toy.prims Cipher.Toy.laws C01Capstone.Ex.cls13 x13 true)
        ((segsOf (isnOf true) 0 chunksS).take 1 ++
          ([(segsOf (isnOf true) 0 chunksS).getD 2 (0, [])] ++ (segsOf (isnOf true) 0 chunksS).getD 1 (0, []) ::
            (segsOf (isnOf true) 0 chunksS).drop 3)) :=
      Delivers.displace _ _ (by rw [← e1]; exact hc) (Displaced.later _ _ _ _ (by decide))
    -- … and s2 once more behind itself
    have e3 : (segsOf (isnOf true) 0 chunksS).take 1 ++
          ([(segsOf (isnOf true) 0 chunksS).getD 2 (0, [])] ++ (segsOf (isnOf true) 0 chunksS).getD 1 (0, []) ::
            (segsOf (isnOf true) 0 chunksS).drop 3) =
        ((segsOf (isnOf true) 0 chunksS).take 1 ++ [(segsOf (isnOf true) 0 chunksS).getD 2 (0, [])]) ++
          (segsOf (isnOf true) 0 chunksS).getD 1 (0, []) :: ([] ++ (segsOf (isnOf true) 0 chunksS).drop 3) := by
      simp
    have hdup := Delivers.dup ((segsOf (isnOf true) 0 chunksS).take 1 ++ [(segsOf (isnOf true) 0 chunksS).getD 2 (0, [])]) []
      ((segsOf (isnOf true) 0 chunksS).drop 3) ((segsOf (isnOf true) 0 chunksS).getD 1 (0, [])) (by rw [← e3]; exact hdisp)
    have e2 : dirWires true evsAll =
        ((segsOf (isnOf true) 0 chunksS).take 1 ++ [(segsOf (isnOf true) 0 chunksS).getD 2 (0, [])]) ++
          (segsOf (isnOf true) 0 chunksS).getD 1 (0, []) ::
            ([] ++ (segsOf (isnOf true) 0 chunksS).getD 1 (0, []) :: (segsOf (isnOf true) 0 chunksS).drop 3) := by
      decide +kernel
    rw [e2]; exact hdup

/-- packet order: everything up to the other connection's ServerHello holds no data segment of OUR server and delivers the
    ClientHello; the next packet is the server's first flight (ServerHello, dummy CCS), ending on a record boundary -/
theorem flightsAll : FlightsFirst evsAll tFG.chRecord [uSG 0, uSG 1] where
  split := ⟨evsAll.take 5, (evsAll.drop 5).take 1, (evsAll.drop 5).drop 1,
    by rw [List.append_assoc, List.take_append_drop, List.take_append_drop],
    by decide +kernel, by decide +kernel,
    ⟨isnOf false, by
      have e : dirWires false (evsAll.take 5) = segsOf (isnOf false) 0 [uCG 0] := by decide +kernel
      unfold InOrder
      rw [e]; exact Delivers.cut _ ⟨by decide +kernel, by decide +kernel⟩⟩,
    ⟨isnOf true, by
      have e : dirWires true ((evsAll.drop 5).take 1) = segsOf (isnOf true) 0 [uSG 0 ++ uSG 1] := by decide +kernel
      unfold InOrder
      rw [e]; exact Delivers.cut _ ⟨by decide +kernel, by decide +kernel⟩⟩⟩
  wholeA := by decide +kernel
  wholeB := by decide +kernel
  lenA := by decide +kernel
  lenB := by decide +kernel
  neB := by decide

/-! ### the write loop takes what the OTHER sessions export -/

theorem othersAll (hus : ∀ e ∈ evsAll.map CEv.cap, e.us < 2 ^ 64) (blk : List Pipeline.OutPkt) :
    OthersFitC (fun _ _ _ => none) hashes Cipher.Toy.prims argsAC (some (C09Found.fileText ls13)) (evsAll.map CEv.cap) blk := by
  intro out pre post hout hsplit x hx
  have hq := framesFrom_ok_quic (fun _ _ _ => none) hashes Cipher.Toy.prims (capInfo (evsAll.map CEv.cap)) freshState argsAC
    (fileKeysOf (some (C09Found.fileText ls13))) (itemsFromC argsAC.checksumTest 0 (evsAll.map CEv.cap))
    (optsOf argsAC ports0 []) rfl
  rw [hq] at hout
  cases hout
  -- the QUIC session exports nothing (no keys for it)
  have hQ : (quicFrames (fun _ _ _ => none) hashes Cipher.Toy.prims (capInfo (evsAll.map CEv.cap)) (optsOf argsAC ports0 [])
      (fileKeysOf (some (C09Found.fileText ls13))) (itemsFromC argsAC.checksumTest 0 (evsAll.map CEv.cap))).flatten = [] := by
    decide +kernel
  -- every TLS conversation of the run (the other connection and ours) meets the range conditions
  have hT : (tlsConvs hashes Cipher.Toy.prims (capInfo (evsAll.map CEv.cap)) (optsOf argsAC ports0 [])
      (itemsFromC argsAC.checksumTest 0 (evsAll.map CEv.cap))).all (fun s =>
        fitsB hashes Cipher.Toy.prims (capInfo (evsAll.map CEv.cap))
          (keysOf (fileKeysOf (some (C09Found.fileText ls13))) (itemsFromC argsAC.checksumTest 0 (evsAll.map CEv.cap))) s.st) = true := by
    decide +kernel
  have hxo : x ∈ (tlsFrames hashes Cipher.Toy.prims (capInfo (evsAll.map CEv.cap)) (optsOf argsAC ports0 [])
      (fileKeysOf (some (C09Found.fileText ls13))) (itemsFromC argsAC.checksumTest 0 (evsAll.map CEv.cap))).flatten := by
    have : x ∈ pre ++ blk ++ post := by
      simp only [List.mem_append] at hx ⊢
      rcases hx with h | h
      · exact .inl (.inl h)
      · exact .inr h
    rw [← hsplit, hQ, List.append_nil] at this
    exact this
  obtain ⟨l, hl, hxl⟩ := List.mem_flatten.mp hxo
  unfold tlsFrames at hl
  obtain ⟨s, hs, rfl⟩ := List.mem_map.mp hl
  exact conv_fits hashes Cipher.Toy.prims _ _ s.st (List.all_eq_true.mp hT s hs) (capInfo_ts _ hus) x hxl

/-! ### the instance -/

/-- the `-a` conversation: the client's stream is its hello record and the dummy ChangeCipherSpec record (its Finished is a
    protected record: nothing; it sends no application data); the server's its hello record, the dummy ChangeCipherSpec record
    and the sixteen bytes — the three records of the fragmented flight contribute nothing -/
example : expectF true Cipher.Toy.prims Cipher.Toy.laws C01Capstone.Ex.cls13 tFG x13 =
    (tFG.chRecord ++ [20, 3, 3, 0, 1, 1], tFG.shRecord ++ [20, 3, 3, 0, 1, 1] ++ k16) := by decide +kernel

/-- **Non-vacuity of `tls13_capture_exact_all`.** -/
theorem tls13_all_instance (hus : ∀ e ∈ evsAll.map CEv.cap, e.us < 2 ^ 64) :
    ∃ f, exportFile (fun _ _ _ => none) hashes Cipher.Toy.prims argsAC cv0.isLegacy (some (C09Found.fileText ls13))
        (Spec.Containers.encode cv0 cevsAll) = .file f ∧
      Exact f sessAll (tFG.chRecord ++ [20, 3, 3, 0, 1, 1]) (tFG.shRecord ++ [20, 3, 3, 0, 1, 1] ++ k16) := by
  have hl1 := hasLine13 labelCHTS 1 true false (by simp [ls13]) chts (by decide)
  have hl2 := hasLine13 labelSHTS 2 true true (by simp [ls13]) shts (by decide)
  have hl3 := hasLine13 labelCTS0 3 false false (by simp [ls13]) cats (by decide)
  have hl4 := hasLine13 labelSTS0 4 false true (by simp [ls13]) sats (by decide)
  have ho1 := onlySecret13 labelCHTS 1 chts (by decide) (only_aux _ _ (by decide))
  have ho2 := onlySecret13 labelSHTS 2 shts (by decide) (only_aux _ _ (by decide))
  have ho3 := onlySecret13 labelCTS0 3 cats (by decide) (only_aux _ _ (by decide))
  have ho4 := onlySecret13 labelSTS0 4 sats (by decide) (only_aux _ _ (by decide))
  have hwr : ∀ d, ∀ r ∈ tFG.records Cipher.Toy.prims Cipher.Toy.laws C01Capstone.Ex.cls13
      (snd13 hashes sp13 chts shts cats sats) d, WholeRecord r := by
    rw [snd13_0]; intro d; cases d <;> decide +kernel
  have hdesc : DescribedX fl6 argsAC.checksumTest evsAll := describedAll
  have hexp : expectF argsAC.metadata Cipher.Toy.prims Cipher.Toy.laws C01Capstone.Ex.cls13 tFG
      (snd13 hashes sp13 chts shts cats sats) =
        (tFG.chRecord ++ [20, 3, 3, 0, 1, 1], tFG.shRecord ++ [20, 3, 3, 0, 1, 1] ++ k16) := by
    rw [snd13_0]; decide +kernel
  have hrec : RecordsFit hashes Cipher.Toy.prims (capInfo (evsAll.map CEv.cap)) sessAll
      ((fileKeysOf (some (C09Found.fileText ls13))).getD []) := by
    unfold RecordsFit sessTraffic; decide +kernel
  have h := tls13_capture_exact_all (fun _ _ _ => none) hashes hashes_lawful Cipher.Toy.prims Cipher.Toy.laws
    fl6 (by decide) evsAll argsAC hdesc timesAll cv0 cevsAll cwfAll itemsAll ls13 ls13_wf
    [] ports0 rfl rfl (by decide +kernel) (by decide +kernel) pA0 pktsAll.tail fpAll
    tFG (by decide) (by decide) rfl rfl rfl rfl (by unfold Negotiated; decide)
    (by decide +kernel) sp13 (by decide +kernel) C01Capstone.Ex.cls13 (by decide +kernel)
    chts shts cats sats hl1 hl2 hl3 hl4 ho1 ho2 ho3 ho4 conformFG.1 conformFG.2 hwr (by decide +kernel)
    (by rw [snd13_0]; exact wiresAll) [uSG 0, uSG 1] flightsAll
    (by decide) (by decide) (by intro kv hkv; cases hkv) (by rw [hexp]; decide +kernel) hrec hus
    (fun blk _ => othersAll hus blk)
  rw [hexp] at h
  exact h

/-- the other TLS connection's block comes first in the output (its session is created first) and is not empty: with `-a`
    its two hello records are exported -/
example : ((tlsConvs hashes Cipher.Toy.prims (capInfo (evsAll.map CEv.cap)) (optsOf argsAC ports0 [])
    (itemsFromC true 0 (evsAll.map CEv.cap))).map fun s => (s.st.client.port, s.st.pkts.map (·.tag))) =
      [(6666, [1, 4]), (5555, [2, 5, 6, 7, 8, 9, 10])] := by decide +kernel

end TLX.Props.C01All.Ex
