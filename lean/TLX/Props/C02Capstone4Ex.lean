import TLX.Props.C02Capstone4
import TLX.Props.ExportPropsQuicEx
set_option autoImplicit false
set_option maxRecDepth 100000
namespace TLX.Props.C02Capstone4
namespace ExZ
open TLX TLX.MainLoop TLX.Export TLX.Spec.Demux TLX.QuicPipeline TLX.Props.C02File TLX.Props.C02File2 TLX.Lemmas.ExportProps
open TLX.Quic.Session TLX.Spec.QuicSender TLX.Spec.QuicConnection TLX.Spec.QuicFrames TLX.Props.C02Capstone TLX.Props.C02Capstone3
open TLX.Props.C02File.Ex (H Pc L m5 maskFn sel hs chS shS caS saS w0 w2 cidS0 cidS cidC qCI fl line)
open TLX.Props.C02File2.Ex (dS)
open TLX.Props.ExportPropsQuic (quicFrames)
open TLX.Props.ExportPropsQuic.Ex (info view)
open TLX.Props.C02Capstone.ExConf (chx)

/-- the client resumed a session of suite 0x1303 — the FIRST suite of its ClientHello (`chx` offers 0x1303, 0x1301, 0x1302; the
    server selects 0x1301) — and sends 0-RTT data behind its Initial packet -/
def selR : SuiteSel := ⟨.sha256, .chachaPoly, 32⟩
def eS : Bytes := List.replicate 32 0x55

def qZ : PkH :=
  ⟨{ level := .zeroRtt, srv := false, ts := 101, pn := 0, pnLen := 1, typeBits := 1,
     frames := [.stream false ⟨0, w0⟩ none (some w0) [0x45, 0x41, 0x52, 0x4c, 0x59], .padding 3],
     dcid := cidS0, scid := cidC, lenW := w2 }, m5⟩
def qCI' : PkH := ⟨{ qCI.x with ts := 101 }, m5⟩

/-- first flight: Initial (ClientHello) and the 0-RTT packet in one datagram -/
def dZ : DgX := ⟨⟨false, 101, [qCI'], none⟩, [qZ], 1⟩
/-- the client's Finished and its next request in a 1-RTT packet (packet number 1: 0-RTT and 1-RTT share the space) -/
def oC1 : Dg1 :=
  ⟨{ level := .oneRtt, srv := false, ts := 104, pn := 1, pnLen := 1,
     frames := [.stream true ⟨0, w0⟩ (some ⟨5, w0⟩) (some w0) [0x47, 0x45, 0x54], .padding 3], dcid := cidS, gen := 0 }, m5⟩

def keyTextZ : Keylog.Str :=
  line Keylog.s_SHTS chx.random shS ++ line Keylog.s_CHTS chx.random chS ++ line Keylog.s_CETS chx.random eS ++
  line Keylog.s_STS0 chx.random saS ++ line Keylog.s_CTS0 chx.random caS
def keysZ : List Keylog.Key := (fileKeysOf (some keyTextZ)).getD []

def wX : DgX → Bytes := DgX.wire H Pc L cidS0 sel selR shS chS saS caS eS
def o : Opts := ⟨[443], false, false, false, true, []⟩

/-- the datagrams as capture items: first flight with 0-RTT, the server's flight (with 0.5-RTT `HI`), the client's Finished
    with `GET` in a 1-RTT packet -/
def items : List (Item Keylog.Key) :=
  [.frame (dgPkt fl false (wX dZ) 1),
   .frame (dgPkt fl true (wX ⟨dS, [], 2⟩) 2),
   .frame (dgPkt fl false (wX ⟨⟨false, 104, [C02File.Ex.qCH], some oC1⟩, [], 1⟩) 4)]

/-- the whole pipeline, evaluated by the kernel: the 0-RTT data is exported, with the capture time of its datagram -/
theorem zero_rtt_exported :
    view (quicFrames maskFn H Pc info o (some keysZ) items) =
      [[(101, [0x45, 0x41, 0x52, 0x4c, 0x59]), (102, [0x48, 0x49]), (104, [0x47, 0x45, 0x54])]] := by
  decide +kernel


/-- the same capture from a client whose resumed suite is 0x1301 — SECOND in its list, and the one the server selects
    (RFC 8446 §4.2.11 allows it): the 0-RTT packet reaches the tool while its Early keys are those of 0x1303; the data is
    NOT exported (open finding `early-data-lost`); everything else is (the packet-number repair: the rejected packet leaves
    the session untouched) -/
def wX' : DgX → Bytes := DgX.wire H Pc L cidS0 sel sel shS chS saS caS eS
def items' : List (Item Keylog.Key) :=
  [.frame (dgPkt fl false (wX' dZ) 1),
   .frame (dgPkt fl true (wX' ⟨dS, [], 2⟩) 2),
   .frame (dgPkt fl false (wX' ⟨⟨false, 104, [C02File.Ex.qCH], some oC1⟩, [], 1⟩) 4)]
theorem zero_rtt_not_first_offered_lost :
    view (quicFrames maskFn H Pc info o (some keysZ) items') = [[(102, [0x48, 0x49]), (104, [0x47, 0x45, 0x54])]] := by
  decide +kernel


/-! every hypothesis of `quic_connection_exact_0rtt` discharged for this history -/
open TLX.Props.C02File.Ex (qSI qSH qCH hs_ok wfCI wfSI wfSH wfCH)
open TLX.Props.C02Capstone.ExConf

def qSI' : PkH := ⟨{ qSI.x with ts := 102 }, m5⟩
def qSH' : PkH := ⟨{ qSH.x with ts := 102 }, m5⟩
def qCH' : PkH := ⟨{ qCH.x with ts := 104 }, m5⟩
def oS' : Dg1 :=
  ⟨{ level := .oneRtt, srv := true, ts := 102, pn := 0, pnLen := 1,
     frames := [.stream false ⟨3, w0⟩ none (some w0) [0x48, 0x49], .padding 3], dcid := cidC, gen := 0 }, m5⟩
def dSX : DgX := ⟨⟨true, 102, [qSI', qSH'], some oS'⟩, [], 2⟩
def dCX : DgX := ⟨⟨false, 104, [qCH'], some oC1⟩, [], 1⟩

def itemsA : List (List Keylog.Key × MainLoop.Pkt × DgX) :=
  [(keysZ, dgPkt fl true (wX dSX) 2, dSX), (keysZ, dgPkt fl false (wX dCX) 4, dCX)]
def p0 : MainLoop.Pkt := dgPkt fl false (wX dZ) 1
def c0 : QConn := (quicMachine maskFn H Pc info).new o p0

theorem keylogZ : KeylogHas keysZ chx.random chS shS caS saS (some eS) := by
  refine ⟨⟨(Keylog.quicSessionKeys keysZ (Pipeline.natsOfBytes chx.random)).getD [],
    (quicSecrets ((Keylog.quicSessionKeys keysZ (Pipeline.natsOfBytes chx.random)).getD [])).getD [], ?_⟩⟩
  decide +kernel

def t1 : Trk := trk0.dgx dZ
def t2 : Trk := t1.dgx dSX

theorem pkCI' : HsPkOk maskFn H Pc L cidS0 sel shS chS trk0 qCI' :=
  ⟨⟨by decide, by decide, by decide, by decide, by decide, by decide, by decide +kernel, by decide +kernel⟩,
    by decide +kernel, by decide +kernel, by decide +kernel, wfCI, by decide +kernel, rfl, by decide⟩
theorem pkSI' : HsPkOk maskFn H Pc L cidS0 sel shS chS t1 qSI' :=
  ⟨⟨by decide, by decide, by decide, by decide, by decide, by decide, by decide +kernel, by decide +kernel⟩,
    by decide +kernel, by decide +kernel, by decide +kernel, wfSI, by decide +kernel, rfl, by decide⟩
theorem pkSH' : HsPkOk maskFn H Pc L cidS0 sel shS chS (t1.step qSI'.x) qSH' :=
  ⟨⟨by decide, by decide, by decide, by decide, by decide, by decide, by decide +kernel, by decide +kernel⟩,
    by decide +kernel, by decide +kernel, by decide +kernel, wfSH, by decide +kernel, rfl, by decide⟩
theorem pkCH'' : HsPkOk maskFn H Pc L cidS0 sel shS chS t2 qCH' :=
  ⟨⟨by decide, by decide, by decide, by decide, by decide, by decide, by decide +kernel, by decide +kernel⟩,
    by decide +kernel, by decide +kernel, by decide +kernel, wfCH, by decide +kernel, rfl, by decide⟩

theorem wfZ : WellFormedSeq qZ.x.frames := by
  simp [qZ, WellFormedSeq, QFrame.wf, QFrame.greedy, optOk, optFits]; decide +kernel
theorem wfS' : WellFormedSeq oS'.x.frames := by
  simp [oS', WellFormedSeq, QFrame.wf, QFrame.greedy, optOk, optFits]; decide +kernel
theorem wfC1 : WellFormedSeq oC1.x.frames := by
  simp [oC1, WellFormedSeq, QFrame.wf, QFrame.greedy, optOk, optFits]; decide +kernel

theorem okZ : XDgOkE maskFn H Pc L cidS0 sel selR shS chS saS caS eS trk0 none dZ where
  client := fun _ => rfl
  dirL := by intro q hq; simp only [dZ, List.mem_singleton] at hq; subst hq; exact ⟨rfl, rfl⟩
  dirZ := by intro q hq; simp only [dZ, List.mem_singleton] at hq; subst hq; rfl
  cid := by decide +kernel
  pre := ⟨pkCI', trivial⟩
  suite := fun _ => by decide +kernel
  zr := by
    intro i q hi
    cases i with
    | zero =>
      simp only [dZ, List.getElem?_cons_zero, Option.some.injEq] at hi; subst hi
      exact ⟨⟨rfl, rfl, by decide, by decide, by decide, by decide, by decide, by decide +kernel, by decide +kernel⟩,
        by decide, wfZ, by decide +kernel, rfl, by decide⟩
    | succ j => simp [dZ] at hi
  post := trivial
  short := by intro o ho; cases ho

theorem okS : XDgOkE maskFn H Pc L cidS0 sel selR shS chS saS caS eS t1 (ecsDgx trk0 none dZ) dSX where
  client := fun h => absurd rfl h
  dirL := by intro q hq; simp only [dSX, List.mem_cons, List.not_mem_nil, or_false] at hq; rcases hq with rfl | rfl <;> exact ⟨rfl, rfl⟩
  dirZ := by intro q hq; cases hq
  cid := by decide +kernel
  pre := ⟨pkSI', pkSH', trivial⟩
  suite := fun h => absurd rfl h
  zr := by intro i q hi; simp [dSX] at hi
  post := trivial
  short := by
    intro o' ho; cases ho
    exact ⟨rfl, rfl, by decide, by decide +kernel, rfl, rfl, by decide +kernel, wfS',
      ⟨by decide, by decide +kernel, rfl, by decide⟩⟩

theorem okC : XDgOkE maskFn H Pc L cidS0 sel selR shS chS saS caS eS t2 (ecsDgx t1 (ecsDgx trk0 none dZ) dSX) dCX where
  client := fun h => absurd rfl h
  dirL := by intro q hq; simp only [dCX, List.mem_singleton] at hq; subst hq; exact ⟨rfl, rfl⟩
  dirZ := by intro q hq; cases hq
  cid := by decide +kernel
  pre := ⟨pkCH'', trivial⟩
  suite := fun h => absurd rfl h
  zr := by intro i q hi; simp [dCX] at hi
  post := trivial
  short := by
    intro o' ho; cases ho
    exact ⟨rfl, rfl, by decide, by decide +kernel, rfl, rfl, by decide +kernel, wfC1,
      ⟨by decide, by decide +kernel, rfl, by decide⟩⟩

/-- **Non-vacuity of `quic_connection_exact_0rtt`**: first flight Initial + 0-RTT `EARLY` (resumed suite = first offered),
    the server's flight with 0.5-RTT `HI`, the client's Finished with `GET` — every hypothesis discharged; the export is
    `EARLY`, `HI`, `GET`. -/
theorem zero_rtt_instance :
    let QM := quicMachine maskFn H Pc info
    QM.out false (xFeedAll QM c0 ((keysZ, p0, dZ) :: itemsA)) = expectedOutX c0 [dZ, dSX, dCX] [] ∧
    (expectedOutX c0 [dZ, dSX, dCX] []).map (fun p => (p.ts, p.payload)) =
      [(101, [0x45, 0x41, 0x52, 0x4c, 0x59]), (102, [0x48, 0x49]), (104, [0x47, 0x45, 0x54])] := by
  refine ⟨?_, by decide +kernel⟩
  have h := quic_connection_exact_0rtt maskFn H Pc info Props.C15.sizedToy_lawful rfl L chx.random hs.sh.cipherSuite chS shS caS
    saS eS sel selR [0x13, 0x03] (by decide) (by decide) (by decide) rfl rfl keysZ p0 dZ itemsA
    (by intro x hx; simp only [itemsA, List.mem_cons, List.not_mem_nil, or_false] at hx
        rcases hx with rfl | rfl | rfl <;> exact keylogZ)
    c0 (new_fresh maskFn H Pc info o p0) (by decide) ⟨okZ, okS, okC, trivial⟩
    (by
      have : allInsM (([dZ, dSX, dCX] : List DgX).map (·.base)) = hs.ins := by decide +kernel
      show PTrace chx.random hs.sh.cipherSuite {} (allInsM (([dZ, dSX, dCX] : List DgX).map (·.base)))
      rw [this]; exact ptrace_of_conformant hs hs_ok)
    (by intro x hx; simp only [itemsA, List.mem_cons, List.not_mem_nil, or_false] at hx
        rcases hx with rfl | rfl | rfl <;> exact ⟨rfl, rfl, by decide⟩)
    (by decide +kernel) [] (by intro x hx; cases hx) trivial (by decide +kernel)
  exact h.2

end ExZ
end TLX.Props.C02Capstone4
