/-
C01 FROM FILE TO FILE — the capstone of the capstones: `TLX.Export.exportFile` on the BYTES of a capture file that contains
a TLS connection (and anything else) and the TEXT of a key-log file writes an output file in which the tool's own reader and
the independent frame parser find the connection's plaintext, exactly.

Layers (each a theorem of its own, for arbitrary inputs of its kind):
  `ingest_of_capture`   capture file → items   the read loop on a file the reader model reads as packets `cap` that dpkt
                        dissects without exception: exactly the packets of `cap`, tagged by position, with their `Info`
                        (C12 `reader_roundtrip` gives the premise for every container variant of `Spec.Containers.encode`:
                        `capture_read`; `Props.C12Dissect.dissect_build_v4/_v6` give `d` for frames built by `Spec.FrameBuild`)
  `session_of_items`    items → session        `Props.C04.tls_session_for`: the frames `run()` hands to the writer are
                        `pre ++ (export of THE session object fed exactly the flow's packets) ++ post`
  (session → frames     `Props.C01Capstone.tls12_connection_exact` / `tls13_connection_exact`)
  `file_of_frames`      frames → file          `Props.C06Bytes.fileOf_roundtrip`: the block of a session is read back
                        contiguous, every frame a `GoodFrame`
  `export_of_session`   the three glued around ANY statement about one session's `connOut`
  `tls12_file_exact`, `tls13_file_exact`        … instantiated with the two connection capstones.
-/
import TLX.Props.Export
import TLX.Props.C01Capstone
import TLX.Props.C12Dissect
import TLX.Spec.TlsCapture
set_option linter.unusedSimpArgs false
set_option autoImplicit false
namespace TLX.Props.C01File
open TLX TLX.MainLoop TLX.Spec.Demux TLX.Lemmas.MainLoop TLX.Dissect TLX.OutBytes
open TLX.Container (Item)

/-! ### capture file → items -/

/-- one packet of a capture as the reader yields it and as dpkt dissects it: the time stamp operands, the frame bytes,
    and what `Packet(buf, ts)` finds in them -/
structure CapEv where
  t : Container.Time
  buf : Bytes
  d : Dissected

def CapEv.item (e : CapEv) : Container.Item := .pkt e.t e.buf

/-- the microsecond the tool computes for the packet (`float(ts)`, then dpkt's `round(ts * 1e6)`): IEEE-754, executable only -/
def CapEv.us (e : CapEv) : Nat := Container.usOfFloat e.t.toFloat

/-- `Packet(buf, ts)` as a `MainLoop.Pkt` (without `-c`: the checksum verdict is not computed) -/
def pktOf (tag : Nat) : Dissected → Pkt
  | .notIp => Ingest.otherPkt tag
  | .ip x =>
    match x.l4 with
    | .tcp sp dp _ _ pl => ⟨.tcp, ⟨x.src, sp⟩, ⟨x.dst, dp⟩, pl, true, tag⟩
    | .udp sp dp pl => ⟨.udp, ⟨x.src, sp⟩, ⟨x.dst, dp⟩, pl, true, tag⟩
    | .other => Ingest.otherPkt tag

/-- what `Pipeline` reads behind the packet's tag -/
def infoOf (us : Nat) : Dissected → Pipeline.Info
  | .notIp => ⟨0, us, [], [], false⟩
  | .ip x =>
    match x.l4 with
    | .tcp _ _ seq _ _ => ⟨seq, us, x.srcMac, x.dstMac, x.v6⟩
    | _ => ⟨0, us, x.srcMac, x.dstMac, x.v6⟩

/-- the items the main loop iterates over: the packets of the capture, tagged by position -/
def itemsFrom : Nat → List CapEv → List (MainLoop.Item Keylog.Key)
  | _, [] => []
  | tag, e :: rest => .frame (pktOf tag e.d) :: itemsFrom (tag + 1) rest

def infosFrom : Nat → List CapEv → List (Nat × Pipeline.Info)
  | _, [] => []
  | tag, e :: rest => (tag, infoOf e.us e.d) :: infosFrom (tag + 1) rest

/-- the capture as a well-formed input of the read loop: every frame is dissected without an exception (`d` is what dpkt
    finds), and no time stamp evaluates to −1.0 (the tool would take the packet for a secrets block) -/
def CapOk (cap : List CapEv) : Prop :=
  ∀ e ∈ cap, dissect e.buf = .ok e.d ∧ Ingest.isMinusOne e.t = false

theorem framePkt_of_dissect (tag us : Nat) (buf : Bytes) (d : Dissected) (h : dissect buf = .ok d) :
    Ingest.framePkt false tag us buf = .ok (pktOf tag d, infoOf us d) := by
  unfold Ingest.framePkt
  rw [h]
  cases d with
  | notIp => rfl
  | ip x =>
    simp only [Bool.false_eq_true, if_false, pktOf, infoOf, Option.getD_none]
    cases x.l4 <;> rfl

theorem go_of_cap (hc : Keylog.HexClass) (cap : List CapEv) (hok : CapOk cap) (tag : Nat) :
    Ingest.go hc false tag (cap.map CapEv.item) = .ok (itemsFrom tag cap, infosFrom tag cap) := by
  induction cap generalizing tag with
  | nil => rfl
  | cons e rest ih =>
    obtain ⟨hd, ht⟩ := hok e (by simp)
    have := ih (fun x hx => hok x (by simp [hx])) (tag + 1)
    rw [List.map_cons, CapEv.item, Ingest.go]
    simp only [ht, Bool.false_eq_true, if_false, framePkt_of_dissect tag _ e.buf e.d hd, this]
    rfl

/-- **capture file → items.** Whatever the container (pcapng in any variant, libpcap): if the reader model reads the file as
    the packets `cap` and the capture is `CapOk`, the read loop (without `-c`) hands the main loop exactly the packets of
    `cap`, tagged by position, and `Pipeline` finds behind tag `i` the sequence number, time, MACs and IP version of packet `i`. -/
theorem ingest_of_capture (hc : Keylog.HexClass) (legacy : Bool) (file : Bytes) (cap : List CapEv)
    (hread : Container.read legacy file = .ok (cap.map CapEv.item)) (hok : CapOk cap) :
    Ingest.itemsWith hc false legacy file = .ok (itemsFrom 0 cap, infosFrom 0 cap) := by
  unfold Container.read at hread
  unfold Ingest.itemsWith
  cases hp : Container.readPrefix legacy file with
  | error e => rw [hp] at hread; cases hread
  | ok v =>
    obtain ⟨its, ended⟩ := v
    rw [hp] at hread
    cases ended with
    | some e => cases hread
    | none =>
      cases hread
      simp only [go_of_cap hc cap hok 0]

/-! ### items → sessions → the block of one session in `all_decrypted_sessions` -/

/-- the session object of the composed TLS machine after it has seen `p0` and then `rest` -/
theorem feedAll_tls (H : Crypto.Prims) (P : Cipher.Prims) (info : Nat → Pipeline.Info) (o : Opts) (p0 : Pkt)
    (rest : List Pkt) :
    (feedAll (Pipeline.tlsMachine H P info) (tlsNew (Pipeline.tlsMachine H P info) o p0) rest).st =
      { (Pipeline.tlsMachine H P info).new o p0 with pkts := p0 :: rest } := by
  have : ∀ (s : TlsSess Pipeline.Conn) (l : List Pkt),
      (feedAll (Pipeline.tlsMachine H P info) s l).st = { s.st with pkts := s.st.pkts ++ l } := by
    intro s l
    induction l generalizing s with
    | nil => simp [feedAll]
    | cons x xs ih =>
      simp only [feedAll, List.foldl_cons] at ih ⊢
      rw [ih]
      simp [Pipeline.tlsMachine, List.append_assoc]
  rw [this]
  simp [tlsNew, Pipeline.tlsMachine]

/-- **items → one session's block.** For ANY item list (any interleaving of any traffic), any reference packet `q`: if the
    TLS-relevant TCP packets of `q`'s flow are `p0 :: rest` (capture order) and `p0` has a server port at one end, then what
    `run()` hands to the writer is `pre ++ (the export of THE session object created from p0 and fed rest) ++ post`, with the
    key log as it is at the end of the capture — whatever the other flows, UDP datagrams and junk are. -/
theorem session_of_items (mask : Quic.Dissect.MaskFn) (H : Crypto.Prims) (P : Cipher.Prims) (info : Nat → Pipeline.Info)
    (o : Opts) (keys : List Keylog.Key) (xs : List (MainLoop.Item Keylog.Key)) (q p0 : Pkt) (rest : List Pkt)
    (hF : (tcpView o xs).filter (sameFlow q) = p0 :: rest) (hc : candidate o p0 = true) :
    let TM := Pipeline.tlsMachine H P info
    let QM := QuicPipeline.quicMachine mask H P info
    ∃ pre post, exportAll TM QM o (runItems TM QM o ⟨keys, [], []⟩ xs) =
      pre ++ TM.out { TM.new o p0 with pkts := p0 :: rest } (keys ++ dsbKeys o xs) ++ post := by
  intro TM QM
  rw [C18.fresh_run_is]
  have hfind := C04.tls_session_for TM o (tcpView o xs) q
  rw [hF] at hfind
  simp only [alone, hc, if_true] at hfind
  obtain ⟨l1, l2, hsplit⟩ := List.append_of_mem (List.mem_of_find?_eq_some hfind)
  rw [hsplit]
  simp only [List.flatMap_append, List.flatMap_cons, List.append_assoc]
  exact ⟨l1.flatMap (fun s => TM.out s.st (keys ++ dsbKeys o xs)), _, by rw [feedAll_tls]⟩

/-! ### frames → file -/

/-- three-way split of a list that is as long as `a ++ b ++ c` -/
theorem split3 {α β : Type} (a b c : List α) (bs : List β) (h : bs.length = (a ++ b ++ c).length) :
    ∃ x y z, bs = x ++ y ++ z ∧ x.length = a.length ∧ y.length = b.length ∧ z.length = c.length := by
  refine ⟨bs.take a.length, (bs.drop a.length).take b.length, (bs.drop a.length).drop b.length, ?_, ?_, ?_, ?_⟩
  · rw [List.append_assoc, List.take_append_drop, List.take_append_drop]
  · simp only [List.length_append] at h; simp only [List.length_take]; omega
  · simp only [List.length_append] at h; simp only [List.length_take, List.length_drop]; omega
  · simp only [List.length_append] at h; simp only [List.length_drop]; omega

/-- **frames → file.** If the frames handed to the writer are `pre ++ blk ++ post` and the file is written, the tool's own
    reader reads it back as (one packet per frame of `pre`) ++ (the serialisations of `blk`, in order, at their times) ++
    (one packet per frame of `post`): a session's block stays contiguous and is not touched by the other sessions; and
    every frame of the block is a `GoodFrame` (parses with the independent parser to its own fields, checksums valid,
    lengths consistent). -/
theorem file_of_frames (pre blk post : List Pipeline.OutPkt) (f : Bytes)
    (hwf : ∀ p ∈ pre ++ blk ++ post, (Frame.ofOutPkt p).WF) (h : fileOf (pre ++ blk ++ post) = .ok f) :
    ∃ (A C : List Item) (B : List Bytes), A.length = pre.length ∧ C.length = post.length ∧ B.length = blk.length ∧
      Container.read false f = .ok (A ++ (blk.zip B).map (fun pb => Item.pkt ⟨pb.1.ts, 10 ^ 6, 0, false⟩ pb.2) ++ C) ∧
      ∀ pb ∈ blk.zip B, Export.GoodFrame (Frame.ofOutPkt pb.1) pb.2 := by
  obtain ⟨bs, hlen, hread, hall⟩ := C06Bytes.fileOf_roundtrip_outpkts _ f hwf h
  obtain ⟨x, y, z, rfl, hx, hy, hz⟩ := split3 pre blk post bs hlen
  have hz1 : (pre ++ blk ++ post).zip (x ++ y ++ z) = pre.zip x ++ blk.zip y ++ post.zip z := by
    rw [List.zip_append (by simp [hx, hy]), List.zip_append hx.symm]
  refine ⟨(pre.zip x).map (fun pb => Item.pkt ⟨pb.1.ts, 10 ^ 6, 0, false⟩ pb.2),
    (post.zip z).map (fun pb => Item.pkt ⟨pb.1.ts, 10 ^ 6, 0, false⟩ pb.2), y, by simp [hx], by simp [hz], hy, ?_, ?_⟩
  · rw [hread, hz1, List.map_append, List.map_append]
  · intro pb hpb
    have hmem : pb ∈ (pre ++ blk ++ post).zip (x ++ y ++ z) := by
      rw [hz1]; simp [hpb]
    have hser := hall pb hmem
    have hp : pb.1 ∈ pre ++ blk ++ post := (List.of_mem_zip hmem).1
    exact Export.goodFrame_of _ _ (hwf _ hp) hser

/-! ### the layers glued -/
section
open TLX.Export

/-- the option vector `run()` works with once `-p` / `-m` are parsed -/
def optsOf (args : Args) (ports : List Int) (pm : List (Int × Int)) : Opts :=
  ⟨ports, args.checksumTest, args.greasy, args.metadata, Options.keepOriginalPorts args.mArg, pm⟩

theorem framesFrom_eq (mask : Quic.Dissect.MaskFn) (H : Crypto.Prims) (P : Cipher.Prims) (args : Args)
    (fk : Option (List Keylog.Key)) (xs : List (MainLoop.Item Keylog.Key)) (info : Nat → Pipeline.Info)
    (pm : List (Int × Int)) (ports : List Int)
    (hpm : Options.getPortMap Options.Src.bare args.mArg = .ok pm)
    (hports : Options.serverPorts Options.Src.builtin Options.Src.pDefault args.pArg = .ok ports) :
    framesFrom mask H P freshState args fk xs info =
      .ok (exportAll (Pipeline.tlsMachine H P info) (QuicPipeline.quicMachine mask H P info) (optsOf args ports pm)
        (runItems (Pipeline.tlsMachine H P info) (QuicPipeline.quicMachine mask H P info) (optsOf args ports pm)
          ⟨fk.getD [], [], []⟩ xs)) := by
  unfold framesFrom runFrom MainLoop.body
  have hr : (reset (freshState : Prior)).serverPorts = Options.Src.builtin := rfl
  simp only [hpm, hr, hports]
  rfl

theorem optionsBad_false (args : Args) (pm : List (Int × Int)) (ports : List Int)
    (hpm : Options.getPortMap Options.Src.bare args.mArg = .ok pm)
    (hports : Options.serverPorts Options.Src.builtin Options.Src.pDefault args.pArg = .ok ports) :
    optionsBad (freshState : Prior) args = false := by
  unfold optionsBad
  have hr : (reset (freshState : Prior)).serverPorts = Options.Src.builtin := rfl
  simp only [hpm, hr, hports]

theorem classify_frame_not_keys (o : Opts) (p : Pkt) (ks : List Keylog.Key) :
    (classify o (.frame p) : Class Keylog.Key) ≠ .keys ks := by
  intro h
  simp only [classify] at h
  repeat' split at h
  all_goals cases h

theorem dsbKeys_frame (o : Opts) (p : Pkt) : dsbKeys o [(.frame p : MainLoop.Item Keylog.Key)] = [] := by
  simp only [dsbKeys, List.flatMap_cons, List.flatMap_nil, List.append_nil]
  split
  · rename_i ks hk; exact absurd hk (classify_frame_not_keys o p ks)
  · rfl

theorem dsbKeys_cons (o : Opts) (x : MainLoop.Item Keylog.Key) (l : List (MainLoop.Item Keylog.Key)) :
    dsbKeys o (x :: l) = dsbKeys o [x] ++ dsbKeys o l := by
  simp [dsbKeys]

theorem dsbKeys_itemsFrom (o : Opts) (cap : List CapEv) (tag : Nat) : dsbKeys o (itemsFrom tag cap) = [] := by
  induction cap generalizing tag with
  | nil => rfl
  | cons e rest ih => rw [itemsFrom, dsbKeys_cons, dsbKeys_frame, ih]; rfl

/-- what the theorem says about the output file `f` for the block `blk` of one session: the tool's own reader reads `f` as
    (other sessions' packets) ++ (one packet per frame of `blk`, in order, at the frame's microsecond) ++ (other sessions'
    packets), and each packet of the block is the serialisation of its frame and a `GoodFrame`: the independent parser
    reads exactly the frame's MACs, addresses, ports and payload out of it, lengths and checksums right -/
def ReadsBack (f : Bytes) (blk : List Pipeline.OutPkt) : Prop :=
  ∃ (A C : List Item) (B : List Bytes), B.length = blk.length ∧
    Container.read false f = .ok (A ++ (blk.zip B).map (fun pb => Item.pkt ⟨pb.1.ts, 10 ^ 6, 0, false⟩ pb.2) ++ C) ∧
    ∀ pb ∈ blk.zip B, Props.Export.GoodFrame (Frame.ofOutPkt pb.1) pb.2

/-- **The three layers glued around one session.** Capture file (any container the reader model reads as the packets `cap`,
    every frame dissected without exception), key-log file, options without `-c`; `q` any packet of the flow of interest,
    whose TLS-relevant packets in the capture are `p0 :: rest`, `p0` with a server port at one end. If `connOut` of THE
    session object the loop builds for that flow is `some blk`, then the run gets past option parsing and the read loop, and
    either dies in the write loop (some frame of some session does not fit scapy's fields: `export_abort_write_iff`) or
    writes a file that `ReadsBack` exactly `blk`. -/
theorem export_of_session (mask : Quic.Dissect.MaskFn) (H : Crypto.Prims) (P : Cipher.Prims) (args : Args)
    (legacy : Bool) (keyFile : Option Keylog.Str) (file : Bytes) (cap : List CapEv)
    (hread : Container.read legacy file = .ok (cap.map CapEv.item)) (hok : CapOk cap)
    (hnoc : args.checksumTest = false)
    (pm : List (Int × Int)) (ports : List Int)
    (hpm : Options.getPortMap Options.Src.bare args.mArg = .ok pm)
    (hports : Options.serverPorts Options.Src.builtin Options.Src.pDefault args.pArg = .ok ports)
    (q p0 : Pkt) (rest : List Pkt)
    (hF : (tcpView (optsOf args ports pm) (itemsFrom 0 cap)).filter (sameFlow q) = p0 :: rest)
    (hcand : candidate (optsOf args ports pm) p0 = true)
    (blk : List Pipeline.OutPkt)
    (hsess : Pipeline.connOut H P (Ingest.lookup (infosFrom 0 cap))
      { (Pipeline.tlsMachine H P (Ingest.lookup (infosFrom 0 cap))).new (optsOf args ports pm) p0 with pkts := p0 :: rest }
      ((fileKeysOf keyFile).getD []) = some blk) :
    (∃ e, exportFile mask H P args legacy keyFile file = .abort (.write e)) ∨
    ∃ f, exportFile mask H P args legacy keyFile file = .file f ∧ ReadsBack f blk := by
  have hopt := optionsBad_false args pm ports hpm hports
  have hing := ingest_of_capture Keylog.srcHexClass legacy file cap hread hok
  rw [← hnoc] at hing
  obtain ⟨pre, post, hout⟩ := session_of_items mask H P (Ingest.lookup (infosFrom 0 cap)) (optsOf args ports pm)
    ((fileKeysOf keyFile).getD []) (itemsFrom 0 cap) q p0 rest hF hcand
  simp only [dsbKeys_itemsFrom, List.append_nil] at hout
  have hTM : (Pipeline.tlsMachine H P (Ingest.lookup (infosFrom 0 cap))).out
      { (Pipeline.tlsMachine H P (Ingest.lookup (infosFrom 0 cap))).new (optsOf args ports pm) p0 with pkts := p0 :: rest }
      ((fileKeysOf keyFile).getD []) = blk := by
    show (Pipeline.connOut H P _ _ _).getD [] = blk
    rw [hsess]; rfl
  rw [hTM] at hout
  have hfr := framesFrom_eq mask H P args (fileKeysOf keyFile) (itemsFrom 0 cap) (Ingest.lookup (infosFrom 0 cap))
    pm ports hpm hports
  rw [hout] at hfr
  rcases Props.Export.exportFrom_stages mask H P freshState args legacy keyFile file hopt with
    ⟨e, hi, _⟩ | ⟨xs, is, out, hi, hf, hw⟩
  · rw [hing] at hi; cases hi
  rw [hing] at hi
  cases hi
  rw [hfr] at hf
  cases hf
  rcases hw with ⟨e, _, he⟩ | ⟨f, hw, he⟩
  · exact .inl ⟨e, he⟩
  · refine .inr ⟨f, he, ?_⟩
    have hwf := Lemmas.Export.framesFrom_wf mask H P freshState args _ _ _ _
      (Lemmas.Export.itemsWith_good _ _ _ _ _ _ hing) hfr
    obtain ⟨A, C, B, _, _, hB, hr, hg⟩ := file_of_frames pre blk post f hwf hw
    exact ⟨A, C, B, hB, hr, hg⟩

end

/-! ### the connection capstones, from file to file -/
section
open TLX.Export TLX.Cipher TLX.RecordLayer TLX.Spec.TlsSender TLX.Props.C01 TLX.Lemmas.Pipeline TLX.Spec.TlsConnection
open TLX.Lemmas.Capstone TLX.Props.C01Pipeline TLX.Spec.TlsFraming TLX.Props.C01Capstone

/-- what `Pipeline` finds behind the tags of a capture -/
def capInfo (cap : List CapEv) : Nat → Pipeline.Info := Ingest.lookup (infosFrom 0 cap)

/-- THE session object `run()` builds for a flow whose TLS-relevant packets are `p0 :: rest`: roles by the server ports,
    MAC addresses and IP version of the first packet, all packets of the flow in capture order -/
def sessionOf (cap : List CapEv) (o : Opts) (p0 : Pkt) (rest : List Pkt) : Pipeline.Conn :=
  let r := rolesOf o.ports p0
  let i := capInfo cap p0.tag
  { opts := o, server := r.1, client := r.2,
    serverMac := if r.1 == p0.src then i.srcMac else i.dstMac,
    clientMac := if r.1 == p0.src then i.dstMac else i.srcMac,
    ipv6 := i.ipv6, pkts := p0 :: rest }

theorem sessionOf_eq (H : Crypto.Prims) (P : Prims) (cap : List CapEv) (o : Opts) (p0 : Pkt) (rest : List Pkt) :
    { (Pipeline.tlsMachine H P (capInfo cap)).new o p0 with pkts := p0 :: rest } = sessionOf cap o p0 rest := rfl

/-- the conversation found in the output file: the frames of the session's block, read back, ARE `frames` addressed for the
    session — and `frames` is a well-formed TCP conversation whose two byte streams are the two plaintexts -/
def Exact (f : Bytes) (c : Pipeline.Conn) (pc psv : Bytes) : Prop :=
  ∃ frames : List TcpOut.Frame,
    ReadsBack f (frames.map (Pipeline.addressed c.opts c)) ∧ Spec.reassemble frames = some (pc, psv)

/-- **C01 from file to file, SSL 3.0 – TLS 1.2.** -/
theorem tls12_file_exact (mask : Quic.Dissect.MaskFn) (H : Crypto.Prims) (P : Prims) (L : SealLaws P)
    -- the files and the options
    (args : Args) (legacy : Bool) (keyFile : Option Keylog.Str) (file : Bytes) (cap : List CapEv)
    (hread : Container.read legacy file = .ok (cap.map CapEv.item)) (hok : CapOk cap)
    (hnoc : args.checksumTest = false) (hmeta : args.metadata = false)
    (pm : List (Int × Int)) (ports : List Int)
    (hpm : Options.getPortMap Options.Src.bare args.mArg = .ok pm)
    (hports : Options.serverPorts Options.Src.builtin Options.Src.pDefault args.pArg = .ok ports)
    -- the flow
    (q p0 : Pkt) (rest : List Pkt)
    (hF : (tcpView (optsOf args ports pm) (itemsFrom 0 cap)).filter (sameFlow q) = p0 :: rest)
    (hcand : candidate (optsOf args ports pm) p0 = true)
    -- the connection as sent (hypotheses of `tls12_connection_exact`, for the session object and the key-log file)
    (t : Transcript) (hch : t.ch.WellFormed) (hsh : t.sh.WellFormed) (hrc : t.rvC.length = 2) (hrs : t.rvS.length = 2)
    (hv : t.ver.length = 2) (hcomp : t.sh.compressionMethod = 0)
    (v : Session.Ver) (hvne : v ≠ .tls13) (hneg : Negotiated t.rvS t.sh v)
    (ps : CipherSuite.Params) (hres : CipherSuite.resolve (Bytes.beNat t.sh.cipherSuite) = some ps)
    (a : Pipeline.SuiteArgs) (hargs : Pipeline.suiteArgs ps = some a)
    (fk : Keylog.Key) (fks : List Keylog.Key)
    (hfound : (Keylog.findSessionSecrets ((fileKeysOf keyFile).getD []) (Pipeline.natsOfBytes t.ch.random)).filter
        (fun k => k.label == Keylog.s_CLIENT_RANDOM || k.label == Keylog.s_RSA) = fk :: fks)
    (secrets : List KeySchedule.Secret) (hsec : Pipeline.secretsOf false (fk :: fks) = some secrets)
    (k : KeySchedule.Keys6)
    (hgen : KeySchedule.generateKeys H (Pipeline.ksVersion v) a.ks secrets t.ch.random t.sh.random
      = .ok (some (.legacy k)))
    (cls : CipherClass)
    (hcls : classOf a.bulk (Pipeline.rlVersion v)
      (Session.extGet ((t.sh.extensions.getD []).map extPair) [0x00, 0x16]).isSome a.tagLen = some cls)
    (hmac : 0 < (KeySchedule.macSuite H a.ks.mac).outLen)
    (hck : KeyMatOk cls k.clientKey k.clientIv) (hsk : KeyMatOk cls k.serverKey k.serverIv)
    (hsc : Script12 t.cEvs) (hss : Script12 t.sEvs)
    (hokc : ∀ e ∈ t.cEvs, EvOk1 cls (KeySchedule.macSuite H a.ks.mac).outLen e)
    (hoks : ∀ e ∈ t.sEvs, EvOk1 cls (KeySchedule.macSuite H a.ks.mac).outLen e)
    (hwr : ∀ d, ∀ r ∈ t.records P L cls (legacySnd k) d, WholeRecord r)
    (hlen : t.cEvs.length + t.sEvs.length ≤ seqLimit)
    -- the capture of the connection
    (hdel : DeliveredInOrder (capInfo cap) (sessionOf cap (optsOf args ports pm) p0 rest) (t.stream P L cls (legacySnd k)))
    (hcausal : Causal12 (connRecs (capInfo cap) (sessionOf cap (optsOf args ports pm) p0 rest))) :
    (∃ e, exportFile mask H P args legacy keyFile file = .abort (.write e)) ∨
    ∃ f, exportFile mask H P args legacy keyFile file = .file f ∧
      Exact f (sessionOf cap (optsOf args ports pm) p0 rest)
        (Spec.TlsConnection.plainOf t.cEvs) (Spec.TlsConnection.plainOf t.sEvs) := by
  obtain ⟨frames, hconn, hre, _⟩ := tls12_connection_exact H P L ((fileKeysOf keyFile).getD []) (capInfo cap)
    (sessionOf cap (optsOf args ports pm) p0 rest) hmeta t hch hsh hrc hrs hv hcomp v hvne hneg ps hres a hargs fk fks
    hfound secrets hsec k hgen cls hcls hmac hck hsk hsc hss hokc hoks hwr hlen hdel hcausal
  rcases export_of_session mask H P args legacy keyFile file cap hread hok hnoc pm ports hpm hports q p0 rest hF hcand
    _ hconn with h | ⟨f, hf, hrb⟩
  · exact .inl h
  · exact .inr ⟨f, hf, frames, hrb, hre⟩

/-- **C01 from file to file, TLS 1.3.** -/
theorem tls13_file_exact (mask : Quic.Dissect.MaskFn) (H : Crypto.Prims) (P : Prims) (L : SealLaws P)
    -- the files and the options
    (args : Args) (legacy : Bool) (keyFile : Option Keylog.Str) (file : Bytes) (cap : List CapEv)
    (hread : Container.read legacy file = .ok (cap.map CapEv.item)) (hok : CapOk cap)
    (hnoc : args.checksumTest = false) (hmeta : args.metadata = false)
    (pm : List (Int × Int)) (ports : List Int)
    (hpm : Options.getPortMap Options.Src.bare args.mArg = .ok pm)
    (hports : Options.serverPorts Options.Src.builtin Options.Src.pDefault args.pArg = .ok ports)
    -- the flow
    (q p0 : Pkt) (rest : List Pkt)
    (hF : (tcpView (optsOf args ports pm) (itemsFrom 0 cap)).filter (sameFlow q) = p0 :: rest)
    (hcand : candidate (optsOf args ports pm) p0 = true)
    -- the connection as sent (hypotheses of `tls13_connection_exact`, for the session object and the key-log file)
    (t : Transcript) (hch : t.ch.WellFormed) (hsh : t.sh.WellFormed) (hrc : t.rvC.length = 2) (hrs : t.rvS.length = 2)
    (hv : t.ver.length = 2) (hcomp : t.sh.compressionMethod = 0) (hneg : Negotiated t.rvS t.sh .tls13)
    (ps : CipherSuite.Params) (hres : CipherSuite.resolve (Bytes.beNat t.sh.cipherSuite) = some ps)
    (a : Pipeline.SuiteArgs) (hargs : Pipeline.suiteArgs ps = some a)
    (fk : Keylog.Key) (fks : List Keylog.Key)
    (hfound : Keylog.findSessionSecrets ((fileKeysOf keyFile).getD []) (Pipeline.natsOfBytes t.ch.random) = fk :: fks)
    (secrets : List KeySchedule.Secret) (hsec : Pipeline.secretsOf true (fk :: fks) = some secrets)
    (k : KeySchedule.Installed13)
    (hgen : KeySchedule.generateKeys H .tls13 a.ks secrets t.ch.random t.sh.random = .ok (some (.tls13 k)))
    (chk chiv cak caiv shk shiv sak saiv : Bytes)
    (hk : k.clientHsKey = some chk ∧ k.clientHsIv = some chiv ∧ k.clientAppKey = some cak ∧ k.clientAppIv = some caiv ∧
      k.serverHsKey = some shk ∧ k.serverHsIv = some shiv ∧ k.serverAppKey = some sak ∧ k.serverAppIv = some saiv)
    (cls : CipherClass)
    (hcls : classOf a.bulk .tls13
      (Session.extGet ((t.sh.extensions.getD []).map extPair) [0x00, 0x16]).isSome a.tagLen = some cls)
    (h1 : KeyMatOk cls chk chiv) (h2 : KeyMatOk cls cak caiv) (h3 : KeyMatOk cls shk shiv) (h4 : KeyMatOk cls sak saiv)
    (hsc : Script13 t.cEvs) (hss : Script13 t.sEvs)
    (hokc : ∀ e ∈ t.cEvs, EvOk1 cls (KeySchedule.macSuite H a.ks.mac).outLen e)
    (hoks : ∀ e ∈ t.sEvs, EvOk1 cls (KeySchedule.macSuite H a.ks.mac).outLen e)
    (hwr : ∀ d, ∀ r ∈ t.records P L cls ⟨SDir.init chk chiv cak caiv, SDir.init shk shiv sak saiv⟩ d, WholeRecord r)
    (hlen : budget13 t ≤ seqLimit)
    -- the capture of the connection
    (hdel : DeliveredInOrder (capInfo cap) (sessionOf cap (optsOf args ports pm) p0 rest)
      (t.stream P L cls ⟨SDir.init chk chiv cak caiv, SDir.init shk shiv sak saiv⟩))
    (hcausal : Causal13 (connRecs (capInfo cap) (sessionOf cap (optsOf args ports pm) p0 rest))) :
    (∃ e, exportFile mask H P args legacy keyFile file = .abort (.write e)) ∨
    ∃ f, exportFile mask H P args legacy keyFile file = .file f ∧
      Exact f (sessionOf cap (optsOf args ports pm) p0 rest)
        (Spec.TlsConnection.plainOf t.cEvs) (Spec.TlsConnection.plainOf t.sEvs) := by
  obtain ⟨frames, hconn, hre, _⟩ := tls13_connection_exact H P L ((fileKeysOf keyFile).getD []) (capInfo cap)
    (sessionOf cap (optsOf args ports pm) p0 rest) hmeta t hch hsh hrc hrs hv hcomp hneg ps hres a hargs fk fks
    hfound secrets hsec k hgen chk chiv cak caiv shk shiv sak saiv hk cls hcls h1 h2 h3 h4 hsc hss hokc hoks hwr hlen
    hdel hcausal
  rcases export_of_session mask H P args legacy keyFile file cap hread hok hnoc pm ports hpm hports q p0 rest hF hcand
    _ hconn with h | ⟨f, hf, hrb⟩
  · exact .inl h
  · exact .inr ⟨f, hf, frames, hrb, hre⟩

end

section
open TLX.Spec.FrameBuild TLX.Spec.TlsCapture TLX.Props.C12Dissect

/-! ### a capture described from the sender's side -/

/-- what dpkt finds in a frame built by `Spec.FrameBuild` (`dissect_build_v4/_v6`) -/
def viewOf (fr : Spec.FrameBuild.Frame) : Dissected :=
  match fr.net with
  | .v4 h => .ip ⟨false, fr.srcMac, fr.dstMac, h.src, h.dst, fr.upper.proto, fr.upper.encode, transportOf fr.upper⟩
  | .v6 h => .ip ⟨true, fr.srcMac, fr.dstMac, h.src, h.dst, fr.upper.proto, fr.upper.encode, transportOf fr.upper⟩

theorem dissect_seg (fl : Flow) (d : Bool) (fr : Spec.FrameBuild.Frame) (t : Tcp) (h : IsSeg fl d fr t) :
    dissect fr.encode = .ok (viewOf fr) := by
  obtain ⟨hwf, hu, _, _, hnet⟩ := h
  unfold viewOf
  cases hn : fr.net with
  | v4 h4 => exact dissect_build_v4 fr h4 hn hwf
  | v6 h6 =>
    rw [hn] at hnet
    obtain ⟨_, hex, _, _⟩ := hnet
    refine dissect_build_v6 fr h6 hn hwf (by rw [hex]; intro e he; cases he) ?_
    rw [hex, hu]
    simp [encChain, Upper.proto]

def clientEp (fl : Flow) : Endpoint := ⟨fl.clientIp, fl.clientPort⟩
def serverEp (fl : Flow) : Endpoint := ⟨fl.serverIp, fl.serverPort⟩

/-- the `MainLoop.Pkt` of a segment -/
theorem pktOf_seg (fl : Flow) (d : Bool) (fr : Spec.FrameBuild.Frame) (t : Tcp) (h : IsSeg fl d fr t) (tag : Nat) :
    pktOf tag (viewOf fr) =
      ⟨.tcp, if d then serverEp fl else clientEp fl, if d then clientEp fl else serverEp fl, t.payload, true, tag⟩ := by
  obtain ⟨_, hu, hsp, hdp, hnet⟩ := h
  unfold viewOf
  cases hn : fr.net with
  | v4 h4 =>
    rw [hn] at hnet
    obtain ⟨_, hs, hd⟩ := hnet
    simp only [pktOf, hu, transportOf, hs, hd, hsp, hdp, clientEp, serverEp]
    cases d <;> rfl
  | v6 h6 =>
    rw [hn] at hnet
    obtain ⟨_, _, hs, hd⟩ := hnet
    simp only [pktOf, hu, transportOf, hs, hd, hsp, hdp, clientEp, serverEp]
    cases d <;> rfl

theorem infoOf_seg (fl : Flow) (d : Bool) (fr : Spec.FrameBuild.Frame) (t : Tcp) (h : IsSeg fl d fr t) (us : Nat) :
    infoOf us (viewOf fr) = ⟨t.seq, us, fr.srcMac, fr.dstMac, fl.v6⟩ := by
  obtain ⟨_, hu, _, _, hnet⟩ := h
  unfold viewOf
  cases hn : fr.net with
  | v4 h4 =>
    rw [hn] at hnet
    simp only [infoOf, hu, transportOf, hnet.1]
  | v6 h6 =>
    rw [hn] at hnet
    simp only [infoOf, hu, transportOf, hnet.1]

/-- a described capture: segments of the connection (each with the time the reader yields for it) and anything else -/
inductive CEv
  | seg (t : Container.Time) (fromServer : Bool) (fr : Spec.FrameBuild.Frame) (tcp : Tcp)
  | foreign (e : CapEv)

def CEv.cap : CEv → CapEv
  | .seg t _ fr _ => ⟨t, fr.encode, viewOf fr⟩
  | .foreign e => e

/-- a packet of the flow, to select it with -/
def refPkt (fl : Flow) : Pkt := ⟨.tcp, clientEp fl, serverEp fl, [], true, 0⟩

/-- a foreign packet: dpkt dissects it without exception, and IF the main loop takes it for a TCP segment with payload, it
    is between another pair of endpoints than the connection's (anything else — non-IP frames, ARP, ICMP, fragments, UDP
    and QUIC, TCP of other flows with or without TLS in them, pure ACKs of any flow — is admitted) -/
def Foreign (fl : Flow) (e : CapEv) : Prop :=
  dissect e.buf = .ok e.d ∧
  ∀ tag, (pktOf tag e.d).l4 = .tcp → (pktOf tag e.d).payload ≠ [] → sameFlow (refPkt fl) (pktOf tag e.d) = false

def Described (fl : Flow) (evs : List CEv) : Prop :=
  ∀ ev ∈ evs, match ev with
    | .seg _ d fr t => IsSeg fl d fr t
    | .foreign e => Foreign fl e

/-- the packets of the connection that reach its session: the segments with payload, tagged by their position in the capture -/
def flowPkts (fl : Flow) : Nat → List CEv → List Pkt
  | _, [] => []
  | n, .seg _ d _ t :: rest =>
    if t.payload = [] then flowPkts fl (n + 1) rest
    else ⟨.tcp, if d then serverEp fl else clientEp fl, if d then clientEp fl else serverEp fl, t.payload, true, n⟩ ::
      flowPkts fl (n + 1) rest
  | n, .foreign _ :: rest => flowPkts fl (n + 1) rest

theorem tcpView_cons (o : Opts) (x : MainLoop.Item Keylog.Key) (l : List (MainLoop.Item Keylog.Key)) :
    tcpView o (x :: l) = tcpView o [x] ++ tcpView o l := by
  simp only [Spec.Demux.tcpView, List.filterMap_cons]
  split <;> simp

theorem tcpView_frame (o : Opts) (hc : o.checksumTest = false) (p : Pkt) :
    tcpView o [(.frame p : MainLoop.Item Keylog.Key)] = if p.l4 = .tcp ∧ p.payload ≠ [] then [p] else [] := by
  simp only [Spec.Demux.tcpView, List.filterMap_cons, List.filterMap_nil, classify, hc, Bool.false_and, Bool.false_eq_true,
    if_false]
  cases hl : p.l4 with
  | tcp =>
    cases hp : p.payload with
    | nil => simp
    | cons b bs => simp
  | udp =>
    cases hp : p.payload with
    | nil => simp
    | cons b bs =>
      by_cases hq : (decide ((b.toNat &&& 64) >>> 6 = 1) || o.greasy) = true <;> simp [hq]
  | other => simp

theorem sameFlow_ref (fl : Flow) (d : Bool) (pl : Bytes) (c : Bool) (n : Nat) :
    sameFlow (refPkt fl)
      ⟨.tcp, if d then serverEp fl else clientEp fl, if d then clientEp fl else serverEp fl, pl, c, n⟩ = true := by
  cases d <;> simp [sameFlow, refPkt]

theorem capOk_of_described (fl : Flow) (evs : List CEv) (h : Described fl evs)
    (ht : ∀ e ∈ evs.map CEv.cap, Ingest.isMinusOne e.t = false) : CapOk (evs.map CEv.cap) := by
  intro e he
  refine ⟨?_, ht e he⟩
  simp only [List.mem_map] at he
  obtain ⟨ev, hev, rfl⟩ := he
  have := h ev hev
  cases ev with
  | seg t d fr tcp => exact dissect_seg fl d fr tcp this
  | foreign e => exact this.1

/-- the TLS-relevant packets of the connection's flow in the described capture are its segments with payload -/
theorem flow_filter (fl : Flow) (o : Opts) (hc : o.checksumTest = false) (evs : List CEv) (h : Described fl evs)
    (n : Nat) :
    (tcpView o (itemsFrom n (evs.map CEv.cap))).filter (sameFlow (refPkt fl)) = flowPkts fl n evs := by
  induction evs generalizing n with
  | nil => rfl
  | cons ev rest ih =>
    have hrest := ih (fun x hx => h x (by simp [hx])) (n + 1)
    have hev := h ev (by simp)
    rw [List.map_cons, itemsFrom, tcpView_cons, List.filter_append, hrest, tcpView_frame o hc]
    cases ev with
    | seg t d fr tcp =>
      simp only [CEv.cap, pktOf_seg fl d fr tcp hev n, flowPkts]
      by_cases hp : tcp.payload = []
      · simp [hp]
      · simp [hp, sameFlow_ref]
    | foreign e =>
      have hev : Foreign fl e := hev
      simp only [CEv.cap, flowPkts]
      by_cases hcond : (pktOf n e.d).l4 = MainLoop.L4.tcp ∧ (pktOf n e.d).payload ≠ []
      · have hsf := hev.2 n hcond.1 hcond.2
        simp [hcond.1, hcond.2, hsf]
      · have : ¬ ((pktOf n e.d).l4 = MainLoop.L4.tcp ∧ ¬ (pktOf n e.d).payload = []) := hcond
        simp [this]

/-- the segments of direction `d` that carry data, as a receiver of the capture sees them: (sequence number, data) -/
def dirWires (d : Bool) : List CEv → List Spec.TlsFraming.Wire
  | [] => []
  | .seg _ d' _ t :: rest => if t.payload ≠ [] ∧ d' = d then (t.seq, t.payload) :: dirWires d rest else dirWires d rest
  | .foreign _ :: rest => dirWires d rest

open TLX.Lemmas.Capstone in
theorem dirSegs_flow (fl : Flow) (hne : clientEp fl ≠ serverEp fl) (d : Bool) (evs : List CEv) (hd : Described fl evs)
    (n : Nat) (info : Nat → Pipeline.Info)
    (hinfo : ∀ tag, n ≤ tag → info tag = Ingest.lookup (infosFrom n (evs.map CEv.cap)) tag) :
    (dirSegs info (serverEp fl) d (flowPkts fl n evs)).map Props.C05.wire = dirWires d evs := by
  induction evs generalizing n with
  | nil => rfl
  | cons ev rest ih =>
    have hrest := ih (fun x hx => hd x (by simp [hx])) (n + 1) (fun tag ht => by
      rw [hinfo tag (by omega), List.map_cons, infosFrom, Lemmas.Export.lookup_cons_ne _ _ _ _ (by omega)])
    have hev := hd ev (by simp)
    cases ev with
    | foreign e => simpa [flowPkts, dirWires] using hrest
    | seg t d' fr tcp =>
      have hev : IsSeg fl d' fr tcp := hev
      have hi : info n = ⟨tcp.seq, (CEv.seg t d' fr tcp).cap.us, fr.srcMac, fr.dstMac, fl.v6⟩ := by
        rw [hinfo n (Nat.le_refl _), List.map_cons, infosFrom, Lemmas.Export.lookup_cons_eq]
        exact infoOf_seg fl d' fr tcp hev _
      by_cases hp : tcp.payload = []
      · simpa [flowPkts, dirWires, hp] using hrest
      · simp only [flowPkts, hp, if_false, dirWires, ne_eq, not_false_eq_true, true_and]
        simp only [dirSegs, List.filter_cons] at hrest ⊢
        have hsrc : ((if d' then serverEp fl else clientEp fl) == serverEp fl) = d' := by
          cases d' <;> simp [hne]
        by_cases hdd : d' = d
        · subst hdd
          simp only [hsrc, beq_self_eq_true, if_true, List.map_cons, Props.C05.wire, hi, hrest]
        · have : (d' == d) = false := by simpa using hdd
          simp only [hsrc, this, Bool.false_eq_true, if_false, hdd, hrest]

theorem flowPkts_shape (fl : Flow) (evs : List CEv) (n : Nat) :
    ∀ p ∈ flowPkts fl n evs, ∃ (d : Bool) (pl : Bytes) (tag : Nat),
      p = ⟨.tcp, if d then serverEp fl else clientEp fl, if d then clientEp fl else serverEp fl, pl, true, tag⟩ := by
  induction evs generalizing n with
  | nil => intro p hp; cases hp
  | cons ev rest ih =>
    intro p hp
    cases ev with
    | foreign e => exact ih (n + 1) p hp
    | seg t d fr tcp =>
      simp only [flowPkts] at hp
      split at hp
      · exact ih (n + 1) p hp
      · rcases List.mem_cons.mp hp with rfl | hp
        · exact ⟨d, _, _, rfl⟩
        · exact ih (n + 1) p hp

/-- roles: the server port is a server port (`-p` or built in), the client port is not — then whichever side sent the
    first captured packet, the session's server is the connection's server (C10) -/
theorem roles_of_flow (fl : Flow) (ports : List Int) (hsp : ports.contains (fl.serverPort : Int) = true)
    (hcp : ports.contains (fl.clientPort : Int) = false) (d : Bool) (pl : Bytes) (c : Bool) (tag : Nat) (o : Opts)
    (ho : o.ports = ports) :
    let p : Pkt := ⟨.tcp, if d then serverEp fl else clientEp fl, if d then clientEp fl else serverEp fl, pl, c, tag⟩
    rolesOf o.ports p = (serverEp fl, clientEp fl) ∧ candidate o p = true := by
  have hs : (fl.serverPort : Int) ∈ ports := by simpa using hsp
  have hc : ¬ (fl.clientPort : Int) ∈ ports := by simpa using hcp
  cases d <;> simp [rolesOf, candidate, ho, hs, hc, serverEp, clientEp]

/-- the capture file in any container variant of the independent encoder: the reader model yields its packets -/
theorem capture_read (v : Spec.Containers.Variant) (pkts : List (Nat × Bytes))
    (hwf : v.WF (pkts.map fun p => .pkt p.1 p.2)) :
    Container.read v.isLegacy (Spec.Containers.encode v (pkts.map fun p => .pkt p.1 p.2)) =
      .ok ((pkts.map fun p => Spec.Containers.Ev.pkt p.1 p.2).filterMap (Spec.Containers.scale v)) :=
  Props.C12.reader_roundtrip v _ hwf

end

/-! ### from the sender's description of the capture to the output file -/
section
open TLX.Export TLX.Spec.FrameBuild TLX.Spec.TlsCapture TLX.Props.C12Dissect
open TLX.Cipher TLX.RecordLayer TLX.Spec.TlsSender TLX.Props.C01 TLX.Lemmas.Pipeline TLX.Spec.TlsConnection
open TLX.Lemmas.Capstone TLX.Props.C01Pipeline TLX.Spec.TlsFraming TLX.Props.C01Capstone

/-- the capture, seen from the sender's side, delivers both byte streams in order: per direction the (sequence number,
    data) pairs of the connection's segments with data are an in-order delivery — any cut, exact duplicates, any ISN — of
    the stream, which is shorter than 2^31 -/
def WiresInOrder (evs : List CEv) (streams : Bool → Bytes) : Prop :=
  ∀ d, (∃ isn, InOrder isn (streams d) (dirWires d evs)) ∧ (streams d).length ≤ 2 ^ 31

/-- what the described capture gives the file-level theorems: the flow's packets, a candidate first packet, the session's
    server = the connection's server, and `DeliveredInOrder` from the sender-side `WiresInOrder` -/
theorem described_session (fl : Flow) (hne : clientEp fl ≠ serverEp fl) (evs : List CEv) (hd : Described fl evs)
    (o : Opts) (hc : o.checksumTest = false) (hsp : o.ports.contains (fl.serverPort : Int) = true)
    (hcp : o.ports.contains (fl.clientPort : Int) = false) (p0 : Pkt) (rest : List Pkt)
    (hfp : flowPkts fl 0 evs = p0 :: rest) :
    (tcpView o (itemsFrom 0 (evs.map CEv.cap))).filter (sameFlow (refPkt fl)) = p0 :: rest ∧
    candidate o p0 = true ∧
    (sessionOf (evs.map CEv.cap) o p0 rest).server = serverEp fl ∧
    (sessionOf (evs.map CEv.cap) o p0 rest).client = clientEp fl ∧
    ∀ streams, WiresInOrder evs streams →
      DeliveredInOrder (capInfo (evs.map CEv.cap)) (sessionOf (evs.map CEv.cap) o p0 rest) streams := by
  have hF := flow_filter fl o hc evs hd 0
  rw [hfp] at hF
  obtain ⟨d, pl, tag, hp0⟩ := flowPkts_shape fl evs 0 p0 (by rw [hfp]; simp)
  have hr := roles_of_flow fl o.ports hsp hcp d pl true tag o rfl
  simp only at hr
  rw [← hp0] at hr
  obtain ⟨hroles, hcand⟩ := hr
  have hsrv : (sessionOf (evs.map CEv.cap) o p0 rest).server = serverEp fl := by
    simp only [sessionOf]; exact congrArg Prod.fst hroles
  have hcli : (sessionOf (evs.map CEv.cap) o p0 rest).client = clientEp fl := by
    simp only [sessionOf]; exact congrArg Prod.snd hroles
  refine ⟨hF, hcand, hsrv, hcli, ?_⟩
  intro streams hw dir
  obtain ⟨⟨isn, hio⟩, hl⟩ := hw dir
  refine ⟨⟨isn, ?_⟩, hl⟩
  rw [hsrv]
  have hpk : (sessionOf (evs.map CEv.cap) o p0 rest).pkts = flowPkts fl 0 evs := by rw [hfp]; rfl
  rw [hpk, dirSegs_flow fl hne dir evs hd 0 (capInfo (evs.map CEv.cap)) (fun tag _ => rfl)]
  exact hio

/-- **C01 from file to file for a capture DESCRIBED FROM THE SENDER'S SIDE, SSL 3.0 – TLS 1.2.** The capture file is the
    independent encoder's bytes (any pcapng variant, libpcap µs / ns) of: the connection's segments — any well-formed
    Ethernet / IPv4-or-IPv6 / TCP frames between the flow's endpoints (`Spec.TlsCapture.IsSeg`), delivering each
    direction's record stream in order (`WiresInOrder`: any cut, duplicates, any ISN) — interleaved with ARBITRARY
    foreign packets (`Foreign`). Then the run does not stop at the options or in the read loop, and unless scapy / dpkt
    refuse a frame in the write loop, the output file `Exact`ly contains the conversation: the tool's own reader and the
    independent frame parser read back a contiguous block of frames that are `frames` addressed for the session, and
    `Spec.reassemble frames = (client plaintext, server plaintext)`. -/
theorem tls12_capture_exact (mask : Quic.Dissect.MaskFn) (H : Crypto.Prims) (P : Prims) (L : SealLaws P)
    -- the capture file: bytes written by the independent encoder in ANY container variant, holding the described packets
    (fl : Flow) (hne : clientEp fl ≠ serverEp fl) (evs : List CEv) (hdesc : Described fl evs)
    (hnot1 : ∀ e ∈ evs.map CEv.cap, Ingest.isMinusOne e.t = false)
    (cv : Spec.Containers.Variant) (cevs : List Spec.Containers.Ev) (hcwf : cv.WF cevs)
    (hitems : cevs.filterMap (Spec.Containers.scale cv) = (evs.map CEv.cap).map CapEv.item)
    -- the options: no `-c`, no `-a`; the server port is a server port, the client port is not
    (args : Args) (keyFile : Option Keylog.Str)
    (hnoc : args.checksumTest = false) (hmeta : args.metadata = false)
    (pm : List (Int × Int)) (ports : List Int)
    (hpm : Options.getPortMap Options.Src.bare args.mArg = .ok pm)
    (hports : Options.serverPorts Options.Src.builtin Options.Src.pDefault args.pArg = .ok ports)
    (hsp : ports.contains (fl.serverPort : Int) = true) (hcp : ports.contains (fl.clientPort : Int) = false)
    (p0 : Pkt) (rest : List Pkt) (hfp : flowPkts fl 0 evs = p0 :: rest)
    -- the connection as sent (hypotheses of `tls12_connection_exact`, for the session object and the key-log file)
    (t : Transcript) (hch : t.ch.WellFormed) (hsh : t.sh.WellFormed) (hrc : t.rvC.length = 2) (hrs : t.rvS.length = 2)
    (hv : t.ver.length = 2) (hcomp : t.sh.compressionMethod = 0)
    (v : Session.Ver) (hvne : v ≠ .tls13) (hneg : Negotiated t.rvS t.sh v)
    (ps : CipherSuite.Params) (hres : CipherSuite.resolve (Bytes.beNat t.sh.cipherSuite) = some ps)
    (a : Pipeline.SuiteArgs) (hargs : Pipeline.suiteArgs ps = some a)
    (fk : Keylog.Key) (fks : List Keylog.Key)
    (hfound : (Keylog.findSessionSecrets ((fileKeysOf keyFile).getD []) (Pipeline.natsOfBytes t.ch.random)).filter
        (fun k => k.label == Keylog.s_CLIENT_RANDOM || k.label == Keylog.s_RSA) = fk :: fks)
    (secrets : List KeySchedule.Secret) (hsec : Pipeline.secretsOf false (fk :: fks) = some secrets)
    (k : KeySchedule.Keys6)
    (hgen : KeySchedule.generateKeys H (Pipeline.ksVersion v) a.ks secrets t.ch.random t.sh.random
      = .ok (some (.legacy k)))
    (cls : CipherClass)
    (hcls : classOf a.bulk (Pipeline.rlVersion v)
      (Session.extGet ((t.sh.extensions.getD []).map extPair) [0x00, 0x16]).isSome a.tagLen = some cls)
    (hmac : 0 < (KeySchedule.macSuite H a.ks.mac).outLen)
    (hck : KeyMatOk cls k.clientKey k.clientIv) (hsk : KeyMatOk cls k.serverKey k.serverIv)
    (hsc : Script12 t.cEvs) (hss : Script12 t.sEvs)
    (hokc : ∀ e ∈ t.cEvs, EvOk1 cls (KeySchedule.macSuite H a.ks.mac).outLen e)
    (hoks : ∀ e ∈ t.sEvs, EvOk1 cls (KeySchedule.macSuite H a.ks.mac).outLen e)
    (hwr : ∀ d, ∀ r ∈ t.records P L cls (legacySnd k) d, WholeRecord r)
    (hlen : t.cEvs.length + t.sEvs.length ≤ seqLimit)
    -- the capture of the connection, sender side; causality on the released records as in the connection capstone
    (hwires : WiresInOrder evs (t.stream P L cls (legacySnd k)))
    (hcausal : Causal12 (connRecs (capInfo (evs.map CEv.cap)) (sessionOf (evs.map CEv.cap) (optsOf args ports pm) p0 rest))) :
    (∃ e, exportFile mask H P args cv.isLegacy keyFile (Spec.Containers.encode cv cevs) = .abort (.write e)) ∨
    ∃ f, exportFile mask H P args cv.isLegacy keyFile (Spec.Containers.encode cv cevs) = .file f ∧
      Exact f (sessionOf (evs.map CEv.cap) (optsOf args ports pm) p0 rest)
        (Spec.TlsConnection.plainOf t.cEvs) (Spec.TlsConnection.plainOf t.sEvs) := by
  have hread : Container.read cv.isLegacy (Spec.Containers.encode cv cevs) = .ok ((evs.map CEv.cap).map CapEv.item) := by
    rw [Props.C12.reader_roundtrip cv cevs hcwf, hitems]
  have hok := capOk_of_described fl evs hdesc hnot1
  obtain ⟨hF, hcand, _, _, hdelv⟩ := described_session fl hne evs hdesc (optsOf args ports pm) hnoc hsp hcp p0 rest hfp
  exact tls12_file_exact mask H P L args cv.isLegacy keyFile _ (evs.map CEv.cap) hread hok hnoc hmeta pm ports hpm hports
    (refPkt fl) p0 rest hF hcand t hch hsh hrc hrs hv hcomp v hvne hneg ps hres a hargs fk fks hfound secrets hsec k hgen
    cls hcls hmac hck hsk hsc hss hokc hoks hwr hlen (hdelv _ hwires) hcausal

/-- **… TLS 1.3.** -/
theorem tls13_capture_exact (mask : Quic.Dissect.MaskFn) (H : Crypto.Prims) (P : Prims) (L : SealLaws P)
    -- the capture file: bytes written by the independent encoder in ANY container variant, holding the described packets
    (fl : Flow) (hne : clientEp fl ≠ serverEp fl) (evs : List CEv) (hdesc : Described fl evs)
    (hnot1 : ∀ e ∈ evs.map CEv.cap, Ingest.isMinusOne e.t = false)
    (cv : Spec.Containers.Variant) (cevs : List Spec.Containers.Ev) (hcwf : cv.WF cevs)
    (hitems : cevs.filterMap (Spec.Containers.scale cv) = (evs.map CEv.cap).map CapEv.item)
    -- the options: no `-c`, no `-a`; the server port is a server port, the client port is not
    (args : Args) (keyFile : Option Keylog.Str)
    (hnoc : args.checksumTest = false) (hmeta : args.metadata = false)
    (pm : List (Int × Int)) (ports : List Int)
    (hpm : Options.getPortMap Options.Src.bare args.mArg = .ok pm)
    (hports : Options.serverPorts Options.Src.builtin Options.Src.pDefault args.pArg = .ok ports)
    (hsp : ports.contains (fl.serverPort : Int) = true) (hcp : ports.contains (fl.clientPort : Int) = false)
    (p0 : Pkt) (rest : List Pkt) (hfp : flowPkts fl 0 evs = p0 :: rest)
    -- the connection as sent (hypotheses of `tls13_connection_exact`, for the session object and the key-log file)
    (t : Transcript) (hch : t.ch.WellFormed) (hsh : t.sh.WellFormed) (hrc : t.rvC.length = 2) (hrs : t.rvS.length = 2)
    (hv : t.ver.length = 2) (hcomp : t.sh.compressionMethod = 0) (hneg : Negotiated t.rvS t.sh .tls13)
    (ps : CipherSuite.Params) (hres : CipherSuite.resolve (Bytes.beNat t.sh.cipherSuite) = some ps)
    (a : Pipeline.SuiteArgs) (hargs : Pipeline.suiteArgs ps = some a)
    (fk : Keylog.Key) (fks : List Keylog.Key)
    (hfound : Keylog.findSessionSecrets ((fileKeysOf keyFile).getD []) (Pipeline.natsOfBytes t.ch.random) = fk :: fks)
    (secrets : List KeySchedule.Secret) (hsec : Pipeline.secretsOf true (fk :: fks) = some secrets)
    (k : KeySchedule.Installed13)
    (hgen : KeySchedule.generateKeys H .tls13 a.ks secrets t.ch.random t.sh.random = .ok (some (.tls13 k)))
    (chk chiv cak caiv shk shiv sak saiv : Bytes)
    (hk : k.clientHsKey = some chk ∧ k.clientHsIv = some chiv ∧ k.clientAppKey = some cak ∧ k.clientAppIv = some caiv ∧
      k.serverHsKey = some shk ∧ k.serverHsIv = some shiv ∧ k.serverAppKey = some sak ∧ k.serverAppIv = some saiv)
    (cls : CipherClass)
    (hcls : classOf a.bulk .tls13
      (Session.extGet ((t.sh.extensions.getD []).map extPair) [0x00, 0x16]).isSome a.tagLen = some cls)
    (h1 : KeyMatOk cls chk chiv) (h2 : KeyMatOk cls cak caiv) (h3 : KeyMatOk cls shk shiv) (h4 : KeyMatOk cls sak saiv)
    (hsc : Script13 t.cEvs) (hss : Script13 t.sEvs)
    (hokc : ∀ e ∈ t.cEvs, EvOk1 cls (KeySchedule.macSuite H a.ks.mac).outLen e)
    (hoks : ∀ e ∈ t.sEvs, EvOk1 cls (KeySchedule.macSuite H a.ks.mac).outLen e)
    (hwr : ∀ d, ∀ r ∈ t.records P L cls ⟨SDir.init chk chiv cak caiv, SDir.init shk shiv sak saiv⟩ d, WholeRecord r)
    (hlen : budget13 t ≤ seqLimit)
    -- the capture of the connection, sender side; causality on the released records as in the connection capstone
    (hwires : WiresInOrder evs (t.stream P L cls ⟨SDir.init chk chiv cak caiv, SDir.init shk shiv sak saiv⟩))
    (hcausal : Causal13 (connRecs (capInfo (evs.map CEv.cap)) (sessionOf (evs.map CEv.cap) (optsOf args ports pm) p0 rest))) :
    (∃ e, exportFile mask H P args cv.isLegacy keyFile (Spec.Containers.encode cv cevs) = .abort (.write e)) ∨
    ∃ f, exportFile mask H P args cv.isLegacy keyFile (Spec.Containers.encode cv cevs) = .file f ∧
      Exact f (sessionOf (evs.map CEv.cap) (optsOf args ports pm) p0 rest)
        (Spec.TlsConnection.plainOf t.cEvs) (Spec.TlsConnection.plainOf t.sEvs) := by
  have hread : Container.read cv.isLegacy (Spec.Containers.encode cv cevs) = .ok ((evs.map CEv.cap).map CapEv.item) := by
    rw [Props.C12.reader_roundtrip cv cevs hcwf, hitems]
  have hok := capOk_of_described fl evs hdesc hnot1
  obtain ⟨hF, hcand, _, _, hdelv⟩ := described_session fl hne evs hdesc (optsOf args ports pm) hnoc hsp hcp p0 rest hfp
  exact tls13_file_exact mask H P L args cv.isLegacy keyFile _ (evs.map CEv.cap) hread hok hnoc hmeta pm ports hpm hports
    (refPkt fl) p0 rest hF hcand t hch hsh hrc hrs hv hcomp hneg ps hres a hargs fk fks hfound secrets hsec k hgen
    chk chiv cak caiv shk shiv sak saiv hk cls hcls h1 h2 h3 h4 hsc hss hokc hoks hwr hlen (hdelv _ hwires) hcausal

end

section
open TLX.Export TLX.Spec.FrameParse

/-- **What `Exact` means for an independent receiver.** In the block of the output file, packet `i` is the serialisation of
    `frames[i]`: the independent parser reads a TCP segment with exactly that frame's sequence number, acknowledgment
    number, flag bits and payload, from the server's (exported) endpoint to the client's or back according to the
    frame's direction — so feeding what the parser reads to the textbook reassembler `Spec.reassemble` gives the two
    plaintexts. -/
theorem exact_frames_parse (f : Bytes) (c : Pipeline.Conn) (pc psv : Bytes) (h : Exact f c pc psv) :
    ∃ (frames : List TcpOut.Frame) (A C : List Item) (B : List Bytes), B.length = frames.length ∧
      Spec.reassemble frames = some (pc, psv) ∧
      Container.read false f = .ok (A ++ (frames.zip B).map (fun pb => Item.pkt ⟨pb.1.ts, 10 ^ 6, 0, false⟩ pb.2) ++ C) ∧
      ∀ pb ∈ frames.zip B, ∃ p, parse pb.2 = some p ∧
        p.l4 = .tcp pb.1.seq pb.1.ack 5 (pb.1.flags % 512 / 256) (pb.1.flags % 256) 8192 0 [] ∧
        p.payload = pb.1.payload ∧
        (p.src, p.sport) = (if pb.1.fromServer then
            (c.server.ip, TcpOut.exportedServerPort c.opts.keep (Pipeline.portmapFn c.opts.portmap) c.server.port)
          else (c.client.ip, c.client.port)) ∧
        (p.dst, p.dport) = (if pb.1.fromServer then (c.client.ip, c.client.port)
          else (c.server.ip, TcpOut.exportedServerPort c.opts.keep (Pipeline.portmapFn c.opts.portmap) c.server.port)) := by
  obtain ⟨frames, ⟨A, C, B, hB, hread, hgood⟩, hre⟩ := h
  refine ⟨frames, A, C, B, by simpa using hB, hre, ?_, ?_⟩
  · rw [hread, List.zip_map_left, List.map_map]
    congr 3
    apply List.map_congr_left
    intro pb _
    simp only [Function.comp, Prod.map, id]
    congr 2
    unfold Pipeline.addressed
    split <;> rfl
  · intro pb hpb
    have hmem : (Pipeline.addressed c.opts c pb.1, pb.2) ∈ (frames.map (Pipeline.addressed c.opts c)).zip B := by
      rw [List.zip_map_left]
      exact List.mem_map.mpr ⟨pb, hpb, rfl⟩
    have hg := hgood _ hmem
    obtain ⟨seg, hp⟩ := C06Bytes.parse_serialize _ _ hg.wf hg.serialised
    refine ⟨_, hp, ?_⟩
    cases hfs : pb.1.fromServer <;> simp [Frame.ofOutPkt, Pipeline.addressed, hfs]

end

end TLX.Props.C01File

/-! ### non-vacuity: a concrete capture file, key-log file and option vector -/
namespace TLX.Props.C01File.Ex
open TLX TLX.MainLoop TLX.Spec.Demux TLX.Dissect TLX.Export
open TLX.Spec.FrameBuild TLX.Spec.TlsCapture
open TLX.Cipher TLX.RecordLayer TLX.Spec.TlsSender TLX.Props.C01 TLX.Lemmas.Pipeline TLX.Spec.TlsConnection
open TLX.Lemmas.Capstone TLX.Props.C01Pipeline TLX.Spec.TlsFraming TLX.Props.C01Capstone TLX.Props.C01Capstone.Ex
open TLX.Props.C01Pipeline.Ex2 TLX.Props.C01.Ex

def fl0 : Flow := ⟨false, [10, 0, 0, 1], 5555, [10, 0, 0, 2], 443⟩
def cMac : Bytes := [2, 0, 0, 0, 0, 1]
def sMac : Bytes := [2, 0, 0, 0, 0, 2]

def tcpOf (d : Bool) (seq : Nat) (payload : Bytes) : Tcp :=
  ⟨if d then 443 else 5555, if d then 5555 else 443, seq, 0, 0x18, 0, 8192, 0, 0, [], payload⟩

/-- Ethernet II / IPv4 (DF, TTL 64, no options) / TCP (PSH|ACK, no options), no trailer -/
def segFrame (d : Bool) (seq : Nat) (payload : Bytes) : Spec.FrameBuild.Frame :=
  ⟨if d then cMac else sMac, if d then sMac else cMac,
   .v4 ⟨0, 1, true, false, 64, 0, if d then [10, 0, 0, 2] else [10, 0, 0, 1], if d then [10, 0, 0, 1] else [10, 0, 0, 2], []⟩,
   .tcp (tcpOf d seq payload), []⟩

theorem isSeg_mk (d : Bool) (seq : Nat) (payload : Bytes) (hs : seq < 4294967296) (hp : payload.length < 60000) :
    IsSeg fl0 d (segFrame d seq payload) (tcpOf d seq payload) := by
  cases d <;>
    simp [IsSeg, Frame.WF, Upper.WF, Tcp.WF, V4.WF, segFrame, tcpOf, Upper.encode, Tcp.encode, Tcp.header, be2, be4, fl0,
      cMac, sMac] <;> omega

/-- capture time of packet `n`: 1 700 000 000 s + (1000 + n) ns, as the nanosecond libpcap reader yields it -/
def timeAt (n : Nat) : Container.Time := ⟨1000 + n, 10 ^ 9, 1700000000, true⟩

/-- the capstone example's capture `cap0` (ClientHello in two segments, coalesced server flight, False Start, a
    retransmission, a split server record, the client's sequence numbers wrapping 2^32) as frames, tagged from `n` -/
def segEvs : Nat → List (Bool × Bytes × Nat) → List CEv
  | _, [] => []
  | n, (d, pl, off) :: rest =>
    .seg (timeAt n) d (segFrame d ((isnOf d + off) % 4294967296) pl) (tcpOf d ((isnOf d + off) % 4294967296) pl) ::
      segEvs (n + 1) rest

/-- a foreign packet: an ARP request (not IP) -/
def arp : CapEv :=
  ⟨timeAt 0, List.replicate 6 0xff ++ cMac ++ [0x08, 0x06] ++ [0, 1, 8, 0, 6, 4, 0, 1] ++ cMac ++ [10, 0, 0, 1] ++
      List.replicate 6 0 ++ [10, 0, 0, 2], .notIp⟩

/-- the described capture: the ARP request first (so every tag is shifted), then the connection -/
def evs0 : List CEv := .foreign arp :: segEvs 1 cap0

theorem segEvs_described (l : List (Bool × Bytes × Nat)) (h : ∀ x ∈ l, x.2.1.length < 60000) (n : Nat) :
    Described fl0 (segEvs n l) := by
  induction l generalizing n with
  | nil => intro ev hev; cases hev
  | cons x rest ih =>
    obtain ⟨d, pl, off⟩ := x
    intro ev hev
    simp only [segEvs, List.mem_cons] at hev
    rcases hev with rfl | hev
    · exact isSeg_mk d _ pl (Nat.mod_lt _ (by decide)) (h (d, pl, off) (by simp))
    · exact ih (fun y hy => h y (by simp [hy])) (n + 1) ev hev

theorem arp_foreign : Foreign fl0 arp := by
  refine ⟨by decide +kernel, ?_⟩
  intro tag h
  simp [arp, pktOf, Ingest.otherPkt] at h

theorem described0 : Described fl0 evs0 := by
  intro ev hev
  simp only [evs0, List.mem_cons] at hev
  rcases hev with rfl | hev
  · exact arp_foreign
  · exact segEvs_described cap0 (by decide +kernel) 1 ev hev

theorem notMinusOne (n : Nat) : Ingest.isMinusOne (timeAt n) = false := by
  simp only [Ingest.isMinusOne, timeAt, if_true]
  simp
  omega

theorem segEvs_times (l : List (Bool × Bytes × Nat)) (n : Nat) :
    ∀ e ∈ (segEvs n l).map CEv.cap, Ingest.isMinusOne e.t = false := by
  induction l generalizing n with
  | nil => intro e he; cases he
  | cons x rest ih =>
    obtain ⟨d, pl, off⟩ := x
    intro e he
    simp only [segEvs, List.map_cons, List.mem_cons] at he
    rcases he with rfl | he
    · exact notMinusOne n
    · exact ih (n + 1) e he

theorem times0 : ∀ e ∈ evs0.map CEv.cap, Ingest.isMinusOne e.t = false := by
  intro e he
  simp only [evs0, List.map_cons, List.mem_cons] at he
  rcases he with rfl | he
  · exact notMinusOne 0
  · exact segEvs_times cap0 1 e he

/-! the capture FILE: nanosecond libpcap, little endian -/
def cv0 : Spec.Containers.Variant := .legacy { nano := true }

def cevOf (e : CapEv) : Spec.Containers.Ev := .pkt (e.t.offset.toNat * 10 ^ 9 + e.t.ticks) e.buf
def cevs0 : List Spec.Containers.Ev := (evs0.map CEv.cap).map cevOf

theorem legacy_wf (l : List Spec.Containers.Ev) (v : Spec.Containers.LegacyVariant) (hx : v.extraLen = fun _ => 0)
    (h : ∀ ev ∈ l, ∃ t d, ev = .pkt t d ∧ t / v.unitsPerSecond < 2 ^ 32 ∧ d.length < 2 ^ 32) (i : Nat) :
    v.WFfrom i l := by
  induction l generalizing i with
  | nil => trivial
  | cons ev rest ih =>
    obtain ⟨t, d, rfl, h1, h2⟩ := h ev (by simp)
    simp only [Spec.Containers.LegacyVariant.WFfrom, hx, Nat.add_zero]
    exact ⟨h1, h2, ih (fun e he => h e (by simp [he])) (i + 1)⟩

theorem segFrame_length (d : Bool) (seq : Nat) (pl : Bytes) : (segFrame d seq pl).encode.length = 54 + pl.length := by
  cases d <;>
    simp [segFrame, tcpOf, Frame.encode, Frame.etherType, Frame.datagram, V4.encode, V4.fixed, Upper.encode, Tcp.encode,
      Tcp.header, be2, be4, cMac, sMac, Upper.proto] <;> omega

theorem segEvs_bounds (l : List (Bool × Bytes × Nat)) (h : ∀ x ∈ l, x.2.1.length < 60000) (n : Nat) :
    ∀ e ∈ (segEvs n l).map CEv.cap, ∃ k, k < n + l.length ∧ e.t = timeAt k ∧ e.buf.length < 70000 := by
  induction l generalizing n with
  | nil => intro e he; cases he
  | cons x rest ih =>
    obtain ⟨d, pl, off⟩ := x
    intro e he
    simp only [segEvs, List.map_cons, List.mem_cons] at he
    rcases he with rfl | he
    · refine ⟨n, by simp, rfl, ?_⟩
      have := h (d, pl, off) (by simp)
      simp only [CEv.cap, segFrame_length]
      simp only at this
      omega
    · obtain ⟨k, hk, h1, h2⟩ := ih (fun y hy => h y (by simp [hy])) (n + 1) e he
      exact ⟨k, by simp only [List.length_cons]; omega, h1, h2⟩

theorem cwf0 : cv0.WF cevs0 := by
  refine ⟨by decide, by decide, by decide, by decide, by decide, legacy_wf _ _ rfl ?_ 0⟩
  intro ev hev
  simp only [cevs0, List.mem_map] at hev
  obtain ⟨e, ⟨c, hc, rfl⟩, rfl⟩ := hev
  have hb : ∃ k, k < 100 ∧ (CEv.cap c).t = timeAt k ∧ (CEv.cap c).buf.length < 70000 := by
    simp only [evs0, List.mem_cons] at hc
    rcases hc with rfl | hc
    · exact ⟨0, by decide, rfl, by decide⟩
    · obtain ⟨k, hk, h1, h2⟩ := segEvs_bounds cap0 (by decide +kernel) 1 _ (List.mem_map.mpr ⟨c, hc, rfl⟩)
      exact ⟨k, by have : cap0.length = 10 := rfl; omega, h1, h2⟩
  obtain ⟨k, hk, ht, hl⟩ := hb
  refine ⟨_, _, rfl, ?_, by omega⟩
  rw [ht]
  simp only [timeAt, Spec.Containers.LegacyVariant.unitsPerSecond, if_true]
  have : ((1700000000 : Int).toNat * 10 ^ 9 + (1000 + k)) / 10 ^ 9 = 1700000000 := by
    have : (1700000000 : Int).toNat = 1700000000 := rfl
    rw [this]; omega
  rw [this]; decide

theorem evs0_times (c : CEv) (hc : c ∈ evs0) : ∃ k, k < 100 ∧ (CEv.cap c).t = timeAt k := by
  simp only [evs0, List.mem_cons] at hc
  rcases hc with rfl | hc
  · exact ⟨0, by decide, rfl⟩
  · obtain ⟨k, hk, h1, _⟩ := segEvs_bounds cap0 (by decide +kernel) 1 _ (List.mem_map.mpr ⟨c, hc, rfl⟩)
    exact ⟨k, by have : cap0.length = 10 := rfl; omega, h1⟩

theorem scale_cev (e : CapEv) (k : Nat) (hk : k < 100) (ht : e.t = timeAt k) :
    Spec.Containers.scale cv0 (cevOf e) = some e.item := by
  have h1 : (1700000000 : Int).toNat = 1700000000 := rfl
  simp only [cevOf, cv0, Spec.Containers.scale, Spec.Containers.LegacyVariant.unitsPerSecond, if_true, ht, timeAt, h1,
    CapEv.item]
  have e1 : (1700000000 * 10 ^ 9 + (1000 + k)) % 10 ^ 9 = 1000 + k := by omega
  have e2 : (1700000000 * 10 ^ 9 + (1000 + k)) / 10 ^ 9 = 1700000000 := by omega
  rw [e1, e2]
  rfl

theorem filterMap_map_some {α β γ : Type} (l : List α) (f : α → β) (g : β → Option γ) (h : α → γ)
    (hh : ∀ x ∈ l, g (f x) = some (h x)) : (l.map f).filterMap g = l.map h := by
  induction l with
  | nil => rfl
  | cons x xs ih =>
    simp only [List.map_cons, List.filterMap_cons, hh x (by simp), ih (fun y hy => hh y (by simp [hy]))]

theorem items0 : cevs0.filterMap (Spec.Containers.scale cv0) = (evs0.map CEv.cap).map CapEv.item := by
  unfold cevs0
  apply filterMap_map_some
  intro e he
  simp only [List.mem_map] at he
  obtain ⟨c, hc, rfl⟩ := he
  obtain ⟨k, hk, ht⟩ := evs0_times c hc
  exact scale_cev _ k hk ht

/-! the options and the key-log file -/
def args0 : Args := ⟨none, none, false, false, false⟩
def ports0 : List Int := Options.Src.builtin ++ Options.Src.pDefault

/-- the key-log FILE: one NSS line, CRLF line ending -/
def keyText : Keylog.Str :=
  Keylog.s_CLIENT_RANDOM ++ [32] ++ Keylog.hexOf (Pipeline.natsOfBytes cr0) ++ [32] ++ Keylog.hexOf (List.replicate 48 5) ++
    [13, 10]

example : (fileKeysOf (some keyText)).getD [] = kl0 := by decide +kernel

def pkts0 : List Pkt := flowPkts fl0 0 evs0
def p00 : Pkt := ⟨.tcp, ⟨[10, 0, 0, 1], 5555⟩, ⟨[10, 0, 0, 2], 443⟩, (rC 0).take 20, true, 1⟩
theorem fp0 : flowPkts fl0 0 evs0 = p00 :: pkts0.tail := by decide +kernel

theorem wires0 : WiresInOrder evs0 (t0.stream Cipher.Toy.prims Cipher.Toy.laws cls0 (legacySnd k0)) := by
  intro d
  cases d
  · refine ⟨⟨isnOf false, ?_⟩, by decide +kernel⟩
    have hcut : IsCut (t0.stream Cipher.Toy.prims Cipher.Toy.laws cls0 (legacySnd k0) false) (chunksOf false) :=
      ⟨by decide +kernel, by decide +kernel⟩
    have h := Delivers.cut (k := 0) (isn := isnOf false) (chunksOf false) hcut
    have hd := Delivers.dup (k := 0) (isn := isnOf false)
      ((segsOf (isnOf false) 0 (chunksOf false)).take 3) [] ((segsOf (isnOf false) 0 (chunksOf false)).drop 4)
      ((segsOf (isnOf false) 0 (chunksOf false)).getD 3 (0, []))
      (by
        have e : (segsOf (isnOf false) 0 (chunksOf false)).take 3 ++
            (segsOf (isnOf false) 0 (chunksOf false)).getD 3 (0, []) ::
              ([] ++ (segsOf (isnOf false) 0 (chunksOf false)).drop 4) = segsOf (isnOf false) 0 (chunksOf false) := by
          decide +kernel
        rw [e]; exact h)
    have e2 : dirWires false evs0 =
        (segsOf (isnOf false) 0 (chunksOf false)).take 3 ++
          (segsOf (isnOf false) 0 (chunksOf false)).getD 3 (0, []) ::
            ([] ++ (segsOf (isnOf false) 0 (chunksOf false)).getD 3 (0, []) ::
              (segsOf (isnOf false) 0 (chunksOf false)).drop 4) := by decide +kernel
    unfold InOrder
    rw [e2]; exact hd
  · refine ⟨⟨isnOf true, ?_⟩, by decide +kernel⟩
    have hcut : IsCut (t0.stream Cipher.Toy.prims Cipher.Toy.laws cls0 (legacySnd k0) true) (chunksOf true) :=
      ⟨by decide +kernel, by decide +kernel⟩
    have e2 : dirWires true evs0 = segsOf (isnOf true) 0 (chunksOf true) := by decide +kernel
    unfold InOrder
    rw [e2]; exact Delivers.cut _ hcut

def sess0 : Pipeline.Conn := sessionOf (evs0.map CEv.cap) (optsOf args0 ports0 []) p00 pkts0.tail

theorem causal0' : Causal12 (connRecs (capInfo (evs0.map CEv.cap)) sess0) :=
  ⟨(connRecs (capInfo (evs0.map CEv.cap)) sess0).take 1, (connRecs (capInfo (evs0.map CEv.cap)) sess0).drop 1,
    (List.take_append_drop 1 _).symm, by decide +kernel, by decide +kernel,
    ((connRecs (capInfo (evs0.map CEv.cap)) sess0).drop 1).headD (⟨[], []⟩, false),
    ((connRecs (capInfo (evs0.map CEv.cap)) sess0).drop 1).tail, by decide +kernel, by decide +kernel⟩

/-- **Non-vacuity of the grand theorem.** EVERY hypothesis of `tls12_capture_exact` holds for a concrete input: the capture
    FILE is the nanosecond-libpcap encoding of an ARP request followed by the ten segments of the capstone's TLS 1.2
    connection (as Ethernet / IPv4 / TCP frames built by `Spec.FrameBuild`), the key-log FILE is one CRLF-terminated NSS
    line, no options; toy primitives, the regenerated suite table. So its conclusion holds: the run gets to the write loop,
    and the file it writes contains exactly the conversation "hi" / sixteen bytes. -/
theorem tls12_file_instance :
    (∃ e, exportFile (fun _ _ _ => none) hashes Cipher.Toy.prims args0 cv0.isLegacy (some keyText)
        (Spec.Containers.encode cv0 cevs0) = .abort (.write e)) ∨
    ∃ f, exportFile (fun _ _ _ => none) hashes Cipher.Toy.prims args0 cv0.isLegacy (some keyText)
        (Spec.Containers.encode cv0 cevs0) = .file f ∧ Exact f sess0 hi k16 := by
  have hres : CipherSuite.resolve (Bytes.beNat t0.sh.cipherSuite) = some ps0 := by decide +kernel
  have hargs : Pipeline.suiteArgs ps0 = some a0 := some_getD _ _ (by decide +kernel)
  have hfound : (Keylog.findSessionSecrets ((fileKeysOf (some keyText)).getD []) (Pipeline.natsOfBytes t0.ch.random)).filter
      (fun k => k.label == Keylog.s_CLIENT_RANDOM || k.label == Keylog.s_RSA) = f0 :: [] := by decide +kernel
  have hsec : Pipeline.secretsOf false (f0 :: []) = some secrets0 := by decide +kernel
  have hgen : KeySchedule.generateKeys hashes (Pipeline.ksVersion .tls12) a0.ks secrets0 t0.ch.random t0.sh.random
      = .ok (some (.legacy k0)) :=
    gen_eq (KeySchedule.generateKeys hashes .tls12 a0.ks secrets0 cr0 sr0) k0 (by decide +kernel)
  have hcls : classOf a0.bulk (Pipeline.rlVersion .tls12)
      (Session.extGet ((t0.sh.extensions.getD []).map extPair) [0x00, 0x16]).isSome a0.tagLen = some cls0 := by
    decide +kernel
  have hmac : 0 < (KeySchedule.macSuite hashes a0.ks.mac).outLen := by decide +kernel
  have hck : KeyMatOk cls0 k0.clientKey k0.clientIv := by decide +kernel
  have hsk : KeyMatOk cls0 k0.serverKey k0.serverIv := by decide +kernel
  have hokc : ∀ e ∈ t0.cEvs, EvOk1 cls0 (KeySchedule.macSuite hashes a0.ks.mac).outLen e := by decide +kernel
  have hoks : ∀ e ∈ t0.sEvs, EvOk1 cls0 (KeySchedule.macSuite hashes a0.ks.mac).outLen e := by decide +kernel
  have hwr : ∀ d, ∀ r ∈ t0.records Cipher.Toy.prims Cipher.Toy.laws cls0 (legacySnd k0) d, WholeRecord r := by
    intro d; cases d <;> decide +kernel
  have hlen : t0.cEvs.length + t0.sEvs.length ≤ seqLimit := by decide +kernel
  have hsc : Script12 t0.cEvs := ⟨[[16, 0, 0, 2, 9, 9]], _, rfl, by decide, by
    intro e he
    simp only [List.mem_cons, List.mem_nil_iff, or_false] at he
    rcases he with rfl | rfl | rfl <;> exact ⟨_, _, _, rfl, by decide⟩⟩
  have hss : Script12 t0.sEvs := ⟨[[11, 0, 0, 3, 1, 2, 3, 14, 0, 0, 0]], _, rfl, by decide, by
    intro e he
    simp only [List.mem_cons, List.mem_nil_iff, or_false] at he
    rcases he with rfl | rfl <;> exact ⟨_, _, _, rfl, by decide⟩⟩
  have h := tls12_capture_exact (fun _ _ _ => none) hashes Cipher.Toy.prims Cipher.Toy.laws
    fl0 (by decide) evs0 described0 times0 cv0 cevs0 cwf0 items0
    args0 (some keyText) rfl rfl [] ports0 rfl rfl (by decide +kernel) (by decide +kernel) p00 pkts0.tail fp0
    t0 (by decide) (by decide) rfl rfl rfl rfl .tls12 (by decide) (by unfold Negotiated; decide)
    ps0 hres a0 hargs f0 [] hfound secrets0 hsec k0 hgen cls0 hcls hmac hck hsk hsc hss hokc hoks hwr hlen
    wires0 causal0'
  have e1 : Spec.TlsConnection.plainOf t0.cEvs = hi := by decide +kernel
  have e2 : Spec.TlsConnection.plainOf t0.sEvs = k16 := by decide +kernel
  rw [e1, e2] at h
  exact h
end TLX.Props.C01File.Ex
