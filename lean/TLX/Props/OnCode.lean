/-
Property theorems stated DIRECTLY about the definitions the translator regenerates from the Python source of the tree under
test (`TLX/Gen/Translated/*.lean`), one module per property: each theorem composes the `…_eq_model` theorems of
`TLX/Props/Translated/*.lean` with the model-level property theorems of `TLX/Props/Cxx.lean`, and its statement mentions
the generated definition, the independent specification and byte encodings — not the hand-written model.
The names per property are listed in `harness/oncode_thms.py`.
-/
import TLX.Props.OnCode.C16
import TLX.Props.OnCode.C17
import TLX.Props.OnCode.C11
import TLX.Props.OnCode.C14
import TLX.Props.OnCode.C15
import TLX.Props.OnCode.C09
import TLX.Props.OnCode.C10
import TLX.Props.OnCode.C01
import TLX.Props.OnCode.C05
import TLX.Props.OnCode.C03
