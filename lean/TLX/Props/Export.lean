/-
END TO END — theorems about the whole program as ONE function, `TLX.Export.exportFile`: capture-file bytes and key-log
text in, output-file bytes (or the way the run dies) out.  Every theorem holds for EVERY capture byte string, key-log
text, option vector, legacy flag, hash suite `H`, cipher primitives `P` and header-protection mask: no hypothesis on the
input at all.

What ties `exportFile` to the real tool: harness/file_corr.py runs the real CLI and `tlxdriver pipeline` (op `runfile` =
`exportFile` with Lean's hashes, the toy ciphers and the toy mask) on the same files and compares the OUTPUT FILES byte
for byte on every run.

* `export_wellformed` (C06 end to end)   whatever is written is a well-formed pcapng of well-formed frames;
* `export_ignores_prior_state`, `export_is_function` (C18 end to end)   the outcome is a function of the inputs alone;
* `export_total`, `export_badOptions_iff`, `export_abort_ingest_iff`, `export_abort_write_iff`, `abort_kinds`
                                          how a run can end, exactly;
* `export_demux_tls`, `export_demux_frames` (C04 end to end, at frame level)   captures with disjoint TCP flows.

The one fact about the input side that needed proof: every MAC / IP address that reaches an output frame has the right
length (`Lemmas.DissectAddr.dissect_addr_lengths`: dpkt never hands the tool other lengths — UNCONDITIONALLY, through VLAN /
MPLS / ISL nesting and the second `_unpack_data` pass; `Lemmas.Export.framesFrom_wf`).
-/
import TLX.Lemmas.Export
import TLX.Props.C06Bytes
import TLX.Props.C18
import TLX.Props.C04
import TLX.Crypto.Hash
import TLX.Crypto.Toy
namespace TLX.Props.Export
open TLX TLX.MainLoop TLX.Export TLX.OutBytes TLX.Lemmas.Export
open TLX.Spec.Rfc1071 TLX.Spec.FrameParse TLX.Spec.PcapngWalk
open TLX.Container (Item)

variable (mask : Quic.Dissect.MaskFn) (H : Crypto.Prims) (P : Cipher.Prims)

/-! ### how `exportFrom` is put together -/

/-- option parsing is the only source of `Options.Err`, and it does not look at the capture -/
theorem framesFrom_error_iff (prior : Prior) (args : Args) (fk : Option (List Keylog.Key))
    (xs : List (MainLoop.Item Keylog.Key)) (info : Nat → Pipeline.Info) :
    (∃ e, framesFrom mask H P prior args fk xs info = .error e) ↔ optionsBad prior args = true := by
  unfold framesFrom runFrom body optionsBad
  cases Options.getPortMap Options.Src.bare args.mArg with
  | error e => simp
  | ok pm =>
    cases Options.serverPorts (reset prior).serverPorts Options.Src.pDefault args.pArg with
    | error e => simp
    | ok ports => simp

/-- the three stages, for a run that gets past option parsing -/
theorem exportFrom_stages (prior : Prior) (args : Args) (legacy : Bool) (keyFile : Option Keylog.Str) (capture : Bytes)
    (hopt : optionsBad prior args = false) :
    (∃ e, Ingest.itemsWith Keylog.srcHexClass args.checksumTest legacy capture = .error e ∧
        exportFrom mask H P prior args legacy keyFile capture = .abort (.ingest e)) ∨
    (∃ xs is out, Ingest.itemsWith Keylog.srcHexClass args.checksumTest legacy capture = .ok (xs, is) ∧
        framesFrom mask H P prior args (fileKeysOf keyFile) xs (Ingest.lookup is) = .ok out ∧
        ((∃ e, fileOf out = .error e ∧ exportFrom mask H P prior args legacy keyFile capture = .abort (.write e)) ∨
         (∃ f, fileOf out = .ok f ∧ exportFrom mask H P prior args legacy keyFile capture = .file f))) := by
  unfold exportFrom
  rw [hopt]
  simp only [Bool.false_eq_true, if_false]
  cases hi : Ingest.itemsWith Keylog.srcHexClass args.checksumTest legacy capture with
  | error e => exact .inl ⟨e, rfl, rfl⟩
  | ok v =>
    obtain ⟨xs, is⟩ := v
    right
    cases hf : framesFrom mask H P prior args (fileKeysOf keyFile) xs (Ingest.lookup is) with
    | error e =>
      have := (framesFrom_error_iff mask H P prior args (fileKeysOf keyFile) xs (Ingest.lookup is)).mp ⟨e, hf⟩
      rw [hopt] at this; cases this
    | ok out =>
      refine ⟨xs, is, out, rfl, hf, ?_⟩
      simp only [hf]
      cases hw : fileOf out with
      | error e => exact .inl ⟨e, rfl, by simp only [hw]⟩
      | ok f => exact .inr ⟨f, rfl, by simp only [hw]⟩

/-! ### C06 end to end -/

/-- what C06 asks of one frame of the output file: `b` is what scapy serialised for the abstract frame `fr`; the
    independent receiver (`Spec.FrameParse`, every length field checked, no trailing bytes) reads exactly the frame's
    addresses, ports and payload out of it; its transport checksum is valid for the RFC 1071 receiver AND for the tool's own
    `-c` test; an IPv4 header checksum verifies; and every length field is the length it describes. -/
structure GoodFrame (fr : Frame) (b : Bytes) : Prop where
  wf : fr.WF
  serialised : serializeFrame fr = .ok b
  parses : ∃ p, parse b = some p ∧ p.srcMac = fr.srcMac ∧ p.dstMac = fr.dstMac ∧ p.v6 = fr.ipv6 ∧
    p.src = fr.src.ip ∧ p.dst = fr.dst.ip ∧ p.sport = fr.src.port ∧ p.dport = fr.dst.port ∧ p.payload = fr.payload ∧
    verdict (match fr.l4 with
      | .tcp .. => .tcp
      | .udp => .udp) p.v6 p.src p.dst p.segment = .valid ∧
    Checksum.check (Lemmas.OutBytes.kOf fr.l4) p.v6 p.src p.dst (Lemmas.OutBytes.kOf fr.l4).num p.segment = .ok true
  ipv4Header : fr.ipv6 = false → ocSum (words ((b.drop 14).take 20)) = 0xFFFF
  lengths :
    let ip := b.drop 14
    let hl := if fr.ipv6 then 40 else 20
    let l4 := ip.drop hl
    b.length = 14 + ip.length ∧ ip.length = hl + l4.length ∧
    (fr.ipv6 = false → u8 ip 0 % 16 = 5 ∧ u16 ip 2 = 20 + l4.length) ∧
    (fr.ipv6 = true → u16 ip 4 = l4.length) ∧
    (match fr.l4 with
     | .tcp .. => u8 l4 12 / 16 = 5 ∧ l4.length = 20 + fr.payload.length
     | .udp => u16 l4 4 = 8 + fr.payload.length ∧ l4.length = 8 + fr.payload.length)

theorem goodFrame_of (fr : Frame) (b : Bytes) (hwf : fr.WF) (hs : serializeFrame fr = .ok b) : GoodFrame fr b := by
  refine ⟨hwf, hs, ?_, C06Bytes.ipv4_header_checksum_valid fr b hwf hs, C06Bytes.length_fields_consistent fr b hwf hs⟩
  obtain ⟨p, hp, hv⟩ := C06Bytes.l4_checksum_valid fr b hwf hs
  obtain ⟨p', hp', hc⟩ := C06Bytes.l4_check_accepts fr b hwf hs
  obtain ⟨seg, hp''⟩ := C06Bytes.parse_serialize fr b hwf hs
  rw [hp] at hp' hp''
  cases Option.some.inj hp'
  have := Option.some.inj hp''
  subst this
  exact ⟨_, hp, rfl, rfl, rfl, rfl, rfl, rfl, rfl, rfl, hv, hc⟩

/-- **C06 end to end.** Whenever the program writes an output file `f` — for any capture bytes, key log, options and
    primitives — there are the exported frames `frs` (what the main loop handed to the writer) and their serialisations
    `bs` such that
    * `f` is a well-formed pcapng: a sequence of blocks tiling the file (`walk`: total lengths ≥ 12, multiples of 4, equal
      to their trailing copies), namely the Section Header Block, ONE Interface Description Block (Ethernet, the snaplen
      of the source, `Gen.writerSnaplen`) and one Enhanced Packet Block per frame, in order, on that interface, whose
      Captured Packet Length = Original Packet Length = the frame's length ≤ that snaplen (`C06Bytes.caplen_le_snaplen`;
      the inequality is checked against the literal REGENERATED from `run()`);
    * the tool's own reader reads `f` back as exactly these frames with their microsecond time stamps;
    * every frame is a `GoodFrame`: parses with the independent parser to the abstract frame's fields, all length
      fields consistent, IPv4 header checksum and TCP/UDP checksum valid, accepted by the tool's own `-c`. -/
theorem export_wellformed (args : Args) (legacy : Bool) (keyFile : Option Keylog.Str) (capture f : Bytes)
    (h : exportFile mask H P args legacy keyFile capture = .file f) :
    ∃ (frs : List Frame) (bs : List Bytes), bs.length = frs.length ∧
      walk f = some (
        (0x0A0D0D0A, Spec.Containers.u32 .le 0x1A2B3C4D ++ (Spec.Containers.u16 .le 1 ++ (Spec.Containers.u16 .le 0 ++
          Spec.Containers.u64 .le (2 ^ 64 - 1)))) ::
        (1, Spec.Containers.u16 .le 1 ++ (Spec.Containers.u16 .le 0 ++ Spec.Containers.u32 .le Gen.writerSnaplen)) ::
        (frs.zip bs).map fun fb => (6, C06Bytes.epbBody (fb.2, fb.1.ts))) ∧
      Container.read false f = .ok ((frs.zip bs).map fun fb => Item.pkt ⟨fb.1.ts, 10 ^ 6, 0, false⟩ fb.2) ∧
      (∀ fb ∈ frs.zip bs, GoodFrame fb.1 fb.2) ∧
      ∀ fb ∈ frs.zip bs, Container.fld .le (C06Bytes.epbBody (fb.2, fb.1.ts)) 12 4 = fb.2.length ∧
        Container.fld .le (C06Bytes.epbBody (fb.2, fb.1.ts)) 16 4 = fb.2.length ∧ fb.2.length ≤ Gen.writerSnaplen := by
  unfold exportFile at h
  by_cases hopt : optionsBad freshState args = true
  · unfold exportFrom at h; rw [if_pos hopt] at h; cases h
  have hopt : optionsBad (freshState : Prior) args = false := by simpa using hopt
  rcases exportFrom_stages mask H P freshState args legacy keyFile capture hopt with
    ⟨e, _, he⟩ | ⟨xs, is, out, hi, hf, hw⟩
  · rw [he] at h; cases h
  rcases hw with ⟨e, _, he⟩ | ⟨f', hw, he⟩
  · rw [he] at h; cases h
  rw [he] at h
  cases h
  -- the frames
  have hwf : ∀ q ∈ out, (Frame.ofOutPkt q).WF :=
    framesFrom_wf mask H P freshState args _ xs _ out (itemsWith_good _ _ _ _ _ _ hi) hf
  have hwf' : ∀ fr ∈ out.map Frame.ofOutPkt, fr.WF := by
    intro fr hfr
    simp only [List.mem_map] at hfr
    obtain ⟨q, hq, rfl⟩ := hfr
    exact hwf q hq
  have hw' : fileOfFrames (out.map Frame.ofOutPkt) = .ok f := hw
  generalize out.map Frame.ofOutPkt = frs at hwf' hw'
  have hall := Lemmas.OutBytes.fileOfFrames_ok frs f hw'
  have heq := Lemmas.OutBytes.fileOfFrames_eq frs hall
  have hp : pcapng (frs.map fun fr => (Lemmas.OutBytes.frameBytes fr, fr.ts)) = .ok f := by
    rw [← heq]; exact hw'
  refine ⟨frs, frs.map Lemmas.OutBytes.frameBytes, by simp, ?_, ?_, ?_, ?_⟩
  · rw [(C06Bytes.pcapng_wellformed _ f hp).1]
    simp only [List.zip_map_right, C06Bytes.zip_self, List.map_map]
    rfl
  · rw [C06Bytes.pcapng_roundtrip _ f hp]
    simp only [List.zip_map_right, C06Bytes.zip_self, List.map_map]
    rfl
  · intro fb hfb
    rw [List.zip_map_right, C06Bytes.zip_self, List.map_map, List.mem_map] at hfb
    obtain ⟨fr, hfr, rfl⟩ := hfb
    have hfit := (hall fr hfr).1
    have hser : serializeFrame fr = .ok (Lemmas.OutBytes.frameBytes fr) := by
      rcases Lemmas.OutBytes.serialize_cases fr with ⟨_, he⟩ | ⟨hn, _⟩
      · exact he
      · exact absurd hfit hn
    exact goodFrame_of fr _ (hwf' fr hfr) hser
  · intro fb hfb
    rw [List.zip_map_right, C06Bytes.zip_self, List.map_map, List.mem_map] at hfb
    obtain ⟨fr, hfr, rfl⟩ := hfb
    have hser : serializeFrame fr = .ok (Lemmas.OutBytes.frameBytes fr) := by
      rcases Lemmas.OutBytes.serialize_cases fr with ⟨_, he⟩ | ⟨hn, _⟩
      · exact he
      · exact absurd (hall fr hfr).1 hn
    obtain ⟨h12, h16⟩ := (C06Bytes.pcapng_wellformed _ f hp).2 (Lemmas.OutBytes.frameBytes fr, fr.ts)
      (List.mem_map.mpr ⟨fr, hfr, rfl⟩)
    exact ⟨h12, h16, Nat.le_trans (C06Bytes.frame_length_bound fr _ (hwf' fr hfr) hser)
      C06Bytes.snaplen_covers_every_frame⟩

/-! ### C18 end to end -/

/-- **C18 end to end.** Whatever an earlier `run()` in the same interpreter left in the four module-level lists, the
    outcome — output file bytes, or how the run dies — is the same. -/
theorem export_ignores_prior_state (prior prior' : Prior) (args : Args) (legacy : Bool) (keyFile : Option Keylog.Str)
    (capture : Bytes) :
    exportFrom mask H P prior args legacy keyFile capture = exportFrom mask H P prior' args legacy keyFile capture := by
  have hopt : optionsBad prior args = optionsBad prior' args := rfl
  have hfr : ∀ fk xs info, framesFrom mask H P prior args fk xs info = framesFrom mask H P prior' args fk xs info := by
    intro fk xs info
    unfold framesFrom
    rw [C18.run_ignores_prior_state _ _ prior prior']
  unfold exportFrom
  rw [hopt]
  split
  · rfl
  · split
    · rfl
    · rw [hfr]

/-- The outcome is a function of (option vector, `-l`, key-log text, capture bytes) — and of nothing else: in particular
    `exportFile` (a fresh interpreter) is that function. -/
theorem export_is_function (prior : Prior) (args : Args) (legacy : Bool) (keyFile : Option Keylog.Str) (capture : Bytes) :
    exportFrom mask H P prior args legacy keyFile capture = exportFile mask H P args legacy keyFile capture :=
  export_ignores_prior_state mask H P prior freshState args legacy keyFile capture

/-! ### how a run can end -/

/-- no output and a message: exactly when a `-p` / `-m` value is unusable — whatever the capture and the key log are -/
theorem export_badOptions_iff (args : Args) (legacy : Bool) (keyFile : Option Keylog.Str) (capture : Bytes) :
    exportFile mask H P args legacy keyFile capture = .badOptions ↔ optionsBad (freshState : Prior) args = true := by
  unfold exportFile
  constructor
  · intro h
    by_cases hopt : optionsBad (freshState : Prior) args = true
    · exact hopt
    · have hopt : optionsBad (freshState : Prior) args = false := by simpa using hopt
      rcases exportFrom_stages mask H P freshState args legacy keyFile capture hopt with
        ⟨e, _, he⟩ | ⟨xs, is, out, _, _, ⟨e, _, he⟩ | ⟨f, _, he⟩⟩ <;> rw [he] at h <;> cases h
  · intro hopt
    unfold exportFrom; rw [if_pos hopt]

/-- the run dies in the read loop with `e`: exactly when the options are usable and `Ingest` (reader, DSB decoding, dpkt
    dissection, `-c` arithmetic) raises `e` on the capture -/
theorem export_abort_ingest_iff (args : Args) (legacy : Bool) (keyFile : Option Keylog.Str) (capture : Bytes)
    (e : Ingest.Err) :
    exportFile mask H P args legacy keyFile capture = .abort (.ingest e) ↔
      optionsBad (freshState : Prior) args = false ∧
      Ingest.itemsWith Keylog.srcHexClass args.checksumTest legacy capture = .error e := by
  unfold exportFile
  constructor
  · intro h
    by_cases hopt : optionsBad (freshState : Prior) args = true
    · unfold exportFrom at h; rw [if_pos hopt] at h; cases h
    · have hopt : optionsBad (freshState : Prior) args = false := by simpa using hopt
      rcases exportFrom_stages mask H P freshState args legacy keyFile capture hopt with
        ⟨e', hi, he⟩ | ⟨xs, is, out, _, _, ⟨e', _, he⟩ | ⟨f, _, he⟩⟩ <;> rw [he] at h <;> cases h
      exact ⟨hopt, hi⟩
  · intro ⟨hopt, hi⟩
    rcases exportFrom_stages mask H P freshState args legacy keyFile capture hopt with
      ⟨e', hi', he⟩ | ⟨xs, is, out, hi', _⟩
    · rw [hi] at hi'; cases hi'; exact he
    · rw [hi] at hi'; cases hi'

/-- the run dies in the write loop with `e` (a truncated file is left): exactly when the options are usable, the capture
    is read to the end, and scapy / dpkt raise `e` on one of the exported frames (`C06Bytes.fileOf_ok_iff`: a port ≥ 2^16 —
    possible with `-m 443:70000` —, a sequence number ≥ 2^32, an IP length above 65535, a time stamp ≥ 2^64 µs) -/
theorem export_abort_write_iff (args : Args) (legacy : Bool) (keyFile : Option Keylog.Str) (capture : Bytes)
    (e : OutBytes.Err) :
    exportFile mask H P args legacy keyFile capture = .abort (.write e) ↔
      optionsBad (freshState : Prior) args = false ∧
      ∃ xs is out, Ingest.itemsWith Keylog.srcHexClass args.checksumTest legacy capture = .ok (xs, is) ∧
        framesFrom mask H P freshState args (fileKeysOf keyFile) xs (Ingest.lookup is) = .ok out ∧
        fileOf out = .error e := by
  unfold exportFile
  constructor
  · intro h
    by_cases hopt : optionsBad (freshState : Prior) args = true
    · unfold exportFrom at h; rw [if_pos hopt] at h; cases h
    · have hopt : optionsBad (freshState : Prior) args = false := by simpa using hopt
      rcases exportFrom_stages mask H P freshState args legacy keyFile capture hopt with
        ⟨e', _, he⟩ | ⟨xs, is, out, hi, hf, ⟨e', hw, he⟩ | ⟨f, _, he⟩⟩ <;> rw [he] at h <;> cases h
      exact ⟨hopt, xs, is, out, hi, hf, hw⟩
  · intro ⟨hopt, xs, is, out, hi, hf, hw⟩
    rcases exportFrom_stages mask H P freshState args legacy keyFile capture hopt with
      ⟨e', hi', _⟩ | ⟨xs', is', out', hi', hf', hw'⟩
    · rw [hi] at hi'; cases hi'
    · rw [hi] at hi'; cases hi'
      rw [hf] at hf'; cases hf'
      rcases hw' with ⟨e', hw', he⟩ | ⟨f, hw', _⟩
      · rw [hw] at hw'; cases hw'; exact he
      · rw [hw] at hw'; cases hw'

/-- **Totality, with the ways to die listed.** Every run ends in exactly one of four ways: an output file; a message about
    `-p`/`-m`; an exception of the read loop (the 4 classes of `Ingest.Err`: a reader error — 11 kinds of `Container.Err` —,
    `UnicodeDecodeError` on a DSB, one of the 6 exception classes that leave `dpkt.ethernet.Ethernet(buf)`, `OverflowError`
    in the `-c` arithmetic); an exception of the write loop (`ValueError` / `struct.error` from scapy or dpkt). -/
theorem export_total (args : Args) (legacy : Bool) (keyFile : Option Keylog.Str) (capture : Bytes) :
    (∃ f, exportFile mask H P args legacy keyFile capture = .file f) ∨
    exportFile mask H P args legacy keyFile capture = .badOptions ∨
    (∃ e : Ingest.Err, exportFile mask H P args legacy keyFile capture = .abort (.ingest e)) ∨
    (∃ e : OutBytes.Err, exportFile mask H P args legacy keyFile capture = .abort (.write e)) := by
  cases h : exportFile mask H P args legacy keyFile capture with
  | file f => exact .inl ⟨f, rfl⟩
  | badOptions => exact .inr (.inl rfl)
  | abort k =>
    cases k with
    | ingest e => exact .inr (.inr (.inl ⟨e, rfl⟩))
    | write e => exact .inr (.inr (.inr ⟨e, rfl⟩))

/-- the exception kinds as the line protocol (and harness/file_corr.py) names them: these 21 and no others -/
def abortNames : List String :=
  ["container-hdr-short", "container-not-shb", "container-endianness", "container-version", "container-no-idb",
   "container-read-neg", "container-needdata", "container-len-mismatch", "container-struct", "container-unicode",
   "container-bad-magic", "unicode", "frame-needdata", "frame-unpack", "frame-index", "frame-attribute", "frame-pack",
   "frame-recursion", "overflow", "write:value", "write:struct"]

theorem abort_kinds (k : Abort) : k.name ∈ abortNames := by
  cases k with
  | ingest e =>
    cases e with
    | container c => cases c <;> decide
    | unicode => decide
    | frame d => cases d <;> decide
    | overflow => decide
  | write e => cases e <;> decide

/-! ### C04 end to end (at the level of exported frames) -/
section Demux
open TLX.Spec.Demux TLX.Lemmas.MainLoop

variable (info : Nat → Pipeline.Info)

/-- **C04 for the composed TLS machine, whole captures.** Two captures `A`, `B` (TCP, UDP, DSBs, junk) whose TLS-relevant
    TCP packets belong to disjoint flows, merged in any interleaving `C`: for every key log `kl`, the frames the TLS
    sessions of the merged run export are a permutation of the frames of the two separate runs (whole per-session blocks
    are permuted: each session's frames stay together and in order). -/
theorem export_demux_tls (o : Opts) {A B C : List (MainLoop.Item Keylog.Key)} (hm : Merge A B C)
    (hd : ∀ a ∈ tcpView o A, ∀ b ∈ tcpView o B, sameFlow a b = false)
    (st : State Keylog.Key Pipeline.Conn QuicPipeline.QConn) (h0 : st.tls = []) (kl : List Keylog.Key) :
    let TM := Pipeline.tlsMachine H P info
    let QM := QuicPipeline.quicMachine mask H P info
    (C04.tlsExport TM (runItems TM QM o st C).tls kl).Perm
      (C04.tlsExport TM (runItems TM QM o st A).tls kl ++ C04.tlsExport TM (runItems TM QM o st B).tls kl) :=
  (C04.run_tls_sessions_merge _ _ o hm hd st h0).flatMap _

theorem tcpOnly_views (o : Opts) (keys : List Keylog.Key) (X : List (MainLoop.Item Keylog.Key))
    (h : ∀ it ∈ X, ∃ p, it = .frame p ∧ p.l4 = .tcp) : dsbKeys o X = [] ∧ quicView o keys X = [] := by
  induction X with
  | nil => exact ⟨rfl, rfl⟩
  | cons it rest ih =>
    obtain ⟨p, rfl, hl⟩ := h it (by simp)
    obtain ⟨i1, i2⟩ := ih (fun x hx => h x (by simp [hx]))
    have hc : (∃ q, classify o (.frame p : MainLoop.Item Keylog.Key) = .tls q) ∨
        (∃ w, classify o (.frame p : MainLoop.Item Keylog.Key) = .ignore w) := by
      simp only [classify, hl]
      split
      · exact .inr ⟨_, rfl⟩
      · split
        · exact .inr ⟨_, rfl⟩
        · exact .inl ⟨_, rfl⟩
    rcases hc with ⟨q, hq⟩ | ⟨w, hw⟩
    · exact ⟨by simp [dsbKeys, hq] at i1 ⊢; exact i1, by simp only [quicView, hq]; exact i2⟩
    · exact ⟨by simp [dsbKeys, hw] at i1 ⊢; exact i1, by simp only [quicView, hw]; exact i2⟩

/-- **… and for everything the run hands to the writer**, when the captures are TCP only: the exported frame list of the
    merged capture is a permutation of the concatenation of the two separate exports — same options, same key-log file.
    (With DSBs the three runs end with different key logs; with QUIC the hypothesis of `C04.quic_route_exact` is needed.)
    TO LIFT THIS TO FILE BYTES: the output file is SHB ++ IDB ++ one Enhanced Packet Block per frame in this order
    (`export_wellformed`), sessions in the order of their first packet in the capture; so the file of the merge is not the
    concatenation of the two files but has the same MULTISET of packet blocks (each block = `epbBody` of one frame, a
    function of the frame alone); an order-insensitive comparison of the packet blocks (or sorting sessions by first time
    stamp on both sides) is what a file-level statement needs. -/
theorem export_demux_frames (o : Opts) (keys : List Keylog.Key) {A B C : List (MainLoop.Item Keylog.Key)}
    (hm : Merge A B C) (hd : ∀ a ∈ tcpView o A, ∀ b ∈ tcpView o B, sameFlow a b = false)
    (htcp : ∀ it ∈ C, ∃ p, it = .frame p ∧ p.l4 = .tcp) :
    let TM := Pipeline.tlsMachine H P info
    let QM := QuicPipeline.quicMachine mask H P info
    (exportAll TM QM o (runItems TM QM o ⟨keys, [], []⟩ C)).Perm
      (exportAll TM QM o (runItems TM QM o ⟨keys, [], []⟩ A) ++ exportAll TM QM o (runItems TM QM o ⟨keys, [], []⟩ B)) := by
  intro TM QM
  have hA : ∀ it ∈ A, ∃ p, it = .frame p ∧ p.l4 = .tcp := fun it h => htcp it ((hm.mem it).mpr (.inl h))
  have hB : ∀ it ∈ B, ∃ p, it = .frame p ∧ p.l4 = .tcp := fun it h => htcp it ((hm.mem it).mpr (.inr h))
  obtain ⟨a1, a2⟩ := tcpOnly_views o keys A hA
  obtain ⟨b1, b2⟩ := tcpOnly_views o keys B hB
  obtain ⟨c1, c2⟩ := tcpOnly_views o keys C htcp
  rw [C18.fresh_run_is, C18.fresh_run_is, C18.fresh_run_is, a1, a2, b1, b2, c1, c2]
  simp only [quicRun, List.foldl_nil, List.flatMap_nil, List.append_nil]
  exact C04.tls_export_union TM o (hm.filterMap _) hd keys

end Demux

/-! ### non-vacuity: the function runs, and each kind of outcome occurs (Lean's own hashes, the toy ciphers, no mask) -/
namespace Ex
def args0 : Args := ⟨none, none, false, false, false⟩
def noMask : Quic.Dissect.MaskFn := fun _ _ _ => none
end Ex

open Ex in
/-- a capture with a TCP segment to port 80 and a short-header QUIC-looking datagram (`C06Bytes.exFile`, written by dpkt):
    nothing to decrypt, the output file is the two header blocks -/
example : exportFile noMask Crypto.realPrims Cipher.Toy.prims args0 false none C06Bytes.exFile
    = .file (OutBytes.shb ++ OutBytes.idb Gen.writerSnaplen) := by decide +kernel
open Ex in
example : exportFile noMask Crypto.realPrims Cipher.Toy.prims args0 false none []
    = .abort (.ingest (.container .hdrShort)) := by decide +kernel
open Ex in
/-- `-p x` on an unreadable capture: the option error comes first, as in main.py -/
example : exportFile noMask Crypto.realPrims Cipher.Toy.prims { args0 with pArg := some [[0x78]] } false none []
    = .badOptions := by decide +kernel
open Ex in
example : optionsBad (freshState : Prior) args0 = false := by decide +kernel

end TLX.Props.Export
