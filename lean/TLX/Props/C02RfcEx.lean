import TLX.Props.C02Rfc
set_option autoImplicit false
set_option linter.unusedSimpArgs false
set_option linter.unusedVariables false
set_option maxRecDepth 100000

/-! # `Props/C02Rfc`: non-vacuity

`C02File.Ex`'s capture, key-log file and option vector satisfy `QuicCaptureRfc` — the hypotheses in RFC / file terms — so
`quic_capture_exact_rfc` speaks about it: the senders' own bookkeeping `RTrk`, the suite by its IANA denotation, the key-log
file as a list of lines (the connection's four lines in any order, a line of another connection in between). -/
namespace TLX.Props.C02Rfc.Ex
open TLX TLX.MainLoop TLX.Spec.Demux TLX.Dissect TLX.OutBytes TLX.Export
open TLX.Props.C01File TLX.Spec.FrameBuild TLX.Spec.TlsCapture TLX.Spec.QuicCapture
open TLX.Spec.QuicSender TLX.Spec.QuicConnection TLX.Spec.QuicPackets TLX.QuicPipeline TLX.Props.C02Capstone
open TLX.Quic.Session TLX.Cipher TLX.Props.C02Session TLX.Spec.QuicFrames
open TLX.Spec.TlsHello TLX.Spec.TlsHandshakeFraming TLX.Props.C02Capstone.ExConf
open TLX.Spec.KeySchedules TLX.Props.C02File TLX.Props.C02File.Ex TLX.Spec.RfcSuite TLX.Spec.RfcQuic
open TLX.Lemmas.C01Rfc TLX.Props.C09Found TLX.Spec.NssKeylog TLX.Lemmas.KeySchedule
open TLX.Props.C01File.Ex (timeAt arp notMinusOne cMac sMac args0 ports0 cv0)

def ln (label : List Nat) (cr secret : Bytes) : FLine × Bool :=
  (.key ⟨label, Pipeline.natsOfBytes cr, Pipeline.natsOfBytes secret⟩ (Keylog.hexOf (Pipeline.natsOfBytes cr))
    (Keylog.hexOf (Pipeline.natsOfBytes secret)), false)

/-- the key-log file of `C02File.Ex`, line by line -/
def ls0 : List (FLine × Bool) :=
  [ln labelSHTS chx.random shS, ln labelCTS0 (List.replicate 32 9) [1, 2], ln labelCHTS chx.random chS,
   ln labelSTS0 chx.random saS, ln labelCTS0 chx.random caS]

theorem text0 : fileText ls0 = keyText := by decide +kernel

theorem ls0_wf : ∀ x ∈ ls0, x.1.WF := by
  intro x hx
  simp only [ls0, List.mem_cons, List.mem_nil_iff, or_false] at hx
  rcases hx with rfl | rfl | rfl | rfl | rfl <;>
    exact ⟨rfl, by decide, by decide +kernel, by decide +kernel, by decide +kernel, by decide +kernel⟩

def sp0 : SuiteSpec := ⟨.aesGcm, 16, .sha256, 16⟩

def pre0 : List QEv := [.foreign arp]
def restH0 : List QEv := [hsEv 2 dgS, .foreign (dns 3), hsEv 4 dgC]

def rA : RTrk := rtrk0.step qCI.x
def rB : RTrk := rA.step qSI.x
def rC : RTrk := rB.step qSH.x

theorem rkCI : HsPkR maskFn H Pc L dcid0 sel shS chS rtrk0 qCI :=
  ⟨pkCI.shape, by decide +kernel, by decide +kernel, by decide +kernel, wfCI, by decide +kernel, rfl, by decide⟩
theorem rkSI : HsPkR maskFn H Pc L dcid0 sel shS chS rA qSI :=
  ⟨pkSI.shape, by decide +kernel, by decide +kernel, by decide +kernel, wfSI, by decide +kernel, rfl, by decide⟩
theorem rkSH : HsPkR maskFn H Pc L dcid0 sel shS chS rB qSH :=
  ⟨pkSH.shape, by decide +kernel, by decide +kernel, by decide +kernel, wfSH, by decide +kernel, rfl, by decide⟩
theorem rkCH : HsPkR maskFn H Pc L dcid0 sel shS chS rC qCH :=
  ⟨pkCH.shape, by decide +kernel, by decide +kernel, by decide +kernel, wfCH, by decide +kernel, rfl, by decide⟩

theorem hsDgsR0 : HsDgsR maskFn H Pc L (dgDcid dg0) sel shS chS rtrk0 (dg0 :: hsOf restH0) := by
  refine ⟨⟨?_, by decide +kernel, rkCI, trivial⟩, ⟨?_, by decide +kernel, rkSI, rkSH, trivial⟩,
    ⟨?_, by decide +kernel, rkCH, trivial⟩, trivial⟩
  · intro q hq; simp only [dg0, List.mem_singleton] at hq; subst hq; exact ⟨rfl, rfl⟩
  · intro q hq; simp only [dgS, List.mem_cons, List.not_mem_nil, or_false] at hq; rcases hq with rfl | rfl <;> exact ⟨rfl, rfl⟩
  · intro q hq; simp only [dgC, List.mem_singleton] at hq; subst hq; exact ⟨rfl, rfl⟩

def rF : RTrk := rtrk0.runDgs (dg0 :: hsOf restH0)

theorem rF_eq : hpChacha sel = false ∧ rF.tc.app = 0 ∧ rF.ts.app = 0 ∧ rF.cc = [cidC] ∧ rF.sc = [cidS0, cidS] := by
  decide +kernel

theorem onesR0 : onesOf evsO = [o0, o1] := rfl

theorem send1R0 : Send1 maskFn H Pc L sel .v1 (rfcGen (hashOf H sel.hash) sel.keyLen saS caS 0)
    (quicHp (hashOf H sel.hash) caS sel.keyLen) (quicHp (hashOf H sel.hash) saS sel.keyLen)
    (hpChacha sel) 0 0 rF.tc.app rF.ts.app rF.cc rF.sc (onesOf evsO) := by
  obtain ⟨e1, e2, e3, e4, e5⟩ := rF_eq
  rw [onesR0, e1, e2, e3, e4, e5]
  refine ⟨rfl, by decide, by decide, by decide +kernel, wfO0, ⟨by decide, by decide +kernel, rfl, by decide⟩, by decide,
    rfl, by decide, by decide, by decide +kernel, wfO1, ⟨by decide, by decide +kernel, rfl, by decide⟩, by decide, trivial⟩

theorem routesR0 : Routes1 w1 rF.cc rF.sc (onesOf evsO) := by
  obtain ⟨_, _, _, e4, e5⟩ := rF_eq
  rw [onesR0, e4, e5]
  refine ⟨?_, ?_, trivial⟩ <;> decide +kernel

theorem hasLine0 (label : List Nat) (s : Bytes) (h : ln label chx.random s ∈ ls0) :
    HasLine ls0 label (Pipeline.natsOfBytes chx.random) (Pipeline.natsOfBytes s) := ⟨_, _, false, h⟩

theorem only0 (label : List Nat) (s : Bytes)
    (h : ∀ x ∈ [(labelSHTS, chx.random, shS), (labelCTS0, List.replicate 32 9, [1, 2]), (labelCHTS, chx.random, chS),
      (labelSTS0, chx.random, saS), (labelCTS0, chx.random, caS)],
      x.1 = label → Pipeline.natsOfBytes x.2.1 = Pipeline.natsOfBytes chx.random → Pipeline.natsOfBytes x.2.2 = Pipeline.natsOfBytes s) :
    OnlySecret ls0 label (Pipeline.natsOfBytes chx.random) (Pipeline.natsOfBytes s) := by
  intro tr hc hv crlf hm hl hcr
  simp only [ls0, ln, List.mem_cons, List.mem_nil_iff, or_false, Prod.mk.injEq, FLine.key.injEq] at hm
  rcases hm with ⟨⟨rfl, _, _⟩, _⟩ | ⟨⟨rfl, _, _⟩, _⟩ | ⟨⟨rfl, _, _⟩, _⟩ | ⟨⟨rfl, _, _⟩, _⟩ | ⟨⟨rfl, _, _⟩, _⟩
  · exact h (labelSHTS, chx.random, shS) (by simp) hl hcr
  · exact h (labelCTS0, List.replicate 32 9, [1, 2]) (by simp) hl hcr
  · exact h (labelCHTS, chx.random, chS) (by simp) hl hcr
  · exact h (labelSTS0, chx.random, saS) (by simp) hl hcr
  · exact h (labelCTS0, chx.random, caS) (by simp) hl hcr

/-- **every hypothesis of `quic_capture_exact_rfc` holds** for `C02File.Ex`'s capture, key-log file and options -/
theorem captureR0 : QuicCaptureRfc maskFn H Pc L args0 ls0 [] ports0 fl hs chS shS caS saS none sp0 sel pre0 (timeAt 1)
    (dgFrame false (wH dg0)) (udpOf false (wH dg0)) dg0 restH0 evsO where
  lawful := Props.C15.sizedToy_lawful
  sha256 := rfl
  times := times0
  noc := rfl
  nometa := rfl
  pmOk := rfl
  portsOk := rfl
  endpoints := by decide
  clientPort := by decide +kernel
  hsOk := hs_ok
  tls13 := by decide
  suite := by decide +kernel
  outLen := by decide
  saLen := rfl
  caLen := rfl
  linesWf := ls0_wf
  lineCH := hasLine0 _ _ (by simp [ls0])
  lineSH := hasLine0 _ _ (by simp [ls0])
  lineCA := hasLine0 _ _ (by simp [ls0])
  lineSA := hasLine0 _ _ (by simp [ls0])
  onlyCH := only0 _ _ (by decide +kernel)
  onlySH := only0 _ _ (by decide +kernel)
  onlyCA := only0 _ _ (by decide +kernel)
  onlySA := only0 _ _ (by decide +kernel)
  earlyLine := by
    intro tr hc hv crlf hm _
    simp only [ls0, ln, List.mem_cons, List.mem_nil_iff, or_false, Prod.mk.injEq, FLine.key.injEq] at hm
    rcases hm with ⟨⟨rfl, _, _⟩, _⟩ | ⟨⟨rfl, _, _⟩, _⟩ | ⟨⟨rfl, _, _⟩, _⟩ | ⟨⟨rfl, _, _⟩, _⟩ | ⟨⟨rfl, _, _⟩, _⟩ <;> decide
  preNoHs := by decide
  fromClient := rfl
  described := described0
  phaseH := phaseH0
  phaseO := phaseO0
  hsDgs := hsDgsR0
  hsIns := hsIns0
  send1 := send1R0
  routes := routesR0
  distinct := distinct0

/-- the demanded block, in the senders' terms -/
theorem blockR0 : blockR args0 [] fl (dgFrame false (wH dg0)) (onesOf evsO) = out0 := rfl

/-- **Non-vacuity of `quic_capture_exact_rfc`**: for the nanosecond-libpcap file and the key-log text of `C02File.Ex` the run
    gets to the write loop and the file it writes contains exactly `GET` / `OK`. -/
theorem quic_rfc_instance :
    (∃ e, exportFile maskFn H Pc args0 cv0.isLegacy (some (fileText ls0)) (Spec.Containers.encode cv0 cevs0) = .abort (.write e)) ∨
    ∃ f, exportFile maskFn H Pc args0 cv0.isLegacy (some (fileText ls0)) (Spec.Containers.encode cv0 cevs0) = .file f ∧
      ReadsBack f out0 := by
  have h := quic_capture_exact_rfc captureR0 cv0 cevs0 cwf0 citems0
  rw [blockOf_rfc captureR0, blockR0] at h
  exact h

end TLX.Props.C02Rfc.Ex
