/-
C05 — the exported plaintext depends only on the byte stream each endpoint sent, not on how TCP
delivered it (segmentation, retransmitted duplicates, reordering, any initial sequence number), and the
C07 by-product `metadata_is_overlap`.  Property theorems only; helper lemmas are in TLX/Lemmas
(Framing, ModSeq, ReasmSort, ReasmInv, Metadata, Delivery).

Model: `TLX.Reassembly` (one direction of `Session`: duplicate test, buffer, `extract_*_buf`), as the
code is *with* the reassembly repair; `Reassembly.Legacy` is the code before it.
Spec:  `TLX.Spec.TlsFraming` (`frame`, `WholeRecords`, `Delivers`).

Status of the statements
  `reassembly_exact_statement`       full strength (any delivery, any stream length) — a `def`, not provable:
  `reassembly_exact_counterexample`  ¬ statement: the *first* data segment of a direction overtaken by a
                                     segment that is a whole record on its own (no reassembler that never
                                     sees the SYN can tell; main.py drops packets without payload).
  `reassembly_exact_partial`         proved for every delivery (cuts, duplicates, displacement by any `k`,
                                     the first segment included, any ISN incl. wrap) with two hypotheses
                                     spelled out: `NoEarlyDelivery` (nothing is handed on before the segment
                                     that starts the stream has been captured) and stream ≤ 2^31 bytes.
  `reassembly_exact_first_in_place`  corollary with the crisp hypothesis "the first captured segment of the
                                     direction is the one that starts the stream".
  `reassembly_exact_inorder`         proved, no hypothesis on the order needed: cuts + duplicates + any ISN.
  `legacy_reorder_witness`, `legacy_wrap_witness`   the code before the repair fails inside the hypotheses of
                                     `reassembly_exact_partial` (reordering; wrap even in order).
  `two_pass_eq_fused`                full strength: the fused per-packet machine = the source's two passes.
  `metadata_is_overlap`              full strength (C07): carriers of a record = the buffered packets whose
                                     byte range intersects the record's, in buffer order, never empty.
-/
import TLX.Reassembly
import TLX.Spec.TlsFraming
import TLX.Lemmas.ReasmInv
import TLX.Lemmas.Metadata
import TLX.Lemmas.Delivery
import TLX.Lemmas.TwoPass
namespace TLX.Props.C05
set_option linter.unusedSimpArgs false
open TLX TLX.Reassembly TLX.Spec.TlsFraming
open TLX.Lemmas.ModSeq TLX.Lemmas.ReasmSort TLX.Lemmas.ReasmInv TLX.Lemmas.Framing TLX.Lemmas.Metadata
open TLX.Lemmas.Delivery

/-- What a capture shows of a model segment. -/
def wire (s : Seg) : Wire := (s.seq, s.data)

/-- C05 at full strength: for every delivery of a stream of whole records — any cut, duplicates,
    displacements, initial sequence number — the records handed on are the records of the stream,
    each once, in order. -/
def reassembly_exact_statement : Prop :=
  ∀ (k isn : Nat) (str : Bytes) (segs : List Seg),
    Delivers k isn str (segs.map wire) → WholeRecords str →
    (run segs).map (·.1) = frame str

/-- The hypothesis the repaired code needs: as long as no captured segment carries the first byte of the
    stream (sequence number `isn`), nothing is handed on.  (The origin of the sequence space is the
    earliest segment seen before the first delivery; the hypothesis fails exactly when segments that
    overtook the first one are whole records on their own — see `reassembly_exact_counterexample`.) -/
def NoEarlyDelivery (isn : Nat) (segs : List Seg) : Prop :=
  ∀ pre post, segs = pre ++ post → (∀ s ∈ pre, s.seq ≠ isn % 2 ^ 32) → run pre = []

/-- C05 for the code as repaired.  Hypotheses beyond the full statement, both explicit:
    `hearly` — nothing is handed on before the segment that starts the stream has been captured;
    `hlen` — the stream is shorter than half the sequence space (serial-number order).
    Displacement is unbounded (`k` arbitrary, `Delivers.displace` may be applied repeatedly) and may
    involve the first segment; the initial sequence number is arbitrary, so the sequence space may wrap
    anywhere in the stream. -/
theorem reassembly_exact_partial (k isn : Nat) (str : Bytes) (segs : List Seg)
    (hd : Delivers k isn str (segs.map wire)) (hw : WholeRecords str)
    (hlen : str.length ≤ 2 ^ 31) (hearly : NoEarlyDelivery isn segs) :
    (run segs).map (·.1) = frame str := by
  obtain ⟨chunks, hcut, hmem⟩ := delivers_mem hd
  have S : Setup (2 ^ 32) chunks (frame str) :=
    { hW := by decide
      hne := hcut.1
      hwf := frame_wf str
      hstr := by rw [hcut.2]; exact hw.symm
      hL := by rw [hcut.2]; omega }
  have hmem' : ∀ w, w ∈ segs.map wire ↔ w ∈ (offs 0 chunks).map (fun x => (sq (2 ^ 32) isn x.1, x.2)) := by
    intro w; rw [hmem w, segsOf_eq_offs]
  apply runW_exact (isn := isn) S segs
  · intro p hp
    obtain ⟨x, hx, hxe⟩ := List.mem_map.mp ((hmem' (wire p)).mp (List.mem_map_of_mem hp))
    simp only [wire, Prod.mk.injEq] at hxe
    have hb := offs_bounds _ _ _ hx
    refine ⟨?_, x.1, ?_, hxe.1.symm⟩
    · rw [← hxe.2]; exact hcut.1 _ hb.2.2
    · rw [← hxe.2]; exact hx
  · intro x hx
    obtain ⟨p, hp, hpe⟩ := List.mem_map.mp ((hmem' _).mpr (List.mem_map_of_mem (f := fun x => (sq (2 ^ 32) isn x.1, x.2)) hx))
    simp only [wire, Prod.mk.injEq] at hpe
    exact ⟨p, hp, hpe.1⟩
  · intro pre post hsplit hno
    apply hearly pre post hsplit
    intro s hs
    have := hno s hs
    simpa [sq] using this

/-- C05 with the hypothesis in its simplest form: the first captured segment of the direction is the one
    that starts the stream (the first data segment of a direction is not displaced). -/
theorem reassembly_exact_first_in_place (k isn : Nat) (str : Bytes) (segs : List Seg)
    (hd : Delivers k isn str (segs.map wire)) (hw : WholeRecords str)
    (hlen : str.length ≤ 2 ^ 31)
    (hfirst : ∀ s, segs.head? = some s → s.seq = isn % 2 ^ 32) :
    (run segs).map (·.1) = frame str := by
  apply reassembly_exact_partial k isn str segs hd hw hlen
  intro pre post hsplit hno
  cases pre with
  | nil => rfl
  | cons s t =>
    exfalso
    exact hno s (List.mem_cons_self ..) (hfirst s (by rw [hsplit]; rfl))

/-- C05, in-order deliveries (arbitrary cuts, exact duplicates, any initial sequence number, wrap
    included): no hypothesis on the order is needed. -/
theorem reassembly_exact_inorder (isn : Nat) (str : Bytes) (segs : List Seg)
    (hd : InOrder isn str (segs.map wire)) (hw : WholeRecords str) (hlen : str.length ≤ 2 ^ 31) :
    (run segs).map (·.1) = frame str := by
  apply reassembly_exact_first_in_place 0 isn str segs hd hw hlen
  intro s hs
  have := inorder_head hd (wire s) (by rw [List.head?_map, hs]; rfl)
  exact this

/-- The model's per-packet `step` is the source's two passes: every `handle_packet` call first (while the
    capture is read), `get_tls_records` once at the end — same records, same order, for every input. -/
theorem two_pass_eq_fused (segs : List Seg) : runTwoPassW (2 ^ 32) segs = run segs :=
  TLX.Lemmas.TwoPass.runTwoPassW_eq (2 ^ 32) segs

/-! ### Witnesses -/

def r1 : Bytes := [22, 3, 3, 0, 0]
def r2 : Bytes := [23, 3, 3, 0, 1, 7]
def r3 : Bytes := [21, 3, 3, 0, 2, 1, 0]

theorem whole_r12 : WholeRecords (r1 ++ r2) := by
  simp [WholeRecords, frame, hdrLen, r1, r2]

theorem whole_r123 : WholeRecords (r1 ++ r2 ++ r3) := by
  simp [WholeRecords, frame, hdrLen, r1, r2, r3]

/-- Two records, one per segment, captured in the opposite order. -/
def swapped : List Seg := [⟨1, 105, r2⟩, ⟨0, 100, r1⟩]

theorem swapped_delivers : Delivers 1 100 (r1 ++ r2) (swapped.map wire) := by
  have hc : Delivers 1 100 (r1 ++ r2) (segsOf 100 0 [r1, r2]) :=
    Delivers.cut [r1, r2] ⟨by simp [r1, r2], by simp⟩
  have hd : Displaced 1 (segsOf 100 0 [r1, r2]) (swapped.map wire) :=
    Displaced.later [] [(105, r2)] [] (100, r1) (by simp)
  exact Delivers.displace _ _ hc hd

/-- The full statement does not hold: when the first data segment of a direction is overtaken by a
    segment that is a whole record, that record is handed on first (nothing says a byte precedes it)
    and the overtaken one never fits behind it. -/
theorem reassembly_exact_counterexample : ¬ reassembly_exact_statement := by
  intro h
  have := h 1 100 (r1 ++ r2) swapped swapped_delivers whole_r12
  simp [swapped, run, runW, ingestW, stepW, extract, baseOf, deliver, minBy, sortBy, insertBy, syncKey, presyncKey,
    pyModSub, contiguous, flush, bufData, needData, records, recLenAt, ranges, carriers, Bytes.slice, Bytes.beNat,
    St.init, frame, hdrLen, r1, r2] at this

/-- … and it is exactly the hypothesis of `reassembly_exact_partial` that fails there: the overtaking
    segment is handed on while no segment with the initial sequence number has been captured. -/
theorem swapped_early_delivery : ¬ NoEarlyDelivery 100 swapped := by
  intro h
  have := h [⟨1, 105, r2⟩] [⟨0, 100, r1⟩] rfl (by simp)
  simp [run, runW, ingestW, stepW, extract, baseOf, deliver, minBy, sortBy, insertBy, syncKey, presyncKey,
    pyModSub, contiguous, flush, bufData, needData, records, recLenAt, ranges, carriers, Bytes.slice, Bytes.beNat,
    St.init, r2] at this

/-- Three records, one per segment, the second captured after the third (the first segment in place,
    stream of 18 bytes): inside the hypotheses of `reassembly_exact_partial`. -/
def reordered : List Seg := [⟨0, 100, r1⟩, ⟨2, 111, r3⟩, ⟨1, 105, r2⟩]

theorem reordered_delivers : Delivers 1 100 (r1 ++ r2 ++ r3) (reordered.map wire) := by
  have hc : Delivers 1 100 (r1 ++ r2 ++ r3) (segsOf 100 0 [r1, r2, r3]) :=
    Delivers.cut [r1, r2, r3] ⟨by simp [r1, r2, r3], by simp⟩
  have hd : Displaced 1 (segsOf 100 0 [r1, r2, r3]) (reordered.map wire) :=
    Displaced.later [(100, r1)] [(111, r3)] [] (105, r2) (by simp)
  exact Delivers.displace _ _ hc hd

/-- Before the repair: a later segment that starts at a record boundary while the buffer is empty was
    handed on at once — records out of order. -/
theorem legacy_reorder_witness :
    Delivers 1 100 (r1 ++ r2 ++ r3) (reordered.map wire) ∧ WholeRecords (r1 ++ r2 ++ r3) ∧
      (r1 ++ r2 ++ r3).length ≤ 2 ^ 31 ∧ (∀ s, reordered.head? = some s → s.seq = 100 % 2 ^ 32) ∧
      (Legacy.run reordered).map (·.1) = [r1, r3, r2] ∧ frame (r1 ++ r2 ++ r3) = [r1, r2, r3] := by
  refine ⟨reordered_delivers, whole_r123, by decide, by simp [reordered], ?_, ?_⟩
  · simp [reordered, Legacy.run, Legacy.ingest, Legacy.step, Legacy.extract, sortBy, insertBy, Legacy.contiguous,
      flush, bufData, needData, records, recLenAt, ranges, carriers, Bytes.slice, Bytes.beNat, St.init, r1, r2, r3]
  · simp [frame, hdrLen, r1, r2, r3]

/-- One record cut into two segments, in order, the sequence space wrapping between them. -/
def wrapped : List Seg := [⟨0, 4294967293, [22, 3, 3]⟩, ⟨1, 0, [0, 0]⟩]

theorem wrapped_delivers : InOrder 4294967293 r1 (wrapped.map wire) := by
  have hc : Delivers 0 4294967293 r1 (segsOf 4294967293 0 [[22, 3, 3], [0, 0]]) :=
    Delivers.cut [[22, 3, 3], [0, 0]] ⟨by simp, by simp [r1]⟩
  exact hc

/-- Before the repair: raw 32-bit comparison — the segment after the wrap sorts first and the buffer
    never becomes contiguous; nothing is handed on. -/
theorem legacy_wrap_witness :
    InOrder 4294967293 r1 (wrapped.map wire) ∧ WholeRecords r1 ∧ (Legacy.run wrapped).map (·.1) = [] ∧
      frame r1 = [r1] := by
  refine ⟨wrapped_delivers, by simp [WholeRecords, frame, hdrLen, r1], ?_, by simp [frame, hdrLen, r1]⟩
  simp [wrapped, Legacy.run, Legacy.ingest, Legacy.step, Legacy.extract, sortBy, insertBy, Legacy.contiguous,
    flush, bufData, needData, records, recLenAt, ranges, carriers, Bytes.slice, Bytes.beNat, St.init]

/-! ### C07 by-product -/

/-- The carriers (`TlsRecord.metadata`) of the `j`-th record handed on when a buffer of non-empty
    packets is flushed are exactly the buffered packets whose byte range
    `[segStart buf i, segStart buf (i+1))` has a byte in common with the record's range
    `[start, start + length)`, in buffer order — and there is at least one. -/
theorem metadata_is_overlap (buf : List Seg) (hne : ∀ s ∈ buf, s.data ≠ []) (recs : List Rec)
    (h : flush buf = some recs) (j : Nat) (hj : j < recs.length) :
    (recs[j]).2 =
        ((List.range buf.length).filter (fun i =>
          decide (Overlaps (segStart buf i) (segStart buf (i + 1))
            (((recs.take j).map (·.1.length)).sum) (((recs.take j).map (·.1.length)).sum + (recs[j]).1.length)))).map
          (idAt buf) ∧
      (recs[j]).2 ≠ [] :=
  flush_carriers buf hne recs h j hj

/-! ### Non-vacuity: the hypotheses are satisfiable by non-trivial inputs, and the conclusions are
    what evaluation gives -/

/-- A delivery with a displaced segment, an exact duplicate and the wrap inside the stream. -/
def busy : List Seg :=
  [⟨0, 4294967290, r1⟩, ⟨2, 5, r3⟩, ⟨9, 4294967290, r1⟩, ⟨1, 4294967295, r2⟩]

example : Delivers 1 4294967290 (r1 ++ r2 ++ r3) (busy.map wire) := by
  have hc : Delivers 1 4294967290 (r1 ++ r2 ++ r3) (segsOf 4294967290 0 [r1, r2, r3]) :=
    Delivers.cut [r1, r2, r3] ⟨by simp [r1, r2, r3], by simp⟩
  have hd : Displaced 1 (segsOf 4294967290 0 [r1, r2, r3]) [(4294967290, r1), (5, r3), (4294967295, r2)] :=
    Displaced.later [(4294967290, r1)] [(5, r3)] [] (4294967295, r2) (by simp)
  exact Delivers.dup [] [(5, r3)] [(4294967295, r2)] (4294967290, r1) (Delivers.displace _ _ hc hd)

example : (r1 ++ r2 ++ r3).length ≤ 2 ^ 31 ∧ ∀ s, busy.head? = some s → s.seq = 4294967290 % 2 ^ 32 := by
  refine ⟨by decide, by simp [busy]⟩

example : run busy = [(r1, [0]), (r2, [1]), (r3, [2])] := by
  simp [busy, run, runW, ingestW, stepW, extract, baseOf, deliver, minBy, sortBy, insertBy, syncKey, presyncKey,
    pyModSub, contiguous, flush, bufData, needData, records, recLenAt, ranges, carriers, Bytes.slice, Bytes.beNat,
    St.init, r1, r2, r3]

/-- The first data segment overtaken by a segment that is *not* whole records: inside the hypotheses of
    `reassembly_exact_partial` (the origin moves back when the overtaken segment arrives). -/
def overtaken : List Seg := [⟨1, 103, [0, 1, 7]⟩, ⟨0, 100, [23, 3, 3]⟩]

example : Delivers 1 100 r2 (overtaken.map wire) := by
  have hc : Delivers 1 100 r2 (segsOf 100 0 [[23, 3, 3], [0, 1, 7]]) :=
    Delivers.cut [[23, 3, 3], [0, 1, 7]] ⟨by simp, by simp [r2]⟩
  have hd : Displaced 1 (segsOf 100 0 [[23, 3, 3], [0, 1, 7]]) (overtaken.map wire) :=
    Displaced.later [] [(103, [0, 1, 7])] [] (100, [23, 3, 3]) (by simp)
  exact Delivers.displace _ _ hc hd

example : NoEarlyDelivery 100 overtaken := by
  intro pre post hsplit hno
  cases pre with
  | nil => rfl
  | cons x t =>
    cases t with
    | nil =>
      simp only [overtaken, List.cons_append, List.nil_append, List.cons.injEq] at hsplit
      rw [← hsplit.1]
      simp [run, runW, ingestW, stepW, extract, baseOf, deliver, minBy, sortBy, insertBy, syncKey, presyncKey,
        pyModSub, contiguous, flush, bufData, needData, St.init]
    | cons y u =>
      exfalso
      simp only [overtaken, List.cons_append, List.cons.injEq] at hsplit
      have := hno y (by simp)
      rw [← hsplit.2.1] at this
      simp at this

example : run overtaken = [(r2, [0, 1])] := by
  simp [overtaken, run, runW, ingestW, stepW, extract, baseOf, deliver, minBy, sortBy, insertBy, syncKey, presyncKey,
    pyModSub, contiguous, flush, bufData, needData, records, recLenAt, ranges, carriers, Bytes.slice, Bytes.beNat,
    St.init, r2]

-- the repaired machine on the two schedules the old one failed on
example : (run reordered).map (·.1) = [r1, r2, r3] := by
  simp [reordered, run, runW, ingestW, stepW, extract, baseOf, deliver, minBy, sortBy, insertBy, syncKey, presyncKey,
    pyModSub, contiguous, flush, bufData, needData, records, recLenAt, ranges, carriers, Bytes.slice, Bytes.beNat,
    St.init, r1, r2, r3]

example : run wrapped = [(r1, [0, 1])] := by
  simp [wrapped, run, runW, ingestW, stepW, extract, baseOf, deliver, minBy, sortBy, insertBy, syncKey, presyncKey,
    pyModSub, contiguous, flush, bufData, needData, records, recLenAt, ranges, carriers, Bytes.slice, Bytes.beNat,
    St.init, r1]

-- metadata_is_overlap: a record over three packets, two records in one packet
example : flush [⟨7, 0, [22, 3]⟩, ⟨8, 2, [3, 0]⟩, ⟨9, 4, [1, 5, 23, 3, 3, 0, 0]⟩] =
    some [([22, 3, 3, 0, 1, 5], [7, 8, 9]), ([23, 3, 3, 0, 0], [9])] := by
  simp [flush, bufData, needData, records, recLenAt, ranges, carriers, Bytes.slice, Bytes.beNat]

example : Overlaps 4 11 6 11 ∧ ¬ Overlaps 2 4 6 11 := by decide

end TLX.Props.C05
