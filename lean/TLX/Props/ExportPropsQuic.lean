/-
Whole-program forms of C08, C13, C10, C07 for QUIC: the twins of `Props/ExportProps.lean` (TLS over TCP). Theorems about what
`run()` hands to the writer (`TLX.Export.framesFrom`) for ANY capture item list — TLS, QUIC, DSBs, ignored items interleaved —,
any key log, options, primitives.

Vocabulary: `quicSess o fk xs` the QUIC session objects of a run in creation order; `qFrames md s` the frames one session
exports; `quicFrames o fk xs` the QUIC part session by session; `framesFrom_ok_quic`:
`framesFrom = (tlsFrames …).flatten ++ (quicFrames …).flatten`.

1. C08  `export_cut_prefix_quic_items`, `export_cut_prefix_quic` (`framesFrom` level): cut the capture after `n` items; session
        by session in creation order the cut export stands in `CutRel` to the full export — all frames but the last unchanged,
        the last one at its place with the same time and addresses and a payload PREFIX (the builder concatenates the data of
        consecutive frames with equal (capture time, direction)); later sessions absent. It is a plain prefix under `SplitOk`
        (`export_cut_prefix_quic_items_split`; `build_append_of_split`): the last exported frame before the cut and the first
        one after it differ in (time, direction). `CutRel` cannot be strengthened: `Ex.cut_not_prefix_witness`, replayed on the
        real tool (`harness/export_props_quic_replay.py`). NO key-material hypothesis (TLS needs `hkeys`): the loop hands
        `handle_quic_packet` the key log as it is when the datagram is read (`quicView_take_prefix`), `build_output` reads none.
        Ingredients: the session list only grows (`quicRun_prefix_ext`), `handle_packet` only appends to `output_buffer` and
        leaves the addressing fields alone (`feed_keeps`, via `C02Capstone3.handleDatagram_wo`), `build_append_ext`.
2. C13  `export_meta_only_adds_quic_items`: with / without `-a` the same sessions (same objects up to the stored flag:
        `quicSess_meta`), both exports `build` of the same frame list, the groups without `-a` = the groups with `-a`
        restricted to STREAM data and regrouped (`C02Out.meta_regroup`), same STREAM bytes in the same order.
3. C10  `export_ports_quic_items`: client endpoint unchanged, server port original / mapped / 8080; roles by `rolesOf` on the
        session's first datagram. The main loop classifies UDP by the QUIC header bits of the payload, NOT by port
        (`mem_quicView`): a flow none of whose ports is a server port still gets a session, the DESTINATION of its first
        datagram is the server (`Ex.ports_view`).
4. C07  `export_time_and_ends_quic_items`: every exported frame carries the IP version and MAC / IP ends of the session's
        first datagram and the capture time of a datagram the loop gave to this session (`Routed`) — `qOk_all`,
        `feed_added` (from `extract_pkts_ts`, `stepPkt_added`, `handleDatagram_added`: whatever is appended to `output_buffer`
        while a datagram is handled is stamped with that datagram's time).
Instances (`Props/ExportPropsQuicEx.lean`): the whole pipeline evaluated by the kernel on a concrete capture.
Core Lean only.
-/
import TLX.Props.ExportProps
import TLX.Props.C02Capstone3
import TLX.Props.C18
set_option linter.unusedSimpArgs false
set_option linter.unusedVariables false
set_option autoImplicit false
namespace TLX.Props.ExportPropsQuic
open TLX TLX.MainLoop TLX.Export TLX.Spec.Demux TLX.Lemmas.ExportProps TLX.Lemmas.MainLoop TLX.QuicPipeline
open TLX.Props.C02Capstone3 TLX.Props.C02Capstone

/-! ### vocabulary -/
section Vocab
variable (mask : Quic.Dissect.MaskFn) (H : Crypto.Prims) (P : Cipher.Prims) (info : Nat → Pipeline.Info)

/-- the QUIC session objects of a run, in creation order -/
def quicSess (o : Opts) (fk : Option (List Keylog.Key)) (xs : List (Item Keylog.Key)) : List (QuicSess QConn) :=
  quicRun (quicMachine mask H P info) o [] (quicView o (fk.getD []) xs)

/-- the frames one QUIC session contributes to the output -/
def qFrames (md : Bool) (s : QuicSess QConn) : List Pipeline.OutPkt := (quicMachine mask H P info).out md s.st

/-- the QUIC part of the output, session by session -/
def quicFrames (o : Opts) (fk : Option (List Keylog.Key)) (xs : List (Item Keylog.Key)) : List (List Pipeline.OutPkt) :=
  (quicSess mask H P info o fk xs).map (qFrames mask H P info o.metadata)

/-- what `run()` hands to the writer: the TLS conversations' frames, then the QUIC sessions' frames -/
theorem framesFrom_ok_quic (prior : Export.Prior) (args : Args) (fk : Option (List Keylog.Key))
    (xs : List (Item Keylog.Key)) (o : Opts) (ho : optsOf args = some o) :
    Export.framesFrom mask H P prior args fk xs info
      = .ok ((tlsFrames H P info o fk xs).flatten ++ (quicFrames mask H P info o fk xs).flatten) := by
  unfold optsOf at ho
  unfold Export.framesFrom runFrom body
  rw [Props.C18.reset_is_fresh]
  cases hpm : Options.getPortMap Options.Src.bare args.mArg with
  | error e => rw [hpm] at ho; cases ho
  | ok pm =>
    rw [hpm] at ho
    simp only at ho ⊢
    have hsp : (freshState : Export.Prior).serverPorts = Options.Src.builtin := rfl
    rw [hsp]
    cases hp : Options.serverPorts Options.Src.builtin Options.Src.pDefault args.pArg with
    | error e => rw [hp] at ho; cases ho
    | ok ports =>
      rw [hp] at ho
      simp only [Option.some.injEq] at ho
      subst ho
      simp only
      obtain ⟨h1, h2, h3⟩ := runItems_proj (Pipeline.tlsMachine H P info) (QuicPipeline.quicMachine mask H P info)
        ⟨ports, args.checksumTest, args.greasy, args.metadata, Options.keepOriginalPorts args.mArg, pm⟩ xs
        ({ (freshState : Export.Prior).st with keylog := (freshState : Export.Prior).st.keylog ++ fk.getD [] })
      simp only [exportAll, h1, h2, h3, dsbKeys_eq, List.nil_append, tlsFrames, tlsConvs, keysOf, List.flatMap_def,
        quicFrames, quicSess, qFrames]
      rfl

end Vocab

/-! ### the QUIC session list only grows -/
section Grow
variable {κ τ ο : Type}

/-- one call of `session.handle_packet(packet, dcid, version)` with the key log of that moment -/
structure FeedIn (κ : Type) where
  kl : List κ
  p : Pkt
  dcid : Bytes
  ver : MainLoop.Version

def feeds (M : QuicMachine κ τ ο) (c : τ) (l : List (FeedIn κ)) : τ := l.foldl (fun c x => M.feed c x.kl x.p x.dcid x.ver) c

/-- the session `t` is the session `s` after more datagrams -/
def QSessExt (M : QuicMachine κ τ ο) (s t : QuicSess τ) : Prop :=
  t.server = s.server ∧ t.client = s.client ∧ ∃ more : List (FeedIn κ), t.st = feeds M s.st more

theorem QSessExt.refl (M : QuicMachine κ τ ο) (s : QuicSess τ) : QSessExt M s s := ⟨rfl, rfl, [], rfl⟩

theorem QSessExt.trans (M : QuicMachine κ τ ο) (a b c : QuicSess τ) (h1 : QSessExt M a b) (h2 : QSessExt M b c) :
    QSessExt M a c := by
  obtain ⟨a1, a2, m1, a3⟩ := h1
  obtain ⟨b1, b2, m2, b3⟩ := h2
  exact ⟨b1.trans a1, b2.trans a2, m1 ++ m2, by rw [b3, a3]; simp [feeds, List.foldl_append]⟩

theorem quicLoop_ext (M : QuicMachine κ τ ο) (o : Opts) (kl : List κ) (h : Hdr) (ss : List (QuicSess τ)) (p : Pkt) :
    ListExt (QSessExt M) ss (quicLoop M o kl h ss p) := by
  induction ss with
  | nil => exact .nil _
  | cons s rest ih =>
    simp only [quicLoop]
    split
    · rename_i c _
      exact .cons ⟨rfl, rfl, [⟨kl, p, c, h.ver⟩], rfl⟩ (ListExt.refl (QSessExt.refl M) rest)
    · exact .cons (QSessExt.refl M s) ih

theorem quicHandleH_ext (M : QuicMachine κ τ ο) (o : Opts) (kl : List κ) (h : Hdr) (ss : List (QuicSess τ)) (p : Pkt) :
    ListExt (QSessExt M) ss (quicHandleH M o kl h ss p) := by
  unfold quicHandleH
  split
  · exact ListExt.refl (QSessExt.refl M) ss
  · exact quicLoop_ext M o kl h ss p

theorem quicRun_ext (M : QuicMachine κ τ ο) (o : Opts) (ss : List (QuicSess τ)) (l : List (QIn κ)) :
    ListExt (QSessExt M) ss (quicRun M o ss l) := by
  induction l generalizing ss with
  | nil => exact ListExt.refl (QSessExt.refl M) ss
  | cons x xs ih =>
    simp only [quicRun, List.foldl_cons]
    exact ListExt.trans (QSessExt.trans M) (quicHandleH_ext M o x.kl x.h ss x.p) (ih _)

/-- **QUIC demultiplexing is monotone**: the sessions after a prefix of the datagrams are, in the same creation order, the
    first sessions of the full run, each having handled a prefix of what it handles in the full run -/
theorem quicRun_prefix_ext (M : QuicMachine κ τ ο) (o : Opts) (ss : List (QuicSess τ)) {a b : List (QIn κ)}
    (h : a <+: b) : ListExt (QSessExt M) (quicRun M o ss a) (quicRun M o ss b) := by
  obtain ⟨t, rfl⟩ := h
  have : quicRun M o ss (a ++ t) = quicRun M o (quicRun M o ss a) t := by simp [quicRun, List.foldl_append]
  rw [this]
  exact quicRun_ext M o _ t

/-- the QUIC calls of a cut capture are the first calls of the whole capture, each WITH THE SAME KEY LOG: the loop hands
    `handle_quic_packet` the key log as it is when the datagram is read, so key material that comes later in the capture
    (DSBs after the cut) makes no difference for the datagrams before the cut -/
theorem quicView_take_prefix (o : Opts) (kl : List κ) (xs : List (Item κ)) (n : Nat) :
    quicView o kl (xs.take n) <+: quicView o kl xs := by
  induction xs generalizing kl n with
  | nil => simp [quicView]
  | cons it rest ih =>
    cases n with
    | zero => simp [quicView]
    | succ m =>
      simp only [List.take_succ_cons, quicView]
      split
      · exact ih _ m
      · exact List.cons_prefix_cons.mpr ⟨rfl, ih _ m⟩
      · exact ih _ m

end Grow

/-! ### one session: `handle_packet` only appends to `output_buffer` and never touches the addressing fields -/
section Feed
variable (mask : Quic.Dissect.MaskFn) (H : Crypto.Prims) (P : Cipher.Prims) (info : Nat → Pipeline.Info)
open TLX.Quic.Session

theorem feed_keeps (c : QConn) (kl : List Keylog.Key) (p : Pkt) (dcid : Bytes) (v : MainLoop.Version) :
    let c' := (quicMachine mask H P info).feed c kl p dcid v
    c'.opts = c.opts ∧ c'.server = c.server ∧ c'.client = c.client ∧ c'.serverMac = c.serverMac ∧
    c'.clientMac = c.clientMac ∧ c'.ipv6 = c.ipv6 ∧ c.st.out <+: c'.st.out := by
  simp only [quicMachine]
  cases c.raised with
  | some e => exact ⟨rfl, rfl, rfl, rfl, rfl, rfl, List.prefix_refl _⟩
  | none =>
    refine ⟨rfl, rfl, rfl, rfl, rfl, rfl, ?_⟩
    simp only
    have hw := handleDatagram_wo mask H (params H P kl) c.st.out (noOut c.st) (p.src == c.client) dcid (sver v)
      (info p.tag).ts p.payload
    rw [wo_noOut] at hw
    rw [hw]
    exact List.prefix_append _ _

theorem feeds_keeps (c : QConn) (more : List (FeedIn Keylog.Key)) :
    let c' := feeds (quicMachine mask H P info) c more
    c'.opts = c.opts ∧ c'.server = c.server ∧ c'.client = c.client ∧ c'.serverMac = c.serverMac ∧
    c'.clientMac = c.clientMac ∧ c'.ipv6 = c.ipv6 ∧ c.st.out <+: c'.st.out := by
  induction more generalizing c with
  | nil => exact ⟨rfl, rfl, rfl, rfl, rfl, rfl, List.prefix_refl _⟩
  | cons x rest ih =>
    obtain ⟨a1, a2, a3, a4, a5, a6, a7⟩ := feed_keeps mask H P info c x.kl x.p x.dcid x.ver
    obtain ⟨b1, b2, b3, b4, b5, b6, b7⟩ := ih ((quicMachine mask H P info).feed c x.kl x.p x.dcid x.ver)
    exact ⟨b1.trans a1, b2.trans a2, b3.trans a3, b4.trans a4, b5.trans a5, b6.trans a6, a7.trans b7⟩

end Feed

/-! ### the builder on a frame list and on a longer one -/
section Builder
open TLX.Quic TLX.Quic.UdpOut

/-- the output datagram `b` is the output datagram `a`, possibly with more data at the end -/
def DgPre (a b : Dgram) : Prop := a.isServer = b.isServer ∧ a.ts = b.ts ∧ a.payload <+: b.payload

theorem DgPre.refl (a : Dgram) : DgPre a a := ⟨rfl, rfl, List.prefix_refl _⟩
theorem DgPre.trans (a b c : Dgram) (h1 : DgPre a b) (h2 : DgPre b c) : DgPre a c :=
  ⟨h1.1.trans h2.1, h1.2.1.trans h2.2.1, h1.2.2.trans h2.2.2⟩

theorem listExt_append_right {α : Type} {R : α → α → Prop} (hR : ∀ a, R a a) (l t : List α) : ListExt R l (l ++ t) := by
  induction l with
  | nil => exact .nil _
  | cons a l ih => exact .cons (hR a) ih

theorem listExt_snoc {α : Type} {R : α → α → Prop} (hR : ∀ a, R a a) (l : List α) (a b : α) (t : List α) (h : R a b) :
    ListExt R (l ++ [a]) (l ++ [b] ++ t) := by
  induction l with
  | nil => exact .cons h (.nil _)
  | cons x l ih => exact .cons (hR x) ih

theorem finish_step_ext (md : Bool) (s : UdpOut.St) (f : Frame) : ListExt DgPre (finish s) (finish (UdpOut.step md s f)) := by
  unfold UdpOut.step
  cases hex : exported md f with
  | none => exact ListExt.refl DgPre.refl _
  | some data =>
    simp only
    obtain ⟨cur, out⟩ := s
    cases cur with
    | none => simp only [finish]; exact listExt_append_right DgPre.refl _ _
    | some g =>
      obtain ⟨ts, srv, packets⟩ := g
      simp only
      split
      · simp only [finish]
        have := listExt_snoc DgPre.refl out ⟨srv, ts, packets⟩ ⟨srv, ts, packets ++ data⟩ []
          ⟨rfl, rfl, List.prefix_append _ _⟩
        simpa using this
      · simp only [finish]
        have := listExt_snoc DgPre.refl out ⟨srv, ts, packets⟩ ⟨srv, ts, packets⟩ [⟨f.isServer, f.ts, data⟩] (DgPre.refl _)
        simpa [List.append_assoc] using this

theorem finish_foldl_ext (md : Bool) (s : UdpOut.St) (fs : List Frame) :
    ListExt DgPre (finish s) (finish (fs.foldl (UdpOut.step md) s)) := by
  induction fs generalizing s with
  | nil => exact ListExt.refl DgPre.refl _
  | cons f fs ih =>
    simp only [List.foldl_cons]
    exact ListExt.trans DgPre.trans (finish_step_ext md s f) (ih _)

/-- **the builder on more frames**: every output datagram of the shorter list is there again at the same place, with the
    same time and direction, its payload possibly longer (only the last one can be: `build_take_dropLast_prefix`) -/
theorem build_append_ext (md : Bool) (a b : List Frame) : ListExt DgPre (build md a) (build md (a ++ b)) := by
  unfold build
  rw [List.foldl_append]
  exact finish_foldl_ext md _ b


theorem push_append {α K : Type} [DecidableEq K] (k : K) (as : List α) (g1 g2 : List (K × List α)) (h : g1 ≠ []) :
    push k as (g1 ++ g2) = push k as g1 ++ g2 := by
  cases g1 with
  | nil => exact absurd rfl h
  | cons x rest =>
    obtain ⟨k', bs⟩ := x
    by_cases hk : k = k' <;> simp [push, hk]

/-- grouping of a concatenation whose seam separates two different keys -/
theorem groupRuns_append_of_ne {α K : Type} [DecidableEq K] (key : α → K) (x y : List α)
    (h : ∀ a ∈ x.getLast?, ∀ b ∈ y.head?, key a ≠ key b) :
    groupRuns key (x ++ y) = groupRuns key x ++ groupRuns key y := by
  induction x with
  | nil => rfl
  | cons a x' ih =>
    simp only [List.cons_append, groupRuns]
    cases hx : x' with
    | nil =>
      simp only [List.nil_append, groupRuns]
      cases hy : y with
      | nil => rfl
      | cons b y' =>
        have hne : key a ≠ key b := h a (by simp [hx]) b (by simp [hy])
        simp only [groupRuns]
        rw [push_of_head_ne (key a) [a] _ (by
          intro z hz
          have := push_head_key (key b) [b] (groupRuns key y')
          cases hp : push (key b) [b] (groupRuns key y') with
          | nil => rw [hp] at hz; cases hz
          | cons w ws =>
            rw [hp] at hz this
            simp only [List.head?_cons, Option.mem_def, Option.some.injEq] at hz
            simp only [List.head?_cons, Option.map_some, Option.some.injEq] at this
            rw [← hz, this]; exact hne)]
        rfl
    | cons c x'' =>
      have ih' := ih (by
        intro a' ha' b hb
        exact h a' (by rw [hx]; simpa [List.getLast?_cons_cons] using (by rw [hx] at ha'; exact ha')) b hb)
      rw [← hx, ih', push_append _ _ _ _ (by rw [hx]; simp only [groupRuns]; exact push_ne_nil _ _ _)]

/-- the last exported frame of `a` and the first exported frame of `b` differ in (time, direction) — or one of the two
    lists has no exported frame -/
def SplitOk (md : Bool) (a b : List Frame) : Prop :=
  ∀ f ∈ (a.filter (fun f => (exported md f).isSome)).getLast?,
    ∀ g ∈ (b.filter (fun f => (exported md f).isSome)).head?, f.key ≠ g.key

/-- **under `SplitOk` the builder works on the two parts separately**: what was exported for `a` stays as it is -/
theorem build_append_of_split (md : Bool) (a b : List Frame) (h : SplitOk md a b) :
    build md (a ++ b) = build md a ++ build md b := by
  rw [Props.C02Out.build_eq_runs, Props.C02Out.build_eq_runs, Props.C02Out.build_eq_runs, List.filter_append,
    groupRuns_append_of_ne Frame.key _ _ h, List.map_append]

end Builder

/-! ### C08: cutting the capture -/
section C08
variable (mask : Quic.Dissect.MaskFn) (H : Crypto.Prims) (P : Cipher.Prims) (info : Nat → Pipeline.Info)
open TLX.Quic TLX.Quic.UdpOut

/-- the frame `b` is the frame `a` with possibly more payload at the end (everything else equal) -/
def FramePre (a b : Pipeline.OutPkt) : Prop := ∃ more, b = { a with payload := a.payload ++ more }

/-- the exported frames `fa` of a session of the cut run against the frames `fb` of the same session in the full run: all
    but the last frame of `fa` are the first frames of `fb` unchanged, and the last one is there too, at its place, with
    the same time and addresses — its payload may have grown (the builder concatenates the STREAM data of consecutive
    frames with equal (capture time, direction): `C02Out.build_take_prefix_needs_distinct`) -/
structure CutRel (fa fb : List Pipeline.OutPkt) : Prop where
  init : fa.dropLast <+: fb
  ext : ListExt FramePre fa fb

theorem addressed_pre (c : QConn) (a b : Dgram) (h : DgPre a b) : FramePre (addressed c a) (addressed c b) := by
  obtain ⟨h1, h2, more, h3⟩ := h
  refine ⟨more, ?_⟩
  cases a; cases b
  simp only at h1 h2 h3
  subst h1 h2 h3
  unfold addressed
  split <;> rfl

/-- one session, before and after more datagrams -/
theorem qFrames_ext (md : Bool) (s t : QuicSess QConn) (h : QSessExt (quicMachine mask H P info) s t) :
    CutRel (qFrames mask H P info md s) (qFrames mask H P info md t) ∧
    ∃ rest, t.st.st.out = s.st.st.out ++ rest ∧
      (SplitOk md (s.st.st.out.map frameOf) (rest.map frameOf) →
        qFrames mask H P info md s <+: qFrames mask H P info md t) := by
  obtain ⟨_, _, more, hst⟩ := h
  obtain ⟨a1, a2, a3, a4, a5, a6, rest, a7⟩ := feeds_keeps mask H P info s.st more
  rw [← hst] at a1 a2 a3 a4 a5 a6 a7
  have hadr : addressed t.st = addressed s.st := addressed_congr s.st t.st a1 a2 a3 a4 a5 a6
  have hq : ∀ u : QuicSess QConn, qFrames mask H P info md u = (build md (u.st.st.out.map frameOf)).map (addressed u.st) :=
    fun u => connOut_eq md u.st
  rw [hq s, hq t, hadr, ← a7, List.map_append]
  refine ⟨⟨?_, ?_⟩, rest, rfl, ?_⟩
  · have h1 := Props.C02Out.build_take_dropLast_prefix md (s.st.st.out.map frameOf ++ rest.map frameOf)
      (s.st.st.out.map frameOf).length
    rw [List.take_left'] at h1
    · rw [← List.map_dropLast]; exact List.IsPrefix.map _ h1
    · rfl
  · exact ListExt.map _ _ (fun a b hab => addressed_pre s.st a b hab) (build_append_ext md _ _)
  · intro hs
    rw [build_append_of_split md _ _ hs, List.map_append]
    exact List.prefix_append _ _

/-- **C08, whole program, QUIC, items level.** Cut the capture after its first `n` items (packets, DSBs, anything). QUIC
    session by session, in creation order, the frames exported from the cut capture stand in `CutRel` to the frames
    exported from the whole capture; sessions created after the cut are absent. NO hypothesis about key material is
    needed (unlike TLS over TCP, `ExportProps.export_cut_prefix_tls_items`): `handle_quic_packet` is given the key log as
    it is when the datagram is read, and `build_output` reads no keys — what is decrypted before the cut is decrypted the
    same way in both runs (`quicView_take_prefix`). -/
theorem export_cut_prefix_quic_items (o : Opts) (fk : Option (List Keylog.Key)) (xs : List (Item Keylog.Key)) (n : Nat) :
    ListExt CutRel (quicFrames mask H P info o fk (xs.take n)) (quicFrames mask H P info o fk xs) := by
  unfold quicFrames
  refine ListExt.map _ _ ?_ (quicRun_prefix_ext (quicMachine mask H P info) o [] (quicView_take_prefix o (fk.getD []) xs n))
  intro a b hab
  exact (qFrames_ext mask H P info o.metadata a b hab).1

/-- … and it is a plain PREFIX, frame by frame, for every session whose last exported frame before the cut and first
    exported frame after the cut differ in (capture time, direction) (`SplitOk` — true in particular when the datagrams
    of a connection have pairwise different capture times per direction) -/
theorem export_cut_prefix_quic_items_split (o : Opts) (fk : Option (List Keylog.Key)) (xs : List (Item Keylog.Key)) (n : Nat) :
    ListExt (fun s t : QuicSess QConn => ∃ rest, t.st.st.out = s.st.st.out ++ rest ∧
        (SplitOk o.metadata (s.st.st.out.map frameOf) (rest.map frameOf) →
          qFrames mask H P info o.metadata s <+: qFrames mask H P info o.metadata t))
      (quicSess mask H P info o fk (xs.take n)) (quicSess mask H P info o fk xs) := by
  have h := quicRun_prefix_ext (quicMachine mask H P info) o [] (quicView_take_prefix o (fk.getD []) xs n)
  have : ∀ {x y : List (QuicSess QConn)}, ListExt (QSessExt (quicMachine mask H P info)) x y →
      ListExt (fun s t : QuicSess QConn => ∃ rest, t.st.st.out = s.st.st.out ++ rest ∧
        (SplitOk o.metadata (s.st.st.out.map frameOf) (rest.map frameOf) →
          qFrames mask H P info o.metadata s <+: qFrames mask H P info o.metadata t)) x y := by
    intro x y hxy
    induction hxy with
    | nil t => exact .nil _
    | cons r _ ih => exact .cons (qFrames_ext mask H P info o.metadata _ _ r).2 ih
  exact this h

/-- … as a statement about what `run()` hands to the writer -/
theorem export_cut_prefix_quic (prior : Prior) (args : Args) (fk : Option (List Keylog.Key))
    (xs : List (Item Keylog.Key)) (n : Nat) (outCut outFull : List Pipeline.OutPkt)
    (hc : framesFrom mask H P prior args fk (xs.take n) info = .ok outCut)
    (hf : framesFrom mask H P prior args fk xs info = .ok outFull) :
    ∃ (tc tf : List Pipeline.OutPkt) (cut full : List (List Pipeline.OutPkt)),
      outCut = tc ++ cut.flatten ∧ outFull = tf ++ full.flatten ∧ ListExt CutRel cut full := by
  obtain ⟨o, ho⟩ := framesFrom_ok_opts mask H P info prior args fk xs outFull hf
  rw [framesFrom_ok_quic mask H P info prior args fk (xs.take n) o ho] at hc
  rw [framesFrom_ok_quic mask H P info prior args fk xs o ho] at hf
  exact ⟨_, _, _, _, (Except.ok.inj hc).symm, (Except.ok.inj hf).symm, export_cut_prefix_quic_items mask H P info o fk xs n⟩

end C08
/-! ### where the entries of `output_buffer` come from -/
section Origin
open TLX.Quic TLX.Quic.Dissect

theorem extract_ok_ts (mask : MaskFn) (env : Env) (isServer : Bool) (guessed : Bytes) (ts : Nat) (d : Bytes) (fb : UInt8)
    (p : Quic.Pkt) (t : Option Nat)
    (h : (if isLong fb then extractLong mask env isServer ts d fb
          else extractShort mask env isServer guessed ts d fb) = .ok (p, t)) : p.ts = ts ∧ p.isServer = isServer := by
  split at h
  · unfold extractLong at h
    simp only [bind, Except.bind] at h
    repeat' split at h
    all_goals first
      | (simp only [Except.ok.injEq, Prod.mk.injEq] at h; obtain ⟨rfl, _⟩ := h; exact ⟨rfl, rfl⟩)
      | (simp at h)
  · unfold extractShort at h
    simp only [bind, Except.bind] at h
    repeat' split at h
    all_goals first
      | (simp only [Except.ok.injEq, Prod.mk.injEq] at h; obtain ⟨rfl, _⟩ := h; exact ⟨rfl, rfl⟩)
      | (simp at h)

/-- every packet object the dissector returns carries the capture time and the direction it was called with -/
theorem extract_pkts_ts (mask : MaskFn) (env : Env) (isServer : Bool) (guessed : Bytes) (ts : Nat) (d : Bytes) :
    ∀ p ∈ (extract mask env isServer guessed ts d).pkts, p.ts = ts ∧ p.isServer = isServer := by
  intro p hp
  unfold extract at hp
  split at hp
  · cases hp
  · split at hp
    · cases hp
    · split at hp
      · cases hp
      · rename_i q hq
        simp only [List.mem_singleton] at hp; subst hp
        exact extract_ok_ts mask env isServer guessed ts _ _ _ _ hq
      · rename_i q t hq
        simp only [List.mem_singleton] at hp; subst hp
        exact extract_ok_ts mask env isServer guessed ts _ _ _ _ hq


end Origin

section SessionOrigin
open TLX.Quic.Session TLX.Cipher
variable {σ : Type} (P : Params σ)

/-- `b` is `a` plus entries stamped with the time and direction of the packet object `p` -/
def Added (p : Quic.Pkt) (a b : List Quic.Session.Out) : Prop :=
  ∃ d, b = a ++ d ∧ ∀ e ∈ d, e.ts = p.ts ∧ e.isServer = p.isServer

theorem Added.refl (p : Quic.Pkt) (a : List Quic.Session.Out) : Added p a a := ⟨[], by simp, by intro e he; cases he⟩
theorem Added.trans {p : Quic.Pkt} {a b c : List Quic.Session.Out} (h1 : Added p a b) (h2 : Added p b c) : Added p a c := by
  obtain ⟨d1, rfl, e1⟩ := h1
  obtain ⟨d2, rfl, e2⟩ := h2
  exact ⟨d1 ++ d2, by simp, by intro e he; rcases List.mem_append.mp he with h | h; exact e1 e h; exact e2 e h⟩
theorem Added.of_eq {p : Quic.Pkt} {a b : List Quic.Session.Out} (h : b = a) : Added p a b := h ▸ Added.refl p a

theorem installGroups_out (s : St σ) (sel : SuiteSel) (kg : KeyGroups) : (installGroups s sel kg).out = s.out := by
  unfold installGroups
  cases kg.hs with
  | none => rfl
  | some hk =>
    obtain ⟨a, b⟩ := hk
    cases kg.app with
    | none => rfl
    | some ak => cases kg.early <;> rfl

theorem afterTls_out (s : St σ) : (afterTls P s).1.out = s.out := by
  unfold afterTls
  split
  · split
    · rename_i cr cs _ _
      unfold setTlsDecryptors
      cases selectSuite cs with
      | none => rfl
      | some sel =>
        simp only
        cases P.devQuicKeys sel s.version cr with
        | error e => rfl
        | ok kg => simp only; exact installGroups_out _ _ _
    · rfl
  · rfl

theorem handleCrypto_added (s : St σ) (p : Quic.Pkt) (f : Quic.Frame.Parsed) (c : CryptoIn) :
    Added p s.out (handleCrypto P s p f c).1.out := by
  unfold handleCrypto
  generalize P.tlsUpdate s.tls c = r
  obtain ⟨t, e⟩ := r
  cases e with
  | some e => exact Added.refl _ _
  | none =>
    simp only
    have h := afterTls_out P { s with tls := t }
    generalize afterTls P { s with tls := t } = r at h
    obtain ⟨s', e⟩ := r
    simp only at h
    cases e with
    | some e => exact Added.of_eq h
    | none =>
      refine ⟨[mkOut p f], ?_, by intro e he; simp only [List.mem_singleton] at he; subst he; exact ⟨rfl, rfl⟩⟩
      show s'.out ++ _ = _
      rw [h]

theorem handleFrame_added (s : St σ) (p : Quic.Pkt) (f : Quic.Frame.Parsed) : Added p s.out (handleFrame P s p f).1.out := by
  cases f <;> simp only [handleFrame]
  case crypto => exact handleCrypto_added P s p _ _
  case stream => exact ⟨[_], rfl, by intro e he; simp only [List.mem_singleton] at he; subst he; exact ⟨rfl, rfl⟩⟩
  case newConnectionId => split <;> exact Added.refl _ _
  all_goals exact Added.refl _ _

theorem handleFrames_added (s : St σ) (p : Quic.Pkt) (fs : List Quic.Frame.Parsed) :
    Added p s.out (handleFrames P s p fs).1.out := by
  induction fs generalizing s with
  | nil => exact Added.refl _ _
  | cons f fs ih =>
    simp only [handleFrames]
    have h := handleFrame_added P s p f
    generalize handleFrame P s p f = r at h
    obtain ⟨s', e⟩ := r
    cases e with
    | some e => exact h
    | none => exact h.trans (ih s')

theorem selectDecryptor_out (s : St σ) (p : Quic.Pkt) : (selectDecryptor P s p).1.out = s.out := by
  unfold selectDecryptor
  cases p.htype with
  | long => rfl
  | short =>
    simp only
    have hc : ∀ ph srv, (checkKeyEpoch P s ph srv).1.out = s.out := by
      intro ph srv
      unfold checkKeyEpoch extendGens
      have hf : (flipEpoch s ph srv).out = s.out := by unfold flipEpoch; split <;> split <;> rfl
      cases hd : (flipEpoch s ph srv).decApp with
      | none => simp only; exact hf
      | some gens =>
        simp only
        split
        · cases gens.getLast? with
          | none => exact hf
          | some d => cases (flipEpoch s ph srv).suite <;> exact hf
        · exact hf
    split
    · have := hc p.keyPhase p.isServer
      generalize checkKeyEpoch P s p.keyPhase p.isServer = r at this
      obtain ⟨s', e⟩ := r
      cases e <;> exact this
    · rfl

theorem setLargestPn_out (s : St σ) (p : Quic.Pkt) (pn : Bytes) : (setLargestPn s p pn).out = s.out := by
  unfold setLargestPn
  cases p.ptype.space with
  | none => rfl
  | some sp => simp only; unfold pnStore; split <;> rfl

theorem decryptPacket_added (s : St σ) (p : Quic.Pkt) : Added p s.out (decryptPacket P s p).1.out := by
  unfold decryptPacket
  have h0 := selectDecryptor_out P s p
  generalize selectDecryptor P s p = r at h0
  obtain ⟨s', e⟩ := r
  simp only at h0
  cases e with
  | error e => exact Added.of_eq h0
  | ok d? =>
    simp only
    rw [← h0]
    unfold decryptRest
    cases getFullPn s' p with
    | error e => exact Added.refl _ _
    | ok pn =>
      simp only
      cases assocData p with
      | error e => exact Added.refl _ _
      | ok aad =>
        simp only
        cases d? with
        | none => exact Added.refl _ _
        | some d =>
          simp only
          cases decDecrypt P d p.payload pn aad p.isServer with
          | error e => exact Added.refl _ _
          | ok pt =>
            simp only
            cases Quic.Frame.parseFrames pt with
            | none => exact Added.of_eq (setLargestPn_out s' p pn)
            | some fs =>
              have := handleFrames_added P (setLargestPn s' p pn) p fs
              rw [setLargestPn_out] at this
              exact this

/-- **one packet object through `handle_quic_packet`**: whatever is appended to `output_buffer` carries its time and
    direction -/
theorem stepPkt_added (s : St σ) (p : Quic.Pkt) : Added p s.out (stepPkt P s p).st.out := by
  have hafter : ∀ (s' : St σ) (c : Option PyErr), Added p s'.out (afterDecrypt P s' c p).st.out := by
    intro s' c
    unfold afterDecrypt
    split
    · split
      · exact Added.refl _ _
      · exact ⟨[_], rfl, by intro e he; simp only [List.mem_singleton] at he; subst he; exact ⟨rfl, rfl⟩⟩
    · split
      · exact Added.refl _ _
      · split
        · split
          · exact Added.refl _ _
          · simp only [learnCids]; split <;> exact Added.refl _ _
        · exact Added.refl _ _
  unfold stepPkt
  split
  · exact (decryptPacket_added P s p).trans (hafter _ _)
  · exact hafter s none

end SessionOrigin

section DatagramOrigin
open TLX.Quic.Session TLX.Cipher
variable (mask : Quic.Dissect.MaskFn) (H : Crypto.Prims)

/-- `b` is `a` plus entries stamped with capture time `ts` and direction `srv` -/
def AddedK (ts : Nat) (srv : Bool) (a b : List Quic.Session.Out) : Prop :=
  ∃ d, b = a ++ d ∧ ∀ e ∈ d, e.ts = ts ∧ e.isServer = srv

theorem AddedK.refl (ts : Nat) (srv : Bool) (a : List Quic.Session.Out) : AddedK ts srv a a :=
  ⟨[], by simp, by intro e he; cases he⟩
theorem AddedK.trans {ts : Nat} {srv : Bool} {a b c : List Quic.Session.Out} (h1 : AddedK ts srv a b)
    (h2 : AddedK ts srv b c) : AddedK ts srv a c := by
  obtain ⟨d1, rfl, e1⟩ := h1
  obtain ⟨d2, rfl, e2⟩ := h2
  exact ⟨d1 ++ d2, by simp, by intro e he; rcases List.mem_append.mp he with h | h; exact e1 e h; exact e2 e h⟩

theorem handleQuicPackets_added (P : Params Tls) (ts : Nat) (srv : Bool) (s : St Tls) (ps : List Quic.Pkt)
    (hp : ∀ p ∈ ps, p.ts = ts ∧ p.isServer = srv) : AddedK ts srv s.out (handleQuicPackets P s ps).1.out := by
  induction ps generalizing s with
  | nil => exact AddedK.refl _ _ _
  | cons p ps ih =>
    obtain ⟨h1, h2⟩ := hp p (List.mem_cons_self ..)
    have hstep : AddedK ts srv s.out (stepPkt P s p).st.out := by
      obtain ⟨d, hd, he⟩ := stepPkt_added P s p
      exact ⟨d, hd, fun e hm => by rw [← h1, ← h2]; exact he e hm⟩
    simp only [handleQuicPackets]
    cases (stepPkt P s p).escaped with
    | some e => exact hstep
    | none => exact hstep.trans (ih _ (fun q hq => hp q (List.mem_cons_of_mem _ hq)))

theorem handleTurn_added (P : Params Tls) (ts : Nat) (srv : Bool) (x : LoopSt) (ps : List Quic.Pkt)
    (hp : ∀ p ∈ ps, p.ts = ts ∧ p.isServer = srv) : AddedK ts srv x.1.out (handleTurn P x ps).1.out := by
  obtain ⟨s, e⟩ := x
  unfold handleTurn
  cases e with
  | some e => exact AddedK.refl _ _ _
  | none => exact handleQuicPackets_added P ts srv s ps hp

theorem dissectLoop_added (P : Params Tls) (srv : Bool) (guessed : Bytes) (ts : Nat) (d : Bytes) :
    ∀ x : LoopSt, AddedK ts srv x.1.out
      (Quic.Dissect.dissectLoop mask (fun x : LoopSt => envOf x.1) (handleTurn P) srv guessed ts x d).1.1.out := by
  induction hn : d.length using Nat.strongRecOn generalizing d with
  | _ n ih =>
    intro x
    by_cases hd : d = []
    · subst hd
      rw [Lemmas.QuicDissect.dissectLoop_nil]; exact AddedK.refl _ _ _
    · rw [Lemmas.QuicDissect.dissectLoop_cons _ _ _ _ _ _ _ _ hd]
      have hlt := Quic.Dissect.extract_rest_lt mask (envOf x.1) srv guessed ts d
        (by intro h; exact hd (List.eq_nil_of_length_eq_zero h))
      exact (handleTurn_added P ts srv x _ (extract_pkts_ts mask (envOf x.1) srv guessed ts d)).trans
        (ih _ (by rw [← hn]; exact hlt) _ rfl _)

theorem feedPre_out (P : Params Tls) (s : St Tls) (dcid : Bytes) (v : Quic.Session.Version) : (feedPre H P s dcid v).out = s.out := by
  have hw := feedPre_wo H P s.out (noOut s) dcid v
  rw [wo_noOut] at hw
  have h0 : (feedPre H P (noOut s) dcid v).out = [] := by
    unfold feedPre handlePacketPre latchVersion setInitialDecryptor stampVer noOut
    simp only
    repeat' split
    all_goals rfl
  rw [hw]; simp [wo, h0]

/-- **one datagram through `handle_packet`**: what is appended to `output_buffer` carries the datagram's capture time (and
    one direction: the one `packet_isserver` decided for the datagram) -/
theorem handleDatagram_added (P : Params Tls) (s : St Tls) (fromClient : Bool) (dcid : Bytes) (v : Quic.Session.Version) (ts : Nat)
    (payload : Bytes) :
    ∃ srv, AddedK ts srv s.out (handleDatagram mask H P s fromClient dcid v ts payload).1.out := by
  unfold handleDatagram
  refine ⟨packetIsServer (feedPre H P s dcid v) fromClient dcid, ?_⟩
  have := dissectLoop_added mask P (packetIsServer (feedPre H P s dcid v) fromClient dcid) dcid ts payload
    (feedPre H P s dcid v, none)
  simp only [feedPre_out] at this
  exact this

end DatagramOrigin

/-! ### what every QUIC session of a run satisfies -/
section Inv
variable {κ τ ο : Type}

theorem quicLoop_inv (M : QuicMachine κ τ ο) (o : Opts) (Q : QuicSess τ → Prop) (x : QIn κ)
    (hnew : Q (quicNew M o x.kl x.h x.p))
    (hfeed : ∀ s c, Q s → quicTake M x.h x.p s = some c → Q { s with st := M.feed s.st x.kl x.p c x.h.ver })
    (ss : List (QuicSess τ)) (hss : ∀ s ∈ ss, Q s) : ∀ s ∈ quicLoop M o x.kl x.h ss x.p, Q s := by
  induction ss with
  | nil =>
    intro s hs
    simp only [quicLoop] at hs
    split at hs
    · cases hs
    · simp only [List.mem_singleton] at hs; subst hs; exact hnew
  | cons a rest ih =>
    intro s hs
    simp only [quicLoop] at hs
    split at hs
    · rename_i c hc
      rcases List.mem_cons.mp hs with rfl | h
      · exact hfeed a c (hss a (List.mem_cons_self ..)) hc
      · exact hss s (List.mem_cons_of_mem _ h)
    · rcases List.mem_cons.mp hs with rfl | h
      · exact hss _ (List.mem_cons_self ..)
      · exact ih (fun t ht => hss t (List.mem_cons_of_mem _ ht)) s h

/-- an invariant of the QUIC session list: true of every new session, kept by every `handle_packet` call the loop makes -/
theorem quicRun_inv (M : QuicMachine κ τ ο) (o : Opts) (Q : QuicSess τ → Prop) (l : List (QIn κ))
    (hnew : ∀ x ∈ l, Q (quicNew M o x.kl x.h x.p))
    (hfeed : ∀ x ∈ l, ∀ s c, Q s → quicTake M x.h x.p s = some c → Q { s with st := M.feed s.st x.kl x.p c x.h.ver })
    (ss : List (QuicSess τ)) (hss : ∀ s ∈ ss, Q s) : ∀ s ∈ quicRun M o ss l, Q s := by
  induction l generalizing ss with
  | nil => exact hss
  | cons x xs ih =>
    simp only [quicRun, List.foldl_cons]
    apply ih (fun y hy => hnew y (List.mem_cons_of_mem _ hy)) (fun y hy => hfeed y (List.mem_cons_of_mem _ hy))
    unfold quicHandleH
    split
    · exact hss
    · exact quicLoop_inv M o Q x (hnew x (List.mem_cons_self ..)) (hfeed x (List.mem_cons_self ..)) ss hss

end Inv

section SessOk
variable (mask : Quic.Dissect.MaskFn) (H : Crypto.Prims) (P : Cipher.Prims) (info : Nat → Pipeline.Info)

/-- the datagram `x` was given to the session `s` by the loop's rule: it runs between the session's two endpoints, or it
    names a non-empty connection ID (long header: its DCID; short header: a prefix of the bytes after the first) -/
def Routed (s : QuicSess QConn) (x : QIn Keylog.Key) : Prop :=
  s.matches x.p = true ∨ ∃ c : Bytes, c ≠ [] ∧ ((∃ v, x.h = .long c v) ∨ (x.h = .short ∧ c <+: x.p.payload.drop 1))

/-- the facts about a QUIC session object that the export reads: the options as given; the roles decided on the datagram
    `x0` that created it (`rolesOf`: the side whose port is a server port is the server, else the DESTINATION of `x0`); the
    MAC addresses and IP version of `x0`; and every entry of `output_buffer` carries the capture time of a datagram of the
    capture's QUIC view that the loop gave to this session -/
structure QOk (o : Opts) (view : List (QIn Keylog.Key)) (s : QuicSess QConn) : Prop where
  opts : s.st.opts = o
  server : s.st.server = s.server
  client : s.st.client = s.client
  first : ∃ x0 ∈ view, (s.server, s.client) = rolesOf o.ports x0.p ∧ s.st.ipv6 = (info x0.p.tag).ipv6 ∧
    s.st.serverMac = (if o.ports.contains (x0.p.src.port : Int) then (info x0.p.tag).srcMac else (info x0.p.tag).dstMac) ∧
    s.st.clientMac = (if o.ports.contains (x0.p.src.port : Int) then (info x0.p.tag).dstMac else (info x0.p.tag).srcMac)
  outs : ∀ e ∈ s.st.st.out, ∃ x ∈ view, e.ts = (info x.p.tag).ts ∧ Routed s x

theorem feed_added (c : QConn) (kl : List Keylog.Key) (p : Pkt) (dcid : Bytes) (v : MainLoop.Version) :
    ∀ e ∈ ((quicMachine mask H P info).feed c kl p dcid v).st.out, e ∈ c.st.out ∨ e.ts = (info p.tag).ts := by
  intro e he
  simp only [quicMachine] at he
  cases hr : c.raised with
  | some r => rw [hr] at he; exact .inl he
  | none =>
    rw [hr] at he
    simp only at he
    obtain ⟨srv, d, hd, hk⟩ := handleDatagram_added mask H (params H P kl) c.st (p.src == c.client) dcid (sver v)
      (info p.tag).ts p.payload
    rw [hd] at he
    rcases List.mem_append.mp he with h | h
    · exact .inl h
    · exact .inr (hk e h).1

theorem routed_new (o : Opts) (x : QIn Keylog.Key) :
    Routed (quicNew (quicMachine mask H P info) o x.kl x.h x.p) x := by
  left
  simp only [quicNew, Sess.matches, rolesOf]
  split <;> simp

theorem routed_of_take (s : QuicSess QConn) (x : QIn Keylog.Key) (c : Bytes)
    (h : quicTake (quicMachine mask H P info) x.h x.p s = some c) : Routed s x := by
  unfold quicTake at h
  cases hm : cidMatch ((quicMachine mask H P info).clientCids s.st) ((quicMachine mask H P info).serverCids s.st)
      (s.side x.p) x.h x.p.payload with
  | none =>
    rw [hm] at h
    simp only at h
    split at h
    · rename_i hmt; exact .inl hmt
    · cases h
  | some c' =>
    right
    unfold cidMatch at hm
    cases hh : x.h with
    | tooShort => rw [hh] at hm; cases hm
    | long d v =>
      rw [hh] at hm
      simp only at hm
      split at hm
      · rename_i hc
        refine ⟨d, ?_, .inl ⟨v, rfl⟩⟩
        intro hd; rw [hd] at hc; simp at hc
      · cases hm
    | short =>
      rw [hh] at hm
      simp only at hm
      obtain ⟨_, c2, c3⟩ := shortPick_some hm
      exact ⟨c', c2, .inr ⟨rfl, c3⟩⟩

theorem qOk_all (o : Opts) (fk : Option (List Keylog.Key)) (xs : List (Item Keylog.Key)) :
    ∀ s ∈ quicSess mask H P info o fk xs, QOk info o (quicView o (fk.getD []) xs) s := by
  apply quicRun_inv (quicMachine mask H P info) o (QOk info o (quicView o (fk.getD []) xs))
  · intro x hx
    obtain ⟨a1, a2, a3, a4, a5, a6, _⟩ := feed_keeps mask H P info ((quicMachine mask H P info).new o x.p) x.kl x.p
      x.h.dcid x.h.ver
    refine ⟨a1, a2, a3, ⟨x, hx, rfl, a6, a4, a5⟩, ?_⟩
    intro e he
    have he' : e ∈ ((quicMachine mask H P info).feed ((quicMachine mask H P info).new o x.p) x.kl x.p x.h.dcid
        x.h.ver).st.out := he
    rcases feed_added mask H P info _ _ _ _ _ e he' with h | h
    · exact absurd h (by simp [quicMachine, Quic.Session.St.init])
    · exact ⟨x, hx, h, routed_new mask H P info o x⟩
  · intro x hx s c hs htake
    obtain ⟨a1, a2, a3, a4, a5, a6, _⟩ := feed_keeps mask H P info s.st x.kl x.p c x.h.ver
    obtain ⟨b1, b2, b3, ⟨x0, hx0, b4, b5, b6, b7⟩, b8⟩ := hs
    refine ⟨a1.trans b1, a2.trans b2, a3.trans b3, ⟨x0, hx0, b4, a6.trans b5, a4.trans b6, a5.trans b7⟩, ?_⟩
    intro e he
    have he' : e ∈ ((quicMachine mask H P info).feed s.st x.kl x.p c x.h.ver).st.out := he
    rcases feed_added mask H P info _ _ _ _ _ e he' with h | h
    · obtain ⟨y, hy, h1, h2⟩ := b8 e h
      exact ⟨y, hy, h1, h2⟩
    · exact ⟨x, hx, h, routed_of_take mask H P info s x c htake⟩
  · intro s hs; cases hs

end SessOk
/-! ### C10: ports -/
section C10
variable (mask : Quic.Dissect.MaskFn) (H : Crypto.Prims) (P : Cipher.Prims) (info : Nat → Pipeline.Info)

theorem classify_quic (o : Opts) (it : Item Keylog.Key) (p : Pkt) (b0 : UInt8) (r : Bytes)
    (h : classify o it = .quic p b0 r) :
    it = .frame p ∧ p.l4 = .udp ∧ p.payload = b0 :: r ∧ (((b0.toNat &&& 0x40) >>> 6 = 1) ∨ o.greasy = true) := by
  cases it with
  | dsb ks => simp [classify] at h
  | frame q =>
    cases hl : q.l4 with
    | tcp =>
      simp only [classify, hl] at h
      repeat' split at h
      all_goals cases h
    | other => simp only [classify, hl] at h; cases h
    | udp =>
      cases hp : q.payload with
      | nil => simp only [classify, hl, hp] at h; cases h
      | cons c cs =>
        simp only [classify, hl, hp] at h
        split at h
        · cases h
        · split at h
          · rename_i hfix
            simp only [Class.quic.injEq] at h
            obtain ⟨rfl, rfl, rfl⟩ := h
            exact ⟨rfl, hl, hp, by simpa using hfix⟩
          · cases h

/-- what reaches `handle_quic_packet`: UDP datagrams with a non-empty payload whose first byte has the QUIC fixed bit (or
    any first byte, with `-g`) — the main loop does NOT look at the ports of a UDP datagram (only `rolesOf` does, afterwards) -/
theorem mem_quicView (o : Opts) (kl : List Keylog.Key) (xs : List (Item Keylog.Key)) (x : QIn Keylog.Key)
    (h : x ∈ quicView o kl xs) :
    Item.frame x.p ∈ xs ∧ x.p.l4 = .udp ∧ ∃ b0 r, x.p.payload = b0 :: r ∧ x.h = parseHeader1 b0 r ∧
      (((b0.toNat &&& 0x40) >>> 6 = 1) ∨ o.greasy = true) := by
  induction xs generalizing kl with
  | nil => cases h
  | cons it rest ih =>
    simp only [quicView] at h
    split at h
    · obtain ⟨a, b⟩ := ih _ h
      exact ⟨List.mem_cons_of_mem _ a, b⟩
    · rename_i p b0 r hc
      rcases List.mem_cons.mp h with rfl | h'
      · obtain ⟨c1, c2, c3, c4⟩ := classify_quic o it p b0 r hc
        exact ⟨by rw [c1]; exact List.mem_cons_self .., c2, b0, r, c3, rfl, c4⟩
      · obtain ⟨a, b⟩ := ih _ h'
        exact ⟨List.mem_cons_of_mem _ a, b⟩
    · obtain ⟨a, b⟩ := ih _ h
      exact ⟨List.mem_cons_of_mem _ a, b⟩

/-- **C10, whole program, QUIC, items level.** Every frame of every exported QUIC session runs between the client's
    ORIGINAL endpoint and the server's address with the exported server port: the original port when
    `keep_original_ports` (no `-m`), else the port the map lists for it, else 8080; MAC addresses and IP version are those
    of the datagram `x0` that created the session. The roles are decided on `x0` (`rolesOf`): the side whose port is in
    the server-port list is the server; when NEITHER port is in the list the session still exists — QUIC is recognised by
    the header bits of the UDP payload (`mem_quicView`), not by the ports — and the DESTINATION of `x0` is taken for the
    server. -/
theorem export_ports_quic_items (o : Opts) (fk : Option (List Keylog.Key)) (xs : List (Item Keylog.Key)) :
    (∀ s ∈ quicSess mask H P info o fk xs, ∀ pkt ∈ qFrames mask H P info o.metadata s,
      let sp := TcpOut.exportedServerPort o.keep (Pipeline.portmapFn o.portmap) s.server.port
      ((pkt.src = s.client ∧ pkt.dst = ⟨s.server.ip, sp⟩) ∨ (pkt.src = ⟨s.server.ip, sp⟩ ∧ pkt.dst = s.client)) ∧
      (o.keep = true → sp = s.server.port) ∧
      (o.keep = false → sp = ((Pipeline.portmapFn o.portmap) s.server.port).getD 8080)) ∧
    (∀ s ∈ quicSess mask H P info o fk xs, ∃ x0 ∈ quicView o (fk.getD []) xs, Item.frame x0.p ∈ xs ∧ x0.p.l4 = .udp ∧
      (s.server, s.client) = rolesOf o.ports x0.p ∧
      (o.ports.contains (x0.p.src.port : Int) = true → s.server = x0.p.src ∧ s.client = x0.p.dst) ∧
      (o.ports.contains (x0.p.src.port : Int) = false → s.server = x0.p.dst ∧ s.client = x0.p.src)) := by
  refine ⟨?_, ?_⟩
  · intro s hs pkt hpkt sp
    have hok := qOk_all mask H P info o fk xs s hs
    refine ⟨?_, by intro hk; simp [sp, TcpOut.exportedServerPort, hk], by intro hk; simp [sp, TcpOut.exportedServerPort, hk]⟩
    obtain ⟨_, _, _, _, hq, _⟩ := Props.C02Pipeline.quic_out_addressed o.metadata s.st pkt hpkt
    simp only [hok.opts, hok.server, hok.client] at hq
    rcases hq with ⟨a, b, _, _⟩ | ⟨a, b, _, _⟩
    · exact .inr ⟨a, b⟩
    · exact .inl ⟨a, b⟩
  · intro s hs
    obtain ⟨x0, hx0, hr, _⟩ := (qOk_all mask H P info o fk xs s hs).first
    obtain ⟨hm, hu, _⟩ := mem_quicView o _ xs x0 hx0
    refine ⟨x0, hx0, hm, hu, hr, ?_, ?_⟩
    · intro hc; simp only [rolesOf, hc, if_true, Prod.mk.injEq] at hr; exact hr
    · intro hc; simp only [rolesOf, hc, Bool.false_eq_true, if_false, Prod.mk.injEq] at hr; exact hr

end C10

/-! ### C07: times and ends -/
section C07
variable (mask : Quic.Dissect.MaskFn) (H : Crypto.Prims) (P : Cipher.Prims) (info : Nat → Pipeline.Info)

/-- **C07, whole program, QUIC, items level.** For every QUIC session `s` (created by the datagram `x0` of the capture's
    QUIC view) and every exported frame: no TCP fields, the IP version of `x0`, the two ends as `x0` shows them — frames
    from the server carry the server's IP and the MAC `x0` has on the server's side, and so on —, and the CAPTURE TIME of a
    datagram `x` of the capture that the loop gave to this session (`Routed`: its endpoints are the session's, or it names
    a non-empty connection ID) and in which the session found an exported frame. -/
theorem export_time_and_ends_quic_items (o : Opts) (fk : Option (List Keylog.Key)) (xs : List (Item Keylog.Key)) :
    ∀ s ∈ quicSess mask H P info o fk xs, ∃ x0 ∈ quicView o (fk.getD []) xs,
      (s.server, s.client) = rolesOf o.ports x0.p ∧
      ∀ pkt ∈ qFrames mask H P info o.metadata s,
        pkt.flags = 0 ∧ pkt.seq = 0 ∧ pkt.ack = 0 ∧ pkt.udp = true ∧ pkt.ipv6 = (info x0.p.tag).ipv6 ∧
        (let sMac := if o.ports.contains (x0.p.src.port : Int) then (info x0.p.tag).srcMac else (info x0.p.tag).dstMac
         let cMac := if o.ports.contains (x0.p.src.port : Int) then (info x0.p.tag).dstMac else (info x0.p.tag).srcMac
         (pkt.src.ip = s.server.ip ∧ pkt.dst = s.client ∧ pkt.srcMac = sMac ∧ pkt.dstMac = cMac) ∨
         (pkt.src = s.client ∧ pkt.dst.ip = s.server.ip ∧ pkt.srcMac = cMac ∧ pkt.dstMac = sMac)) ∧
        ∃ x ∈ quicView o (fk.getD []) xs, pkt.ts = (info x.p.tag).ts ∧ Routed s x := by
  intro s hs
  have hok := qOk_all mask H P info o fk xs s hs
  obtain ⟨x0, hx0, hr, h6, hsm, hcm⟩ := hok.first
  refine ⟨x0, hx0, hr, ?_⟩
  intro pkt hpkt
  obtain ⟨a1, a2, a3, a4, a5, e, he, _, hts⟩ := Props.C02Pipeline.quic_out_addressed o.metadata s.st pkt hpkt
  have hudp : pkt.udp = true := by
    have hp : pkt ∈ connOut o.metadata s.st := hpkt
    rw [connOut_eq] at hp
    obtain ⟨d, _, rfl⟩ := List.mem_map.mp hp
    unfold addressed; split <;> rfl
  refine ⟨a1, a2, a3, hudp, a4.trans h6, ?_, ?_⟩
  · simp only [hok.server, hok.client, hsm, hcm] at a5
    rcases a5 with ⟨b1, b2, b3, b4⟩ | ⟨b1, b2, b3, b4⟩
    · exact .inl ⟨by rw [b1], b2, b3, b4⟩
    · exact .inr ⟨b1, by rw [b2], b3, b4⟩
  · obtain ⟨x, hx, h1, h2⟩ := hok.outs e he
    exact ⟨x, hx, by rw [← hts]; exact h1, h2⟩

end C07

/-! ### C13: `-a` only adds -/
section C13
variable (mask : Quic.Dissect.MaskFn) (H : Crypto.Prims) (P : Cipher.Prims) (info : Nat → Pipeline.Info)
open TLX.Quic.UdpOut

/-- the session object with `metadata` set to `b` in the options it stores -/
def qsessMeta (b : Bool) (s : QuicSess QConn) : QuicSess QConn :=
  { s with st := { s.st with opts := optMeta s.st.opts b } }

theorem feed_meta (b : Bool) (c : QConn) (kl : List Keylog.Key) (p : Pkt) (d : Bytes) (v : MainLoop.Version) :
    (quicMachine mask H P info).feed { c with opts := optMeta c.opts b } kl p d v =
      { (quicMachine mask H P info).feed c kl p d v with
        opts := optMeta ((quicMachine mask H P info).feed c kl p d v).opts b } := by
  obtain ⟨o', sv, cl, sm, cm, v6, st, raised⟩ := c
  cases raised <;> rfl

theorem quicLoop_meta (o : Opts) (b : Bool) (kl : List Keylog.Key) (h : Hdr) (ss : List (QuicSess QConn)) (p : Pkt) :
    quicLoop (quicMachine mask H P info) (optMeta o b) kl h (ss.map (qsessMeta b)) p =
      (quicLoop (quicMachine mask H P info) o kl h ss p).map (qsessMeta b) := by
  induction ss with
  | nil =>
    simp only [quicLoop, List.map_nil]
    split
    · rfl
    · simp only [List.map_cons, List.map_nil, quicNew, qsessMeta]
      congr 1
  | cons s rest ih =>
    simp only [List.map_cons, quicLoop]
    have ht : quicTake (quicMachine mask H P info) h p (qsessMeta b s) = quicTake (quicMachine mask H P info) h p s := rfl
    rw [ht]
    cases quicTake (quicMachine mask H P info) h p s with
    | some c =>
      simp only [List.map_cons]
      congr 1
      simp only [qsessMeta]
      rw [feed_meta]
    | none =>
      simp only [List.map_cons]
      rw [ih]

theorem quicView_optMeta (o : Opts) (b : Bool) (kl : List Keylog.Key) (xs : List (Item Keylog.Key)) :
    quicView (optMeta o b) kl xs = quicView o kl xs := by
  induction xs generalizing kl with
  | nil => rfl
  | cons it rest ih =>
    simp only [quicView, classify_optMeta]
    split <;> simp [ih]

theorem quicSess_meta (o : Opts) (b : Bool) (fk : Option (List Keylog.Key)) (xs : List (Item Keylog.Key)) :
    quicSess mask H P info (optMeta o b) fk xs = (quicSess mask H P info o fk xs).map (qsessMeta b) := by
  unfold quicSess
  rw [quicView_optMeta]
  have : ∀ (l : List (QIn Keylog.Key)) (ss : List (QuicSess QConn)),
      quicRun (quicMachine mask H P info) (optMeta o b) (ss.map (qsessMeta b)) l =
        (quicRun (quicMachine mask H P info) o ss l).map (qsessMeta b) := by
    intro l
    induction l with
    | nil => intro ss; rfl
    | cons x rest ih =>
      intro ss
      simp only [quicRun, List.foldl_cons] at ih ⊢
      have hstep : quicHandleH (quicMachine mask H P info) (optMeta o b) x.kl x.h (ss.map (qsessMeta b)) x.p =
          (quicHandleH (quicMachine mask H P info) o x.kl x.h ss x.p).map (qsessMeta b) := by
        unfold quicHandleH
        split
        · rfl
        · exact quicLoop_meta mask H P info o b x.kl x.h ss x.p
      rw [hstep]
      exact ih _
  exact this _ []

/-- **C13, whole program, QUIC, items level.** The same capture, key log and options, once without and once with `-a`:
    the QUIC sessions correspond one to one in the same order and are the SAME objects up to the stored flag (the
    demultiplexer, the dissector and the session never read it: same `output_buffer`). For each session, with `F` the frames
    of its `output_buffer` as the builder reads them: both exports are `build` of `F`, addressed the same way; and the
    groups of the export without `-a` are the groups of the export with `-a` RESTRICTED to STREAM data, then regrouped
    (`C02Out.meta_regroup`: groups that become empty vanish, neighbours with equal (time, direction) merge). In particular
    the exported STREAM bytes are the same, in the same order. -/
theorem export_meta_only_adds_quic_items (o : Opts) (fk : Option (List Keylog.Key)) (xs : List (Item Keylog.Key)) :
    quicSess mask H P info (optMeta o true) fk xs = (quicSess mask H P info (optMeta o false) fk xs).map (qsessMeta true) ∧
    (quicFrames mask H P info (optMeta o false) fk xs).length = (quicFrames mask H P info (optMeta o true) fk xs).length ∧
    ∀ s ∈ quicSess mask H P info (optMeta o false) fk xs,
      let F := s.st.st.out.map frameOf
      qFrames mask H P info false s = (build false F).map (addressed s.st) ∧
      qFrames mask H P info true (qsessMeta true s) = (build true F).map (addressed s.st) ∧
      chunks false F = regroup (restrict (·.1) (chunks true F)) ∧
      ((build false F).map (·.payload)).flatten =
        ((chunks true F).flatMap fun g => (g.2.filter (·.1)).map (·.2)).flatten := by
  have hs : quicSess mask H P info (optMeta o true) fk xs =
      (quicSess mask H P info (optMeta o false) fk xs).map (qsessMeta true) := by
    have := quicSess_meta mask H P info (optMeta o false) true fk xs
    exact this
  refine ⟨hs, by simp only [quicFrames, List.length_map, hs], ?_⟩
  intro s _ F
  have hreg := Props.C02Out.meta_regroup F
  refine ⟨connOut_eq false s.st, ?_, hreg, ?_⟩
  · show connOut true (qsessMeta true s).st = _
    rw [connOut_eq]
    rfl
  · have hL : ((build false F).map (·.payload)).flatten = ((F.filter (isExp false)).map (·.data)).flatten := by
      rw [← List.flatMap_def, Props.C02Out.out_bytes_from_frames, filterMap_exported]
    have hG : ∀ gs : List Group, (gs.map fun g => (g.1, g.2.map chunkOf)).flatMap
        (fun g => (g.2.filter (·.1)).map (·.2)) = (((gs.flatMap (·.2)).map chunkOf).filter (·.1)).map (·.2) := by
      intro gs
      induction gs with
      | nil => rfl
      | cons g gs ih => simp [ih, List.filter_append]
    have hR : (chunks true F).flatMap (fun g => (g.2.filter (·.1)).map (·.2)) = (F.filter (isExp false)).map (·.data) := by
      unfold chunks
      rw [hG, (Props.C02Out.runs_spec true F).1]
      have := Props.C02Out.stream_chunks F
      show ((List.filter (isExp true) F).map chunkOf |>.filter (·.1)).map (·.2) = _
      rw [this, List.map_map]
      rfl
    rw [hL, hR]

end C13
end TLX.Props.ExportPropsQuic
