/-
C02 (CRYPTO stream part) — the TLS handshake messages of a QUIC encryption level are recovered from CRYPTO frames
delivered in ANY order, with exact duplicates anywhere, cut at arbitrary points; the eight (direction, packet type)
spaces do not influence each other.

Model: `TLX.Quic.CryptoStream` (QuicTlsSession.update_session + handle_buffer); independent meaning of the stream:
`TLX.Spec.TlsHandshakeFraming` (RFC 8446 §4 framing, RFC 9000 §19.6 frames of a cut).

The unchanged code does NOT satisfy the full statement: `len(buffer) <= 4: break` leaves a *last* message with an
empty body (exactly 4 bytes) in the buffer until more bytes arrive. `crypto_any_order_statement` is the full
statement, `crypto_any_order_counterexample` refutes it (stream `0e 00 00 00`), `crypto_any_order_partial` proves it
for streams that do not end in an empty-bodied message, and `crypto_any_order_upto_empty_tail` says unconditionally
that the empty-bodied last message is the only thing that can be missing.
-/
import TLX.Lemmas.CryptoStream
namespace TLX.Props.C02Crypto
open TLX TLX.Quic.CryptoStream TLX.Spec.TlsHandshakeFraming TLX.Lemmas.CryptoStream

/-- what a delivered frame object says on the wire -/
def wire (f : CFrame) : Wire := (f.offset, f.crypto, f.clen)

/-- `dl` is a delivery of the cut `frs`: the frames of the cut in ANY order (`List.Perm`) with any number of exact
    duplicates `dups` of frames of the cut mixed in anywhere; `id`s name objects -/
structure Delivery (frs : List Bytes) (dl : List CFrame) : Prop where
  perm : ∃ dups : List Wire, (dl.map wire).Perm (framesOf 0 frs ++ dups) ∧ ∀ d ∈ dups, d ∈ framesOf 0 frs
  ids : IdsOK dl

/-- the stream does not end in a handshake message with an empty body -/
def NoEmptyTail (S : Bytes) : Prop :=
  ¬ (WholeMessages S ∧ ∃ m, (frameHs S).getLast? = some m ∧ m.length = 4)

/-- what C02 asks of the CRYPTO stream of space `k` after the deliveries `dl` of the stream `S` -/
def Recovered (raises : Bytes → Bool) (k : Key) (S : Bytes) (dl : List CFrame) : Prop :=
  let r := run raises State.init (dl.map fun f => (k, f))
  -- the messages handed on are exactly the RFC framing of S
  r.2 = frameHs S ∧
  -- the bytes given to the message loop are exactly S, each byte once
  r.2.flatten ++ (r.1.ks k).buf = S ∧ (r.1.ks k).off = S.length ∧
  -- after any prefix of the deliveries: a prefix of that
  ∀ n, (run raises State.init ((dl.take n).map fun f => (k, f))).2 <+: frameHs S

/-- the full statement -/
def crypto_any_order_statement : Prop :=
  ∀ (raises : Bytes → Bool) (k : Key) (S : Bytes) (frs : List Bytes) (dl : List CFrame),
    IsCut S frs → Delivery frs dl → (∀ m ∈ frameHs S, raises m = false) → Recovered raises k S dl

/-! ### from the wire view to fragments -/

theorem bnd_zero (frs : List Bytes) : bnd frs 0 = 0 := by simp [bnd]

theorem bnd_cons_succ (c : Bytes) (cs : List Bytes) (i : Nat) : bnd (c :: cs) (i + 1) = c.length + bnd cs i := by
  simp [bnd]

theorem mem_framesOf (off : Nat) (frs : List Bytes) (w : Wire) :
    w ∈ framesOf off frs ↔ ∃ i c, frs[i]? = some c ∧ w = (off + bnd frs i, c, c.length) := by
  induction frs generalizing off with
  | nil => simp [framesOf]
  | cons c cs ih =>
    simp only [framesOf, List.mem_cons, ih]
    constructor
    · rintro (rfl | ⟨i, c', hi, rfl⟩)
      · exact ⟨0, c, by simp, by simp [bnd_zero]⟩
      · exact ⟨i + 1, c', by simpa using hi, by rw [bnd_cons_succ]; simp [Nat.add_assoc]⟩
    · rintro ⟨i, c', hi, rfl⟩
      cases i with
      | zero =>
        left
        simp only [List.getElem?_cons_zero, Option.some.injEq] at hi
        subst hi
        simp [bnd_zero]
      | succ i =>
        right
        exact ⟨i, c', by simpa using hi, by rw [bnd_cons_succ]; simp [Nat.add_assoc]⟩

theorem delivery_frag {frs : List Bytes} {dl : List CFrame} (h : Delivery frs dl) : ∀ f ∈ dl, IsFrag frs f := by
  obtain ⟨⟨dups, hperm, hdups⟩, _⟩ := h
  intro f hf
  have hw : wire f ∈ framesOf 0 frs ++ dups := hperm.mem_iff.mp (List.mem_map_of_mem hf)
  have hw' : wire f ∈ framesOf 0 frs := by
    rcases List.mem_append.mp hw with h | h
    · exact h
    · exact hdups _ h
  obtain ⟨i, c, hi, he⟩ := (mem_framesOf 0 frs (wire f)).mp hw'
  simp only [wire, Prod.mk.injEq, Nat.zero_add] at he
  obtain ⟨h1, h2, h3⟩ := he
  exact ⟨i, by rw [h2]; exact hi, h1, by rw [h3, h2]⟩

theorem delivery_complete {frs : List Bytes} {dl : List CFrame} (h : Delivery frs dl) :
    ∀ i, i < frs.length → ∃ f ∈ dl, f.offset = bnd frs i := by
  obtain ⟨⟨dups, hperm, _⟩, _⟩ := h
  intro i hi
  have hw : (bnd frs i, frs[i], (frs[i]).length) ∈ framesOf 0 frs :=
    (mem_framesOf 0 frs _).mpr ⟨i, frs[i], List.getElem?_eq_getElem hi, by simp⟩
  have hw' := hperm.mem_iff.mpr (List.mem_append_left dups hw)
  obtain ⟨f, hf, he⟩ := List.mem_map.mp hw'
  refine ⟨f, hf, ?_⟩
  simp only [wire, Prod.mk.injEq] at he
  exact he.1

theorem ids_take {dl : List CFrame} (h : IdsOK dl) (n : Nat) : IdsOK (dl.take n) :=
  fun a ha b hb => h a (List.mem_of_mem_take ha) b (List.mem_of_mem_take hb)

/-! ### one space in isolation -/

/-- after ANY deliveries of fragments of the cut (not necessarily all of them): the offset is a fragment boundary,
    the messages handed on and the buffer are what the loop makes of the stream up to there, and what was handed on
    is a prefix of the RFC framing of the whole stream -/
theorem krun_partial_delivery (S : Bytes) (frs : List Bytes) (dl : List CFrame) (hcut : IsCut S frs)
    (hfrag : ∀ f ∈ dl, IsFrag frs f) (hids : IdsOK dl) :
    ∃ j, j ≤ frs.length ∧ (krun never {} dl).1.off = bnd frs j ∧
      (krun never {} dl).2 = implFrame (frs.take j).flatten ∧
      (krun never {} dl).1.buf = rem (frs.take j).flatten ∧
      (krun never {} dl).2 <+: frameHs S ∧
      (∀ f ∈ dl, f.offset ≠ (krun never {} dl).1.off) := by
  have hinv := inv_krun frs hcut.1 dl [] {} [] (inv_init frs) hfrag (by simpa using hids)
  simp only [List.nil_append] at hinv
  obtain ⟨⟨j, hj, hoff, hmsgs, hbuf⟩, _, _, hne, hkept⟩ := hinv
  refine ⟨j, hj, hoff, hmsgs, hbuf, ?_, ?_⟩
  · have hS : S = (frs.take j).flatten ++ (frs.drop j).flatten := by
      rw [← List.flatten_append, List.take_append_drop]; exact hcut.2.symm
    rw [hmsgs]
    refine List.IsPrefix.trans ?_ (implFrame_prefix_frameHs S)
    conv => rhs; rw [hS, (msgLoop_append _ _).1]
    exact List.prefix_append _ _
  · intro f hf he
    exact hne f (hkept f hf (Nat.le_of_eq he.symm)) he

/-- after a complete delivery the offset is the length of the stream -/
theorem krun_complete (S : Bytes) (frs : List Bytes) (dl : List CFrame) (hcut : IsCut S frs)
    (hd : Delivery frs dl) :
    (krun never {} dl).1.off = S.length ∧ (krun never {} dl).2 = implFrame S ∧
      (krun never {} dl).1.buf = rem S := by
  obtain ⟨j, hj, hoff, hmsgs, hbuf, _, hne⟩ :=
    krun_partial_delivery S frs dl hcut (delivery_frag hd) hd.ids
  have hjm : j = frs.length := by
    false_or_by_contra
    rename_i hlt
    obtain ⟨f, hf, hfo⟩ := delivery_complete hd j (by omega)
    exact hne f hf (by rw [hfo, hoff])
  subst hjm
  rw [List.take_length, hcut.2] at hmsgs hbuf
  refine ⟨?_, hmsgs, hbuf⟩
  rw [hoff, bnd, List.take_length, hcut.2]

theorem noEmptyTail_rem (S : Bytes) (h : NoEmptyTail S) : ¬ ((rem S).length = 4 ∧ hsLen (rem S) = 0) := by
  intro hc
  apply h
  have hf := frameHs_eq_impl S
  rw [if_pos hc] at hf
  refine ⟨?_, rem S, ?_, hc.1⟩
  · unfold WholeMessages
    rw [hf, List.flatten_append]
    simpa using msgLoop_flatten S
  · rw [hf]; simp

/-! ### the theorems -/

/-- the frame's own space sees exactly `kstep`; frames of one space from the initial state -/
theorem run_own_space (raises : Bytes → Bool) (k : Key) (dl : List CFrame) :
    run raises State.init (dl.map fun f => (k, f)) =
      (State.init.set k (krun raises {} dl).1, (krun raises {} dl).2) :=
  run_single raises k dl State.init (fun _ _ => drained_nil raises)

private theorem noraise_of_prefix (raises : Bytes → Bool) (S : Bytes) (frs : List Bytes) (dl : List CFrame)
    (hcut : IsCut S frs) (hfrag : ∀ f ∈ dl, IsFrag frs f) (hids : IdsOK dl)
    (hnr : ∀ m ∈ frameHs S, raises m = false) : krun raises {} dl = krun never {} dl := by
  apply krun_noraise
  obtain ⟨_, _, _, _, _, hpre, _⟩ := krun_partial_delivery S frs dl hcut hfrag hids
  exact fun m hm => hnr m (hpre.subset hm)

/-- unconditional part: for EVERY stream, cut, delivery order and duplicates, the bytes given to the message loop
    are exactly the stream, every prefix of the deliveries hands on a prefix of the RFC framing, and after all
    deliveries the RFC framing is what was handed on plus at most one last empty-bodied message still in the buffer -/
theorem crypto_any_order_upto_empty_tail (raises : Bytes → Bool) (k : Key) (S : Bytes) (frs : List Bytes)
    (dl : List CFrame) (hcut : IsCut S frs) (hd : Delivery frs dl) (hnr : ∀ m ∈ frameHs S, raises m = false) :
    let r := run raises State.init (dl.map fun f => (k, f))
    frameHs S = r.2 ++ (if (r.1.ks k).buf.length = 4 ∧ hsLen (r.1.ks k).buf = 0 then [(r.1.ks k).buf] else []) ∧
    r.2.flatten ++ (r.1.ks k).buf = S ∧ (r.1.ks k).off = S.length ∧
    ∀ n, (run raises State.init ((dl.take n).map fun f => (k, f))).2 <+: frameHs S := by
  intro r
  have hr : r = (State.init.set k (krun never {} dl).1, (krun never {} dl).2) := by
    show run raises State.init _ = _
    rw [run_own_space, noraise_of_prefix raises S frs dl hcut (delivery_frag hd) hd.ids hnr]
  obtain ⟨hoff, hmsgs, hbuf⟩ := krun_complete S frs dl hcut hd
  have hk : (r.1.ks k) = (krun never {} dl).1 := by rw [hr]; simp [State.set]
  have h2 : r.2 = implFrame S := by rw [hr]; exact hmsgs
  refine ⟨?_, ?_, ?_, ?_⟩
  · rw [hk, hbuf, h2]; exact frameHs_eq_impl S
  · rw [hk, hbuf, h2]; exact msgLoop_flatten S
  · rw [hk]; exact hoff
  · intro n
    have hfr : ∀ f ∈ dl.take n, IsFrag frs f := fun f hf => delivery_frag hd f (List.mem_of_mem_take hf)
    rw [run_own_space, noraise_of_prefix raises S frs _ hcut hfr (ids_take hd.ids n) hnr]
    obtain ⟨_, _, _, _, _, hpre, _⟩ := krun_partial_delivery S frs (dl.take n) hcut hfr (ids_take hd.ids n)
    exact hpre

/-- C02, CRYPTO reassembly: for every byte string `S` that does not end in an empty-bodied handshake message, every
    cut of `S` into non-empty fragments, delivered in ANY permutation with any exact duplicates anywhere: the
    messages handed to `handle_record` are exactly the RFC 8446 framing of `S`, the bytes given to the message loop
    are exactly `S` (each byte once), and after any prefix of the deliveries what was handed on is a prefix of that -/
theorem crypto_any_order_partial (raises : Bytes → Bool) (k : Key) (S : Bytes) (frs : List Bytes)
    (dl : List CFrame) (hcut : IsCut S frs) (hd : Delivery frs dl) (hnr : ∀ m ∈ frameHs S, raises m = false)
    (htail : NoEmptyTail S) : Recovered raises k S dl := by
  obtain ⟨h1, h2, h3, h4⟩ := crypto_any_order_upto_empty_tail raises k S frs dl hcut hd hnr
  refine ⟨?_, h2, h3, h4⟩
  have hr : run raises State.init (dl.map fun f => (k, f)) =
      (State.init.set k (krun never {} dl).1, (krun never {} dl).2) := by
    rw [run_own_space, noraise_of_prefix raises S frs dl hcut (delivery_frag hd) hd.ids hnr]
  obtain ⟨_, hmsgs, hbuf⟩ := krun_complete S frs dl hcut hd
  have hk : ((run raises State.init (dl.map fun f => (k, f))).1.ks k).buf = rem S := by
    rw [hr]; simp [State.set, hbuf]
  rw [hk, if_neg (noEmptyTail_rem S htail)] at h1
  simpa using h1.symm

/-- the code as it stands: the stream `0e 00 00 00` (a ServerHelloDone, an empty-bodied message) delivered in one
    frame is not handed on -/
theorem crypto_any_order_counterexample : ¬ crypto_any_order_statement := by
  intro h
  have hcut : IsCut [14, 0, 0, 0] [[14, 0, 0, 0]] := ⟨by simp, by simp⟩
  have hd : Delivery [[14, 0, 0, 0]] [⟨0, 0, [14, 0, 0, 0], 4⟩] :=
    ⟨⟨[], by simp [wire, framesOf], by simp⟩, by intro a ha b hb _; simp_all⟩
  have hf : frameHs [14, 0, 0, 0] = [[14, 0, 0, 0]] := by
    rw [frameHs_eq_impl]; simp [implFrame, rem, msgLoop_short, hsLen]
  obtain ⟨h1, _⟩ := h never (false, .initial) _ _ _ hcut hd (by simp [never])
  rw [run_own_space, hf] at h1
  simp [krun, kstep, absorb, sortByOffset, insertSorted, pass, removeFrame, msgLoop_short] at h1

/-- feeding a frame of space `k` leaves frame buffer, offset and byte buffer of every other space unchanged
    (reachable states: no other buffer of that direction holds a message `handle_record` raised on) -/
theorem spaces_independent (raises : Bytes → Bool) (st : State) (k k' : Key) (f : CFrame) (hk : k' ≠ k)
    (hd : ∀ pt, (k.1, pt) ≠ k → Drained raises (st.ks (k.1, pt)).buf) :
    (update raises st k f).1.ks k' = st.ks k' := by
  rw [update_own_space raises st k f hd]
  simp [State.set, hk]

/-- … and a frame of the OTHER direction never touches a space, whatever the buffers hold -/
theorem directions_independent (raises : Bytes → Bool) (st : State) (k k' : Key) (f : CFrame) (hk : k'.1 ≠ k.1) :
    (update raises st k f).1.ks k' = st.ks k' := by
  have hgo : ∀ (pts : List PT) (s : State), (handleBufferGo raises k.1 pts s).1.ks k' = s.ks k' := by
    intro pts
    induction pts with
    | nil => intro s; rfl
    | cons p ps ih =>
      intro s
      have hne : k' ≠ (k.1, p) := by intro he; apply hk; rw [he]
      simp only [handleBufferGo]
      split
      · simp [State.set, hne]
      · rw [ih]; simp [State.set, hne]
  have hne : k' ≠ k := by intro he; apply hk; rw [he]
  simp only [update, handleBuffer, hgo]
  simp [State.set, hne]

/-- the drained-buffers condition holds along every history in which `handle_record` did not raise -/
theorem update_keeps_drained (raises : Bytes → Bool) (st : State) (k : Key) (f : CFrame)
    (hall : ∀ k', Drained raises (st.ks k').buf) (hok : (update raises st k f).2.2 = false) :
    ∀ k', Drained raises ((update raises st k f).1.ks k').buf := by
  rw [update_own_space raises st k f (fun pt _ => hall _)] at hok ⊢
  intro k'
  simp only [State.set]
  split
  · simp only [kstep] at hok ⊢
    exact msgLoop_idem raises _ hok
  · exact hall k'

/-- without that condition the spaces are NOT independent: a message `handle_record` raised on stays at the head of
    its buffer (the buffer is assigned only after `handle_record` returned) and every later `update_session` of that
    direction raises again before it reaches the buffers of the later packet types -/
theorem stuck_message_blocks_later_spaces :
    let raises : Bytes → Bool := fun m => m.head? == some 2
    let bad : CFrame := ⟨0, 0, [2, 0, 0, 1, 0], 5⟩            -- a message of type 2 in the server's Initial space
    let good : CFrame := ⟨1, 0, [8, 0, 0, 2, 0, 0], 6⟩         -- EncryptedExtensions in the server's Handshake space
    let st1 := (update raises State.init (true, .initial) bad).1
    (update raises State.init (true, .handshake) good).2.1 = [[8, 0, 0, 2, 0, 0]] ∧
    (update raises st1 (true, .handshake) good).2 = ([[2, 0, 0, 1, 0]], true) := by
  simp only [update, handleBuffer, handleBufferGo, msgLoop_eq_len]
  decide

/-- outside the hypothesis of `crypto_any_order`: a retransmission that cuts the stream at OTHER points than the
    first transmission (RFC 9000 §13.3 allows it) overlaps the consumed prefix, is never consumed, and the stream
    stalls: stream `01 00 00 02 07 07` captured as (0, `01 00 00 02`) and (2, `00 02 07 07`) -/
theorem rechunked_retransmission_stalls :
    let r := run never State.init
      [((false, .initial), ⟨0, 0, [1, 0, 0, 2], 4⟩), ((false, .initial), ⟨1, 2, [0, 2, 7, 7], 4⟩)]
    r.2 = [] ∧ (r.1.ks (false, .initial)).off = 4 ∧ (r.1.ks (false, .initial)).fb.length = 1 := by
  simp only [run, update, handleBuffer, handleBufferGo, msgLoop_eq_len]
  decide

/-! ### non-vacuity -/

-- a stream of two messages (bodies 1 and 2 bytes), cut into three fragments across the message boundary, delivered
-- last-first with a duplicate of the middle fragment
example : IsCut [1, 0, 0, 1, 9, 2, 0, 0, 2, 7, 7] [[1, 0, 0], [1, 9, 2, 0], [0, 2, 7, 7]] := ⟨by simp, by simp⟩
example : Delivery [[1, 0, 0], [1, 9, 2, 0], [0, 2, 7, 7]]
    [⟨10, 7, [0, 2, 7, 7], 4⟩, ⟨11, 3, [1, 9, 2, 0], 4⟩, ⟨12, 0, [1, 0, 0], 3⟩, ⟨13, 3, [1, 9, 2, 0], 4⟩] := by
  refine ⟨⟨[(3, [1, 9, 2, 0], 4)], ?_, by simp [framesOf]⟩, ?_⟩
  · simp only [wire, framesOf, List.map]
    decide
  · intro a ha b hb hid
    simp only [List.mem_cons, List.not_mem_nil, or_false] at ha hb
    rcases ha with rfl | rfl | rfl | rfl <;> rcases hb with rfl | rfl | rfl | rfl <;> simp_all

-- … and what the model makes of that delivery: nothing until the first fragment arrives, then both messages
example :
    (run never State.init ([⟨10, 7, [0, 2, 7, 7], 4⟩, ⟨11, 3, [1, 9, 2, 0], 4⟩, ⟨12, 0, [1, 0, 0], 3⟩,
      ⟨13, 3, [1, 9, 2, 0], 4⟩].map fun f => ((true, PT.handshake), f))).2 = [[1, 0, 0, 1, 9], [2, 0, 0, 2, 7, 7]] := by
  simp only [List.map, run, update, handleBuffer, handleBufferGo, msgLoop_eq_len]
  decide
example : NoEmptyTail [1, 0, 0, 1, 9, 2, 0, 0, 2, 7, 7] := by
  intro h
  obtain ⟨_, m, hm, hl⟩ := h
  have hf : frameHs [1, 0, 0, 1, 9, 2, 0, 0, 2, 7, 7] = [[1, 0, 0, 1, 9], [2, 0, 0, 2, 7, 7]] := by
    rw [frameHs_eq_impl]; simp only [implFrame, rem, msgLoop_eq_len]; decide
  rw [hf] at hm
  simp at hm
  subst hm
  simp at hl

end TLX.Props.C02Crypto
