/-
C01 FROM FILE TO FILE, second part (continues `Props/C01File.lean`):
  * NO ABORT ALTERNATIVE: `connOut_fits` (every frame of a session's block fits scapy's fields and dpkt's time stamp:
    `Lemmas/BuildBounds.build_frames_ok`), `export_of_session_file`, `tls12_capture_exact_file`, `tls13_capture_exact_file`:
    `exportFile … = .file f ∧ Exact f …`. The hypotheses this costs, all of which CAN fail on the real tool (then the run
    dies in the write loop with ValueError / struct.error and leaves a truncated file):
      - `-m` values below 65536 (a mapped port ≥ 65536 is not a 16-bit port: scapy raises),
      - fewer than 2^32 − 1 bytes of plaintext in the connection (the builder does not wrap sequence numbers),
      - no decrypted record longer than 65495 bytes (`RecordsFit`; RFC: 2^14 + 1),
      - every packet time below 2^64 µs (stated on the capture: `CapEv.us`, the IEEE-754 residue of C12),
      - `OthersFit`: whatever the OTHER sessions of the capture export also fits (true in particular when they export
        nothing; `othersFit_of_ignored`: when the loop ignores every foreign packet).
  * THE KEY LOG AS FILE TEXT: `tls12_capture_exact_text`, `tls13_capture_exact_text` (via `Props/C09Found.lean`).
-/
import TLX.Props.C01File
import TLX.Lemmas.BuildBounds
import TLX.Props.C09Found
set_option autoImplicit false
set_option linter.unusedSimpArgs false
namespace TLX.Props.C01File2
open TLX TLX.MainLoop TLX.OutBytes TLX.Export TLX.Props.C01File TLX.Lemmas.BuildBounds
open TLX.Lemmas.Pipeline TLX.Props.C01Pipeline

/-! ### the frames of one session fit scapy's fields -/

theorem foldl_reasm_none (fs : List TcpOut.Frame) : fs.foldl Spec.reasmStep none = none := by
  induction fs with
  | nil => rfl
  | cons f rest ih => simpa [Spec.reasmStep] using ih

theorem foldl_reasm_total (fs : List TcpOut.Frame) (s s' : Spec.RS) (h : fs.foldl Spec.reasmStep (some s) = some s') :
    s'.c2s.length + s'.s2c.length = s.c2s.length + s.s2c.length + (fs.map (·.payload.length)).sum := by
  induction fs generalizing s with
  | nil => simp only [List.foldl_nil, Option.some.injEq] at h; subst h; simp
  | cons f rest ih =>
    simp only [List.foldl_cons] at h
    cases hs : Spec.reasmStep (some s) f with
    | none => rw [hs, foldl_reasm_none] at h; cases h
    | some s1 =>
      rw [hs] at h
      have := ih s1 h
      simp only [Spec.reasmStep, Option.bind_some] at hs
      simp only [List.map_cons, List.sum_cons]
      repeat' split at hs
      all_goals first | (cases hs; simp only [List.length_append] at this; omega) | cases hs

/-- a well-formed conversation carries exactly its two byte streams: their lengths add up to the payload bytes -/
theorem reassemble_total (fs : List TcpOut.Frame) (a b : Bytes) (h : Spec.reassemble fs = some (a, b)) :
    a.length + b.length = (fs.map (·.payload.length)).sum := by
  unfold Spec.reassemble at h
  split at h
  · cases h; rfl
  · rename_i x y z rest
    split at h
    · rename_i hok
      cases hf : rest.foldl Spec.reasmStep (some ⟨x.seq + 1, y.seq + 1, [], []⟩) with
      | none => rw [hf] at h; cases h
      | some s' =>
        rw [hf] at h
        simp only [Option.map_some, Option.some.injEq, Prod.mk.injEq] at h
        obtain ⟨rfl, rfl⟩ := h
        have := foldl_reasm_total rest _ s' hf
        simp only [Spec.handshakeOk, Bool.and_eq_true, List.isEmpty_iff] at hok
        obtain ⟨⟨⟨⟨⟨⟨⟨⟨⟨⟨⟨_, _⟩, hx⟩, _⟩, _⟩, _⟩, hy⟩, _⟩, _⟩, _⟩, _⟩, hz⟩ := hok
        simp only [List.map_cons, List.sum_cons, hx, hy, hz, List.length_nil] at this ⊢
        omega
    · cases h
  · cases h

/-- the write loop takes the frame: scapy serialises it and dpkt can store its time stamp -/
def WritesOk (q : Pipeline.OutPkt) : Prop := (∃ b, serialize q = .ok b) ∧ q.ts < 2 ^ 64

theorem addressed_payload (o : Opts) (c : Pipeline.Conn) (fs : List TcpOut.Frame) :
    (fs.map (Pipeline.addressed o c)).map (·.payload.length) = fs.map (·.payload.length) := by
  rw [List.map_map]
  apply List.map_congr_left
  intro f _
  simp only [Function.comp, Pipeline.addressed]
  split <;> rfl

/-- the decrypted records of the session `c` (what `OutputBuilder` gets) -/
def sessTraffic (H : Crypto.Prims) (P : Cipher.Prims) (info : Nat → Pipeline.Info) (c : Pipeline.Conn)
    (kl : List Keylog.Key) : List Session.Entry :=
  (Session.run (Pipeline.ops H P kl) c.opts.metadata Session.St.init (connRecs info c)).traffic

/-- no decrypted record is longer than 65495 bytes (RFC 5246 / 8446: at most 2^14 (+ 1) bytes; an IPv4 frame carries at
    most 65535 − 20 − 20) -/
def RecordsFit (H : Crypto.Prims) (P : Cipher.Prims) (info : Nat → Pipeline.Info) (c : Pipeline.Conn)
    (kl : List Keylog.Key) : Prop :=
  ∀ e ∈ sessTraffic H P info c kl, (e.data.getD TcpOut.placeholder).length ≤ 65495

/-- **Every frame of one session's block fits** (`build_frames_fit`): given the session-level exactness
    (`connOut = frames addressed`, `reassemble frames = (pc, psv)`), records of at most 65495 bytes, fewer than 2^32 − 1
    plaintext bytes in all, ports below 2^16 on the client side and AFTER the `-m` mapping on the server side, and packet
    times below 2^64 µs. -/
theorem connOut_fits (H : Crypto.Prims) (P : Cipher.Prims) (info : Nat → Pipeline.Info) (c : Pipeline.Conn)
    (kl : List Keylog.Key) (frames : List TcpOut.Frame) (pc psv : Bytes)
    (hconn : Pipeline.connOut H P info c kl = some (frames.map (Pipeline.addressed c.opts c)))
    (hre : Spec.reassemble frames = some (pc, psv))
    (hrec : RecordsFit H P info c kl) (hbytes : pc.length + psv.length + 1 < 2 ^ 32)
    (hcp : c.client.port < 65536)
    (hsp : TcpOut.exportedServerPort c.opts.keep (Pipeline.portmapFn c.opts.portmap) c.server.port < 65536)
    (hts : ∀ id, (info id).ts < 2 ^ 64) :
    ∀ q ∈ frames.map (Pipeline.addressed c.opts c), WritesOk q := by
  rw [connOut_eq] at hconn
  cases hb : TcpOut.build ((sessTraffic H P info c kl).map (toRec fun id => (info id).ts)) with
  | none => simp only [sessTraffic] at hb; rw [hb] at hconn; cases hconn
  | some fr' =>
    have hb' := hb
    simp only [sessTraffic] at hb
    rw [hb] at hconn
    simp only [Option.map_some, Option.some.injEq] at hconn
    -- total bytes
    have h1 := reassemble_total _ _ _ (Props.C06.reassemble_build _ _ hb')
    have h2 := reassemble_total _ _ _ hre
    have h3 : (fr'.map (·.payload.length)).sum = (frames.map (·.payload.length)).sum := by
      rw [← addressed_payload c.opts c fr', ← addressed_payload c.opts c frames, hconn]
    have hok := build_frames_ok (2 ^ 32 - 1) 65495 (· < 2 ^ 64) _ fr' hb'
      (by
        intro r hr
        simp only [List.mem_map] at hr
        obtain ⟨e, he, rfl⟩ := hr
        exact hrec e he)
      (by
        intro r hr t ht
        simp only [List.mem_map] at hr
        obtain ⟨e, he, rfl⟩ := hr
        simp only [toRec, List.mem_map] at ht
        obtain ⟨id, _, rfl⟩ := ht
        exact hts id)
      (by omega) (by omega)
    intro q hq
    rw [← hconn] at hq
    simp only [List.mem_map] at hq
    obtain ⟨f, hf, rfl⟩ := hq
    obtain ⟨hseq, hack, hlen, _, hT⟩ := hok f hf
    have hfit : Lemmas.OutBytes.Fits (Frame.ofOutPkt (Pipeline.addressed c.opts c f)) := by
      unfold Pipeline.addressed
      cases f.fromServer <;>
        simp only [Bool.false_eq_true, if_false, if_true, Lemmas.OutBytes.Fits, Frame.ofOutPkt, Lemmas.OutBytes.l4Len,
          OutBytes.L4.fieldsFit, Bool.and_eq_true, decide_eq_true_eq] <;>
        (refine ⟨by assumption, by assumption, ⟨by omega, by omega⟩, ?_⟩; split <;> omega)
    refine ⟨?_, ?_⟩
    · rcases Lemmas.OutBytes.serialize_cases (Frame.ofOutPkt (Pipeline.addressed c.opts c f)) with ⟨_, he⟩ | ⟨hn, _⟩
      · exact ⟨_, he⟩
      · exact absurd hfit hn
    · unfold Pipeline.addressed; split <;> exact hT

/-! ### no abort in the write loop -/

/-- whatever else the run hands to the writer — the frames of the other sessions, before and after the block of the
    session of interest — is also taken by the write loop (in particular: nothing else is exported) -/
def OthersFit (mask : Quic.Dissect.MaskFn) (H : Crypto.Prims) (P : Cipher.Prims) (args : Args)
    (keyFile : Option Keylog.Str) (cap : List CapEv) (blk : List Pipeline.OutPkt) : Prop :=
  ∀ out pre post, framesFrom mask H P freshState args (fileKeysOf keyFile) (itemsFrom 0 cap) (capInfo cap) = .ok out →
    out = pre ++ blk ++ post → ∀ q ∈ pre ++ post, WritesOk q

/-- `export_of_session` without the abort alternative: if the frames of the block and of the other sessions are taken by the
    write loop, the file IS written and reads back the block. -/
theorem export_of_session_file (mask : Quic.Dissect.MaskFn) (H : Crypto.Prims) (P : Cipher.Prims) (args : Args)
    (legacy : Bool) (keyFile : Option Keylog.Str) (file : Bytes) (cap : List CapEv)
    (hread : Container.read legacy file = .ok (cap.map CapEv.item)) (hok : CapOk cap)
    (hnoc : args.checksumTest = false)
    (pm : List (Int × Int)) (ports : List Int)
    (hpm : Options.getPortMap Options.Src.bare args.mArg = .ok pm)
    (hports : Options.serverPorts Options.Src.builtin Options.Src.pDefault args.pArg = .ok ports)
    (q p0 : Pkt) (rest : List Pkt)
    (hF : (Spec.Demux.tcpView (optsOf args ports pm) (itemsFrom 0 cap)).filter (Spec.Demux.sameFlow q) = p0 :: rest)
    (hcand : candidate (optsOf args ports pm) p0 = true)
    (blk : List Pipeline.OutPkt)
    (hsess : Pipeline.connOut H P (capInfo cap) (sessionOf cap (optsOf args ports pm) p0 rest)
      ((fileKeysOf keyFile).getD []) = some blk)
    (hblk : ∀ x ∈ blk, WritesOk x) (hothers : OthersFit mask H P args keyFile cap blk) :
    ∃ f, exportFile mask H P args legacy keyFile file = .file f ∧ ReadsBack f blk := by
  rcases export_of_session mask H P args legacy keyFile file cap hread hok hnoc pm ports hpm hports q p0 rest hF hcand
    blk hsess with ⟨e, he⟩ | h
  · exfalso
    obtain ⟨_, xs, is, out, hi, hf, hw⟩ := (Props.Export.export_abort_write_iff mask H P args legacy keyFile file e).mp he
    have hing := ingest_of_capture Keylog.srcHexClass legacy file cap hread hok
    rw [← hnoc, hi] at hing
    cases hing
    obtain ⟨pre, post, hout⟩ := session_of_items mask H P (capInfo cap) (optsOf args ports pm)
      ((fileKeysOf keyFile).getD []) (itemsFrom 0 cap) q p0 rest hF hcand
    simp only [dsbKeys_itemsFrom, List.append_nil] at hout
    have hTM : (Pipeline.tlsMachine H P (capInfo cap)).out
        { (Pipeline.tlsMachine H P (capInfo cap)).new (optsOf args ports pm) p0 with pkts := p0 :: rest }
        ((fileKeysOf keyFile).getD []) = blk := by
      show (Pipeline.connOut H P _ _ _).getD [] = blk
      rw [sessionOf_eq, hsess]; rfl
    rw [hTM] at hout
    have hfr := framesFrom_eq mask H P args (fileKeysOf keyFile) (itemsFrom 0 cap) (capInfo cap) pm ports hpm hports
    rw [hout] at hfr
    have hf' : framesFrom mask H P freshState args (fileKeysOf keyFile) (itemsFrom 0 cap) (capInfo cap) = .ok out := hf
    rw [hfr] at hf'
    cases hf'
    have hwf := Lemmas.Export.framesFrom_wf mask H P freshState args _ _ _ _
      (Lemmas.Export.itemsWith_good _ _ _ _ _ _ hi) hfr
    have hall : ∀ x ∈ pre ++ blk ++ post, WritesOk x := by
      intro x hx
      simp only [List.mem_append] at hx
      rcases hx with (hx | hx) | hx
      · exact hothers _ pre post hfr rfl x (by simp [hx])
      · exact hblk x hx
      · exact hothers _ pre post hfr rfl x (by simp [hx])
    have hex : ∃ f, fileOfFrames ((pre ++ blk ++ post).map Frame.ofOutPkt) = .ok f := by
      apply (C06Bytes.fileOf_ok_iff _ ?_).mpr
      · intro fr hfr'
        simp only [List.mem_map] at hfr'
        obtain ⟨x, hx, rfl⟩ := hfr'
        exact hall x hx
      · intro fr hfr'
        simp only [List.mem_map] at hfr'
        obtain ⟨x, hx, rfl⟩ := hfr'
        exact hwf x hx
    obtain ⟨f, hfok⟩ := hex
    have : fileOf (pre ++ blk ++ post) = .ok f := hfok
    rw [this] at hw
    cases hw
  · exact h
section
open TLX.Spec.Demux TLX.Lemmas.MainLoop TLX.Dissect TLX.Spec.FrameBuild TLX.Spec.TlsCapture TLX.Props.C12Dissect
open TLX.Cipher TLX.RecordLayer TLX.Spec.TlsSender TLX.Props.C01 TLX.Lemmas.Pipeline TLX.Spec.TlsConnection
open TLX.Lemmas.Capstone TLX.Props.C01Pipeline TLX.Spec.TlsFraming TLX.Props.C01Capstone


theorem rec_le_dirBytes (recs : List TcpOut.Rec) (r : TcpOut.Rec) (h : r ∈ recs) :
    r.bytes.length ≤ (Props.C06.dirBytes r.fromServer recs).length := by
  unfold Props.C06.dirBytes
  have hm : r ∈ recs.filter (·.fromServer == r.fromServer) := List.mem_filter.mpr ⟨h, by simp⟩
  generalize recs.filter (·.fromServer == r.fromServer) = l at hm
  induction l with
  | nil => cases hm
  | cons x xs ih =>
    simp only [List.flatMap_cons, List.length_append]
    rcases List.mem_cons.mp hm with rfl | hm
    · omega
    · have := ih hm; omega

/-- a sufficient condition for `RecordsFit`: the whole conversation has at most 65495 bytes of plaintext -/
theorem recordsFit_of_total (H : Crypto.Prims) (P : Cipher.Prims) (info : Nat → Pipeline.Info) (c : Pipeline.Conn)
    (kl : List Keylog.Key) (frames : List TcpOut.Frame) (pc psv : Bytes)
    (hconn : Pipeline.connOut H P info c kl = some (frames.map (Pipeline.addressed c.opts c)))
    (hre : Spec.reassemble frames = some (pc, psv)) (h : pc.length + psv.length ≤ 65495) : RecordsFit H P info c kl := by
  rw [connOut_eq] at hconn
  cases hb : TcpOut.build ((sessTraffic H P info c kl).map (toRec fun id => (info id).ts)) with
  | none => simp only [sessTraffic] at hb; rw [hb] at hconn; cases hconn
  | some fr' =>
    have hb' := hb
    simp only [sessTraffic] at hb
    rw [hb] at hconn
    simp only [Option.map_some, Option.some.injEq] at hconn
    have h1 := reassemble_total _ _ _ (Props.C06.reassemble_build _ _ hb')
    have h2 := reassemble_total _ _ _ hre
    have h3 : (fr'.map (·.payload.length)).sum = (frames.map (·.payload.length)).sum := by
      rw [← addressed_payload c.opts c fr', ← addressed_payload c.opts c frames, hconn]
    intro e he
    have := rec_le_dirBytes _ _ (List.mem_map.mpr ⟨e, he, rfl⟩ :
      toRec (fun id => (info id).ts) e ∈ (sessTraffic H P info c kl).map (toRec fun id => (info id).ts))
    have hbytes : (toRec (fun id => (info id).ts) e).bytes = e.data.getD TcpOut.placeholder := rfl
    rw [hbytes] at this
    cases hd : (toRec (fun id => (info id).ts) e).fromServer <;> rw [hd] at this <;> omega

theorem exported_lt (keep : Bool) (pm : List (Int × Int)) (sp : Nat) (hsp : sp < 65536)
    (hpm : ∀ kv ∈ pm, kv.2.toNat < 65536) :
    TcpOut.exportedServerPort keep (Pipeline.portmapFn pm) sp < 65536 := by
  unfold TcpOut.exportedServerPort
  split
  · exact hsp
  · unfold Pipeline.portmapFn
    cases hf : pm.reverse.find? (·.1 == (sp : Int)) with
    | none => simp
    | some kv =>
      simp only [Option.map_some, Option.getD_some]
      exact hpm kv (List.mem_reverse.mp (List.mem_of_find?_eq_some hf))

theorem infoOf_ts (us : Nat) (d : Dissect.Dissected) : (infoOf us d).ts = us := by
  cases d with
  | notIp => rfl
  | ip x => simp only [infoOf]; split <;> rfl

theorem infosFrom_ts (cap : List CapEv) (n : Nat) : ∀ x ∈ infosFrom n cap, ∃ e ∈ cap, x.2.ts = e.us := by
  induction cap generalizing n with
  | nil => intro x hx; cases hx
  | cons e rest ih =>
    intro x hx
    simp only [infosFrom, List.mem_cons] at hx
    rcases hx with rfl | hx
    · exact ⟨e, by simp, infoOf_ts _ _⟩
    · obtain ⟨e', he', h⟩ := ih (n + 1) x hx
      exact ⟨e', by simp [he'], h⟩

/-- packet times below 2^64 µs on the capture ⇒ every time `Pipeline` can read behind a tag is -/
theorem capInfo_ts (cap : List CapEv) (h : ∀ e ∈ cap, e.us < 2 ^ 64) (id : Nat) : (capInfo cap id).ts < 2 ^ 64 := by
  unfold capInfo Ingest.lookup
  cases hf : (infosFrom 0 cap).find? (·.1 == id) with
  | none => simp only [Option.map_none, Option.getD_none]; exact (by decide : (default : Pipeline.Info).ts < 2 ^ 64)
  | some x =>
    simp only [Option.map_some, Option.getD_some]
    obtain ⟨e, he, hx⟩ := infosFrom_ts cap 0 x (List.mem_of_find?_eq_some hf)
    rw [hx]; exact h e he

/-- **C01 from file to file, SSL 3.0 – TLS 1.2, WITHOUT the abort alternative**: the hypotheses of `tls12_capture_exact` and
    what the write loop needs ⇒ the output file is written and `Exact`ly contains the conversation. -/
theorem tls12_capture_exact_file (mask : Quic.Dissect.MaskFn) (H : Crypto.Prims) (P : Prims) (L : SealLaws P)
    -- the capture file: bytes written by the independent encoder in ANY container variant, holding the described packets
    (fl : Flow) (hne : clientEp fl ≠ serverEp fl) (evs : List CEv) (hdesc : Described fl evs)
    (hnot1 : ∀ e ∈ evs.map CEv.cap, Ingest.isMinusOne e.t = false)
    (cv : Spec.Containers.Variant) (cevs : List Spec.Containers.Ev) (hcwf : cv.WF cevs)
    (hitems : cevs.filterMap (Spec.Containers.scale cv) = (evs.map CEv.cap).map CapEv.item)
    -- the options: no `-c`, no `-a`; the server port is a server port, the client port is not
    (args : Args) (keyFile : Option Keylog.Str)
    (hnoc : args.checksumTest = false) (hmeta : args.metadata = false)
    (pm : List (Int × Int)) (ports : List Int)
    (hpm : Options.getPortMap Options.Src.bare args.mArg = .ok pm)
    (hports : Options.serverPorts Options.Src.builtin Options.Src.pDefault args.pArg = .ok ports)
    (hsp : ports.contains (fl.serverPort : Int) = true) (hcp : ports.contains (fl.clientPort : Int) = false)
    (p0 : Pkt) (rest : List Pkt) (hfp : flowPkts fl 0 evs = p0 :: rest)
    -- the connection as sent (hypotheses of `tls12_connection_exact`, for the session object and the key-log file)
    (t : Transcript) (hch : t.ch.WellFormed) (hsh : t.sh.WellFormed) (hrc : t.rvC.length = 2) (hrs : t.rvS.length = 2)
    (hv : t.ver.length = 2) (hcomp : t.sh.compressionMethod = 0)
    (v : Session.Ver) (hvne : v ≠ .tls13) (hneg : Negotiated t.rvS t.sh v)
    (ps : CipherSuite.Params) (hres : CipherSuite.resolve (Bytes.beNat t.sh.cipherSuite) = some ps)
    (a : Pipeline.SuiteArgs) (hargs : Pipeline.suiteArgs ps = some a)
    (fk : Keylog.Key) (fks : List Keylog.Key)
    (hfound : (Keylog.findSessionSecrets ((fileKeysOf keyFile).getD []) (Pipeline.natsOfBytes t.ch.random)).filter
        (fun k => k.label == Keylog.s_CLIENT_RANDOM || k.label == Keylog.s_RSA) = fk :: fks)
    (secrets : List KeySchedule.Secret) (hsec : Pipeline.secretsOf false (fk :: fks) = some secrets)
    (k : KeySchedule.Keys6)
    (hgen : KeySchedule.generateKeys H (Pipeline.ksVersion v) a.ks secrets t.ch.random t.sh.random
      = .ok (some (.legacy k)))
    (cls : CipherClass)
    (hcls : classOf a.bulk (Pipeline.rlVersion v)
      (Session.extGet ((t.sh.extensions.getD []).map extPair) [0x00, 0x16]).isSome a.tagLen = some cls)
    (hmac : 0 < (KeySchedule.macSuite H a.ks.mac).outLen)
    (hck : KeyMatOk cls k.clientKey k.clientIv) (hsk : KeyMatOk cls k.serverKey k.serverIv)
    (hsc : Script12 t.cEvs) (hss : Script12 t.sEvs)
    (hokc : ∀ e ∈ t.cEvs, EvOk1 cls (KeySchedule.macSuite H a.ks.mac).outLen e)
    (hoks : ∀ e ∈ t.sEvs, EvOk1 cls (KeySchedule.macSuite H a.ks.mac).outLen e)
    (hwr : ∀ d, ∀ r ∈ t.records P L cls (legacySnd k) d, WholeRecord r)
    (hlen : t.cEvs.length + t.sEvs.length ≤ seqLimit)
    -- the capture of the connection, sender side; causality on the released records as in the connection capstone
    (hwires : WiresInOrder evs (t.stream P L cls (legacySnd k)))
    (hcausal : Causal12 (connRecs (capInfo (evs.map CEv.cap)) (sessionOf (evs.map CEv.cap) (optsOf args ports pm) p0 rest)))
    -- what the write loop needs (each CAN fail on the real tool: see the header)
    (hcport : fl.clientPort < 65536) (hsport : fl.serverPort < 65536) (hpmv : ∀ kv ∈ pm, kv.2.toNat < 65536)
    (hbytes : (Spec.TlsConnection.plainOf t.cEvs).length + (Spec.TlsConnection.plainOf t.sEvs).length + 1 < 2 ^ 32)
    (hrec : RecordsFit H P (capInfo (evs.map CEv.cap)) (sessionOf (evs.map CEv.cap) (optsOf args ports pm) p0 rest)
      ((fileKeysOf keyFile).getD []))
    (hus : ∀ e ∈ evs.map CEv.cap, e.us < 2 ^ 64)
    (hothers : ∀ blk, Pipeline.connOut H P (capInfo (evs.map CEv.cap))
        (sessionOf (evs.map CEv.cap) (optsOf args ports pm) p0 rest) ((fileKeysOf keyFile).getD []) = some blk →
      OthersFit mask H P args keyFile (evs.map CEv.cap) blk) :
    ∃ f, exportFile mask H P args cv.isLegacy keyFile (Spec.Containers.encode cv cevs) = .file f ∧
      Exact f (sessionOf (evs.map CEv.cap) (optsOf args ports pm) p0 rest)
        (Spec.TlsConnection.plainOf t.cEvs) (Spec.TlsConnection.plainOf t.sEvs) := by
  have hread : Container.read cv.isLegacy (Spec.Containers.encode cv cevs) = .ok ((evs.map CEv.cap).map CapEv.item) := by
    rw [Props.C12.reader_roundtrip cv cevs hcwf, hitems]
  have hok := capOk_of_described fl evs hdesc hnot1
  obtain ⟨hF, hcand, hsrv, hcli, hdelv⟩ :=
    described_session fl hne evs hdesc (optsOf args ports pm) hnoc hsp hcp p0 rest hfp
  obtain ⟨frames, hconn, hre, _⟩ := tls12_connection_exact H P L ((fileKeysOf keyFile).getD []) (capInfo (evs.map CEv.cap))
    (sessionOf (evs.map CEv.cap) (optsOf args ports pm) p0 rest) hmeta t hch hsh hrc hrs hv hcomp v hvne hneg ps hres a hargs fk fks
    hfound secrets hsec k hgen cls hcls hmac hck hsk hsc hss hokc hoks hwr hlen (hdelv _ hwires) hcausal
  have hfits := connOut_fits H P (capInfo (evs.map CEv.cap)) (sessionOf (evs.map CEv.cap) (optsOf args ports pm) p0 rest)
    ((fileKeysOf keyFile).getD []) frames _ _ hconn hre hrec hbytes
    (by rw [hcli]; exact hcport)
    (by rw [hsrv]; exact exported_lt _ _ _ hsport hpmv)
    (capInfo_ts _ hus)
  obtain ⟨f, hf, hrb⟩ := export_of_session_file mask H P args cv.isLegacy keyFile _ (evs.map CEv.cap) hread hok hnoc pm ports
    hpm hports (refPkt fl) p0 rest hF hcand _ hconn hfits (hothers _ hconn)
  exact ⟨f, hf, frames, hrb, hre⟩

/-- **… TLS 1.3.** -/
theorem tls13_capture_exact_file (mask : Quic.Dissect.MaskFn) (H : Crypto.Prims) (P : Prims) (L : SealLaws P)
    -- the capture file: bytes written by the independent encoder in ANY container variant, holding the described packets
    (fl : Flow) (hne : clientEp fl ≠ serverEp fl) (evs : List CEv) (hdesc : Described fl evs)
    (hnot1 : ∀ e ∈ evs.map CEv.cap, Ingest.isMinusOne e.t = false)
    (cv : Spec.Containers.Variant) (cevs : List Spec.Containers.Ev) (hcwf : cv.WF cevs)
    (hitems : cevs.filterMap (Spec.Containers.scale cv) = (evs.map CEv.cap).map CapEv.item)
    -- the options: no `-c`, no `-a`; the server port is a server port, the client port is not
    (args : Args) (keyFile : Option Keylog.Str)
    (hnoc : args.checksumTest = false) (hmeta : args.metadata = false)
    (pm : List (Int × Int)) (ports : List Int)
    (hpm : Options.getPortMap Options.Src.bare args.mArg = .ok pm)
    (hports : Options.serverPorts Options.Src.builtin Options.Src.pDefault args.pArg = .ok ports)
    (hsp : ports.contains (fl.serverPort : Int) = true) (hcp : ports.contains (fl.clientPort : Int) = false)
    (p0 : Pkt) (rest : List Pkt) (hfp : flowPkts fl 0 evs = p0 :: rest)
    -- the connection as sent (hypotheses of `tls13_connection_exact`, for the session object and the key-log file)
    (t : Transcript) (hch : t.ch.WellFormed) (hsh : t.sh.WellFormed) (hrc : t.rvC.length = 2) (hrs : t.rvS.length = 2)
    (hv : t.ver.length = 2) (hcomp : t.sh.compressionMethod = 0) (hneg : Negotiated t.rvS t.sh .tls13)
    (ps : CipherSuite.Params) (hres : CipherSuite.resolve (Bytes.beNat t.sh.cipherSuite) = some ps)
    (a : Pipeline.SuiteArgs) (hargs : Pipeline.suiteArgs ps = some a)
    (fk : Keylog.Key) (fks : List Keylog.Key)
    (hfound : Keylog.findSessionSecrets ((fileKeysOf keyFile).getD []) (Pipeline.natsOfBytes t.ch.random) = fk :: fks)
    (secrets : List KeySchedule.Secret) (hsec : Pipeline.secretsOf true (fk :: fks) = some secrets)
    (k : KeySchedule.Installed13)
    (hgen : KeySchedule.generateKeys H .tls13 a.ks secrets t.ch.random t.sh.random = .ok (some (.tls13 k)))
    (chk chiv cak caiv shk shiv sak saiv : Bytes)
    (hk : k.clientHsKey = some chk ∧ k.clientHsIv = some chiv ∧ k.clientAppKey = some cak ∧ k.clientAppIv = some caiv ∧
      k.serverHsKey = some shk ∧ k.serverHsIv = some shiv ∧ k.serverAppKey = some sak ∧ k.serverAppIv = some saiv)
    (cls : CipherClass)
    (hcls : classOf a.bulk .tls13
      (Session.extGet ((t.sh.extensions.getD []).map extPair) [0x00, 0x16]).isSome a.tagLen = some cls)
    (h1 : KeyMatOk cls chk chiv) (h2 : KeyMatOk cls cak caiv) (h3 : KeyMatOk cls shk shiv) (h4 : KeyMatOk cls sak saiv)
    (hsc : Script13 t.cEvs) (hss : Script13 t.sEvs)
    (hokc : ∀ e ∈ t.cEvs, EvOk1 cls (KeySchedule.macSuite H a.ks.mac).outLen e)
    (hoks : ∀ e ∈ t.sEvs, EvOk1 cls (KeySchedule.macSuite H a.ks.mac).outLen e)
    (hwr : ∀ d, ∀ r ∈ t.records P L cls ⟨SDir.init chk chiv cak caiv, SDir.init shk shiv sak saiv⟩ d, WholeRecord r)
    (hlen : budget13 t ≤ seqLimit)
    -- the capture of the connection, sender side; causality on the released records as in the connection capstone
    (hwires : WiresInOrder evs (t.stream P L cls ⟨SDir.init chk chiv cak caiv, SDir.init shk shiv sak saiv⟩))
    (hcausal : Causal13 (connRecs (capInfo (evs.map CEv.cap)) (sessionOf (evs.map CEv.cap) (optsOf args ports pm) p0 rest)))
    -- what the write loop needs (each CAN fail on the real tool: see the header)
    (hcport : fl.clientPort < 65536) (hsport : fl.serverPort < 65536) (hpmv : ∀ kv ∈ pm, kv.2.toNat < 65536)
    (hbytes : (Spec.TlsConnection.plainOf t.cEvs).length + (Spec.TlsConnection.plainOf t.sEvs).length + 1 < 2 ^ 32)
    (hrec : RecordsFit H P (capInfo (evs.map CEv.cap)) (sessionOf (evs.map CEv.cap) (optsOf args ports pm) p0 rest)
      ((fileKeysOf keyFile).getD []))
    (hus : ∀ e ∈ evs.map CEv.cap, e.us < 2 ^ 64)
    (hothers : ∀ blk, Pipeline.connOut H P (capInfo (evs.map CEv.cap))
        (sessionOf (evs.map CEv.cap) (optsOf args ports pm) p0 rest) ((fileKeysOf keyFile).getD []) = some blk →
      OthersFit mask H P args keyFile (evs.map CEv.cap) blk) :
    ∃ f, exportFile mask H P args cv.isLegacy keyFile (Spec.Containers.encode cv cevs) = .file f ∧
      Exact f (sessionOf (evs.map CEv.cap) (optsOf args ports pm) p0 rest)
        (Spec.TlsConnection.plainOf t.cEvs) (Spec.TlsConnection.plainOf t.sEvs) := by
  have hread : Container.read cv.isLegacy (Spec.Containers.encode cv cevs) = .ok ((evs.map CEv.cap).map CapEv.item) := by
    rw [Props.C12.reader_roundtrip cv cevs hcwf, hitems]
  have hok := capOk_of_described fl evs hdesc hnot1
  obtain ⟨hF, hcand, hsrv, hcli, hdelv⟩ :=
    described_session fl hne evs hdesc (optsOf args ports pm) hnoc hsp hcp p0 rest hfp
  obtain ⟨frames, hconn, hre, _⟩ := tls13_connection_exact H P L ((fileKeysOf keyFile).getD []) (capInfo (evs.map CEv.cap))
    (sessionOf (evs.map CEv.cap) (optsOf args ports pm) p0 rest) hmeta t hch hsh hrc hrs hv hcomp hneg ps hres a hargs fk fks
    hfound secrets hsec k hgen chk chiv cak caiv shk shiv sak saiv hk cls hcls h1 h2 h3 h4 hsc hss hokc hoks hwr hlen
    (hdelv _ hwires) hcausal
  have hfits := connOut_fits H P (capInfo (evs.map CEv.cap)) (sessionOf (evs.map CEv.cap) (optsOf args ports pm) p0 rest)
    ((fileKeysOf keyFile).getD []) frames _ _ hconn hre hrec hbytes
    (by rw [hcli]; exact hcport)
    (by rw [hsrv]; exact exported_lt _ _ _ hsport hpmv)
    (capInfo_ts _ hus)
  obtain ⟨f, hf, hrb⟩ := export_of_session_file mask H P args cv.isLegacy keyFile _ (evs.map CEv.cap) hread hok hnoc pm ports
    hpm hports (refPkt fl) p0 rest hF hcand _ hconn hfits (hothers _ hconn)
  exact ⟨f, hf, frames, hrb, hre⟩

/-- **… with the key-log FILE given as text**: lines in NSS Key Log Format or anything else, LF or CRLF line ends, any
    order (`C09Found.fileText`); the hypothesis about the key log is now about the LINES of the file: those with the
    connection's client random and label CLIENT_RANDOM are `fk :: fks`. -/
theorem tls12_capture_exact_text (mask : Quic.Dissect.MaskFn) (H : Crypto.Prims) (P : Prims) (L : SealLaws P)
    -- the capture file: bytes written by the independent encoder in ANY container variant, holding the described packets
    (fl : Flow) (hne : clientEp fl ≠ serverEp fl) (evs : List CEv) (hdesc : Described fl evs)
    (hnot1 : ∀ e ∈ evs.map CEv.cap, Ingest.isMinusOne e.t = false)
    (cv : Spec.Containers.Variant) (cevs : List Spec.Containers.Ev) (hcwf : cv.WF cevs)
    (hitems : cevs.filterMap (Spec.Containers.scale cv) = (evs.map CEv.cap).map CapEv.item)
    -- the options: no `-c`, no `-a`; the server port is a server port, the client port is not
    (args : Args) (ls : List (C09Found.FLine × Bool)) (hls : ∀ x ∈ ls, x.1.WF)
    (hnoc : args.checksumTest = false) (hmeta : args.metadata = false)
    (pm : List (Int × Int)) (ports : List Int)
    (hpm : Options.getPortMap Options.Src.bare args.mArg = .ok pm)
    (hports : Options.serverPorts Options.Src.builtin Options.Src.pDefault args.pArg = .ok ports)
    (hsp : ports.contains (fl.serverPort : Int) = true) (hcp : ports.contains (fl.clientPort : Int) = false)
    (p0 : Pkt) (rest : List Pkt) (hfp : flowPkts fl 0 evs = p0 :: rest)
    -- the connection as sent (hypotheses of `tls12_connection_exact`, for the session object and the key-log file)
    (t : Transcript) (hch : t.ch.WellFormed) (hsh : t.sh.WellFormed) (hrc : t.rvC.length = 2) (hrs : t.rvS.length = 2)
    (hv : t.ver.length = 2) (hcomp : t.sh.compressionMethod = 0)
    (v : Session.Ver) (hvne : v ≠ .tls13) (hneg : Negotiated t.rvS t.sh v)
    (ps : CipherSuite.Params) (hres : CipherSuite.resolve (Bytes.beNat t.sh.cipherSuite) = some ps)
    (a : Pipeline.SuiteArgs) (hargs : Pipeline.suiteArgs ps = some a)
    (fk : Keylog.Key) (fks : List Keylog.Key)
    (hfound : (C09Found.linesFor (Pipeline.natsOfBytes t.ch.random) ls).filter
        (fun k => k.label == Keylog.s_CLIENT_RANDOM || k.label == Keylog.s_RSA) = fk :: fks)
    (secrets : List KeySchedule.Secret) (hsec : Pipeline.secretsOf false (fk :: fks) = some secrets)
    (k : KeySchedule.Keys6)
    (hgen : KeySchedule.generateKeys H (Pipeline.ksVersion v) a.ks secrets t.ch.random t.sh.random
      = .ok (some (.legacy k)))
    (cls : CipherClass)
    (hcls : classOf a.bulk (Pipeline.rlVersion v)
      (Session.extGet ((t.sh.extensions.getD []).map extPair) [0x00, 0x16]).isSome a.tagLen = some cls)
    (hmac : 0 < (KeySchedule.macSuite H a.ks.mac).outLen)
    (hck : KeyMatOk cls k.clientKey k.clientIv) (hsk : KeyMatOk cls k.serverKey k.serverIv)
    (hsc : Script12 t.cEvs) (hss : Script12 t.sEvs)
    (hokc : ∀ e ∈ t.cEvs, EvOk1 cls (KeySchedule.macSuite H a.ks.mac).outLen e)
    (hoks : ∀ e ∈ t.sEvs, EvOk1 cls (KeySchedule.macSuite H a.ks.mac).outLen e)
    (hwr : ∀ d, ∀ r ∈ t.records P L cls (legacySnd k) d, WholeRecord r)
    (hlen : t.cEvs.length + t.sEvs.length ≤ seqLimit)
    -- the capture of the connection, sender side; causality on the released records as in the connection capstone
    (hwires : WiresInOrder evs (t.stream P L cls (legacySnd k)))
    (hcausal : Causal12 (connRecs (capInfo (evs.map CEv.cap)) (sessionOf (evs.map CEv.cap) (optsOf args ports pm) p0 rest)))
    -- what the write loop needs (each CAN fail on the real tool: see the header)
    (hcport : fl.clientPort < 65536) (hsport : fl.serverPort < 65536) (hpmv : ∀ kv ∈ pm, kv.2.toNat < 65536)
    (hbytes : (Spec.TlsConnection.plainOf t.cEvs).length + (Spec.TlsConnection.plainOf t.sEvs).length + 1 < 2 ^ 32)
    (hrec : RecordsFit H P (capInfo (evs.map CEv.cap)) (sessionOf (evs.map CEv.cap) (optsOf args ports pm) p0 rest)
      ((fileKeysOf (some (C09Found.fileText ls))).getD []))
    (hus : ∀ e ∈ evs.map CEv.cap, e.us < 2 ^ 64)
    (hothers : ∀ blk, Pipeline.connOut H P (capInfo (evs.map CEv.cap))
        (sessionOf (evs.map CEv.cap) (optsOf args ports pm) p0 rest) ((fileKeysOf (some (C09Found.fileText ls))).getD []) = some blk →
      OthersFit mask H P args (some (C09Found.fileText ls)) (evs.map CEv.cap) blk) :
    ∃ f, exportFile mask H P args cv.isLegacy (some (C09Found.fileText ls)) (Spec.Containers.encode cv cevs) = .file f ∧
      Exact f (sessionOf (evs.map CEv.cap) (optsOf args ports pm) p0 rest)
        (Spec.TlsConnection.plainOf t.cEvs) (Spec.TlsConnection.plainOf t.sEvs) :=
  tls12_capture_exact_file mask H P L fl hne evs hdesc hnot1 cv cevs hcwf hitems args (some (C09Found.fileText ls)) hnoc hmeta pm ports hpm hports hsp hcp p0 rest hfp t hch hsh hrc hrs hv hcomp v hvne hneg ps hres a hargs fk fks (by rw [C09Found.found12_fileText ls hls]; exact hfound) secrets hsec k hgen cls hcls hmac hck hsk hsc hss hokc hoks hwr hlen hwires hcausal hcport hsport hpmv hbytes hrec hus hothers

/-- **… with the key-log FILE given as text**: lines in NSS Key Log Format or anything else, LF or CRLF line ends, any
    order (`C09Found.fileText`); the hypothesis about the key log is now about the LINES of the file: those with the
    connection's client random are `fk :: fks`. -/
theorem tls13_capture_exact_text (mask : Quic.Dissect.MaskFn) (H : Crypto.Prims) (P : Prims) (L : SealLaws P)
    -- the capture file: bytes written by the independent encoder in ANY container variant, holding the described packets
    (fl : Flow) (hne : clientEp fl ≠ serverEp fl) (evs : List CEv) (hdesc : Described fl evs)
    (hnot1 : ∀ e ∈ evs.map CEv.cap, Ingest.isMinusOne e.t = false)
    (cv : Spec.Containers.Variant) (cevs : List Spec.Containers.Ev) (hcwf : cv.WF cevs)
    (hitems : cevs.filterMap (Spec.Containers.scale cv) = (evs.map CEv.cap).map CapEv.item)
    -- the options: no `-c`, no `-a`; the server port is a server port, the client port is not
    (args : Args) (ls : List (C09Found.FLine × Bool)) (hls : ∀ x ∈ ls, x.1.WF)
    (hnoc : args.checksumTest = false) (hmeta : args.metadata = false)
    (pm : List (Int × Int)) (ports : List Int)
    (hpm : Options.getPortMap Options.Src.bare args.mArg = .ok pm)
    (hports : Options.serverPorts Options.Src.builtin Options.Src.pDefault args.pArg = .ok ports)
    (hsp : ports.contains (fl.serverPort : Int) = true) (hcp : ports.contains (fl.clientPort : Int) = false)
    (p0 : Pkt) (rest : List Pkt) (hfp : flowPkts fl 0 evs = p0 :: rest)
    -- the connection as sent (hypotheses of `tls13_connection_exact`, for the session object and the key-log file)
    (t : Transcript) (hch : t.ch.WellFormed) (hsh : t.sh.WellFormed) (hrc : t.rvC.length = 2) (hrs : t.rvS.length = 2)
    (hv : t.ver.length = 2) (hcomp : t.sh.compressionMethod = 0) (hneg : Negotiated t.rvS t.sh .tls13)
    (ps : CipherSuite.Params) (hres : CipherSuite.resolve (Bytes.beNat t.sh.cipherSuite) = some ps)
    (a : Pipeline.SuiteArgs) (hargs : Pipeline.suiteArgs ps = some a)
    (fk : Keylog.Key) (fks : List Keylog.Key)
    (hfound : C09Found.linesFor (Pipeline.natsOfBytes t.ch.random) ls = fk :: fks)
    (secrets : List KeySchedule.Secret) (hsec : Pipeline.secretsOf true (fk :: fks) = some secrets)
    (k : KeySchedule.Installed13)
    (hgen : KeySchedule.generateKeys H .tls13 a.ks secrets t.ch.random t.sh.random = .ok (some (.tls13 k)))
    (chk chiv cak caiv shk shiv sak saiv : Bytes)
    (hk : k.clientHsKey = some chk ∧ k.clientHsIv = some chiv ∧ k.clientAppKey = some cak ∧ k.clientAppIv = some caiv ∧
      k.serverHsKey = some shk ∧ k.serverHsIv = some shiv ∧ k.serverAppKey = some sak ∧ k.serverAppIv = some saiv)
    (cls : CipherClass)
    (hcls : classOf a.bulk .tls13
      (Session.extGet ((t.sh.extensions.getD []).map extPair) [0x00, 0x16]).isSome a.tagLen = some cls)
    (h1 : KeyMatOk cls chk chiv) (h2 : KeyMatOk cls cak caiv) (h3 : KeyMatOk cls shk shiv) (h4 : KeyMatOk cls sak saiv)
    (hsc : Script13 t.cEvs) (hss : Script13 t.sEvs)
    (hokc : ∀ e ∈ t.cEvs, EvOk1 cls (KeySchedule.macSuite H a.ks.mac).outLen e)
    (hoks : ∀ e ∈ t.sEvs, EvOk1 cls (KeySchedule.macSuite H a.ks.mac).outLen e)
    (hwr : ∀ d, ∀ r ∈ t.records P L cls ⟨SDir.init chk chiv cak caiv, SDir.init shk shiv sak saiv⟩ d, WholeRecord r)
    (hlen : budget13 t ≤ seqLimit)
    -- the capture of the connection, sender side; causality on the released records as in the connection capstone
    (hwires : WiresInOrder evs (t.stream P L cls ⟨SDir.init chk chiv cak caiv, SDir.init shk shiv sak saiv⟩))
    (hcausal : Causal13 (connRecs (capInfo (evs.map CEv.cap)) (sessionOf (evs.map CEv.cap) (optsOf args ports pm) p0 rest)))
    -- what the write loop needs (each CAN fail on the real tool: see the header)
    (hcport : fl.clientPort < 65536) (hsport : fl.serverPort < 65536) (hpmv : ∀ kv ∈ pm, kv.2.toNat < 65536)
    (hbytes : (Spec.TlsConnection.plainOf t.cEvs).length + (Spec.TlsConnection.plainOf t.sEvs).length + 1 < 2 ^ 32)
    (hrec : RecordsFit H P (capInfo (evs.map CEv.cap)) (sessionOf (evs.map CEv.cap) (optsOf args ports pm) p0 rest)
      ((fileKeysOf (some (C09Found.fileText ls))).getD []))
    (hus : ∀ e ∈ evs.map CEv.cap, e.us < 2 ^ 64)
    (hothers : ∀ blk, Pipeline.connOut H P (capInfo (evs.map CEv.cap))
        (sessionOf (evs.map CEv.cap) (optsOf args ports pm) p0 rest) ((fileKeysOf (some (C09Found.fileText ls))).getD []) = some blk →
      OthersFit mask H P args (some (C09Found.fileText ls)) (evs.map CEv.cap) blk) :
    ∃ f, exportFile mask H P args cv.isLegacy (some (C09Found.fileText ls)) (Spec.Containers.encode cv cevs) = .file f ∧
      Exact f (sessionOf (evs.map CEv.cap) (optsOf args ports pm) p0 rest)
        (Spec.TlsConnection.plainOf t.cEvs) (Spec.TlsConnection.plainOf t.sEvs) :=
  tls13_capture_exact_file mask H P L fl hne evs hdesc hnot1 cv cevs hcwf hitems args (some (C09Found.fileText ls)) hnoc hmeta pm ports hpm hports hsp hcp p0 rest hfp t hch hsh hrc hrs hv hcomp hneg ps hres a hargs fk fks (by rw [C09Found.found13_fileText ls hls]; exact hfound) secrets hsec k hgen chk chiv cak caiv shk shiv sak saiv hk cls hcls h1 h2 h3 h4 hsc hss hokc hoks hwr hlen hwires hcausal hcport hsport hpmv hbytes hrec hus hothers

end

section
open TLX.Spec.Demux TLX.Lemmas.MainLoop TLX.Spec.TlsCapture

/-! ### a sufficient condition for `OthersFit`: the loop ignores everything else -/

/-- the main loop ignores the packet (not TCP/UDP over IP, a TCP segment without payload, an empty or — without `-g` — a
    non-QUIC UDP datagram, …) -/
def Ignored (o : Opts) (e : CapEv) : Prop :=
  ∀ tag, ∃ w, (classify o (.frame (pktOf tag e.d)) : Class Keylog.Key) = .ignore w

theorem tcpView_ignored (o : Opts) (p : Pkt) (w : Why)
    (h : (classify o (.frame p) : Class Keylog.Key) = .ignore w) :
    Spec.Demux.tcpView o [(.frame p : MainLoop.Item Keylog.Key)] = [] := by
  simp [Spec.Demux.tcpView, h]

theorem quicView_skip (o : Opts) (kl : List Keylog.Key) (it : MainLoop.Item Keylog.Key)
    (rest : List (MainLoop.Item Keylog.Key))
    (h : (∃ p, classify o it = .tls p) ∨ (∃ w, classify o it = .ignore w)) :
    quicView o kl (it :: rest) = quicView o kl rest := by
  rcases h with ⟨p, hp⟩ | ⟨w, hw⟩
  · simp only [quicView, hp]
  · simp only [quicView, hw]

theorem classify_tcp (o : Opts) (p : Pkt) (h : p.l4 = .tcp) :
    (∃ q, (classify o (.frame p) : Class Keylog.Key) = .tls q) ∨
      (∃ w, (classify o (.frame p) : Class Keylog.Key) = .ignore w) := by
  simp only [classify, h]
  split
  · exact .inr ⟨_, rfl⟩
  · split
    · exact .inr ⟨_, rfl⟩
    · exact .inl ⟨_, rfl⟩

theorem views_of_ignored (fl : Flow) (o : Opts) (hc : o.checksumTest = false) (kl : List Keylog.Key) (evs : List CEv)
    (hd : Described fl evs) (hign : ∀ e, CEv.foreign e ∈ evs → Ignored o e) (n : Nat) :
    Spec.Demux.tcpView o (itemsFrom n (evs.map CEv.cap)) = flowPkts fl n evs ∧
      quicView o kl (itemsFrom n (evs.map CEv.cap)) = [] := by
  induction evs generalizing n with
  | nil => exact ⟨rfl, rfl⟩
  | cons ev rest ih =>
    obtain ⟨i1, i2⟩ := ih (fun x hx => hd x (by simp [hx])) (fun e he => hign e (by simp [he])) (n + 1)
    have hev := hd ev (by simp)
    rw [List.map_cons, itemsFrom, tcpView_cons, i1]
    cases ev with
    | seg t d fr tcp =>
      have hev : IsSeg fl d fr tcp := hev
      have hp := pktOf_seg fl d fr tcp hev n
      constructor
      · rw [tcpView_frame o hc]
        simp only [CEv.cap, hp, flowPkts]
        by_cases hpl : tcp.payload = [] <;> simp [hpl]
      · rw [quicView_skip o kl _ _ (classify_tcp o _ (by simp only [CEv.cap, hp])), i2]
    | foreign e =>
      obtain ⟨w, hw⟩ := hign e (by simp) n
      constructor
      · rw [show (CEv.foreign e).cap = e from rfl, tcpView_ignored o _ w hw]; rfl
      · show quicView o kl (Item.frame (pktOf n e.d) :: _) = []
        rw [quicView_skip o kl _ _ (.inr ⟨w, hw⟩), i2]

theorem append3_self {α : Type} (pre blk post : List α) (h : blk = pre ++ blk ++ post) : pre = [] ∧ post = [] := by
  have := congrArg List.length h
  simp only [List.length_append] at this
  exact ⟨List.eq_nil_of_length_eq_zero (by omega), List.eq_nil_of_length_eq_zero (by omega)⟩

/-- **Nothing else is exported when the loop ignores everything else**: then `OthersFit` holds for the block of the
    session of interest, whatever it is. -/
theorem othersFit_of_ignored (mask : Quic.Dissect.MaskFn) (H : Crypto.Prims) (P : Cipher.Prims) (args : Args)
    (keyFile : Option Keylog.Str) (fl : Flow) (evs : List CEv) (hd : Described fl evs)
    (hnoc : args.checksumTest = false)
    (pm : List (Int × Int)) (ports : List Int)
    (hpm : Options.getPortMap Options.Src.bare args.mArg = .ok pm)
    (hports : Options.serverPorts Options.Src.builtin Options.Src.pDefault args.pArg = .ok ports)
    (hign : ∀ e, CEv.foreign e ∈ evs → Ignored (optsOf args ports pm) e)
    (p0 : Pkt) (rest : List Pkt) (hfp : flowPkts fl 0 evs = p0 :: rest)
    (hcand : candidate (optsOf args ports pm) p0 = true) (blk : List Pipeline.OutPkt)
    (hsess : Pipeline.connOut H P (capInfo (evs.map CEv.cap))
      (sessionOf (evs.map CEv.cap) (optsOf args ports pm) p0 rest) ((fileKeysOf keyFile).getD []) = some blk) :
    OthersFit mask H P args keyFile (evs.map CEv.cap) blk := by
  intro out pre post hout hsplit
  obtain ⟨hv1, hv2⟩ := views_of_ignored fl (optsOf args ports pm) hnoc ((fileKeysOf keyFile).getD []) evs hd hign 0
  have hF := flow_filter fl (optsOf args ports pm) hnoc evs hd 0
  rw [hv1] at hF
  have hall : ∀ x ∈ flowPkts fl 0 evs, sameFlow (refPkt fl) x = true := by
    intro x hx
    have : x ∈ (flowPkts fl 0 evs).filter (sameFlow (refPkt fl)) := by rw [hF]; exact hx
    exact (List.mem_filter.mp this).2
  have hfr := framesFrom_eq mask H P args (fileKeysOf keyFile) (itemsFrom 0 (evs.map CEv.cap)) (capInfo (evs.map CEv.cap))
    pm ports hpm hports
  rw [C18.fresh_run_is, hv1, hv2, dsbKeys_itemsFrom, List.append_nil,
    C04.tls_alone_is_run _ _ (refPkt fl) _ hall, hfp] at hfr
  simp only [alone, hcand, if_true, Option.toList, quicRun, List.foldl_nil, List.flatMap_nil, List.append_nil,
    List.flatMap_cons, feedAll_tls, sessionOf_eq] at hfr
  have hTM : (Pipeline.tlsMachine H P (capInfo (evs.map CEv.cap))).out
      (sessionOf (evs.map CEv.cap) (optsOf args ports pm) p0 rest) ((fileKeysOf keyFile).getD []) = blk := by
    show (Pipeline.connOut H P _ _ _).getD [] = blk
    rw [hsess]; rfl
  rw [hTM] at hfr
  rw [hfr] at hout
  cases hout
  obtain ⟨h1, h2⟩ := append3_self pre blk post hsplit
  subst h1; subst h2
  intro x hx; cases hx

end

end TLX.Props.C01File2

/-! ### non-vacuity -/
namespace TLX.Props.C01File2.Ex
open TLX TLX.MainLoop TLX.Spec.Demux TLX.Dissect TLX.Export TLX.Props.C01File TLX.Props.C01File.Ex
open TLX.Spec.FrameBuild TLX.Spec.TlsCapture TLX.Spec.NssKeylog
open TLX.Cipher TLX.RecordLayer TLX.Spec.TlsSender TLX.Props.C01 TLX.Lemmas.Pipeline TLX.Spec.TlsConnection
open TLX.Lemmas.Capstone TLX.Props.C01Pipeline TLX.Spec.TlsFraming TLX.Props.C01Capstone TLX.Props.C01Capstone.Ex
open TLX.Props.C01Pipeline.Ex2 TLX.Props.C01.Ex

/-- the key-log FILE: a comment (LF), the connection's CLIENT_RANDOM line with UPPER-CASE client-random digits (CRLF), a line
    of another tool (LF) -/
def tr0 : Triple := ⟨Keylog.s_CLIENT_RANDOM, Pipeline.natsOfBytes cr0, List.replicate 48 5⟩
def hcU : Keylog.Str := (Keylog.hexOf (Pipeline.natsOfBytes cr0)).map fun c => if 97 ≤ c ∧ c ≤ 102 then c - 32 else c
def ls0 : List (C09Found.FLine × Bool) :=
  [(.other [35, 32, 107, 101, 121, 115], false), (.key tr0 hcU (Keylog.hexOf (List.replicate 48 5)), true),
   (.other [83, 79, 77, 69, 32, 116, 111, 111, 108], false)]

def fkU : Keylog.Key := ⟨Keylog.s_CLIENT_RANDOM, hcU, Keylog.hexOf (List.replicate 48 5)⟩

theorem ls0_wf : ∀ x ∈ ls0, x.1.WF := by
  intro x hx
  simp only [ls0, List.mem_cons, List.mem_nil_iff, or_false] at hx
  rcases hx with rfl | rfl | rfl
  · exact ⟨by decide, by decide, Lemmas.Keylog.not_looks_of_first 35 _ (by decide)⟩
  · show DenotesVia _ tr0 hcU _
    exact ⟨rfl, by decide, by decide +kernel, by decide, by decide +kernel, by decide⟩
  · refine ⟨by decide, by decide, ?_⟩
    rintro ⟨w, h, rest, e, _, _, hl, _⟩
    have := congrArg List.length e
    simp only [List.length_append, List.length_cons, hl] at this
    simp at this
    omega

theorem arp_ignored : Ignored (optsOf args0 ports0 []) arp := by
  intro tag
  exact ⟨.notTcpUdp, by simp [arp, pktOf, Ingest.otherPkt, classify]⟩

/-- **Non-vacuity of `tls12_capture_exact_text`.** Every hypothesis is discharged for the concrete capture file of
    `C01File.Ex` and this key-log file — EXCEPT the one IEEE-754 fact (`hus`: the doubles the tool computes for the ten packet
    times round to less than 2^64 µs), which no Lean proof can evaluate; the harness replays it on CPython.  So: the run
    writes a file, and the file contains exactly the conversation "hi" / sixteen bytes. -/
theorem tls12_text_instance (hus : ∀ e ∈ evs0.map CEv.cap, e.us < 2 ^ 64) :
    ∃ f, exportFile (fun _ _ _ => none) hashes Cipher.Toy.prims args0 cv0.isLegacy (some (C09Found.fileText ls0))
        (Spec.Containers.encode cv0 cevs0) = .file f ∧ Exact f sess0 hi k16 := by
  have hres : CipherSuite.resolve (Bytes.beNat t0.sh.cipherSuite) = some ps0 := by decide +kernel
  have hargs : Pipeline.suiteArgs ps0 = some a0 := some_getD _ _ (by decide +kernel)
  have hfound : (C09Found.linesFor (Pipeline.natsOfBytes t0.ch.random) ls0).filter
      (fun k => k.label == Keylog.s_CLIENT_RANDOM || k.label == Keylog.s_RSA)
        = fkU :: [] := by decide +kernel
  have hsec : Pipeline.secretsOf false (fkU :: [])
      = some secrets0 := by decide +kernel
  have hgen : KeySchedule.generateKeys hashes (Pipeline.ksVersion .tls12) a0.ks secrets0 t0.ch.random t0.sh.random
      = .ok (some (.legacy k0)) :=
    gen_eq (KeySchedule.generateKeys hashes .tls12 a0.ks secrets0 cr0 sr0) k0 (by decide +kernel)
  have hcls : classOf a0.bulk (Pipeline.rlVersion .tls12)
      (Session.extGet ((t0.sh.extensions.getD []).map extPair) [0x00, 0x16]).isSome a0.tagLen = some cls0 := by
    decide +kernel
  have hmac : 0 < (KeySchedule.macSuite hashes a0.ks.mac).outLen := by decide +kernel
  have hck : KeyMatOk cls0 k0.clientKey k0.clientIv := by decide +kernel
  have hsk : KeyMatOk cls0 k0.serverKey k0.serverIv := by decide +kernel
  have hokc : ∀ e ∈ t0.cEvs, EvOk1 cls0 (KeySchedule.macSuite hashes a0.ks.mac).outLen e := by decide +kernel
  have hoks : ∀ e ∈ t0.sEvs, EvOk1 cls0 (KeySchedule.macSuite hashes a0.ks.mac).outLen e := by decide +kernel
  have hwr : ∀ d, ∀ r ∈ t0.records Cipher.Toy.prims Cipher.Toy.laws cls0 (legacySnd k0) d, WholeRecord r := by
    intro d; cases d <;> decide +kernel
  have hlen : t0.cEvs.length + t0.sEvs.length ≤ seqLimit := by decide +kernel
  have hsc : Script12 t0.cEvs := ⟨[[16, 0, 0, 2, 9, 9]], _, rfl, by decide, by
    intro e he
    simp only [List.mem_cons, List.mem_nil_iff, or_false] at he
    rcases he with rfl | rfl | rfl <;> exact ⟨_, _, _, rfl, by decide⟩⟩
  have hss : Script12 t0.sEvs := ⟨[[11, 0, 0, 3, 1, 2, 3, 14, 0, 0, 0]], _, rfl, by decide, by
    intro e he
    simp only [List.mem_cons, List.mem_nil_iff, or_false] at he
    rcases he with rfl | rfl <;> exact ⟨_, _, _, rfl, by decide⟩⟩
  have e1 : Spec.TlsConnection.plainOf t0.cEvs = hi := by decide +kernel
  have e2 : Spec.TlsConnection.plainOf t0.sEvs = k16 := by decide +kernel
  -- the key log the tool reads from the text
  have hkl : (Keylog.findSessionSecrets ((fileKeysOf (some (C09Found.fileText ls0))).getD [])
      (Pipeline.natsOfBytes t0.ch.random)).filter
        (fun k => k.label == Keylog.s_CLIENT_RANDOM || k.label == Keylog.s_RSA) = fkU :: [] := by
    rw [C09Found.found12_fileText ls0 ls0_wf]; exact hfound
  obtain ⟨hF, hcand, _, _, hdelv⟩ := described_session fl0 (by decide) evs0 described0 (optsOf args0 ports0 []) rfl
    (by decide +kernel) (by decide +kernel) p00 TLX.Props.C01File.Ex.pkts0.tail fp0
  -- the session-level facts, for `RecordsFit` and `OthersFit`
  obtain ⟨frames, hconn, hre, _⟩ := tls12_connection_exact hashes Cipher.Toy.prims Cipher.Toy.laws
    ((fileKeysOf (some (C09Found.fileText ls0))).getD []) (capInfo (evs0.map CEv.cap)) sess0 rfl t0
    (by decide) (by decide) rfl rfl rfl rfl .tls12 (by decide) (by unfold Negotiated; decide)
    ps0 hres a0 hargs fkU [] hkl secrets0 hsec k0 hgen cls0 hcls hmac hck hsk hsc hss hokc hoks hwr hlen
    (hdelv _ wires0) causal0'
  rw [e1, e2] at hre
  have hrecfit := recordsFit_of_total _ _ _ _ _ frames hi k16 hconn hre (by decide)
  have h := tls12_capture_exact_text (fun _ _ _ => none) hashes Cipher.Toy.prims Cipher.Toy.laws
    fl0 (by decide) evs0 described0 times0 cv0 cevs0 cwf0 items0
    args0 ls0 ls0_wf rfl rfl [] ports0 rfl rfl (by decide +kernel) (by decide +kernel) p00 TLX.Props.C01File.Ex.pkts0.tail fp0
    t0 (by decide) (by decide) rfl rfl rfl rfl .tls12 (by decide) (by unfold Negotiated; decide)
    ps0 hres a0 hargs fkU [] hfound secrets0 hsec k0 hgen cls0 hcls hmac hck hsk hsc hss hokc hoks hwr hlen
    wires0 causal0' (by decide) (by decide) (by intro kv hkv; cases hkv) (by rw [e1, e2]; decide) hrecfit hus
    (fun blk hblk => othersFit_of_ignored _ _ _ args0 _ fl0 evs0 described0 rfl [] ports0 rfl rfl
      (by
        intro e he
        simp only [evs0, List.mem_cons] at he
        rcases he with he | he
        · cases he; exact arp_ignored
        · exfalso
          have : ∀ (l : List (Bool × Bytes × Nat)) (n : Nat), CEv.foreign e ∉ segEvs n l := by
            intro l
            induction l with
            | nil => intro n h; cases h
            | cons x xs ih =>
              obtain ⟨d, pl, off⟩ := x
              intro n h
              simp only [segEvs, List.mem_cons] at h
              rcases h with h | h
              · cases h
              · exact ih (n + 1) h
          exact this _ _ he)
      p00 TLX.Props.C01File.Ex.pkts0.tail fp0 hcand blk hblk)
  rw [e1, e2] at h
  exact h
end TLX.Props.C01File2.Ex
