/-
C11 — with `-c` exactly the packets with a bad transport checksum are ignored.

Property theorems about the model `TLX.Checksum` (checksums.py and the `-c` branches of main.py) against
the independent receiver-side specification `TLX.Spec.Rfc1071`. Helper lemmas: `TLX.Lemmas.OnesComplement`.
All statements hold for every input: no bound on lengths, sums or the number of packets.

Names used in the statements and defined with the lemmas (`TLX/Lemmas/OnesComplement.lean`):
`toSpec` (model transport ↦ specification transport) and `Dissected k v6 src dst seg` — what dpkt's
dissection and the IP header guarantee: addresses of even length (4 / 16 bytes), a segment that
contains the checksum field, a segment length that fits the IP length field (`< 2^16` / `< 2^32`).
-/
import TLX.Lemmas.OnesComplement
namespace TLX.Props.C11
open TLX TLX.Checksum TLX.Spec.Rfc1071 TLX.Lemmas.OnesComplement

/-! ### The fold loop -/

/-- The `while checksum > 0xFFFF` loop computes the RFC 1071 end-around-carry reduction of any sum:
    `0` for `0`, otherwise the representative of `s` modulo `0xFFFF` in `1 … 0xFFFF`. -/
theorem fold_eq_rfc1071 : ∀ s : Nat, implFold s = if s = 0 then 0 else (s - 1) % 65535 + 1 :=
  fun s => implFold_eq_norm s

/-- … so its result always fits the two bytes it is written to. -/
theorem fold_le (s : Nat) : implFold s ≤ 65535 := by
  rw [implFold_eq_norm]; exact norm_le s

/-- `ones_complement_checksum` returns two bytes for every byte string: no `OverflowError`, whatever
    the 32-bit sum is (in particular for sums that fold through exactly `0x10000`). -/
theorem ones_complement_checksum_total (b : Bytes) :
    ∃ hi lo : UInt8, onesComplementChecksum b = .ok [hi, lo] := by
  rw [onesComplementChecksum_eq, ofNatBE_two]
  exact ⟨_, _, rfl⟩

/-- Regression witness for the loop condition the source had before the repair (`> 65536`): a sum of
    exactly `0x10000` was left unfolded, does not fit `to_bytes(2)` (the run died with `OverflowError`),
    and is not the RFC 1071 value `1`. -/
theorem prefix_loop_counterexample :
    implFoldPreFix 65536 = 65536 ∧ toBytes2 (implFoldPreFix 65536) = .error .overflow ∧
    ¬ (∀ s : Nat, implFoldPreFix s = if s = 0 then 0 else (s - 1) % 65535 + 1) := by
  have h : implFoldPreFix 65536 = 65536 := by rw [implFoldPreFix]; simp
  refine ⟨h, ?_, ?_⟩
  · rw [h]; rfl
  · intro hall
    have := hall 65536
    rw [h] at this
    simp at this

/-! ### From sums to byte strings -/

/-- The word sum of a concatenation splits when the first part has even length (pseudo-header,
    transport header up to the checksum field). -/
theorem wordSum_append (a b : Bytes) (h : a.length % 2 = 0) :
    wordSum (a ++ b) = wordSum a + wordSum b :=
  TLX.Lemmas.OnesComplement.wordSum_append a b h

/-- Zeroing the checksum field removes exactly the stored checksum from the (padded) word sum, for
    segments of odd and of even length. -/
theorem wordSum_pad_field (k : L4) (seg : Bytes) (hlen : k.off + 2 ≤ seg.length) :
    wordSum (pad seg) = wordSum (pad (zeroField k seg)) + Bytes.beNat (storedField k seg) := by
  obtain ⟨h, l, hseg, hst⟩ := split_field k seg hlen
  have hpre : (seg.take k.off).length % 2 = 0 := by
    have := off_even k
    simp only [List.length_take]; omega
  have e1 : S seg = wordSum (seg.take k.off) + (h.toNat * 256 + l.toNat) + S (seg.drop (k.off + 2)) := by
    conv => lhs; rw [hseg]
    rw [List.append_assoc, S_append _ _ hpre, S_append [h, l] _ (by simp), wordSum_two]
    omega
  have e2 : S (zeroField k seg) = wordSum (seg.take k.off) + S (seg.drop (k.off + 2)) := by
    unfold zeroField
    rw [List.append_assoc, S_append _ _ hpre, S_append [0, 0] _ (by simp)]
    simp [wordSum]
  have e3 : Bytes.beNat (storedField k seg) = h.toNat * 256 + l.toNat := by
    rw [hst]; simp [Bytes.beNat]
  unfold S at e1 e2
  omega

/-- The specification's one's-complement sum (end-around carry, word by word) of a byte string is the
    implementation's fold of its 32-bit sum. -/
theorem ocSum_eq_fold (b : Bytes) : ocSum (words b) = implFold (wordSum (pad b)) := by
  rw [ocSum_eq_norm _ (words_le b), words_sum, implFold_eq_norm]; rfl

/-! ### The per-packet decision -/

/-- **C11, per packet.** For IPv4 and IPv6, TCP and UDP, every segment length (odd or even), every
    payload and every value of the checksum field: `calculate_checksum_tcp/udp` return without an
    exception, and return `True` exactly for the packets an RFC 1071 receiver accepts
    (UDP: a stored `0xFFFF` stands for a computed zero; a zero field over IPv6 is invalid).
    Excluded by hypothesis: UDP over IPv4 without a checksum (field zero), which is neither right nor wrong. -/
theorem check_eq_rfc_verify (k : L4) (v6 : Bool) (src dst seg : Bytes)
    (hd : Dissected k v6 src dst seg)
    (hnc : verdict (toSpec k) v6 src dst seg ≠ .noChecksum) :
    check k v6 src dst k.num seg = .ok (decide (verdict (toSpec k) v6 src dst seg = .valid)) := by
  obtain ⟨st, hstle, hstored, hoc, hchk⟩ := check_arith k v6 src dst seg hd
  have h0 := baseSum_pos k v6 src dst seg
  rw [hchk]
  congr 1
  generalize baseSum k v6 src dst seg = s0 at *
  cases k with
  | tcp =>
    have hstored' : storedChecksum .tcp seg = st := hstored
    have hoc' : ocSum (pseudoWords v6 src dst .tcp seg.length ++ words seg) = norm (s0 + st) := hoc
    have hv : verdict .tcp v6 src dst seg = .valid ↔ norm (s0 + st) = 65535 := by
      have hne : ¬ (Transport.tcp = Transport.udp ∧ storedChecksum .tcp seg = 0) := by simp
      simp only [verdict, hne, if_false, hoc']
      split <;> simp [*]
    have e : decide (verdict (toSpec .tcp) v6 src dst seg = .valid)
        = decide ((65535 - norm s0 = 0 ∧ st = 65535) ∨ 65535 - norm s0 = st) :=
      decide_eq_decide.mpr (hv.trans (tcp_decision s0 st h0 hstle).symm)
    refine Eq.trans ?_ e.symm
    dsimp only
    split <;> simp_all
  | udp =>
    have hstored' : storedChecksum .udp seg = st := hstored
    have hoc' : ocSum (pseudoWords v6 src dst .udp seg.length ++ words seg) = norm (s0 + st) := hoc
    have hnc' : verdict .udp v6 src dst seg ≠ .noChecksum := hnc
    dsimp only
    by_cases hz : st = 0
    · cases v6 with
      | false => exact absurd (by simp [verdict, hstored', hz]) hnc'
      | true =>
        have hv : verdict (toSpec .udp) true src dst seg = .invalid := by
          show verdict .udp true src dst seg = .invalid
          simp [verdict, hstored', hz]
        have hne := udp_zero s0 h0
        rw [hv, hz]
        simp [hne]
    · have hv : verdict .udp v6 src dst seg = .valid ↔ norm (s0 + st) = 65535 := by
        have hne : ¬ (Transport.udp = Transport.udp ∧ storedChecksum .udp seg = 0) := by simp [hstored', hz]
        rw [verdict, if_neg hne, hoc']
        split <;> simp [*]
      exact decide_eq_decide.mpr ((udp_decision s0 st h0 hstle hz).trans hv.symm)

/-- With `-c` no packet can end the run through the checksum code: `check` always returns. -/
theorem check_never_raises (k : L4) (v6 : Bool) (src dst seg : Bytes) (hd : Dissected k v6 src dst seg) :
    ∃ b, check k v6 src dst k.num seg = .ok b := by
  obtain ⟨ph, hph, hcalc⟩ := model_sum k v6 src dst seg hd
  simp only [check, hph, hcalc, bind, Except.bind, pure, Except.pure]
  cases k with
  | tcp => dsimp only; split <;> exact ⟨_, rfl⟩
  | udp => exact ⟨_, rfl⟩

/-- Outside the property (recorded for completeness): a UDP/IPv4 packet sent without a checksum is
    dropped by `-c`. -/
theorem check_udp4_nochecksum (src dst seg : Bytes) (hd : Dissected .udp false src dst seg)
    (hz : verdict .udp false src dst seg = .noChecksum) :
    check .udp false src dst 17 seg = .ok false := by
  obtain ⟨st, _, hstored, _, hchk⟩ := check_arith .udp false src dst seg hd
  have hne := udp_zero _ (baseSum_pos .udp false src dst seg)
  have hst0 : st = 0 := by
    simp only [toSpec] at hstored
    by_cases hq : storedChecksum .udp seg = 0
    · omega
    · simp only [verdict, hq, and_false, if_false] at hz
      split at hz <;> simp at hz
  have hk : L4.udp.num = 17 := rfl
  rw [hk] at hchk
  rw [hchk, hst0]
  simp [hne]

/-! ### The packet loop -/

/-- A packet the receiver of the specification discards: TCP or UDP with a wrong checksum. -/
def bad (pk : Pkt) : Bool :=
  match pk.kind with
  | .other => false
  | .l4 k => decide (verdict (toSpec k) pk.v6 pk.src pk.dst pk.seg = .invalid)

/-- What dissection guarantees for the packets of a capture, and the property's exclusion of
    checksum-less UDP/IPv4. `pk.p = k.num`: dpkt chooses the TCP/UDP class by this very number. -/
def Admissible (pk : Pkt) : Prop :=
  match pk.kind with
  | .other => True
  | .l4 k => Dissected k pk.v6 pk.src pk.dst pk.seg ∧ pk.p = k.num ∧
      verdict (toSpec k) pk.v6 pk.src pk.dst pk.seg ≠ .noChecksum

/-- One iteration with `-c` is: nothing for a bad packet, the iteration without `-c` otherwise. -/
theorem step_c {σ : Type} (h : L4 → σ → Pkt → Except Err σ) (s : σ) (pk : Pkt) (ha : Admissible pk) :
    step true h s pk = if bad pk then pure s else step false h s pk := by
  unfold Admissible at ha
  cases hk : pk.kind with
  | other => simp [step, bad, hk]
  | l4 k =>
    rw [hk] at ha
    obtain ⟨hd, hp, hnc⟩ := ha
    simp only [step, bad, hk]
    by_cases hpl : pk.payloadLen = 0
    · simp [hpl]
    · simp only [hpl, if_false, Bool.not_true, Bool.false_eq_true, Bool.not_false, if_true, hp,
        check_eq_rfc_verify k pk.v6 pk.src pk.dst pk.seg hd hnc, bind, Except.bind, pure, Except.pure]
      cases hv : verdict (toSpec k) pk.v6 pk.src pk.dst pk.seg with
      | valid => simp
      | invalid => simp
      | noChecksum => exact absurd hv hnc

/-- **C11, whole run.** For an arbitrary handler of accepted packets (which may itself raise) and any
    start state: running the loop with `-c` over a capture gives the same result — final state or
    exception — as running it without `-c` over the capture with the bad packets removed. Any number of
    packets, any subset of them corrupted. -/
theorem run_c_eq_run_filter {σ : Type} (h : L4 → σ → Pkt → Except Err σ) (pkts : List Pkt)
    (hadm : ∀ pk ∈ pkts, Admissible pk) :
    ∀ s : σ, run true h s pkts = run false h s (pkts.filter fun pk => !bad pk) := by
  induction pkts with
  | nil => intro s; rfl
  | cons pk rest ih =>
    intro s
    have ha := hadm pk (by simp)
    have ih' := ih (fun q hq => hadm q (by simp [hq]))
    simp only [run, List.foldlM_cons, List.filter_cons] at *
    rw [step_c h s pk ha]
    cases hb : bad pk with
    | true => simp [ih', pure, Except.pure, bind, Except.bind]
    | false =>
      simp only [Bool.false_eq_true, if_false, Bool.not_false, if_true, List.foldlM_cons]
      cases step false h s pk with
      | error e => rfl
      | ok s' => simp only [bind, Except.bind]; exact ih' s'

/-- The packets that reach a handler under `-c`. -/
def reaches (pk : Pkt) : Bool :=
  match pk.kind with
  | .other => false
  | .l4 k => pk.payloadLen != 0 && decide (verdict (toSpec k) pk.v6 pk.src pk.dst pk.seg = .valid)

/-- One iteration of the `-c` loop with the collecting handler. -/
theorem step_collect (acc : List Pkt) (pk : Pkt) (ha : Admissible pk) :
    step true (fun _ acc pk => pure (acc ++ [pk])) acc pk = .ok (if reaches pk then acc ++ [pk] else acc) := by
  unfold Admissible at ha
  cases hk : pk.kind with
  | other => simp [step, reaches, hk, pure, Except.pure]
  | l4 k =>
    rw [hk] at ha
    obtain ⟨hd, hp, hnc⟩ := ha
    simp only [step, reaches, hk]
    by_cases hpl : pk.payloadLen = 0
    · simp [hpl, pure, Except.pure]
    · simp only [hpl, if_false, Bool.not_true, Bool.false_eq_true, hp,
        check_eq_rfc_verify k pk.v6 pk.src pk.dst pk.seg hd hnc, bind, Except.bind, pure, Except.pure]
      cases hv : verdict (toSpec k) pk.v6 pk.src pk.dst pk.seg with
      | valid => simp [hpl]
      | invalid => simp
      | noChecksum => exact absurd hv hnc

/-- The `-c` filter never raises and keeps, in capture order, exactly the TCP/UDP packets with payload
    that the RFC receiver accepts. -/
theorem filterValid_eq_filter (pkts : List Pkt) (hadm : ∀ pk ∈ pkts, Admissible pk) :
    filterValid pkts = .ok (pkts.filter reaches) := by
  suffices hgen : ∀ acc : List Pkt,
      run true (fun _ acc pk => pure (acc ++ [pk])) acc pkts = .ok (acc ++ pkts.filter reaches) by
    simpa [filterValid] using hgen []
  induction pkts with
  | nil => intro acc; simp [run, pure, Except.pure]
  | cons pk rest ih =>
    intro acc
    have ha := hadm pk (by simp)
    have ih' := ih (fun q hq => hadm q (by simp [hq]))
    simp only [run, List.foldlM_cons, List.filter_cons] at *
    rw [step_collect acc pk ha]
    simp only [bind, Except.bind]
    cases hr : reaches pk with
    | true => simp [ih' (acc ++ [pk])]
    | false => simp [ih' acc]

/-! ### Non-vacuity: concrete inputs meeting the hypotheses -/

section Examples

private def src4 : Bytes := [0x0a, 0x00, 0x00, 0x01]
private def dst4 : Bytes := [0x0a, 0x00, 0x00, 0x02]
/-- TCP 40000 → 443, seq 1000, ack 2000, PSH|ACK, "hello" (odd length), checksum 0x8e3f. -/
private def segGood : Bytes := [0x9c, 0x40, 0x01, 0xbb, 0x00, 0x00, 0x03, 0xe8, 0x00, 0x00, 0x07, 0xd0, 0x50, 0x18,
  0x20, 0x00, 0x8e, 0x3f, 0x00, 0x00, 0x68, 0x65, 0x6c, 0x6c, 0x6f]
/-- The same segment with the last payload bit flipped. -/
private def segBad : Bytes := [0x9c, 0x40, 0x01, 0xbb, 0x00, 0x00, 0x03, 0xe8, 0x00, 0x00, 0x07, 0xd0, 0x50, 0x18,
  0x20, 0x00, 0x8e, 0x3f, 0x00, 0x00, 0x68, 0x65, 0x6c, 0x6c, 0x6e]

private theorem good_dissected : Dissected .tcp false src4 dst4 segGood := ⟨by decide, by decide, by decide, by decide⟩
private theorem bad_dissected : Dissected .tcp false src4 dst4 segBad := ⟨by decide, by decide, by decide, by decide⟩
private theorem good_valid : verdict .tcp false src4 dst4 segGood = .valid := by decide
private theorem bad_invalid : verdict .tcp false src4 dst4 segBad = .invalid := by decide
example : check .tcp false src4 dst4 6 segGood = .ok true := by
  have h := check_eq_rfc_verify .tcp false src4 dst4 segGood good_dissected (by decide)
  rw [show verdict (toSpec .tcp) false src4 dst4 segGood = .valid from good_valid] at h
  exact h
example : check .tcp false src4 dst4 6 segBad = .ok false := by
  have h := check_eq_rfc_verify .tcp false src4 dst4 segBad bad_dissected (by decide)
  rw [show verdict (toSpec .tcp) false src4 dst4 segBad = .invalid from bad_invalid] at h
  exact h

/-- UDP/IPv4, odd length, whose 32-bit sum over pseudo-header and segment (field zero) is exactly
    `0x10000` — the sum the loop condition `> 65536` left unfolded. -/
private def srcU : Bytes := [0x01, 0x00, 0x00, 0x02]
private def dstU : Bytes := [0x01, 0x00, 0x00, 0x05]
private def segU : Bytes := [0x00, 0x1a, 0x00, 0x2a, 0x00, 0x0f, 0xff, 0xfe, 0x05, 0x80, 0x22, 0x13, 0x40, 0xf3, 0x95]
private theorem u_valid : verdict .udp false srcU dstU segU = .valid := by decide
example : baseSum .udp false srcU dstU segU = 0x10000 := by decide
example : check .udp false srcU dstU 17 segU = .ok true := by
  have h := check_eq_rfc_verify .udp false srcU dstU segU ⟨by decide, by decide, by decide, by decide⟩ (by decide)
  rw [show verdict (toSpec .udp) false srcU dstU segU = .valid from u_valid] at h
  exact h
example : wordSum (pad [0xFF, 0xFF, 0x00, 0x01]) = 0x10000 := by decide
example : onesComplementChecksum [0xFF, 0xFF, 0x00, 0x01] = .ok [0xFF, 0xFE] := by
  rw [onesComplementChecksum_eq]; rfl

/-- UDP/IPv6 whose computed checksum is zero and which therefore carries `0xFFFF` (RFC 768). -/
private def src6 : Bytes := [0, 0, 0, 0, 0, 0, 0, 0, 0, 0, 0, 0, 0, 0, 0, 3]
private def dst6 : Bytes := [0, 0, 0, 0, 0, 0, 0, 0, 0, 0, 0, 0, 0, 0, 0, 2]
private def seg6 : Bytes := [0x00, 0x04, 0x00, 0x35, 0x00, 0x12, 0xff, 0xff, 0x49, 0xdb, 0x00, 0x51, 0xff, 0xff, 0x44,
  0x2f, 0x71, 0x31]
private theorem v6_valid : verdict .udp true src6 dst6 seg6 = .valid := by decide
example : baseSum .udp true src6 dst6 seg6 = 0x1FFFE := by decide
example : check .udp true src6 dst6 17 seg6 = .ok true := by
  have h := check_eq_rfc_verify .udp true src6 dst6 seg6 ⟨by decide, by decide, by decide, by simp [seg6]⟩
    (by simp [toSpec, v6_valid])
  rw [show verdict (toSpec .udp) true src6 dst6 seg6 = .valid from v6_valid] at h
  exact h

/-- TCP whose computed checksum is `0x0000` and which carries the other zero, `0xFFFF`. -/
private def srcT : Bytes := [0x01, 0x00, 0x00, 0x03]
private def dstT : Bytes := [0x01, 0x00, 0x00, 0x04]
private def segT : Bytes := [0x00, 0x25, 0x00, 0x04, 0x00, 0x00, 0x00, 0x1a, 0x00, 0x00, 0x00, 0x3f, 0x50, 0x18, 0x00,
  0x36, 0xff, 0xff, 0x00, 0x00, 0x29, 0x1f, 0x0f, 0xe6, 0x74, 0x03]
example : baseSum .tcp false srcT dstT segT = 0xFFFF := by decide
example : verdict .tcp false srcT dstT segT = .valid := by decide

/-- A three-packet capture (good, bad, not TCP/UDP) satisfying the hypotheses of the run theorems. -/
private def cap : List Pkt :=
  [⟨.l4 .tcp, false, src4, dst4, 6, segGood, 5⟩, ⟨.l4 .tcp, false, src4, dst4, 6, segBad, 5⟩,
   ⟨.other, false, [], [], 0, [], 0⟩]
example : ∀ pk ∈ cap, Admissible pk := by
  intro pk hpk
  simp only [cap, List.mem_cons, List.not_mem_nil, or_false] at hpk
  rcases hpk with rfl | rfl | rfl
  · exact ⟨good_dissected, rfl, by decide⟩
  · exact ⟨bad_dissected, rfl, by decide⟩
  · trivial
example : (cap.filter fun pk => !bad pk).length = 2 := by decide
example : (cap.filter reaches).length = 1 := by decide

end Examples

end TLX.Props.C11
