/-
Whole-program forms of C12, C09, C11 (and C03): theorems about `TLX.Export.exportFile` / `framesFrom`, lifting the reader,
key-log and checksum results through the read loop `TLX.Ingest`. For every hash suite `H`, cipher primitives `P`, mask.

1. C12  `export_container_independent` — two container variants of one capture ⇒ byte-identical outcome, under
        `hkeep` (both can hold the secrets blocks) and `FloatResidue` (the IEEE-754 step: `Container.Time.toFloat` is
        opaque to the kernel, so the residue of `Props.C12` stays a hypothesis; it FAILS for clocks whose quotient
        ticks/divisor exceeds 2^31 s — replayed on the real tool by harness/export_inputs_replay.py: 1 µs difference in
        the output, tool = model). `export_layout_independent`: no float hypothesis between variants with the same clock.
2. C09  `dsb_position_irrelevant_tls` (a DSB anywhere: TLS decrypts at the end of the run), `dsb_position_irrelevant_partial`
        (whole output; DSB moved across a stretch without QUIC datagrams), `dsb_position_matters_to_the_quic_loop` (why QUIC is
        excluded: a QUIC session derives keys when the datagram is read; real tool: 10 frames vs 0 frames),
        `export_key_delivery_independent` (`-s` file ↔ DSBs in front, any numbers, key logs alike for every session:
        `SameView`; texts: `delivery_keys`, `delivery_same_keys_of_text`, `foreign_line_adds_nothing`,
        `sameView_of_perm_across`), `export_key_delivery_independent_file` (files, same block layout),
        `export_dsb_only_without_s`.
        MISSING: (a) permuting lines of the SAME client random under the consistency condition (needs the order-independence
        of `KeySchedule.devTls13Keys` / `devQuicKeys`, which `Props.C09` proves for the lookup model `Keylog.installed`, not
        yet connected to `Pipeline.genKeys`); (b) file level with a different NUMBER of blocks (tags = positions; needs the
        invariance of the session machines under renaming of tags).
3. C11  `checksum_filter_loop`, `export_checksum_filter_frames`, `export_checksum_filter` (with `-c` = without `-c` on the
        items minus the rejected frames; at file level stated on the read loop's items for the same renaming reason),
        `ingest_verdict_rfc1071` (the verdict bit is the RFC 1071 receiver's verdict, through dpkt's dissection),
        `export_ignores_checksums_without_c`, `checksum_fields_not_dissected`.
4. C03  `export_bystander_unaffected`, `bystander_frames_same`, `bystander_in_output` (TLS conversations; victims: any items
        without key material on other TCP flows, UDP / QUIC, non-IP).
-/
import TLX.Props.Export
import TLX.Props.ExportProps
import TLX.Props.C12
import TLX.Props.C09Found
import TLX.Props.C11
import TLX.Props.C12Dissect
set_option linter.unusedSimpArgs false
namespace TLX.Props.ExportInputs
open TLX TLX.MainLoop TLX.Export TLX.Spec.Demux TLX.Lemmas.ExportProps TLX.Lemmas.MainLoop
open TLX.Spec.Containers (Zip Variant CEv Ev represents delivers keep scale encode)

variable (mask : Quic.Dissect.MaskFn) (H : Crypto.Prims) (P : Cipher.Prims)

-- ====================================================================== 0. plumbing: the read loop
section ReadLoop
open TLX.Ingest

/-- what the read loop takes from a reader time stamp: the `ts == -1` test and the microsecond written to the output.
    Both go through IEEE-754 doubles (`Container.Time.toFloat`), which the kernel does not evaluate. -/
def stamp (t : Container.Time) : Bool × Nat := (isMinusOne t, Container.usOfFloat t.toFloat)

/-- two reader items the read loop cannot tell apart: the same bytes, and time stamps with the same `stamp` -/
def SameItem : Container.Item → Container.Item → Prop
  | .pkt t₁ d₁, .pkt t₂ d₂ => d₁ = d₂ ∧ stamp t₁ = stamp t₂
  | .dsb s₁, .dsb s₂ => s₁ = s₂
  | _, _ => False

theorem go_congr (hc : Keylog.HexClass) (c : Bool) {l₁ l₂ : List Container.Item} (h : Zip SameItem l₁ l₂) :
    ∀ tag, go hc c tag l₁ = go hc c tag l₂ := by
  induction h with
  | nil => intro tag; rfl
  | @cons a b as bs hab _ ih =>
    intro tag
    cases a with
    | dsb s₁ =>
      cases b with
      | dsb s₂ =>
        have : s₁ = s₂ := hab
        subst this
        simp only [go, ih]
      | pkt t d => exact absurd hab (by simp [SameItem])
    | pkt t₁ d₁ =>
      cases b with
      | dsb s => exact absurd hab (by simp [SameItem])
      | pkt t₂ d₂ =>
        obtain ⟨hd, hs⟩ : d₁ = d₂ ∧ stamp t₁ = stamp t₂ := hab
        subst hd
        simp only [stamp, Prod.mk.injEq] at hs
        simp only [go, hs.1, hs.2, ih]

theorem readPrefix_of_read (legacy : Bool) (f : Bytes) (xs : List Container.Item)
    (h : Container.read legacy f = .ok xs) : Container.readPrefix legacy f = .ok (xs, none) := by
  unfold Container.read at h
  split at h
  · cases h
  · cases h; assumption
  · cases h

theorem itemsWith_of_read (hc : Keylog.HexClass) (c legacy : Bool) (f : Bytes) (xs : List Container.Item)
    (h : Container.read legacy f = .ok xs) : itemsWith hc c legacy f = go hc c 0 xs := by
  unfold itemsWith
  rw [readPrefix_of_read legacy f xs h]
  simp only
  cases go hc c 0 xs <;> rfl

end ReadLoop

/-- the capture enters `exportFile` only through what the read loop makes of it -/
theorem exportFile_congr_ingest (args : Args) (legacy₁ legacy₂ : Bool) (kl : Option Keylog.Str) (cap₁ cap₂ : Bytes)
    (h : Ingest.itemsWith Keylog.srcHexClass args.checksumTest legacy₁ cap₁ =
         Ingest.itemsWith Keylog.srcHexClass args.checksumTest legacy₂ cap₂) :
    exportFile mask H P args legacy₁ kl cap₁ = exportFile mask H P args legacy₂ kl cap₂ := by
  unfold exportFile exportFrom
  rw [h]

-- ====================================================================== 1. C12: the capture container
section C12
open TLX.Spec.Containers TLX.Props.C12

/-- THE FLOATING-POINT RESIDUE of C12 as a hypothesis: position by position, the two readers' time stamps give the same
    `ts == -1` test and the same microsecond after Python's double arithmetic (`offset + ticks / float(divisor)`, resp.
    `float(Decimal)`) and dpkt's `round(ts * 1e6)`. True whenever both triples are literally equal (`stamp_same_clock`);
    for different clocks of the same instant it is `C12.ts_us_invariant_statement` — not a theorem (IEEE-754), checked on
    every run by harness/c12.py, FALSE outside the domain stated there. -/
def FloatResidue (l₁ l₂ : List Container.Item) : Prop :=
  ∀ p ∈ l₁.zip l₂, match p with
    | (.pkt t₁ _, .pkt t₂ _) => stamp t₁ = stamp t₂
    | _ => True

theorem zip_sameItem {K : List CEv} {a b : List Container.Item} (ha : Zip delivers K a) (hb : Zip delivers K b)
    (hfl : FloatResidue a b) : Zip SameItem a b := by
  induction ha generalizing b with
  | nil => cases hb; exact Zip.nil
  | @cons c x cs xs hcx _ ih =>
    cases hb with
    | @cons _ y _ ys hcy hys =>
      refine Zip.cons ?_ (ih hys (fun p hp => hfl p (by simp [List.zip_cons_cons, hp])))
      have h0 := hfl (x, y) (by simp [List.zip_cons_cons])
      cases c with
      | pkt num den data =>
        cases x with
        | dsb s => exact absurd hcx (by simp [delivers])
        | pkt t₁ d₁ =>
          cases y with
          | dsb s => exact absurd hcy (by simp [delivers])
          | pkt t₂ d₂ => exact ⟨hcx.1.trans hcy.1.symm, h0⟩
      | dsb s =>
        cases x with
        | pkt t d => exact absurd hcx (by simp [delivers])
        | dsb s₁ =>
          cases y with
          | pkt t d => exact absurd hcy (by simp [delivers])
          | dsb s₂ =>
            have e1 : s₁ = s := hcx
            have e2 : s₂ = s := hcy
            exact e1.trans e2.symm

/-- **C12, whole program.** One capture `cap` (packets at exact instants `num/den` s, secrets blocks), written in two
    container variants `v₁`, `v₂` — pcapng little/big endian, any `if_tsresol` (10^-k, 2^-k) and `if_tsoffset`, options and
    unrelated blocks anywhere, EPB or obsolete PB, libpcap µs / ns in either byte order — as event lists `evs₁`, `evs₂`
    whose ticks denote exactly the capture's instants in the respective clock (`represents`; an instant is representable
    in a variant iff `(num/den − offset)·unitsPerSecond` is a natural number that fits the tick field: `Variant.WF`).
    If both containers can hold the capture's secrets (`hkeep`: both pcapng, or no secrets blocks — libpcap has none) and
    the float residue holds (`hfl`), the program's outcome is THE SAME: byte-identical output files, or the same abort —
    for every option vector, key-log file, hash suite, cipher primitives and mask. -/
theorem export_container_independent (args : Args) (kl : Option Keylog.Str) (v₁ v₂ : Variant) (cap : List CEv)
    (evs₁ evs₂ : List Ev) (hwf₁ : v₁.WF evs₁) (hwf₂ : v₂.WF evs₂)
    (hrep₁ : Zip (represents v₁) cap evs₁) (hrep₂ : Zip (represents v₂) cap evs₂)
    (hkeep : keep v₁ cap = keep v₂ cap)
    (hfl : FloatResidue (evs₁.filterMap (scale v₁)) (evs₂.filterMap (scale v₂))) :
    exportFile mask H P args v₁.isLegacy kl (encode v₁ evs₁) = exportFile mask H P args v₂.isLegacy kl (encode v₂ evs₂) := by
  obtain ⟨o₁, r₁, z₁⟩ := container_independent v₁ cap evs₁ hwf₁ hrep₁
  obtain ⟨o₂, r₂, z₂⟩ := container_independent v₂ cap evs₂ hwf₂ hrep₂
  have e₁ : o₁ = evs₁.filterMap (scale v₁) := by
    have := reader_roundtrip v₁ evs₁ hwf₁; rw [r₁] at this; exact Except.ok.inj this
  have e₂ : o₂ = evs₂.filterMap (scale v₂) := by
    have := reader_roundtrip v₂ evs₂ hwf₂; rw [r₂] at this; exact Except.ok.inj this
  subst e₁ e₂
  rw [hkeep] at z₁
  apply exportFile_congr_ingest
  rw [itemsWith_of_read _ _ _ _ _ r₁, itemsWith_of_read _ _ _ _ _ r₂]
  exact go_congr _ _ (zip_sameItem z₁ z₂ hfl) 0

/-- no floating-point hypothesis is needed between variants with the SAME clock: literally equal triples -/
theorem floatResidue_refl (l : List Container.Item) : FloatResidue l l := by
  intro p hp
  obtain ⟨a, b⟩ := p
  have : a = b := by
    induction l with
    | nil => simp at hp
    | cons x xs ih =>
      simp only [List.zip_cons_cons, List.mem_cons, Prod.mk.injEq] at hp
      rcases hp with ⟨rfl, rfl⟩ | hp
      · rfl
      · exact ih hp
  subst this
  cases a <;> simp

/-- **… unconditionally for the container LAYOUT**: byte order, block padding, options, unrelated blocks before and after
    the interface description and around every packet, EPB vs. obsolete PB, original-length fields — everything but the
    clock (`if_tsresol`, `if_tsoffset`). Two pcapng variants that deliver the same items (`hsame`: same resolution and
    offset, same ticks) give byte-identical outcomes; no hypothesis about floating point. -/
theorem export_layout_independent (args : Args) (kl : Option Keylog.Str) (v₁ v₂ : Variant) (evs₁ evs₂ : List Ev)
    (hwf₁ : v₁.WF evs₁) (hwf₂ : v₂.WF evs₂) (hsame : evs₁.filterMap (scale v₁) = evs₂.filterMap (scale v₂)) :
    exportFile mask H P args v₁.isLegacy kl (encode v₁ evs₁) = exportFile mask H P args v₂.isLegacy kl (encode v₂ evs₂) := by
  apply exportFile_congr_ingest
  rw [itemsWith_of_read _ _ _ _ _ (reader_roundtrip v₁ evs₁ hwf₁), itemsWith_of_read _ _ _ _ _ (reader_roundtrip v₂ evs₂ hwf₂),
    hsame]

namespace Ex
open TLX.Props.C12

/-- the clock of `C12.exVariant` (2^-10 s, offset −3 s), little-endian, no decoration at all -/
def plainVariant : NgVariant := { hdr := { e := .le, tsresol := some (.bin 10), tsoffset := some (-3) } }

def exCap : List CEv := [.pkt 3 2 [0xde, 0xad, 0xbe], .dsb [0x43, 0x4c, 0x49], .pkt (2 ^ 40 + 1 - 3072) 1024 []]

theorem exVariant_wf : (Variant.pcapng exVariant).WF exEvs := by
  refine ⟨by decide +kernel, by decide +kernel, by decide +kernel, by decide +kernel, ?_, by decide +kernel⟩
  intro i b hb
  simp only [exVariant] at hb
  split at hb
  · simp only [List.mem_singleton] at hb; subst hb; decide +kernel
  · cases hb

theorem plainVariant_wf : (Variant.pcapng plainVariant).WF exEvs := by
  refine ⟨by decide +kernel, by decide +kernel, by decide +kernel, by decide +kernel, ?_, by decide +kernel⟩
  intro i b hb
  simp [plainVariant] at hb

theorem exCap_rep (v : NgVariant) (hd : v.hdr.divisor = 1024) (ho : v.hdr.offset = -3) :
    Zip (represents (.pcapng v)) exCap exEvs := by
  refine Zip.cons ⟨rfl, ?_⟩ (Zip.cons rfl (Zip.cons ⟨rfl, ?_⟩ Zip.nil)) <;> rw [hd, ho] <;> decide

/-- non-vacuity of `export_container_independent`: the capture of `C12` (a packet at 1.5 s, a secrets block, a packet at
    2^40+1 ticks) in the decorated big-endian variant and in a bare little-endian one: every hypothesis holds, so the
    two FILES (which differ in almost every byte) give the same outcome -/
theorem layout_instance (mask : Quic.Dissect.MaskFn) (H : Crypto.Prims) (P : Cipher.Prims) (args : Args)
    (kl : Option Keylog.Str) :
    exportFile mask H P args false kl (encode (.pcapng exVariant) exEvs) =
      exportFile mask H P args false kl (encode (.pcapng plainVariant) exEvs) ∧
    encode (.pcapng exVariant) exEvs ≠ encode (.pcapng plainVariant) exEvs :=
  ⟨export_container_independent mask H P args kl (.pcapng exVariant) (.pcapng plainVariant) exCap exEvs exEvs
      exVariant_wf plainVariant_wf (exCap_rep _ rfl rfl) (exCap_rep _ rfl rfl) rfl (floatResidue_refl _),
   by decide +kernel⟩

end Ex

end C12

-- ====================================================================== 2. C09: how the secrets are delivered
section C09
open TLX.Keylog

variable (info : Nat → Pipeline.Info)

/-- the frame items of a capture, in order (DSB items dropped) -/
def framesOf (xs : List (Item Keylog.Key)) : List Pkt := xs.filterMap Lemmas.Export.frameOf?

theorem tcpView_framesOf (o : Opts) (xs : List (Item Keylog.Key)) :
    tcpView o xs = (framesOf xs).filterMap fun p => match classify o (.frame p : Item Keylog.Key) with
      | .tls q => some q
      | _ => none := by
  unfold tcpView framesOf
  rw [List.filterMap_filterMap]
  congr 1
  funext it
  cases it with
  | dsb ks => rfl
  | frame p => simp only [Lemmas.Export.frameOf?, Option.bind_some]; cases classify o (Item.frame p : Item Keylog.Key) <;> rfl

/-- two key logs every session reads the same way: `find_session_secrets` returns the same lines for every client random -/
def SameSecrets (kl₁ kl₂ : List Keylog.Key) : Prop := ∀ cr, findSessionSecrets kl₁ cr = findSessionSecrets kl₂ cr

theorem genKeys_congr {kl₁ kl₂ : List Keylog.Key} (h : SameSecrets kl₁ kl₂) :
    Pipeline.genKeys H P kl₁ = Pipeline.genKeys H P kl₂ := by
  funext v suite cr sr exts comp
  unfold Pipeline.genKeys
  rw [h]

/-- a TLS conversation reads the key log only through `find_session_secrets` -/
theorem connOut_congr {kl₁ kl₂ : List Keylog.Key} (h : SameSecrets kl₁ kl₂) (c : Pipeline.Conn) :
    Pipeline.connOut H P info c kl₁ = Pipeline.connOut H P info c kl₂ := by
  have : Pipeline.ops H P kl₁ = Pipeline.ops H P kl₂ := by
    unfold Pipeline.ops
    rw [genKeys_congr H P h]
  unfold Pipeline.connOut
  rw [this]

/-- **`dsb_position_irrelevant`, TLS.** TLS conversations are decrypted at the END of the run with the key log as it is
    then (`-s` file, then every DSB of the capture): for two captures with the same frames in the same order, whatever
    DSB items stand wherever between them, and two `-s` files, such that the final key logs are read alike by every
    session, the exported TLS conversations are the same, frame by frame. In particular a DSB may be moved ANYWHERE
    (first, last, between any two packets) — `dsb_moved_tls`. -/
theorem dsb_position_irrelevant_tls (o : Opts) (fk₁ fk₂ : Option (List Keylog.Key)) (xs ys : List (Item Keylog.Key))
    (hfr : framesOf xs = framesOf ys) (hk : SameSecrets (keysOf fk₁ xs) (keysOf fk₂ ys)) :
    tlsFrames H P info o fk₁ xs = tlsFrames H P info o fk₂ ys := by
  unfold tlsFrames tlsConvs
  rw [tcpView_framesOf o xs, tcpView_framesOf o ys, hfr]
  apply List.map_congr_left
  intro s _
  unfold convFrames
  rw [connOut_congr H P info hk]

theorem framesOf_append (a b : List (Item Keylog.Key)) : framesOf (a ++ b) = framesOf a ++ framesOf b := by
  simp [framesOf]

theorem dsbOnly_append (a b : List (Item Keylog.Key)) : dsbOnly (a ++ b) = dsbOnly a ++ dsbOnly b := by
  simp [dsbOnly]

/-- moving one DSB from between `a` and `b` to between `b` and `c`, where `b` holds no other DSB -/
theorem dsb_moved_tls (o : Opts) (fk : Option (List Keylog.Key)) (ks : List Keylog.Key) (a b c : List (Item Keylog.Key))
    (hb : dsbOnly b = []) :
    tlsFrames H P info o fk (a ++ .dsb ks :: b ++ c) = tlsFrames H P info o fk (a ++ b ++ .dsb ks :: c) := by
  apply dsb_position_irrelevant_tls
  · simp [framesOf, List.filterMap_cons, Lemmas.Export.frameOf?]
  · intro cr
    have e1 : dsbOnly (a ++ Item.dsb ks :: b ++ c) = dsbOnly a ++ (ks ++ (dsbOnly b ++ dsbOnly c)) := by
      simp [dsbOnly]
    have e2 : dsbOnly (a ++ b ++ Item.dsb ks :: c) = dsbOnly a ++ (dsbOnly b ++ (ks ++ dsbOnly c)) := by
      simp [dsbOnly]
    simp only [keysOf, e1, e2, hb, List.nil_append]

/-- the QUIC part of the output: the sessions `handle_quic_packet` builds from the QUIC view of the capture (every
    datagram with the key log AS IT IS WHEN THE DATAGRAM IS READ), each built out with `-a` or not -/
def quicFrames (o : Opts) (fk : Option (List Keylog.Key)) (xs : List (Item Keylog.Key)) : List Pipeline.OutPkt :=
  (quicRun (QuicPipeline.quicMachine mask H P info) o [] (quicView o (fk.getD []) xs)).flatMap
    fun s => (QuicPipeline.quicMachine mask H P info).out o.metadata s.st

/-- what `run()` hands to the writer, in closed form -/
theorem framesFrom_explicit (prior : Export.Prior) (args : Args) (fk : Option (List Keylog.Key))
    (xs : List (Item Keylog.Key)) (o : Opts) (ho : optsOf args = some o) :
    framesFrom mask H P prior args fk xs info =
      .ok ((tlsFrames H P info o fk xs).flatten ++ quicFrames mask H P info o fk xs) := by
  unfold optsOf at ho
  unfold framesFrom runFrom body
  rw [Props.C18.reset_is_fresh]
  cases hpm : Options.getPortMap Options.Src.bare args.mArg with
  | error e => rw [hpm] at ho; cases ho
  | ok pm =>
    rw [hpm] at ho
    simp only at ho ⊢
    have hsp : (freshState : Export.Prior).serverPorts = Options.Src.builtin := rfl
    rw [hsp]
    cases hp : Options.serverPorts Options.Src.builtin Options.Src.pDefault args.pArg with
    | error e => rw [hp] at ho; cases ho
    | ok ports =>
      rw [hp] at ho
      simp only [Option.some.injEq] at ho
      subst ho
      simp only
      obtain ⟨h1, h2, h3⟩ := runItems_proj (Pipeline.tlsMachine H P info) (QuicPipeline.quicMachine mask H P info)
        ⟨ports, args.checksumTest, args.greasy, args.metadata, Options.keepOriginalPorts args.mArg, pm⟩ xs
        ({ (freshState : Export.Prior).st with keylog := (freshState : Export.Prior).st.keylog ++ fk.getD [] })
      simp only [exportAll, h1, h2, h3, dsbKeys_eq, List.nil_append, tlsFrames, tlsConvs, keysOf, List.flatMap_def,
        quicFrames]
      rfl

/-- the QUIC view of a stretch of the capture that holds neither a DSB nor a QUIC-classified datagram is empty and
    leaves the key log as it is -/
theorem quicView_skip (o : Opts) (kl : List Keylog.Key) (b rest : List (Item Keylog.Key))
    (hb : ∀ it ∈ b, (∃ q, classify o it = .tls q) ∨ (∃ w, classify o it = .ignore w)) :
    quicView o kl (b ++ rest) = quicView o kl rest := by
  induction b with
  | nil => rfl
  | cons it b ih =>
    have := ih (fun x hx => hb x (by simp [hx]))
    rcases hb it (by simp) with ⟨q, hq⟩ | ⟨w, hw⟩
    · simp only [List.cons_append, quicView, hq, this]
    · simp only [List.cons_append, quicView, hw, this]

theorem quicView_append_nokeys (o : Opts) (kl : List Keylog.Key) (a rest₁ rest₂ : List (Item Keylog.Key))
    (h : ∀ kl', quicView o kl' rest₁ = quicView o kl' rest₂) :
    quicView o kl (a ++ rest₁) = quicView o kl (a ++ rest₂) := by
  induction a generalizing kl with
  | nil => exact h kl
  | cons it a ih =>
    simp only [List.cons_append, quicView]
    cases classify o it with
    | keys ks => exact ih _
    | tls q => exact ih _
    | quic q b0 r => simp only [ih]
    | ignore w => exact ih _

/-- **`dsb_position_irrelevant`, the whole output (partial).** Moving a DSB from in front of a stretch `b` of the capture to
    behind it changes NOTHING in what `run()` hands to the writer — provided `b` holds no other DSB and no datagram that
    goes to `handle_quic_packet` (`hb`: TCP segments, ignored frames). MISSING for the full statement: QUIC. A QUIC session
    processes each datagram with the key log as it is at that moment (`quicView`; quic_session.py derives keys inside
    `handle_packet`), so a DSB moved behind a QUIC datagram that needs its secrets DOES change the export
    (`dsb_position_matters_to_the_quic_loop`). -/
theorem dsb_position_irrelevant_partial (prior : Export.Prior) (args : Args) (fk : Option (List Keylog.Key))
    (ks : List Keylog.Key) (a b c : List (Item Keylog.Key)) (o : Opts) (ho : optsOf args = some o)
    (hb : ∀ it ∈ b, (∃ q, classify o it = .tls q) ∨ (∃ w, classify o it = .ignore w)) :
    framesFrom mask H P prior args fk (a ++ .dsb ks :: b ++ c) info =
      framesFrom mask H P prior args fk (a ++ b ++ .dsb ks :: c) info := by
  have hd : dsbOnly b = [] := by
    rw [← dsbKeys_eq o]
    unfold dsbKeys
    rw [List.flatMap_eq_nil_iff]
    intro it hit
    rcases hb it hit with ⟨q, hq⟩ | ⟨w, hw⟩
    · rw [hq]
    · rw [hw]
  rw [framesFrom_explicit mask H P info prior args fk _ o ho, framesFrom_explicit mask H P info prior args fk _ o ho,
    dsb_moved_tls H P info o fk ks a b c hd]
  congr 2
  unfold quicFrames
  congr 2
  rw [List.append_assoc, List.append_assoc]
  apply quicView_append_nokeys
  intro kl'
  have e1 : quicView o kl' (Item.dsb ks :: (b ++ c)) = quicView o (kl' ++ ks) c := by
    rw [quicView]; simp only [classify]; exact quicView_skip o _ b c hb
  have e2 : quicView o kl' (b ++ Item.dsb ks :: c) = quicView o (kl' ++ ks) c := by
    rw [quicView_skip o _ b _ hb, quicView]; simp only [classify]
  rw [List.cons_append, e1, e2]

/-- the reason QUIC is excluded above, on the loop itself (recording machines): the same QUIC datagram and the same DSB,
    in the two orders — the session is handed a key log of 0 keys in one run and of 1 key in the other -/
theorem dsb_position_matters_to_the_quic_loop :
    let o : Opts := ⟨[443], false, false, false, true, []⟩
    let dg : Pkt := ⟨.udp, ⟨[10, 0, 0, 1], 5000⟩, ⟨[10, 0, 0, 8], 443⟩, [0xc0, 0, 0, 0, 1, 1, 7, 0], true, 1⟩
    let QM := Rec.quic (fun _ => ([], []))
    ((runItems Rec.tls QM o ⟨[], [], []⟩ [.dsb [9], .frame dg]).quic.map fun s => s.st.log.map (·.2.2.2)) = [[1]] ∧
    ((runItems Rec.tls QM o ⟨[], [], []⟩ [.frame dg, .dsb [9]]).quic.map fun s => s.st.log.map (·.2.2.2)) = [[0]] := by
  decide +kernel

/-! #### every session reads the key log through two filters only -/

/-- two key logs no session can tell apart: `find_session_secrets` (TLS) and the `bytes.fromhex(client_random) == …`
    filter of `set_tls_decryptors` (QUIC) return the same lines for every client random. Literally equal key lists are
    alike; so are lists that differ in the order of lines of DIFFERENT client randoms (`sameView_of_perm_across`). -/
def SameView (kl₁ kl₂ : List Keylog.Key) : Prop :=
  SameSecrets kl₁ kl₂ ∧ ∀ cr, quicSessionKeys kl₁ cr = quicSessionKeys kl₂ cr

theorem SameView.rfl' (kl : List Keylog.Key) : SameView kl kl := ⟨fun _ => rfl, fun _ => rfl⟩

theorem devQuic_congr {kl₁ kl₂ : List Keylog.Key} (h : ∀ cr, quicSessionKeys kl₁ cr = quicSessionKeys kl₂ cr) :
    QuicPipeline.devQuic H kl₁ = QuicPipeline.devQuic H kl₂ := by
  funext sel v cr
  unfold QuicPipeline.devQuic
  rw [h]

theorem params_congr {kl₁ kl₂ : List Keylog.Key} (h : ∀ cr, quicSessionKeys kl₁ cr = quicSessionKeys kl₂ cr) :
    QuicPipeline.params H P kl₁ = QuicPipeline.params H P kl₂ := by
  have e := devQuic_congr H h
  have e2 : QuicPipeline.tlsClearNewData H kl₁ = QuicPipeline.tlsClearNewData H kl₂ := by
    funext t
    unfold QuicPipeline.tlsClearNewData
    rw [e]
  unfold QuicPipeline.params
  rw [e, e2]

theorem quic_feed_congr {kl₁ kl₂ : List Keylog.Key} (h : ∀ cr, quicSessionKeys kl₁ cr = quicSessionKeys kl₂ cr)
    (c : QuicPipeline.QConn) (p : Pkt) (d : Bytes) (v : Version) :
    (QuicPipeline.quicMachine mask H P info).feed c kl₁ p d v = (QuicPipeline.quicMachine mask H P info).feed c kl₂ p d v := by
  simp only [QuicPipeline.quicMachine, params_congr H P h]

section Generic
variable {κ τ ο : Type}

theorem quicHandleH_congr (M : QuicMachine κ τ ο) (o : Opts) (k₁ k₂ : List κ)
    (hf : ∀ c p d v, M.feed c k₁ p d v = M.feed c k₂ p d v) (h : Hdr) (ss : List (QuicSess τ)) (p : Pkt) :
    quicHandleH M o k₁ h ss p = quicHandleH M o k₂ h ss p := by
  unfold quicHandleH
  split
  · rfl
  · induction ss with
    | nil => simp only [quicLoop, quicNew, hf]
    | cons s rest ih =>
      simp only [quicLoop, hf, ih]

theorem classify_frame_not_keys (o : Opts) (p : Pkt) (ks : List κ) : classify o (.frame p : Item κ) ≠ .keys ks := by
  simp only [classify]
  cases p.l4 with
  | tcp =>
    simp only
    by_cases h1 : p.payload.length = 0
    · simp [h1]
    · by_cases h2 : (o.checksumTest && !p.csumOk) = true <;> simp [h1, h2]
  | udp =>
    simp only
    cases p.payload with
    | nil => simp
    | cons b0 r =>
      simp only
      by_cases h2 : (o.checksumTest && !p.csumOk) = true
      · simp [h2]
      · by_cases h3 : ((b0.toNat &&& 0x40) >>> 6 = 1 || o.greasy) = true <;> simp [h2, h3]
  | other => simp

/-- a stretch of frames (no DSB) run with two key logs the machine cannot tell apart -/
theorem quicRun_frames_congr (M : QuicMachine κ τ ο) (o : Opts) (k₁ k₂ : List κ)
    (hf : ∀ c p d v, M.feed c k₁ p d v = M.feed c k₂ p d v) (F : List Pkt) :
    ∀ ss, quicRun M o ss (quicView o k₁ (F.map Item.frame)) = quicRun M o ss (quicView o k₂ (F.map Item.frame)) := by
  induction F with
  | nil => intro ss; rfl
  | cons p F ih =>
    intro ss
    simp only [List.map_cons, quicView]
    cases hc : classify o (.frame p : Item κ) with
    | keys ks => exact absurd hc (classify_frame_not_keys o p ks)
    | tls q => exact ih ss
    | ignore w => exact ih ss
    | quic q b0 r =>
      simp only [quicRun, List.foldl_cons] at ih ⊢
      rw [quicHandleH_congr M o k₁ k₂ hf]
      exact ih _

theorem quicView_dsbs (o : Opts) (kl : List κ) (D : List (List κ)) (rest : List (Item κ)) :
    quicView o kl (D.map Item.dsb ++ rest) = quicView o (kl ++ D.flatten) rest := by
  induction D generalizing kl with
  | nil => simp
  | cons d D ih =>
    simp only [List.map_cons, List.cons_append, quicView, classify, List.flatten_cons]
    rw [ih, List.append_assoc]

end Generic

/-- **C09, whole program (what `run()` hands to the writer).** The same packets `F`, the secrets delivered in two ways:
    an `-s` file (`fk`) and any number of DSBs at the head of the capture (`D`: one key list per block) on either side.
    If the two resulting key logs are alike for every session (`SameView`: in particular when they are the same list —
    `-s` file ↔ one DSB ↔ several DSBs cut at line boundaries ↔ file + DSB, LF ↔ CRLF, comment / blank / foreign lines
    added or removed: `delivery_keys`, `delivery_same_keys_*` —, or differ by moving lines of different client randoms
    past each other), then TLS and QUIC export the same frames in the same order. -/
theorem export_key_delivery_independent (prior : Export.Prior) (args : Args) (fk₁ fk₂ : Option (List Keylog.Key))
    (D₁ D₂ : List (List Keylog.Key)) (F : List Pkt)
    (hv : SameView (fk₁.getD [] ++ D₁.flatten) (fk₂.getD [] ++ D₂.flatten)) :
    framesFrom mask H P prior args fk₁ (D₁.map Item.dsb ++ F.map Item.frame) info =
      framesFrom mask H P prior args fk₂ (D₂.map Item.dsb ++ F.map Item.frame) info := by
  cases ho : optsOf args with
  | none =>
    -- an unusable `-p` / `-m`: both runs stop with the same message
    have hb : ∀ fk xs, framesFrom mask H P prior args fk xs info = framesFrom mask H P prior args none [] info := by
      intro fk xs
      unfold optsOf at ho
      unfold framesFrom runFrom body
      rw [Props.C18.reset_is_fresh]
      have hsp : (freshState : Export.Prior).serverPorts = Options.Src.builtin := rfl
      rw [hsp]
      cases hpm : Options.getPortMap Options.Src.bare args.mArg with
      | error e => rfl
      | ok pm =>
        rw [hpm] at ho
        simp only at ho ⊢
        cases hp : Options.serverPorts Options.Src.builtin Options.Src.pDefault args.pArg with
        | error e => rfl
        | ok ports => rw [hp] at ho; cases ho
    rw [hb, hb fk₂]
  | some o =>
    have hd : ∀ (D : List (List Keylog.Key)), dsbOnly (D.map Item.dsb ++ F.map Item.frame) = D.flatten := by
      intro D
      induction D with
      | nil =>
        simp only [List.map_nil, List.nil_append, List.flatten_nil]
        induction F with
        | nil => rfl
        | cons p F ih => simpa [dsbOnly] using ih
      | cons d D ih => simp only [List.map_cons, List.cons_append, List.flatten_cons, ← ih]; simp [dsbOnly]
    have hf : ∀ (D : List (List Keylog.Key)), framesOf (D.map Item.dsb ++ F.map Item.frame) = F := by
      intro D
      simp [framesOf, List.filterMap_append, List.filterMap_map, Function.comp_def, Lemmas.Export.frameOf?]
    rw [framesFrom_explicit mask H P info prior args fk₁ _ o ho, framesFrom_explicit mask H P info prior args fk₂ _ o ho,
      dsb_position_irrelevant_tls H P info o fk₁ fk₂ _ _ ((hf D₁).trans (hf D₂).symm)
        (by simp only [keysOf, hd]; exact hv.1)]
    congr 2
    unfold quicFrames
    rw [quicView_dsbs, quicView_dsbs]
    congr 1
    exact quicRun_frames_congr _ o _ _ (quic_feed_congr mask H P info hv.2) F []

/-- lines of different client randoms may change places: both filters keep the relative order of the lines they keep -/
theorem sameView_of_perm_across (a b c d : List Keylog.Key)
    (hcr : ∀ x ∈ b, ∀ y ∈ c, ∀ cr, ¬ ((lower x.clientRandom == lower (hexOf cr)) = true ∧
        (lower y.clientRandom == lower (hexOf cr)) = true) ∧
      ¬ (fromHex x.clientRandom = some cr ∧ fromHex y.clientRandom = some cr)) :
    SameView (a ++ b ++ c ++ d) (a ++ c ++ b ++ d) := by
  have key : ∀ (f : Keylog.Key → Bool), (∀ x ∈ b, ∀ y ∈ c, ¬ (f x = true ∧ f y = true)) →
      (a ++ b ++ c ++ d).filter f = (a ++ c ++ b ++ d).filter f := by
    intro f hf
    simp only [List.filter_append, List.append_assoc]
    congr 1
    rw [← List.append_assoc, ← List.append_assoc (c.filter f)]
    congr 1
    by_cases hb : b.filter f = []
    · rw [hb]; simp
    · have hcn : c.filter f = [] := by
        rw [List.filter_eq_nil_iff]
        intro y hy hfy
        obtain ⟨x, hx⟩ := List.exists_mem_of_ne_nil _ hb
        rw [List.mem_filter] at hx
        exact hf x hx.1 y hy ⟨hx.2, hfy⟩
      rw [hcn]; simp
  refine ⟨fun cr => ?_, fun cr => ?_⟩
  · exact key _ (fun x hx y hy => (hcr x hx y hy cr).1)
  · unfold quicSessionKeys
    have hall : ((a ++ b ++ c ++ d).all fun k => (fromHex k.clientRandom).isSome) =
        ((a ++ c ++ b ++ d).all fun k => (fromHex k.clientRandom).isSome) := by
      simp only [List.all_append, Bool.and_assoc]
      congr 1
      rw [← Bool.and_assoc, ← Bool.and_assoc, Bool.and_comm (b.all _)]
    rw [hall]
    split
    · congr 1
      exact key _ (fun x hx y hy h => (hcr x hx y hy cr).2 ⟨by simpa using h.1, by simpa using h.2⟩)
    · rfl

/-! #### from texts to key lists (`Props.C09`, `Props.C09Found`) -/

/-- the key log of a run: the parse of ONE text — the `-s` file as text mode delivers it, then the DSB texts -/
theorem delivery_keys (file : Option Str) (dsbs : List Str) :
    (fileKeysOf file).getD [] ++ (dsbs.map (getKeysFromString srcHexClass)).flatten =
      getKeysFromString srcHexClass (C09.sourceText file dsbs) := by
  unfold C09.sourceText
  rw [← C09.parse_pieces_eq_parse_joined]
  cases file with
  | none => simp [fileKeysOf, List.flatMap_def]
  | some t => simp [fileKeysOf, List.flatMap_def]

/-- so two deliveries whose texts differ only in where CRs stand (LF ↔ CRLF, any mixture) and in how the lines are
    distributed over the file and the blocks give the SAME key list -/
theorem delivery_same_keys_of_text (file₁ file₂ : Option Str) (dsbs₁ dsbs₂ : List Str)
    (h : removeCR (C09.sourceText file₁ dsbs₁) = removeCR (C09.sourceText file₂ dsbs₂)) :
    (fileKeysOf file₁).getD [] ++ (dsbs₁.map (getKeysFromString srcHexClass)).flatten =
      (fileKeysOf file₂).getD [] ++ (dsbs₂.map (getKeysFromString srcHexClass)).flatten := by
  rw [delivery_keys, delivery_keys]
  exact C09.cr_placement_irrelevant _ _ _ h

/-- a comment, blank or foreign line (no line-end character inside, does not look like a secret line) inserted at a
    line boundary adds no key -/
theorem foreign_line_adds_nothing (a b l : Str) (h10 : 10 ∉ l) (h13 : 13 ∉ l) (hl : ¬ Spec.NssKeylog.LooksLikeKey l) :
    getKeysFromString srcHexClass (a ++ 10 :: (l ++ 10 :: b)) = getKeysFromString srcHexClass (a ++ 10 :: b) := by
  rw [C09.parse_split_at_line_boundary, C09.parse_split_at_line_boundary, C09.parse_split_at_line_boundary,
    C09Found.keys_single _ l h10 h13, C09.foreign_lines_ignored _ l hl]
  rfl

/-! #### at the level of the files -/

/-- the key list the read loop makes of a DSB's bytes -/
def dsbKeysOfBytes (s : Bytes) : List Keylog.Key := getKeysFromString srcHexClass (s.map UInt8.toNat)

theorem go_dsbs (c : Bool) (T : List Bytes) (hT : ∀ s ∈ T, s.all (· < 0x80) = true) (R : List Container.Item) :
    ∀ tag, Ingest.go srcHexClass c tag (T.map Container.Item.dsb ++ R) =
      match Ingest.go srcHexClass c (tag + T.length) R with
      | .error e => .error e
      | .ok (X, IS) => .ok (T.map (fun s => Item.dsb (dsbKeysOfBytes s)) ++ X, IS) := by
  induction T with
  | nil => intro tag; simp only [List.map_nil, List.nil_append, List.length_nil, Nat.add_zero]; cases Ingest.go srcHexClass c tag R <;> rfl
  | cons s T ih =>
    intro tag
    have hs : Ingest.decodeAscii s = .ok (s.map UInt8.toNat) := by
      unfold Ingest.decodeAscii; rw [if_pos (hT s (by simp))]
    simp only [List.map_cons, List.cons_append, Ingest.go, hs, ih (fun x hx => hT x (by simp [hx])) (tag + 1),
      List.length_cons]
    rw [show tag + 1 + T.length = tag + (T.length + 1) by omega]
    cases Ingest.go srcHexClass c (tag + (T.length + 1)) R with
    | error e => rfl
    | ok v => rfl

/-- **C09 at the level of the files (same block layout).** Two runs: capture files whose readers deliver `n` secrets
    blocks with the texts `T₁` resp. `T₂` (ASCII) followed by the SAME remaining items `R` (which hold no further secrets:
    `hR`), and `-s` files `file₁`, `file₂` (or none). If the two key logs — `-s` file then blocks — are alike for every
    session (`SameView`; `delivery_same_keys_of_text`, `foreign_line_adds_nothing`, `sameView_of_perm_across`), the
    outcomes are THE SAME: byte-identical output files, or the same abort. Lines may move between the `-s` file and the
    blocks and between blocks, LF ↔ CRLF, comments come and go, blocks may become empty.
    NOT covered at file level: a different NUMBER of blocks (`-s` file only ↔ one DSB): the packets then sit at other
    positions of the capture, `Ingest` numbers them differently (`Pkt.tag`), and equality of the outputs needs the
    invariance of both session machines under renaming of tags — not proved; at the level of what `run()` hands to the
    writer the statement is `export_key_delivery_independent` (any numbers of blocks). -/
theorem export_key_delivery_independent_file (args : Args) (legacy₁ legacy₂ : Bool) (file₁ file₂ : Option Str)
    (cap₁ cap₂ : Bytes) (T₁ T₂ : List Bytes) (R : List Container.Item) (ended : Option Container.Err)
    (hr₁ : Container.readPrefix legacy₁ cap₁ = .ok (T₁.map Container.Item.dsb ++ R, ended))
    (hr₂ : Container.readPrefix legacy₂ cap₂ = .ok (T₂.map Container.Item.dsb ++ R, ended))
    (hlen : T₁.length = T₂.length)
    (ha₁ : ∀ s ∈ T₁, s.all (· < 0x80) = true) (ha₂ : ∀ s ∈ T₂, s.all (· < 0x80) = true)
    (hR : ∀ X IS, Ingest.go srcHexClass args.checksumTest T₁.length R = .ok (X, IS) → ∃ F : List Pkt, X = F.map Item.frame)
    (hv : SameView ((fileKeysOf file₁).getD [] ++ (T₁.map dsbKeysOfBytes).flatten)
                   ((fileKeysOf file₂).getD [] ++ (T₂.map dsbKeysOfBytes).flatten)) :
    exportFile mask H P args legacy₁ file₁ cap₁ = exportFile mask H P args legacy₂ file₂ cap₂ := by
  unfold exportFile exportFrom
  split
  · rfl
  · unfold Ingest.itemsWith
    rw [hr₁, hr₂]
    simp only
    have g₁ := go_dsbs args.checksumTest T₁ ha₁ R 0
    have g₂ := go_dsbs args.checksumTest T₂ ha₂ R 0
    rw [Nat.zero_add] at g₁ g₂
    rw [← hlen] at g₂
    rw [g₁, g₂]
    cases hg : Ingest.go srcHexClass args.checksumTest T₁.length R with
    | error e => rfl
    | ok v =>
      obtain ⟨X, IS⟩ := v
      obtain ⟨F, rfl⟩ := hR X IS hg
      simp only
      cases ended with
      | some e => rfl
      | none =>
        simp only
        have := export_key_delivery_independent mask H P (Ingest.lookup IS) freshState args (fileKeysOf file₁)
          (fileKeysOf file₂) (T₁.map dsbKeysOfBytes) (T₂.map dsbKeysOfBytes) F hv
        simp only [List.map_map, Function.comp_def] at this ⊢
        rw [this]

/-- **`dsb_only_without_s`, whole program.** Without `-s` the key log is exactly the keys of the capture's secrets
    blocks: the run is the run with an EMPTY key-log file — whatever the capture (the `-s` default of the repaired tree
    is `None`; no file system enters `exportFile`). -/
theorem export_dsb_only_without_s (args : Args) (legacy : Bool) (capture : Bytes) :
    exportFile mask H P args legacy none capture = exportFile mask H P args legacy (some []) capture := by
  have hk : fileKeysOf (some []) = some [] := by
    simp only [fileKeysOf, Option.map_some]
    congr 1
  unfold exportFile exportFrom
  rw [hk]
  have : ∀ xs inf, framesFrom mask H P freshState args (fileKeysOf none) xs inf =
      framesFrom mask H P freshState args (some []) xs inf := by
    intro xs inf
    unfold framesFrom runFrom body
    simp only [fileKeysOf, Option.map_none, Option.getD_none, Option.getD_some]
  split
  · rfl
  · split
    · rfl
    · rw [this]

/-- … and then the key log at the end of the run is the DSB keys, in capture order -/
theorem keysOf_without_s (xs : List (Item Keylog.Key)) : keysOf (fileKeysOf none) xs = dsbOnly xs := by
  simp [keysOf, fileKeysOf]

namespace Ex
open TLX.Props.C09

/-- non-vacuity, texts: the two-line key log of `Props.C09` as an `-s` file (LF) ↔ no file and two DSBs, the first with
    CRLF line ends and a comment line in front: the same key list (two keys), so `SameView` holds and
    `export_key_delivery_independent` applies to ANY packets `F` -/
theorem delivery_instance :
    (fileKeysOf (some wPlain)).getD [] ++ (([] : List Str).map (getKeysFromString srcHexClass)).flatten =
      (fileKeysOf none).getD [] ++
        ([[35, 32, 120, 13, 10] ++ wL1 ++ [13, 10], wL2].map (getKeysFromString srcHexClass)).flatten ∧
    ((fileKeysOf (some wPlain)).getD []).length = 2 := by
  constructor
  · rw [delivery_keys, delivery_keys]
    decide +kernel
  · decide +kernel

theorem delivery_instance_frames (mask : Quic.Dissect.MaskFn) (H : Crypto.Prims) (P : Cipher.Prims)
    (info : Nat → Pipeline.Info) (prior : Export.Prior) (args : Args) (F : List Pkt) :
    framesFrom mask H P prior args (fileKeysOf (some wPlain)) (F.map Item.frame) info =
      framesFrom mask H P prior args (fileKeysOf none)
        ([[35, 32, 120, 13, 10] ++ wL1 ++ [13, 10], wL2].map (fun t => Item.dsb (getKeysFromString srcHexClass t)) ++
          F.map Item.frame) info := by
  have h := export_key_delivery_independent mask H P info prior args (fileKeysOf (some wPlain)) (fileKeysOf none) []
    ([[35, 32, 120, 13, 10] ++ wL1 ++ [13, 10], wL2].map (getKeysFromString srcHexClass)) F
    (by
      have := delivery_instance.1
      simp only [List.map_nil, List.flatten_nil] at this ⊢
      rw [this]; exact SameView.rfl' _)
  simpa using h

end Ex

end C09

-- ====================================================================== 3. C11: the `-c` filter
section C11

/-! #### the loop: skipping ignored items, and an option the machines only store -/
section Loop
variable {κ σ τ ο : Type}

def Sess.mapSt {α : Type} (f : α → α) (s : Sess α) : Sess α := { s with st := f s.st }

/-- items the loop ignores can be removed from the capture -/
theorem runItems_filter_ignored (TM : TlsMachine κ σ ο) (QM : QuicMachine κ τ ο) (o : Opts) (keep : Item κ → Bool)
    (xs : List (Item κ)) (h : ∀ it ∈ xs, keep it = false → ∃ w, classify o it = .ignore w) :
    ∀ st, runItems TM QM o st xs = runItems TM QM o st (xs.filter keep) := by
  induction xs with
  | nil => intro st; rfl
  | cons it xs ih =>
    intro st
    have ih' := ih (fun x hx => h x (by simp [hx]))
    cases hk : keep it with
    | true =>
      simp only [List.filter_cons, hk, if_true, runItems, List.foldl_cons] at ih' ⊢
      exact ih' _
    | false =>
      obtain ⟨w, hw⟩ := h it (by simp) hk
      simp only [List.filter_cons, hk, Bool.false_eq_true, if_false, runItems, List.foldl_cons] at ih' ⊢
      have : step TM QM o st it = st := by simp [step, hw]
      rw [this]; exact ih' st

/-- Two option records `o`, `o'` with the same server ports that classify the items of `xs` alike, and machines whose
    new sessions under `o'` are the `f` / `g` images of those under `o`, with `f`, `g` commuting with `feed` and
    invisible to the CID sets: the run under `o'` is the image of the run under `o`. -/
theorem runItems_opts_congr (TM : TlsMachine κ σ ο) (QM : QuicMachine κ τ ο) (o o' : Opts) (f : σ → σ) (g : τ → τ)
    (hports : o'.ports = o.ports)
    (hTn : ∀ p, TM.new o' p = f (TM.new o p)) (hTf : ∀ s p, TM.feed (f s) p = f (TM.feed s p))
    (hQn : ∀ p, QM.new o' p = g (QM.new o p)) (hQf : ∀ s kl p d v, QM.feed (g s) kl p d v = g (QM.feed s kl p d v))
    (hcc : ∀ s, QM.clientCids (g s) = QM.clientCids s) (hsc : ∀ s, QM.serverCids (g s) = QM.serverCids s)
    (xs : List (Item κ)) (hcl : ∀ it ∈ xs, classify o' it = classify o it) :
    ∀ st : State κ σ τ,
      runItems TM QM o' ⟨st.keylog, st.tls.map (Sess.mapSt f), st.quic.map (Sess.mapSt g)⟩ xs =
        (let r := runItems TM QM o st xs; ⟨r.keylog, r.tls.map (Sess.mapSt f), r.quic.map (Sess.mapSt g)⟩) := by
  have hT : ∀ (ss : List (TlsSess σ)) (p : Pkt),
      tlsHandle TM o' (ss.map (Sess.mapSt f)) p = (tlsHandle TM o ss p).map (Sess.mapSt f) := by
    intro ss p
    induction ss with
    | nil =>
      have hc : candidate o' p = candidate o p := by simp [candidate, hports]
      simp only [tlsHandle, List.map_nil, hc]
      cases candidate o p with
      | true => simp [tlsNew, hports, hTn, Sess.mapSt]
      | false => rfl
    | cons s rest ih =>
      simp only [tlsHandle, List.map_cons]
      have : (Sess.mapSt f s).matches p = s.matches p := rfl
      rw [this]
      split
      · simp [Sess.mapSt, hTf]
      · rw [ih]; rfl
  have hQ : ∀ (kl : List κ) (h : Hdr) (ss : List (QuicSess τ)) (p : Pkt),
      quicHandleH QM o' kl h (ss.map (Sess.mapSt g)) p = (quicHandleH QM o kl h ss p).map (Sess.mapSt g) := by
    intro kl h ss p
    unfold quicHandleH
    split
    · rfl
    · induction ss with
      | nil =>
        simp only [quicLoop, List.map_nil]
        split
        · rfl
        · simp [quicNew, hports, hQn, hQf, Sess.mapSt]
      | cons s rest ih =>
        simp only [quicLoop, List.map_cons]
        have : quicTake QM h p (Sess.mapSt g s) = quicTake QM h p s := by
          simp only [quicTake, Sess.mapSt, hcc, hsc]
          rfl
        rw [this]
        cases quicTake QM h p s with
        | some c => simp [Sess.mapSt, hQf]
        | none => simp only [ih]; rfl
  induction xs with
  | nil => intro st; rfl
  | cons it xs ih =>
    intro st
    have ih' := ih (fun x hx => hcl x (by simp [hx]))
    simp only [runItems, List.foldl_cons] at ih' ⊢
    have hs : step TM QM o' ⟨st.keylog, st.tls.map (Sess.mapSt f), st.quic.map (Sess.mapSt g)⟩ it =
        (let r := step TM QM o st it; ⟨r.keylog, r.tls.map (Sess.mapSt f), r.quic.map (Sess.mapSt g)⟩) := by
      simp only [step, hcl it (by simp)]
      cases classify o it with
      | keys ks => rfl
      | tls p => simp only [hT]
      | quic p b0 r => simp only [hQ]
      | ignore w => rfl
    rw [hs]
    exact ih' _

end Loop

/-! #### the composed machines only STORE `-c` -/

def optC (o : Opts) (b : Bool) : Opts := { o with checksumTest := b }
def connC (b : Bool) (c : Pipeline.Conn) : Pipeline.Conn := { c with opts := optC c.opts b }
def qconnC (b : Bool) (c : QuicPipeline.QConn) : QuicPipeline.QConn := { c with opts := optC c.opts b }

variable (info : Nat → Pipeline.Info)

/-- a frame the `-c` test rejects: TCP or UDP whose verdict bit is false -/
def rejected : Item Keylog.Key → Bool
  | .frame p => !p.csumOk && p.l4 != .other
  | .dsb _ => false

theorem classify_rejected (o : Opts) (it : Item Keylog.Key) (h : (!rejected it) = false) :
    ∃ w, classify (optC o true) it = .ignore w := by
  cases it with
  | dsb ks => simp [rejected] at h
  | frame p =>
    simp only [rejected, Bool.not_eq_false', Bool.and_eq_true, Bool.not_eq_true', bne_iff_ne, ne_eq] at h
    obtain ⟨hc, hl⟩ := h
    simp only [classify, optC, hc]
    cases hp : p.l4 with
    | other => exact absurd hp hl
    | tcp =>
      simp only
      split
      · exact ⟨_, rfl⟩
      · exact ⟨_, rfl⟩
    | udp =>
      simp only
      cases p.payload with
      | nil => exact ⟨_, rfl⟩
      | cons b0 r => exact ⟨_, rfl⟩

theorem classify_kept (o : Opts) (it : Item Keylog.Key) (h : (!rejected it) = true) :
    classify (optC o false) it = classify (optC o true) it := by
  cases it with
  | dsb ks => rfl
  | frame p =>
    simp only [rejected, Bool.not_eq_true', Bool.and_eq_false_imp, Bool.not_eq_true', bne_eq_false_iff_eq] at h
    simp only [classify, optC]
    cases hp : p.l4 with
    | other => rfl
    | tcp =>
      have hc : p.csumOk = true := by
        cases hcs : p.csumOk with
        | true => rfl
        | false => have := h hcs; rw [hp] at this; cases this
      simp [hc]
    | udp =>
      have hc : p.csumOk = true := by
        cases hcs : p.csumOk with
        | true => rfl
        | false => have := h hcs; rw [hp] at this; cases this
      simp [hc]

/-- **C11 for the loop and both composed machines.** With `-c`, the frames `run()` hands to the writer are those of the
    run WITHOUT `-c` over the capture from which exactly the rejected frames — TCP / UDP frames whose verdict bit
    `csumOk` is false — have been removed; all other items (DSBs, non-IP frames, frames with a good checksum, with an
    empty payload, of other transports) stay where they are. Any key log, start key log, options. -/
theorem checksum_filter_loop (o : Opts) (keys : List Keylog.Key) (xs : List (Item Keylog.Key)) :
    let TM := Pipeline.tlsMachine H P info
    let QM := QuicPipeline.quicMachine mask H P info
    exportAll TM QM (optC o true) (runItems TM QM (optC o true) ⟨keys, [], []⟩ xs) =
      exportAll TM QM (optC o false) (runItems TM QM (optC o false) ⟨keys, [], []⟩ (xs.filter fun it => !rejected it)) := by
  intro TM QM
  rw [runItems_filter_ignored TM QM (optC o true) (fun it => !rejected it) xs
    (fun it _ h => classify_rejected o it h)]
  have hcl : ∀ it ∈ xs.filter (fun it => !rejected it), classify (optC o true) it = classify (optC o false) it := by
    intro it hit
    exact (classify_kept o it (List.mem_filter.mp hit).2).symm
  have := runItems_opts_congr TM QM (optC o false) (optC o true) (connC true) (qconnC true) rfl
    (fun p => rfl) (fun s p => rfl) (fun p => rfl) (fun s kl p d v => by
      obtain ⟨so, ss, sc, sm, cm, v6, sst, raised⟩ := s
      simp only [QM, QuicPipeline.quicMachine, qconnC]
      cases raised <;> rfl) (fun s => rfl) (fun s => rfl) _ hcl ⟨keys, [], []⟩
  simp only [List.map_nil] at this
  rw [this]
  simp only [exportAll, List.flatMap_map]
  rfl

/-- `-c` set / cleared in the option vector -/
def argsC (args : Args) (b : Bool) : Args := { args with checksumTest := b }

theorem optsOf_argsC (args : Args) (b : Bool) : optsOf (argsC args b) = (optsOf args).map fun o => optC o b := by
  unfold optsOf argsC
  simp only
  cases Options.getPortMap Options.Src.bare args.mArg with
  | error e => rfl
  | ok pm =>
    simp only
    cases Options.serverPorts Options.Src.builtin Options.Src.pDefault args.pArg with
    | error e => rfl
    | ok ports => rfl

/-- what `run()` hands to the writer is `exportAll` of the loop's final state, started from the `-s` keys -/
theorem framesFrom_exportAll (prior : Export.Prior) (args : Args) (fk : Option (List Keylog.Key))
    (xs : List (Item Keylog.Key)) (o : Opts) (ho : optsOf args = some o) :
    framesFrom mask H P prior args fk xs info =
      .ok (exportAll (Pipeline.tlsMachine H P info) (QuicPipeline.quicMachine mask H P info) o
        (runItems (Pipeline.tlsMachine H P info) (QuicPipeline.quicMachine mask H P info) o ⟨fk.getD [], [], []⟩ xs)) := by
  unfold optsOf at ho
  unfold framesFrom runFrom body
  rw [Props.C18.reset_is_fresh]
  have hsp : (freshState : Export.Prior).serverPorts = Options.Src.builtin := rfl
  rw [hsp]
  cases hpm : Options.getPortMap Options.Src.bare args.mArg with
  | error e => rw [hpm] at ho; cases ho
  | ok pm =>
    rw [hpm] at ho
    simp only at ho ⊢
    cases hp : Options.serverPorts Options.Src.builtin Options.Src.pDefault args.pArg with
    | error e => rw [hp] at ho; cases ho
    | ok ports =>
      rw [hp] at ho
      simp only [Option.some.injEq] at ho
      subst ho
      simp only [freshState, List.nil_append]

theorem framesFrom_badOpts (prior : Export.Prior) (args : Args) (fk : Option (List Keylog.Key))
    (xs : List (Item Keylog.Key)) (ho : optsOf args = none) :
    ∃ e, ∀ (b : Bool) fk' xs' inf, framesFrom mask H P prior (argsC args b) fk' xs' inf = .error e := by
  unfold optsOf at ho
  cases hpm : Options.getPortMap Options.Src.bare args.mArg with
  | error e =>
    refine ⟨e, fun b fk' xs' inf => ?_⟩
    unfold framesFrom runFrom body argsC
    simp only [hpm]
  | ok pm =>
    rw [hpm] at ho
    simp only at ho
    cases hp : Options.serverPorts Options.Src.builtin Options.Src.pDefault args.pArg with
    | ok ports => rw [hp] at ho; cases ho
    | error e =>
      refine ⟨e, fun b fk' xs' inf => ?_⟩
      unfold framesFrom runFrom body argsC
      rw [Props.C18.reset_is_fresh]
      have hsp : (freshState : Export.Prior).serverPorts = Options.Src.builtin := rfl
      simp only [hpm, hsp, hp]

/-- **C11, whole program, what `run()` hands to the writer.** For every item list (as `Ingest` delivers it under `-c`:
    every TCP / UDP frame with a non-empty payload carries the verdict of `calculate_checksum_tcp/udp`), key-log file and
    option vector: the run with `-c` equals the run without `-c` on the items with the rejected frames removed. -/
theorem export_checksum_filter_frames (prior : Export.Prior) (args : Args) (fk : Option (List Keylog.Key))
    (xs : List (Item Keylog.Key)) :
    framesFrom mask H P prior (argsC args true) fk xs info =
      framesFrom mask H P prior (argsC args false) fk (xs.filter fun it => !rejected it) info := by
  cases ho : optsOf args with
  | none =>
    obtain ⟨e, he⟩ := framesFrom_badOpts mask H P prior args fk xs ho
    rw [he, he]
  | some o =>
    rw [framesFrom_exportAll mask H P info prior (argsC args true) fk xs (optC o true) (by rw [optsOf_argsC, ho]; rfl),
      framesFrom_exportAll mask H P info prior (argsC args false) fk _ (optC o false) (by rw [optsOf_argsC, ho]; rfl)]
    exact congrArg _ (checksum_filter_loop mask H P info o (fk.getD []) xs)

/-! #### where the verdict bit comes from: dpkt's dissection, `calculate_checksum_tcp/udp`, RFC 1071 -/
section Verdict
open TLX.Dissect
open TLX.Checksum (check L4)
open TLX.Spec.Rfc1071 (verdict)
open TLX.Lemmas.OnesComplement (toSpec Dissected)

/-- the transport the tool found in a dissected frame -/
def kindOf : Transport → Option Checksum.L4
  | .tcp .. => some .tcp
  | .udp .. => some .udp
  | .other => none

theorem tcpOk_len (seg : Bytes) (u : Unit) (h : tcpOk seg = .ok u) : 20 ≤ seg.length := by
  unfold tcpOk at h
  split at h
  · cases h
  · omega

theorem view4_facts (d s b : Bytes) (k : Checksum.L4) (hk : kindOf (ip4View d s b).l4 = some k) :
    (ip4View d s b).p = k.num ∧ k.off + 2 ≤ (ip4View d s b).seg.length := by
  unfold ip4View at hk ⊢
  simp only at hk ⊢
  by_cases h0 : ip4Offset b ≠ 0
  · rw [if_pos h0] at hk; cases hk
  · rw [if_neg h0] at hk
    by_cases h6 : u8 b 9 = 6
    · rw [if_pos h6] at hk
      cases ht : tcpOk (ip4Payload b) with
      | error e => rw [ht] at hk; cases hk
      | ok u =>
        rw [ht] at hk
        simp only [Dissect.tcpView, kindOf, Option.some.injEq] at hk
        subst hk
        exact ⟨h6, by have := tcpOk_len _ u ht; simp only [L4.off]; omega⟩
    · rw [if_neg h6] at hk
      by_cases h17 : u8 b 9 = 17
      · rw [if_pos h17] at hk
        by_cases hl : (ip4Payload b).length < 8
        · rw [if_pos hl] at hk; cases hk
        · rw [if_neg hl] at hk
          simp only [udpView, kindOf, Option.some.injEq] at hk
          subst hk
          exact ⟨h17, by simp only [L4.off]; omega⟩
      · rw [if_neg h17] at hk; cases hk

theorem view6_facts (d s b : Bytes) (k : Checksum.L4) (hk : kindOf (ip6View d s b).l4 = some k) :
    (ip6View d s b).p = k.num ∧ k.off + 2 ≤ (ip6View d s b).seg.length := by
  unfold ip6View at hk ⊢
  cases hc : ip6Chain b with
  | error e => rw [hc] at hk; cases hk
  | ok ch =>
    rw [hc] at hk
    simp only at hk ⊢
    by_cases h0 : u8 b 6 = 44 ∧ ch.lastOff > 0
    · rw [if_pos h0] at hk; cases hk
    · rw [if_neg h0] at hk
      by_cases h6 : ch.nxt = some 6
      · rw [if_pos h6] at hk
        cases ht : tcpOk ch.rest with
        | error e => rw [ht] at hk; cases hk
        | ok u =>
          rw [ht] at hk
          simp only [Dissect.tcpView, kindOf, Option.some.injEq] at hk
          subst hk
          exact ⟨by rw [h6]; rfl, by have := tcpOk_len _ u ht; simp only [L4.off]; omega⟩
      · rw [if_neg h6] at hk
        by_cases h17 : ch.nxt = some 17
        · rw [if_pos h17] at hk
          by_cases hl : ch.rest.length < 8
          · rw [if_pos hl] at hk; cases hk
          · rw [if_neg hl] at hk
            simp only [udpView, kindOf, Option.some.injEq] at hk
            subst hk
            exact ⟨by rw [h17]; rfl, by simp only [L4.off]; omega⟩
        · rw [if_neg h17] at hk; cases hk

/-- dpkt makes a `TCP` / `UDP` instance only for protocol 6 / 17 and only of a buffer that holds the whole fixed header -/
theorem dissect_l4_facts (buf : Bytes) (x : IpPkt) (k : Checksum.L4) (h : dissect buf = .ok (.ip x))
    (hk : kindOf x.l4 = some k) : x.p = k.num ∧ k.off + 2 ≤ x.seg.length := by
  unfold dissect dissectD at h
  split at h
  · cases h
  · split at h
    · cases h; exact view4_facts _ _ _ k hk
    · cases h; exact view6_facts _ _ _ k hk
    · cases h

theorem check_ok_len (k : Checksum.L4) (v6 : Bool) (src dst : Bytes) (p : Nat) (seg : Bytes) (b : Bool)
    (h : check k v6 src dst p seg = .ok b) : seg.length < (if v6 then 4294967296 else 65536) := by
  by_cases hl : seg.length < (if v6 then 4294967296 else 65536)
  · exact hl
  · exfalso
    unfold Checksum.check Checksum.pseudoHeader at h
    cases v6 with
    | false =>
      simp only [Bool.false_eq_true, if_false] at hl
      simp only [Bool.not_false, if_true, Checksum.toBytes2, if_neg hl, Checksum.toBytes1, bind, Except.bind] at h
      split at h
      · cases h
      · rename_i _ _ heq
        split at heq <;> cases heq
    | true =>
      simp only [if_true] at hl
      simp only [Bool.not_true, Bool.false_eq_true, if_false, Checksum.toBytes4, if_neg hl, bind, Except.bind] at h
      simp at h

/-- **The verdict bit of a frame read under `-c` is the RFC 1071 receiver's verdict.** For a frame the tool dissects as
    TCP or UDP over IPv4 / IPv6 (`x`: addresses, protocol and transport bytes as dpkt delivers them) with a non-empty
    payload: `csumOk` — what `calculate_checksum_tcp/udp` returned — is true exactly when the independent RFC 1071
    receiver (`Spec.Rfc1071.verdict`: pseudo-header, one's-complement sum over the transport bytes) accepts the segment;
    a UDP/IPv4 datagram sent WITHOUT a checksum (field zero: neither right nor wrong) is rejected. -/
theorem ingest_verdict_rfc1071 (tag us : Nat) (buf : Bytes) (p : Pkt) (i : Pipeline.Info)
    (h : Ingest.framePkt true tag us buf = .ok (p, i)) (hl4 : p.l4 ≠ .other) (hpl : p.payload ≠ []) :
    ∃ x k, dissect buf = .ok (.ip x) ∧ kindOf x.l4 = some k ∧
      p.csumOk = decide (verdict (toSpec k) x.v6 x.src x.dst x.seg = .valid) := by
  unfold Ingest.framePkt at h
  cases hd : dissect buf with
  | error e => simp [hd] at h
  | ok dd =>
    cases dd with
    | notIp => simp only [hd] at h; cases h; exact absurd rfl hl4
    | ip x =>
      simp only [hd, if_true] at h
      have hal := Lemmas.DissectAddr.dissect_addr_lengths _ buf x hd
      have hev : x.src.length % 2 = 0 ∧ x.dst.length % 2 = 0 := by
        obtain ⟨_, _, h1, h2⟩ := hal
        rw [h1, h2]
        cases x.v6 <;> simp
      -- the verdict of `calculate_checksum_*` against RFC 1071, for the kind dpkt found
      have core : ∀ (k : Checksum.L4) (pl : Bytes), kindOf x.l4 = some k → pl ≠ [] → ∀ v : Option Bool,
          (if pl.isEmpty then (.ok none : Except Ingest.Err (Option Bool))
            else match check k x.v6 x.src x.dst x.p x.seg with
              | .ok b => .ok (some b)
              | .error _ => .error .overflow) = .ok v →
          v.getD true = decide (verdict (toSpec k) x.v6 x.src x.dst x.seg = .valid) := by
        intro k pl hk hne v hv
        have hne' : pl.isEmpty = false := by cases pl <;> simp_all
        rw [hne'] at hv
        simp only [Bool.false_eq_true, if_false] at hv
        obtain ⟨hp, hf⟩ := dissect_l4_facts buf x k hd hk
        cases hc : check k x.v6 x.src x.dst x.p x.seg with
        | error e => rw [hc] at hv; cases hv
        | ok b =>
          rw [hc] at hv
          cases hv
          have hD : Dissected k x.v6 x.src x.dst x.seg := ⟨hev.1, hev.2, hf, check_ok_len _ _ _ _ _ _ b hc⟩
          rw [hp] at hc
          simp only [Option.getD_some]
          by_cases hnc : verdict (toSpec k) x.v6 x.src x.dst x.seg = .noChecksum
          · -- UDP / IPv4, field zero
            have hku : k = .udp ∧ x.v6 = false := by
              unfold verdict at hnc
              split at hnc
              · rename_i hz
                cases hv6 : x.v6 with
                | true => rw [hv6] at hnc; simp at hnc
                | false => cases k <;> simp_all [toSpec]
              · split at hnc <;> cases hnc
            obtain ⟨rfl, hv6⟩ := hku
            rw [hv6] at hD hc hnc ⊢
            have := Props.C11.check_udp4_nochecksum x.src x.dst x.seg hD hnc
            rw [show L4.udp.num = 17 from rfl] at hc
            rw [this] at hc
            cases hc
            simp [toSpec, hnc] at hnc ⊢
          · have := Props.C11.check_eq_rfc_verify k x.v6 x.src x.dst x.seg hD hnc
            rw [this] at hc
            exact (Except.ok.inj hc).symm
      cases hv : Ingest.verdict x with
      | error e => simp [hv] at h
      | ok v =>
        simp only [hv] at h
        cases hx : x.l4 with
        | other => rw [hx] at h; cases h; exact absurd rfl hl4
        | tcp sp dp sq ak pl =>
          rw [hx] at h
          cases h
          refine ⟨x, .tcp, rfl, by rw [hx]; rfl, ?_⟩
          unfold Ingest.verdict at hv
          rw [hx] at hv
          exact core .tcp pl (by rw [hx]; rfl) hpl v hv
        | udp sp dp pl =>
          rw [hx] at h
          cases h
          refine ⟨x, .udp, rfl, by rw [hx]; rfl, ?_⟩
          unfold Ingest.verdict at hv
          rw [hx] at hv
          exact core .udp pl (by rw [hx]; rfl) hpl v hv

end Verdict

/-! #### at the level of the files -/

/-- the last stage of `run()`: the writer -/
def finish (r : Except Options.Err (List Pipeline.OutPkt)) : Outcome :=
  match r with
  | .error _ => .badOptions
  | .ok out =>
    match OutBytes.fileOf out with
    | .error e => .abort (.write e)
    | .ok f => .file f

/-- the program in terms of its stages -/
theorem exportFile_stages (args : Args) (legacy : Bool) (kl : Option Keylog.Str) (capture : Bytes) :
    exportFile mask H P args legacy kl capture =
      if optionsBad (freshState : Export.Prior) args then .badOptions
      else match Ingest.itemsWith Keylog.srcHexClass args.checksumTest legacy capture with
        | .error e => .abort (.ingest e)
        | .ok (xs, is) => finish (framesFrom mask H P freshState args (fileKeysOf kl) xs (Ingest.lookup is)) := by
  unfold exportFile exportFrom finish
  split
  · rfl
  · cases Ingest.itemsWith Keylog.srcHexClass args.checksumTest legacy capture with
    | error e => rfl
    | ok v => obtain ⟨xs, is⟩ := v; rfl

/-- **C11, whole program.** The run with `-c` on ANY capture file: the read loop (reader, dpkt, the verdict of
    `calculate_checksum_tcp/udp` per TCP / UDP frame with a payload — which is the RFC 1071 receiver's verdict:
    `ingest_verdict_rfc1071`) delivers the items `xs`; the output file is then, byte for byte, what the run WITHOUT `-c`
    writes for the items with exactly the rejected frames removed — or the same abort. Non-IP frames, frames dpkt does
    not dissect to TCP / UDP, empty segments: left in place, ignored by both runs as before.
    (Stated on the items of the read loop, not on a re-encoded capture file: removing frames from the FILE renumbers the
    packets behind them (`Pkt.tag` = position), and equality then needs the invariance of the session machines under
    renaming of tags — not proved.) -/
theorem export_checksum_filter (args : Args) (legacy : Bool) (kl : Option Keylog.Str) (capture : Bytes) :
    exportFile mask H P (argsC args true) legacy kl capture =
      if optionsBad (freshState : Export.Prior) args then .badOptions
      else match Ingest.itemsWith Keylog.srcHexClass true legacy capture with
        | .error e => .abort (.ingest e)
        | .ok (xs, is) =>
          finish (framesFrom mask H P freshState (argsC args false) (fileKeysOf kl)
            (xs.filter fun it => !rejected it) (Ingest.lookup is)) := by
  rw [exportFile_stages]
  have : optionsBad (freshState : Export.Prior) (argsC args true) = optionsBad (freshState : Export.Prior) args := rfl
  rw [this]
  split
  · rfl
  · simp only [argsC]
    cases Ingest.itemsWith Keylog.srcHexClass true legacy capture with
    | error e => rfl
    | ok v =>
      obtain ⟨xs, is⟩ := v
      simp only
      exact congrArg finish (export_checksum_filter_frames mask H P (Ingest.lookup is) freshState args (fileKeysOf kl) xs)

/-! #### without `-c` the checksums are never looked at -/
section NoC
open TLX.Dissect

/-- everything `Packet.__init__` sets EXCEPT what only the checksum functions read (`ip.p`, `bytes(packet.tcp/udp)`) -/
def viewNoCsum : Dissected → Option (Bool × Bytes × Bytes × Bytes × Bytes × Transport)
  | .notIp => none
  | .ip x => some (x.v6, x.srcMac, x.dstMac, x.src, x.dst, x.l4)

theorem framePkt_noC_congr (tag us : Nat) (b₁ b₂ : Bytes)
    (h : (dissect b₁).map viewNoCsum = (dissect b₂).map viewNoCsum) :
    Ingest.framePkt false tag us b₁ = Ingest.framePkt false tag us b₂ := by
  unfold Ingest.framePkt
  cases h₁ : dissect b₁ with
  | error e₁ =>
    cases h₂ : dissect b₂ with
    | error e₂ => rw [h₁, h₂] at h; cases h; rfl
    | ok d₂ => rw [h₁, h₂] at h; cases h
  | ok d₁ =>
    cases h₂ : dissect b₂ with
    | error e₂ => rw [h₁, h₂] at h; cases h
    | ok d₂ =>
      rw [h₁, h₂] at h
      simp only [Except.map, Except.ok.injEq] at h
      cases d₁ with
      | notIp =>
        cases d₂ with
        | notIp => rfl
        | ip y => cases h
      | ip x =>
        cases d₂ with
        | notIp => cases h
        | ip y =>
          simp only [viewNoCsum, Option.some.injEq, Prod.mk.injEq] at h
          obtain ⟨e1, e2, e3, e4, e5, e6⟩ := h
          simp only [Bool.false_eq_true, if_false, Option.getD_none, e1, e2, e3, e4, e5, e6]

/-- two reader items that differ at most in what only the checksum functions read (a packet whose time stamp is −1 is
    taken for a secrets block and its bytes are parsed as key-log text: excluded) -/
def SameButChecksums : Container.Item → Container.Item → Prop
  | .pkt t₁ b₁, .pkt t₂ b₂ =>
    t₁ = t₂ ∧ Ingest.isMinusOne t₁ = false ∧ (dissect b₁).map viewNoCsum = (dissect b₂).map viewNoCsum
  | .dsb s₁, .dsb s₂ => s₁ = s₂
  | _, _ => False

theorem go_noC_congr {l₁ l₂ : List Container.Item} (h : Zip SameButChecksums l₁ l₂) :
    ∀ tag, Ingest.go Keylog.srcHexClass false tag l₁ = Ingest.go Keylog.srcHexClass false tag l₂ := by
  induction h with
  | nil => intro tag; rfl
  | @cons a b as bs hab _ ih =>
    intro tag
    cases a with
    | dsb s₁ =>
      cases b with
      | dsb s₂ => have : s₁ = s₂ := hab; subst this; simp only [Ingest.go, ih]
      | pkt t d => exact absurd hab (by simp [SameButChecksums])
    | pkt t₁ d₁ =>
      cases b with
      | dsb s => exact absurd hab (by simp [SameButChecksums])
      | pkt t₂ d₂ =>
        obtain ⟨ht, hm, hd⟩ : t₁ = t₂ ∧ Ingest.isMinusOne t₁ = false ∧ _ := hab
        subst ht
        simp only [Ingest.go, hm, Bool.false_eq_true, if_false, framePkt_noC_congr tag _ d₁ d₂ hd, ih]

/-- **Without `-c` checksums are never looked at.** Two capture files whose readers deliver, position by position, the
    same secrets blocks and packets at the same instants whose DISSECTIONS agree in everything but `ip.p` and the
    transport bytes handed to the checksum functions — e.g. the same frames with the IPv4 header checksum, the TCP or the
    UDP checksum field overwritten with anything (`checksum_fields_not_dissected`) — give the same outcome when `-c` is
    absent: byte-identical output files, or the same abort. -/
theorem export_ignores_checksums_without_c (args : Args) (legacy₁ legacy₂ : Bool) (kl : Option Keylog.Str)
    (cap₁ cap₂ : Bytes) (its₁ its₂ : List Container.Item) (ended : Option Container.Err)
    (hr₁ : Container.readPrefix legacy₁ cap₁ = .ok (its₁, ended))
    (hr₂ : Container.readPrefix legacy₂ cap₂ = .ok (its₂, ended))
    (hz : Zip SameButChecksums its₁ its₂) :
    exportFile mask H P (argsC args false) legacy₁ kl cap₁ = exportFile mask H P (argsC args false) legacy₂ kl cap₂ := by
  apply exportFile_congr_ingest
  simp only [argsC]
  unfold Ingest.itemsWith
  rw [hr₁, hr₂]
  simp only [go_noC_congr hz 0]

/-- the checksum fields of a frame are not among what the tool takes from dpkt: two well-formed Ethernet II / IPv4 / TCP or
    UDP frames (`Spec.FrameBuild`: any options, trailer) that differ ONLY in the IPv4 header checksum, the TCP / UDP
    checksum, or anything else outside the addresses, ports, sequence numbers and payload (TOS, TTL, window, flags, IP
    options, …) have the same view -/
theorem checksum_fields_not_dissected (f f' : Spec.FrameBuild.Frame) (h h' : Spec.FrameBuild.V4)
    (hn : f.net = .v4 h) (hn' : f'.net = .v4 h') (w : f.WF) (w' : f'.WF)
    (hsame : f.srcMac = f'.srcMac ∧ f.dstMac = f'.dstMac ∧ h.src = h'.src ∧ h.dst = h'.dst ∧
      C12Dissect.transportOf f.upper = C12Dissect.transportOf f'.upper) :
    (dissect f.encode).map viewNoCsum = (dissect f'.encode).map viewNoCsum := by
  rw [C12Dissect.dissect_build_v4 f h hn w, C12Dissect.dissect_build_v4 f' h' hn' w']
  obtain ⟨a, b, c, d, e⟩ := hsame
  simp only [Except.map, viewNoCsum, a, b, c, d, e]

end NoC

namespace Ex
open TLX.Spec.FrameBuild

/-- a well-formed TCP segment to port 443 whose checksum field is `cs` (the right value is not 0) -/
def seg (cs : Nat) : Frame :=
  ⟨[1, 2, 3, 4, 5, 6], [7, 8, 9, 10, 11, 12], .v4 ⟨0, 7, true, false, 64, 0, [10, 0, 0, 1], [10, 0, 0, 2], []⟩,
   .tcp ⟨50000, 443, 1000, 2000, 0x18, 0, 8192, cs, 0, [], [0x16, 3, 3]⟩, []⟩

/-- what the read loop under `-c` decides about one frame -/
def rejectedOf (buf : Bytes) : Option Bool :=
  match Ingest.framePkt true 3 0 buf with
  | .ok (p, _) => some (rejected (.frame p))
  | .error _ => none

/-- non-vacuity of `export_checksum_filter`: the read loop under `-c` marks this frame with checksum field 0 as rejected
    and the same frame with the right checksum (0x9200) as accepted — the filter removes the one and keeps the other -/
theorem rejected_instance : rejectedOf (seg 0).encode = some true ∧ rejectedOf (seg 0x9200).encode = some false := by
  decide +kernel

end Ex

end C11

-- ====================================================================== 4. C03: bystanders
section C03
variable (info : Nat → Pipeline.Info)

theorem merge_map {α β : Type} {a b m : List α} (h : Merge a b m) (f : α → β) : Merge (a.map f) (b.map f) (m.map f) := by
  induction h with
  | nil => exact .nil
  | left x _ ih => exact .left _ ih
  | right x _ ih => exact .right _ ih

theorem dsbOnly_merge_silent {B V C : List (Item Keylog.Key)} (hm : Merge B V C) (hk : dsbOnly V = []) :
    dsbOnly C = dsbOnly B := by
  induction hm with
  | nil => rfl
  | left x _ ih => simp only [dsbOnly, List.flatMap_cons] at ih ⊢; rw [ih hk]
  | right x _ ih =>
    simp only [dsbOnly, List.flatMap_cons, List.append_eq_nil_iff] at ih hk ⊢
    rw [hk.1, ih hk.2]; rfl

/-- **C03, whole program (TLS).** `B`: a capture (one TLS conversation, or many); `V`: ANY other items — TCP segments on
    other flows (valid TLS, garbage, records that make THEIR session's state machine raise), UDP / QUIC datagrams, non-IP
    frames — that bring no key material (`hk`) and share no TCP flow with `B` (`hd`); `C`: any interleaving of the two.
    Then the conversations of `B` are exported from `C` exactly as from `B` alone: the per-conversation frame lists of `C`
    are those of `B`, each intact and in `B`'s order, interleaved with the blocks of `V`'s conversations. Whatever happens
    inside a session of `V` stays inside it. Any options, key log, primitives. -/
theorem export_bystander_unaffected (o : Opts) (fk : Option (List Keylog.Key)) {B V C : List (Item Keylog.Key)}
    (hm : Merge B V C) (hd : ∀ a ∈ tcpView o B, ∀ b ∈ tcpView o V, sameFlow a b = false) (hk : dsbOnly V = []) :
    Merge (tlsFrames H P info o fk B) ((tlsConvs H P info o V).map (convFrames H P info (keysOf fk C)))
      (tlsFrames H P info o fk C) := by
  have hkeys : keysOf fk C = keysOf fk B := by simp only [keysOf, dsbOnly_merge_silent hm hk]
  have hs : Merge (tlsConvs H P info o B) (tlsConvs H P info o V) (tlsConvs H P info o C) :=
    C04.tls_sessions_merge (Pipeline.tlsMachine H P info) o (hm.filterMap _) hd
  unfold tlsFrames
  rw [← hkeys]
  exact merge_map hs _

/-- … in particular every conversation of `B` is found in the merged run — the same object — with the same frames -/
theorem bystander_frames_same (o : Opts) (fk : Option (List Keylog.Key)) {B V C : List (Item Keylog.Key)}
    (hm : Merge B V C) (hd : ∀ a ∈ tcpView o B, ∀ b ∈ tcpView o V, sameFlow a b = false) (hk : dsbOnly V = [])
    (s : TlsSess Pipeline.Conn) (hs : s ∈ tlsConvs H P info o B) :
    s ∈ tlsConvs H P info o C ∧ convFrames H P info (keysOf fk C) s = convFrames H P info (keysOf fk B) s ∧
      convFrames H P info (keysOf fk B) s ∈ tlsFrames H P info o fk C := by
  have hkeys : keysOf fk C = keysOf fk B := by simp only [keysOf, dsbOnly_merge_silent hm hk]
  have hss : Merge (tlsConvs H P info o B) (tlsConvs H P info o V) (tlsConvs H P info o C) :=
    C04.tls_sessions_merge (Pipeline.tlsMachine H P info) o (hm.filterMap _) hd
  have hmem := (hss.mem s).mpr (.inl hs)
  refine ⟨hmem, by rw [hkeys], ?_⟩
  unfold tlsFrames
  rw [hkeys]
  exact List.mem_map.mpr ⟨s, hmem, rfl⟩

/-- … and in what `run()` hands to the writer: the TLS part of the merged run is the concatenation of these blocks -/
theorem bystander_in_output (prior : Export.Prior) (args : Args) (o : Opts) (ho : optsOf args = some o)
    (fk : Option (List Keylog.Key)) {B V C : List (Item Keylog.Key)}
    (hm : Merge B V C) (hd : ∀ a ∈ tcpView o B, ∀ b ∈ tcpView o V, sameFlow a b = false) (hk : dsbOnly V = []) :
    ∃ blocks quicPart, framesFrom mask H P prior args fk C info = .ok (blocks.flatten ++ quicPart) ∧
      Merge (tlsFrames H P info o fk B) ((tlsConvs H P info o V).map (convFrames H P info (keysOf fk C))) blocks :=
  ⟨_, _, framesFrom_explicit mask H P info prior args fk C o ho, export_bystander_unaffected H P info o fk hm hd hk⟩

namespace Ex
open TLX.Props.C04.Ex

def oB : Opts := ⟨[443], false, false, false, true, []⟩
def capB : List (Item Keylog.Key) := [.frame (tcp 1 (ep 1 5000) (ep 8 443)), .frame (tcp 4 (ep 8 443) (ep 1 5000))]
def capV : List (Item Keylog.Key) :=
  [.frame (tcp 2 (ep 2 6000) (ep 9 443)), .frame (udp 3 (ep 3 7000) (ep 9 443) [0xc0, 0, 0, 0, 1, 0]),
   .frame ⟨.other, ⟨[], 0⟩, ⟨[], 0⟩, [], true, 5⟩]
def capC : List (Item Keylog.Key) :=
  [.frame (tcp 1 (ep 1 5000) (ep 8 443)), .frame (tcp 2 (ep 2 6000) (ep 9 443)),
   .frame (udp 3 (ep 3 7000) (ep 9 443) [0xc0, 0, 0, 0, 1, 0]), .frame (tcp 4 (ep 8 443) (ep 1 5000)),
   .frame ⟨.other, ⟨[], 0⟩, ⟨[], 0⟩, [], true, 5⟩]

/-- non-vacuity of `export_bystander_unaffected`: a conversation, and a victim capture with another TCP flow, a QUIC-looking
    datagram and a non-IP frame, interleaved -/
theorem bystander_instance :
    Merge capB capV capC ∧ (∀ a ∈ tcpView oB capB, ∀ b ∈ tcpView oB capV, sameFlow a b = false) ∧ dsbOnly capV = [] ∧
    (tcpView oB capB).length = 2 ∧ (tcpView oB capV).length = 1 :=
  ⟨.left _ (.right _ (.right _ (.left _ (.right _ .nil)))), by decide +kernel, by decide +kernel, by decide +kernel,
   by decide +kernel⟩

end Ex

end C03

end TLX.Props.ExportInputs
