/-
Whole-program forms of C12, C09, C11 (and C03): theorems about `TLX.Export.exportFile` / `framesFrom`, lifting the reader,
key-log and checksum results through the read loop `TLX.Ingest`.
-/
import TLX.Props.Export
import TLX.Props.ExportProps
import TLX.Props.C12
import TLX.Props.C09Found
import TLX.Props.C11
set_option linter.unusedSimpArgs false
namespace TLX.Props.ExportInputs
open TLX TLX.MainLoop TLX.Export TLX.Spec.Demux TLX.Lemmas.ExportProps TLX.Lemmas.MainLoop
open TLX.Spec.Containers (Zip Variant CEv Ev represents delivers keep scale encode)

variable (mask : Quic.Dissect.MaskFn) (H : Crypto.Prims) (P : Cipher.Prims)

-- ====================================================================== 0. plumbing: the read loop
section ReadLoop
open TLX.Ingest

/-- what the read loop takes from a reader time stamp: the `ts == -1` test and the microsecond written to the output.
    Both go through IEEE-754 doubles (`Container.Time.toFloat`), which the kernel does not evaluate. -/
def stamp (t : Container.Time) : Bool × Nat := (isMinusOne t, Container.usOfFloat t.toFloat)

/-- two reader items the read loop cannot tell apart: the same bytes, and time stamps with the same `stamp` -/
def SameItem : Container.Item → Container.Item → Prop
  | .pkt t₁ d₁, .pkt t₂ d₂ => d₁ = d₂ ∧ stamp t₁ = stamp t₂
  | .dsb s₁, .dsb s₂ => s₁ = s₂
  | _, _ => False

theorem go_congr (hc : Keylog.HexClass) (c : Bool) {l₁ l₂ : List Container.Item} (h : Zip SameItem l₁ l₂) :
    ∀ tag, go hc c tag l₁ = go hc c tag l₂ := by
  induction h with
  | nil => intro tag; rfl
  | @cons a b as bs hab _ ih =>
    intro tag
    cases a with
    | dsb s₁ =>
      cases b with
      | dsb s₂ =>
        have : s₁ = s₂ := hab
        subst this
        simp only [go, ih]
      | pkt t d => exact absurd hab (by simp [SameItem])
    | pkt t₁ d₁ =>
      cases b with
      | dsb s => exact absurd hab (by simp [SameItem])
      | pkt t₂ d₂ =>
        obtain ⟨hd, hs⟩ : d₁ = d₂ ∧ stamp t₁ = stamp t₂ := hab
        subst hd
        simp only [stamp, Prod.mk.injEq] at hs
        simp only [go, hs.1, hs.2, ih]

theorem readPrefix_of_read (legacy : Bool) (f : Bytes) (xs : List Container.Item)
    (h : Container.read legacy f = .ok xs) : Container.readPrefix legacy f = .ok (xs, none) := by
  unfold Container.read at h
  split at h
  · cases h
  · cases h; assumption
  · cases h

theorem itemsWith_of_read (hc : Keylog.HexClass) (c legacy : Bool) (f : Bytes) (xs : List Container.Item)
    (h : Container.read legacy f = .ok xs) : itemsWith hc c legacy f = go hc c 0 xs := by
  unfold itemsWith
  rw [readPrefix_of_read legacy f xs h]
  simp only
  cases go hc c 0 xs <;> rfl

end ReadLoop

/-- the capture enters `exportFile` only through what the read loop makes of it -/
theorem exportFile_congr_ingest (args : Args) (legacy₁ legacy₂ : Bool) (kl : Option Keylog.Str) (cap₁ cap₂ : Bytes)
    (h : Ingest.itemsWith Keylog.srcHexClass args.checksumTest legacy₁ cap₁ =
         Ingest.itemsWith Keylog.srcHexClass args.checksumTest legacy₂ cap₂) :
    exportFile mask H P args legacy₁ kl cap₁ = exportFile mask H P args legacy₂ kl cap₂ := by
  unfold exportFile exportFrom
  rw [h]

-- ====================================================================== 1. C12: the capture container
section C12
open TLX.Spec.Containers TLX.Props.C12

/-- THE FLOATING-POINT RESIDUE of C12 as a hypothesis: position by position, the two readers' time stamps give the same
    `ts == -1` test and the same microsecond after Python's double arithmetic (`offset + ticks / float(divisor)`, resp.
    `float(Decimal)`) and dpkt's `round(ts * 1e6)`. True whenever both triples are literally equal (`stamp_same_clock`);
    for different clocks of the same instant it is `C12.ts_us_invariant_statement` — not a theorem (IEEE-754), checked on
    every run by harness/c12.py, FALSE outside the domain stated there. -/
def FloatResidue (l₁ l₂ : List Container.Item) : Prop :=
  ∀ p ∈ l₁.zip l₂, match p with
    | (.pkt t₁ _, .pkt t₂ _) => stamp t₁ = stamp t₂
    | _ => True

theorem zip_sameItem {K : List CEv} {a b : List Container.Item} (ha : Zip delivers K a) (hb : Zip delivers K b)
    (hfl : FloatResidue a b) : Zip SameItem a b := by
  induction ha generalizing b with
  | nil => cases hb; exact Zip.nil
  | @cons c x cs xs hcx _ ih =>
    cases hb with
    | @cons _ y _ ys hcy hys =>
      refine Zip.cons ?_ (ih hys (fun p hp => hfl p (by simp [List.zip_cons_cons, hp])))
      have h0 := hfl (x, y) (by simp [List.zip_cons_cons])
      cases c with
      | pkt num den data =>
        cases x with
        | dsb s => exact absurd hcx (by simp [delivers])
        | pkt t₁ d₁ =>
          cases y with
          | dsb s => exact absurd hcy (by simp [delivers])
          | pkt t₂ d₂ => exact ⟨hcx.1.trans hcy.1.symm, h0⟩
      | dsb s =>
        cases x with
        | pkt t d => exact absurd hcx (by simp [delivers])
        | dsb s₁ =>
          cases y with
          | pkt t d => exact absurd hcy (by simp [delivers])
          | dsb s₂ =>
            have e1 : s₁ = s := hcx
            have e2 : s₂ = s := hcy
            exact e1.trans e2.symm

/-- **C12, whole program.** One capture `cap` (packets at exact instants `num/den` s, secrets blocks), written in two
    container variants `v₁`, `v₂` — pcapng little/big endian, any `if_tsresol` (10^-k, 2^-k) and `if_tsoffset`, options and
    unrelated blocks anywhere, EPB or obsolete PB, libpcap µs / ns in either byte order — as event lists `evs₁`, `evs₂`
    whose ticks denote exactly the capture's instants in the respective clock (`represents`; an instant is representable
    in a variant iff `(num/den − offset)·unitsPerSecond` is a natural number that fits the tick field: `Variant.WF`).
    If both containers can hold the capture's secrets (`hkeep`: both pcapng, or no secrets blocks — libpcap has none) and
    the float residue holds (`hfl`), the program's outcome is THE SAME: byte-identical output files, or the same abort —
    for every option vector, key-log file, hash suite, cipher primitives and mask. -/
theorem export_container_independent (args : Args) (kl : Option Keylog.Str) (v₁ v₂ : Variant) (cap : List CEv)
    (evs₁ evs₂ : List Ev) (hwf₁ : v₁.WF evs₁) (hwf₂ : v₂.WF evs₂)
    (hrep₁ : Zip (represents v₁) cap evs₁) (hrep₂ : Zip (represents v₂) cap evs₂)
    (hkeep : keep v₁ cap = keep v₂ cap)
    (hfl : FloatResidue (evs₁.filterMap (scale v₁)) (evs₂.filterMap (scale v₂))) :
    exportFile mask H P args v₁.isLegacy kl (encode v₁ evs₁) = exportFile mask H P args v₂.isLegacy kl (encode v₂ evs₂) := by
  obtain ⟨o₁, r₁, z₁⟩ := container_independent v₁ cap evs₁ hwf₁ hrep₁
  obtain ⟨o₂, r₂, z₂⟩ := container_independent v₂ cap evs₂ hwf₂ hrep₂
  have e₁ : o₁ = evs₁.filterMap (scale v₁) := by
    have := reader_roundtrip v₁ evs₁ hwf₁; rw [r₁] at this; exact Except.ok.inj this
  have e₂ : o₂ = evs₂.filterMap (scale v₂) := by
    have := reader_roundtrip v₂ evs₂ hwf₂; rw [r₂] at this; exact Except.ok.inj this
  subst e₁ e₂
  rw [hkeep] at z₁
  apply exportFile_congr_ingest
  rw [itemsWith_of_read _ _ _ _ _ r₁, itemsWith_of_read _ _ _ _ _ r₂]
  exact go_congr _ _ (zip_sameItem z₁ z₂ hfl) 0

/-- no floating-point hypothesis is needed between variants with the SAME clock: literally equal triples -/
theorem floatResidue_refl (l : List Container.Item) : FloatResidue l l := by
  intro p hp
  obtain ⟨a, b⟩ := p
  have : a = b := by
    induction l with
    | nil => simp at hp
    | cons x xs ih =>
      simp only [List.zip_cons_cons, List.mem_cons, Prod.mk.injEq] at hp
      rcases hp with ⟨rfl, rfl⟩ | hp
      · rfl
      · exact ih hp
  subst this
  cases a <;> simp

/-- **… unconditionally for the container LAYOUT**: byte order, block padding, options, unrelated blocks before and after
    the interface description and around every packet, EPB vs. obsolete PB, original-length fields — everything but the
    clock (`if_tsresol`, `if_tsoffset`). Two pcapng variants that deliver the same items (`hsame`: same resolution and
    offset, same ticks) give byte-identical outcomes; no hypothesis about floating point. -/
theorem export_layout_independent (args : Args) (kl : Option Keylog.Str) (v₁ v₂ : Variant) (evs₁ evs₂ : List Ev)
    (hwf₁ : v₁.WF evs₁) (hwf₂ : v₂.WF evs₂) (hsame : evs₁.filterMap (scale v₁) = evs₂.filterMap (scale v₂)) :
    exportFile mask H P args v₁.isLegacy kl (encode v₁ evs₁) = exportFile mask H P args v₂.isLegacy kl (encode v₂ evs₂) := by
  apply exportFile_congr_ingest
  rw [itemsWith_of_read _ _ _ _ _ (reader_roundtrip v₁ evs₁ hwf₁), itemsWith_of_read _ _ _ _ _ (reader_roundtrip v₂ evs₂ hwf₂),
    hsame]

namespace Ex
open TLX.Props.C12

/-- the clock of `C12.exVariant` (2^-10 s, offset −3 s), little-endian, no decoration at all -/
def plainVariant : NgVariant := { hdr := { e := .le, tsresol := some (.bin 10), tsoffset := some (-3) } }

def exCap : List CEv := [.pkt 3 2 [0xde, 0xad, 0xbe], .dsb [0x43, 0x4c, 0x49], .pkt (2 ^ 40 + 1 - 3072) 1024 []]

theorem exVariant_wf : (Variant.pcapng exVariant).WF exEvs := by
  refine ⟨by decide +kernel, by decide +kernel, by decide +kernel, by decide +kernel, ?_, by decide +kernel⟩
  intro i b hb
  simp only [exVariant] at hb
  split at hb
  · simp only [List.mem_singleton] at hb; subst hb; decide +kernel
  · cases hb

theorem plainVariant_wf : (Variant.pcapng plainVariant).WF exEvs := by
  refine ⟨by decide +kernel, by decide +kernel, by decide +kernel, by decide +kernel, ?_, by decide +kernel⟩
  intro i b hb
  simp [plainVariant] at hb

theorem exCap_rep (v : NgVariant) (hd : v.hdr.divisor = 1024) (ho : v.hdr.offset = -3) :
    Zip (represents (.pcapng v)) exCap exEvs := by
  refine Zip.cons ⟨rfl, ?_⟩ (Zip.cons rfl (Zip.cons ⟨rfl, ?_⟩ Zip.nil)) <;> rw [hd, ho] <;> decide

/-- non-vacuity of `export_container_independent`: the capture of `C12` (a packet at 1.5 s, a secrets block, a packet at
    2^40+1 ticks) in the decorated big-endian variant and in a bare little-endian one: every hypothesis holds, so the
    two FILES (which differ in almost every byte) give the same outcome -/
theorem layout_instance (mask : Quic.Dissect.MaskFn) (H : Crypto.Prims) (P : Cipher.Prims) (args : Args)
    (kl : Option Keylog.Str) :
    exportFile mask H P args false kl (encode (.pcapng exVariant) exEvs) =
      exportFile mask H P args false kl (encode (.pcapng plainVariant) exEvs) ∧
    encode (.pcapng exVariant) exEvs ≠ encode (.pcapng plainVariant) exEvs :=
  ⟨export_container_independent mask H P args kl (.pcapng exVariant) (.pcapng plainVariant) exCap exEvs exEvs
      exVariant_wf plainVariant_wf (exCap_rep _ rfl rfl) (exCap_rep _ rfl rfl) rfl (floatResidue_refl _),
   by decide +kernel⟩

end Ex

end C12

-- ====================================================================== 2. C09: how the secrets are delivered
section C09
open TLX.Keylog

variable (info : Nat → Pipeline.Info)

/-- the frame items of a capture, in order (DSB items dropped) -/
def framesOf (xs : List (Item Keylog.Key)) : List Pkt := xs.filterMap Lemmas.Export.frameOf?

theorem tcpView_framesOf (o : Opts) (xs : List (Item Keylog.Key)) :
    tcpView o xs = (framesOf xs).filterMap fun p => match classify o (.frame p : Item Keylog.Key) with
      | .tls q => some q
      | _ => none := by
  unfold tcpView framesOf
  rw [List.filterMap_filterMap]
  congr 1
  funext it
  cases it with
  | dsb ks => rfl
  | frame p => simp only [Lemmas.Export.frameOf?, Option.bind_some]; cases classify o (Item.frame p : Item Keylog.Key) <;> rfl

/-- two key logs every session reads the same way: `find_session_secrets` returns the same lines for every client random -/
def SameSecrets (kl₁ kl₂ : List Keylog.Key) : Prop := ∀ cr, findSessionSecrets kl₁ cr = findSessionSecrets kl₂ cr

theorem genKeys_congr {kl₁ kl₂ : List Keylog.Key} (h : SameSecrets kl₁ kl₂) :
    Pipeline.genKeys H P kl₁ = Pipeline.genKeys H P kl₂ := by
  funext v suite cr sr exts comp
  unfold Pipeline.genKeys
  rw [h]

/-- a TLS conversation reads the key log only through `find_session_secrets` -/
theorem connOut_congr {kl₁ kl₂ : List Keylog.Key} (h : SameSecrets kl₁ kl₂) (c : Pipeline.Conn) :
    Pipeline.connOut H P info c kl₁ = Pipeline.connOut H P info c kl₂ := by
  have : Pipeline.ops H P kl₁ = Pipeline.ops H P kl₂ := by
    unfold Pipeline.ops
    rw [genKeys_congr H P h]
  unfold Pipeline.connOut
  rw [this]

/-- **`dsb_position_irrelevant`, TLS.** TLS conversations are decrypted at the END of the run with the key log as it is
    then (`-s` file, then every DSB of the capture): for two captures with the same frames in the same order, whatever
    DSB items stand wherever between them, and two `-s` files, such that the final key logs are read alike by every
    session, the exported TLS conversations are the same, frame by frame. In particular a DSB may be moved ANYWHERE
    (first, last, between any two packets) — `dsb_moved_tls`. -/
theorem dsb_position_irrelevant_tls (o : Opts) (fk₁ fk₂ : Option (List Keylog.Key)) (xs ys : List (Item Keylog.Key))
    (hfr : framesOf xs = framesOf ys) (hk : SameSecrets (keysOf fk₁ xs) (keysOf fk₂ ys)) :
    tlsFrames H P info o fk₁ xs = tlsFrames H P info o fk₂ ys := by
  unfold tlsFrames tlsConvs
  rw [tcpView_framesOf o xs, tcpView_framesOf o ys, hfr]
  apply List.map_congr_left
  intro s _
  unfold convFrames
  rw [connOut_congr H P info hk]

theorem framesOf_append (a b : List (Item Keylog.Key)) : framesOf (a ++ b) = framesOf a ++ framesOf b := by
  simp [framesOf]

theorem dsbOnly_append (a b : List (Item Keylog.Key)) : dsbOnly (a ++ b) = dsbOnly a ++ dsbOnly b := by
  simp [dsbOnly]

/-- moving one DSB from between `a` and `b` to between `b` and `c`, where `b` holds no other DSB -/
theorem dsb_moved_tls (o : Opts) (fk : Option (List Keylog.Key)) (ks : List Keylog.Key) (a b c : List (Item Keylog.Key))
    (hb : dsbOnly b = []) :
    tlsFrames H P info o fk (a ++ .dsb ks :: b ++ c) = tlsFrames H P info o fk (a ++ b ++ .dsb ks :: c) := by
  apply dsb_position_irrelevant_tls
  · simp [framesOf, List.filterMap_cons, Lemmas.Export.frameOf?]
  · intro cr
    have e1 : dsbOnly (a ++ Item.dsb ks :: b ++ c) = dsbOnly a ++ (ks ++ (dsbOnly b ++ dsbOnly c)) := by
      simp [dsbOnly]
    have e2 : dsbOnly (a ++ b ++ Item.dsb ks :: c) = dsbOnly a ++ (dsbOnly b ++ (ks ++ dsbOnly c)) := by
      simp [dsbOnly]
    simp only [keysOf, e1, e2, hb, List.nil_append]

/-- the QUIC part of the output: the sessions `handle_quic_packet` builds from the QUIC view of the capture (every
    datagram with the key log AS IT IS WHEN THE DATAGRAM IS READ), each built out with `-a` or not -/
def quicFrames (o : Opts) (fk : Option (List Keylog.Key)) (xs : List (Item Keylog.Key)) : List Pipeline.OutPkt :=
  (quicRun (QuicPipeline.quicMachine mask H P info) o [] (quicView o (fk.getD []) xs)).flatMap
    fun s => (QuicPipeline.quicMachine mask H P info).out o.metadata s.st

/-- what `run()` hands to the writer, in closed form -/
theorem framesFrom_explicit (prior : Export.Prior) (args : Args) (fk : Option (List Keylog.Key))
    (xs : List (Item Keylog.Key)) (o : Opts) (ho : optsOf args = some o) :
    framesFrom mask H P prior args fk xs info =
      .ok ((tlsFrames H P info o fk xs).flatten ++ quicFrames mask H P info o fk xs) := by
  unfold optsOf at ho
  unfold framesFrom runFrom body
  rw [Props.C18.reset_is_fresh]
  cases hpm : Options.getPortMap Options.Src.bare args.mArg with
  | error e => rw [hpm] at ho; cases ho
  | ok pm =>
    rw [hpm] at ho
    simp only at ho ⊢
    have hsp : (freshState : Export.Prior).serverPorts = Options.Src.builtin := rfl
    rw [hsp]
    cases hp : Options.serverPorts Options.Src.builtin Options.Src.pDefault args.pArg with
    | error e => rw [hp] at ho; cases ho
    | ok ports =>
      rw [hp] at ho
      simp only [Option.some.injEq] at ho
      subst ho
      simp only
      obtain ⟨h1, h2, h3⟩ := runItems_proj (Pipeline.tlsMachine H P info) (QuicPipeline.quicMachine mask H P info)
        ⟨ports, args.checksumTest, args.greasy, args.metadata, Options.keepOriginalPorts args.mArg, pm⟩ xs
        ({ (freshState : Export.Prior).st with keylog := (freshState : Export.Prior).st.keylog ++ fk.getD [] })
      simp only [exportAll, h1, h2, h3, dsbKeys_eq, List.nil_append, tlsFrames, tlsConvs, keysOf, List.flatMap_def,
        quicFrames]
      rfl

/-- the QUIC view of a stretch of the capture that holds neither a DSB nor a QUIC-classified datagram is empty and
    leaves the key log as it is -/
theorem quicView_skip (o : Opts) (kl : List Keylog.Key) (b rest : List (Item Keylog.Key))
    (hb : ∀ it ∈ b, (∃ q, classify o it = .tls q) ∨ (∃ w, classify o it = .ignore w)) :
    quicView o kl (b ++ rest) = quicView o kl rest := by
  induction b with
  | nil => rfl
  | cons it b ih =>
    have := ih (fun x hx => hb x (by simp [hx]))
    rcases hb it (by simp) with ⟨q, hq⟩ | ⟨w, hw⟩
    · simp only [List.cons_append, quicView, hq, this]
    · simp only [List.cons_append, quicView, hw, this]

theorem quicView_append_nokeys (o : Opts) (kl : List Keylog.Key) (a rest₁ rest₂ : List (Item Keylog.Key))
    (h : ∀ kl', quicView o kl' rest₁ = quicView o kl' rest₂) :
    quicView o kl (a ++ rest₁) = quicView o kl (a ++ rest₂) := by
  induction a generalizing kl with
  | nil => exact h kl
  | cons it a ih =>
    simp only [List.cons_append, quicView]
    cases classify o it with
    | keys ks => exact ih _
    | tls q => exact ih _
    | quic q b0 r => simp only [ih]
    | ignore w => exact ih _

/-- **`dsb_position_irrelevant`, the whole output (partial).** Moving a DSB from in front of a stretch `b` of the capture to
    behind it changes NOTHING in what `run()` hands to the writer — provided `b` holds no other DSB and no datagram that
    goes to `handle_quic_packet` (`hb`: TCP segments, ignored frames). MISSING for the full statement: QUIC. A QUIC session
    processes each datagram with the key log as it is at that moment (`quicView`; quic_session.py derives keys inside
    `handle_packet`), so a DSB moved behind a QUIC datagram that needs its secrets DOES change the export
    (`dsb_position_matters_to_the_quic_loop`). -/
theorem dsb_position_irrelevant_partial (prior : Export.Prior) (args : Args) (fk : Option (List Keylog.Key))
    (ks : List Keylog.Key) (a b c : List (Item Keylog.Key)) (o : Opts) (ho : optsOf args = some o)
    (hb : ∀ it ∈ b, (∃ q, classify o it = .tls q) ∨ (∃ w, classify o it = .ignore w)) :
    framesFrom mask H P prior args fk (a ++ .dsb ks :: b ++ c) info =
      framesFrom mask H P prior args fk (a ++ b ++ .dsb ks :: c) info := by
  have hd : dsbOnly b = [] := by
    rw [← dsbKeys_eq o]
    unfold dsbKeys
    rw [List.flatMap_eq_nil_iff]
    intro it hit
    rcases hb it hit with ⟨q, hq⟩ | ⟨w, hw⟩
    · rw [hq]
    · rw [hw]
  rw [framesFrom_explicit mask H P info prior args fk _ o ho, framesFrom_explicit mask H P info prior args fk _ o ho,
    dsb_moved_tls H P info o fk ks a b c hd]
  congr 2
  unfold quicFrames
  congr 2
  rw [List.append_assoc, List.append_assoc]
  apply quicView_append_nokeys
  intro kl'
  have e1 : quicView o kl' (Item.dsb ks :: (b ++ c)) = quicView o (kl' ++ ks) c := by
    rw [quicView]; simp only [classify]; exact quicView_skip o _ b c hb
  have e2 : quicView o kl' (b ++ Item.dsb ks :: c) = quicView o (kl' ++ ks) c := by
    rw [quicView_skip o _ b _ hb, quicView]; simp only [classify]
  rw [List.cons_append, e1, e2]

/-- the reason QUIC is excluded above, on the loop itself (recording machines): the same QUIC datagram and the same DSB,
    in the two orders — the session is handed a key log of 0 keys in one run and of 1 key in the other -/
theorem dsb_position_matters_to_the_quic_loop :
    let o : Opts := ⟨[443], false, false, false, true, []⟩
    let dg : Pkt := ⟨.udp, ⟨[10, 0, 0, 1], 5000⟩, ⟨[10, 0, 0, 8], 443⟩, [0xc0, 0, 0, 0, 1, 1, 7, 0], true, 1⟩
    let QM := Rec.quic (fun _ => ([], []))
    ((runItems Rec.tls QM o ⟨[], [], []⟩ [.dsb [9], .frame dg]).quic.map fun s => s.st.log.map (·.2.2.2)) = [[1]] ∧
    ((runItems Rec.tls QM o ⟨[], [], []⟩ [.frame dg, .dsb [9]]).quic.map fun s => s.st.log.map (·.2.2.2)) = [[0]] := by
  decide +kernel

end C09

end TLX.Props.ExportInputs
