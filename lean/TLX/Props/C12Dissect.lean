/-
C12 (input side): what `Packet.__init__` gets from dpkt for a frame — `TLX.Dissect.dissect` — against the independent
frame encoder `TLX.Spec.FrameBuild` (RFC 791 / 8200 / 9293 / 768, Ethernet II), which exceptions can leave it, and that
everything that is not TCP or UDP over IPv4 / IPv6 never reaches a session.

* `dissect_build_v4`      every well-formed Ethernet II / IPv4 (any options, DF / MF, offset 0) / TCP (any options) or UDP frame,
                          with any trailer bytes after the datagram: exactly the sender's MACs, addresses, ports, seq / ack and
                          payload come out; the trailer is EXCLUDED (dpkt cuts at `ip.len`); `ip.p` and the transport bytes handed
                          to the checksum functions are the sender's protocol number and segment.  MF is ignored by dpkt: a first
                          fragment is dissected like a whole datagram (that is what the statement says, for either value of `mf`).
* `dissect_build_v6`      the same for IPv6 with any chain of extension headers whose dpkt class reads them back (`ExtOk`;
                          `extOk_of_WF`: routing, fragment (offset 0) and authentication headers laid out as in RFC 8200 /
                          4302 — hop-by-hop / destination options headers are covered by the correspondence only), the
                          trailer is excluded (dpkt cuts at the payload length), EXCEPT chains that start with a fragment
                          header and end with another kind: dpkt raises AttributeError there (`Ex.attribute_aborts`).
* `dissect_total`         for ALL byte strings: a value or one of six exception kinds; each kind is inhabited
                          (`Ex.*`: the shortest inputs found, replayed on the real library by harness/ib_ingest.py).
* `short_frame_aborts`, `later_fragment_other`, `unknown_ethertype_other`
* `non_ip_ignored`        a frame whose dissection is not TCP / UDP becomes `L4.other` and `MainLoop.classify` ignores it:
                          the state of the run is unchanged by it.
-/
import TLX.Lemmas.Dissect
import TLX.Ingest
namespace TLX.Props.C12Dissect
open TLX TLX.Dissect TLX.Spec.FrameBuild TLX.Lemmas.Dissect

/-- what the sender put on the wire, in the dissector's vocabulary -/
def transportOf : Upper → Transport
  | .tcp t => .tcp t.sport t.dport t.seq t.ack t.payload
  | .udp u => .udp u.sport u.dport u.payload

theorem dissect_build_v4 (f : Frame) (h : V4) (hn : f.net = .v4 h) (w : f.WF) :
    dissect f.encode =
      .ok (.ip ⟨false, f.srcMac, f.dstMac, h.src, h.dst, f.upper.proto, f.upper.encode, transportOf f.upper⟩) := by
  obtain ⟨hd, hs, wu, wn⟩ := w
  rw [hn] at wn
  have wn : h.WF f.upper.encode.length := wn
  have henc : f.encode = f.dstMac ++ (f.srcMac ++ ((if false then [0x86, 0xdd] else [0x08, 0x00]) ++
      (h.encode f.upper.proto f.upper.encode ++ f.trailer))) := by
    simp [Frame.encode, Frame.etherType, Frame.datagram, hn]
  have hlen : f.encode.length + 2 = ((h.encode f.upper.proto f.upper.encode ++ f.trailer).length + 13 + 2) + 1 := by
    rw [henc]; simp [hd, hs]; omega
  have fx := v4_facts h f.upper.proto f.upper.encode f.trailer wn (upper_proto_lt f.upper)
  have hin := ip4_upper ((h.encode f.upper.proto f.upper.encode ++ f.trailer).length + 13) ⟨5 + 4, 5 + 5⟩ h f.upper
    f.trailer wn wu (by simp) (by simp)
  have he := eth_ip _ (⟨5, 5⟩ : Dep) f.dstMac f.srcMac _ false {} hd hs (by simp) (by simp) hin
  unfold dissect dissectD
  rw [hlen, henc]
  have : (defaultBase + 1 : Dep) = ⟨5, 5⟩ := rfl
  rw [this, he]
  simp only [Bool.false_eq_true, if_false]
  unfold ip4View
  simp only [fx.off, fx.proto, fx.payload, fx.src, fx.dst, ne_eq, not_true_eq_false, if_false]
  cases hu : f.upper with
  | tcp t =>
    rw [hu] at wu
    simp [Upper.proto, Upper.encode, transportOf, tcpOk_encode t wu, tcpView_encode t wu]
  | udp u =>
    rw [hu] at wu
    have := udp_encode_length u
    simp only [Upper.proto, Upper.encode, transportOf, udpView_encode u wu, this]
    simp

/-- IPv6 with ANY chain of extension headers that dpkt's header classes read back (`ExtOk`: proved below for routing,
    fragment and authentication headers from their RFC well-formedness): the sender's fields come out, the trailer is
    excluded (dpkt cuts at the payload length) — PROVIDED the chain does not start with a fragment header and end with
    another kind (then dpkt raises AttributeError: `Ex.attribute_aborts`). -/
theorem dissect_build_v6 (f : Frame) (h : V6) (hn : f.net = .v6 h) (w : f.WF) (hx : ∀ e ∈ h.exts, ExtOk e)
    (hq : ¬ ((encChain h.exts f.upper.proto f.upper.encode).1 = 44 ∧ lastFrag h.exts false = false)) :
    dissect f.encode =
      .ok (.ip ⟨true, f.srcMac, f.dstMac, h.src, h.dst, f.upper.proto, f.upper.encode, transportOf f.upper⟩) := by
  obtain ⟨hd, hs, wu, wn⟩ := w
  rw [hn] at wn
  obtain ⟨h1, h2, _, _, _, hb0, hb⟩ : h.WF (encChain h.exts f.upper.proto f.upper.encode).2.length := wn
  generalize hnb : encChain h.exts f.upper.proto f.upper.encode = nb at hb0 hb hq
  have hnlt : nb.1 < 256 := by rw [← hnb]; exact encChain_fst_lt _ _ _ (upper_proto_lt f.upper)
  obtain ⟨fxlen, fxnxt, fxbody, fxsrc, fxdst⟩ := v6_facts h nb.1 nb.2 f.trailer h1 h2 hnlt hb0 hb
  generalize hD : h.fixed nb.1 nb.2.length ++ (h.src ++ (h.dst ++ nb.2)) ++ f.trailer = D at fxlen fxnxt fxbody fxsrc fxdst
  have henc : f.encode = f.dstMac ++ (f.srcMac ++ ((if true then [0x86, 0xdd] else [0x08, 0x00]) ++ D)) := by
    simp [Frame.encode, Frame.etherType, Frame.datagram, hn, V6.encode, hnb, ← hD]
  have hlen : f.encode.length + 2 = (D.length + 13 + 2) + 1 := by rw [henc]; simp [hd, hs]; omega
  have hch : ip6Chain D = .ok ⟨some f.upper.proto, f.upper.encode, 0 + h.exts.length, lastFrag h.exts false, 0⟩ := by
    unfold ip6Chain
    rw [fxbody, fxnxt, ← hnb]
    exact extWalk_chain h.exts f.upper.proto f.upper.encode (upper_proto_lt _) (upper_not_ext _) hx _ 0 false
      (by have := encChain_length_ge h.exts f.upper.proto f.upper.encode; omega)
  have hin := ip6_upper (D.length + 13) ⟨5 + 4, 5 + 5⟩ D f.upper wu _ _ fxlen hch (by rw [fxnxt]; exact hq)
    (by simp) (by simp)
  have he := eth_ip _ (⟨5, 5⟩ : Dep) f.dstMac f.srcMac D true {} hd hs (by simp) (by simp) hin
  unfold dissect dissectD
  rw [hlen, henc]
  have : (defaultBase + 1 : Dep) = ⟨5, 5⟩ := rfl
  rw [this, he]
  simp only [if_true]
  unfold ip6View
  simp only [hch, fxsrc, fxdst, Option.getD_some]
  cases hu : f.upper with
  | tcp t =>
    rw [hu] at wu
    simp [Upper.proto, Upper.encode, transportOf, tcpOk_encode t wu, tcpView_encode t wu]
  | udp u =>
    rw [hu] at wu
    have := udp_encode_length u
    simp [Upper.proto, Upper.encode, transportOf, udpView_encode u wu, this]

/-- routing, fragment and authentication headers as the RFCs lay them out are read back by dpkt's classes -/
theorem extOk_of_WF (e : Ext) (w : e.WF) (hno : ∀ os, e ≠ .hopByHop os ∧ e ≠ .destOpts os) : ExtOk e := by
  cases e with
  | hopByHop os => exact absurd rfl (hno os).1
  | destOpts os => exact absurd rfl (hno os).2
  | routing t s d => exact extOk_routing t s d w
  | fragment i m => exact extOk_fragment i m
  | ah a b c => exact extOk_ah a b c w

example : ∃ (f : Frame) (h : V6), f.net = .v6 h ∧ f.WF ∧ h.exts.length = 2 ∧ (∀ e ∈ h.exts, ExtOk e) ∧
    ¬ ((encChain h.exts f.upper.proto f.upper.encode).1 = 44 ∧ lastFrag h.exts false = false) :=
  ⟨⟨[1, 2, 3, 4, 5, 6], [7, 8, 9, 10, 11, 12],
    .v6 ⟨0, 5, 64, List.replicate 16 1, List.replicate 16 2, [.routing 0 0 [0, 0, 0, 0], .fragment 7 false]⟩,
    .udp ⟨443, 50000, 0, [0x40, 1]⟩, [0, 0]⟩, _, rfl,
   by simp [Frame.WF, Upper.WF, Udp.WF, V6.WF, Ext.WF, Upper.encode, Udp.encode, be2, be4, encChain, Ext.encode, Upper.proto],
   rfl,
   by
    intro e he
    simp only [List.mem_cons, List.mem_nil_iff, or_false] at he
    rcases he with rfl | rfl
    · exact extOk_routing _ _ _ (by simp [Ext.WF])
    · exact extOk_fragment _ _,
   by simp [encChain, Ext.proto]⟩

example : ∃ f : Frame, f.WF ∧ (∃ h, f.net = .v4 h ∧ h.options ≠ [] ∧ h.mf = true) ∧ f.trailer ≠ [] :=
  ⟨⟨[1, 2, 3, 4, 5, 6], [7, 8, 9, 10, 11, 12],
    .v4 ⟨0, 7, true, true, 64, 0, [10, 0, 0, 1], [10, 0, 0, 2], [1, 1, 1, 0]⟩,
    .tcp ⟨443, 50000, 1000, 2000, 0x18, 0, 8192, 0, 0, [1, 1, 1, 1], [0x16, 3, 3]⟩, [0, 0, 0]⟩,
   by simp [Frame.WF, Upper.WF, Tcp.WF, V4.WF, Upper.encode, Tcp.encode, Tcp.header, be2, be4], ⟨_, rfl, by simp, rfl⟩, by simp⟩

/-! ### totality and the exception kinds -/

/-- For ALL byte strings: attributes, or one of six exception classes (nothing else can leave `Ethernet(buf)`). -/
theorem dissect_total (b : Bytes) :
    (∃ d, dissect b = .ok d) ∨
    (∃ e, e ∈ [DErr.needData, .unpack, .index, .attribute, .pack, .recursion] ∧ dissect b = .error e) := by
  cases h : dissect b with
  | ok d => exact .inl ⟨d, rfl⟩
  | error e => exact .inr ⟨e, by cases e <;> simp, rfl⟩

/-- a frame shorter than an Ethernet header: `dpkt.NeedData` (the run aborts) -/
theorem short_frame_aborts (b : Bytes) (h : b.length < 14) : dissect b = .error .needData := by
  unfold dissect dissectD
  have hb : (defaultBase + 1 : Dep) = ⟨5, 5⟩ := rfl
  rw [hb, parse, show Layer.eth.cUnits = 5 from rfl, enter_ok _ 5 (by simp)]
  simp only [body, ethLayer, ethUnpack]
  rw [need_ok _ (by simp)]
  simp [h, bind, Except.bind]

instance : DecidableEq (Except DErr Dissected) := fun a b =>
  match a, b with
  | .ok x, .ok y => if h : x = y then isTrue (by rw [h]) else isFalse (fun h' => h (by cases h'; rfl))
  | .error x, .error y => if h : x = y then isTrue (by rw [h]) else isFalse (fun h' => h (by cases h'; rfl))
  | .ok _, .error _ => isFalse (fun h => by cases h)
  | .error _, .ok _ => isFalse (fun h => by cases h)

namespace Ex
/-- shortest inputs per exception class (each replayed on the real `Packet` by harness/ib_ingest.py) -/
def needData : Bytes := []
/-- 802.3 length 3, LLC `aa aa 03` with no room for the SNAP header: UnpackError('invalid LLC') -/
def unpack : Bytes := [0, 0, 0, 0, 0, 0, 0, 0, 0, 0, 0, 0, 0, 3, 0xaa, 0xaa, 3]
/-- MPLS, one label with the bottom-of-stack bit, nothing behind it: `buf[0]` → IndexError -/
def index : Bytes := [0, 0, 0, 0, 0, 0, 0, 0, 0, 0, 0, 0, 0x88, 0x47, 0, 0, 1, 0]
/-- IPv6, fragment header (offset 0) followed by an (empty) destination options header — RFC 8200 order — :
    `ext.frag_off` is read from the LAST extension header → AttributeError -/
def attributeErr : Bytes :=
  [0, 0, 0, 0, 0, 0, 0, 0, 0, 0, 0, 0, 0x86, 0xdd] ++ [0x60, 0, 0, 0, 0, 16, 44, 64] ++ List.replicate 32 0 ++
  [60, 0, 0, 0, 0, 0, 0, 1] ++ [59, 0, 1, 4, 0, 0, 0, 0]
/-- 248 Ethernet headers with EtherType 0x6558 (TEB) inside each other: RecursionError (`python -m tlexport.main`) -/
def recursion : Bytes := (List.replicate 248 ([0, 0, 0, 0, 0, 0, 0, 0, 0, 0, 0, 0, 0x65, 0x58] : Bytes)).flatten ++ List.replicate 14 0
/-- CDP TLV with length field 0 in front of 65536 bytes: `bytes(tlv)` → PackError -/
def pack : Bytes := [0, 0, 0, 0, 0, 0, 0, 0, 0, 0, 0, 0, 0x20, 0x00, 2, 180, 0, 0] ++ List.replicate 65536 0

theorem needData_aborts : dissect needData = .error .needData := by decide +kernel
theorem unpack_aborts : dissect unpack = .error .unpack := by decide +kernel
theorem index_aborts : dissect index = .error .index := by decide +kernel
theorem attribute_aborts : dissect attributeErr = .error .attribute := by decide +kernel
theorem recursion_aborts : dissect recursion = .error .recursion := by decide +kernel
theorem pack_aborts : dissect pack = .error .pack := by decide +kernel
end Ex

/-- every listed kind occurs -/
theorem kinds_inhabited :
    ∀ e ∈ [DErr.needData, .unpack, .index, .attribute, .recursion, .pack], ∃ b, dissect b = .error e := by
  intro e he
  simp only [List.mem_cons, List.mem_nil_iff, or_false] at he
  rcases he with rfl | rfl | rfl | rfl | rfl | rfl
  · exact ⟨_, Ex.needData_aborts⟩
  · exact ⟨_, Ex.unpack_aborts⟩
  · exact ⟨_, Ex.index_aborts⟩
  · exact ⟨_, Ex.attribute_aborts⟩
  · exact ⟨_, Ex.recursion_aborts⟩
  · exact ⟨_, Ex.pack_aborts⟩

/-! ### what never reaches a session -/

open TLX.MainLoop in
/-- A frame that is not TCP / UDP over IP (any EtherType, ARP, LLC, a later fragment, ICMP, damaged headers that dpkt
    swallows, …) becomes `L4.other`; the main loop ignores it: the run's state is what it was. -/
theorem non_ip_ignored {κ σ τ ο : Type} (c : Bool) (tag us : Nat) (buf : Bytes) (p : Pkt) (i : Pipeline.Info)
    (h : Ingest.framePkt c tag us buf = .ok (p, i))
    (hn : ∀ x, dissect buf = .ok (.ip x) → x.l4 = .other) :
    p.l4 = .other ∧
    ∀ (o : Opts), (classify o (.frame p) : Class κ) = .ignore .notTcpUdp ∧
      ∀ (TM : TlsMachine κ σ ο) (QM : QuicMachine κ τ ο) (st : State κ σ τ), step TM QM o st (.frame p) = st := by
  have hp : p.l4 = .other := by
    unfold Ingest.framePkt at h
    cases hd : dissect buf with
    | error e => simp [hd] at h
    | ok d =>
      cases d with
      | notIp =>
        simp only [hd] at h
        cases h; rfl
      | ip x =>
        have hx := hn x hd
        simp only [hd] at h
        cases hv : (if c then Ingest.verdict x else .ok none) with
        | error e => simp [hv] at h
        | ok v =>
          simp only [hv, hx] at h
          cases h; rfl
  refine ⟨hp, fun o => ?_⟩
  have hc : (classify o (.frame p) : Class κ) = .ignore .notTcpUdp := by simp [classify, hp]
  exact ⟨hc, fun TM QM st => by simp [step, hc]⟩

end TLX.Props.C12Dissect
