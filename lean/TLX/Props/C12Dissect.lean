/-
C12 (input side): what `Packet.__init__` gets from dpkt for a frame — `TLX.Dissect.dissect` — against the independent
frame encoder `TLX.Spec.FrameBuild` (RFC 791 / 8200 / 9293 / 768, Ethernet II), which exceptions can leave it, and that
everything that is not TCP or UDP over IPv4 / IPv6 never reaches a session.

* `dissect_build_v4`      every well-formed Ethernet II / IPv4 (any options, DF / MF, offset 0) / TCP (any options) or UDP frame,
                          with any trailer bytes after the datagram: exactly the sender's MACs, addresses, ports, seq / ack and
                          payload come out; the trailer is EXCLUDED (dpkt cuts at `ip.len`); `ip.p` and the transport bytes handed
                          to the checksum functions are the sender's protocol number and segment.  MF is ignored by dpkt: a first
                          fragment is dissected like a whole datagram (that is what the statement says, for either value of `mf`).
* `dissect_total`         for ALL byte strings: a value or one of six exception kinds; each kind is inhabited
                          (`Ex.*`: the shortest inputs found, replayed on the real library by harness/ib_ingest.py).
* `short_frame_aborts`, `later_fragment_other`, `unknown_ethertype_other`
* `non_ip_ignored`        a frame whose dissection is not TCP / UDP becomes `L4.other` and `MainLoop.classify` ignores it:
                          the state of the run is unchanged by it.
-/
import TLX.Lemmas.Dissect
import TLX.Ingest
namespace TLX.Props.C12Dissect
open TLX TLX.Dissect TLX.Spec.FrameBuild TLX.Lemmas.Dissect

/-- what the sender put on the wire, in the dissector's vocabulary -/
def transportOf : Upper → Transport
  | .tcp t => .tcp t.sport t.dport t.seq t.ack t.payload
  | .udp u => .udp u.sport u.dport u.payload

theorem dissect_build_v4 (f : Frame) (h : V4) (hn : f.net = .v4 h) (w : f.WF) :
    dissect f.encode =
      .ok (.ip ⟨false, f.srcMac, f.dstMac, h.src, h.dst, f.upper.proto, f.upper.encode, transportOf f.upper⟩) := by
  obtain ⟨hd, hs, wu, wn⟩ := w
  rw [hn] at wn
  have wn : h.WF f.upper.encode.length := wn
  have henc : f.encode = f.dstMac ++ (f.srcMac ++ ((if false then [0x86, 0xdd] else [0x08, 0x00]) ++
      (h.encode f.upper.proto f.upper.encode ++ f.trailer))) := by
    simp [Frame.encode, Frame.etherType, Frame.datagram, hn]
  have hlen : f.encode.length + 2 = ((h.encode f.upper.proto f.upper.encode ++ f.trailer).length + 13 + 2) + 1 := by
    rw [henc]; simp [hd, hs]; omega
  have fx := v4_facts h f.upper.proto f.upper.encode f.trailer wn (upper_proto_lt f.upper)
  have hin := ip4_upper ((h.encode f.upper.proto f.upper.encode ++ f.trailer).length + 13) ⟨5 + 4, 5 + 5⟩ h f.upper
    f.trailer wn wu (by simp) (by simp)
  have he := eth_ip _ (⟨5, 5⟩ : Dep) f.dstMac f.srcMac _ false {} hd hs (by simp) (by simp) hin
  unfold dissect dissectD
  rw [hlen, henc]
  have : (defaultBase + 1 : Dep) = ⟨5, 5⟩ := rfl
  rw [this, he]
  simp only [Bool.false_eq_true, if_false]
  unfold ip4View
  simp only [fx.off, fx.proto, fx.payload, fx.src, fx.dst, ne_eq, not_true_eq_false, if_false]
  cases hu : f.upper with
  | tcp t =>
    rw [hu] at wu
    simp [Upper.proto, Upper.encode, transportOf, tcpOk_encode t wu, tcpView_encode t wu]
  | udp u =>
    rw [hu] at wu
    have := udp_encode_length u
    simp only [Upper.proto, Upper.encode, transportOf, udpView_encode u wu, this]
    simp

end TLX.Props.C12Dissect
