/-
C03, prefix clause, the row "delete, cut-before (QUIC, handshake)" of `Props/ExportFaults2.lean`: QUIC losses INSIDE the
handshake, on the packet-level session model `Quic.Session` (cryptography, key derivations and the TLS handshake parser are
the parameters `Params σ`, as in `Props/C02Session.lean`).

WHAT THE CODE DOES (and the model mirrors): every key of a connection except the Initial keys is derived inside
`handle_crypto_frame` → `set_tls_decryptors`, at the moment the TLS parser reports new data — for the first time when the
CRYPTO stream completes the CLIENTHELLO, with the FIRST OFFERED suite (quic_tls_parser.py "For early data"), again at the
ServerHello / EncryptedExtensions with the selected suite. Consequences for the two losses:

  * a CRYPTO fragment of the ClientHello is missing: the parser never completes a hello, `set_tls_decryptors` is never
    called, the session holds the Initial decryptor only — `client_hello_fragment_lost_exports_nothing`: nothing raises,
    no Handshake / Early / Application decryptor ever exists, and `output_buffer` only ever receives frames of
    Initial-type packets (their CRYPTO frames; conformant Initial packets carry no STREAM frame, RFC 9000 §12.4) and
    VERSION_NEG pseudo frames: no 0-RTT / 1-RTT STREAM data is exported.
  * the datagram(s) with the ServerHello are missing: the statement "no Handshake / 1-RTT keys are ever installed" is FALSE
    for the code: they were installed at the ClientHello, for the first offered suite. When that suite is the one the
    server then selects they are the right keys, and 1-RTT packets the session is handed ARE decrypted and exported —
    kernel-checked witness `Ex.server_hello_lost_first_offered_exports` (not an error: the export is still a subsequence of
    what was sent, which is all C03's prefix clause asks of QUIC). What holds in general is
    `server_hello_lost_exports_nothing` under the named hypothesis `KeysDead`: the keys derivable without the ServerHello
    (first offered suite ≠ selected suite, or key-log lines of another suite) are not the senders', i.e. the AEAD rejects
    the capture's packets under them — then, as above, nothing raises and only Initial-type frames reach the buffer.

Both are instances of ONE invariant theorem `dead_run` (any packet list: lost, reordered, duplicated, damaged packets
included): `Dead K s` — every Handshake / Early / Application decryptor the session holds has keys outside `K` — is
preserved, and a packet only reaches `parse_frames` through the Initial decryptor.
Lifted to `handle_packet` / whole flows: `dead_flow`. NOT lifted to `QuicPipeline` (`quicFrames`): missing is the link from
the composed machine's dissector loop to `runPkts` for packets that FAIL (the capstones' `datagram_step` family is stated
for decryptable packets only) and `Adm` for `QuicPipeline.params` from the CRYPTO-stream stall facts of `Props/C02Crypto`
(`krun_partial_delivery`: a gap at offset k keeps everything behind it pending).
-/
import TLX.Props.C02Session
set_option linter.unusedSimpArgs false
set_option linter.unusedVariables false
namespace TLX.Props.C02Loss
open TLX TLX.Quic TLX.Cipher TLX.Quic.Session TLX.Lemmas.QuicSession TLX.Props.C02Session

variable {σ : Type} (P : Params σ)

-- keys the capture's packets may be protected with (the Initial keys, say)
variable (K : Bytes → Prop)
-- an invariant of the TLS parser state (e.g. "no hello complete, nothing reported")
variable (T : σ → Prop)
-- the CRYPTO inputs that occur in this capture
variable (A : CryptoIn → Prop)

/-- neither direction of the decryptor has a key in `K` -/
def DeadDec (d : Dec) : Prop := (∀ k, d.server = some k → ¬ K k.key) ∧ ¬ K d.client.key

/-- every decryptor `set_tls_decryptors` / `key_update` ever produced is dead; the parser invariant holds -/
structure Dead (s : St σ) : Prop where
  hs : ∀ d, s.decHandshake = some d → DeadDec K d
  early : ∀ d, s.decEarly = some d → DeadDec K d
  app : ∀ g, s.decApp = some g → ∀ d ∈ g, DeadDec K d
  tls : T s.tls

/-- what is assumed of one captured packet: under a key outside `K` the AEAD rejects its payload; and whatever CRYPTO
    frame it yields, if it decrypts at all, is one of the admissible parser inputs `A` -/
structure Cap (p : Pkt) : Prop where
  rej : ∀ ct, p.payload = some ct → ∀ a k n ad, ¬ K k → ∃ e, P.prims.aeadOpen a k n ad 16 ct = .error e
  adm : ∀ d pn aad pt fs l off len data, decDecrypt P d p.payload pn aad p.isServer = .ok pt →
    Frame.parseFrames pt = some fs → Frame.Parsed.crypto l off len data ∈ fs → A (cryptoIn p off len data)

/-- what is assumed of the parameters: the parser invariant is kept by admissible inputs, and the re-keying block of
    `handle_crypto_frame` keeps the session dead -/
structure Env : Prop where
  upd : ∀ t c, T t → A c → T (P.tlsUpdate t c).1
  after : ∀ s : St σ, Dead K T s → Dead K T (afterTls P s).1
  key : ∀ sel v (d : Dec), DeadDec K d → ¬ K (P.keyUpdate sel v d.serverSec d.clientSec).server.key ∧
    ¬ K (P.keyUpdate sel v d.serverSec d.clientSec).client.key

/-- `output_buffer` only grew by entries of packet type `t` -/
def Grew (t : PType) (s s' : St σ) : Prop := ∀ e ∈ s'.out, e ∈ s.out ∨ e.ptype = t

theorem Grew.refl (t : PType) (s : St σ) : Grew t s s := fun e h => Or.inl h
theorem Grew.of_eq {t : PType} {s a : St σ} (h : a.out = s.out) : Grew t s a := fun e he => Or.inl (h ▸ he)
theorem Grew.trans {t : PType} {s a b : St σ} (h1 : Grew t s a) (h2 : Grew t a b) : Grew t s b := by
  intro e he
  rcases h2 e he with h | h
  · exact h1 e h
  · exact Or.inr h

theorem Dead.of {s a : St σ} (h : Dead K T s) (h1 : a.decHandshake = s.decHandshake) (h2 : a.decEarly = s.decEarly)
    (h3 : a.decApp = s.decApp) (h4 : T a.tls) : Dead K T a :=
  ⟨h1 ▸ h.hs, h2 ▸ h.early, h3 ▸ h.app, h4⟩

theorem setTlsDecryptors_out (s : St σ) (cr cs : Bytes) : (setTlsDecryptors P s cr cs).1.out = s.out := by
  unfold setTlsDecryptors
  cases selectSuite cs with
  | none => rfl
  | some sel =>
    simp only
    cases P.devQuicKeys sel s.version cr with
    | error e => rfl
    | ok kg => exact installGroups_out _ _ _

theorem afterTls_out (s : St σ) : (afterTls P s).1.out = s.out := by
  unfold afterTls
  by_cases hn : P.tlsNewData s.tls = true
  · rw [if_pos hn]
    cases P.tlsClientRandom s.tls with
    | none => rfl
    | some cr =>
      cases P.tlsCiphersuite s.tls with
      | none => rfl
      | some cs =>
        simp only
        have := setTlsDecryptors_out P s cr cs
        cases hst : setTlsDecryptors P s cr cs with
        | mk s1 e =>
          rw [hst] at this
          cases e <;> exact this
  · rw [if_neg hn]

theorem handleCrypto_dead (henv : Env P K T A) (s : St σ) (p : Pkt) (f : Frame.Parsed) (c : CryptoIn)
    (h : Dead K T s) (hc : A c) (hp : c.ptype = p.ptype) :
    Dead K T (handleCrypto P s p f c).1 ∧ Grew p.ptype s (handleCrypto P s p f c).1 := by
  unfold handleCrypto
  have hT := henv.upd s.tls c h.tls hc
  cases hu : P.tlsUpdate s.tls c with
  | mk t e =>
    rw [hu] at hT
    have h1 : Dead K T ({ s with tls := t } : St σ) := h.of K T rfl rfl rfl hT
    cases e with
    | some e => exact ⟨h1, Grew.of_eq rfl⟩
    | none =>
      simp only
      have h2 := henv.after _ h1
      have ho := afterTls_out P ({ s with tls := t } : St σ)
      cases ha : afterTls P ({ s with tls := t } : St σ) with
      | mk s2 e2 =>
        rw [ha] at h2 ho
        simp only at h2 ho
        cases e2 with
        | some e => exact ⟨h2, Grew.of_eq ho⟩
        | none =>
          refine ⟨h2.of K T rfl rfl rfl h2.tls, ?_⟩
          intro e he
          simp only [List.mem_append, List.mem_singleton] at he
          rcases he with he | rfl
          · exact Or.inl (ho ▸ he)
          · exact Or.inr rfl

theorem handleFrames_dead (henv : Env P K T A) (p : Pkt) (fs : List Frame.Parsed) (s : St σ) (h : Dead K T s)
    (hfs : ∀ l off len data, Frame.Parsed.crypto l off len data ∈ fs → A (cryptoIn p off len data)) :
    Dead K T (handleFrames P s p fs).1 ∧ Grew p.ptype s (handleFrames P s p fs).1 := by
  induction fs generalizing s with
  | nil => exact ⟨h, Grew.refl _ _⟩
  | cons f fs ih =>
    have hf : Dead K T (handleFrame P s p f).1 ∧ Grew p.ptype s (handleFrame P s p f).1 := by
      unfold handleFrame
      split
      · rename_i l off len data
        exact handleCrypto_dead P K T A henv s p _ _ h (hfs l off len data (List.mem_cons_self ..)) rfl
      · refine ⟨h.of K T rfl rfl rfl h.tls, ?_⟩
        intro e he
        simp only [List.mem_append, List.mem_singleton] at he
        rcases he with he | rfl
        · exact Or.inl he
        · exact Or.inr rfl
      · split <;> exact ⟨h.of K T rfl rfl rfl h.tls, Grew.of_eq rfl⟩
      · exact ⟨h, Grew.refl _ _⟩
    unfold handleFrames
    cases hh : handleFrame P s p f with
    | mk s1 e =>
      rw [hh] at hf
      cases e with
      | some e => exact hf
      | none =>
        obtain ⟨i1, i2⟩ := ih s1 hf.1 (fun l off len data hm => hfs l off len data (List.mem_cons_of_mem _ hm))
        exact ⟨i1, hf.2.trans i2⟩

theorem decDecrypt_dead (p : Pkt) (hcap : Cap P K A p) (d : Dec) (hd : DeadDec K d) (pn aad pt : Bytes) :
    decDecrypt P d p.payload pn aad p.isServer ≠ .ok pt := by
  intro h
  unfold decDecrypt at h
  cases hk : (if p.isServer = true then d.server else some d.client) with
  | none => simp [hk] at h
  | some k =>
    have hkd : ¬ K k.key := by
      cases hs : p.isServer <;> simp [hs] at hk
      · rw [← hk]; exact hd.2
      · exact hd.1 k hk
    cases hpl : p.payload with
    | none => simp [hk, hpl] at h
    | some ct =>
      simp only [hk, hpl] at h
      obtain ⟨e, he⟩ := hcap.rej ct hpl d.alg k.key (nonceOf k.iv pn) aad hkd
      rw [he] at h
      simp at h

theorem extendGens_dead (henv : Env P K T A) (s : St σ) (h : Dead K T s) : Dead K T (extendGens P s).1 := by
  unfold extendGens
  cases hg : s.decApp with
  | none => exact h
  | some gens =>
    simp only
    split
    · cases hl : gens.getLast? with
      | none => exact h
      | some d =>
        simp only
        cases hs : s.suite with
        | none => exact h
        | some sel =>
          simp only
          refine ⟨h.hs, h.early, ?_, h.tls⟩
          intro g hg' x hx
          simp only [Option.some.injEq] at hg'
          subst hg'
          rcases List.mem_append.mp hx with hx | hx
          · exact h.app gens hg x hx
          · simp only [List.mem_singleton] at hx
            subst hx
            obtain ⟨k1, k2⟩ := henv.key sel s.version d (h.app gens hg d (List.mem_of_getLast? hl))
            refine ⟨fun k hk => ?_, k2⟩
            simp only [AppKeys.toDec, Option.some.injEq] at hk
            rw [← hk]; exact k1
    · exact h

theorem flipEpoch_dead (s : St σ) (ph : Option Nat) (srv : Bool) (h : Dead K T s) : Dead K T (flipEpoch s ph srv) := by
  unfold flipEpoch
  repeat' split
  all_goals first
    | exact h
    | exact h.of K T rfl rfl rfl h.tls

/-- the decryptor lookup keeps the session dead, and hands out either a dead decryptor or — for a long-header
    Initial packet — the Initial one -/
theorem selectDecryptor_dead (henv : Env P K T A) (s : St σ) (p : Pkt) (h : Dead K T s) :
    Dead K T (selectDecryptor P s p).1 ∧ (selectDecryptor P s p).1.out = s.out ∧
    ∀ d, (selectDecryptor P s p).2 = .ok (some d) → DeadDec K d ∨ p.ptype = .initial := by
  have happ : ∀ (a : St σ) (srv : Bool) (d : Dec), Dead K T a → appDecryptor a srv = .ok (some d) → DeadDec K d := by
    intro a srv d ha hd
    unfold appDecryptor at hd
    cases hg : a.decApp with
    | none => simp [hg] at hd
    | some g =>
      simp only [hg] at hd
      cases hi : g[if srv = true then a.epochServer else a.epochClient]? with
      | none => simp [hi] at hd
      | some x =>
        simp only [hi, Except.ok.injEq, Option.some.injEq] at hd
        subst hd
        exact ha.app g hg x (List.mem_of_getElem? hi)
  unfold selectDecryptor
  cases hh : p.htype with
  | short =>
    simp only
    split
    · have hc : Dead K T (checkKeyEpoch P s p.keyPhase p.isServer).1 :=
        extendGens_dead P K T A henv _ (flipEpoch_dead K T s _ _ h)
      have ho : (checkKeyEpoch P s p.keyPhase p.isServer).1.out = s.out := by
        obtain ⟨_, _, _, _, _, heq⟩ := checkKeyEpoch_frame P s p.keyPhase p.isServer
        rw [heq]
      cases hk : checkKeyEpoch P s p.keyPhase p.isServer with
      | mk s1 e =>
        rw [hk] at hc ho
        cases e with
        | some e => exact ⟨hc, ho, fun d hd => by simp at hd⟩
        | none => exact ⟨hc, ho, fun d hd => Or.inl (happ s1 _ d hc hd)⟩
    · exact ⟨h, rfl, fun d hd => Or.inl (happ s _ d h hd)⟩
  | long =>
    refine ⟨h, rfl, fun d hd => ?_⟩
    simp only at hd
    unfold longDecryptor at hd
    cases ht : p.ptype <;> simp only [ht] at hd
    · exact Or.inr rfl
    · cases he : s.decEarly <;> simp [he] at hd
      subst hd; exact Or.inl (h.early _ he)
    · simp at hd
    · cases he : s.decHandshake <;> simp [he] at hd
      subst hd; exact Or.inl (h.hs _ he)
    · simp at hd
    · simp at hd

theorem setLargestPn_dead (s : St σ) (p : Pkt) (pn : Bytes) (h : Dead K T s) :
    Dead K T (setLargestPn s p pn) ∧ (setLargestPn s p pn).out = s.out := by
  obtain ⟨_, _, heq⟩ := setLargestPn_frame s p pn
  rw [heq]
  exact ⟨h.of K T rfl rfl rfl h.tls, rfl⟩

theorem decryptPacket_dead (henv : Env P K T A) (s : St σ) (p : Pkt) (hcap : Cap P K A p) (h : Dead K T s) :
    Dead K T (decryptPacket P s p).1 ∧
    (Grew .initial s (decryptPacket P s p).1 ∧ (p.ptype ≠ .initial → (decryptPacket P s p).1.out = s.out)) := by
  obtain ⟨h1, h2, h3⟩ := selectDecryptor_dead P K T A henv s p h
  unfold decryptPacket
  cases hs : selectDecryptor P s p with
  | mk s1 r =>
    rw [hs] at h1 h2 h3
    simp only at h1 h2 h3
    cases r with
    | error e => exact ⟨h1, Grew.of_eq h2, fun _ => h2⟩
    | ok d? =>
      simp only
      by_cases hpa : PassesAead P s1 p d?
      · obtain ⟨pn, aad, d, pt, hg, ha, rfl, hd⟩ := hpa
        rcases h3 d rfl with hdead | hini
        · exact absurd hd (decDecrypt_dead P K A p hcap d hdead pn aad pt)
        · unfold decryptRest
          simp only [hg, ha, hd]
          obtain ⟨q1, q2⟩ := setLargestPn_dead K T s1 p pn h1
          cases hf : Frame.parseFrames pt with
          | none => exact ⟨q1, Grew.of_eq (q2.trans h2), fun hn => absurd hini hn⟩
          | some fs =>
            simp only
            obtain ⟨r1, r2⟩ := handleFrames_dead P K T A henv p fs _ q1
              (fun l off len data hm => hcap.adm d pn aad pt fs l off len data hd hf hm)
            rw [hini] at r2
            refine ⟨r1, ?_, fun hn => absurd hini hn⟩
            exact (Grew.of_eq (t := .initial) (q2.trans h2)).trans r2
      · obtain ⟨e, he⟩ := decryptRest_failed P s1 p d? hpa
        rw [he]
        exact ⟨h1, Grew.of_eq h2, fun _ => h2⟩

/-- `output_buffer` only grew by entries of Initial-type packets and VERSION_NEG pseudo frames -/
def GrewInit (s s' : St σ) : Prop := ∀ e ∈ s'.out, e ∈ s.out ∨ e.ptype = .initial ∨ e.ptype = .versionNeg

theorem GrewInit.refl (s : St σ) : GrewInit s s := fun e h => Or.inl h
theorem GrewInit.trans {s a b : St σ} (h1 : GrewInit s a) (h2 : GrewInit a b) : GrewInit s b := by
  intro e he
  rcases h2 e he with h | h
  · exact h1 e h
  · exact Or.inr h

theorem stepPkt_dead (henv : Env P K T A) (hinit : T P.tlsInit) (s : St σ) (p : Pkt) (hcap : Cap P K A p)
    (h : Dead K T s) : Dead K T (stepPkt P s p).st ∧ GrewInit s (stepPkt P s p).st := by
  have hafter : ∀ (a : St σ) (c : Option PyErr), Dead K T a → GrewInit s a →
      Dead K T (afterDecrypt P a c p).st ∧ GrewInit s (afterDecrypt P a c p).st := by
    intro a c ha hg
    unfold afterDecrypt
    repeat' split
    all_goals first
      | exact ⟨ha, hg⟩
      | (refine ⟨ha.of K T rfl rfl rfl ha.tls, ?_⟩
         intro e he
         simp only [List.mem_append, List.mem_singleton] at he
         rcases he with he | rfl
         · exact hg e he
         · rename_i hv _; exact Or.inr (Or.inr hv))
      | exact ⟨⟨fun d hd => by simp [retryReset] at hd, fun d hd => by simp [retryReset] at hd,
          fun g hg' => by simp [retryReset] at hg', hinit⟩, hg⟩
      | (unfold learnCids; split <;> exact ⟨ha.of K T rfl rfl rfl ha.tls, hg⟩)
  unfold stepPkt
  split
  · obtain ⟨d1, d2, _⟩ := decryptPacket_dead P K T A henv s p hcap h
    exact hafter _ _ d1 (fun e he => (d2 e he).imp id Or.inl)
  · exact hafter s none h (GrewInit.refl s)

/-- **The invariant theorem.** Any packet list — packets lost, reordered, duplicated, damaged — each satisfying `Cap`: the
    session stays dead (no Handshake / Early / Application decryptor with a key in `K`, parser invariant `T`), and
    `output_buffer` only grows by frames of Initial-type packets and VERSION_NEG pseudo frames; with `Pkt.classOk`
    (`C02Session.session_total`) nothing raises. -/
theorem dead_run (henv : Env P K T A) (hinit : T P.tlsInit) (pkts : List Pkt) (s : St σ)
    (hcap : ∀ p ∈ pkts, Cap P K A p) (h : Dead K T s) :
    Dead K T (runPkts P s pkts) ∧ GrewInit s (runPkts P s pkts) := by
  induction pkts generalizing s with
  | nil => exact ⟨h, GrewInit.refl s⟩
  | cons p ps ih =>
    obtain ⟨a, b⟩ := stepPkt_dead P K T A henv hinit s p (hcap p (List.mem_cons_self ..)) h
    unfold runPkts
    split
    · exact ⟨a, b⟩
    · obtain ⟨c, d⟩ := ih _ (fun q hq => hcap q (List.mem_cons_of_mem _ hq)) a
      exact ⟨c, b.trans d⟩

/-- … for whole flows through `handle_packet` (any direction the datagram's packets are attributed to) -/
theorem dead_flow (henv : Env P K T A) (hinit : T P.tlsInit) (ds : List Dgram) (s : St σ)
    (hcap : ∀ d ∈ ds, ∀ p ∈ d.pkts, ∀ b, Cap P K A { p with isServer := b }) (hok : ∀ d ∈ ds, ∀ p ∈ d.pkts, Pkt.classOk p)
    (h : Dead K T s) :
    (run P s ds).2 = none ∧ Dead K T (run P s ds).1 ∧ GrewInit s (run P s ds).1 := by
  refine ⟨session_total_run P s ds hok, ?_⟩
  induction ds generalizing s with
  | nil => exact ⟨h, GrewInit.refl s⟩
  | cons d ds ih =>
    have hpre : Dead K T (handlePacketPre P s d.dcid d.version) ∧ (handlePacketPre P s d.dcid d.version).out = s.out := by
      unfold handlePacketPre setInitialDecryptor latchVersion
      repeat' split
      all_goals exact ⟨h.of K T rfl rfl rfl h.tls, rfl⟩
    have h1 : Dead K T (handlePacket P s d).1 ∧ GrewInit s (handlePacket P s d).1 := by
      unfold handlePacket
      rw [handleQuicPackets_st]
      obtain ⟨a, b⟩ := dead_run P K T A henv hinit
        (d.pkts.map fun p => { p with isServer := packetIsServer (handlePacketPre P s d.dcid d.version) d.fromClientAddr d.dcid })
        (handlePacketPre P s d.dcid d.version)
        (by
          intro q hq
          obtain ⟨p, hp, rfl⟩ := List.mem_map.mp hq
          exact hcap d (List.mem_cons_self ..) p hp _)
        hpre.1
      exact ⟨a, fun e he => (b e he).imp (fun x => hpre.2 ▸ x) id⟩
    unfold run
    cases hh : handlePacket P s d with
    | mk s1 r =>
      rw [hh] at h1
      obtain ⟨cs, esc⟩ := r
      cases esc with
      | some e => exact h1
      | none =>
        obtain ⟨c, dd⟩ := ih s1 (fun d' hd' => hcap d' (List.mem_cons_of_mem _ hd'))
          (fun d' hd' => hok d' (List.mem_cons_of_mem _ hd')) h1.1
        exact ⟨c, h1.2.trans dd⟩

/-! ### the two losses -/

/-- no Handshake / Early decryptor, no application generation -/
def Keyless (s : St σ) : Prop := s.decHandshake = none ∧ s.decEarly = none ∧ ∀ g, s.decApp = some g → g = []

theorem keyless_iff_dead (s : St σ) (h : Dead (fun _ => True) T s) : Keyless s := by
  refine ⟨?_, ?_, fun g hg => ?_⟩
  · cases hd : s.decHandshake with
    | none => rfl
    | some d => exact absurd trivial (h.hs d hd).2
  · cases hd : s.decEarly with
    | none => rfl
    | some d => exact absurd trivial (h.early d hd).2
  · cases g with
    | nil => rfl
    | cons d r => exact absurd trivial (h.app _ hg d (List.mem_cons_self ..)).2

/-- **A CRYPTO fragment of the ClientHello is missing from the capture.** `T`: what is then true of the TLS parser for
    good — no hello complete, nothing reported (`quiet`); `A`: the CRYPTO inputs the capture can still yield (everything
    but the missing fragment), which keep it that way (`upd`; for `QuicTlsSession`: a gap at offset k keeps everything
    behind it pending, `Props/C02Crypto`). Then for every datagram sequence of such packets, from a keyless session: nothing
    raises, `set_tls_decryptors` is never reached — the session stays keyless, every Handshake, 0-RTT and 1-RTT packet is
    dropped — and `output_buffer` receives frames of Initial-type packets (and VERSION_NEG pseudo frames) only: no 0-RTT /
    1-RTT STREAM data is exported. -/
theorem client_hello_fragment_lost_exports_nothing
    (upd : ∀ t c, T t → A c → T (P.tlsUpdate t c).1) (quiet : ∀ t, T t → P.tlsNewData t = false) (hinit : T P.tlsInit)
    (ds : List Dgram) (s : St σ) (hs : Keyless s) (hT : T s.tls)
    (hadm : ∀ d ∈ ds, ∀ p ∈ d.pkts, ∀ b, ∀ dc pn aad pt fs l off len data,
      decDecrypt P dc ({ p with isServer := b } : Pkt).payload pn aad b = .ok pt → Frame.parseFrames pt = some fs →
      Frame.Parsed.crypto l off len data ∈ fs → A (cryptoIn { p with isServer := b } off len data))
    (hok : ∀ d ∈ ds, ∀ p ∈ d.pkts, Pkt.classOk p) :
    (run P s ds).2 = none ∧ Keyless (run P s ds).1 ∧ GrewInit s (run P s ds).1 := by
  have henv : Env P (fun _ => True) T A := by
    refine ⟨upd, fun a ha => ?_, fun _ _ d hd => absurd trivial hd.2⟩
    have : afterTls P a = (a, none) := by unfold afterTls; rw [quiet _ ha.tls]; simp
    rw [this]; exact ha
  have h0 : Dead (fun _ => True) T s := by
    obtain ⟨a, b, c⟩ := hs
    refine ⟨fun d hd => ?_, fun d hd => ?_, fun g hg x hx => ?_, hT⟩
    · rw [a] at hd; cases hd
    · rw [b] at hd; cases hd
    · rw [c g hg] at hx; cases hx
  obtain ⟨r1, r2, r3⟩ := dead_flow P (fun _ => True) T A henv hinit ds s
    (fun d hd p hp b => ⟨fun _ _ _ _ _ _ hk => absurd trivial hk, hadm d hd p hp b⟩) hok h0
  exact ⟨r1, keyless_iff_dead T _ r2, r3⟩

/-- the keys derivable without the ServerHello are not in `K`: whatever `dev_quic_keys` returns (for the FIRST OFFERED
    suite, at the ClientHello) and whatever `key_update` makes of dead secrets -/
structure KeysDead : Prop where
  groups : ∀ sel v cr kg, P.devQuicKeys sel v cr = .ok kg →
    (∀ a b, kg.hs = some (a, b) → ¬ K a.key ∧ ¬ K b.key) ∧
    (∀ ak, kg.app = some ak → ¬ K ak.server.key ∧ ¬ K ak.client.key) ∧ (∀ ek, kg.early = some ek → ¬ K ek.key)
  update : ∀ sel v a b, ¬ K (P.keyUpdate sel v a b).server.key ∧ ¬ K (P.keyUpdate sel v a b).client.key

theorem installGroups_dead (s : St σ) (sel : SuiteSel) (kg : KeyGroups) (h : Dead K (fun _ => True) s)
    (g1 : ∀ a b, kg.hs = some (a, b) → ¬ K a.key ∧ ¬ K b.key)
    (g2 : ∀ ak, kg.app = some ak → ¬ K ak.server.key ∧ ¬ K ak.client.key) (g3 : ∀ ek, kg.early = some ek → ¬ K ek.key) :
    Dead K (fun _ => True) (installGroups s sel kg) := by
  unfold installGroups
  cases hh : kg.hs with
  | none => exact h.of K _ rfl rfl rfl trivial
  | some hk =>
    obtain ⟨a, b⟩ := hk
    have dh : DeadDec K ({ alg := sel.alg, server := some a, client := b } : Dec) :=
      ⟨fun k hk => by simp only [Option.some.injEq] at hk; rw [← hk]; exact (g1 a b hh).1, (g1 a b hh).2⟩
    cases ha : kg.app with
    | none => exact ⟨fun d hd => by simp only [Option.some.injEq] at hd; rw [← hd]; exact dh, h.early, h.app, trivial⟩
    | some ak =>
      have da : ∀ g, some [ak.toDec sel.alg] = some g → ∀ x ∈ g, DeadDec K x := by
        intro g hg x hx
        simp only [Option.some.injEq] at hg
        subst hg
        simp only [List.mem_singleton] at hx
        subst hx
        exact ⟨fun k hk => by simp only [AppKeys.toDec, Option.some.injEq] at hk; rw [← hk]; exact (g2 ak ha).1, (g2 ak ha).2⟩
      cases he : kg.early with
      | none => exact ⟨fun d hd => by simp only [Option.some.injEq] at hd; rw [← hd]; exact dh, h.early, da, trivial⟩
      | some ek =>
        exact ⟨fun d hd => by simp only [Option.some.injEq] at hd; rw [← hd]; exact dh,
          fun d hd => by
            simp only [Option.some.injEq] at hd; rw [← hd]
            exact ⟨fun k hk => by simp at hk, g3 ek he⟩, da, trivial⟩

/-- **The datagram(s) carrying the ServerHello are missing from the capture** — partial: under `KeysDead`. The session
    DOES hold Handshake / Early / Application decryptors from the ClientHello on (first offered suite); the extra
    hypothesis says these keys are outside `K`, the keys under which the AEAD accepts the capture's packets (`rej`): the
    first offered suite is not the selected one, or the key log has no lines for this client random. Then for every
    datagram sequence: nothing raises, every decryptor but the Initial one stays dead, every Handshake / 0-RTT / 1-RTT
    packet is rejected, and `output_buffer` receives frames of Initial-type packets (and VERSION_NEG pseudo frames) only.
    Without `KeysDead` the statement is false: `Ex.server_hello_lost_first_offered_exports`. -/
theorem server_hello_lost_exports_nothing (hk : KeysDead P K)
    (ds : List Dgram) (s : St σ) (h0 : Dead K (fun _ => True) s)
    (rej : ∀ d ∈ ds, ∀ p ∈ d.pkts, ∀ ct, p.payload = some ct → ∀ a k n ad, ¬ K k →
      ∃ e, P.prims.aeadOpen a k n ad 16 ct = .error e)
    (hok : ∀ d ∈ ds, ∀ p ∈ d.pkts, Pkt.classOk p) :
    (run P s ds).2 = none ∧ Dead K (fun _ => True) (run P s ds).1 ∧ GrewInit s (run P s ds).1 := by
  have henv : Env P K (fun _ => True) (fun _ => True) := by
    refine ⟨fun _ _ _ _ => trivial, fun a ha => ?_, fun sel v d _ => hk.update sel v _ _⟩
    unfold afterTls
    by_cases hn : P.tlsNewData a.tls = true
    · rw [if_pos hn]
      cases P.tlsClientRandom a.tls with
      | none => exact ha.of K _ rfl rfl rfl trivial
      | some cr =>
        cases P.tlsCiphersuite a.tls with
        | none => exact ha.of K _ rfl rfl rfl trivial
        | some cs =>
          simp only
          have hset : Dead K (fun _ => True) (setTlsDecryptors P a cr cs).1 := by
            unfold setTlsDecryptors
            cases selectSuite cs with
            | none => exact ha.of K _ rfl rfl rfl trivial
            | some sel =>
              simp only
              cases hd : P.devQuicKeys sel a.version cr with
              | error e => exact ha.of K _ rfl rfl rfl trivial
              | ok kg =>
                obtain ⟨g1, g2, g3⟩ := hk.groups sel a.version cr kg hd
                exact installGroups_dead K _ sel kg (ha.of K _ rfl rfl rfl trivial) g1 g2 g3
          cases hst : setTlsDecryptors P a cr cs with
          | mk s1 e =>
            rw [hst] at hset
            cases e with
            | some e => exact hset
            | none => exact hset.of K _ rfl rfl rfl trivial
    · rw [if_neg hn]; exact ha
  exact dead_flow P K (fun _ => True) (fun _ => True) henv trivial ds s
    (fun d hd p hp b => ⟨fun ct hct => rej d hd p hp ct hct, fun _ _ _ _ _ _ _ _ _ _ _ _ => trivial⟩) hok h0

/-! ### concrete instances (toy AEAD and derivations of `C02Session.Ex`, kernel-evaluated) -/
namespace Ex
open TLX.Props.C02Session.Ex TLX.Quic.SessionToy TLX.Spec.QuicSender TLX.Spec.QuicFrames

def iniKeyC : DirKeys := ⟨toyBytes 13 [[1], [0xd0, 0xd1]] 16, toyBytes 14 [[1], [0xd0, 0xd1]] 12⟩

/-- a client Initial packet (DCID d0d1) carrying the CRYPTO data `data` at offset `off` -/
def clientInitial (off : Nat) (data : Bytes) : Pkt :=
  emit Toy.laws.aeadSeal .aesgcm iniKeyC
    { level := .initial, srv := false, ts := 1, pn := 0, pnLen := 1, dcid := [0xd0, 0xd1], scid := [0xc1],
      frames := [.crypto ⟨off, w1⟩ w1 data, .padding 5] }

/-- a conformant server 1-RTT packet (generation 0, STREAM data `hi`), and a client one -/
def serverShort : Pkt :=
  emit1 params Toy.laws sel .v1 k0
    { level := .oneRtt, srv := true, ts := 30, pn := 0, pnLen := 1, frames := frames1, dcid := [], gen := 0 }
def clientShort : Pkt :=
  emit1 params Toy.laws sel .v1 k0
    { level := .oneRtt, srv := false, ts := 31, pn := 0, pnLen := 1, frames := frames1, dcid := [0x51], gen := 0 }

/-- the whole ClientHello of the toy parser is `01 13 01 07`; here the capture only has its tail (offset 1): the first
    fragment is lost. Then a server and a client 1-RTT packet, correctly protected. -/
def lostFragment : List Dgram :=
  [⟨true, [0xd0, 0xd1], .v1, [clientInitial 1 [0x13, 1, 7]]⟩, ⟨false, [], .v1, [serverShort]⟩, ⟨true, [0x51], .v1, [clientShort]⟩]

set_option maxRecDepth 100000 in
/-- ClientHello fragment lost: nothing raises, no key is ever installed, both 1-RTT packets are dropped; the buffer
    holds the one CRYPTO frame of the Initial packet, no STREAM data. -/
theorem client_hello_fragment_lost :
    (run params (St.init params) lostFragment).2 = none ∧
    (run params (St.init params) lostFragment).1.decApp = none ∧
    (run params (St.init params) lostFragment).1.decHandshake = none ∧
    (run params (St.init params) lostFragment).1.out.map (·.ptype) = [.initial] := by
  decide +kernel

/-- the ClientHello is complete, the ServerHello (and everything else of the server's first flight) is lost -/
def lostServerHello : List Dgram :=
  [⟨true, [0xd0, 0xd1], .v1, [clientInitial 0 [1, 0x13, 1, 7]]⟩, ⟨false, [], .v1, [serverShort]⟩]

set_option maxRecDepth 100000 in
/-- **Why `server_hello_lost_exports_nothing` needs `KeysDead`.** ServerHello lost, but the keys were derived at the
    ClientHello — for the first offered suite, which here is the suite in use: the Application decryptor exists, and the
    server's 1-RTT packet IS decrypted and exported (its STREAM frame follows the ClientHello's CRYPTO frame in the buffer). -/
theorem server_hello_lost_first_offered_exports :
    (run params (St.init params) lostServerHello).2 = none ∧
    ((run params (St.init params) lostServerHello).1.decApp.map List.length) = some 1 ∧
    (run params (St.init params) lostServerHello).1.out.map (·.ptype) = [.initial, .rtt1] := by
  decide +kernel

/-- the parser hypotheses of `client_hello_fragment_lost_exports_nothing` hold for the toy parser with
    `T` = "nothing reported" and `A` = "CRYPTO data that does not begin a ClientHello" -/
theorem fragment_hyps :
    (∀ (t : Bool) (c : CryptoIn), t = false → c.data.head? ≠ some 1 → (C02Session.Ex.params.tlsUpdate t c).1 = false) ∧
    (∀ t : Bool, t = false → C02Session.Ex.params.tlsNewData t = false) ∧ C02Session.Ex.params.tlsInit = false := by
  refine ⟨fun t c ht hc => ?_, fun t ht => ht, rfl⟩
  subst ht
  simp only [C02Session.Ex.params]
  split
  · rfl
  · cases hd : c.data with
    | nil => rfl
    | cons x r =>
      simp only [hd, List.head?_cons, ne_eq, Option.some.injEq] at hc
      split
      · rename_i heq; simp only [List.cons.injEq] at heq; exact absurd heq.1 hc
      · rfl

end Ex

end TLX.Props.C02Loss
