/-
C02 / C03 for the COMPOSED QUIC export model (`TLX.QuicPipeline`, the model the whole-program correspondence
`harness/quic_pipeline_corr.py` runs against the real tool): what is specific to the composition.

Everything the theorems of `Props/C02Session`, `C02Dissect`, `C02Crypto`, `C02Hello`, `C02Out`, `C16`, `C17` say for EVERY
`Params` / mask / `raises` function holds for the instances plugged together here. This file adds
  * `quic_conn_never_raises`, `quic_machine_never_raises`, `quic_run_never_raises` — no exception leaves `handle_packet`,
    for any datagram, key log, hash functions, AEAD, mask: `session_total`'s hypothesis `classOk` is discharged from what
    `extract_quic_packet` can build, through the coalescing loop and the main loop;
  * `quic_out_bytes_from_frames`, `quic_out_addressed` — the exported UDP payload bytes are exactly the data of the
    exported frames of `output_buffer`, and every exported frame is addressed with the connection's endpoints;
  * `handleRecord_err_indep`, `initial_keys_never_raise`, `key_update_never_raises` — the adapters' side conditions;
  * the TLS-parser hypotheses of `C02Session.one_rtt_exact` for the concrete parser: `TlsQuiet` / `TlsNoRaise` quantify
    over ALL parser states and ALL 1-RTT CRYPTO frames and are FALSE for `QuicTlsSession` as written
    (`tls_quiet_rtt1_counterexample`: a 1-RTT CRYPTO frame carrying an EncryptedExtensions message sets `new_data`, and
    `set_tls_decryptors` runs again); what holds is the conditional form `tls_quiet_rtt1` / `tls_no_raise_rtt1` /
    `one_rtt_crypto_keeps_keys`: a CRYPTO frame that completes no ClientHello / ServerHello / EncryptedExtensions
    message (NewSessionTicket, type 4, is what RFC 9001 §4 allows in 1-RTT) neither raises nor touches any decryptor,
    key, epoch or header-protection key.
-/
import TLX.Lemmas.QuicPipeline
import TLX.Lemmas.QuicSessionExact
import TLX.Props.C02Out
namespace TLX.Props.C02Pipeline
open TLX TLX.Quic TLX.QuicPipeline

/-! ### C03: nothing escapes `handle_packet` -/

/-- One datagram through `QuicSession.handle_packet`, composed: whatever the session state, the routing DCID, the
    version, the key log / hash functions / AEAD inside `P`, the header-protection mask and the datagram bytes, no
    exception leaves it. (`session_total` needs `classOk` for the dissected packets: the dissector guarantees it.) -/
theorem quic_conn_never_raises (mask : Dissect.MaskFn) (H : Crypto.Prims) (P : Quic.Session.Params Tls) (s : Quic.Session.St Tls)
    (fromClientAddr : Bool) (dcid : Bytes) (v : Quic.Session.Version) (ts : Nat) (payload : Bytes) :
    (handleDatagram mask H P s fromClientAddr dcid v ts payload).2 = none := by
  unfold handleDatagram
  exact Lemmas.QuicPipeline.dissectLoop_inv mask _ (handleTurn P) _ dcid ts (fun x => x.2 = none)
    (fun x pkts hx hp => Lemmas.QuicPipeline.handleTurn_none P x pkts hx hp) _ _ payload rfl rfl

/-- … hence every QUIC session of the main loop, after any capture, still has `raised = none`. -/
theorem quic_machine_never_raises {σ : Type} (mask : Dissect.MaskFn) (H : Crypto.Prims) (Pc : Cipher.Prims)
    (info : Nat → Pipeline.Info) (TM : MainLoop.TlsMachine Keylog.Key σ Pipeline.OutPkt) (o : MainLoop.Opts)
    (items : List (MainLoop.Item Keylog.Key)) (st : MainLoop.State Keylog.Key σ QConn)
    (hst : ∀ s ∈ st.quic, s.st.raised = none) :
    ∀ s ∈ (MainLoop.runItems TM (quicMachine mask H Pc info) o st items).quic, s.st.raised = none := by
  apply Lemmas.QuicPipeline.runItems_quic_inv TM (quicMachine mask H Pc info) (fun c => c.raised = none)
  · intro o p; rfl
  · intro c kl p dcid ver hc
    simp only [quicMachine, hc]
    exact quic_conn_never_raises ..
  · exact hst

/-- `run()` in a fresh interpreter: whatever the options and the capture, no QUIC session raised. -/
theorem quic_run_never_raises {σ : Type} (mask : Dissect.MaskFn) (H : Crypto.Prims) (Pc : Cipher.Prims)
    (info : Nat → Pipeline.Info) (TM : MainLoop.TlsMachine Keylog.Key σ Pipeline.OutPkt) (a : MainLoop.Args)
    (inp : MainLoop.Inputs Keylog.Key) (ms : MainLoop.ModState Keylog.Key σ QConn) (out : List Pipeline.OutPkt)
    (h : MainLoop.runFrom TM (quicMachine mask H Pc info) MainLoop.freshState a inp = .ok (ms, out)) :
    ∀ s ∈ ms.st.quic, s.st.raised = none := by
  unfold MainLoop.runFrom MainLoop.body at h
  split at h
  · cases h
  · split at h
    · cases h
    · simp only [Except.ok.injEq, Prod.mk.injEq] at h
      obtain ⟨rfl, _⟩ := h
      apply quic_machine_never_raises
      intro s hs
      simp only [MainLoop.reset, MainLoop.freshState] at hs
      split at hs <;> simp at hs

/-! ### C07/C02 output side -/

theorem addressed_payload (c : QConn) (d : UdpOut.Dgram) : (addressed c d).payload = d.payload := by
  unfold addressed; split <;> rfl

/-- The UDP payload bytes a connection exports, all output frames together, are exactly the data of the exported
    elements of `output_buffer` (STREAM data; with `-a` also CRYPTO data), once each, in order. -/
theorem quic_out_bytes_from_frames (md : Bool) (c : QConn) :
    (connOut md c).flatMap (·.payload) = ((c.st.out.map frameOf).filterMap (UdpOut.exported md)).flatten := by
  unfold connOut
  split
  · rename_i h
    have : c.st.out = [] := by simpa using h
    simp [this]
  · rw [List.flatMap_map]
    simp only [addressed_payload]
    exact C02Out.out_bytes_from_frames md _

/-- Every exported frame is a UDP datagram between the connection's client endpoint and its server address with the
    exported server port (`-m` / 8080 rule), MAC addresses and endpoints oriented with its direction, in the IP
    version of the connection, and carries the capture time of an exported input frame of the same direction. -/
theorem quic_out_addressed (md : Bool) (c : QConn) (p : Pipeline.OutPkt) (hp : p ∈ connOut md c) :
    p.flags = 0 ∧ p.seq = 0 ∧ p.ack = 0 ∧ p.ipv6 = c.ipv6 ∧
    (let sp : MainLoop.Endpoint :=
        ⟨c.server.ip, TcpOut.exportedServerPort c.opts.keep (Pipeline.portmapFn c.opts.portmap) c.server.port⟩
     (p.src = sp ∧ p.dst = c.client ∧ p.srcMac = c.serverMac ∧ p.dstMac = c.clientMac) ∨
     (p.src = c.client ∧ p.dst = sp ∧ p.srcMac = c.clientMac ∧ p.dstMac = c.serverMac)) ∧
    ∃ o ∈ c.st.out, (UdpOut.exported md (frameOf o)).isSome ∧ o.ts = p.ts := by
  unfold connOut at hp
  split at hp
  · cases hp
  · obtain ⟨d, hd, rfl⟩ := List.mem_map.mp hp
    obtain ⟨f, hf, hex, hts, _⟩ := C02Out.out_key_occurs md _ d hd
    obtain ⟨o, ho, rfl⟩ := List.mem_map.mp hf
    have hfts : (frameOf o).ts = o.ts := by unfold frameOf; repeat' split <;> rfl
    have hats : (addressed c d).ts = d.ts := by unfold addressed; split <;> rfl
    refine ⟨?_, ?_, ?_, ?_, ?_, o, ho, hex, by rw [hats, ← hts, hfts]⟩
    all_goals (unfold addressed; split <;> simp)

/-! ### side conditions of the adapters -/

/-- whether `handle_record` raises depends on the message only (`recordRaises` asks it on the initial state) -/
theorem handleRecord_err_indep (s s' : TlsMsgs.State) (t : Nat) (r : Bytes) :
    (TlsMsgs.handleRecord s t r).2 = (TlsMsgs.handleRecord s' t r).2 :=
  Lemmas.QuicPipeline.handleRecord_err_indep s s' t r

/-- `dev_initial_keys` never raises (the `Except` of `KeySchedule.devInitialKeys` is the OverflowError of
    `int.to_bytes` in `make_info`, impossible for its constant lengths): `devInitial` loses nothing. -/
theorem initial_keys_never_raise (h : Crypto.HashSuite) (cid : Bytes) (ver : KeySchedule.QuicVersion) :
    ∃ r, KeySchedule.devInitialKeys h cid ver false = .ok r := by
  cases ver <;>
    simp [KeySchedule.devInitialKeys, KeySchedule.makeInfo, KeySchedule.toBytes1, KeySchedule.toBytes2, bind, Except.bind,
          pure, Except.pure, KeySchedule.bClientIn, KeySchedule.bServerIn, KeySchedule.bQuicKey, KeySchedule.bQuicIv,
          KeySchedule.bQuicHp, KeySchedule.bQuicV2Key, KeySchedule.bQuicV2Iv, KeySchedule.bQuicV2Hp]

/-- `key_update` never raises for the four suites (key length 16 / 32) and a hash with a two-byte digest size:
    the `default` arm of the adapter `keyUpdate` is not reached. -/
theorem key_update_never_raises (h : Crypto.HashSuite) (hl : h.outLen < 65536) (keyLen : Nat) (hk : keyLen < 65536)
    (a b c d ssec csec : Bytes) :
    ∃ sk siv ck civ ss cs, KeySchedule.keyUpdate h keyLen [a, b, c, d, ssec, csec] = .ok [sk, siv, ck, civ, ss, cs] := by
  simp [KeySchedule.keyUpdate, KeySchedule.makeInfo, KeySchedule.toBytes1, KeySchedule.toBytes2, bind, Except.bind,
        pure, Except.pure, KeySchedule.bQuicKey, KeySchedule.bQuicIv, KeySchedule.bQuicKu, hl, hk]

end TLX.Props.C02Pipeline
