/-
C02 / C03 for the COMPOSED QUIC export model (`TLX.QuicPipeline`, the model the whole-program correspondence
`harness/quic_pipeline_corr.py` runs against the real tool): what is specific to the composition.

Everything the theorems of `Props/C02Session`, `C02Dissect`, `C02Crypto`, `C02Hello`, `C02Out`, `C16`, `C17` say for EVERY
`Params` / mask / `raises` function holds for the instances plugged together here. This file adds
  * `quic_conn_never_raises`, `quic_machine_never_raises`, `quic_run_never_raises` — no exception leaves `handle_packet`,
    for any datagram, key log, hash functions, AEAD, mask: `session_total`'s hypothesis `classOk` is discharged from what
    `extract_quic_packet` can build, through the coalescing loop and the main loop;
  * `quic_out_bytes_from_frames`, `quic_out_addressed` — the exported UDP payload bytes are exactly the data of the
    exported frames of `output_buffer`, and every exported frame is addressed with the connection's endpoints;
  * `handleRecord_err_indep`, `initial_keys_never_raise`, `key_update_never_raises` — the adapters' side conditions;
  * the TLS-parser hypotheses of `C02Session.one_rtt_exact` for the concrete parser: `TlsQuiet` / `TlsNoRaise` quantify
    over ALL parser states and ALL 1-RTT CRYPTO frames and are FALSE for `QuicTlsSession` as written
    (`tls_quiet_rtt1_counterexample`: a 1-RTT CRYPTO frame carrying an EncryptedExtensions message sets `new_data`, and
    `set_tls_decryptors` runs again); what holds is the conditional form `tls_quiet_rtt1` / `tls_no_raise_rtt1` /
    `one_rtt_crypto_keeps_keys`: a CRYPTO frame that completes no ClientHello / ServerHello / EncryptedExtensions
    message (NewSessionTicket, type 4, is what RFC 9001 §4 allows in 1-RTT) neither raises nor touches any decryptor,
    key, epoch or header-protection key.
-/
import TLX.Lemmas.QuicPipeline
import TLX.Lemmas.QuicSessionExact
import TLX.Lemmas.CryptoStream
import TLX.Props.C02Out
namespace TLX.Props.C02Pipeline
open TLX TLX.Quic TLX.QuicPipeline

/-! ### C03: nothing escapes `handle_packet` -/

/-- One datagram through `QuicSession.handle_packet`, composed: whatever the session state, the routing DCID, the
    version, the key log / hash functions / AEAD inside `P`, the header-protection mask and the datagram bytes, no
    exception leaves it. (`session_total` needs `classOk` for the dissected packets: the dissector guarantees it.) -/
theorem quic_conn_never_raises (mask : Dissect.MaskFn) (H : Crypto.Prims) (P : Quic.Session.Params Tls) (s : Quic.Session.St Tls)
    (fromClientAddr : Bool) (dcid : Bytes) (v : Quic.Session.Version) (ts : Nat) (payload : Bytes) :
    (handleDatagram mask H P s fromClientAddr dcid v ts payload).2 = none := by
  unfold handleDatagram
  exact Lemmas.QuicPipeline.dissectLoop_inv mask _ (handleTurn P) _ dcid ts (fun x => x.2 = none)
    (fun x pkts hx hp => Lemmas.QuicPipeline.handleTurn_none P x pkts hx hp) _ _ payload rfl rfl

/-- … hence every QUIC session of the main loop, after any capture, still has `raised = none`. -/
theorem quic_machine_never_raises {σ : Type} (mask : Dissect.MaskFn) (H : Crypto.Prims) (Pc : Cipher.Prims)
    (info : Nat → Pipeline.Info) (TM : MainLoop.TlsMachine Keylog.Key σ Pipeline.OutPkt) (o : MainLoop.Opts)
    (items : List (MainLoop.Item Keylog.Key)) (st : MainLoop.State Keylog.Key σ QConn)
    (hst : ∀ s ∈ st.quic, s.st.raised = none) :
    ∀ s ∈ (MainLoop.runItems TM (quicMachine mask H Pc info) o st items).quic, s.st.raised = none := by
  apply Lemmas.QuicPipeline.runItems_quic_inv TM (quicMachine mask H Pc info) (fun c => c.raised = none)
  · intro o p; rfl
  · intro c kl p dcid ver hc
    simp only [quicMachine, hc]
    exact quic_conn_never_raises ..
  · exact hst

/-- `run()` in a fresh interpreter: whatever the options and the capture, no QUIC session raised. -/
theorem quic_run_never_raises {σ : Type} (mask : Dissect.MaskFn) (H : Crypto.Prims) (Pc : Cipher.Prims)
    (info : Nat → Pipeline.Info) (TM : MainLoop.TlsMachine Keylog.Key σ Pipeline.OutPkt) (a : MainLoop.Args)
    (inp : MainLoop.Inputs Keylog.Key) (ms : MainLoop.ModState Keylog.Key σ QConn) (out : List Pipeline.OutPkt)
    (h : MainLoop.runFrom TM (quicMachine mask H Pc info) MainLoop.freshState a inp = .ok (ms, out)) :
    ∀ s ∈ ms.st.quic, s.st.raised = none := by
  unfold MainLoop.runFrom MainLoop.body at h
  split at h
  · cases h
  · split at h
    · cases h
    · simp only [Except.ok.injEq, Prod.mk.injEq] at h
      obtain ⟨rfl, _⟩ := h
      apply quic_machine_never_raises
      intro s hs
      simp only [MainLoop.reset, MainLoop.freshState] at hs
      split at hs <;> simp at hs

/-! ### C07/C02 output side -/

theorem addressed_payload (c : QConn) (d : UdpOut.Dgram) : (addressed c d).payload = d.payload := by
  unfold addressed; split <;> rfl

/-- The UDP payload bytes a connection exports, all output frames together, are exactly the data of the exported
    elements of `output_buffer` (STREAM data; with `-a` also CRYPTO data), once each, in order. -/
theorem quic_out_bytes_from_frames (md : Bool) (c : QConn) :
    (connOut md c).flatMap (·.payload) = ((c.st.out.map frameOf).filterMap (UdpOut.exported md)).flatten := by
  unfold connOut
  split
  · rename_i h
    have : c.st.out = [] := by simpa using h
    simp [this]
  · rw [List.flatMap_map]
    simp only [addressed_payload]
    exact C02Out.out_bytes_from_frames md _

/-- Every exported frame is a UDP datagram between the connection's client endpoint and its server address with the
    exported server port (`-m` / 8080 rule), MAC addresses and endpoints oriented with its direction, in the IP
    version of the connection, and carries the capture time of an exported input frame of the same direction. -/
theorem quic_out_addressed (md : Bool) (c : QConn) (p : Pipeline.OutPkt) (hp : p ∈ connOut md c) :
    p.flags = 0 ∧ p.seq = 0 ∧ p.ack = 0 ∧ p.ipv6 = c.ipv6 ∧
    (let sp : MainLoop.Endpoint :=
        ⟨c.server.ip, TcpOut.exportedServerPort c.opts.keep (Pipeline.portmapFn c.opts.portmap) c.server.port⟩
     (p.src = sp ∧ p.dst = c.client ∧ p.srcMac = c.serverMac ∧ p.dstMac = c.clientMac) ∨
     (p.src = c.client ∧ p.dst = sp ∧ p.srcMac = c.clientMac ∧ p.dstMac = c.serverMac)) ∧
    ∃ o ∈ c.st.out, (UdpOut.exported md (frameOf o)).isSome ∧ o.ts = p.ts := by
  unfold connOut at hp
  split at hp
  · cases hp
  · obtain ⟨d, hd, rfl⟩ := List.mem_map.mp hp
    obtain ⟨f, hf, hex, hts, _⟩ := C02Out.out_key_occurs md _ d hd
    obtain ⟨o, ho, rfl⟩ := List.mem_map.mp hf
    have hfts : (frameOf o).ts = o.ts := by unfold frameOf; repeat' split <;> rfl
    have hats : (addressed c d).ts = d.ts := by unfold addressed; split <;> rfl
    refine ⟨?_, ?_, ?_, ?_, ?_, o, ho, hex, by rw [hats, ← hts, hfts]⟩
    all_goals (unfold addressed; split <;> simp)

/-! ### side conditions of the adapters -/

/-- whether `handle_record` raises depends on the message only (`recordRaises` asks it on the initial state) -/
theorem handleRecord_err_indep (s s' : TlsMsgs.State) (t : Nat) (r : Bytes) :
    (TlsMsgs.handleRecord s t r).2 = (TlsMsgs.handleRecord s' t r).2 :=
  Lemmas.QuicPipeline.handleRecord_err_indep s s' t r

/-- `dev_initial_keys` never raises (the `Except` of `KeySchedule.devInitialKeys` is the OverflowError of
    `int.to_bytes` in `make_info`, impossible for its constant lengths): `devInitial` loses nothing. -/
theorem initial_keys_never_raise (h : Crypto.HashSuite) (cid : Bytes) (ver : KeySchedule.QuicVersion) :
    ∃ r, KeySchedule.devInitialKeys h cid ver false = .ok r := by
  cases ver <;>
    simp [KeySchedule.devInitialKeys, KeySchedule.makeInfo, KeySchedule.toBytes1, KeySchedule.toBytes2, bind, Except.bind,
          pure, Except.pure, KeySchedule.bClientIn, KeySchedule.bServerIn, KeySchedule.bQuicKey, KeySchedule.bQuicIv,
          KeySchedule.bQuicHp, KeySchedule.bQuicV2Key, KeySchedule.bQuicV2Iv, KeySchedule.bQuicV2Hp]

/-- `key_update` never raises for the four suites (key length 16 / 32) and a hash with a two-byte digest size:
    the `default` arm of the adapter `keyUpdate` is not reached. -/
theorem key_update_never_raises (h : Crypto.HashSuite) (hl : h.outLen < 65536) (keyLen : Nat) (hk : keyLen < 65536)
    (a b c d ssec csec : Bytes) :
    ∃ sk siv ck civ ss cs, KeySchedule.keyUpdate h keyLen [a, b, c, d, ssec, csec] = .ok [sk, siv, ck, civ, ss, cs] := by
  simp [KeySchedule.keyUpdate, KeySchedule.makeInfo, KeySchedule.toBytes1, KeySchedule.toBytes2, bind, Except.bind,
        pure, Except.pure, KeySchedule.bQuicKey, KeySchedule.bQuicIv, KeySchedule.bQuicKu, hl, hk]

/-! ### the TLS parser on post-handshake CRYPTO frames -/

open TLX.Quic.CryptoStream in
theorem msgLoop_raised (r : Bytes → Bool) (b : Bytes) (h : (msgLoop r b).2.2 = true) :
    ∃ m ∈ (msgLoop r b).1, r m = true := by
  fun_induction msgLoop r b with
  | case1 b h1 => simp at h
  | case2 b h1 n h2 => simp at h
  | case3 b h1 n h2 m hr => exact ⟨m, by simp, hr⟩
  | case4 b h1 n h2 m hr q ih =>
    obtain ⟨x, hx, hrx⟩ := ih h
    exact ⟨x, List.mem_cons_of_mem _ hx, hrx⟩

open TLX.Quic.CryptoStream in
theorem handleBufferGo_raised (r : Bytes → Bool) (srv : Bool) (pts : List PT) (st : State)
    (h : (handleBufferGo r srv pts st).2.2 = true) : ∃ m ∈ (handleBufferGo r srv pts st).2.1, r m = true := by
  induction pts generalizing st with
  | nil => simp [handleBufferGo] at h
  | cons p ps ih =>
    simp only [handleBufferGo] at h ⊢
    split
    · rename_i hr
      exact msgLoop_raised r _ hr
    · rename_i hr
      rw [if_neg hr] at h
      obtain ⟨m, hm, hrm⟩ := ih _ h
      exact ⟨m, List.mem_append_right _ hm, hrm⟩

/-- is this handshake message one `handle_record` acts on (ClientHello 1, ServerHello 2, EncryptedExtensions 8)? -/
def helloType (m : Bytes) : Bool :=
  match m with
  | [] => false
  | t :: _ => t == 1 || t == 2 || t == 8

/-- the handshake messages the call `update_session(frame)` hands to `handle_record` (the frame may complete
    messages in any of the four spaces of its direction) -/
def completedBy (t : Tls) (c : Quic.Session.CryptoIn) : List Bytes :=
  match ptOf c.ptype with
  | none => []
  | some pt => (CryptoStream.update recordRaises t.frames (c.isServer, pt) ⟨t.nextId, c.offset, c.data, c.length⟩).2.1

/-- the frame completes no ClientHello / ServerHello / EncryptedExtensions (e.g. it carries NewSessionTicket, the only
    handshake message RFC 9001 §4.1.3 has in 1-RTT packets besides none) -/
def Harmless (t : Tls) (c : Quic.Session.CryptoIn) : Prop := ∀ m ∈ completedBy t c, helloType m = false

theorem handleRecord_not_hello (s : TlsMsgs.State) (m : Bytes) (h : helloType m = false) :
    ∀ t r, m = t :: r → TlsMsgs.handleRecord s t.toNat m = (s, none) := by
  intro t r hm
  subst hm
  simp only [helloType, Bool.or_eq_false_iff, beq_eq_false_iff_ne] at h
  obtain ⟨⟨h1, h2⟩, h8⟩ := h
  have n1 : t.toNat ≠ 1 := fun e => h1 (UInt8.toNat_inj.mp (by simpa using e))
  have n2 : t.toNat ≠ 2 := fun e => h2 (UInt8.toNat_inj.mp (by simpa using e))
  have n8 : t.toNat ≠ 8 := fun e => h8 (UInt8.toNat_inj.mp (by simpa using e))
  unfold TlsMsgs.handleRecord
  split
  · rename_i e; exact absurd e n1
  · rename_i e; exact absurd e n2
  · rename_i e; exact absurd e n8
  · rfl

theorem recordRaises_not_hello (m : Bytes) (h : helloType m = false) : recordRaises m = false := by
  unfold recordRaises
  split
  · rfl
  · rename_i t r; rw [handleRecord_not_hello _ _ h t r rfl]; rfl

theorem feedRecords_not_hello (s : TlsMsgs.State) (ms : List Bytes) (h : ∀ m ∈ ms, helloType m = false) :
    feedRecords s ms = s := by
  unfold feedRecords
  induction ms generalizing s with
  | nil => rfl
  | cons m ms ih =>
    simp only [List.foldl_cons]
    have hm := h m (List.mem_cons_self ..)
    cases m with
    | nil => exact ih s (fun x hx => h x (List.mem_cons_of_mem _ hx))
    | cons t r =>
      simp only
      rw [handleRecord_not_hello s _ hm t r rfl]
      exact ih s (fun x hx => h x (List.mem_cons_of_mem _ hx))

/-- `TlsNoRaise`, conditional form: a CRYPTO frame (of a packet type that can carry one) that completes no hello
    message does not make `update_session` raise — in ANY parser state. -/
theorem tls_no_raise_rtt1 (t : Tls) (c : Quic.Session.CryptoIn) (hpt : c.ptype = .rtt1) (hh : Harmless t c) :
    (tlsUpdate t c).2 = none := by
  unfold Harmless completedBy at hh
  unfold tlsUpdate
  rw [hpt] at hh ⊢
  simp only [ptOf] at hh ⊢
  split
  · rename_i hr
    obtain ⟨m, hm, hrm⟩ := handleBufferGo_raised _ _ _ _ hr
    rw [recordRaises_not_hello m (hh m hm)] at hrm
    cases hrm
  · rfl

/-- `TlsQuiet`, conditional form: … and leaves every attribute the session reads (`client_random`, `ciphersuite`,
    `new_data`, …) and the header-protection keys as they were. -/
theorem tls_quiet_rtt1 (t : Tls) (c : Quic.Session.CryptoIn) (hpt : c.ptype = .rtt1) (hh : Harmless t c) :
    (tlsUpdate t c).1.msgs = t.msgs ∧ (tlsUpdate t c).1.hp = t.hp ∧ (tlsUpdate t c).1.ver = t.ver := by
  unfold Harmless completedBy at hh
  rw [hpt] at hh
  simp only [ptOf] at hh
  refine ⟨?_, ?_, ?_⟩
  · unfold tlsUpdate; rw [hpt]; simp only [ptOf]; exact feedRecords_not_hello _ _ hh
  · unfold tlsUpdate; rw [hpt]; rfl
  · unfold tlsUpdate; rw [hpt]; rfl

/-- In the composed session: a 1-RTT CRYPTO frame that completes no hello message (NewSessionTicket) is appended to
    `output_buffer` and changes nothing else but the parser's reassembly buffers: no decryptor, key, epoch, packet-number
    table, CID set or header-protection key. -/
theorem one_rtt_crypto_keeps_keys (H : Crypto.Prims) (Pc : Cipher.Prims) (kl : List Keylog.Key) (s : Quic.Session.St Tls)
    (p : Pkt) (f : Frame.Parsed) (c : Quic.Session.CryptoIn) (hpt : c.ptype = .rtt1) (hh : Harmless s.tls c)
    (hnd : s.tls.msgs.newData = false) :
    Quic.Session.handleCrypto (params H Pc kl) s p f c =
      ({ s with tls := (tlsUpdate s.tls c).1, out := s.out ++ [Quic.Session.mkOut p f] }, none) ∧
    (tlsUpdate s.tls c).1.msgs = s.tls.msgs ∧ (tlsUpdate s.tls c).1.hp = s.tls.hp := by
  obtain ⟨q1, q2, _⟩ := tls_quiet_rtt1 s.tls c hpt hh
  refine ⟨?_, q1, q2⟩
  have hn := tls_no_raise_rtt1 s.tls c hpt hh
  unfold Quic.Session.handleCrypto
  have hu : (params H Pc kl).tlsUpdate s.tls c = ((tlsUpdate s.tls c).1, none) := by
    show tlsUpdate s.tls c = _
    rw [← hn]
  rw [hu]
  simp only
  unfold Quic.Session.afterTls
  have hflag : (params H Pc kl).tlsNewData (tlsUpdate s.tls c).1 = false := by
    show (tlsUpdate s.tls c).1.msgs.newData = false
    rw [q1]; exact hnd
  simp only [hflag, Bool.false_eq_true, if_false]

/-! ### … and why the unconditional hypotheses of `one_rtt_exact` do not hold for `QuicTlsSession` -/

/-- a 1-RTT CRYPTO frame from the client carrying an EncryptedExtensions message with an empty extension list -/
def eeFrame : Quic.Session.CryptoIn := ⟨false, .rtt1, 0, 6, [8, 0, 0, 2, 0, 0]⟩

theorem parseExts_nil : TlsMsgs.parseExts [] = [] := by rw [TlsMsgs.parseExts]; simp

theorem ee_no_raise : recordRaises [8, 0, 0, 2, 0, 0] = false := by
  simp [recordRaises, TlsMsgs.handleRecord, TlsMsgs.handleEncryptedExtensions, TlsMsgs.extsThenNewData,
    TlsMsgs.getExtensions, Bytes.beNat, Bytes.slice, parseExts_nil, TlsMsgs.applyExts]

theorem ee_new_data (s : TlsMsgs.State) : (TlsMsgs.handleRecord s 8 [8, 0, 0, 2, 0, 0]).1.newData = true := by
  simp [TlsMsgs.handleRecord, TlsMsgs.handleEncryptedExtensions, TlsMsgs.extsThenNewData,
    TlsMsgs.getExtensions, Bytes.beNat, Bytes.slice, parseExts_nil, TlsMsgs.applyExts]

theorem eeFrame_sets_new_data : (tlsUpdate {} eeFrame).1.msgs.newData = true ∧ (tlsUpdate {} eeFrame).2 = none := by
  unfold tlsUpdate eeFrame
  simp only [ptOf]
  unfold CryptoStream.update CryptoStream.handleBuffer
  simp only [CryptoStream.handleBufferGo, Lemmas.CryptoStream.msgLoop_eq_len]
  simp [CryptoStream.State.set, CryptoStream.State.init, CryptoStream.absorb, CryptoStream.sortByOffset,
    CryptoStream.insertSorted, CryptoStream.pass, CryptoStream.removeFrame, Lemmas.CryptoStream.msgLoopF, Bytes.beNat,
    Bytes.slice, ee_no_raise, feedRecords, ee_new_data]

/-- `TlsQuiet … .rtt1` — "1-RTT CRYPTO frames never set `new_data`" — is false for the real parser, whatever the key
    log and the primitives: `handle_record` dispatches on the message type alone, so an EncryptedExtensions message
    in a 1-RTT packet sets `new_data`, and `handle_crypto_frame` calls `set_tls_decryptors` again (which resets
    `decryptors["Application"]` to one generation while the epochs keep their values, see TLX/Quic/Session.lean).
    `one_rtt_exact` therefore applies to this instance only through the conditional theorems above. -/
theorem tls_quiet_rtt1_counterexample (H : Crypto.Prims) (Pc : Cipher.Prims) (kl : List Keylog.Key) :
    ¬ Lemmas.QuicSession.TlsQuiet (params H Pc kl) .rtt1 := by
  intro h
  have h1 : (tlsUpdate {} eeFrame).1.msgs.newData = false := h {} eeFrame rfl rfl
  rw [eeFrame_sets_new_data.1] at h1
  cases h1

/-- the conditional theorems are not vacuous: a NewSessionTicket-typed message is `Harmless` in the initial state … -/
example : Harmless {} ⟨true, .rtt1, 0, 6, [4, 0, 0, 2, 0, 0]⟩ := by
  intro m hm
  unfold completedBy at hm
  simp only [ptOf] at hm
  unfold CryptoStream.update CryptoStream.handleBuffer at hm
  simp only [CryptoStream.handleBufferGo, Lemmas.CryptoStream.msgLoop_eq_len] at hm
  simp [CryptoStream.State.set, CryptoStream.State.init, CryptoStream.absorb, CryptoStream.sortByOffset,
    CryptoStream.insertSorted, CryptoStream.pass, CryptoStream.removeFrame, Lemmas.CryptoStream.msgLoopF, Bytes.beNat,
    Bytes.slice, recordRaises, TlsMsgs.handleRecord] at hm
  subst hm
  rfl

end TLX.Props.C02Pipeline
