/-
C02 / C03 for the COMPOSED QUIC export model (`TLX.QuicPipeline`, the model the whole-program correspondence
`harness/quic_pipeline_corr.py` runs against the real tool): what is specific to the composition.

Everything the theorems of `Props/C02Session`, `C02Dissect`, `C02Crypto`, `C02Hello`, `C02Out`, `C16`, `C17` say for EVERY
`Params` / mask / `raises` function holds for the instances plugged together here. This file adds
  * `quic_conn_never_raises`, `quic_machine_never_raises`, `quic_run_never_raises` — no exception leaves `handle_packet`,
    for any datagram, key log, hash functions, AEAD, mask: `session_total`'s hypothesis `classOk` is discharged from what
    `extract_quic_packet` can build, through the coalescing loop and the main loop;
  * `quic_out_bytes_from_frames`, `quic_out_addressed` — the exported UDP payload bytes are exactly the data of the
    exported frames of `output_buffer`, and every exported frame is addressed with the connection's endpoints;
  * `handleRecord_err_indep`, `initial_keys_never_raise`, `key_update_never_raises` — the adapters' side conditions;
  * `after_tls_hp_exact`, `after_tls_hp_unchanged`, `decryptPacket_keeps`, `feedPre_verOk`, `handleTurn_verOk` — the
    header-protection keys handed to the dissector (adapter field `Tls.hp`) come from the same `dev_quic_keys` result
    as the packet keys in the decryptors;
  * the TLS-parser hypotheses of `C02Session.one_rtt_exact` for the concrete parser: `TlsQuiet` / `TlsNoRaise` quantify
    over ALL parser states and ALL 1-RTT CRYPTO frames and are FALSE for `QuicTlsSession` as written
    (`tls_quiet_rtt1_counterexample`: a 1-RTT CRYPTO frame carrying an EncryptedExtensions message sets `new_data`, and
    `set_tls_decryptors` runs again); what holds is the conditional form `tls_quiet_rtt1` / `tls_no_raise_rtt1` /
    `one_rtt_crypto_keeps_keys`: a CRYPTO frame that completes no ClientHello / ServerHello / EncryptedExtensions
    message (NewSessionTicket, type 4, is what RFC 9001 §4 allows in 1-RTT) neither raises nor touches any decryptor,
    key, epoch or header-protection key.
-/
import TLX.Lemmas.QuicPipeline
import TLX.Lemmas.QuicSessionExact
import TLX.Lemmas.CryptoStream
import TLX.Props.C02Out
namespace TLX.Props.C02Pipeline
open TLX TLX.Quic TLX.QuicPipeline

/-! ### C03: nothing escapes `handle_packet` -/

/-- One datagram through `QuicSession.handle_packet`, composed: whatever the session state, the routing DCID, the
    version, the key log / hash functions / AEAD inside `P`, the header-protection mask and the datagram bytes, no
    exception leaves it. (`session_total` needs `classOk` for the dissected packets: the dissector guarantees it.) -/
theorem quic_conn_never_raises (mask : Dissect.MaskFn) (H : Crypto.Prims) (P : Quic.Session.Params Tls) (s : Quic.Session.St Tls)
    (fromClientAddr : Bool) (dcid : Bytes) (v : Quic.Session.Version) (ts : Nat) (payload : Bytes) :
    (handleDatagram mask H P s fromClientAddr dcid v ts payload).2 = none := by
  unfold handleDatagram
  exact Lemmas.QuicPipeline.dissectLoop_inv mask _ (handleTurn P) _ dcid ts (fun x => x.2 = none)
    (fun x pkts hx hp => Lemmas.QuicPipeline.handleTurn_none P x pkts hx hp) _ _ payload rfl rfl

/-- … hence every QUIC session of the main loop, after any capture, still has `raised = none`. -/
theorem quic_machine_never_raises {σ : Type} (mask : Dissect.MaskFn) (H : Crypto.Prims) (Pc : Cipher.Prims)
    (info : Nat → Pipeline.Info) (TM : MainLoop.TlsMachine Keylog.Key σ Pipeline.OutPkt) (o : MainLoop.Opts)
    (items : List (MainLoop.Item Keylog.Key)) (st : MainLoop.State Keylog.Key σ QConn)
    (hst : ∀ s ∈ st.quic, s.st.raised = none) :
    ∀ s ∈ (MainLoop.runItems TM (quicMachine mask H Pc info) o st items).quic, s.st.raised = none := by
  apply Lemmas.QuicPipeline.runItems_quic_inv TM (quicMachine mask H Pc info) (fun c => c.raised = none)
  · intro o p; rfl
  · intro c kl p dcid ver hc
    simp only [quicMachine, hc]
    exact quic_conn_never_raises ..
  · exact hst

/-- `run()` in a fresh interpreter: whatever the options and the capture, no QUIC session raised. -/
theorem quic_run_never_raises {σ : Type} (mask : Dissect.MaskFn) (H : Crypto.Prims) (Pc : Cipher.Prims)
    (info : Nat → Pipeline.Info) (TM : MainLoop.TlsMachine Keylog.Key σ Pipeline.OutPkt) (a : MainLoop.Args)
    (inp : MainLoop.Inputs Keylog.Key) (ms : MainLoop.ModState Keylog.Key σ QConn) (out : List Pipeline.OutPkt)
    (h : MainLoop.runFrom TM (quicMachine mask H Pc info) MainLoop.freshState a inp = .ok (ms, out)) :
    ∀ s ∈ ms.st.quic, s.st.raised = none := by
  unfold MainLoop.runFrom MainLoop.body at h
  split at h
  · cases h
  · split at h
    · cases h
    · simp only [Except.ok.injEq, Prod.mk.injEq] at h
      obtain ⟨rfl, _⟩ := h
      apply quic_machine_never_raises
      intro s hs
      simp only [MainLoop.reset, MainLoop.freshState] at hs
      split at hs <;> simp at hs

/-! ### C07/C02 output side -/

theorem addressed_payload (c : QConn) (d : UdpOut.Dgram) : (addressed c d).payload = d.payload := by
  unfold addressed; split <;> rfl

/-- The UDP payload bytes a connection exports, all output frames together, are exactly the data of the exported
    elements of `output_buffer` (STREAM data; with `-a` also CRYPTO data), once each, in order. -/
theorem quic_out_bytes_from_frames (md : Bool) (c : QConn) :
    (connOut md c).flatMap (·.payload) = ((c.st.out.map frameOf).filterMap (UdpOut.exported md)).flatten := by
  unfold connOut
  split
  · rename_i h
    have : c.st.out = [] := by simpa using h
    simp [this]
  · rw [List.flatMap_map]
    simp only [addressed_payload]
    exact C02Out.out_bytes_from_frames md _

/-- Every exported frame is a UDP datagram between the connection's client endpoint and its server address with the
    exported server port (`-m` / 8080 rule), MAC addresses and endpoints oriented with its direction, in the IP
    version of the connection, and carries the capture time of an exported input frame of the same direction. -/
theorem quic_out_addressed (md : Bool) (c : QConn) (p : Pipeline.OutPkt) (hp : p ∈ connOut md c) :
    p.flags = 0 ∧ p.seq = 0 ∧ p.ack = 0 ∧ p.ipv6 = c.ipv6 ∧
    (let sp : MainLoop.Endpoint :=
        ⟨c.server.ip, TcpOut.exportedServerPort c.opts.keep (Pipeline.portmapFn c.opts.portmap) c.server.port⟩
     (p.src = sp ∧ p.dst = c.client ∧ p.srcMac = c.serverMac ∧ p.dstMac = c.clientMac) ∨
     (p.src = c.client ∧ p.dst = sp ∧ p.srcMac = c.clientMac ∧ p.dstMac = c.serverMac)) ∧
    ∃ o ∈ c.st.out, (UdpOut.exported md (frameOf o)).isSome ∧ o.ts = p.ts := by
  unfold connOut at hp
  split at hp
  · cases hp
  · obtain ⟨d, hd, rfl⟩ := List.mem_map.mp hp
    obtain ⟨f, hf, hex, hts, _⟩ := C02Out.out_key_occurs md _ d hd
    obtain ⟨o, ho, rfl⟩ := List.mem_map.mp hf
    have hfts : (frameOf o).ts = o.ts := by unfold frameOf; repeat' split <;> rfl
    have hats : (addressed c d).ts = d.ts := by unfold addressed; split <;> rfl
    refine ⟨?_, ?_, ?_, ?_, ?_, o, ho, hex, by rw [hats, ← hts, hfts]⟩
    all_goals (unfold addressed; split <;> simp)

/-! ### side conditions of the adapters -/

/-- whether `handle_record` raises depends on the message only (`recordRaises` asks it on the initial state) -/
theorem handleRecord_err_indep (s s' : TlsMsgs.State) (t : Nat) (r : Bytes) :
    (TlsMsgs.handleRecord s t r).2 = (TlsMsgs.handleRecord s' t r).2 :=
  Lemmas.QuicPipeline.handleRecord_err_indep s s' t r

/-- `dev_initial_keys` never raises (the `Except` of `KeySchedule.devInitialKeys` is the OverflowError of
    `int.to_bytes` in `make_info`, impossible for its constant lengths): `devInitial` loses nothing. -/
theorem initial_keys_never_raise (h : Crypto.HashSuite) (cid : Bytes) (ver : KeySchedule.QuicVersion) :
    ∃ r, KeySchedule.devInitialKeys h cid ver false = .ok r := by
  cases ver <;>
    simp [KeySchedule.devInitialKeys, KeySchedule.makeInfo, KeySchedule.toBytes1, KeySchedule.toBytes2, bind, Except.bind,
          pure, Except.pure, KeySchedule.bClientIn, KeySchedule.bServerIn, KeySchedule.bQuicKey, KeySchedule.bQuicIv,
          KeySchedule.bQuicHp, KeySchedule.bQuicV2Key, KeySchedule.bQuicV2Iv, KeySchedule.bQuicV2Hp]

/-- `key_update` never raises for the four suites (key length 16 / 32) and a hash with a two-byte digest size:
    the `default` arm of the adapter `keyUpdate` is not reached. -/
theorem key_update_never_raises (h : Crypto.HashSuite) (hl : h.outLen < 65536) (keyLen : Nat) (hk : keyLen < 65536)
    (a b c d ssec csec : Bytes) :
    ∃ sk siv ck civ ss cs, KeySchedule.keyUpdate h keyLen [a, b, c, d, ssec, csec] = .ok [sk, siv, ck, civ, ss, cs] := by
  simp [KeySchedule.keyUpdate, KeySchedule.makeInfo, KeySchedule.toBytes1, KeySchedule.toBytes2, bind, Except.bind,
        pure, Except.pure, KeySchedule.bQuicKey, KeySchedule.bQuicIv, KeySchedule.bQuicKu, hl, hk]

/-! ### the TLS parser on post-handshake CRYPTO frames -/

open TLX.Quic.CryptoStream in
theorem msgLoop_raised (r : Bytes → Bool) (b : Bytes) (h : (msgLoop r b).2.2 = true) :
    ∃ m ∈ (msgLoop r b).1, r m = true := by
  fun_induction msgLoop r b with
  | case1 b h1 => simp at h
  | case2 b h1 n h2 => simp at h
  | case3 b h1 n h2 m hr => exact ⟨m, by simp, hr⟩
  | case4 b h1 n h2 m hr q ih =>
    obtain ⟨x, hx, hrx⟩ := ih h
    exact ⟨x, List.mem_cons_of_mem _ hx, hrx⟩

open TLX.Quic.CryptoStream in
theorem handleBufferGo_raised (r : Bytes → Bool) (srv : Bool) (pts : List PT) (st : State)
    (h : (handleBufferGo r srv pts st).2.2 = true) : ∃ m ∈ (handleBufferGo r srv pts st).2.1, r m = true := by
  induction pts generalizing st with
  | nil => simp [handleBufferGo] at h
  | cons p ps ih =>
    simp only [handleBufferGo] at h ⊢
    split
    · rename_i hr
      exact msgLoop_raised r _ hr
    · rename_i hr
      rw [if_neg hr] at h
      obtain ⟨m, hm, hrm⟩ := ih _ h
      exact ⟨m, List.mem_append_right _ hm, hrm⟩

/-- is this handshake message one `handle_record` acts on (ClientHello 1, ServerHello 2, EncryptedExtensions 8)? -/
def helloType (m : Bytes) : Bool :=
  match m with
  | [] => false
  | t :: _ => t == 1 || t == 2 || t == 8

/-- the handshake messages the call `update_session(frame)` hands to `handle_record` (the frame may complete
    messages in any of the four spaces of its direction) -/
def completedBy (t : Tls) (c : Quic.Session.CryptoIn) : List Bytes :=
  match ptOf c.ptype with
  | none => []
  | some pt => (CryptoStream.update recordRaises t.frames (c.isServer, pt) ⟨t.nextId, c.offset, c.data, c.length⟩).2.1

/-- the frame completes no ClientHello / ServerHello / EncryptedExtensions (e.g. it carries NewSessionTicket, the only
    handshake message RFC 9001 §4.1.3 has in 1-RTT packets besides none) -/
def Harmless (t : Tls) (c : Quic.Session.CryptoIn) : Prop := ∀ m ∈ completedBy t c, helloType m = false

theorem handleRecord_not_hello (s : TlsMsgs.State) (m : Bytes) (h : helloType m = false) :
    ∀ t r, m = t :: r → TlsMsgs.handleRecord s t.toNat m = (s, none) := by
  intro t r hm
  subst hm
  simp only [helloType, Bool.or_eq_false_iff, beq_eq_false_iff_ne] at h
  obtain ⟨⟨h1, h2⟩, h8⟩ := h
  have n1 : t.toNat ≠ 1 := fun e => h1 (UInt8.toNat_inj.mp (by simpa using e))
  have n2 : t.toNat ≠ 2 := fun e => h2 (UInt8.toNat_inj.mp (by simpa using e))
  have n8 : t.toNat ≠ 8 := fun e => h8 (UInt8.toNat_inj.mp (by simpa using e))
  unfold TlsMsgs.handleRecord
  split
  · rename_i e; exact absurd e n1
  · rename_i e; exact absurd e n2
  · rename_i e; exact absurd e n8
  · rfl

theorem recordRaises_not_hello (m : Bytes) (h : helloType m = false) : recordRaises m = false := by
  unfold recordRaises
  split
  · rfl
  · rename_i t r; rw [handleRecord_not_hello _ _ h t r rfl]; rfl

theorem feedRecords_not_hello (s : TlsMsgs.State) (ms : List Bytes) (h : ∀ m ∈ ms, helloType m = false) :
    feedRecords s ms = s := by
  unfold feedRecords
  induction ms generalizing s with
  | nil => rfl
  | cons m ms ih =>
    simp only [List.foldl_cons]
    have hm := h m (List.mem_cons_self ..)
    cases m with
    | nil => exact ih s (fun x hx => h x (List.mem_cons_of_mem _ hx))
    | cons t r =>
      simp only
      rw [handleRecord_not_hello s _ hm t r rfl]
      exact ih s (fun x hx => h x (List.mem_cons_of_mem _ hx))

/-- `TlsNoRaise`, conditional form: a CRYPTO frame (of a packet type that can carry one) that completes no hello
    message does not make `update_session` raise — in ANY parser state. -/
theorem tls_no_raise_rtt1 (t : Tls) (c : Quic.Session.CryptoIn) (hpt : c.ptype = .rtt1) (hh : Harmless t c) :
    (tlsUpdate t c).2 = none := by
  unfold Harmless completedBy at hh
  unfold tlsUpdate
  rw [hpt] at hh ⊢
  simp only [ptOf] at hh ⊢
  split
  · rename_i hr
    obtain ⟨m, hm, hrm⟩ := handleBufferGo_raised _ _ _ _ hr
    rw [recordRaises_not_hello m (hh m hm)] at hrm
    cases hrm
  · rfl

/-- `TlsQuiet`, conditional form: … and leaves every attribute the session reads (`client_random`, `ciphersuite`,
    `new_data`, …) and the header-protection keys as they were. -/
theorem tls_quiet_rtt1 (t : Tls) (c : Quic.Session.CryptoIn) (hpt : c.ptype = .rtt1) (hh : Harmless t c) :
    (tlsUpdate t c).1.msgs = t.msgs ∧ (tlsUpdate t c).1.hp = t.hp ∧ (tlsUpdate t c).1.ver = t.ver := by
  unfold Harmless completedBy at hh
  rw [hpt] at hh
  simp only [ptOf] at hh
  refine ⟨?_, ?_, ?_⟩
  · unfold tlsUpdate; rw [hpt]; simp only [ptOf]; exact feedRecords_not_hello _ _ hh
  · unfold tlsUpdate; rw [hpt]; rfl
  · unfold tlsUpdate; rw [hpt]; rfl

/-- In the composed session: a 1-RTT CRYPTO frame that completes no hello message (NewSessionTicket) is appended to
    `output_buffer` and changes nothing else but the parser's reassembly buffers: no decryptor, key, epoch, packet-number
    table, CID set or header-protection key. -/
theorem one_rtt_crypto_keeps_keys (H : Crypto.Prims) (Pc : Cipher.Prims) (kl : List Keylog.Key) (s : Quic.Session.St Tls)
    (p : Pkt) (f : Frame.Parsed) (c : Quic.Session.CryptoIn) (hpt : c.ptype = .rtt1) (hh : Harmless s.tls c)
    (hnd : s.tls.msgs.newData = false) :
    Quic.Session.handleCrypto (params H Pc kl) s p f c =
      ({ s with tls := (tlsUpdate s.tls c).1, out := s.out ++ [Quic.Session.mkOut p f] }, none) ∧
    (tlsUpdate s.tls c).1.msgs = s.tls.msgs ∧ (tlsUpdate s.tls c).1.hp = s.tls.hp := by
  obtain ⟨q1, q2, _⟩ := tls_quiet_rtt1 s.tls c hpt hh
  refine ⟨?_, q1, q2⟩
  have hn := tls_no_raise_rtt1 s.tls c hpt hh
  unfold Quic.Session.handleCrypto
  have hu : (params H Pc kl).tlsUpdate s.tls c = ((tlsUpdate s.tls c).1, none) := by
    show tlsUpdate s.tls c = _
    rw [← hn]
  rw [hu]
  simp only
  unfold Quic.Session.afterTls
  have hflag : (params H Pc kl).tlsNewData (tlsUpdate s.tls c).1 = false := by
    show (tlsUpdate s.tls c).1.msgs.newData = false
    rw [q1]; exact hnd
  simp only [hflag, Bool.false_eq_true, if_false]

/-! ### … and why the unconditional hypotheses of `one_rtt_exact` do not hold for `QuicTlsSession` -/

/-- a 1-RTT CRYPTO frame from the client carrying an EncryptedExtensions message with an empty extension list -/
def eeFrame : Quic.Session.CryptoIn := ⟨false, .rtt1, 0, 6, [8, 0, 0, 2, 0, 0]⟩

theorem parseExts_nil : TlsMsgs.parseExts [] = [] := by rw [TlsMsgs.parseExts]; simp

theorem ee_no_raise : recordRaises [8, 0, 0, 2, 0, 0] = false := by
  simp [recordRaises, TlsMsgs.handleRecord, TlsMsgs.handleEncryptedExtensions, TlsMsgs.extsThenNewData,
    TlsMsgs.getExtensions, Bytes.beNat, Bytes.slice, parseExts_nil, TlsMsgs.applyExts]

theorem ee_new_data (s : TlsMsgs.State) : (TlsMsgs.handleRecord s 8 [8, 0, 0, 2, 0, 0]).1.newData = true := by
  simp [TlsMsgs.handleRecord, TlsMsgs.handleEncryptedExtensions, TlsMsgs.extsThenNewData,
    TlsMsgs.getExtensions, Bytes.beNat, Bytes.slice, parseExts_nil, TlsMsgs.applyExts]

theorem eeFrame_sets_new_data : (tlsUpdate {} eeFrame).1.msgs.newData = true ∧ (tlsUpdate {} eeFrame).2 = none := by
  unfold tlsUpdate eeFrame
  simp only [ptOf]
  unfold CryptoStream.update CryptoStream.handleBuffer
  simp only [CryptoStream.handleBufferGo, Lemmas.CryptoStream.msgLoop_eq_len]
  simp [CryptoStream.State.set, CryptoStream.State.init, CryptoStream.absorb, CryptoStream.sortByOffset,
    CryptoStream.insertSorted, CryptoStream.pass, CryptoStream.removeFrame, Lemmas.CryptoStream.msgLoopF, Bytes.beNat,
    Bytes.slice, ee_no_raise, feedRecords, ee_new_data]

/-- `TlsQuiet … .rtt1` — "1-RTT CRYPTO frames never set `new_data`" — is false for the real parser, whatever the key
    log and the primitives: `handle_record` dispatches on the message type alone, so an EncryptedExtensions message
    in a 1-RTT packet sets `new_data`, and `handle_crypto_frame` calls `set_tls_decryptors` again (which resets
    `decryptors["Application"]` to one generation while the epochs keep their values, see TLX/Quic/Session.lean).
    `one_rtt_exact` therefore applies to this instance only through the conditional theorems above. -/
theorem tls_quiet_rtt1_counterexample (H : Crypto.Prims) (Pc : Cipher.Prims) (kl : List Keylog.Key) :
    ¬ Lemmas.QuicSession.TlsQuiet (params H Pc kl) .rtt1 := by
  intro h
  have h1 : (tlsUpdate {} eeFrame).1.msgs.newData = false := h {} eeFrame rfl rfl
  rw [eeFrame_sets_new_data.1] at h1
  cases h1

/-- the conditional theorems are not vacuous: a NewSessionTicket-typed message is `Harmless` in the initial state … -/
example : Harmless {} ⟨true, .rtt1, 0, 6, [4, 0, 0, 2, 0, 0]⟩ := by
  intro m hm
  unfold completedBy at hm
  simp only [ptOf] at hm
  unfold CryptoStream.update CryptoStream.handleBuffer at hm
  simp only [CryptoStream.handleBufferGo, Lemmas.CryptoStream.msgLoop_eq_len] at hm
  simp [CryptoStream.State.set, CryptoStream.State.init, CryptoStream.absorb, CryptoStream.sortByOffset,
    CryptoStream.insertSorted, CryptoStream.pass, CryptoStream.removeFrame, Lemmas.CryptoStream.msgLoopF, Bytes.beNat,
    Bytes.slice, recordRaises, TlsMsgs.handleRecord] at hm
  subst hm
  rfl

/-! ### the header-protection keys the dissector reads are those `set_tls_decryptors` derived (adapter `Tls.hp`)

`Tls.ver` is stamped with `quic_version` before the first and after every turn of the coalescing loop (`feedPre_verOk`,
`handleTurn_verOk`); a turn handles at most one packet (`Lemmas.QuicDissect.extract_pkts_le_one`) and nothing inside
`decrypt_packet` moves the stamp or the version (`decryptPacket_keeps`), so every `set_tls_decryptors` call runs in a
stamped state, where `after_tls_hp_exact` / `after_tls_hp_unchanged` apply. -/

section Hp
open TLX.Quic.Session

/-- the adapter's stamp: the parser state carries the session's `quic_version` -/
def VerOk (s : St Tls) : Prop := s.tls.ver = s.version

/-- a step that touches neither the stamp nor the version -/
structure KeepsVer (s s' : St Tls) : Prop where
  ver : s'.tls.ver = s.tls.ver
  version : s'.version = s.version

theorem KeepsVer.refl (s : St Tls) : KeepsVer s s := ⟨rfl, rfl⟩
theorem KeepsVer.trans {a b c : St Tls} (h1 : KeepsVer a b) (h2 : KeepsVer b c) : KeepsVer a c :=
  ⟨h2.1.trans h1.1, h2.2.trans h1.2⟩
theorem KeepsVer.ok {a b : St Tls} (h : KeepsVer a b) (ha : VerOk a) : VerOk b := by
  unfold VerOk at *; rw [h.1, h.2, ha]

variable (H : Crypto.Prims) (Pc : Cipher.Prims) (kl : List Keylog.Key)

theorem tlsUpdate_ver (t : Tls) (c : CryptoIn) : (tlsUpdate t c).1.ver = t.ver := by
  unfold tlsUpdate; split <;> rfl

theorem installGroups_keeps (s : St Tls) (sel : SuiteSel) (kg : KeyGroups) : KeepsVer s (installGroups s sel kg) := by
  unfold installGroups; repeat' split
  all_goals exact ⟨rfl, rfl⟩

theorem setTlsDecryptors_keeps (s : St Tls) (cr cs : Bytes) :
    KeepsVer s (setTlsDecryptors (params H Pc kl) s cr cs).1 := by
  unfold setTlsDecryptors
  split
  · exact ⟨rfl, rfl⟩
  · split
    · exact ⟨rfl, rfl⟩
    · exact ⟨(installGroups_keeps _ _ _).1, (installGroups_keeps _ _ _).2⟩

theorem afterTls_keeps (s : St Tls) : KeepsVer s (afterTls (params H Pc kl) s).1 := by
  unfold afterTls
  split
  · split
    · rename_i _ _ cr cs _ _
      have h := setTlsDecryptors_keeps H Pc kl s cr cs
      split
      · rename_i heq; rw [heq] at h; exact h
      · rename_i heq; rw [heq] at h; exact ⟨h.1, h.2⟩
    · exact ⟨rfl, rfl⟩
  · exact KeepsVer.refl s

theorem handleCrypto_keeps (s : St Tls) (p : Pkt) (f : Frame.Parsed) (c : CryptoIn) :
    KeepsVer s (handleCrypto (params H Pc kl) s p f c).1 := by
  unfold handleCrypto
  have hu : ((params H Pc kl).tlsUpdate s.tls c).1.ver = s.tls.ver := tlsUpdate_ver s.tls c
  split
  · rename_i t e heq; rw [heq] at hu; exact ⟨hu, rfl⟩
  · rename_i t heq; rw [heq] at hu
    have h := afterTls_keeps H Pc kl { s with tls := t }
    split
    · rename_i heq2; rw [heq2] at h; exact ⟨h.1.trans hu, h.2⟩
    · rename_i heq2; rw [heq2] at h; exact ⟨h.1.trans hu, h.2⟩

theorem handleFrame_keeps (s : St Tls) (p : Pkt) (f : Frame.Parsed) :
    KeepsVer s (handleFrame (params H Pc kl) s p f).1 := by
  unfold handleFrame
  split
  · exact handleCrypto_keeps H Pc kl s p _ _
  · exact ⟨rfl, rfl⟩
  · split <;> exact ⟨rfl, rfl⟩
  · exact KeepsVer.refl s

theorem handleFrames_keeps (s : St Tls) (p : Pkt) (fs : List Frame.Parsed) :
    KeepsVer s (handleFrames (params H Pc kl) s p fs).1 := by
  induction fs generalizing s with
  | nil => exact KeepsVer.refl s
  | cons f fs ih =>
    unfold handleFrames
    have h := handleFrame_keeps H Pc kl s p f
    split
    · rename_i heq; rw [heq] at h; exact h
    · rename_i heq; rw [heq] at h; exact h.trans (ih _)

/-- (was `getFullPn_keeps` before the pn-store repair: `getFullPn` is pure now, the store is `setLargestPn`) -/
theorem setLargestPn_keeps (s : St Tls) (p : Pkt) (pn : Bytes) : KeepsVer s (setLargestPn s p pn) := by
  unfold setLargestPn
  repeat' split
  all_goals first
    | exact KeepsVer.refl s
    | (unfold pnStore; split <;> exact ⟨rfl, rfl⟩)

theorem checkKeyEpoch_keeps (s : St Tls) (ph : Option Nat) (srv : Bool) :
    KeepsVer s (checkKeyEpoch (params H Pc kl) s ph srv).1 := by
  unfold checkKeyEpoch extendGens flipEpoch
  repeat' split
  all_goals exact ⟨rfl, rfl⟩

theorem selectDecryptor_keeps (s : St Tls) (p : Pkt) : KeepsVer s (selectDecryptor (params H Pc kl) s p).1 := by
  unfold selectDecryptor
  have h := checkKeyEpoch_keeps H Pc kl s p.keyPhase p.isServer
  repeat' split
  all_goals first
    | exact KeepsVer.refl s
    | (rename_i heq; rw [heq] at h; exact h)

theorem decryptRest_keeps (s : St Tls) (p : Pkt) (d? : Option Dec) :
    KeepsVer s (decryptRest (params H Pc kl) s p d?).1 := by
  unfold decryptRest
  repeat' split
  all_goals first
    | exact KeepsVer.refl s
    | exact setLargestPn_keeps s p _
    | exact (setLargestPn_keeps s p _).trans (handleFrames_keeps H Pc kl _ _ _)

theorem decryptPacket_keeps (s : St Tls) (p : Pkt) : KeepsVer s (decryptPacket (params H Pc kl) s p).1 := by
  unfold decryptPacket
  have h := selectDecryptor_keeps H Pc kl s p
  split
  · rename_i heq; rw [heq] at h; exact h
  · rename_i heq; rw [heq] at h; exact h.trans (decryptRest_keeps H Pc kl _ _ _)

/-! the stamp is (re)established before the first and after every turn of the coalescing loop -/

theorem feedPre_verOk (P : Params Tls) (s : St Tls) (dcid : Bytes) (v : Version) : VerOk (feedPre H P s dcid v) := rfl

theorem handleTurn_verOk (P : Params Tls) (x : LoopSt) (pkts : List Pkt) (hx : VerOk x.1) : VerOk (handleTurn P x pkts).1 := by
  unfold handleTurn
  split
  · exact hx
  · rfl

/-- In a stamped state, when `handle_crypto_frame` finds `new_data` set and `set_tls_decryptors` derives keys, the
    header-protection keys the dissector will read are those of the SAME `dev_quic_keys` result `k` whose packet keys
    went into the Handshake / Application / Early decryptors, and `new_data` is cleared. -/
theorem after_tls_hp_exact (s : St Tls) (hv : VerOk s) (cr cs : Bytes) (sel : SuiteSel) (k : KeySchedule.QuicKeys)
    (hn : s.tls.msgs.newData = true) (hcr : s.tls.msgs.clientRandom = some cr) (hcs : s.tls.msgs.ciphersuite = some cs)
    (hsel : selectSuite cs = some sel) (hk : devQuic H kl sel s.version cr = .ok k) :
    (afterTls (params H Pc kl) s).2 = none ∧
    (afterTls (params H Pc kl) s).1.tls.hp = s.tls.hp.withTls k ∧
    (afterTls (params H Pc kl) s).1.tls.msgs.newData = false ∧
    (afterTls (params H Pc kl) s).1.decHandshake =
      some { alg := sel.alg, server := some (dirOf k.serverHs), client := dirOf k.clientHs } ∧
    (afterTls (params H Pc kl) s).1.decApp =
      some [{ alg := sel.alg, server := some (dirOf k.serverApp), client := dirOf k.clientApp,
              serverSec := k.serverAppSec, clientSec := k.clientAppSec }] ∧
    (afterTls (params H Pc kl) s).1.decEarly =
      match k.clientEarly with
      | some e => some { alg := sel.alg, server := none, client := dirOf e }
      | none => s.decEarly := by
  unfold VerOk at hv
  have e1 : (params H Pc kl).tlsNewData s.tls = true := hn
  have e2 : (params H Pc kl).tlsClientRandom s.tls = some cr := hcr
  have e3 : (params H Pc kl).tlsCiphersuite s.tls = some cs := hcs
  have e4 : (params H Pc kl).devQuicKeys sel s.version cr = .ok (groupsOf k) := by
    show (devQuic H kl sel s.version cr).map groupsOf = _
    rw [hk]; rfl
  unfold afterTls
  simp only [e1, if_true, e2, e3, setTlsDecryptors, hsel, e4]
  cases hke : k.clientEarly <;>
    simp [installGroups, groupsOf, hke, params, tlsClearNewData, hcr, hcs, hsel, hv, hk, AppKeys.toDec]

/-- … and when the derivation raises (missing / undecodable key-log lines) or the suite is unknown, neither the
    decryptors nor the header-protection keys change. -/
theorem after_tls_hp_unchanged (s : St Tls) (cr cs : Bytes)
    (hcr : s.tls.msgs.clientRandom = some cr) (hcs : s.tls.msgs.ciphersuite = some cs)
    (hbad : selectSuite cs = none ∨ ∃ sel e, selectSuite cs = some sel ∧ devQuic H kl sel s.version cr = .error e) :
    (afterTls (params H Pc kl) s).1.tls.hp = s.tls.hp ∧
    (afterTls (params H Pc kl) s).1.decHandshake = s.decHandshake ∧
    (afterTls (params H Pc kl) s).1.decApp = s.decApp ∧ (afterTls (params H Pc kl) s).1.decEarly = s.decEarly := by
  have e2 : (params H Pc kl).tlsClientRandom s.tls = some cr := hcr
  have e3 : (params H Pc kl).tlsCiphersuite s.tls = some cs := hcs
  unfold afterTls
  split
  · rcases hbad with hsel | ⟨sel, e, hsel, hk⟩
    · simp [setTlsDecryptors, hsel, params, tlsClearNewData, hcr, hcs]
    · have e4 : (params H Pc kl).devQuicKeys sel s.version cr = .error e := by
        show (devQuic H kl sel s.version cr).map groupsOf = _
        rw [hk]; rfl
      simp [e2, e3, setTlsDecryptors, hsel, e4]
  · exact ⟨rfl, rfl, rfl, rfl⟩

end Hp

end TLX.Props.C02Pipeline
