import TLX.Props.C02Capstone4
import TLX.Props.C02Capstone4Ex
set_option autoImplicit false
set_option linter.unusedSimpArgs false
set_option linter.unusedVariables false
set_option maxRecDepth 100000
/-! # C02, 0-RTT: a packet of another suite is simply missing

`Props/C02Capstone4.quic_connection_exact_0rtt` exports 0-RTT data under the condition that the Early keys the tool holds when
the packet arrives were derived for the suite the client protects 0-RTT with. This file is about the packets that do NOT
satisfy it — the tool holds Early keys of ANOTHER suite (the first offered one, before the ServerHello). Since the pn-store
repair a rejected packet leaves the session untouched; what is shown here is that such a packet IS rejected without any
side effect, whatever bytes the tool's header-protection primitive returns for it:

* `remask` / `remask_facts` / `extract_any_mask`: header protection removed with ANY mask `m'` (≥ 5 bytes) instead of the
  sender's: `extract_quic_packet` still returns ONE long-header packet of the same type and leaves exactly what followed
  it (the Length field is not protected) — with other reserved bits, another packet-number length, other packet-number
  bytes, the payload cut elsewhere.
* `Rejected`: THE hypothesis on the primitives — the AEAD check the tool performs on that packet fails. It is the weakest
  one: it names exactly the `decDecrypt` call of `decrypt_packet` (the tool's Early decryptor, the packet number it
  reconstructs, the associated data it assembles); if that call succeeded the packet would be processed. For a real AEAD
  under a key other than the sender's it is the AEAD's authenticity; for the toy primitives it is evaluated (`ExRej`).
* `zr_step_rejected`: an unauthenticated 0-RTT packet leaves the session EXACTLY as it was (no decryptor / packet number
  not reconstructible / associated data not assembled / AEAD failure — all before `set_largest_packet_number`).
* `zr_rejected_turn`: the loop of `handle_packet` on such a packet followed by anything = the loop on what follows it.
-/
namespace TLX.Props.C02Zr

/-! ### a protected long-header packet under ANY mask -/
section Remask
open TLX TLX.Quic TLX.Spec.QuicPackets TLX.Quic.Dissect TLX.Lemmas.QuicDissect

theorem xorBytes_invol (a k : Bytes) (h : a.length ≤ k.length) : xorBytes (xorBytes a k) k = a := by
  induction a generalizing k with
  | nil => cases k <;> simp [xorBytes]
  | cons x xs ih =>
    cases k with
    | nil => simp at h
    | cons y ys =>
      simp only [xorBytes, List.cons.injEq]
      refine ⟨?_, ih ys (by simpa using h)⟩
      rw [UInt8.xor_assoc, UInt8.xor_self, UInt8.xor_zero]

/-- what the dissector reads when it removes header protection with the mask `m'` from a packet protected with `m`:
    other reserved bits, another packet-number length, other packet-number bytes, the payload cut elsewhere -/
def remask (p : Long) (m m' : Bytes) : Long :=
  let b : UInt8 := p.first ^^^ ((m.headD 0 &&& 0x0f) ^^^ (m'.headD 0 &&& 0x0f))
  let n := (b &&& 3).toNat + 1
  let region := xorBytes p.pn ((m.drop 1).take p.pn.length) ++ p.payload
  { p with reserved := ((b >>> 2) &&& 3).toNat, pn := xorBytes (region.take n) ((m'.drop 1).take n),
           payload := region.drop n }

theorem nibble (x y : UInt8) : ∃ k : Fin 16, (x &&& 0x0f) ^^^ (y &&& 0x0f) = UInt8.ofNat k.val := by
  have h : ∀ a b : Fin 16, ∃ k : Fin 16, UInt8.ofNat a.val ^^^ UInt8.ofNat b.val = UInt8.ofNat k.val := by decide
  have hx : ∀ w : Fin 256, ∃ a : Fin 16, UInt8.ofNat w.val &&& 0x0f = UInt8.ofNat a.val := by decide +kernel
  obtain ⟨a, ha⟩ := hx ⟨x.toNat, x.toNat_lt⟩
  obtain ⟨b, hb⟩ := hx ⟨y.toNat, y.toNat_lt⟩
  simp only [UInt8.ofNat_toNat] at ha hb
  rw [ha, hb]
  exact h a b

theorem first_bits : ∀ t : Fin 3, ∀ r l : Fin 4, ∀ k : Fin 16,
    let b := UInt8.ofNat (0xC0 + t.val * 16 + r.val * 4 + l.val) ^^^ UInt8.ofNat k.val
    UInt8.ofNat (0xC0 + t.val * 16 + ((b >>> 2) &&& 3).toNat * 4 + (b &&& 3).toNat) = b ∧
      ((b >>> 2) &&& 3).toNat < 4 ∧ (b &&& 3).toNat < 4 := by decide +kernel

variable (p : Long) (m m' : Bytes)

theorem remask_facts (hwf : p.wf) (h20 : 20 ≤ p.pn.length + p.payload.length) (hm5 : 5 ≤ m.length) (hm5' : 5 ≤ m'.length) :
    (remask p m m').wf ∧ (remask p m m').protect m' = p.protect m ∧ (remask p m m').sample = p.sample ∧
    (remask p m m').ty = p.ty ∧ (remask p m m').version = p.version ∧ (remask p m m').scid = p.scid ∧
    (remask p m m').dcid = p.dcid ∧
    (remask p m m').pn.length + (remask p m m').payload.length = p.pn.length + p.payload.length := by
  obtain ⟨hr, hv, hd, hs, h1, h4, htk, hlen⟩ := hwf
  have hb : p.ty.bits < 3 := by cases p.ty <;> simp [LType.bits]
  obtain ⟨k, hk⟩ := nibble (m.headD 0) (m'.headD 0)
  obtain ⟨f1, f2, f3⟩ := first_bits ⟨p.ty.bits, hb⟩ ⟨p.reserved, hr⟩ ⟨p.pn.length - 1, by omega⟩ k
  simp only at f1 f2 f3
  have hfirst : p.first = UInt8.ofNat (0xC0 + p.ty.bits * 16 + p.reserved * 4 + (p.pn.length - 1)) := rfl
  rw [← hfirst, ← hk] at f1 f2 f3
  -- the region after the header
  have hkl : p.pn.length ≤ ((m.drop 1).take p.pn.length).length := by simp; omega
  have hreg : (xorBytes p.pn ((m.drop 1).take p.pn.length) ++ p.payload).length = p.pn.length + p.payload.length := by
    rw [List.length_append, xorBytes_length _ _ hkl]
  generalize hR : xorBytes p.pn ((m.drop 1).take p.pn.length) ++ p.payload = region at hreg
  generalize hB : p.first ^^^ ((m.headD 0 &&& 0x0f) ^^^ (m'.headD 0 &&& 0x0f)) = b at f1 f2 f3
  have hrm : remask p m m' =
      { p with reserved := ((b >>> 2) &&& 3).toNat
               pn := xorBytes (region.take ((b &&& 3).toNat + 1)) ((m'.drop 1).take ((b &&& 3).toNat + 1))
               payload := region.drop ((b &&& 3).toNat + 1) } := by
    simp only [remask, hR, hB]
  generalize (b &&& 3).toNat = l at f1 f3 hrm
  generalize ((b >>> 2) &&& 3).toNat = r' at f1 f2 hrm
  have hK : ((m'.drop 1).take (l + 1)).length = l + 1 := by
    rw [List.length_take, List.length_drop]; omega
  have hT : (region.take (l + 1)).length = l + 1 := by
    rw [List.length_take]; omega
  have hpn' : (xorBytes (region.take (l + 1)) ((m'.drop 1).take (l + 1))).length = l + 1 := by
    rw [xorBytes_length _ _ (by rw [hK, hT]; exact Nat.le_refl _), hT]
  have htot : (remask p m m').pn.length + (remask p m m').payload.length = p.pn.length + p.payload.length := by
    rw [hrm]; simp only [hpn', List.length_drop]; omega
  have hfst : (remask p m m').first = b := by
    rw [hrm]; simp only [Long.first, hpn', Nat.add_sub_cancel]; exact f1
  have hmid : (remask p m m').mid = p.mid := by
    have e : (remask p m m').lengthField = p.lengthField := by
      unfold Long.lengthField; rw [htot]; rw [hrm]
    unfold Long.mid
    rw [e]
    rw [hrm]
    rfl
  refine ⟨?_, ?_, ?_, by rw [hrm], by rw [hrm], by rw [hrm], by rw [hrm], htot⟩
  · have := htot
    rw [hrm] at this ⊢
    exact ⟨f2, hv, hd, hs, by simp only [hpn']; omega, by simp only [hpn']; omega, htk, by
      show p.lenW.fits _
      simp only at this
      rw [this]; exact hlen⟩
  · unfold Long.protect applyMask
    rw [hfst, hmid]
    have e1 : b ^^^ (m'.headD 0 &&& 0x0f) = p.first ^^^ (m.headD 0 &&& 0x0f) := by
      rw [← hB, UInt8.xor_assoc, UInt8.xor_assoc, UInt8.xor_self, UInt8.xor_zero]
    rw [e1]
    have e2 : xorBytes (remask p m m').pn ((m'.drop 1).take (remask p m m').pn.length) ++ (remask p m m').payload =
        region := by
      rw [hrm]
      simp only [hpn']
      rw [xorBytes_invol _ _ (by rw [hK, hT]; exact Nat.le_refl _), List.take_append_drop]
    rw [List.append_assoc, e2, ← hR, List.append_assoc]
  · unfold Long.sample sampleOf
    congr 1
    have e1 : ((remask p m m').pn ++ (remask p m m').payload).drop 4 = region.drop 4 := by
      rw [hrm]
      simp only
      rw [List.drop_append, List.drop_of_length_le (by rw [hpn']; omega), hpn', List.nil_append, List.drop_drop]
      congr 1; omega
    have e2 : (p.pn ++ p.payload).drop 4 = region.drop 4 := by
      have hX := xorBytes_length _ _ hkl
      rw [← hR, List.drop_append, List.drop_append, hX, List.drop_of_length_le (l := p.pn) (by omega),
        List.drop_of_length_le (l := xorBytes p.pn ((m.drop 1).take p.pn.length)) (by rw [hX]; omega)]
    rw [e1, e2]

/-- **`extract_quic_packet` under ANY mask.** A long-header packet protected with the mask `m`, dissected by an observer whose
    header-protection primitive returns `m'` — any bytes, at least five — for the packet's sample: one packet comes out, the
    one `remask` describes, and exactly what followed it is left. -/
theorem extract_any_mask (mask : MaskFn) (env : Env) (isServer : Bool) (guessed : Bytes) (ts : Nat)
    (hwf : p.wf) (hver : p.version ≠ [0, 0, 0, 0]) (hscid : p.scid.length ≤ 63)
    (h20 : 20 ≤ p.pn.length + p.payload.length) (hm5 : 5 ≤ m.length)
    (key : Bytes) (hk : env.keys (senderKey p.ty isServer) = some key)
    (hm : mask (senderChacha p.ty env.chacha) key p.sample = some m') (hm5' : 5 ≤ m'.length) (rest : Bytes) :
    extract mask env isServer guessed ts (p.protect m ++ rest) =
      { pkts := [(remask p m m').toPkt isServer ts], rest := rest } := by
  obtain ⟨r1, r2, r3, r4, r5, r6, r7, r8⟩ := remask_facts p m m' hwf h20 hm5 hm5'
  rw [← r2]
  exact extract_protect_long mask env isServer guessed ts (remask p m m') r1 (by rw [r5]; exact hver) (by rw [r6]; exact hscid)
    (by rw [r8]; exact h20) key m' (by rw [r4]; exact hk) (by rw [r4, r3]; exact hm) hm5' rest

end Remask

/-! ### a 0-RTT packet the tool cannot authenticate -/
section Rejected
open TLX TLX.Quic TLX.Cipher TLX.Quic.Session TLX.Lemmas.QuicSession TLX.Spec.QuicSender TLX.Spec.QuicFrames
open TLX.Props.C02Session TLX.Spec.QuicConnection TLX.Spec.QuicPackets TLX.QuicPipeline
open TLX.Props.C02Capstone TLX.Props.C02Capstone3 TLX.Spec.KeySchedules TLX.Lemmas.KeySchedule

/-- **THE hypothesis on the primitives**: the AEAD check the tool performs on THIS packet — with the Early decryptor it
    holds, the packet number it reconstructs and the associated data it assembles — fails. Nothing weaker will do: if the
    check passed, the packet would be processed. For a real AEAD under a key other than the sender's this is the
    authenticity of the AEAD (a forgery otherwise); it is not a law of the toy primitives, hence a hypothesis. -/
def Rejected {σ : Type} (P : Params σ) (s : St σ) (p : Pkt) : Prop :=
  ∀ d pn aad, s.decEarly = some d → getFullPn s p = .ok pn → assocData p = .ok aad →
    ∃ e, decDecrypt P d p.payload pn aad p.isServer = .error e

/-- a 0-RTT packet that is not authenticated leaves the session EXACTLY as it was (since the pn-store repair): whether no
    Early decryptor exists, the packet number cannot be reconstructed, or the AEAD check fails -/
theorem zr_step_rejected {σ : Type} (P : Params σ) (s : St σ) (p : Pkt) (hh : p.htype = .long) (ht : p.ptype = .rtt0)
    (hrej : Rejected P s p) : (stepPkt P s p).st = s ∧ (stepPkt P s p).escaped = none := by
  have hdp : (decryptPacket P s p).1 = s := by
    unfold decryptPacket
    simp only [selectDecryptor, hh, ht, longDecryptor]
    cases hd : s.decEarly with
    | none => rfl
    | some d =>
      simp only [decryptRest]
      cases hpn : getFullPn s p with
      | error e => rfl
      | ok pn =>
        cases haad : assocData p with
        | error e => rfl
        | ok aad =>
          obtain ⟨e, he⟩ := hrej d pn aad hd hpn haad
          simp only [he]
  simp [stepPkt, ht, afterDecrypt, hdp]

variable (maskFn : Dissect.MaskFn) (H : Crypto.Prims) (Pc : Cipher.Prims)

/-- **A 0-RTT packet of another suite is simply missing.** The client protected it with the early keys of the resumed
    suite `selR`; the tool holds SOME early header-protection key `key` (of the suite its parser had read when
    `set_tls_decryptors` ran), so its mask `m'` is unrelated to the sender's — ANY bytes, at least five. The dissector
    still cuts the packet out exactly (`extract_any_mask`: the Length field is not protected), the session rejects it
    (`Rejected`) and is exactly as before; the loop goes on with what followed the packet. -/
theorem zr_rejected_turn (hl : H.Lawful) (kl : List Keylog.Key) (L : SealLaws Pc) (selR : SuiteSel) (csR : Bytes)
    (hselR : selectSuite csR = some selR) (e : Bytes) (s : St Tls) (q : PkH) (hshape : ZrShape q.x)
    (hn1 : 1 ≤ q.x.pnLen) (hn4 : q.x.pnLen ≤ 4) (hm5 : 5 ≤ q.mask.length) (hver : s.tls.ver = s.version)
    (key m' : Bytes) (hkey : s.tls.hp.clientEarly = some key)
    (hmask : maskFn (envOf s).chacha key
      (longOf q.x (protectedPayload L.aeadSeal selR.alg (earlyDec H selR e).client q.x)).sample = some m')
    (hm5' : 5 ≤ m'.length)
    (hrej : Rejected (params H Pc kl) s
      ((remask (longOf q.x (protectedPayload L.aeadSeal selR.alg (earlyDec H selR e).client q.x)) q.mask m').toPkt false q.x.ts))
    (guessed more : Bytes) :
    (Dissect.dissectLoop maskFn (fun x : LoopSt => envOf x.1) (handleTurn (params H Pc kl)) false guessed q.x.ts
        (s, none) (zrWire H Pc L selR e q ++ more)).1 =
      (Dissect.dissectLoop maskFn (fun x : LoopSt => envOf x.1) (handleTurn (params H Pc kl)) false guessed q.x.ts
        (s, none) more).1 := by
  have hlawR : (hashOf H selR.hash).Lawful := by cases selR.hash <;> simp [hashOf, hl.sha256, hl.sha384]
  have hcases : (selR.alg = .aesgcm ∧ selR.keyLen = 16) ∨ (selR.alg = .aesgcm ∧ selR.keyLen = 32) ∨
      (selR.alg = .chachaPoly ∧ selR.keyLen = 32) ∨ (selR.alg = .aesccm ∧ selR.keyLen = 16) := by
    unfold selectSuite at hselR
    repeat' split at hselR
    all_goals first
      | (cases hselR; simp)
      | (simp at hselR)
  have hk255 : selR.keyLen ≤ 255 := by rcases hcases with h | h | h | h <;> omega
  have haead : AeadOk selR.alg (earlyDec H selR e).client.key.length (earlyDec H selR e).client.iv.length 16 := by
    simp only [earlyDec, quicKey_length _ hlawR _ _ hk255, quicIv_length _ hlawR]
    rcases hcases with ⟨a, b⟩ | ⟨a, b⟩ | ⟨a, b⟩ | ⟨a, b⟩ <;> rw [a, b] <;> decide
  have hlen : (protectedPayload L.aeadSeal selR.alg (earlyDec H selR e).client q.x).length = (encodeAll q.x.frames).length + 16 := by
    unfold protectedPayload
    have hnl : (nonce (earlyDec H selR e).client.iv q.x.pn).length = (earlyDec H selR e).client.iv.length := by
      simp [nonce, Lemmas.QuicVarint.ofNatBE_length]
    exact L.seal_len _ _ _ _ _ _ (by rw [hnl]; exact haead)
  generalize hP : longOf q.x (protectedPayload L.aeadSeal selR.alg (earlyDec H selR e).client q.x) = P at hmask hrej
  have hlwf : P.wf := by
    rw [← hP]
    refine ⟨?_, ?_, ?_, ?_, ?_, ?_, ?_, ?_⟩
    · show q.x.lowBits % 4 < 4; omega
    · show q.x.version.length = 4; rw [hshape.version]; rfl
    · show q.x.dcid.length ≤ 255; have := hshape.dcid; omega
    · show q.x.scid.length ≤ 255; have := hshape.scid; omega
    · show 1 ≤ (pnBytes q.x.pnLen q.x.pn).length; rw [C02Capstone.pnBytes_length]; exact hn1
    · show (pnBytes q.x.pnLen q.x.pn).length ≤ 4; rw [C02Capstone.pnBytes_length]; exact hn4
    · exact hshape.tok
    · show q.x.lenW.fits ((pnBytes q.x.pnLen q.x.pn).length + (protectedPayload L.aeadSeal selR.alg (earlyDec H selR e).client q.x).length)
      rw [C02Capstone.pnBytes_length, hlen, ← Nat.add_assoc]; exact hshape.len
  have hty : P.ty = .zeroRtt := by rw [← hP]; simp [longOf, hshape.level, ltypeOf]
  have hextract : Dissect.extract maskFn (envOf s) false guessed q.x.ts (zrWire H Pc L selR e q ++ more) =
      { pkts := [(remask P q.mask m').toPkt false q.x.ts], rest := more } := by
    have := extract_any_mask P q.mask m' maskFn (envOf s) false guessed q.x.ts hlwf
      (by rw [← hP]; show q.x.version ≠ _; rw [hshape.version]; decide)
      (by rw [← hP]; show q.x.scid.length ≤ 63; have := hshape.scid; omega)
      (by rw [← hP]
          show 20 ≤ (pnBytes q.x.pnLen q.x.pn).length + (protectedPayload L.aeadSeal selR.alg (earlyDec H selR e).client q.x).length
          rw [C02Capstone.pnBytes_length, hlen]; have := hshape.padded; omega)
      hm5 key (by rw [hty]; simp [senderKey, envOf, HpKeys.get, hkey])
      (by rw [hty]; simpa [senderChacha] using hmask) hm5' more
    unfold zrWire PkH.wire
    rw [hP]
    exact this
  have hnew : zrWire H Pc L selR e q ++ more ≠ [] := by
    unfold zrWire PkH.wire Long.protect applyMask; simp
  obtain ⟨r1, r2, r3, r4, _⟩ := remask_facts P q.mask m' hlwf
    (by rw [← hP]
        show 20 ≤ (pnBytes q.x.pnLen q.x.pn).length + (protectedPayload L.aeadSeal selR.alg (earlyDec H selR e).client q.x).length
        rw [C02Capstone.pnBytes_length, hlen]; have := hshape.padded; omega) hm5 hm5'
  have hst := zr_step_rejected (params H Pc kl) s ((remask P q.mask m').toPkt false q.x.ts) rfl
    (by show (remask P q.mask m').ty.ptype = .rtt0; rw [r4, hty]; rfl) hrej
  have hturn : handleTurn (params H Pc kl) (s, none) [(remask P q.mask m').toPkt false q.x.ts] = (s, none) := by
    unfold handleTurn
    simp only [handleQuicPackets, hst.2, hst.1]
    congr 1
    exact stampVer_id _ hver
  rw [Lemmas.QuicDissect.dissectLoop_cons _ _ _ _ _ _ _ _ hnew]
  simp only [hextract, hturn]

end Rejected
/-! ### non-vacuity: the 0-RTT packet of `C02Capstone4.ExZ`, protected for 0x1301, in a session holding the keys of 0x1303 -/
namespace ExRej
open TLX TLX.Quic TLX.Cipher TLX.Quic.Session TLX.Spec.QuicSender TLX.Spec.QuicConnection TLX.Spec.QuicPackets
open TLX.QuicPipeline TLX.Props.C02Capstone TLX.Props.C02Capstone3 TLX.Props.C02Session TLX.Spec.KeySchedules
open TLX.Props.C02File.Ex (H Pc L m5 sel)
open TLX.Props.C02Capstone4.ExZ (selR eS qZ)

/-- the observer's header-protection primitive returns bytes unrelated to the sender's mask `m5` -/
def mT : Bytes := [0x13, 0x37, 0x00, 0xff, 0x42]
def maskT : Dissect.MaskFn := fun _ _ _ => some mT

/-- a session that holds the Early decryptor and the early header-protection key of the FIRST OFFERED suite 0x1303 -/
def sT : St Tls :=
  let s := St.init (params H Pc [])
  { s with decEarly := some (earlyDec H selR eS),
           tls := { s.tls with hp := { s.tls.hp with clientEarly := some (quicHp (hashOf H selR.hash) eS selR.keyLen) } } }

def PZ : Long := longOf qZ.x (protectedPayload L.aeadSeal sel.alg (earlyDec H sel eS).client qZ.x)

/-- with the observer's mask the dissector reads another packet-number length and other packet-number bytes -/
theorem remask0 : (remask PZ qZ.mask mT).pn.length = 3 ∧ PZ.pn.length = 1 := by decide +kernel

def isErr {α : Type} : Except PyErr α → Bool | .error _ => true | .ok _ => false
theorem err_of {α : Type} (x : Except PyErr α) (h : isErr x = true) : ∃ e, x = .error e := by
  cases x with
  | error e => exact ⟨e, rfl⟩
  | ok _ => cases h

theorem rejected0 : Rejected (params H Pc []) sT ((remask PZ qZ.mask mT).toPkt false qZ.x.ts) := by
  intro d pn aad hd hpn haad
  have e1 : sT.decEarly = some (earlyDec H selR eS) := rfl
  rw [e1] at hd; cases hd
  apply err_of
  have h2 : ∀ pn' aad', getFullPn sT ((remask PZ qZ.mask mT).toPkt false qZ.x.ts) = .ok pn' →
      assocData ((remask PZ qZ.mask mT).toPkt false qZ.x.ts) = .ok aad' →
      isErr (decDecrypt (params H Pc []) (earlyDec H selR eS) ((remask PZ qZ.mask mT).toPkt false qZ.x.ts).payload pn' aad' false) = true := by
    have a : getFullPn sT ((remask PZ qZ.mask mT).toPkt false qZ.x.ts) =
        .ok ((getFullPn sT ((remask PZ qZ.mask mT).toPkt false qZ.x.ts)).toOption.getD []) := by decide +kernel
    have b : assocData ((remask PZ qZ.mask mT).toPkt false qZ.x.ts) =
        .ok ((assocData ((remask PZ qZ.mask mT).toPkt false qZ.x.ts)).toOption.getD []) := by decide +kernel
    intro pn' aad' h1 h2
    rw [a] at h1; rw [b] at h2
    cases h1; cases h2
    decide +kernel
  exact h2 pn aad hpn haad

/-- **Non-vacuity of `zr_rejected_turn`** (toy primitives, an unrelated mask): every hypothesis holds, so the loop skips the
    packet and the session is as before. -/
theorem rejected_turn_instance (guessed more : Bytes) :
    (Dissect.dissectLoop maskT (fun x : LoopSt => envOf x.1) (handleTurn (params H Pc [])) false guessed qZ.x.ts
        (sT, none) (zrWire H Pc L sel eS qZ ++ more)).1 =
      (Dissect.dissectLoop maskT (fun x : LoopSt => envOf x.1) (handleTurn (params H Pc [])) false guessed qZ.x.ts
        (sT, none) more).1 :=
  zr_rejected_turn maskT H Pc Props.C15.sizedToy_lawful [] L sel [0x13, 0x01] (by decide) eS sT qZ
    ⟨rfl, rfl, rfl, rfl, by decide, by decide, by decide, by decide +kernel, by decide +kernel⟩
    (by decide) (by decide) (by decide) rfl _ mT rfl rfl (by decide) rejected0 guessed more

end ExRej

end TLX.Props.C02Zr
