/-
C12 — the export does not depend on the capture container.

The reader model (`TLX/Container.lean`: `dpkt_dsb.Reader.__init__/__iter__`, contract of `dpkt.pcap.Reader`) is the exact
inverse of the independent encoders of `TLX/Spec/Containers.lean` for EVERY variant: container format × byte order ×
if_tsresol (10^-k and 2^-k, k < 128, or absent) × if_tsoffset (any signed 64-bit value, or absent) × unrelated blocks
anywhere × options present/absent × EPB/obsolete PB × block padding — and for every list of events.  What is
delivered per packet is the integer triple `(ticks, divisor, offset)` of the one timestamp expression and the bytes.

RUNTIME RESIDUE (not a theorem, by design): Python evaluates `offset + ticks / float(divisor)` in IEEE-754 doubles and
dpkt's writer rounds `ts * 1e6` to an integer.  That two variants of the same instant round to the same microsecond
is a floating-point fact; it is stated as `ts_us_invariant_statement` below, NOT proved, and is covered on every run
by the bit-exact execution of `Time.toFloat`/`usOfFloat` against CPython and by the end-to-end oracle on adversarial
instants (harness/c12.py).  Hypotheses common to all theorems: one section, the first IDB defines the clock
(single-interface hypothesis: the code uses only the first IDB's resolution/offset).
-/
import TLX.Lemmas.Container
namespace TLX.Props.C12
open TLX TLX.Container TLX.Spec.Containers TLX.Lemmas.Container

/-- Block level, pcapng (the induction over the block list using the length fields): a file made of a well-formed
    header and ANY list of well-formed blocks, optionally followed by fewer than 8 stray bytes, is read as exactly the
    events of its blocks, in file order, each with the header's `(divisor, offset)`.  Secrets blocks that precede the
    interface description are delivered too. -/
theorem read_blocks (h : NgHeader) (hwf : h.WF) (bs : List Block) (hbs : ∀ b ∈ bs, b.WF) (tail : Bytes)
    (ht : tail.length < 8) :
    Container.read false (encodeNg h bs ++ tail) = .ok (((h.preIdb ++ bs).filterMap Block.event).map h.item) :=
  read_encodeNg h hwf bs hbs tail ht

/-- `reader_roundtrip`, pcapng half: same packets, same order, same secrets, and `(ticks, divisor, offset)` as
    written — for every header, every placement of unrelated blocks, every per-event decoration. -/
theorem reader_roundtrip_pcapng (v : NgVariant) (evs : List Ev) (hwf : v.WF evs) :
    Container.read false (encode (.pcapng v) evs) = .ok (evs.map v.hdr.item) := by
  obtain ⟨hh, hpre, hafter, hend, hdeco, hweave⟩ := hwf
  have hbs : ∀ b ∈ v.blocks evs, b.WF := by
    intro b hb
    simp only [NgVariant.blocks, List.mem_append] at hb
    rcases hb with hb | hb | hb
    · exact (hafter b hb).1
    · exact hweave b hb
    · exact (hend b hb).1
  have := read_encodeNg v.hdr hh (v.blocks evs) hbs [] (by decide)
  rw [List.append_nil] at this
  rw [encode, this, List.filterMap_append, unrelated_events _ hpre, List.nil_append]
  simp only [NgVariant.blocks, List.filterMap_append, unrelated_events _ (fun b hb => (hafter b hb).2),
    unrelated_events _ (fun b hb => (hend b hb).2), weave_events v.deco hdeco 0 evs, List.nil_append, List.append_nil]

/-- `reader_roundtrip`, legacy half (the reader `-l` selects): packets in order with
    `(ticks mod U, U, ticks div U)` for `U = 10^6` or `10^9`; libpcap cannot carry secrets, so those events are absent.
    For the nanosecond magic the item is flagged `decimal` (dpkt computes a `Decimal`; main.py must convert it). -/
theorem reader_roundtrip_legacy (v : LegacyVariant) (evs : List Ev) (hwf : v.WF evs) :
    Container.read true (encode (.legacy v) evs) = .ok (evs.filterMap (scale (.legacy v))) :=
  read_legacy v evs hwf

/-- C12, `reader_roundtrip`: for EVERY variant and every event list that fits the variant's fixed-width fields,
    the reader selected for the format yields exactly `scale v` of the events. -/
theorem reader_roundtrip (v : Variant) (evs : List Ev) (hwf : v.WF evs) :
    Container.read v.isLegacy (encode v evs) = .ok (evs.filterMap (scale v)) := by
  cases v with
  | pcapng v =>
    rw [show Variant.isLegacy (.pcapng v) = false from rfl, reader_roundtrip_pcapng v evs hwf]
    congr 1
    clear hwf
    induction evs with
    | nil => rfl
    | cons ev evs ih => simp only [List.map_cons, List.filterMap_cons, scale, ih]
  | legacy v => exact reader_roundtrip_legacy v evs hwf

/-- C12, `skip_unrelated_blocks`: inserting any block that is not an EPB, PB or DSB anywhere after the first IDB
    does not change what the reader yields. -/
theorem skip_unrelated_blocks (h : NgHeader) (hwf : h.WF) (bs₁ bs₂ : List Block) (x : Block)
    (h₁ : ∀ b ∈ bs₁, b.WF) (h₂ : ∀ b ∈ bs₂, b.WF) (hx : x.WF) (hu : x.unrelated) :
    Container.read false (encodeNg h (bs₁ ++ x :: bs₂)) = Container.read false (encodeNg h (bs₁ ++ bs₂)) := by
  have e1 := read_encodeNg h hwf (bs₁ ++ x :: bs₂)
    (by intro b hb; simp only [List.mem_append, List.mem_cons] at hb
        rcases hb with hb | rfl | hb
        · exact h₁ b hb
        · exact hx
        · exact h₂ b hb) [] (by decide)
  have e2 := read_encodeNg h hwf (bs₁ ++ bs₂)
    (by intro b hb; simp only [List.mem_append] at hb
        rcases hb with hb | hb
        · exact h₁ b hb
        · exact h₂ b hb) [] (by decide)
  rw [List.append_nil] at e1 e2
  rw [e1, e2]
  simp only [List.filterMap_append, List.filterMap_cons, unrelated_event x hu]

/-- … and the same for a block inserted between the section header and the first IDB, provided it is not itself an
    interface description (type 1): the scan for the IDB skips it by its length field. -/
theorem skip_unrelated_before_idb (h : NgHeader) (hwf : h.WF) (p₁ p₂ : List Block) (hp : h.preIdb = p₁ ++ p₂)
    (ty : Nat) (body : Bytes) (hx : (Block.other ty body).WF) (hty : ty ≠ 1) (bs : List Block) (hbs : ∀ b ∈ bs, b.WF) :
    Container.read false (encodeNg { h with preIdb := p₁ ++ Block.other ty body :: p₂ } bs) =
      Container.read false (encodeNg h bs) := by
  have hwf2 : ({ h with preIdb := p₁ ++ Block.other ty body :: p₂ } : NgHeader).WF := by
    obtain ⟨a1, a2, a3, a4, a5, a6, a7, a8, a9, a10, a11, a12⟩ := hwf
    refine ⟨a1, a2, a3, a4, ?_, a6, a7, a8, a9, a10, a11, a12⟩
    intro b hb
    simp only [List.mem_append, List.mem_cons] at hb
    rcases hb with hb | rfl | hb
    · exact a5 b (by rw [hp]; simp [hb])
    · exact ⟨hx, hty⟩
    · exact a5 b (by rw [hp]; simp [hb])
  have e1 := read_encodeNg _ hwf2 bs hbs [] (by decide)
  have e2 := read_encodeNg h hwf bs hbs [] (by decide)
  rw [List.append_nil] at e1 e2
  rw [e1, e2, hp]
  simp only [List.filterMap_append, List.filterMap_cons, Block.event]
  rfl

/-! ### the same capture in two containers -/

/-- C12 at the level of the reader: whatever the container variant, the reader delivers THE CAPTURE — the same
    packets in the same order with exactly the same instants (as the integer triple handed to the one scaling
    expression) and the same secrets. Two variants of one capture therefore differ in nothing but the
    representation `(ticks, divisor, offset)` of each instant (see `same_instant_any_two_variants`). -/
theorem container_independent (v : Variant) (cap : List CEv) (evs : List Ev) (hwf : v.WF evs)
    (hrep : Zip (represents v) cap evs) :
    ∃ out, Container.read v.isLegacy (encode v evs) = .ok out ∧ Zip delivers (keep v cap) out := by
  refine ⟨_, reader_roundtrip v evs hwf, ?_⟩
  clear hwf
  induction hrep with
  | nil => cases v <;> exact Zip.nil
  | @cons c ev cs evs' hce _ ih =>
    cases v with
    | pcapng v =>
      simp only [keep, List.filterMap_cons, scale] at ih ⊢
      refine Zip.cons ?_ ih
      cases c <;> cases ev <;> simp_all [represents, delivers, NgHeader.item, Time.num]
    | legacy v =>
      cases c with
      | pkt num den data =>
        cases ev with
        | pkt ticks data' =>
          obtain ⟨hd, hi⟩ := hce
          simp only [keep, List.filter_cons, List.filterMap_cons, scale, if_true] at ih ⊢
          refine Zip.cons ⟨hd, ?_⟩ ih
          simp only [Time.num, LegacyVariant.unitsPerSecond] at hi ⊢
          have hdm : ((ticks / (if v.nano then 10 ^ 9 else 10 ^ 6 : Nat) : Nat) : Int) * ((if v.nano then 10 ^ 9 else 10 ^ 6 : Nat) : Int)
              + ((ticks % (if v.nano then 10 ^ 9 else 10 ^ 6 : Nat) : Nat) : Int) = (ticks : Int) := by
            have := Nat.div_add_mod ticks (if v.nano then 10 ^ 9 else 10 ^ 6)
            rw [Nat.mul_comm] at this
            exact_mod_cast this
          rw [hdm]; exact hi
        | dsb s => exact absurd hce (by simp [represents])
      | dsb s =>
        cases ev with
        | pkt t d => exact absurd hce (by simp [represents])
        | dsb s' =>
          simp only [keep, List.filter_cons, List.filterMap_cons, scale] at ih ⊢
          exact ih

/-- Two delivered items of the same capture packet denote the same instant: cross-multiplied equality of the two
    exact rationals `(offset·divisor + ticks)/divisor`. -/
theorem same_instant_any_two_variants (num den : Nat) (hden : 0 < den) (data : Bytes) (t₁ t₂ : Time) (d₁ d₂ : Bytes)
    (h₁ : delivers (.pkt num den data) (.pkt t₁ d₁)) (h₂ : delivers (.pkt num den data) (.pkt t₂ d₂)) :
    d₁ = d₂ ∧ Time.num t₁ * t₂.divisor = Time.num t₂ * t₁.divisor := by
  obtain ⟨e1, i1⟩ := h₁
  obtain ⟨e2, i2⟩ := h₂
  refine ⟨by rw [e1, e2], ?_⟩
  have hd : (den : Int) ≠ 0 := by omega
  apply Int.eq_of_mul_eq_mul_right hd
  calc Time.num t₁ * ↑t₂.divisor * ↑den = (Time.num t₁ * ↑den) * ↑t₂.divisor := by
        rw [Int.mul_assoc, Int.mul_comm (↑t₂.divisor) (↑den), ← Int.mul_assoc]
    _ = (↑num * ↑t₁.divisor) * ↑t₂.divisor := by rw [i1]
    _ = (↑num * ↑t₂.divisor) * ↑t₁.divisor := by
        rw [Int.mul_assoc, Int.mul_comm (↑t₁.divisor) (↑t₂.divisor), ← Int.mul_assoc]
    _ = (Time.num t₂ * ↑den) * ↑t₁.divisor := by rw [i2]
    _ = Time.num t₂ * ↑t₁.divisor * ↑den := by
        rw [Int.mul_assoc, Int.mul_comm (↑den) (↑t₁.divisor), ← Int.mul_assoc]

/-! ### the floating-point residue (stated, NOT proved; validated at run time) -/

/-- The claim the kernel does not prove: for every timestamp triple in the realistic domain (resolution 10^-k, k ≤ 9,
    or 2^-k, k ≤ 33; |offset| < 2^31 s; ticks/divisor < 2^31 s; instant in [0, 2^31) s and a whole number `k` of
    microseconds), Python's double
    `offset + ticks / float(divisor)` followed by dpkt's `round(ts * 1e6)` gives exactly `k` — hence the same
    microsecond in every container variant.  `harness/c12.py` executes `Time.toFloat`/`usOfFloat` bit for bit against
    CPython and samples this statement on adversarial instants on every run.  Outside this domain the claim is FALSE
    (found by that sampling): if_tsresol 10^-7, if_tsoffset −1000, ticks 21474846460834790 is the instant
    2147483646.083479 s but is exported as …480 µs, because the quotient exceeds 2^31 s where a double resolves 0.48 µs. -/
def ts_us_invariant_statement : Prop :=
  ∀ (t : Time) (k : Nat), t.decimal = false →
    ((∃ j, j ≤ 9 ∧ t.divisor = 10 ^ j) ∨ (∃ j, j ≤ 33 ∧ t.divisor = 2 ^ j)) →
    t.ticks < 2 ^ 64 → t.ticks < 2 ^ 31 * t.divisor → t.offset.natAbs < 2 ^ 31 → k < 2 ^ 31 * 10 ^ 6 →
    Time.num t * 10 ^ 6 = (k : Int) * t.divisor →
    usOfFloat t.toFloat = k

deriving instance DecidableEq for Except

/-! ### non-vacuity: concrete variants and events, every hypothesis satisfied, evaluated by the kernel -/

/-- big-endian, 2^-10 s resolution, offset −3 s, options and unrelated blocks everywhere, an obsolete PB -/
def exHdr : NgHeader :=
  { e := .be, shbOpts := ⟨[⟨1, [0x68, 0x69]⟩, ⟨4, [0x63, 0x31, 0x32]⟩], true⟩,
    preIdb := [nrb .be [(1, [10, 0, 0, 1, 0x68, 0])] {}],
    idbOptsBefore := [⟨2, [0x65, 0x74, 0x68, 0x30]⟩], tsresol := some (.bin 10), tsoffset := some (-3),
    idbOptsAfter := [⟨12, [0x4c]⟩] }

def exVariant : NgVariant :=
  { hdr := exHdr, afterIdb := [isb .be 0 7 {}],
    deco := fun i => { before := if i = 1 then [custom .be true 32473 [1, 2, 3] {}] else [],
                       usePb := i = 2, extraLen := i, opts := if i = 0 then ⟨[⟨1, [0x70]⟩], true⟩ else {} },
    atEnd := [spb .be 5 [9, 9, 9, 9, 9]] }

def exEvs : List Ev := [.pkt 4608 [0xde, 0xad, 0xbe], .dsb [0x43, 0x4c, 0x49], .pkt (2 ^ 40 + 1) []]

example : Container.read false (encode (.pcapng exVariant) exEvs) =
    .ok [.pkt ⟨4608, 1024, -3, false⟩ [0xde, 0xad, 0xbe], .dsb [0x43, 0x4c, 0x49], .pkt ⟨2 ^ 40 + 1, 1024, -3, false⟩ []] := by
  decide +kernel

example : (Variant.pcapng exVariant).WF exEvs := by
  refine ⟨by decide +kernel, by decide +kernel, by decide +kernel, by decide +kernel, ?_, by decide +kernel⟩
  intro i b hb
  simp only [exVariant] at hb
  split at hb
  · simp only [List.mem_singleton] at hb; subst hb; decide +kernel
  · cases hb

/-- little-endian nanosecond libpcap -/
def exLegacy : LegacyVariant := { e := .le, nano := true }

example : Container.read true (encode (.legacy exLegacy) exEvs) =
    .ok [.pkt ⟨4608, 10 ^ 9, 0, true⟩ [0xde, 0xad, 0xbe], .pkt ⟨(2 ^ 40 + 1) % 10 ^ 9, 10 ^ 9, 1099, true⟩ []] := by
  decide +kernel

example : (Variant.legacy exLegacy).WF exEvs := by
  refine ⟨by decide, by decide, by decide, by decide, by decide, ?_⟩
  simp only [exEvs, LegacyVariant.WFfrom, LegacyVariant.unitsPerSecond, exLegacy]
  decide

/-- the two containers above deliver the same instant for the first packet: 4608/1024 − 3 = 1.5 s = 1 500 000 000 ns …
    (legacy event written with the ticks of ITS variant) -/
example : delivers (.pkt 3 2 [0xde]) (.pkt ⟨4608, 1024, -3, false⟩ [0xde]) ∧
    delivers (.pkt 3 2 [0xde]) (.pkt ⟨500000000, 10 ^ 9, 1, true⟩ [0xde]) :=
  ⟨⟨rfl, by decide⟩, ⟨rfl, by decide⟩⟩

/-- malformed inputs are errors, not silent defaults: total length 3 (`read(-5)`), bad byte-order magic -/
example : Container.read false (encode (.pcapng {}) [] ++ enc .le 4 6 ++ enc .le 4 3) = .error .readNeg := by
  decide +kernel
example : Container.read false (enc .le 4 0x0A0D0D0A ++ List.replicate 24 0) = .error .endian := by decide +kernel

end TLX.Props.C12
