/-
C06, the BYTES — "the output is always a well-formed pcapng of well-formed, reassemblable packets".

`Props/C06.lean` proves that the abstract conversation `OutputBuilder.build` emits is reassemblable; this file proves
that what is WRITTEN for each abstract frame is right, byte for byte, for every frame and payload:

  model          `TLX/OutBytes.lean`: `serializeFrame` (scapy 2.7.0 on the four layer stacks the builders make),
                 `pcapng` / `fileOfFrames` (dpkt 1.9.8 `pcapng.Writer(file, snaplen=Gen.writerSnaplen)` + `writepkt`;
                 the snaplen literal is regenerated from the tree under test), tied to the
                 real libraries byte for byte by harness/ob_outbytes.py on every run;
  specifications `Spec/Rfc1071.lean` (receiver side of the Internet checksum, shared with C11), `Spec/FrameParse.lean`
                 (Ethernet II / RFC 791 / RFC 8200 / RFC 9293 / RFC 768 receiver checking every length field),
                 `Spec/Containers.lean` (the pcapng draft's ENCODER, shared with C12), `Spec/PcapngWalk.lean`
                 (the draft's general block structure as a checker), and the project's model of the tool's OWN reader
                 (`Container.read`, C12) and of its OWN `-c` test (`Checksum.check`, C11).

Hypotheses used below, and nothing else: `Frame.WF` — MAC addresses of 6 and IP addresses of 4 / 16 bytes (what dpkt's
dissection of the input hands to the builders) — and `serializeFrame f = .ok b` — scapy did serialise the frame, which
`serialize_ok_iff` characterises exactly: ports below 2^16, sequence/acknowledgement numbers below 2^32, and the IP
length field holds the length (IPv4: 20 + segment < 2^16; IPv6: segment < 2^16). Otherwise scapy raises and the run
dies in the write loop of main.py; the model then answers `.error`, never bytes.
-/
import TLX.Lemmas.OutBytes
import TLX.Props.C12
namespace TLX.Props.C06Bytes
open TLX TLX.OutBytes TLX.Lemmas.OutBytes TLX.Lemmas.OnesComplement
open TLX.Spec.Rfc1071 TLX.Spec.FrameParse

/-! ### scapy's checksum routine -/

/-- `scapy.utils.checksum` — host-order word sum, TWO folding steps, complement, byte swap — is the RFC 1071 checksum
    (the complement of the one's-complement sum of the big-endian 16-bit words) of every byte string of up to 131070
    bytes; every string the serialiser sums is shorter than 65536 + 40. (RFC 1071 §2(B): byte-order independence.) -/
theorem scapy_checksum_is_rfc1071 (b : Bytes) (h : b.length ≤ 131070) :
    OutBytes.checksum b = 0xFFFF - ocSum (words b) := by
  rw [checksum_eq b h, ocSum_eq_norm _ (words_le b), words_sum]

/-! ### when scapy serialises a frame -/

/-- `bytes(packet)` returns — instead of raising `ValueError` / `struct.error` — exactly when every fixed-width field
    holds its value. -/
theorem serialize_ok_iff (f : Frame) :
    (∃ b, serializeFrame f = .ok b) ↔
      f.src.port < 65536 ∧ f.dst.port < 65536 ∧
      (match f.l4 with
       | .tcp _ seq ack => seq < 4294967296 ∧ ack < 4294967296
       | .udp => True) ∧
      (if f.ipv6 then 0 else 20) +
        (match f.l4 with
         | .tcp .. => 20
         | .udp => 8) + f.payload.length < 65536 := by
  have hiff : Fits f ↔ (f.src.port < 65536 ∧ f.dst.port < 65536 ∧
      (match f.l4 with
       | .tcp _ seq ack => seq < 4294967296 ∧ ack < 4294967296
       | .udp => True) ∧
      (if f.ipv6 then 0 else 20) +
        (match f.l4 with
         | .tcp .. => 20
         | .udp => 8) + f.payload.length < 65536) := by
    unfold Fits l4Len OutBytes.L4.fieldsFit
    cases f.l4 <;> cases f.ipv6 <;> simp <;> omega
  rw [← hiff]
  rcases serialize_cases f with ⟨hf, he⟩ | ⟨hn, e, he⟩
  · exact ⟨fun _ => hf, fun _ => ⟨_, he⟩⟩
  · refine ⟨fun hb => ?_, fun hf => absurd hf hn⟩
    obtain ⟨b, hb⟩ := hb
    rw [he] at hb; cases hb

/-! ### the frame, read back by an independent receiver -/

/-- `parse_serialize`: the independent Ethernet/IP/TCP/UDP parser (every length field checked, no trailing bytes
    accepted) reads out of the serialised frame exactly the fields of the abstract frame — MAC addresses, IP version
    and addresses, ports, sequence and acknowledgement number, the flag bits, the payload — nothing lost, nothing
    added; plus the constants scapy fills in: TTL / hop limit 64, data offset 5, reserved bits 0 (bit 8 of an integer
    flags value would land there), window 8192, urgent pointer 0, no options. -/
theorem parse_serialize (f : Frame) (b : Bytes) (hwf : f.WF) (h : serializeFrame f = .ok b) :
    ∃ seg, parse b = some
      { dstMac := f.dstMac, srcMac := f.srcMac, v6 := f.ipv6, src := f.src.ip, dst := f.dst.ip, ttl := 64,
        sport := f.src.port, dport := f.dst.port,
        l4 := (match f.l4 with
          | .tcp flags seq ack => .tcp seq ack 5 (flags % 512 / 256) (flags % 256) 8192 0 []
          | .udp => .udp),
        segment := seg, payload := f.payload } := by
  obtain ⟨hfit, rfl⟩ := serialize_ok h
  exact ⟨segBytes f, parse_frameBytes f hwf hfit⟩

/-- … for the TLS export: a frame of `Pipeline` comes back as the same `OutPkt` (flags as the low eight bits). -/
theorem parse_serialize_outpkt (p : Pipeline.OutPkt) (b : Bytes) (hwf : (Frame.ofOutPkt p).WF) (hfl : p.flags < 256)
    (htcp : p.udp = false) (h : serialize p = .ok b) :
    ∃ q, parse b = some q ∧
      q.l4 = .tcp p.seq p.ack 5 0 p.flags 8192 0 [] ∧
      (⟨p.ts, q.srcMac, q.dstMac, ⟨q.src, q.sport⟩, ⟨q.dst, q.dport⟩, q.v6, p.flags, p.seq, p.ack, q.payload, false⟩
        : Pipeline.OutPkt) = p := by
  obtain ⟨seg, hp⟩ := parse_serialize _ b hwf h
  refine ⟨_, hp, ?_, ?_⟩
  · simp only [Frame.ofOutPkt, htcp, Bool.false_eq_true, if_false]
    rw [show p.flags % 512 / 256 = 0 by omega, show p.flags % 256 = p.flags by omega]
  · cases p; simp only [Frame.ofOutPkt] at *; subst htcp; rfl

/-! ### checksums -/

/-- The IPv4 header of every serialised IPv4 frame verifies: the one's-complement sum of the 20 bytes after the
    Ethernet header is all ones (RFC 1071 §1 "to check a checksum"; RFC 791 §3.1). -/
theorem ipv4_header_checksum_valid (f : Frame) (b : Bytes) (hwf : f.WF) (h : serializeFrame f = .ok b)
    (h4 : f.ipv6 = false) :
    ocSum (words ((b.drop 14).take 20)) = 0xFFFF := by
  obtain ⟨hfit, rfl⟩ := serialize_ok h
  have hs := hwf.src; have hd := hwf.dst
  rw [h4] at hs hd
  simp only [Bool.false_eq_true, if_false] at hs hd
  obtain ⟨_, _, h3, _, _⟩ := parse_ether f.dstMac f.srcMac 0x08 0x00 (ipBytes f) hwf.dstMac hwf.srcMac
  unfold frameBytes
  rw [h4]
  simp only [Bool.false_eq_true, if_false]
  rw [h3]
  unfold ipBytes
  rw [h4]
  simp only [Bool.false_eq_true, if_false]
  rw [List.take_left' (ipv4Header_length _ _ _ _ _ hs hd)]
  exact ipv4Header_valid _ _ _ _ hs hd

/-- The transport checksum of every serialised frame — TCP or UDP, over the IPv4 or the IPv6 pseudo-header, odd or
    even length, any payload — is accepted by the independent receiver: the segment the parser delimits gets the
    verdict `valid` of `Spec.Rfc1071` (UDP: never the all-zero "no checksum" field, a computed zero is sent as 0xFFFF). -/
theorem l4_checksum_valid (f : Frame) (b : Bytes) (hwf : f.WF) (h : serializeFrame f = .ok b) :
    ∃ p, parse b = some p ∧
      verdict (match f.l4 with
        | .tcp .. => .tcp
        | .udp => .udp) p.v6 p.src p.dst p.segment = .valid := by
  obtain ⟨hfit, rfl⟩ := serialize_ok h
  refine ⟨_, parse_frameBytes f hwf hfit, ?_⟩
  have := (l4_valid f hwf hfit).1
  simp only [expected]
  cases hl : f.l4 <;> rw [hl] at this <;> exact this

theorem tcp_checksum_valid (f : Frame) (b : Bytes) (flags seq ack : Nat) (hwf : f.WF) (h : serializeFrame f = .ok b)
    (ht : f.l4 = .tcp flags seq ack) :
    ∃ p, parse b = some p ∧ verdict .tcp p.v6 p.src p.dst p.segment = .valid := by
  obtain ⟨p, hp, hv⟩ := l4_checksum_valid f b hwf h
  rw [ht] at hv
  exact ⟨p, hp, hv⟩

theorem udp_checksum_valid (f : Frame) (b : Bytes) (hwf : f.WF) (h : serializeFrame f = .ok b) (hu : f.l4 = .udp) :
    ∃ p, parse b = some p ∧ verdict .udp p.v6 p.src p.dst p.segment = .valid := by
  obtain ⟨p, hp, hv⟩ := l4_checksum_valid f b hwf h
  rw [hu] at hv
  exact ⟨p, hp, hv⟩

/-- The tool's own `-c` accepts the tool's own output: `calculate_checksum_tcp` / `calculate_checksum_udp` (the C11
    model `Checksum.check`, given what dpkt would dissect from the frame) return `True` for every serialised frame. -/
theorem l4_check_accepts (f : Frame) (b : Bytes) (hwf : f.WF) (h : serializeFrame f = .ok b) :
    ∃ p, parse b = some p ∧
      Checksum.check (kOf f.l4) p.v6 p.src p.dst (kOf f.l4).num p.segment = .ok true := by
  obtain ⟨hfit, rfl⟩ := serialize_ok h
  exact ⟨_, parse_frameBytes f hwf hfit, (l4_valid f hwf hfit).2⟩

/-! ### length fields -/

/-- `length_fields_consistent`: in every serialised frame the frame is the 14-byte Ethernet header plus the IP
    datagram; IPv4: IHL 5 and Total Length = 20 + transport segment; IPv6: Payload Length = transport segment;
    TCP: Data Offset 5 and segment = 20 + payload; UDP: Length = 8 + payload = the segment the IP layer delimits.
    Offsets are those of RFC 791 / 8200 / 9293 / 768, read with the specification's field accessors. -/
theorem length_fields_consistent (f : Frame) (b : Bytes) (hwf : f.WF) (h : serializeFrame f = .ok b) :
    let ip := b.drop 14
    let hl := if f.ipv6 then 40 else 20
    let l4 := ip.drop hl
    b.length = 14 + ip.length ∧ ip.length = hl + l4.length ∧
    (f.ipv6 = false → u8 ip 0 % 16 = 5 ∧ u16 ip 2 = 20 + l4.length) ∧
    (f.ipv6 = true → u16 ip 4 = l4.length) ∧
    (match f.l4 with
     | .tcp .. => u8 l4 12 / 16 = 5 ∧ l4.length = 20 + f.payload.length
     | .udp => u16 l4 4 = 8 + f.payload.length ∧ l4.length = 8 + f.payload.length) := by
  obtain ⟨hfit, rfl⟩ := serialize_ok h
  obtain ⟨hsp, hdp, hff, hlen⟩ := hfit
  have hsl := segBytes_length f
  have hfl := frameBytes_length f hwf
  have hs := hwf.src; have hd := hwf.dst
  have hdrop : (frameBytes f).drop 14 = ipBytes f := by
    unfold frameBytes
    cases f.ipv6
    · exact (parse_ether f.dstMac f.srcMac 0x08 0x00 (ipBytes f) hwf.dstMac hwf.srcMac).2.2.1
    · exact (parse_ether f.dstMac f.srcMac 0x86 0xDD (ipBytes f) hwf.dstMac hwf.srcMac).2.2.1
  -- the transport header
  have hl4 : (match f.l4 with
     | .tcp .. => u8 (segBytes f) 12 / 16 = 5 ∧ (segBytes f).length = 20 + f.payload.length
     | .udp => u16 (segBytes f) 4 = 8 + f.payload.length ∧ (segBytes f).length = 8 + f.payload.length) := by
    unfold segBytes l4Len at *
    cases hl : f.l4 with
    | tcp fl s a =>
      rw [hl] at hsl
      simp only at hsl ⊢
      refine ⟨?_, hsl⟩
      have hb : fl % 512 / 256 < 2 := by omega
      unfold tcpHeader
      generalize fl % 512 / 256 = hi at *
      simp [Bytes.ofNatBE, u8]
      omega
    | udp =>
      rw [hl] at hsl hlen
      simp only at hsl hlen ⊢
      refine ⟨?_, hsl⟩
      simp [udpHeader, Bytes.ofNatBE, u8, u16]
      split at hlen <;> omega
  dsimp only
  rw [hdrop]
  cases hv : f.ipv6 with
  | false =>
    rw [hv] at hs hd hfl hlen
    simp only [Bool.false_eq_true, if_false] at hs hd hfl hlen ⊢
    have hip : ipBytes f = ipv4Header f.src.ip f.dst.ip f.l4.proto (20 + (segBytes f).length)
        (OutBytes.checksum (ipv4Header f.src.ip f.dst.ip f.l4.proto (20 + (segBytes f).length) 0)) ++ segBytes f := by
      unfold ipBytes; rw [hv]; rfl
    have hhl := ipv4Header_length f.src.ip f.dst.ip f.l4.proto (20 + (segBytes f).length)
        (OutBytes.checksum (ipv4Header f.src.ip f.dst.ip f.l4.proto (20 + (segBytes f).length) 0)) hs hd
    have hdrop2 : (ipBytes f).drop 20 = segBytes f := by rw [hip]; exact List.drop_left' hhl
    have hiplen : (ipBytes f).length = 20 + (segBytes f).length := by rw [hip, List.length_append, hhl]
    rw [hdrop2]
    refine ⟨by omega, hiplen, fun _ => ⟨?_, ?_⟩, (by intro hc; cases hc), hl4⟩
    · rw [hip]; simp [ipv4Header, u8]
    · rw [hip]; simp [ipv4Header, Bytes.ofNatBE, u8, u16]; omega
  | true =>
    rw [hv] at hs hd hfl hlen
    simp only [if_true] at hs hd hfl hlen ⊢
    have hip : ipBytes f = ipv6Header f.src.ip f.dst.ip f.l4.proto (segBytes f).length ++ segBytes f := by
      unfold ipBytes; rw [hv]; rfl
    have hhl : (ipv6Header f.src.ip f.dst.ip f.l4.proto (segBytes f).length).length = 40 := by
      simp [ipv6Header, ofNatBE_length, hs, hd]
    have hdrop2 : (ipBytes f).drop 40 = segBytes f := by rw [hip]; exact List.drop_left' hhl
    have hiplen : (ipBytes f).length = 40 + (segBytes f).length := by rw [hip, List.length_append, hhl]
    rw [hdrop2]
    refine ⟨by omega, hiplen, (by intro hc; cases hc), fun _ => ?_, hl4⟩
    rw [hip]; simp [ipv6Header, Bytes.ofNatBE, u8, u16]; omega

/-! ### the capture file -/
section
open TLX.Spec.Containers TLX.Spec.PcapngWalk
open TLX.Container (Item Time)

/-- a packet `writepkt` can write: the block length (32 + the frame padded to 32 bits) and the high half of the
    microsecond time stamp fit their 32-bit fields; otherwise dpkt raises `struct.error` -/
def Writable (p : Bytes × Nat) : Prop := 32 + p.1.length + (4 - p.1.length % 4) % 4 < 2 ^ 32 ∧ p.2 < 2 ^ 64

theorem writable_iff (p : Bytes × Nat) : Writable p ↔ PktFits p := by
  unfold Writable PktFits OutBytes.align4
  have e1 : (2 : Nat) ^ 32 = 4294967296 := by decide
  have e2 : (2 : Nat) ^ 64 = 4294967296 * 4294967296 := by decide
  rw [e1, e2]
  constructor
  · intro ⟨h1, h2⟩
    exact ⟨by split <;> omega, Nat.div_lt_of_lt_mul h2⟩
  · intro ⟨h1, h2⟩
    refine ⟨by split at h1 <;> omega, ?_⟩
    have := Nat.div_add_mod p.2 4294967296
    have := Nat.mod_lt p.2 (show 0 < 4294967296 by decide)
    omega

/-- `Writer(file, snaplen=Gen.writerSnaplen)` followed by `writepkt` for every packet returns (no `struct.error`) exactly when
    every packet is writable. -/
theorem pcapng_ok_iff (pkts : List (Bytes × Nat)) : (∃ f, pcapng pkts = .ok f) ↔ ∀ p ∈ pkts, Writable p := by
  by_cases h : ∀ p ∈ pkts, PktFits p
  · exact ⟨fun _ p hp => (writable_iff p).mpr (h p hp), fun _ => ⟨_, pcapng_eq pkts h⟩⟩
  · refine ⟨fun hf => ?_, fun hw => absurd (fun p hp => (writable_iff p).mp (hw p hp)) h⟩
    obtain ⟨f, hf⟩ := hf
    rw [pcapng_err pkts h] at hf; cases hf

/-- The file dpkt's writer leaves behind IS the pcapng draft's encoding (the independent encoder of
    `Spec/Containers`, C12) of the packets as events, in the variant `dpktVariant`: little endian, version 1.0, section
    length unspecified, no options anywhere, one Ethernet interface (snaplen `Gen.writerSnaplen`, default microsecond clock), one
    Enhanced Packet Block per packet on interface 0, original length = captured length. -/
theorem pcapng_is_draft_encoding (pkts : List (Bytes × Nat)) (f : Bytes) (h : pcapng pkts = .ok f) :
    f = encode (.pcapng dpktVariant) (pkts.map fun p => .pkt p.2 p.1) := by
  have hw := (pcapng_ok_iff pkts).mp ⟨f, h⟩
  rw [pcapng_eq pkts (fun p hp => (writable_iff p).mp (hw p hp))] at h
  exact (Except.ok.inj h).symm

/-- `pcapng_roundtrip`: the tool's OWN reader (`dpkt_dsb.Reader`, model `Container.read false`, C12) reads back from
    the written file exactly the frames, in order, each with its microsecond time stamp as the integer operands
    `(ticks = µs, divisor = 10^6, offset = 0)` of the one scaling expression — for every list of frames. -/
theorem pcapng_roundtrip (pkts : List (Bytes × Nat)) (f : Bytes) (h : pcapng pkts = .ok f) :
    Container.read false f = .ok (pkts.map fun p => Item.pkt ⟨p.2, 10 ^ 6, 0, false⟩ p.1) := by
  have hw := (pcapng_ok_iff pkts).mp ⟨f, h⟩
  have hfit : ∀ p ∈ pkts, PktFits p := fun p hp => (writable_iff p).mp (hw p hp)
  rw [pcapng_is_draft_encoding pkts f h]
  have := TLX.Props.C12.reader_roundtrip_pcapng dpktVariant (pkts.map evOf) (dpktVariant_wf pkts hfit)
  rw [show (pkts.map fun p => Ev.pkt p.2 p.1) = pkts.map evOf from rfl, this, List.map_map]
  rfl

/-- body of the Enhanced Packet Block the draft (§4.3) prescribes for a packet: interface 0, time stamp high / low,
    captured length, original length (the same), the data padded to 32 bits, no options -/
def epbBody (p : Bytes × Nat) : Bytes :=
  u32 .le 0 ++ (u32 .le (p.2 / 2 ^ 32) ++ (u32 .le (p.2 % 2 ^ 32) ++ (u32 .le p.1.length ++ (u32 .le p.1.length ++
    padded p.1))))

/-- the two length fields of an Enhanced Packet Block body (draft §4.3: Captured Packet Length at offset 12, Original
    Packet Length at offset 16) -/
theorem epbBody_lengths (p : Bytes × Nat) (h : p.1.length < 2 ^ 32) :
    Container.fld .le (epbBody p) 12 4 = p.1.length ∧ Container.fld .le (epbBody p) 16 4 = p.1.length := by
  have h256 : p.1.length < 256 ^ 4 := by rw [Lemmas.Container.pow_256_4]; exact h
  unfold epbBody
  constructor
  · rw [Lemmas.Container.fld_skip _ _ _ _ _ (by simp), Lemmas.Container.fld_skip _ _ _ _ _ (by simp),
      Lemmas.Container.fld_skip _ _ _ _ _ (by simp)]
    simp only [Lemmas.Container.enc_length]
    exact Lemmas.Container.fld_enc_here _ _ _ _ h256
  · rw [Lemmas.Container.fld_skip _ _ _ _ _ (by simp), Lemmas.Container.fld_skip _ _ _ _ _ (by simp),
      Lemmas.Container.fld_skip _ _ _ _ _ (by simp), Lemmas.Container.fld_skip _ _ _ _ _ (by simp)]
    simp only [Lemmas.Container.enc_length]
    exact Lemmas.Container.fld_enc_here _ _ _ _ h256

/-- `pcapng_wellformed`: the written file is a sequence of blocks in the draft's general block structure that tile
    it exactly (`walk`: every Block Total Length ≥ 12, a multiple of 4, within the file, equal to its trailing copy; no
    stray bytes): a Section Header Block (byte-order magic 0x1A2B3C4D, version 1.0, section length −1), ONE
    Interface Description Block (link type 1 = Ethernet, the snaplen of the source, no options: microsecond time stamps), then one
    Enhanced Packet Block per frame, in order, on interface 0 — the interface that was described; and in each of them
    the Captured Packet Length and the Original Packet Length fields (block body offsets 12 and 16) both read the length
    of the frame: the writer neither truncates nor pads what it counts. (That the captured length also respects the
    announced snaplen is `caplen_le_snaplen`.) -/
theorem pcapng_wellformed (pkts : List (Bytes × Nat)) (f : Bytes) (h : pcapng pkts = .ok f) :
    walk f = some (
      (0x0A0D0D0A, u32 .le 0x1A2B3C4D ++ (u16 .le 1 ++ (u16 .le 0 ++ u64 .le (2 ^ 64 - 1)))) ::
      (1, u16 .le 1 ++ (u16 .le 0 ++ u32 .le Gen.writerSnaplen)) ::
      pkts.map fun p => (6, epbBody p)) ∧
    ∀ p ∈ pkts, Container.fld .le (epbBody p) 12 4 = p.1.length ∧ Container.fld .le (epbBody p) 16 4 = p.1.length := by
  have hw := (pcapng_ok_iff pkts).mp ⟨f, h⟩
  refine ⟨?_, fun p hp => epbBody_lengths p (by have := (hw p hp).1; omega)⟩
  have hfit : ∀ p ∈ pkts, PktFits p := fun p hp => (writable_iff p).mp (hw p hp)
  rw [pcapng_is_draft_encoding pkts f h]
  have hwf := dpktVariant_wf pkts hfit
  have henc : encode (.pcapng dpktVariant) (pkts.map fun p => Ev.pkt p.2 p.1) =
      encBlocks .le (dpktVariant.hdr.shb :: dpktVariant.hdr.idb :: (pkts.map evOf).map (Ev.block {})) := by
    simp only [encode, encodeNg, NgVariant.blocks, encBlocks]
    simp [dpktVariant, encBlocks, weave_default]
    rfl
  rw [henc, walk_blocks]
  · simp only [List.map_cons, List.map_map]
    refine congrArg some (List.cons_eq_cons.mpr ⟨by decide +kernel, List.cons_eq_cons.mpr ⟨by decide +kernel, ?_⟩⟩)
    apply List.map_congr_left
    intro p hp
    have hmod : (u32 .le 0 ++ (u32 .le (p.2 / 2 ^ 32) ++ (u32 .le (p.2 % 2 ^ 32) ++
        (u32 .le p.1.length ++ u32 .le (p.1.length + 0)))) ++ (padded p.1 ++ encOpts .le {})).length % 4 = 0 := by
      simp only [List.length_append, Spec.Containers.u32, Lemmas.Container.enc_length, Lemmas.Container.padded_length,
        Lemmas.Container.encOpts_length]
      have := Lemmas.Container.align4_mod p.1.length
      simp [Opts.encLen, optListLen]
      omega
    simp only [Function.comp, evOf, Ev.block, Bool.false_eq_true, if_false, Lemmas.Container.bTy, Block.typeCode,
      Lemmas.Container.bBody]
    rw [Lemmas.Container.padded_of_mod _ hmod]
    simp [epbBody, encOpts, encOptList, List.append_assoc]
  · intro b hb
    simp only [List.mem_cons, List.mem_map] at hb
    rcases hb with rfl | rfl | ⟨ev, ⟨p, hp, rfl⟩, rfl⟩
    · exact hwf.1.2.2.2.1
    · exact hwf.1.2.2.2.2.2.2.2.2.2.2.2
    · exact epbBlock_wf p (hfit p hp)

/-! ### the whole write loop of main.py -/

/-- The export is written — no exception in `bytes(buf)` or `writepkt` — exactly when every frame is serialisable and
    its time stamp fits 64 bits of microseconds (a serialisable frame always fits an Enhanced Packet Block). -/
theorem fileOf_ok_iff (fs : List Frame) (hwf : ∀ f ∈ fs, f.WF) :
    (∃ file, fileOfFrames fs = .ok file) ↔ ∀ f ∈ fs, (∃ b, serializeFrame f = .ok b) ∧ f.ts < 2 ^ 64 := by
  constructor
  · intro hf
    obtain ⟨file, hf⟩ := hf
    intro f hfm
    obtain ⟨hfit, hp⟩ := fileOfFrames_ok fs file hf f hfm
    refine ⟨?_, ((writable_iff _).mpr hp).2⟩
    rcases serialize_cases f with ⟨_, he⟩ | ⟨hn, _⟩
    · exact ⟨_, he⟩
    · exact absurd hfit hn
  · intro h
    have hall : ∀ f ∈ fs, Fits f ∧ PktFits (frameBytes f, f.ts) := by
      intro f hfm
      obtain ⟨hb, hts⟩ := h f hfm
      obtain ⟨b, hb⟩ := hb
      have hfit := (serialize_ok hb).1
      exact ⟨hfit, pktFits_of_fits f (hwf f hfm) hfit hts⟩
    rw [fileOfFrames_eq fs hall]
    exact ⟨_, pcapng_eq _ (by
      intro p hp
      simp only [List.mem_map] at hp
      obtain ⟨f, hfm, rfl⟩ := hp
      exact (hall f hfm).2)⟩

theorem zip_self {α : Type} (l : List α) : l.zip l = l.map fun a => (a, a) := by
  induction l with
  | nil => rfl
  | cons a l ih => simp [ih]

/-- `fileOf_roundtrip` — C06 for the bytes, end to end: whenever the export is written, the tool's own reader reads
    back one packet per exported frame, in order, with the frame's microsecond time stamp, and the bytes of each
    packet are a frame the independent parser decodes to exactly the abstract frame's fields, with a transport
    checksum the independent receiver accepts. -/
theorem fileOf_roundtrip (fs : List Frame) (file : Bytes) (hwf : ∀ f ∈ fs, f.WF) (h : fileOfFrames fs = .ok file) :
    ∃ bs : List Bytes, bs.length = fs.length ∧
      Container.read false file = .ok ((fs.zip bs).map fun fb => Item.pkt ⟨fb.1.ts, 10 ^ 6, 0, false⟩ fb.2) ∧
      ∀ fb ∈ fs.zip bs, serializeFrame fb.1 = .ok fb.2 ∧
        ∃ p, parse fb.2 = some p ∧ p.srcMac = fb.1.srcMac ∧ p.dstMac = fb.1.dstMac ∧ p.v6 = fb.1.ipv6 ∧
          p.src = fb.1.src.ip ∧ p.dst = fb.1.dst.ip ∧ p.sport = fb.1.src.port ∧ p.dport = fb.1.dst.port ∧
          p.payload = fb.1.payload ∧
          verdict (match fb.1.l4 with
            | .tcp .. => .tcp
            | .udp => .udp) p.v6 p.src p.dst p.segment = .valid := by
  have hall := fileOfFrames_ok fs file h
  refine ⟨fs.map frameBytes, by simp, ?_, ?_⟩
  · rw [fileOfFrames_eq fs hall] at h
    rw [pcapng_roundtrip _ file h, List.map_map, List.zip_map_right, List.map_map]
    congr 1
    rw [zip_self, List.map_map]
    rfl
  · intro fb hfb
    have hmem : fb.1 ∈ fs ∧ fb.2 = frameBytes fb.1 := by
      rw [List.zip_map_right, zip_self, List.map_map] at hfb
      simp only [List.mem_map, Function.comp] at hfb
      obtain ⟨f, hf, rfl⟩ := hfb
      exact ⟨hf, rfl⟩
    obtain ⟨hm, hb⟩ := hmem
    have hfit := (hall fb.1 hm).1
    have hser : serializeFrame fb.1 = .ok fb.2 := by
      rcases serialize_cases fb.1 with ⟨_, he⟩ | ⟨hn, _⟩
      · rw [he, hb]
      · exact absurd hfit hn
    refine ⟨hser, ?_⟩
    obtain ⟨p, hp, hv⟩ := l4_checksum_valid fb.1 fb.2 (hwf _ hm) hser
    obtain ⟨seg, hp'⟩ := parse_serialize fb.1 fb.2 (hwf _ hm) hser
    rw [hp] at hp'
    have := Option.some.inj hp'
    subst this
    exact ⟨_, hp, rfl, rfl, rfl, rfl, rfl, rfl, rfl, rfl, hv⟩


/-- … for the TLS export of `Pipeline` (`fileOf`): the reader gets back one packet per `OutPkt`, in order, at its time. -/
theorem fileOf_roundtrip_outpkts (pkts : List Pipeline.OutPkt) (file : Bytes)
    (hwf : ∀ p ∈ pkts, (Frame.ofOutPkt p).WF) (h : fileOf pkts = .ok file) :
    ∃ bs : List Bytes, bs.length = pkts.length ∧
      Container.read false file = .ok ((pkts.zip bs).map fun pb => Item.pkt ⟨pb.1.ts, 10 ^ 6, 0, false⟩ pb.2) ∧
      ∀ pb ∈ pkts.zip bs, serialize pb.1 = .ok pb.2 := by
  obtain ⟨bs, hlen, hread, hall⟩ := fileOf_roundtrip (pkts.map Frame.ofOutPkt) file
    (by intro f hf; simp only [List.mem_map] at hf; obtain ⟨p, hp, rfl⟩ := hf; exact hwf p hp) h
  refine ⟨bs, by simpa using hlen, ?_, ?_⟩
  · rw [hread, List.zip_map_left, List.map_map]; rfl
  · intro pb hpb
    have : (Frame.ofOutPkt pb.1, pb.2) ∈ (pkts.map Frame.ofOutPkt).zip bs := by
      rw [List.zip_map_left]
      exact List.mem_map.mpr ⟨pb, hpb, rfl⟩
    exact (hall _ this).1

/-! ### the announced snaplen -/

/-- `frame_length_bound`: no frame scapy serialises for the builders is longer than 14 + 40 + 65535 = 65589 bytes (an
    IPv6 frame whose payload length field is full; an IPv4 frame is at most 14 + 65535). -/
theorem frame_length_bound (f : Frame) (b : Bytes) (hwf : f.WF) (h : serializeFrame f = .ok b) : b.length ≤ 65589 := by
  obtain ⟨hfit, rfl⟩ := serialize_ok h
  rw [frameBytes_length f hwf]
  obtain ⟨_, _, _, hl⟩ := hfit
  split at hl <;> simp_all <;> omega

/-- the proof obligation on the tree under test: the snaplen the tool announces (`Gen.writerSnaplen`, REGENERATED from
    `dpkt.pcapng.Writer(file, snaplen=…)` in `run()`) is not below the longest frame it can write. With the literal
    20000 of the unrepaired source this `decide` fails, and with it the check of C06. -/
theorem snaplen_covers_every_frame : 65589 ≤ Gen.writerSnaplen := by decide

/-- `caplen_le_snaplen`: in every file the program writes, the Captured Packet Length of every Enhanced Packet Block
    is at most the SnapLen of the Interface Description Block it refers to (draft §4.3: "the minimum value among the
    Original Packet Length and the snapshot length") — and equals the Original Packet Length: nothing is cut. -/
theorem caplen_le_snaplen (fs : List Frame) (file : Bytes) (hwf : ∀ f ∈ fs, f.WF) (h : fileOfFrames fs = .ok file) :
    ∃ (snaplenField : Bytes) (epbs : List Bytes),
      walk file = some (
        (0x0A0D0D0A, u32 .le 0x1A2B3C4D ++ (u16 .le 1 ++ (u16 .le 0 ++ u64 .le (2 ^ 64 - 1)))) ::
        (1, u16 .le 1 ++ (u16 .le 0 ++ snaplenField)) :: epbs.map fun body => (6, body)) ∧
      epbs.length = fs.length ∧
      Container.rdNat .le snaplenField = Gen.writerSnaplen ∧
      ∀ body ∈ epbs, Container.fld .le body 12 4 ≤ Gen.writerSnaplen ∧
        Container.fld .le body 12 4 = Container.fld .le body 16 4 := by
  have hall := fileOfFrames_ok fs file h
  rw [fileOfFrames_eq fs hall] at h
  obtain ⟨hwalk, hlen⟩ := pcapng_wellformed _ file h
  refine ⟨u32 .le Gen.writerSnaplen, (fs.map fun f => (frameBytes f, f.ts)).map epbBody, ?_, by simp, ?_, ?_⟩
  · rw [hwalk]; simp only [List.map_map]; rfl
  · exact Lemmas.Container.rd_u32 _ _ (by decide)
  · intro body hb
    simp only [List.mem_map] at hb
    obtain ⟨p, ⟨f, hf, rfl⟩, rfl⟩ := hb
    obtain ⟨h12, h16⟩ := hlen _ (List.mem_map.mpr ⟨f, hf, rfl⟩)
    rw [h12, h16]
    refine ⟨?_, rfl⟩
    have hser : serializeFrame f = .ok (frameBytes f) := by
      rcases serialize_cases f with ⟨_, he⟩ | ⟨hn, _⟩
      · exact he
      · exact absurd (hall f hf).1 hn
    exact Nat.le_trans (frame_length_bound f _ (hwf f hf) hser) snaplen_covers_every_frame

/-- The defect this guards against, as it was: the source announced snaplen 20000, and dpkt neither clips nor refuses
    longer packets. A QUIC export of 30000 bytes of stream data in one datagram over IPv4 (`QUICOutputbuilder`) is a
    30042-byte frame, serialisable and writable, whose Enhanced Packet Block has Captured Packet Length 30042 > 20000:
    not a valid pcapng (found by the strict reader of the harness on the real tool's output). -/
theorem legacy_snaplen_exceeded (f : Frame) (hwf : f.WF) (h4 : f.ipv6 = false) (hu : f.l4 = .udp)
    (hsp : f.src.port < 65536) (hdp : f.dst.port < 65536) (hpay : f.payload.length = 30000) (hts : f.ts < 2 ^ 64) :
    ∃ b, serializeFrame f = .ok b ∧ Writable (b, f.ts) ∧
      Container.fld .le (epbBody (b, f.ts)) 12 4 = 30042 ∧ (20000 : Nat) < 30042 := by
  have hfit : Fits f := by
    refine ⟨hsp, hdp, by rw [hu]; rfl, ?_⟩
    unfold l4Len; rw [hu, h4, hpay]; decide
  have hser : serializeFrame f = .ok (frameBytes f) := by
    rcases serialize_cases f with ⟨_, he⟩ | ⟨hn, _⟩
    · exact he
    · exact absurd hfit hn
  have hlen : (frameBytes f).length = 30042 := by
    rw [frameBytes_length f hwf]; unfold l4Len; rw [hu, h4, hpay]; rfl
  refine ⟨_, hser, (writable_iff _).mpr (pktFits_of_fits f hwf hfit hts), ?_, by decide⟩
  have := (epbBody_lengths (frameBytes f, f.ts) (by simp only [hlen]; decide)).1
  rw [this, hlen]

end

/-! ### non-vacuity: concrete frames and files (the expected bytes are what scapy 2.7.0 / dpkt 1.9.8 produced) -/
section
open TLX.Spec.PcapngWalk
open TLX.Container (Item)

/-- `Ether(02:…:01 → 02:…:02)/IP(10.0.0.1 → 10.0.0.2)/TCP(1234 → 80, "PA", seq 5, ack 7)/Raw(b"abc")`: odd payload -/
def exTcp4 : Frame :=
  ⟨1500000, [2, 0, 0, 0, 0, 1], [2, 0, 0, 0, 0, 2], ⟨[10, 0, 0, 1], 1234⟩, ⟨[10, 0, 0, 2], 80⟩, false, .tcp 0x18 5 7,
    [0x61, 0x62, 0x63]⟩

def exTcp4Bytes : Bytes :=
  [0x02, 0x00, 0x00, 0x00, 0x00, 0x02, 0x02, 0x00, 0x00, 0x00, 0x00, 0x01, 0x08, 0x00, 0x45, 0x00, 0x00, 0x2b, 0x00,
   0x01, 0x00, 0x00, 0x40, 0x06, 0x66, 0xca, 0x0a, 0x00, 0x00, 0x01, 0x0a, 0x00, 0x00, 0x02, 0x04, 0xd2, 0x00, 0x50,
   0x00, 0x00, 0x00, 0x05, 0x00, 0x00, 0x00, 0x07, 0x50, 0x18, 0x20, 0x00, 0xb2, 0x36, 0x00, 0x00, 0x61, 0x62, 0x63]

/-- `Ether/IPv6(fe80::2 → fe80::1)/UDP(8080 → 40000)/Raw(b"hello")` -/
def exUdp6 : Frame :=
  ⟨1700000000000001, [2, 0, 0, 0, 0, 2], [2, 0, 0, 0, 0, 1], ⟨[0xfe, 0x80, 0, 0, 0, 0, 0, 0, 0, 0, 0, 0, 0, 0, 0, 2], 8080⟩,
    ⟨[0xfe, 0x80, 0, 0, 0, 0, 0, 0, 0, 0, 0, 0, 0, 0, 0, 1], 40000⟩, true, .udp, [0x68, 0x65, 0x6c, 0x6c, 0x6f]⟩

def exUdp6Bytes : Bytes :=
  [0x02, 0x00, 0x00, 0x00, 0x00, 0x01, 0x02, 0x00, 0x00, 0x00, 0x00, 0x02, 0x86, 0xdd, 0x60, 0x00, 0x00, 0x00, 0x00,
   0x0d, 0x11, 0x40, 0xfe, 0x80, 0x00, 0x00, 0x00, 0x00, 0x00, 0x00, 0x00, 0x00, 0x00, 0x00, 0x00, 0x00, 0x00, 0x02,
   0xfe, 0x80, 0x00, 0x00, 0x00, 0x00, 0x00, 0x00, 0x00, 0x00, 0x00, 0x00, 0x00, 0x00, 0x00, 0x01, 0x1f, 0x90, 0x9c,
   0x40, 0x00, 0x0d, 0x03, 0x2d, 0x68, 0x65, 0x6c, 0x6c, 0x6f]

/-- what `Writer(file, snaplen=N)`, `writepkt(exTcp4Bytes, 1.5)`, `writepkt(exUdp6Bytes, 1700000000.000001)` wrote (measured
    with N = 20000 and N = 262144: only the four snaplen bytes differ) -/
def exFile : Bytes :=
  [0x0a, 0x0d, 0x0d, 0x0a, 0x1c, 0x00, 0x00, 0x00, 0x4d, 0x3c, 0x2b, 0x1a, 0x01, 0x00, 0x00, 0x00, 0xff, 0xff, 0xff,
   0xff, 0xff, 0xff, 0xff, 0xff, 0x1c, 0x00, 0x00, 0x00, 0x01, 0x00, 0x00, 0x00, 0x14, 0x00, 0x00, 0x00, 0x01, 0x00,
   0x00, 0x00] ++ Spec.Containers.u32 .le Gen.writerSnaplen ++ [0x14, 0x00, 0x00, 0x00, 0x06, 0x00, 0x00, 0x00, 0x5c, 0x00, 0x00, 0x00, 0x00,
   0x00, 0x00, 0x00, 0x00, 0x00, 0x00, 0x00, 0x60, 0xe3, 0x16, 0x00, 0x39, 0x00, 0x00, 0x00, 0x39, 0x00, 0x00, 0x00,
   0x02, 0x00, 0x00, 0x00, 0x00, 0x02, 0x02, 0x00, 0x00, 0x00, 0x00, 0x01, 0x08, 0x00, 0x45, 0x00, 0x00, 0x2b, 0x00,
   0x01, 0x00, 0x00, 0x40, 0x06, 0x66, 0xca, 0x0a, 0x00, 0x00, 0x01, 0x0a, 0x00, 0x00, 0x02, 0x04, 0xd2, 0x00, 0x50,
   0x00, 0x00, 0x00, 0x05, 0x00, 0x00, 0x00, 0x07, 0x50, 0x18, 0x20, 0x00, 0xb2, 0x36, 0x00, 0x00, 0x61, 0x62, 0x63,
   0x00, 0x00, 0x00, 0x5c, 0x00, 0x00, 0x00, 0x06, 0x00, 0x00, 0x00, 0x64, 0x00, 0x00, 0x00, 0x00, 0x00, 0x00, 0x00,
   0x24, 0x0a, 0x06, 0x00, 0x01, 0x40, 0x1e, 0x18, 0x43, 0x00, 0x00, 0x00, 0x43, 0x00, 0x00, 0x00, 0x02, 0x00, 0x00,
   0x00, 0x00, 0x01, 0x02, 0x00, 0x00, 0x00, 0x00, 0x02, 0x86, 0xdd, 0x60, 0x00, 0x00, 0x00, 0x00, 0x0d, 0x11, 0x40,
   0xfe, 0x80, 0x00, 0x00, 0x00, 0x00, 0x00, 0x00, 0x00, 0x00, 0x00, 0x00, 0x00, 0x00, 0x00, 0x02, 0xfe, 0x80, 0x00,
   0x00, 0x00, 0x00, 0x00, 0x00, 0x00, 0x00, 0x00, 0x00, 0x00, 0x00, 0x00, 0x01, 0x1f, 0x90, 0x9c, 0x40, 0x00, 0x0d,
   0x03, 0x2d, 0x68, 0x65, 0x6c, 0x6c, 0x6f, 0x00, 0x64, 0x00, 0x00, 0x00]

example : exTcp4.WF ∧ exUdp6.WF := by decide
example : serializeFrame exTcp4 = .ok exTcp4Bytes := by decide +kernel
example : serializeFrame exUdp6 = .ok exUdp6Bytes := by decide +kernel
example : fileOfFrames [exTcp4, exUdp6] = .ok exFile := by decide +kernel
example : pcapng [(exTcp4Bytes, 1500000), (exUdp6Bytes, 1700000000000001)] = .ok exFile := by decide +kernel
example : Writable (exTcp4Bytes, 1500000) := by unfold Writable; decide
/-- the hypotheses of `parse_serialize`, `l4_checksum_valid`, `ipv4_header_checksum_valid`, `length_fields_consistent`
    hold for these frames, and the conclusions can be watched -/
example : (parse exTcp4Bytes).map (fun p => (p.sport, p.dport, p.l4, p.payload)) =
    some (1234, 80, .tcp 5 7 5 0 0x18 8192 0 [], [0x61, 0x62, 0x63]) := by decide +kernel
example : ocSum (words ((exTcp4Bytes.drop 14).take 20)) = 0xFFFF := by decide +kernel
example : verdict .udp true exUdp6.src.ip exUdp6.dst.ip (exUdp6Bytes.drop 54) = .valid := by decide +kernel
example : Container.read false exFile =
    .ok [.pkt ⟨1500000, 10 ^ 6, 0, false⟩ exTcp4Bytes, .pkt ⟨1700000000000001, 10 ^ 6, 0, false⟩ exUdp6Bytes] := by decide +kernel
example : (walk exFile).map (·.map (·.1)) = some [0x0A0D0D0A, 1, 6, 6] := by decide +kernel
/-- what scapy cannot serialise is an error, not bytes: a port that does not fit (ValueError), an IPv4 total length
    above 65535 (struct.error) — while the same segment still fits IPv6 —, a time stamp of 2^64 µs (struct.error) -/
example : serializeFrame { exTcp4 with src := ⟨[10, 0, 0, 1], 65536⟩ } = .error .value := by decide +kernel
example : serializeFrame { exTcp4 with l4 := .tcp 0x18 4294967296 0 } = .error .value := by decide +kernel
example (pay : Bytes) (h : pay.length = 65496) : ¬ ∃ b, serializeFrame { exTcp4 with payload := pay } = .ok b := by
  rw [serialize_ok_iff]; simp only [exTcp4, h]; simp
example (pay : Bytes) (h : pay.length = 65515) :
    ∃ b, serializeFrame { exUdp6 with l4 := .tcp 0x18 1 1, payload := pay } = .ok b := by
  rw [serialize_ok_iff]; simp only [exUdp6, h]; simp
example : pcapng [(exTcp4Bytes, 2 ^ 64)] = .error .struct := by decide +kernel
end

end TLX.Props.C06Bytes
