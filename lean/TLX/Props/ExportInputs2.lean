/-
Renumbering of packet tags, and the literal file-to-file forms of C09 / C11 / C03 / C08 that need it.

`Pkt.tag` is the position of the packet in the capture (`Ingest`). Adding or removing blocks renumbers the packets behind
them. `Lemmas/TagNat`: NO part of the program compares tags (reassembly carries them into the carrier lists, the session
stores them, `Session.decrypt()` and the QUIC machine read `info tag`), so for ANY function `ρ` — neither injective nor
monotone — the run on retagged items with table `info'` is the run on the original items with `info' ∘ ρ`.

1. `framesFrom_retag`, `framesFrom_info_congr`, `framesFrom_alike` / `tlsFrames_alike`: item lists that are position by
   position alike up to the frames' tags, with tables that say the same about corresponding frames, give the same run
   (proved through the canonical renumbering `renum`; nothing is assumed about either list's tags).
2. the read loop item by item (`one`, `go_cons`), `go_filter` (a capture with reader items removed), `go_shift`.
3. C09  `export_key_delivery_files` (any numbers of secrets blocks in front, TLS + QUIC), `export_key_delivery_files_tls`
        (TLS-only captures: blocks anywhere between the same packet blocks)
   C11  `export_checksum_filter_reader`, `export_checksum_filter_file` (`-c` on the file = no `-c` on the file re-encoded
        without the rejected frames, any container variant; hypothesis: the `-c` run reads the capture to the end)
   C03  `export_bystander_unaffected_file`, `export_bystander_unaffected_encoded` (TLS bystanders)
   C08  `read_cut`, `export_cut_prefix_tls_file` (the reader hypotheses of `ExportProps.export_cut_prefix_tls_ingest`
        discharged from the encoder, both containers)
   Replayed on the real tool: harness/export_inputs2_replay.py.
-/
import TLX.Lemmas.TagNat
import TLX.Props.ExportInputs
set_option linter.unusedSimpArgs false
namespace TLX.Props.ExportInputs2
open TLX TLX.MainLoop TLX.Export TLX.Spec.Demux TLX.Lemmas.ExportProps TLX.Lemmas.MainLoop TLX.Lemmas.TagNat
open TLX.Props.ExportInputs
open TLX.Spec.Containers (Zip)

variable (mask : Quic.Dissect.MaskFn) (H : Crypto.Prims) (P : Cipher.Prims)

-- ====================================================================== 1. naturality of the whole run
section Nat

theorem argsC_self (args : Args) : argsC args args.checksumTest = args := rfl

/-- an unusable `-p` / `-m`: the run stops with the same message whatever the capture -/
theorem framesFrom_bad (prior : Export.Prior) (args : Args) (ho : optsOf args = none) :
    ∃ e, ∀ fk xs inf, framesFrom mask H P prior args fk xs inf = .error e := by
  obtain ⟨e, he⟩ := framesFrom_badOpts mask H P prior args none [] ho
  exact ⟨e, fun fk xs inf => by have := he args.checksumTest fk xs inf; rwa [argsC_self] at this⟩

/-- **Naturality of `run()` under renaming of tags.** For ANY function `ρ` on tags (nothing about order or injectivity
    is needed: no part of the program compares tags): the items with their tags renamed by `ρ` and the table `info'` give
    what the original items give with the table `info' ∘ ρ`. -/
theorem framesFrom_retag (ρ : Nat → Nat) (info' : Nat → Pipeline.Info) (prior : Export.Prior) (args : Args)
    (fk : Option (List Keylog.Key)) (xs : List (Item Keylog.Key)) :
    framesFrom mask H P prior args fk (xs.map (itemRetag ρ)) info' =
      framesFrom mask H P prior args fk xs (info' ∘ ρ) := by
  cases ho : optsOf args with
  | none =>
    obtain ⟨e, he⟩ := framesFrom_bad mask H P prior args ho
    rw [he, he]
  | some o =>
    rw [framesFrom_explicit mask H P info' prior args fk _ o ho,
      framesFrom_explicit mask H P (info' ∘ ρ) prior args fk _ o ho, tlsFrames_nat]
    congr 2
    unfold quicFrames
    rw [quicView_retag, quicRun_nat]
    rfl

/-- the tables are read at the tags of the capture's frames only -/
theorem quicHandleH_info_congr (info₁ info₂ : Nat → Pipeline.Info) (o : Opts) (kl : List Keylog.Key) (h : Hdr)
    (ss : List (QuicSess QuicPipeline.QConn)) (p : Pkt) (hp : info₁ p.tag = info₂ p.tag) :
    quicHandleH (QuicPipeline.quicMachine mask H P info₁) o kl h ss p =
      quicHandleH (QuicPipeline.quicMachine mask H P info₂) o kl h ss p := by
  unfold quicHandleH
  split
  · rfl
  · induction ss with
    | nil => simp only [quicLoop, quicNew, QuicPipeline.quicMachine, hp]
    | cons s rest ih =>
      simp only [quicLoop]
      have ht : quicTake (QuicPipeline.quicMachine mask H P info₁) h p s =
          quicTake (QuicPipeline.quicMachine mask H P info₂) h p s := rfl
      rw [ht, ih]
      simp only [QuicPipeline.quicMachine, hp]

theorem mem_quicView_frame (o : Opts) (xs : List (Item Keylog.Key)) :
    ∀ kl x, x ∈ quicView o kl xs → Item.frame x.p ∈ xs := by
  induction xs with
  | nil => intro kl x hx; simp [quicView] at hx
  | cons it xs ih =>
    intro kl x hx
    simp only [quicView] at hx
    cases hc : classify o it with
    | keys ks => rw [hc] at hx; exact List.mem_cons_of_mem _ (ih _ x hx)
    | tls q => rw [hc] at hx; exact List.mem_cons_of_mem _ (ih _ x hx)
    | ignore w => rw [hc] at hx; exact List.mem_cons_of_mem _ (ih _ x hx)
    | quic q b0 r =>
      rw [hc] at hx
      simp only [List.mem_cons] at hx
      rcases hx with rfl | hx
      · have := Lemmas.Export.classify_quic o it q b0 r hc
        simp only [this.1]; simp
      · exact List.mem_cons_of_mem _ (ih _ x hx)

theorem quicRun_info_congr (info₁ info₂ : Nat → Pipeline.Info) (o : Opts) (X : List (QIn Keylog.Key))
    (h : ∀ x ∈ X, info₁ x.p.tag = info₂ x.p.tag) :
    ∀ ss, quicRun (QuicPipeline.quicMachine mask H P info₁) o ss X =
      quicRun (QuicPipeline.quicMachine mask H P info₂) o ss X := by
  induction X with
  | nil => intro ss; rfl
  | cons x X ih =>
    intro ss
    simp only [quicRun, List.foldl_cons] at ih ⊢
    rw [quicHandleH_info_congr mask H P info₁ info₂ o x.kl x.h ss x.p (h x (by simp))]
    exact ih (fun y hy => h y (by simp [hy])) _

/-- two tables that agree at the tags of the capture's frames give the same run -/
theorem framesFrom_info_congr (info₁ info₂ : Nat → Pipeline.Info) (prior : Export.Prior) (args : Args)
    (fk : Option (List Keylog.Key)) (xs : List (Item Keylog.Key))
    (h : ∀ p, Item.frame p ∈ xs → info₁ p.tag = info₂ p.tag) :
    framesFrom mask H P prior args fk xs info₁ = framesFrom mask H P prior args fk xs info₂ := by
  cases ho : optsOf args with
  | none =>
    obtain ⟨e, he⟩ := framesFrom_bad mask H P prior args ho
    rw [he, he]
  | some o =>
    rw [framesFrom_explicit mask H P info₁ prior args fk _ o ho, framesFrom_explicit mask H P info₂ prior args fk _ o ho,
      tlsFrames_info_congr H P info₁ info₂ o fk xs (fun p hp => h p (ExportProps.mem_tcpView_frame o xs p hp))]
    congr 2
    unfold quicFrames
    rw [quicRun_info_congr mask H P info₁ info₂ o _ (fun x hx => h x.p (mem_quicView_frame o xs _ x hx))]
    rfl

end Nat

-- ====================================================================== 2. the same items up to their tags
section Alike

/-- two main-loop items that differ at most in the tag of the frame, and whose tables say the same about it -/
def Alike (info₁ info₂ : Nat → Pipeline.Info) : Item Keylog.Key → Item Keylog.Key → Prop
  | .dsb k₁, .dsb k₂ => k₁ = k₂
  | .frame p, .frame q => q = { p with tag := q.tag } ∧ info₂ q.tag = info₁ p.tag
  | _, _ => False

/-- the canonical numbering: the frame at position `j` of the list gets the tag `n + j` -/
def renum : Nat → List (Item Keylog.Key) → List (Item Keylog.Key)
  | _, [] => []
  | n, .dsb k :: r => .dsb k :: renum (n + 1) r
  | n, .frame p :: r => .frame { p with tag := n } :: renum (n + 1) r

/-- the tag the item at position `j - n` carries -/
def tagAt (n : Nat) (xs : List (Item Keylog.Key)) (j : Nat) : Nat :=
  match xs[j - n]? with
  | some (.frame p) => p.tag
  | _ => 0

theorem renum_tags_ge (n : Nat) (xs : List (Item Keylog.Key)) : ∀ p, Item.frame p ∈ renum n xs → n ≤ p.tag := by
  induction xs generalizing n with
  | nil => intro p hp; simp [renum] at hp
  | cons it r ih =>
    intro p hp
    cases it with
    | dsb k =>
      simp only [renum, List.mem_cons, reduceCtorEq, false_or] at hp
      have := ih (n + 1) p hp; omega
    | frame q =>
      simp only [renum, List.mem_cons, Item.frame.injEq] at hp
      rcases hp with rfl | hp
      · simp
      · have := ih (n + 1) p hp; omega

theorem map_itemRetag_congr (ρ ρ' : Nat → Nat) (l : List (Item Keylog.Key))
    (h : ∀ p, Item.frame p ∈ l → ρ p.tag = ρ' p.tag) : l.map (itemRetag ρ) = l.map (itemRetag ρ') := by
  apply List.map_congr_left
  intro it hit
  cases it with
  | dsb k => rfl
  | frame p => simp only [itemRetag, retag, h p hit]

/-- every item list is its canonical numbering with the tags put back -/
theorem renum_retag (n : Nat) (xs : List (Item Keylog.Key)) : (renum n xs).map (itemRetag (tagAt n xs)) = xs := by
  induction xs generalizing n with
  | nil => rfl
  | cons it r ih =>
    have hshift : ∀ p, Item.frame p ∈ renum (n + 1) r → tagAt n (it :: r) p.tag = tagAt (n + 1) r p.tag := by
      intro p hp
      have hge := renum_tags_ge (n + 1) r p hp
      unfold tagAt
      have : p.tag - n = (p.tag - (n + 1)) + 1 := by omega
      rw [this, List.getElem?_cons_succ]
    cases it with
    | dsb k =>
      simp only [renum, List.map_cons, itemRetag, List.cons.injEq, true_and]
      rw [map_itemRetag_congr _ _ _ hshift]; exact ih (n + 1)
    | frame q =>
      simp only [renum, List.map_cons, itemRetag, retag, List.cons.injEq]
      refine ⟨?_, ?_⟩
      · simp [tagAt]
      · rw [map_itemRetag_congr _ _ _ hshift]; exact ih (n + 1)

theorem renum_alike {info₁ info₂ : Nat → Pipeline.Info} {xs ys : List (Item Keylog.Key)}
    (hz : Zip (Alike info₁ info₂) xs ys) : ∀ n, renum n xs = renum n ys := by
  induction hz with
  | nil => intro n; rfl
  | @cons a b as bs hab _ ih =>
    intro n
    cases a with
    | dsb k₁ =>
      cases b with
      | dsb k₂ => have : k₁ = k₂ := hab; subst this; simp only [renum, ih]
      | frame q => exact absurd hab (by simp [Alike])
    | frame p =>
      cases b with
      | dsb k => exact absurd hab (by simp [Alike])
      | frame q =>
        obtain ⟨hq, _⟩ : q = { p with tag := q.tag } ∧ _ := hab
        simp only [renum, ih, List.cons.injEq, and_true, Item.frame.injEq]
        rw [hq]

theorem tables_alike {info₁ info₂ : Nat → Pipeline.Info} {xs ys : List (Item Keylog.Key)}
    (hz : Zip (Alike info₁ info₂) xs ys) :
    ∀ n p, Item.frame p ∈ renum n xs → (info₁ ∘ tagAt n xs) p.tag = (info₂ ∘ tagAt n ys) p.tag := by
  induction hz with
  | nil => intro n p hp; simp [renum] at hp
  | @cons a b as bs hab _ ih =>
    intro n p hp
    have tail : Item.frame p ∈ renum (n + 1) as →
        (info₁ ∘ tagAt n (a :: as)) p.tag = (info₂ ∘ tagAt n (b :: bs)) p.tag := by
      intro hp'
      have hge := renum_tags_ge (n + 1) as p hp'
      have := ih (n + 1) p hp'
      simp only [Function.comp, tagAt] at this ⊢
      have e : p.tag - n = (p.tag - (n + 1)) + 1 := by omega
      rw [e, List.getElem?_cons_succ, List.getElem?_cons_succ]
      exact this
    cases a with
    | dsb k₁ =>
      simp only [renum, List.mem_cons, reduceCtorEq, false_or] at hp
      exact tail hp
    | frame p₁ =>
      cases b with
      | dsb k => exact absurd hab (by simp [Alike])
      | frame q =>
        obtain ⟨_, hi⟩ : q = { p₁ with tag := q.tag } ∧ info₂ q.tag = info₁ p₁.tag := hab
        simp only [renum, List.mem_cons, Item.frame.injEq] at hp
        rcases hp with rfl | hp
        · simp [Function.comp, tagAt, hi]
        · exact tail hp

/-- **The run on items that are alike up to their tags.** Two item lists, position by position the same secrets blocks
    and the same frames except for the frames' tags, with tables that say the same about corresponding frames (time stamp,
    MAC addresses, sequence number, IP version): `run()` hands the same frames to the writer. Nothing is assumed about how
    the tags of either list are chosen (not even that they are distinct). -/
theorem framesFrom_alike (info₁ info₂ : Nat → Pipeline.Info) (prior : Export.Prior) (args : Args)
    (fk : Option (List Keylog.Key)) {xs ys : List (Item Keylog.Key)} (hz : Zip (Alike info₁ info₂) xs ys) :
    framesFrom mask H P prior args fk xs info₁ = framesFrom mask H P prior args fk ys info₂ := by
  have e1 := renum_retag 0 xs
  have e2 := renum_retag 0 ys
  rw [← renum_alike hz 0] at e2
  calc framesFrom mask H P prior args fk xs info₁
      = framesFrom mask H P prior args fk ((renum 0 xs).map (itemRetag (tagAt 0 xs))) info₁ := by rw [e1]
    _ = framesFrom mask H P prior args fk (renum 0 xs) (info₁ ∘ tagAt 0 xs) := framesFrom_retag mask H P _ _ _ _ _ _
    _ = framesFrom mask H P prior args fk (renum 0 xs) (info₂ ∘ tagAt 0 ys) :=
        framesFrom_info_congr mask H P _ _ _ _ _ _ (tables_alike hz 0)
    _ = framesFrom mask H P prior args fk ((renum 0 xs).map (itemRetag (tagAt 0 ys))) info₂ :=
        (framesFrom_retag mask H P _ _ _ _ _ _).symm
    _ = framesFrom mask H P prior args fk ys info₂ := by rw [e2]

end Alike

-- ====================================================================== 3. the read loop, item by item
section ReadLoop
open TLX.Ingest

/-- the loop body on one reader item that gets the tag `tag`: the main-loop item, and the frame's table entry -/
def one (c : Bool) (tag : Nat) : Container.Item → Except Ingest.Err (Item Keylog.Key × Option Pipeline.Info)
  | .dsb s =>
    match decodeAscii s with
    | .error e => .error e
    | .ok str => .ok (.dsb (Keylog.getKeysFromString Keylog.srcHexClass str), none)
  | .pkt t buf =>
    if isMinusOne t then
      match decodeAscii buf with
      | .error e => .error e
      | .ok str => .ok (.dsb (Keylog.getKeysFromString Keylog.srcHexClass str), none)
    else
      match framePkt c tag (Container.usOfFloat t.toFloat) buf with
      | .error e => .error e
      | .ok (p, i) => .ok (.frame p, some i)

theorem go_cons (c : Bool) (tag : Nat) (it : Container.Item) (rest : List Container.Item) :
    go Keylog.srcHexClass c tag (it :: rest) =
      match one c tag it with
      | .error e => .error e
      | .ok (x, oi) =>
        match go Keylog.srcHexClass c (tag + 1) rest with
        | .error e => .error e
        | .ok (xs, is) => .ok (x :: xs, (oi.map fun i => (tag, i)).toList ++ is) := by
  cases it with
  | dsb s =>
    simp only [go, one]
    cases decodeAscii s with
    | error e => rfl
    | ok str => simp only; cases go Keylog.srcHexClass c (tag + 1) rest <;> rfl
  | pkt t buf =>
    simp only [go, one]
    by_cases hm : isMinusOne t = true
    · simp only [hm, if_true]
      cases decodeAscii buf with
      | error e => rfl
      | ok str => simp only; cases go Keylog.srcHexClass c (tag + 1) rest <;> rfl
    · simp only [hm, Bool.false_eq_true, if_false]
      cases framePkt c tag (Container.usOfFloat t.toFloat) buf with
      | error e => rfl
      | ok v => obtain ⟨p, i⟩ := v; simp only; cases go Keylog.srcHexClass c (tag + 1) rest <;> rfl

/-- the tag only ends up in `Pkt.tag` -/
theorem framePkt_tag_indep (c : Bool) (tag tag' us : Nat) (buf : Bytes) :
    framePkt c tag' us buf = (framePkt c tag us buf).map fun v => ({ v.1 with tag := tag' }, v.2) := by
  unfold framePkt
  cases Dissect.dissect buf with
  | error e => rfl
  | ok d =>
    cases d with
    | notIp => rfl
    | ip x =>
      simp only
      cases (if c then verdict x else .ok none) with
      | error e => rfl
      | ok v => simp only; cases x.l4 <;> rfl

def setTag (tag' : Nat) : Item Keylog.Key → Item Keylog.Key
  | .dsb k => .dsb k
  | .frame p => .frame { p with tag := tag' }

theorem one_tag_indep (c : Bool) (tag tag' : Nat) (it : Container.Item) :
    one c tag' it = (one c tag it).map fun v => (setTag tag' v.1, v.2) := by
  cases it with
  | dsb s => simp only [one]; cases decodeAscii s <;> rfl
  | pkt t buf =>
    simp only [one]
    by_cases hm : isMinusOne t = true
    · simp only [hm, if_true]; cases decodeAscii buf <;> rfl
    · simp only [hm, Bool.false_eq_true, if_false]
      rw [framePkt_tag_indep c tag tag']
      cases framePkt c tag (Container.usOfFloat t.toFloat) buf with
      | error e => rfl
      | ok v => rfl

theorem one_frame_tag (c : Bool) (tag : Nat) (it : Container.Item) (p : Pkt) (oi : Option Pipeline.Info)
    (h : one c tag it = .ok (.frame p, oi)) : p.tag = tag ∧ oi.isSome := by
  cases it with
  | dsb s =>
    simp only [one] at h
    cases hd : decodeAscii s with
    | error e => rw [hd] at h; cases h
    | ok str => rw [hd] at h; cases h
  | pkt t buf =>
    simp only [one] at h
    by_cases hm : isMinusOne t = true
    · simp only [hm, if_true] at h
      cases hd : decodeAscii buf with
      | error e => rw [hd] at h; cases h
      | ok str => rw [hd] at h; cases h
    · simp only [hm, Bool.false_eq_true, if_false] at h
      cases hf : framePkt c tag (Container.usOfFloat t.toFloat) buf with
      | error e => rw [hf] at h; cases h
      | ok v =>
        obtain ⟨q, i⟩ := v
        rw [hf] at h
        simp only [Except.ok.injEq, Prod.mk.injEq, Item.frame.injEq] at h
        obtain ⟨rfl, rfl⟩ := h
        exact ⟨Lemmas.ExportProps.framePkt_tag c tag _ buf q i hf, rfl⟩

theorem one_dsb_none (c : Bool) (tag : Nat) (it : Container.Item) (k : List Keylog.Key) (oi : Option Pipeline.Info)
    (h : one c tag it = .ok (.dsb k, oi)) : oi = none := by
  cases it with
  | dsb s =>
    simp only [one] at h
    cases hd : decodeAscii s with
    | error e => rw [hd] at h; cases h
    | ok str => rw [hd] at h; simp only [Except.ok.injEq, Prod.mk.injEq] at h; exact h.2.symm
  | pkt t buf =>
    simp only [one] at h
    by_cases hm : isMinusOne t = true
    · simp only [hm, if_true] at h
      cases hd : decodeAscii buf with
      | error e => rw [hd] at h; cases h
      | ok str => rw [hd] at h; simp only [Except.ok.injEq, Prod.mk.injEq] at h; exact h.2.symm
    · simp only [hm, Bool.false_eq_true, if_false] at h
      cases hf : framePkt c tag (Container.usOfFloat t.toFloat) buf with
      | error e => rw [hf] at h; cases h
      | ok v => obtain ⟨q, i⟩ := v; rw [hf] at h; cases h

/-- the frames the loop makes from tag `tag` on carry tags `≥ tag`, and so do the table's keys -/
theorem go_tags_ge (c : Bool) (its : List Container.Item) :
    ∀ tag X IS, go Keylog.srcHexClass c tag its = .ok (X, IS) →
      (∀ p, Item.frame p ∈ X → tag ≤ p.tag) ∧ (∀ e ∈ IS, tag ≤ e.1) := by
  induction its with
  | nil =>
    intro tag X IS h
    simp only [go, Except.ok.injEq, Prod.mk.injEq] at h
    obtain ⟨rfl, rfl⟩ := h
    exact ⟨by simp, by simp⟩
  | cons it rest ih =>
    intro tag X IS h
    rw [go_cons] at h
    cases h1 : one c tag it with
    | error e => rw [h1] at h; cases h
    | ok v =>
      obtain ⟨x, oi⟩ := v
      rw [h1] at h
      simp only at h
      cases hg : go Keylog.srcHexClass c (tag + 1) rest with
      | error e => rw [hg] at h; cases h
      | ok w =>
        obtain ⟨Xr, ISr⟩ := w
        rw [hg] at h
        simp only [Except.ok.injEq, Prod.mk.injEq] at h
        obtain ⟨rfl, rfl⟩ := h
        obtain ⟨i1, i2⟩ := ih (tag + 1) Xr ISr hg
        constructor
        · intro p hp
          simp only [List.mem_cons] at hp
          rcases hp with rfl | hp
          · exact Nat.le_of_eq (one_frame_tag c tag it p oi h1).1.symm
          · have := i1 p hp; omega
        · intro e he
          simp only [List.mem_append, Option.mem_toList, Option.mem_def, Option.map_eq_some_iff] at he
          rcases he with ⟨i, _, rfl⟩ | he
          · exact Nat.le_refl _
          · have := i2 e he; omega

theorem zip_alike_congr {a b a' b' : Nat → Pipeline.Info} {xs ys : List (Item Keylog.Key)}
    (hz : Zip (Alike a b) xs ys) (ha : ∀ p, Item.frame p ∈ xs → a' p.tag = a p.tag)
    (hb : ∀ q, Item.frame q ∈ ys → b' q.tag = b q.tag) : Zip (Alike a' b') xs ys := by
  induction hz with
  | nil => exact Zip.nil
  | @cons x y xs ys hxy _ ih =>
    refine Zip.cons ?_ (ih (fun p hp => ha p (by simp [hp])) (fun q hq => hb q (by simp [hq])))
    cases x with
    | dsb k₁ =>
      cases y with
      | dsb k₂ => exact hxy
      | frame q => exact absurd hxy (by simp [Alike])
    | frame p =>
      cases y with
      | dsb k => exact absurd hxy (by simp [Alike])
      | frame q =>
        obtain ⟨h1, h2⟩ : q = { p with tag := q.tag } ∧ b q.tag = a p.tag := hxy
        exact ⟨h1, by rw [ha p (by simp), hb q (by simp), h2]⟩

/-- the main-loop items that stem from the reader items `keep` keeps (the two lists are aligned: one item per item) -/
def keptOf (keep : Container.Item → Bool) : List Container.Item → List (Item Keylog.Key) → List (Item Keylog.Key)
  | it :: its, x :: xs => if keep it then x :: keptOf keep its xs else keptOf keep its xs
  | _, _ => []

theorem keptOf_sub (keep : Container.Item → Bool) (its : List Container.Item) :
    ∀ (X : List (Item Keylog.Key)) x, x ∈ keptOf keep its X → x ∈ X := by
  induction its with
  | nil => intro X x hx; cases X <;> simp [keptOf] at hx
  | cons it its ih =>
    intro X x hx
    cases X with
    | nil => simp [keptOf] at hx
    | cons y X =>
      simp only [keptOf] at hx
      split at hx
      · simp only [List.mem_cons] at hx
        rcases hx with rfl | hx
        · simp
        · exact List.mem_cons_of_mem _ (ih X x hx)
      · exact List.mem_cons_of_mem _ (ih X x hx)

/-- **The read loop on a capture from which reader items have been removed.** If the loop gets through the whole
    capture, it gets through the reduced one (started at any tag), and what it makes of the kept items is the same up to
    the tags, with tables that say the same about corresponding frames. -/
theorem go_filter (c : Bool) (keep : Container.Item → Bool) (its : List Container.Item) :
    ∀ tag tag' X IS, go Keylog.srcHexClass c tag its = .ok (X, IS) →
      ∃ X' IS', go Keylog.srcHexClass c tag' (its.filter keep) = .ok (X', IS') ∧
        Zip (Alike (lookup IS) (lookup IS')) (keptOf keep its X) X' := by
  induction its with
  | nil =>
    intro tag tag' X IS h
    simp only [go, Except.ok.injEq, Prod.mk.injEq] at h
    obtain ⟨rfl, rfl⟩ := h
    exact ⟨[], [], rfl, Zip.nil⟩
  | cons it rest ih =>
    intro tag tag' X IS h
    rw [go_cons] at h
    cases h1 : one c tag it with
    | error e => rw [h1] at h; cases h
    | ok v =>
      obtain ⟨x, oi⟩ := v
      rw [h1] at h
      simp only at h
      cases hg : go Keylog.srcHexClass c (tag + 1) rest with
      | error e => rw [hg] at h; cases h
      | ok w =>
        obtain ⟨Xr, ISr⟩ := w
        rw [hg] at h
        simp only [Except.ok.injEq, Prod.mk.injEq] at h
        obtain ⟨rfl, rfl⟩ := h
        have hge := (go_tags_ge c rest (tag + 1) Xr ISr hg).1
        -- the table of the whole run agrees with the table of its tail on the tail's frames
        have hIS : ∀ p, Item.frame p ∈ Xr →
            lookup ((oi.map fun i => (tag, i)).toList ++ ISr) p.tag = lookup ISr p.tag := by
          intro p hp
          have := hge p hp
          cases oi with
          | none => rfl
          | some i => exact Lemmas.Export.lookup_cons_ne tag i ISr p.tag (by omega)
        cases hk : keep it with
        | false =>
          obtain ⟨X', IS', g1, g2⟩ := ih (tag + 1) tag' Xr ISr hg
          refine ⟨X', IS', by simp only [List.filter_cons, hk, Bool.false_eq_true, if_false, g1], ?_⟩
          simp only [keptOf, hk, Bool.false_eq_true, if_false]
          exact zip_alike_congr g2 (fun p hp => hIS p (keptOf_sub keep rest Xr _ hp)) (fun _ _ => rfl)
        | true =>
          obtain ⟨X', IS', g1, g2⟩ := ih (tag + 1) (tag' + 1) Xr ISr hg
          have h1' := one_tag_indep c tag tag' it
          rw [h1] at h1'
          have hge' := (go_tags_ge c (rest.filter keep) (tag' + 1) X' IS' g1).1
          have hIS' : ∀ q, Item.frame q ∈ X' →
              lookup ((oi.map fun i => (tag', i)).toList ++ IS') q.tag = lookup IS' q.tag := by
            intro q hq
            have := hge' q hq
            cases oi with
            | none => rfl
            | some i => exact Lemmas.Export.lookup_cons_ne tag' i IS' q.tag (by omega)
          refine ⟨setTag tag' x :: X', (oi.map fun i => (tag', i)).toList ++ IS', ?_, ?_⟩
          · simp only [List.filter_cons, hk, if_true]
            rw [go_cons, h1']
            simp only [Except.map, g1]
          · simp only [keptOf, hk, if_true]
            refine Zip.cons ?_ (zip_alike_congr g2 (fun p hp => hIS p (keptOf_sub keep rest Xr _ hp)) hIS')
            cases x with
            | dsb k => rfl
            | frame p =>
              obtain ⟨hpt, hsome⟩ := one_frame_tag c tag it p oi h1
              obtain ⟨i, rfl⟩ := Option.isSome_iff_exists.mp hsome
              refine ⟨rfl, ?_⟩
              simp only [setTag, Option.map_some, Option.toList_some, List.singleton_append]
              rw [Lemmas.Export.lookup_cons_eq, hpt, Lemmas.Export.lookup_cons_eq]

/-- the loop makes one main-loop item of every reader item -/
theorem go_length (c : Bool) (its : List Container.Item) :
    ∀ tag X IS, go Keylog.srcHexClass c tag its = .ok (X, IS) → X.length = its.length := by
  induction its with
  | nil => intro tag X IS h; simp only [go, Except.ok.injEq, Prod.mk.injEq] at h; rw [← h.1]; rfl
  | cons it rest ih =>
    intro tag X IS h
    rw [go_cons] at h
    cases h1 : one c tag it with
    | error e => rw [h1] at h; cases h
    | ok v =>
      obtain ⟨x, oi⟩ := v
      rw [h1] at h
      simp only at h
      cases hg : go Keylog.srcHexClass c (tag + 1) rest with
      | error e => rw [hg] at h; cases h
      | ok w =>
        obtain ⟨Xr, ISr⟩ := w
        rw [hg] at h
        simp only [Except.ok.injEq, Prod.mk.injEq] at h
        rw [← h.1, List.length_cons, List.length_cons, ih _ _ _ hg]

theorem keptOf_all (its : List Container.Item) :
    ∀ X : List (Item Keylog.Key), X.length = its.length → keptOf (fun _ => true) its X = X := by
  induction its with
  | nil => intro X h; cases X with | nil => rfl | cons _ _ => simp at h
  | cons it its ih =>
    intro X h
    cases X with
    | nil => simp at h
    | cons x X => simp only [keptOf, if_true, ih X (by simpa using h)]

/-- the read loop started at another tag: the same abort, or the same items up to the tags -/
theorem go_shift (c : Bool) (its : List Container.Item) (tag tag' : Nat) :
    (∀ e, go Keylog.srcHexClass c tag its = .error e → go Keylog.srcHexClass c tag' its = .error e) ∧
    (∀ X IS, go Keylog.srcHexClass c tag its = .ok (X, IS) →
      ∃ X' IS', go Keylog.srcHexClass c tag' its = .ok (X', IS') ∧ Zip (Alike (lookup IS) (lookup IS')) X X') := by
  constructor
  · induction its generalizing tag tag' with
    | nil => intro e h; simp [go] at h
    | cons it rest ih =>
      intro e h
      rw [go_cons] at h ⊢
      rw [one_tag_indep c tag tag']
      cases h1 : one c tag it with
      | error e' => rw [h1] at h; simp only [Except.map]; exact h
      | ok v =>
        obtain ⟨x, oi⟩ := v
        rw [h1] at h
        simp only [Except.map] at h ⊢
        cases hg : go Keylog.srcHexClass c (tag + 1) rest with
        | error e' =>
          rw [hg] at h
          simp only [Except.error.injEq] at h
          subst h
          rw [ih (tag + 1) (tag' + 1) e' hg]
        | ok w => rw [hg] at h; cases h
  · intro X IS h
    obtain ⟨X', IS', g1, g2⟩ := go_filter c (fun _ => true) its tag tag' X IS h
    have hft : its.filter (fun _ => true) = its := List.filter_eq_self.mpr (fun _ _ => rfl)
    rw [hft] at g1
    rw [keptOf_all its X (go_length c its tag X IS h)] at g2
    exact ⟨X', IS', g1, g2⟩

end ReadLoop

section Alike2
variable (info₁ info₂ : Nat → Pipeline.Info)

theorem zip_alike_dsbs (D : List (List Keylog.Key)) {xs ys : List (Item Keylog.Key)}
    (hz : Zip (Alike info₁ info₂) xs ys) : Zip (Alike info₁ info₂) (D.map Item.dsb ++ xs) (D.map Item.dsb ++ ys) := by
  induction D with
  | nil => exact hz
  | cons d D ih => exact Zip.cons rfl ih

/-- the TLS conversations of two item lists that are alike up to their tags -/
theorem tlsFrames_alike (o : Opts) (fk : Option (List Keylog.Key)) {xs ys : List (Item Keylog.Key)}
    (hz : Zip (Alike info₁ info₂) xs ys) : tlsFrames H P info₁ o fk xs = tlsFrames H P info₂ o fk ys := by
  have e1 := renum_retag 0 xs
  have e2 := renum_retag 0 ys
  rw [← renum_alike hz 0] at e2
  calc tlsFrames H P info₁ o fk xs
      = tlsFrames H P info₁ o fk ((renum 0 xs).map (itemRetag (tagAt 0 xs))) := by rw [e1]
    _ = tlsFrames H P (info₁ ∘ tagAt 0 xs) o fk (renum 0 xs) := tlsFrames_nat H P _ _ o fk _
    _ = tlsFrames H P (info₂ ∘ tagAt 0 ys) o fk (renum 0 xs) :=
        tlsFrames_info_congr H P _ _ o fk _
          (fun p hp => tables_alike hz 0 p (ExportProps.mem_tcpView_frame o _ p hp))
    _ = tlsFrames H P info₂ o fk ((renum 0 xs).map (itemRetag (tagAt 0 ys))) := (tlsFrames_nat H P _ _ o fk _).symm
    _ = tlsFrames H P info₂ o fk ys := by rw [e2]

end Alike2

-- ====================================================================== 4. C09 at the level of the files
section C09
open TLX.Keylog

/-- **C09, whole program, FILES with different numbers of secrets blocks.** Two runs: capture files whose readers
    deliver `T₁` resp. `T₂` — ANY numbers of secrets blocks (ASCII texts; none at all: the secrets come from the `-s` file
    only) — followed by the SAME remaining items `R`, which hold no further secrets block (`hR`); `-s` files `file₁`,
    `file₂` or none. If the two key logs (`-s` file, then the blocks) are alike for every session (`SameView`), the
    outcomes are THE SAME: byte-identical output files, or the same abort. The packets sit at other positions in the two
    captures, so `Ingest` numbers them differently; `framesFrom_alike` is what bridges that. -/
theorem export_key_delivery_files (args : Args) (legacy₁ legacy₂ : Bool) (file₁ file₂ : Option Str)
    (cap₁ cap₂ : Bytes) (T₁ T₂ : List Bytes) (R : List Container.Item) (ended : Option Container.Err)
    (hr₁ : Container.readPrefix legacy₁ cap₁ = .ok (T₁.map Container.Item.dsb ++ R, ended))
    (hr₂ : Container.readPrefix legacy₂ cap₂ = .ok (T₂.map Container.Item.dsb ++ R, ended))
    (ha₁ : ∀ s ∈ T₁, s.all (· < 0x80) = true) (ha₂ : ∀ s ∈ T₂, s.all (· < 0x80) = true)
    (hR : ∀ X IS, Ingest.go srcHexClass args.checksumTest T₁.length R = .ok (X, IS) → ∃ F : List Pkt, X = F.map Item.frame)
    (hv : SameView ((fileKeysOf file₁).getD [] ++ (T₁.map dsbKeysOfBytes).flatten)
                   ((fileKeysOf file₂).getD [] ++ (T₂.map dsbKeysOfBytes).flatten)) :
    exportFile mask H P args legacy₁ file₁ cap₁ = exportFile mask H P args legacy₂ file₂ cap₂ := by
  unfold exportFile exportFrom
  split
  · rfl
  · unfold Ingest.itemsWith
    rw [hr₁, hr₂]
    simp only
    have g₁ := go_dsbs args.checksumTest T₁ ha₁ R 0
    have g₂ := go_dsbs args.checksumTest T₂ ha₂ R 0
    rw [Nat.zero_add] at g₁ g₂
    rw [g₁, g₂]
    obtain ⟨sh1, sh2⟩ := go_shift args.checksumTest R T₁.length T₂.length
    cases hg : Ingest.go srcHexClass args.checksumTest T₁.length R with
    | error e => rw [sh1 e hg]
    | ok v =>
      obtain ⟨X, IS⟩ := v
      obtain ⟨X', IS', hg', hz⟩ := sh2 X IS hg
      obtain ⟨F, rfl⟩ := hR X IS hg
      rw [hg']
      simp only
      cases ended with
      | some e => rfl
      | none =>
        simp only
        have h1 := export_key_delivery_independent mask H P (Ingest.lookup IS) freshState args (fileKeysOf file₁)
          (fileKeysOf file₂) (T₁.map dsbKeysOfBytes) (T₂.map dsbKeysOfBytes) F hv
        have h2 := framesFrom_alike mask H P (Ingest.lookup IS) (Ingest.lookup IS') freshState args (fileKeysOf file₂)
          (zip_alike_dsbs _ _ (T₂.map dsbKeysOfBytes) hz)
        simp only [List.map_map, Function.comp_def] at h1 h2 ⊢
        rw [h1, h2]

end C09

-- ====================================================================== 4b. C09, TLS-only captures: secrets blocks anywhere
section C09Anywhere
open TLX.Keylog TLX.Ingest

def isPkt : Container.Item → Bool
  | .pkt .. => true
  | .dsb _ => false

/-- the texts of the secrets blocks of a capture, in order -/
def dsbTexts (its : List Container.Item) : List Bytes := its.filterMap fun
  | .dsb s => some s
  | .pkt .. => none

/-- the key log the blocks of a capture contribute -/
def blockKeys (its : List Container.Item) : List Keylog.Key := ((dsbTexts its).map dsbKeysOfBytes).flatten

theorem one_dsb_ascii (c : Bool) (tag : Nat) (s : Bytes) (h : s.all (· < 0x80) = true) :
    one c tag (.dsb s) = .ok (.dsb (dsbKeysOfBytes s), none) := by
  simp only [one, decodeAscii, h, if_true]
  rfl

theorem one_pkt_frame (c : Bool) (tag : Nat) (t : Container.Time) (b : Bytes) (hm : isMinusOne t = false)
    (x : Item Keylog.Key) (oi : Option Pipeline.Info) (h : one c tag (.pkt t b) = .ok (x, oi)) : ∃ p, x = .frame p := by
  simp only [one, hm, Bool.false_eq_true, if_false] at h
  cases hf : framePkt c tag (Container.usOfFloat t.toFloat) b with
  | error e => rw [hf] at h; cases h
  | ok v =>
    obtain ⟨p, i⟩ := v
    rw [hf] at h
    simp only [Except.ok.injEq, Prod.mk.injEq] at h
    exact ⟨p, h.1.symm⟩

/-- removing ASCII secrets blocks from a capture the read loop fails on: it fails in the same way -/
theorem go_filter_error (c : Bool) (keep : Container.Item → Bool) (its : List Container.Item)
    (hdrop : ∀ it ∈ its, keep it = false → ∃ s, it = .dsb s ∧ s.all (· < 0x80) = true) :
    ∀ tag tag' e, go srcHexClass c tag its = .error e → go srcHexClass c tag' (its.filter keep) = .error e := by
  induction its with
  | nil => intro tag tag' e h; simp [go] at h
  | cons it rest ih =>
    intro tag tag' e h
    have ih' := ih (fun x hx => hdrop x (by simp [hx]))
    rw [go_cons] at h
    cases hk : keep it with
    | false =>
      obtain ⟨s, rfl, hs⟩ := hdrop it (by simp) hk
      rw [one_dsb_ascii c tag s hs] at h
      simp only at h
      simp only [List.filter_cons, hk, Bool.false_eq_true, if_false]
      cases hg : go srcHexClass c (tag + 1) rest with
      | ok w => rw [hg] at h; cases h
      | error e' =>
        rw [hg] at h
        simp only [Except.error.injEq] at h
        subst h
        exact ih' (tag + 1) tag' e' hg
    | true =>
      simp only [List.filter_cons, hk, if_true]
      rw [go_cons, one_tag_indep c tag tag']
      cases h1 : one c tag it with
      | error e' => rw [h1] at h; simp only [Except.map]; exact h
      | ok v =>
        obtain ⟨x, oi⟩ := v
        rw [h1] at h
        simp only [Except.map] at h ⊢
        cases hg : go srcHexClass c (tag + 1) rest with
        | ok w => rw [hg] at h; cases h
        | error e' =>
          rw [hg] at h
          simp only [Except.error.injEq] at h
          subst h
          rw [ih' (tag + 1) (tag' + 1) e' hg]

/-- what the loop makes of a capture without `ts == -1` packets: the packet blocks become the frames, the secrets blocks
    become the key items -/
theorem go_split (c : Bool) (its : List Container.Item)
    (hnm : ∀ t b, Container.Item.pkt t b ∈ its → isMinusOne t = false) :
    ∀ tag X IS, go srcHexClass c tag its = .ok (X, IS) →
      framesOf (keptOf isPkt its X) = framesOf X ∧ dsbOnly (keptOf isPkt its X) = [] ∧ dsbOnly X = blockKeys its := by
  induction its with
  | nil =>
    intro tag X IS h
    simp only [go, Except.ok.injEq, Prod.mk.injEq] at h
    rw [← h.1]
    exact ⟨rfl, rfl, rfl⟩
  | cons it rest ih =>
    intro tag X IS h
    rw [go_cons] at h
    cases h1 : one c tag it with
    | error e => rw [h1] at h; cases h
    | ok v =>
      obtain ⟨x, oi⟩ := v
      rw [h1] at h
      simp only at h
      cases hg : go srcHexClass c (tag + 1) rest with
      | error e => rw [hg] at h; cases h
      | ok w =>
        obtain ⟨Xr, ISr⟩ := w
        rw [hg] at h
        simp only [Except.ok.injEq, Prod.mk.injEq] at h
        rw [← h.1]
        obtain ⟨i1, i2, i3⟩ := ih (fun t b hb => hnm t b (by simp [hb])) (tag + 1) Xr ISr hg
        cases it with
        | dsb s =>
          have hx : ∃ k, x = .dsb k ∧ k = dsbKeysOfBytes s := by
            simp only [one] at h1
            cases hd : decodeAscii s with
            | error e => rw [hd] at h1; cases h1
            | ok str =>
              rw [hd] at h1
              simp only [Except.ok.injEq, Prod.mk.injEq] at h1
              refine ⟨_, h1.1.symm, ?_⟩
              unfold decodeAscii at hd
              split at hd
              · cases hd; rfl
              · cases hd
          obtain ⟨k, rfl, rfl⟩ := hx
          refine ⟨?_, ?_, ?_⟩
          · simp only [keptOf, isPkt, Bool.false_eq_true, if_false, framesOf, List.filterMap_cons,
              Lemmas.Export.frameOf?] at i1 ⊢
            exact i1
          · simp only [keptOf, isPkt, Bool.false_eq_true, if_false, i2]
          · simp only [dsbOnly, List.flatMap_cons] at i3 ⊢
            rw [i3]
            simp [blockKeys, dsbTexts, List.filterMap_cons]
        | pkt t b =>
          obtain ⟨p, rfl⟩ := one_pkt_frame c tag t b (hnm t b (by simp)) x oi h1
          refine ⟨?_, ?_, ?_⟩
          · simp only [keptOf, isPkt, if_true, framesOf, List.filterMap_cons, Lemmas.Export.frameOf?] at i1 ⊢
            rw [i1]
          · simp only [keptOf, isPkt, if_true, dsbOnly, List.flatMap_cons] at i2 ⊢
            rw [i2]; rfl
          · simp only [dsbOnly, List.flatMap_cons] at i3 ⊢
            rw [i3]
            simp [blockKeys, dsbTexts, List.filterMap_cons]

theorem sameSecrets_append {k₁ k₂ : List Keylog.Key} (h : SameSecrets k₁ k₂) (z : List Keylog.Key) :
    SameSecrets (k₁ ++ z) (k₂ ++ z) := by
  intro cr
  have := h cr
  simp only [findSessionSecrets, List.filter_append] at this ⊢
  rw [this]

/-- no UDP frame: nothing goes to `handle_quic_packet` -/
theorem quicView_no_udp (o : Opts) (xs : List (Item Keylog.Key)) (h : ∀ p, Item.frame p ∈ xs → p.l4 ≠ .udp) :
    ∀ kl, quicView o kl xs = [] := by
  induction xs with
  | nil => intro kl; rfl
  | cons it xs ih =>
    intro kl
    have ih' := ih (fun p hp => h p (by simp [hp]))
    simp only [quicView]
    cases hc : classify o it with
    | keys ks => exact ih' _
    | tls q => exact ih' _
    | ignore w => exact ih' _
    | quic q b0 r =>
      obtain ⟨rfl, hu⟩ := Lemmas.Export.classify_quic o it q b0 r hc
      exact absurd hu (h q (by simp))

variable (info : Nat → Pipeline.Info)

/-- TLS part: the same frames (up to tags) and key logs that every TLS session reads alike, secrets blocks anywhere -/
theorem tlsFrames_blocks_anywhere (o : Opts) (c : Bool) (fk₁ fk₂ : Option (List Keylog.Key))
    (its₁ its₂ : List Container.Item) (hpk : its₁.filter isPkt = its₂.filter isPkt)
    (hnm₁ : ∀ t b, Container.Item.pkt t b ∈ its₁ → isMinusOne t = false)
    (hnm₂ : ∀ t b, Container.Item.pkt t b ∈ its₂ → isMinusOne t = false)
    (X₁ X₂ : List (Item Keylog.Key)) (IS₁ IS₂ : List (Nat × Pipeline.Info))
    (h₁ : go srcHexClass c 0 its₁ = .ok (X₁, IS₁)) (h₂ : go srcHexClass c 0 its₂ = .ok (X₂, IS₂))
    (hv : SameSecrets (fk₁.getD [] ++ blockKeys its₁) (fk₂.getD [] ++ blockKeys its₂)) :
    tlsFrames H P (lookup IS₁) o fk₁ X₁ = tlsFrames H P (lookup IS₂) o fk₂ X₂ := by
  obtain ⟨Xp, ISp, gp, z₁⟩ := go_filter c isPkt its₁ 0 0 X₁ IS₁ h₁
  obtain ⟨Xp', ISp', gp', z₂⟩ := go_filter c isPkt its₂ 0 0 X₂ IS₂ h₂
  rw [← hpk, gp] at gp'
  simp only [Except.ok.injEq, Prod.mk.injEq] at gp'
  obtain ⟨rfl, rfl⟩ := gp'
  obtain ⟨a1, a2, a3⟩ := go_split c its₁ hnm₁ 0 X₁ IS₁ h₁
  obtain ⟨b1, b2, b3⟩ := go_split c its₂ hnm₂ 0 X₂ IS₂ h₂
  -- the packets of either capture alone, with the capture's whole key log as an `-s` file
  have s₁ : tlsFrames H P (lookup IS₁) o fk₁ X₁ =
      tlsFrames H P (lookup IS₁) o (some (fk₁.getD [] ++ blockKeys its₁)) (keptOf isPkt its₁ X₁) :=
    dsb_position_irrelevant_tls H P _ o _ _ _ _ a1.symm (by
      intro cr; simp only [keysOf, a2, a3, Option.getD_some, List.append_nil])
  have s₂ : tlsFrames H P (lookup IS₂) o fk₂ X₂ =
      tlsFrames H P (lookup IS₂) o (some (fk₂.getD [] ++ blockKeys its₂)) (keptOf isPkt its₂ X₂) :=
    dsb_position_irrelevant_tls H P _ o _ _ _ _ b1.symm (by
      intro cr; simp only [keysOf, b2, b3, Option.getD_some, List.append_nil])
  rw [s₁, s₂, tlsFrames_alike H P _ _ o _ z₁, tlsFrames_alike H P _ _ o _ z₂]
  exact dsb_position_irrelevant_tls H P _ o _ _ _ _ rfl (by
    simp only [keysOf, Option.getD_some]; exact sameSecrets_append hv _)

/-- **C09, whole program, TLS-only captures: secrets blocks ANYWHERE.** Two capture files with the same packet blocks in
    the same order (`hpk`) and any numbers of ASCII secrets blocks anywhere between them — in front, behind, in between,
    none at all —, `-s` files or none; no UDP frame in the capture (`hudp`: nothing goes to the QUIC half, which reads the
    key log when the datagram arrives) and no packet taken for a secrets block (`hnm`). If every TLS session reads the
    two key logs alike (`SameSecrets`: `-s` file, then the blocks in capture order), the outcomes are THE SAME:
    byte-identical output files, or the same abort. -/
theorem export_key_delivery_files_tls (args : Args) (legacy₁ legacy₂ : Bool) (file₁ file₂ : Option Str)
    (cap₁ cap₂ : Bytes) (its₁ its₂ : List Container.Item) (ended : Option Container.Err)
    (hr₁ : Container.readPrefix legacy₁ cap₁ = .ok (its₁, ended))
    (hr₂ : Container.readPrefix legacy₂ cap₂ = .ok (its₂, ended))
    (hpk : its₁.filter isPkt = its₂.filter isPkt)
    (ha₁ : ∀ s, Container.Item.dsb s ∈ its₁ → s.all (· < 0x80) = true)
    (ha₂ : ∀ s, Container.Item.dsb s ∈ its₂ → s.all (· < 0x80) = true)
    (hnm : ∀ t b, Container.Item.pkt t b ∈ its₁ → isMinusOne t = false)
    (hudp : ∀ X IS, go srcHexClass args.checksumTest 0 its₁ = .ok (X, IS) → ∀ p, Item.frame p ∈ X → p.l4 ≠ .udp)
    (hv : SameSecrets ((fileKeysOf file₁).getD [] ++ blockKeys its₁) ((fileKeysOf file₂).getD [] ++ blockKeys its₂)) :
    exportFile mask H P args legacy₁ file₁ cap₁ = exportFile mask H P args legacy₂ file₂ cap₂ := by
  have hnm₂ : ∀ t b, Container.Item.pkt t b ∈ its₂ → isMinusOne t = false := by
    intro t b hb
    have : Container.Item.pkt t b ∈ its₂.filter isPkt := List.mem_filter.mpr ⟨hb, rfl⟩
    rw [← hpk] at this
    exact hnm t b (List.mem_filter.mp this).1
  have hdrop : ∀ (its : List Container.Item), (∀ s, Container.Item.dsb s ∈ its → s.all (· < 0x80) = true) →
      ∀ it ∈ its, isPkt it = false → ∃ s, it = .dsb s ∧ s.all (· < 0x80) = true := by
    intro its ha it hit hk
    cases it with
    | dsb s => exact ⟨s, rfl, ha s hit⟩
    | pkt t b => cases hk
  rw [exportFile_stages, exportFile_stages]
  split
  · rfl
  · unfold Ingest.itemsWith
    rw [hr₁, hr₂]
    simp only
    cases h₁ : go srcHexClass args.checksumTest 0 its₁ with
    | error e =>
      have ep := go_filter_error args.checksumTest isPkt its₁ (hdrop its₁ ha₁) 0 0 e h₁
      cases h₂ : go srcHexClass args.checksumTest 0 its₂ with
      | error e₂ =>
        have ep₂ := go_filter_error args.checksumTest isPkt its₂ (hdrop its₂ ha₂) 0 0 e₂ h₂
        rw [← hpk, ep] at ep₂
        cases ep₂; rfl
      | ok w =>
        obtain ⟨X₂, IS₂⟩ := w
        obtain ⟨Xp, ISp, gp, _⟩ := go_filter args.checksumTest isPkt its₂ 0 0 X₂ IS₂ h₂
        rw [← hpk, ep] at gp; cases gp
    | ok w =>
      obtain ⟨X₁, IS₁⟩ := w
      cases h₂ : go srcHexClass args.checksumTest 0 its₂ with
      | error e₂ =>
        have ep₂ := go_filter_error args.checksumTest isPkt its₂ (hdrop its₂ ha₂) 0 0 e₂ h₂
        obtain ⟨Xp, ISp, gp, _⟩ := go_filter args.checksumTest isPkt its₁ 0 0 X₁ IS₁ h₁
        rw [hpk, ep₂] at gp; cases gp
      | ok w₂ =>
        obtain ⟨X₂, IS₂⟩ := w₂
        simp only
        cases ended with
        | some e => rfl
        | none =>
          simp only
          congr 1
          cases ho : optsOf args with
          | none =>
            obtain ⟨e, he⟩ := framesFrom_bad mask H P freshState args ho
            rw [he, he]
          | some o =>
            have hu₁ := hudp X₁ IS₁ h₁
            -- the frames of the second capture are those of the first up to their tags: no UDP there either
            have hu₂ : ∀ p, Item.frame p ∈ X₂ → p.l4 ≠ .udp := by
              obtain ⟨Xp, ISp, gp, z₁⟩ := go_filter args.checksumTest isPkt its₁ 0 0 X₁ IS₁ h₁
              obtain ⟨Xp', ISp', gp', z₂⟩ := go_filter args.checksumTest isPkt its₂ 0 0 X₂ IS₂ h₂
              rw [← hpk, gp] at gp'
              simp only [Except.ok.injEq, Prod.mk.injEq] at gp'
              obtain ⟨rfl, rfl⟩ := gp'
              have key : ∀ {A B C : List (Item Keylog.Key)} {i₁ i₂ i₃ i₄ : Nat → Pipeline.Info},
                  Zip (Alike i₁ i₂) A C → Zip (Alike i₃ i₄) B C →
                  (∀ p, Item.frame p ∈ A → p.l4 ≠ .udp) → ∀ q, Item.frame q ∈ B → q.l4 ≠ .udp := by
                intro A B C i₁ i₂ i₃ i₄ zA
                induction zA generalizing B with
                | nil => intro zB _ q hq; cases zB; simp at hq
                | @cons a c' as cs hac _ ihz =>
                  intro zB hA q hq
                  cases zB with
                  | @cons b _ bs _ hbc zbs =>
                    simp only [List.mem_cons] at hq
                    rcases hq with rfl | hq
                    · cases c' with
                      | dsb k => exact absurd hbc (by simp [Alike])
                      | frame r =>
                        cases a with
                        | dsb k => exact absurd hac (by simp [Alike])
                        | frame pa =>
                          have e1 : r = { pa with tag := r.tag } := hac.1
                          have e2 : r = { q with tag := r.tag } := hbc.1
                          have : q.l4 = pa.l4 := by
                            have := congrArg Pkt.l4 (e1.symm.trans e2); simpa using this.symm
                          rw [this]; exact hA pa (by simp)
                    · exact ihz zbs (fun p hp => hA p (by simp [hp])) q hq
              have hk₁ : ∀ p, Item.frame p ∈ keptOf isPkt its₁ X₁ → p.l4 ≠ .udp :=
                fun p hp => hu₁ p (keptOf_sub isPkt its₁ X₁ _ hp)
              have hf₂ := (go_split args.checksumTest its₂ hnm₂ 0 X₂ IS₂ h₂).1
              intro q hq
              have hq' : q ∈ framesOf X₂ := List.mem_filterMap.mpr ⟨_, hq, rfl⟩
              rw [← hf₂] at hq'
              obtain ⟨it, hit, hfo⟩ := List.mem_filterMap.mp hq'
              cases it with
              | dsb k => cases hfo
              | frame q' =>
                simp only [Lemmas.Export.frameOf?, Option.some.injEq] at hfo
                subst hfo
                exact key z₁ z₂ hk₁ q' hit
            rw [framesFrom_explicit mask H P _ freshState args _ X₁ o ho,
              framesFrom_explicit mask H P _ freshState args _ X₂ o ho,
              tlsFrames_blocks_anywhere H P o args.checksumTest _ _ its₁ its₂ hpk hnm hnm₂ X₁ X₂ IS₁ IS₂ h₁ h₂ hv]
            simp only [quicFrames, quicView_no_udp o X₁ hu₁, quicView_no_udp o X₂ hu₂]
            rfl

end C09Anywhere

-- ====================================================================== 5. C11 at the level of the files
section C11
open TLX.Ingest

/-- what the read loop under `-c` decides about one reader item: a TCP / UDP frame whose verdict bit is false
    (`ExportInputs.ingest_verdict_rfc1071`: the RFC 1071 receiver rejects it) -/
def itemRejected (it : Container.Item) : Bool :=
  match one true 0 it with
  | .ok (x, _) => rejected x
  | .error _ => false

theorem rejected_setTag (t : Nat) (x : Item Keylog.Key) : rejected (setTag t x) = rejected x := by
  cases x <;> rfl

theorem one_rejected (tag : Nat) (it : Container.Item) (x : Item Keylog.Key) (oi : Option Pipeline.Info)
    (h : one true tag it = .ok (x, oi)) : itemRejected it = rejected x := by
  have := one_tag_indep true tag 0 it
  rw [h] at this
  simp only [itemRejected, this, Except.map, rejected_setTag]

theorem framePkt_c_irrelevant (tag us : Nat) (buf : Bytes) (p : Pkt) (i : Pipeline.Info)
    (h : framePkt true tag us buf = .ok (p, i)) (hr : rejected (.frame p) = false) :
    framePkt false tag us buf = .ok (p, i) := by
  unfold framePkt at h ⊢
  cases hd : Dissect.dissect buf with
  | error e => rw [hd] at h; cases h
  | ok d =>
    rw [hd] at h
    cases d with
    | notIp => exact h
    | ip x =>
      simp only [if_true, Bool.false_eq_true, if_false] at h ⊢
      cases hv : verdict x with
      | error e => rw [hv] at h; cases h
      | ok v =>
        rw [hv] at h
        simp only at h
        cases hx : x.l4 with
        | other => rw [hx] at h; exact h
        | tcp sp dp sq ak pl =>
          rw [hx] at h
          simp only [Except.ok.injEq, Prod.mk.injEq] at h
          obtain ⟨rfl, rfl⟩ := h
          simp only [rejected, Bool.and_eq_false_imp, Bool.not_eq_true', bne_eq_false_iff_eq] at hr
          have : v.getD true = true := by
            cases hb : v.getD true with
            | true => rfl
            | false => have := hr hb; cases this
          simp only [Option.getD_none, this]
        | udp sp dp pl =>
          rw [hx] at h
          simp only [Except.ok.injEq, Prod.mk.injEq] at h
          obtain ⟨rfl, rfl⟩ := h
          simp only [rejected, Bool.and_eq_false_imp, Bool.not_eq_true', bne_eq_false_iff_eq] at hr
          have : v.getD true = true := by
            cases hb : v.getD true with
            | true => rfl
            | false => have := hr hb; cases this
          simp only [Option.getD_none, this]

theorem one_c_irrelevant (tag : Nat) (it : Container.Item) (x : Item Keylog.Key) (oi : Option Pipeline.Info)
    (h : one true tag it = .ok (x, oi)) (hr : rejected x = false) : one false tag it = .ok (x, oi) := by
  cases it with
  | dsb s => exact h
  | pkt t buf =>
    simp only [one] at h ⊢
    by_cases hm : isMinusOne t = true
    · simp only [hm, if_true] at h ⊢; exact h
    · simp only [hm, Bool.false_eq_true, if_false] at h ⊢
      cases hf : framePkt true tag (Container.usOfFloat t.toFloat) buf with
      | error e => rw [hf] at h; cases h
      | ok v =>
        obtain ⟨p, i⟩ := v
        rw [hf] at h
        simp only [Except.ok.injEq, Prod.mk.injEq] at h
        obtain ⟨rfl, rfl⟩ := h
        rw [framePkt_c_irrelevant tag _ buf p i hf hr]

/-- on a capture without rejected frames the read loop does the same with and without `-c` -/
theorem go_c_irrelevant (l : List Container.Item) (hl : ∀ it ∈ l, itemRejected it = false) :
    ∀ tag X IS, go Keylog.srcHexClass true tag l = .ok (X, IS) → go Keylog.srcHexClass false tag l = .ok (X, IS) := by
  induction l with
  | nil => intro tag X IS h; exact h
  | cons it rest ih =>
    intro tag X IS h
    rw [go_cons] at h ⊢
    cases h1 : one true tag it with
    | error e => rw [h1] at h; cases h
    | ok v =>
      obtain ⟨x, oi⟩ := v
      rw [h1] at h
      simp only at h
      cases hg : go Keylog.srcHexClass true (tag + 1) rest with
      | error e => rw [hg] at h; cases h
      | ok w =>
        obtain ⟨Xr, ISr⟩ := w
        rw [hg] at h
        have hx : rejected x = false := by rw [← one_rejected tag it x oi h1]; exact hl it (by simp)
        rw [one_c_irrelevant tag it x oi h1 hx]
        simp only
        rw [ih (fun y hy => hl y (by simp [hy])) (tag + 1) Xr ISr hg]
        exact h

theorem keptOf_eq_filter (its : List Container.Item) :
    ∀ tag X IS, go Keylog.srcHexClass true tag its = .ok (X, IS) →
      keptOf (fun it => !itemRejected it) its X = X.filter fun x => !rejected x := by
  induction its with
  | nil => intro tag X IS h; simp only [go, Except.ok.injEq, Prod.mk.injEq] at h; rw [← h.1]; rfl
  | cons it rest ih =>
    intro tag X IS h
    rw [go_cons] at h
    cases h1 : one true tag it with
    | error e => rw [h1] at h; cases h
    | ok v =>
      obtain ⟨x, oi⟩ := v
      rw [h1] at h
      simp only at h
      cases hg : go Keylog.srcHexClass true (tag + 1) rest with
      | error e => rw [hg] at h; cases h
      | ok w =>
        obtain ⟨Xr, ISr⟩ := w
        rw [hg] at h
        simp only [Except.ok.injEq, Prod.mk.injEq] at h
        rw [← h.1]
        simp only [keptOf, List.filter_cons, one_rejected tag it x oi h1, ih (tag + 1) Xr ISr hg]

/-- **C11, whole program, reader level.** `cap`: any capture file the `-c` run reads to the end (`hok`); `cap'`: a
    capture whose reader delivers the same items minus exactly the rejected frames. Then the run with `-c` on `cap` and the
    run WITHOUT `-c` on `cap'` write byte-identical output files (or end in the same way). -/
theorem export_checksum_filter_reader (args : Args) (legacy legacy' : Bool) (kl : Option Keylog.Str) (cap cap' : Bytes)
    (its : List Container.Item) (ended : Option Container.Err)
    (hr : Container.readPrefix legacy cap = .ok (its, ended))
    (hr' : Container.readPrefix legacy' cap' = .ok (its.filter fun it => !itemRejected it, ended))
    (hok : ∃ X IS, go Keylog.srcHexClass true 0 its = .ok (X, IS)) :
    exportFile mask H P (argsC args true) legacy kl cap = exportFile mask H P (argsC args false) legacy' kl cap' := by
  obtain ⟨X, IS, hg⟩ := hok
  obtain ⟨X', IS', g1, g2⟩ := go_filter true (fun it => !itemRejected it) its 0 0 X IS hg
  rw [keptOf_eq_filter its 0 X IS hg] at g2
  have g1' : go Keylog.srcHexClass false 0 (its.filter fun it => !itemRejected it) = .ok (X', IS') :=
    go_c_irrelevant _ (fun it hit => by simpa using (List.mem_filter.mp hit).2) 0 X' IS' g1
  rw [exportFile_stages, exportFile_stages]
  have ho : optionsBad (freshState : Export.Prior) (argsC args true) =
      optionsBad (freshState : Export.Prior) (argsC args false) := rfl
  rw [ho]
  split
  · rfl
  · simp only [argsC]
    unfold Ingest.itemsWith
    rw [hr, hr']
    simp only [hg, g1']
    cases ended with
    | some e => rfl
    | none =>
      simp only
      have e1 := export_checksum_filter_frames mask H P (Ingest.lookup IS) freshState args (fileKeysOf kl) X
      have e2 := framesFrom_alike mask H P (Ingest.lookup IS) (Ingest.lookup IS') freshState (argsC args false)
        (fileKeysOf kl) g2
      simp only [argsC] at e1 e2
      rw [e1, e2]

section Encoder
open TLX.Spec.Containers TLX.Props.C12

theorem filterMap_filter_comm {α β : Type} (f : α → Option β) (k : β → Bool) (g : α → Bool)
    (hg : ∀ a, g a = match f a with | some b => k b | none => true) (l : List α) :
    (l.filter g).filterMap f = (l.filterMap f).filter k := by
  induction l with
  | nil => rfl
  | cons a l ih =>
    have hga := hg a
    cases hf : f a with
    | none =>
      rw [hf] at hga
      simp only [List.filter_cons, hga, if_true, List.filterMap_cons, hf, ih]
    | some b =>
      rw [hf] at hga
      simp only at hga
      cases hk : k b with
      | true => simp only [List.filter_cons, hga, hk, if_true, List.filterMap_cons, hf, ih]
      | false => simp only [List.filter_cons, hga, hk, Bool.false_eq_true, if_false, List.filterMap_cons, hf, ih]

/-- an event of the capture that the `-c` run does not reject (everything but TCP / UDP frames with a wrong checksum) -/
def evKept (v : Variant) (ev : Ev) : Bool :=
  match scale v ev with
  | some it => !itemRejected it
  | none => true

/-- **C11, whole program, file to file.** For the independent container encoder, ANY variant `v` (pcapng of either byte
    order, any clock, decoration; libpcap µs / ns) and any event list `evs`: if the `-c` run reads the capture to the end
    (`hok`; it does unless dpkt raises on a frame, a secrets block is not ASCII, or a `-c` length overflows), then

      the run WITH `-c` on the capture  =  the run WITHOUT `-c` on the capture re-encoded without the rejected frames

    — byte-identical output files, or the same abort of the writer. (`hwf'`: the reduced event list still fits the
    variant's fixed-width fields — the per-event decoration is indexed by position.) -/
theorem export_checksum_filter_file (args : Args) (kl : Option Keylog.Str) (v : Variant) (evs : List Ev)
    (hwf : v.WF evs) (hwf' : v.WF (evs.filter (evKept v)))
    (hok : ∃ X IS, go Keylog.srcHexClass true 0 (evs.filterMap (scale v)) = .ok (X, IS)) :
    exportFile mask H P (argsC args true) v.isLegacy kl (encode v evs) =
      exportFile mask H P (argsC args false) v.isLegacy kl (encode v (evs.filter (evKept v))) := by
  have r1 := readPrefix_of_read _ _ _ (reader_roundtrip v evs hwf)
  have r2 := readPrefix_of_read _ _ _ (reader_roundtrip v _ hwf')
  have : (evs.filter (evKept v)).filterMap (scale v) = (evs.filterMap (scale v)).filter fun it => !itemRejected it :=
    filterMap_filter_comm (scale v) (fun it => !itemRejected it) (evKept v) (fun ev => by unfold evKept; cases scale v ev <;> rfl) evs
  rw [this] at r2
  exact export_checksum_filter_reader mask H P args _ _ kl _ _ _ none r1 r2 hok

end Encoder

end C11

-- ====================================================================== 6. C03 at the level of the files
section C03
open TLX.Ingest

theorem keptOf_merge (k : Container.Item → Bool) (its : List Container.Item) :
    ∀ X : List (Item Keylog.Key), X.length = its.length →
      Merge (keptOf (fun it => !k it) its X) (keptOf k its X) X := by
  induction its with
  | nil => intro X h; cases X with | nil => exact .nil | cons _ _ => simp at h
  | cons it its ih =>
    intro X h
    cases X with
    | nil => simp at h
    | cons x X =>
      have := ih X (by simpa using h)
      simp only [keptOf]
      by_cases hk : k it = true
      · simp only [hk, Bool.not_true, Bool.false_eq_true, if_false, if_true]
        exact Merge.right x this
      · have hk' : k it = false := by simpa using hk
        simp only [hk', Bool.not_false, if_true, Bool.false_eq_true, if_false]
        exact Merge.left x this

/-- **C03, whole program, file to file (TLS bystanders).** `capC`: a capture the run reads to the end; `victim`: any
    choice of reader items (the victim's packet blocks: TCP on its flows, UDP / QUIC, garbage, frames that make ITS
    session raise — but nothing that makes the READ LOOP raise: `hC`) that bring no key material (`hk`) and share no TCP
    flow with the rest (`hd`); `capB`: a capture whose reader delivers the remaining items. Then the capture without the
    victim is read to the end too, and the TLS conversations of the bystanders are exported from the full capture EXACTLY as
    from the capture without the victim: the per-conversation frame blocks of the `capB` run appear intact and in order
    among the blocks of the `capC` run (the others are the victim's), and both outputs are these blocks concatenated,
    followed by the QUIC part. -/
theorem export_bystander_unaffected_file (prior : Export.Prior) (args : Args) (o : Opts) (ho : optsOf args = some o)
    (legacy legacy' : Bool) (kl : Option Keylog.Str) (capC capB : Bytes) (its : List Container.Item)
    (victim : Container.Item → Bool)
    (hrC : Container.readPrefix legacy capC = .ok (its, none))
    (hrB : Container.readPrefix legacy' capB = .ok (its.filter fun it => !victim it, none))
    (X : List (Item Keylog.Key)) (IS : List (Nat × Pipeline.Info))
    (hC : go Keylog.srcHexClass args.checksumTest 0 its = .ok (X, IS))
    (hd : ∀ a ∈ tcpView o (keptOf (fun it => !victim it) its X), ∀ b ∈ tcpView o (keptOf victim its X),
      sameFlow a b = false)
    (hk : dsbOnly (keptOf victim its X) = []) :
    ∃ XB ISB blocksC quicB quicC,
      Ingest.itemsWith Keylog.srcHexClass args.checksumTest legacy capC = .ok (X, IS) ∧
      Ingest.itemsWith Keylog.srcHexClass args.checksumTest legacy' capB = .ok (XB, ISB) ∧
      framesFrom mask H P prior args (fileKeysOf kl) XB (Ingest.lookup ISB) =
        .ok ((tlsFrames H P (Ingest.lookup ISB) o (fileKeysOf kl) XB).flatten ++ quicB) ∧
      framesFrom mask H P prior args (fileKeysOf kl) X (Ingest.lookup IS) = .ok (blocksC.flatten ++ quicC) ∧
      Merge (tlsFrames H P (Ingest.lookup ISB) o (fileKeysOf kl) XB)
        ((tlsConvs H P (Ingest.lookup IS) o (keptOf victim its X)).map
          (convFrames H P (Ingest.lookup IS) (keysOf (fileKeysOf kl) X))) blocksC := by
  obtain ⟨XB, ISB, g1, g2⟩ := go_filter args.checksumTest (fun it => !victim it) its 0 0 X IS hC
  have hm := keptOf_merge victim its X (go_length _ its 0 X IS hC)
  have hby := export_bystander_unaffected H P (Ingest.lookup IS) o (fileKeysOf kl) hm hd hk
  rw [tlsFrames_alike H P (Ingest.lookup IS) (Ingest.lookup ISB) o (fileKeysOf kl) g2] at hby
  refine ⟨XB, ISB, _, _, _, ?_, ?_, framesFrom_explicit mask H P _ prior args _ XB o ho,
    framesFrom_explicit mask H P _ prior args _ X o ho, hby⟩
  · unfold Ingest.itemsWith; rw [hrC]; simp only [hC]
  · unfold Ingest.itemsWith; rw [hrB]; simp only [g1]

section Encoder
open TLX.Spec.Containers TLX.Props.C12

/-- the events of the capture that are not the victim's -/
def evNotVictim (v : Variant) (victim : Container.Item → Bool) (ev : Ev) : Bool :=
  match scale v ev with
  | some it => !victim it
  | none => true

/-- … for the independent container encoder: the capture re-encoded WITHOUT the victim's packet blocks, any variant. -/
theorem export_bystander_unaffected_encoded (prior : Export.Prior) (args : Args) (o : MainLoop.Opts) (ho : optsOf args = some o)
    (kl : Option Keylog.Str) (v : Variant) (evs : List Ev) (victim : Container.Item → Bool)
    (hwf : v.WF evs) (hwf' : v.WF (evs.filter (evNotVictim v victim)))
    (X : List (Item Keylog.Key)) (IS : List (Nat × Pipeline.Info))
    (hC : go Keylog.srcHexClass args.checksumTest 0 (evs.filterMap (scale v)) = .ok (X, IS))
    (hd : ∀ a ∈ tcpView o (keptOf (fun it => !victim it) (evs.filterMap (scale v)) X),
      ∀ b ∈ tcpView o (keptOf victim (evs.filterMap (scale v)) X), sameFlow a b = false)
    (hk : dsbOnly (keptOf victim (evs.filterMap (scale v)) X) = []) :
    ∃ XB ISB blocksC quicB quicC,
      Ingest.itemsWith Keylog.srcHexClass args.checksumTest v.isLegacy (encode v evs) = .ok (X, IS) ∧
      Ingest.itemsWith Keylog.srcHexClass args.checksumTest v.isLegacy (encode v (evs.filter (evNotVictim v victim))) =
        .ok (XB, ISB) ∧
      framesFrom mask H P prior args (fileKeysOf kl) XB (Ingest.lookup ISB) =
        .ok ((tlsFrames H P (Ingest.lookup ISB) o (fileKeysOf kl) XB).flatten ++ quicB) ∧
      framesFrom mask H P prior args (fileKeysOf kl) X (Ingest.lookup IS) = .ok (blocksC.flatten ++ quicC) ∧
      Merge (tlsFrames H P (Ingest.lookup ISB) o (fileKeysOf kl) XB)
        ((tlsConvs H P (Ingest.lookup IS) o (keptOf victim (evs.filterMap (scale v)) X)).map
          (convFrames H P (Ingest.lookup IS) (keysOf (fileKeysOf kl) X))) blocksC := by
  have r1 := readPrefix_of_read _ _ _ (reader_roundtrip v evs hwf)
  have r2 := readPrefix_of_read _ _ _ (reader_roundtrip v _ hwf')
  have : (evs.filter (evNotVictim v victim)).filterMap (scale v) =
      (evs.filterMap (scale v)).filter fun it => !victim it :=
    filterMap_filter_comm (scale v) (fun it => !victim it) (evNotVictim v victim)
      (fun ev => by unfold evNotVictim; cases scale v ev <;> rfl) evs
  rw [this] at r2
  exact export_bystander_unaffected_file mask H P prior args o ho _ _ kl _ _ _ victim r1 r2 X IS hC hd hk

end Encoder

end C03

-- ====================================================================== 7. C08 at the level of the files
section C08
open TLX.Spec.Containers TLX.Props.C12

theorem weave_take_sub (deco : Nat → Deco) (k : Nat) (evs : List Ev) :
    ∀ i b, b ∈ weave deco i (evs.take k) → b ∈ weave deco i evs := by
  induction evs generalizing k with
  | nil => intro i b hb; simp [weave] at hb
  | cons ev evs ih =>
    intro i b hb
    cases k with
    | zero => simp [weave] at hb
    | succ k =>
      simp only [List.take_succ_cons, weave, List.mem_append, List.mem_cons] at hb ⊢
      rcases hb with hb | rfl | hb
      · exact .inl hb
      · exact .inr (.inl rfl)
      · exact .inr (.inr (ih k (i + 1) b hb))

theorem legacy_WFfrom_take (v : LegacyVariant) (k : Nat) (evs : List Ev) :
    ∀ i, v.WFfrom i evs → v.WFfrom i (evs.take k) := by
  induction evs generalizing k with
  | nil => intro i h; simpa using h
  | cons ev evs ih =>
    intro i h
    cases k with
    | zero => trivial
    | succ k =>
      cases ev with
      | pkt t d =>
        simp only [List.take_succ_cons, LegacyVariant.WFfrom] at h ⊢
        exact ⟨h.1, h.2.1, ih k (i + 1) h.2.2⟩
      | dsb s =>
        simp only [List.take_succ_cons, LegacyVariant.WFfrom] at h ⊢
        exact ih k (i + 1) h

/-- a capture cut after its `k`-th event still fits the variant -/
theorem wf_take (v : Variant) (evs : List Ev) (k : Nat) (h : v.WF evs) : v.WF (evs.take k) := by
  cases v with
  | pcapng v =>
    obtain ⟨a, b, c, d, e, f⟩ := h
    exact ⟨a, b, c, d, e, fun x hx => f x (weave_take_sub v.deco k evs 0 x hx)⟩
  | legacy v =>
    obtain ⟨a, b, c, d, e, f⟩ := h
    exact ⟨a, b, c, d, e, legacy_WFfrom_take v k evs 0 f⟩

theorem filterMap_take {α β : Type} (f : α → Option β) (l : List α) (k : Nat) :
    (l.take k).filterMap f = (l.filterMap f).take ((l.take k).filterMap f).length := by
  induction l generalizing k with
  | nil => simp
  | cons a l ih =>
    cases k with
    | zero => simp
    | succ k =>
      simp only [List.take_succ_cons, List.filterMap_cons]
      cases f a with
      | none => exact ih k
      | some b => simp only [List.length_cons, List.take_succ_cons, List.cons.injEq, true_and]; exact ih k

/-- **The byte-level fact behind C08**, both containers, any variant: the capture written with its first `k` events only
    (the file cut after the `k`-th packet / secrets block) is read to exactly the first `k'` items the reader delivers for
    the whole file, `k'` = the number of those events the container can hold (all `k` for pcapng; libpcap has no secrets
    blocks). -/
theorem read_cut (v : Variant) (evs : List Ev) (k : Nat) (hwf : v.WF evs) :
    Container.readPrefix v.isLegacy (encode v evs) = .ok (evs.filterMap (scale v), none) ∧
    Container.readPrefix v.isLegacy (encode v (evs.take k)) =
      .ok ((evs.filterMap (scale v)).take ((evs.take k).filterMap (scale v)).length, none) := by
  refine ⟨readPrefix_of_read _ _ _ (reader_roundtrip v evs hwf), ?_⟩
  have := readPrefix_of_read _ _ _ (reader_roundtrip v (evs.take k) (wf_take v evs k hwf))
  rw [filterMap_take] at this
  exact this

/-- **C08, whole program, file to file (TLS).** For the independent container encoder, any variant: cut the capture after
    its `k`-th event. If no key material sits in the removed part, the cut file is read to the first `k'` main-loop items
    and the TLS conversations exported from it are, one by one in creation order, frame-by-frame prefixes of those exported
    from the whole file (`export_cut_prefix_tls_ingest` with its two reader hypotheses discharged). -/
theorem export_cut_prefix_tls_file (v : Variant) (evs : List Ev) (k : Nat) (hwf : v.WF evs)
    (c : Bool) (xs : List (Item Keylog.Key)) (is : List (Nat × Pipeline.Info))
    (hi : Ingest.itemsWith Keylog.srcHexClass c v.isLegacy (encode v evs) = .ok (xs, is))
    (o : MainLoop.Opts) (fk : Option (List Keylog.Key))
    (hkeys : dsbOnly (xs.drop ((evs.take k).filterMap (scale v)).length) = []) :
    ∃ is', Ingest.itemsWith Keylog.srcHexClass c v.isLegacy (encode v (evs.take k)) =
        .ok (xs.take ((evs.take k).filterMap (scale v)).length, is') ∧
      ListExt (fun fa fb : List Pipeline.OutPkt => fa <+: fb)
        (tlsFrames H P (Ingest.lookup is') o fk (xs.take ((evs.take k).filterMap (scale v)).length))
        (tlsFrames H P (Ingest.lookup is) o fk xs) := by
  obtain ⟨r1, r2⟩ := read_cut v evs k hwf
  exact ExportProps.export_cut_prefix_tls_ingest H P v.isLegacy _ _ _ _ r1 r2 c xs is hi o fk hkeys

end C08

-- ====================================================================== non-vacuity
namespace Ex
open TLX.Spec.Containers TLX.Spec.FrameBuild TLX.Props.C12

/-- two item lists that are alike up to their tags: a DSB and a TCP segment numbered 1 resp. 7, tables that agree -/
def pk (tag : Nat) : Pkt := ⟨.tcp, ⟨[10, 0, 0, 1], 50000⟩, ⟨[10, 0, 0, 2], 443⟩, [0x16, 3, 3], true, tag⟩
def tbl (tag : Nat) : Nat → Pipeline.Info := fun t => if t = tag then ⟨1000, 5, [1, 2, 3, 4, 5, 6], [7, 8, 9, 10, 11, 12], false⟩ else default

theorem alike_instance (mask : Quic.Dissect.MaskFn) (H : Crypto.Prims) (P : Cipher.Prims) (prior : Export.Prior)
    (args : Args) (fk : Option (List Keylog.Key)) (k : List Keylog.Key) :
    framesFrom mask H P prior args fk [.dsb k, .frame (pk 1)] (tbl 1) =
      framesFrom mask H P prior args fk [.dsb k, .frame (pk 7)] (tbl 7) :=
  framesFrom_alike mask H P (tbl 1) (tbl 7) prior args fk
    (Zip.cons rfl (Zip.cons ⟨rfl, by simp [tbl, pk]⟩ Zip.nil))

/-- a libpcap (nanosecond) capture of two TCP segments to port 443: the first with checksum field 0 (wrong), the second
    with the right checksum -/
def nano : Variant := .legacy { nano := true }
def evs2 : List Ev := [.pkt 1500000000 (ExportInputs.Ex.seg 0).encode, .pkt 2500000000 (ExportInputs.Ex.seg 0x9200).encode]

/-- the `-c` run rejects exactly the first event -/
theorem evKept_instance : evs2.map (evKept nano) = [false, true] := by decide +kernel

theorem evs2_wf : nano.WF evs2 ∧ nano.WF (evs2.filter (evKept nano)) := by
  constructor
  · refine ⟨by decide, by decide, by decide, by decide, by decide, ?_⟩
    simp only [evs2, LegacyVariant.WFfrom, LegacyVariant.unitsPerSecond]
    decide +kernel
  · have : evs2.filter (evKept nano) = [.pkt 2500000000 (ExportInputs.Ex.seg 0x9200).encode] := by decide +kernel
    rw [this]
    refine ⟨by decide, by decide, by decide, by decide, by decide, ?_⟩
    simp only [LegacyVariant.WFfrom, LegacyVariant.unitsPerSecond]
    decide +kernel

theorem evs2_read : ∃ X IS, Ingest.go Keylog.srcHexClass true 0 (evs2.filterMap (scale nano)) = .ok (X, IS) := by
  have h : (match Ingest.go Keylog.srcHexClass true 0 (evs2.filterMap (scale nano)) with
      | .ok _ => true
      | .error _ => false) = true := by decide +kernel
  cases hg : Ingest.go Keylog.srcHexClass true 0 (evs2.filterMap (scale nano)) with
  | ok v => exact ⟨v.1, v.2, rfl⟩
  | error e => rw [hg] at h; cases h

/-- non-vacuity of `export_checksum_filter_file`: every hypothesis holds for this capture, so the run with `-c` on the
    two-packet file equals the run without `-c` on the file that holds the second packet only -/
theorem checksum_filter_file_instance (mask : Quic.Dissect.MaskFn) (H : Crypto.Prims) (P : Cipher.Prims) (args : Args)
    (kl : Option Keylog.Str) :
    exportFile mask H P (argsC args true) true kl (encode nano evs2) =
      exportFile mask H P (argsC args false) true kl
        (encode nano [.pkt 2500000000 (ExportInputs.Ex.seg 0x9200).encode]) := by
  have := export_checksum_filter_file mask H P args kl nano evs2 evs2_wf.1 evs2_wf.2 evs2_read
  have e : evs2.filter (evKept nano) = [.pkt 2500000000 (ExportInputs.Ex.seg 0x9200).encode] := by decide +kernel
  rw [e] at this
  exact this

/-! a bystander conversation and a victim (another TCP flow to port 443, and a 14-byte non-IP frame) in one libpcap file -/
def victimSeg : Frame :=
  ⟨[1, 2, 3, 4, 5, 6], [7, 8, 9, 10, 11, 12], .v4 ⟨0, 9, true, false, 64, 0, [10, 0, 0, 3], [10, 0, 0, 2], []⟩,
   .tcp ⟨50001, 443, 77, 88, 0x18, 0, 8192, 0, 0, [], [0x17, 3, 3, 0, 1, 0]⟩, []⟩

def evs3 : List Ev :=
  [.pkt 1000000000 (ExportInputs.Ex.seg 0x9200).encode, .pkt 1200000000 victimSeg.encode,
   .pkt 1300000000 [0, 0, 0, 0, 0, 0, 0, 0, 0, 0, 0, 0, 0x88, 0xb5], .pkt 1400000000 (ExportInputs.Ex.seg 0x9200).encode]

def isVictim : Container.Item → Bool
  | .pkt _ b => b != (ExportInputs.Ex.seg 0x9200).encode
  | .dsb _ => false

def args0 : Args := ⟨none, none, false, false, false⟩
def o0 : MainLoop.Opts := (optsOf args0).getD ⟨[], false, false, false, false, []⟩
def X3 : List (Item Keylog.Key) :=
  match Ingest.go Keylog.srcHexClass false 0 (evs3.filterMap (scale nano)) with
  | .ok v => v.1
  | .error _ => []
def IS3 : List (Nat × Pipeline.Info) :=
  match Ingest.go Keylog.srcHexClass false 0 (evs3.filterMap (scale nano)) with
  | .ok v => v.2
  | .error _ => []

theorem evs3_read : Ingest.go Keylog.srcHexClass false 0 (evs3.filterMap (scale nano)) = .ok (X3, IS3) := by
  have h : (match Ingest.go Keylog.srcHexClass false 0 (evs3.filterMap (scale nano)) with
      | .ok _ => true
      | .error _ => false) = true := by decide +kernel
  unfold X3 IS3
  cases hg : Ingest.go Keylog.srcHexClass false 0 (evs3.filterMap (scale nano)) with
  | ok v => rfl
  | error e => rw [hg] at h; cases h

theorem evs3_wf : nano.WF evs3 ∧ nano.WF (evs3.filter (evNotVictim nano isVictim)) := by
  have e : evs3.filter (evNotVictim nano isVictim) =
      [.pkt 1000000000 (ExportInputs.Ex.seg 0x9200).encode, .pkt 1400000000 (ExportInputs.Ex.seg 0x9200).encode] := by
    decide +kernel
  rw [e]
  constructor <;>
  · refine ⟨by decide, by decide, by decide, by decide, by decide, ?_⟩
    simp only [evs3, LegacyVariant.WFfrom, LegacyVariant.unitsPerSecond]
    decide +kernel

/-- non-vacuity of `export_bystander_unaffected_encoded`: every hypothesis holds for this four-packet capture (two
    segments of the bystander's flow, the victim's segment on another flow, a non-IP frame) -/
theorem bystander_file_instance (mask : Quic.Dissect.MaskFn) (H : Crypto.Prims) (P : Cipher.Prims)
    (prior : Export.Prior) (kl : Option Keylog.Str) :
    (tcpView o0 (keptOf (fun it => !isVictim it) (evs3.filterMap (scale nano)) X3)).length = 2 ∧
    (tcpView o0 (keptOf isVictim (evs3.filterMap (scale nano)) X3)).length = 1 ∧
    ∃ XB ISB blocksC quicB quicC,
      Ingest.itemsWith Keylog.srcHexClass false true (encode nano evs3) = .ok (X3, IS3) ∧
      Ingest.itemsWith Keylog.srcHexClass false true (encode nano (evs3.filter (evNotVictim nano isVictim))) =
        .ok (XB, ISB) ∧
      framesFrom mask H P prior args0 (fileKeysOf kl) XB (Ingest.lookup ISB) =
        .ok ((tlsFrames H P (Ingest.lookup ISB) o0 (fileKeysOf kl) XB).flatten ++ quicB) ∧
      framesFrom mask H P prior args0 (fileKeysOf kl) X3 (Ingest.lookup IS3) = .ok (blocksC.flatten ++ quicC) ∧
      Merge (tlsFrames H P (Ingest.lookup ISB) o0 (fileKeysOf kl) XB)
        ((tlsConvs H P (Ingest.lookup IS3) o0 (keptOf isVictim (evs3.filterMap (scale nano)) X3)).map
          (convFrames H P (Ingest.lookup IS3) (keysOf (fileKeysOf kl) X3))) blocksC :=
  ⟨by decide +kernel, by decide +kernel,
   export_bystander_unaffected_encoded mask H P prior args0 o0 (by decide +kernel) kl nano evs3 isVictim evs3_wf.1
     evs3_wf.2 X3 IS3 evs3_read (by decide +kernel) (by decide +kernel)⟩

end Ex

end TLX.Props.ExportInputs2
