/-
C15 - the keys and IVs TLExport derives, as installed for a connection, equal those of the RFC key
schedules. Property theorems only; helper lemmas are in TLX/Lemmas/KeySchedule.lean.

Every theorem is for ALL secrets, randoms and lengths and for EVERY hash suite: the hashes are
parameters (`Prims`, `HashSuite`), never axioms. Where a fact about the hash is needed it is the
explicit hypothesis `Lawful` (fixed non-zero output length; HKDF-Expand returns the length asked
for), which real MD5/SHA-1/SHA-256/SHA-384 satisfy and which `toy_lawful` shows satisfiable.
Model: TLX/KeySchedule.lean. Independent RFC transcription: TLX/Spec/KeySchedules.lean.
-/
import TLX.Lemmas.KeySchedule
namespace TLX.Props.C15
open TLX TLX.Crypto TLX.KeySchedule
open TLX.Spec.KeySchedules
open TLX.Lemmas.KeySchedule

/-! ## SSL 3.0, TLS 1.0/1.1, TLS 1.2: PRFs, master secrets, key blocks -/

/-- `dev_ssl_30_keys` returns RFC 6101 §6.2.2's partition of the MD5/SHA key block, for every master
    secret, randoms and lengths - provided the requested block needs at most the ten salts
    `'A'…'JJJJJJJJJJ'` the code knows (`sec_bits`; beyond that Python raises IndexError) and the
    requested `key_block_length` covers the two MAC keys and two keys. -/
theorem ssl30_keys_eq_rfc (P : Prims) (hmd5 : P.md5.Lawful) (master sr cr : Bytes)
    (keyLen macLen kbLen : Nat) (c : CipherTag) (aead : Bool)
    (hkb : 2 * (if aead then 0 else macLen) + 2 * keyLen ≤ kbLen)
    (hmax : kbLen + 2 * ivLenLegacy c ≤ 10 * P.md5.outLen) (prfHash : HashSuite) :
    (devSsl30Keys P master sr cr keyLen macLen kbLen c aead).map toSpec =
      .ok (connectionKeys P .ssl30 ⟨prfHash, if aead then 0 else macLen, keyLen, ivLenLegacy c⟩ master cr sr) :=
  devSsl30Keys_eq P hmd5 master sr cr keyLen macLen kbLen c aead hkb hmax prfHash

/-- `prf_ssl_30` alone: RFC 6101's construction as long as ten terms suffice. -/
theorem ssl30_prf_eq_rfc_partial (P : Prims) (hmd5 : P.md5.Lawful) (secret cr sr : Bytes) (n : Nat) (nonKey : Bool)
    (hn : n ≤ 10 * P.md5.outLen) :
    prfSsl30 P secret cr sr n nonKey =
      .ok ((concatTerms (ssl3Term P.md5 P.sha1 secret (if nonKey then cr ++ sr else sr ++ cr))
            (ceilDiv n P.md5.outLen)).take n) :=
  prfSsl30_eq P hmd5 secret cr sr n nonKey hn

/-- The same for every length. FALSE: `sec_bits = 'ABCDEFGHIJ'` has ten letters, an eleventh term raises
    IndexError (with real MD5: more than 160 bytes; the largest SSL 3.0 suite needs 2*20 + 2*32 + 2*16 = 136). -/
def ssl30_prf_eq_rfc_statement : Prop :=
  ∀ (P : Prims), P.Lawful → ∀ (secret cr sr : Bytes) (n : Nat) (nonKey : Bool),
    prfSsl30 P secret cr sr n nonKey =
      .ok ((concatTerms (ssl3Term P.md5 P.sha1 secret (if nonKey then cr ++ sr else sr ++ cr))
            (ceilDiv n P.md5.outLen)).take n)

theorem ssl30_prf_eq_rfc_counterexample : ¬ ssl30_prf_eq_rfc_statement := by
  intro h
  have := congrArg Except.toOption (h toyPrims toyPrims_lawful [1] [2] [3] 21 false)
  revert this
  decide +kernel

/-- `prf_tls_10_11` is RFC 2246 §5's PRF for every secret of EVEN length (a master secret has 48
    bytes); the seed is `label + server_random + client_random` for key expansion (`non_key = 0`) and
    `label + client_random + server_random` for the master secret. -/
theorem tls10_prf_eq_rfc_partial (P : Prims) (hmd5 : P.md5.Lawful) (hsha : P.sha1.Lawful)
    (secret cr sr label : Bytes) (n : Nat) (nonKey : Bool) (heven : secret.length % 2 = 0) :
    prfTls1011 P secret cr sr label n nonKey =
      .ok (prf10 P.md5 P.sha1 secret label (if nonKey then cr ++ sr else sr ++ cr) n) :=
  prfTls1011_eq P hmd5 hsha secret cr sr label n nonKey heven

/-- The same without the parity hypothesis. It is FALSE: for odd `L_S` the RFC's S2 is the LAST
    `ceil(L_S/2)` bytes (sharing the middle byte with S1) while the code takes `secret[ceil(L_S/2):]`. -/
def tls10_prf_eq_rfc_statement : Prop :=
  ∀ (P : Prims), P.Lawful → ∀ (secret cr sr label : Bytes) (n : Nat) (nonKey : Bool),
    prfTls1011 P secret cr sr label n nonKey =
      .ok (prf10 P.md5 P.sha1 secret label (if nonKey then cr ++ sr else sr ++ cr) n)

theorem tls10_prf_eq_rfc_counterexample : ¬ tls10_prf_eq_rfc_statement := by
  intro h
  have := congrArg Except.toOption (h toyPrims toyPrims_lawful [1, 2, 3] [4] [5] [6] 4 false)
  revert this
  decide +kernel

/-- `dev_tls_10_11_keys` returns RFC 2246 §6.3's partition of
    `PRF(master_secret, "key expansion", server_random + client_random)` for every even-length
    master secret (RFC: 48 bytes), randoms, lengths; TLS 1.1 (RFC 4346) has the same key block. -/
theorem tls10_keys_eq_rfc (P : Prims) (hmd5 : P.md5.Lawful) (hsha : P.sha1.Lawful) (master sr cr : Bytes)
    (keyLen macLen kbLen : Nat) (c : CipherTag) (aead : Bool) (heven : master.length % 2 = 0)
    (hkb : 2 * (if aead then 0 else macLen) + 2 * keyLen ≤ kbLen) (v : ProtocolVersion)
    (hv : v = .tls10 ∨ v = .tls11) (prfHash : HashSuite) :
    (devTls1011Keys P master sr cr keyLen macLen kbLen c aead).map toSpec =
      .ok (connectionKeys P v ⟨prfHash, if aead then 0 else macLen, keyLen, ivLenLegacy c⟩ master cr sr) :=
  devTls1011Keys_eq P hmd5 hsha master sr cr keyLen macLen kbLen c aead heven hkb v hv prfHash

/-- `prf_tls_12` is RFC 5246 §5's `P_<hash>(secret, label + server_random + client_random)`
    with SHA-384 exactly for the suites whose MAC token is SHA384, SHA-256 otherwise. -/
theorem tls12_prf_eq_rfc (P : Prims) (mac : MacTag) (hl : (prfHash12 P mac).Lawful) (secret cr sr label : Bytes)
    (n : Nat) :
    prfTls12 P secret cr sr label n mac =
      .ok (prf12 (tls12PrfHash P (mac = .sha384)) secret label (sr ++ cr) n) := by
  rw [prfTls12_eq P mac hl]
  cases mac <;> rfl

/-- `dev_tls_12_keys` returns RFC 5246 §6.3's partition for every master secret, randoms, lengths
    and cipher class, with no condition on the master secret. -/
theorem tls12_keys_eq_rfc (P : Prims) (mac : MacTag) (hl : (prfHash12 P mac).Lawful) (master cr sr : Bytes)
    (keyLen macLen kbLen : Nat) (c : CipherTag) (aead : Bool)
    (hkb : 2 * (if aead then 0 else macLen) + 2 * keyLen ≤ kbLen) :
    (devTls12Keys P master cr sr keyLen macLen kbLen c aead mac).map toSpec =
      .ok (connectionKeys P .tls12
            ⟨tls12PrfHash P (mac = .sha384), if aead then 0 else macLen, keyLen, ivLenTls12 c aead⟩ master cr sr) := by
  rw [devTls12Keys_eq P mac hl master cr sr keyLen macLen kbLen c aead hkb]
  cases mac <;> rfl

/-- `gen_master_secret_ssl_30` is RFC 6101 §6.1's three-term master secret (MD5 has 16 bytes). -/
theorem master_secret_ssl30_eq_rfc (P : Prims) (hmd5 : P.md5.Lawful) (h16 : P.md5.outLen = 16)
    (pms cr sr : Bytes) :
    genMasterSsl30 P pms cr sr = .ok (ssl3MasterSecret P.md5 P.sha1 pms cr sr) := by
  have h3 : ceilDiv 48 16 = 3 := by decide
  have hlen : (concatTerms (ssl3Term P.md5 P.sha1 pms (cr ++ sr)) 3).length = 3 * 16 := by
    rw [concatTerms_length _ 16 (fun _ => by rw [← h16]; exact hmd5.hash_len _)]
  rw [genMasterSsl30, prfSsl30_eq P hmd5 pms cr sr 48 true (by omega), h16, h3, ssl3MasterSecret]
  simp only [if_true]
  rw [List.take_of_length_le (by omega)]

/-- `gen_master_secret_tls_10_11` is RFC 2246 §8.1's master secret for even-length pre-master secrets. -/
theorem master_secret_tls10_eq_rfc (P : Prims) (hmd5 : P.md5.Lawful) (hsha : P.sha1.Lawful) (pms cr sr : Bytes)
    (heven : pms.length % 2 = 0) :
    genMasterTls1011 P pms cr sr = .ok (masterSecret10 P.md5 P.sha1 pms cr sr) := by
  rw [genMasterTls1011, prfTls1011_eq P hmd5 hsha pms cr sr _ 48 true heven, masterSecret10, bMasterSecret_eq]
  rfl

/-- `gen_master_secret_tls_12` (two unrolled rounds of the suite's PRF hash, `(p1 + p2)[:48]`) is
    RFC 5246 §8.1's master secret for every hash of at least 24 bytes (SHA-256: 32, SHA-384: 48). -/
theorem master_secret_tls12_eq_rfc (P : Prims) (mac : MacTag) (hl : (prfHash12 P mac).Lawful)
    (h24 : 24 ≤ (prfHash12 P mac).outLen) (pms cr sr : Bytes) :
    genMasterTls12 P mac pms cr sr = masterSecret12 (tls12PrfHash P (mac = .sha384)) pms cr sr := by
  have hh : tls12PrfHash P (mac = .sha384) = prfHash12 P mac := by cases mac <;> rfl
  rw [hh]
  unfold genMasterTls12
  generalize prfHash12 P mac = h at *
  have hle : ceilDiv 48 h.outLen ≤ 2 := by
    false_or_by_contra; rename_i hc
    have := (lt_ceilDiv_iff 48 h.outLen 2 hl.outLen_pos).1 (by omega)
    omega
  have := take_concatTerms_of_le (pHashTerm h pms (asc "master secret" ++ (cr ++ sr))) h.outLen
    (fun _ => hl.hmac_len _ _) (ceilDiv 48 h.outLen) 2 48 hle (ceilDiv_mul_ge 48 h.outLen hl.outLen_pos)
  simp only [masterSecret12, prf12, pHash, ← this]
  simp [concatTerms, List.range_succ, pHashTerm, A, bMasterSecret_eq]

/-! ## TLS 1.3 -/

/-- `make_info(l, n)` is exactly RFC 8446 §7.1's `HkdfLabel` (length `n`, label `"tls13 " + l`, empty
    context) whenever both length fields fit, and raises OverflowError otherwise. -/
theorem hkdf_label_bytes (l : Bytes) (n : Nat) :
    makeInfo l n = if n < 65536 ∧ l.length + 6 < 256 then .ok (hkdfLabel n l []) else .error .overflow :=
  makeInfo_eq l n

/-- `dev_tls_13_keys` for every secret list, key length and hash: each key is
    `HKDF-Expand-Label(secret, "key", "", key_length)` and each IV `HKDF-Expand-Label(secret, "iv", "", 12)`
    of the LAST key-log entry with the corresponding label, and `None` when there is no such entry. -/
theorem tls13_keys_eq_rfc (h : HashSuite) (ss : List Secret) (keyLen : Nat) (hk : keyLen < 65536) :
    devTls13Keys h ss keyLen = .ok
      { clientHsKey := (lastOf .clientHandshake ss).map (tls13WriteKey h · keyLen)
        serverHsKey := (lastOf .serverHandshake ss).map (tls13WriteKey h · keyLen)
        clientAppKey := (lastOf .clientTraffic0 ss).map (tls13WriteKey h · keyLen)
        serverAppKey := (lastOf .serverTraffic0 ss).map (tls13WriteKey h · keyLen)
        clientHsIv := (lastOf .clientHandshake ss).map (tls13WriteIv h)
        serverHsIv := (lastOf .serverHandshake ss).map (tls13WriteIv h)
        clientAppIv := (lastOf .clientTraffic0 ss).map (tls13WriteIv h)
        serverAppIv := (lastOf .serverTraffic0 ss).map (tls13WriteIv h) } :=
  devTls13Keys_eq h ss keyLen hk

/-- What `generate_keys` + `Decryptor.parse_keys` install for TLS 1.3 when all four traffic secrets
    are in the key log, for every suite, hash and secret values: the current keys are the RFC's
    handshake traffic keys, the stored application keys the RFC's application traffic keys
    (hash = the suite's hash, C14). -/
theorem tls13_installed_eq_rfc (P : Prims) (s : Suite) (ss : List Secret) (cr sr : Bytes)
    (hk : s.keyLen < 65536) (hne : ss ≠ [])
    (ch sh ca sa : Bytes) (h1 : lastOf .clientHandshake ss = some ch) (h2 : lastOf .serverHandshake ss = some sh)
    (h3 : lastOf .clientTraffic0 ss = some ca) (h4 : lastOf .serverTraffic0 ss = some sa) :
    let h := macSuite P s.mac
    generateKeys P .tls13 s ss cr sr = .ok (some (.tls13
      { clientKey := some (tls13WriteKey h ch s.keyLen), clientIv := some (tls13WriteIv h ch)
        serverKey := some (tls13WriteKey h sh s.keyLen), serverIv := some (tls13WriteIv h sh)
        clientHsKey := some (tls13WriteKey h ch s.keyLen), clientHsIv := some (tls13WriteIv h ch)
        serverHsKey := some (tls13WriteKey h sh s.keyLen), serverHsIv := some (tls13WriteIv h sh)
        clientAppKey := some (tls13WriteKey h ca s.keyLen), clientAppIv := some (tls13WriteIv h ca)
        serverAppKey := some (tls13WriteKey h sa s.keyLen), serverAppIv := some (tls13WriteIv h sa) })) := by
  cases ss with
  | nil => exact absurd rfl hne
  | cons x xs =>
    simp [generateKeys, devTls13Keys_eq _ _ _ hk, h1, h2, h3, h4, bind, Except.bind, pure, Except.pure,
      parseKeys13]

/-- The fallback of `parse_keys`: without handshake secrets the connection starts on the RFC's
    APPLICATION traffic keys (TLExport's documented way to skip an undecryptable handshake). -/
theorem tls13_installed_without_handshake_secrets (P : Prims) (s : Suite) (ss : List Secret) (cr sr : Bytes)
    (hk : s.keyLen < 65536) (hne : ss ≠ [])
    (ca sa : Bytes) (h1 : lastOf .clientHandshake ss = none) (h2 : lastOf .serverHandshake ss = none)
    (h3 : lastOf .clientTraffic0 ss = some ca) (h4 : lastOf .serverTraffic0 ss = some sa) :
    let h := macSuite P s.mac
    generateKeys P .tls13 s ss cr sr = .ok (some (.tls13
      { clientKey := some (tls13WriteKey h ca s.keyLen), clientIv := some (tls13WriteIv h ca)
        serverKey := some (tls13WriteKey h sa s.keyLen), serverIv := some (tls13WriteIv h sa)
        clientHsKey := some (tls13WriteKey h ca s.keyLen), clientHsIv := some (tls13WriteIv h ca)
        serverHsKey := some (tls13WriteKey h sa s.keyLen), serverHsIv := some (tls13WriteIv h sa)
        clientAppKey := some (tls13WriteKey h ca s.keyLen), clientAppIv := some (tls13WriteIv h ca)
        serverAppKey := some (tls13WriteKey h sa s.keyLen), serverAppIv := some (tls13WriteIv h sa) })) := by
  cases ss with
  | nil => exact absurd rfl hne
  | cons x xs =>
    simp [generateKeys, devTls13Keys_eq _ _ _ hk, h1, h2, h3, h4, bind, Except.bind, pure, Except.pure,
      parseKeys13]

/-- `update_keys` switches one direction to the stored application keys. -/
theorem tls13_update_keys (d : Installed13) :
    (updateKeys d true).serverKey = d.serverAppKey ∧ (updateKeys d true).serverIv = d.serverAppIv ∧
    (updateKeys d true).clientKey = d.clientKey ∧ (updateKeys d false).clientKey = d.clientAppKey ∧
    (updateKeys d false).clientIv = d.clientAppIv ∧ (updateKeys d false).serverKey = d.serverKey := by
  simp [updateKeys]

/-! ## QUIC v1 -/

/-- `dev_initial_keys(dcid, V1, False)` is RFC 9001 §5.2 for every connection ID: v1 salt,
    "client in"/"server in" secrets of hash length, AES-128-GCM key/IV/HP labels - for every hash
    with SHA-256's output length 32 (the code writes the literal 32). -/
theorem quic_initial_eq_rfc (h : HashSuite) (h32 : h.outLen = 32) (dcid : Bytes) :
    devInitialKeys h dcid .v1 false =
      .ok (some { clientKey := (quicInitialClientKeys h dcid).key, clientIv := (quicInitialClientKeys h dcid).iv,
                  clientHp := (quicInitialClientKeys h dcid).hp, serverKey := (quicInitialServerKeys h dcid).key,
                  serverIv := (quicInitialServerKeys h dcid).iv, serverHp := (quicInitialServerKeys h dcid).hp }) :=
  devInitialKeys_eq h h32 dcid

/-- … and `set_initial_decryptor` hands the `Initial` decryptor server key, server IV, client key,
    client IV in that order. -/
theorem quic_initial_decryptor_eq_rfc (h : HashSuite) (h32 : h.outLen = 32) (dcid : Bytes) :
    (setInitialDecryptor h dcid .v1 false).map (fun o => o.map (·.1)) =
      .ok (some [(quicInitialServerKeys h dcid).key, (quicInitialServerKeys h dcid).iv,
                 (quicInitialClientKeys h dcid).key, (quicInitialClientKeys h dcid).iv]) := by
  simp only [setInitialDecryptor, devInitialKeys_eq h h32, bind, Except.bind, pure, Except.pure, Except.map,
    Option.map]

/-- With `chacha20 = True` (`handle_packet` re-derives so when the first offered suite is 0x1303,
    DESIGN §9 item 9) the installed Initial key has 32 bytes: not RFC 9001 §5.2, which fixes
    AES-128-GCM for Initial packets of every connection. -/
theorem quic_initial_chacha_flag_not_rfc (h : HashSuite) (hl : h.Lawful) (h32 : h.outLen = 32) (dcid : Bytes) :
    ∃ k, devInitialKeys h dcid .v1 true = .ok (some k) ∧ k.clientKey.length = 32 ∧
      (quicInitialClientKeys h dcid).key.length = 16 := by
  simp only [devInitialKeys, if_true, makeInfo_ok bClientIn 32 (by decide) (by decide),
    makeInfo_ok bServerIn 32 (by decide) (by decide), makeInfo_ok bQuicKey 32 (by decide) (by decide),
    makeInfo_ok bQuicIv 12 (by decide) (by decide), makeInfo_ok bQuicHp 32 (by decide) (by decide), bind,
    Except.bind, pure, Except.pure]
  exact ⟨_, rfl, hl.expand_len _ _ _ (by omega), hl.expand_len _ _ _ (by omega)⟩

/-- `dev_quic_keys(key_length, secrets, hash, V1)` for every secret list, key length and hash:
    handshake, 1-RTT and 0-RTT key, IV and header-protection key are RFC 9001 §5.1's
    "quic key" / "quic iv" / "quic hp" expansions of the last key-log entry with the label; the
    early entries are `None` when absent; without the four handshake/application secrets Python
    raises UnboundLocalError. -/
theorem quic_keys_eq_rfc (h : HashSuite) (keyLen : Nat) (ss : List Secret) (hk : keyLen < 65536) :
    devQuicKeys h keyLen ss .v1 =
      match lastOf .clientHandshake ss, lastOf .serverHandshake ss, lastOf .clientTraffic0 ss,
            lastOf .serverTraffic0 ss with
      | some ch, some sh, some ca, some sa => .ok
          { clientHs := tripleSpec (quicPacketKeys h ch keyLen), serverHs := tripleSpec (quicPacketKeys h sh keyLen)
            clientApp := tripleSpec (quicPacketKeys h ca keyLen), serverApp := tripleSpec (quicPacketKeys h sa keyLen)
            clientAppSec := ca, serverAppSec := sa
            clientEarly := (lastOf .clientEarly ss).map fun s => tripleSpec (quicPacketKeys h s keyLen)
            serverEarly := (lastOf .serverEarly ss).map fun s => tripleSpec (quicPacketKeys h s keyLen) }
      | _, _, _, _ => .error .unbound :=
  devQuicKeys_eq h keyLen ss hk

/-- `set_tls_decryptors` for the four QUIC v1 suites: hash and key length are the suite's
    (RFC 8446 B.4), the Handshake decryptor holds the RFC's handshake keys, the Application list
    starts with the RFC's generation 0 (keys, IVs and the two traffic secrets), the Early decryptor
    the 0-RTT key and IV when the early secret is in the key log. -/
theorem quic_installed_eq_rfc (P : Prims) (code : Nat) (keyLen : Nat) (hcode : quicSuiteKeyLength code = some keyLen)
    (ss : List Secret) (ch sh ca sa : Bytes)
    (h1 : lastOf .clientHandshake ss = some ch) (h2 : lastOf .serverHandshake ss = some sh)
    (h3 : lastOf .clientTraffic0 ss = some ca) (h4 : lastOf .serverTraffic0 ss = some sa) :
    let h := if quicSuiteUsesSha384 code then P.sha384 else P.sha256
    ∃ q, setTlsDecryptors P code ss .v1 = .ok (some q) ∧
      q.handshake = [quicKey h sh keyLen, quicIv h sh, quicKey h ch keyLen, quicIv h ch] ∧
      q.application = [specGeneration h keyLen sa ca 0] ∧
      q.early = (lastOf .clientEarly ss).map (fun s => [quicKey h s keyLen, quicIv h s]) ∧
      q.keys.clientHs.hp = quicHp h ch keyLen ∧ q.keys.serverHs.hp = quicHp h sh keyLen ∧
      q.keys.clientApp.hp = quicHp h ca keyLen ∧ q.keys.serverApp.hp = quicHp h sa keyLen ∧
      q.keys.clientEarly.map (·.hp) = (lastOf .clientEarly ss).map (quicHp h · keyLen) := by
  have hc : code = 0x1301 ∨ code = 0x1302 ∨ code = 0x1303 ∨ code = 0x1304 := by
    unfold quicSuiteKeyLength at hcode
    by_cases a : code = 0x1301; · exact .inl a
    by_cases b : code = 0x1302; · exact .inr (.inl b)
    by_cases c : code = 0x1303; · exact .inr (.inr (.inl c))
    by_cases d : code = 0x1304; · exact .inr (.inr (.inr d))
    simp [a, b, c, d] at hcode
  rcases hc with rfl | rfl | rfl | rfl <;>
  · have hkl : keyLen < 65536 := by simp [quicSuiteKeyLength] at hcode; omega
    simp [quicSuiteKeyLength] at hcode
    subst hcode
    simp only [setTlsDecryptors, quicSuiteParams, quicSuiteUsesSha384]
    simp only [Nat.reduceEqDiff, if_true, if_false, decide_true, decide_false, devQuicKeys_eq _ _ _ hkl, h1, h2, h3, h4,
      bind, Except.bind, pure, Except.pure]
    refine ⟨_, rfl, rfl, rfl, ?_, rfl, rfl, rfl, rfl, ?_⟩ <;>
      cases lastOf .clientEarly ss <;> rfl

/-- `n` key updates starting from the RFC's generation 0 give the RFC's generation `n`
    (RFC 9001 §6.1: `secret_<n+1> = HKDF-Expand-Label(secret_<n>, "quic ku", "", secret_<n>.Length)`,
    new key and IV from the new secret) - for every hash, key length and pair of traffic secrets of
    the hash's length (the code asks for `hash.digest_size` bytes where the RFC says
    `secret.Length`). By induction on `n`. -/
theorem quic_key_update_eq_rfc (h : HashSuite) (hl : h.Lawful) (keyLen : Nat) (hk : keyLen < 65536)
    (ho : h.outLen < 65536) (server0 client0 : Bytes) (hs : server0.length = h.outLen)
    (hc : client0.length = h.outLen) (n : Nat) :
    iterKeyUpdate h keyLen n (specGeneration h keyLen server0 client0 0) =
      .ok (specGeneration h keyLen server0 client0 n) :=
  iterKeyUpdate_eq h hl keyLen hk ho server0 client0 hs hc n

/-- `key_update` for traffic secrets of ANY length. FALSE: the code always asks for `hash.digest_size`
    bytes, RFC 9001 §6.1 for `secret_<n>.Length` (the two agree for genuine TLS 1.3 traffic secrets). -/
def quic_key_update_any_length_statement : Prop :=
  ∀ (h : HashSuite), h.Lawful → ∀ (keyLen : Nat), keyLen < 65536 → h.outLen < 65536 → ∀ (server0 client0 : Bytes),
    keyUpdate h keyLen (specGeneration h keyLen server0 client0 0) = .ok (specGeneration h keyLen server0 client0 1)

theorem quic_key_update_any_length_counterexample : ¬ quic_key_update_any_length_statement := by
  intro h
  have := congrArg (fun r => r.toOption.map (fun d => d.map List.length))
    (h (toy 4) (toy_lawful 4 (by decide)) 16 (by decide) (by decide) [1] [2])
  revert this
  decide +kernel

/-- `check_key_epoch` keeps `decryptors["Application"]` equal to the RFC's generations `0 … k-1` and,
    when it appends, appends the RFC's generation `k` - for every event sequence (by induction over
    the calls, each step being this lemma). -/
theorem quic_epoch_generations (h : HashSuite) (hl : h.Lawful) (keyLen : Nat) (hk : keyLen < 65536)
    (ho : h.outLen < 65536) (s0 c0 : Bytes) (hs : s0.length = h.outLen) (hc : c0.length = h.outLen)
    (st : Epochs) (k : Nat) (hpos : 0 < k)
    (happ : st.application = (List.range k).map (specGeneration h keyLen s0 c0)) (phase : Nat) (isServer : Bool) :
    ∃ st' k', checkKeyEpoch h keyLen st phase isServer = .ok st' ∧ k ≤ k' ∧ k' ≤ k + 1 ∧
      st'.application = (List.range k').map (specGeneration h keyLen s0 c0) :=
  checkKeyEpoch_generations h hl keyLen hk ho s0 c0 hs hc st k hpos happ phase isServer

/-! ## what `generate_keys` installs (SSL 3.0 … TLS 1.2) -/

def specVersion : Version → Option ProtocolVersion
  | .ssl30 => some .ssl30 | .tls10 => some .tls10 | .tls11 => some .tls11 | .tls12 => some .tls12
  | .tls13 => none

/-- the bulk cipher a resolved suite denotes (the interface to C14); `none` for inconsistent
    parameter combinations that no table entry resolves to -/
def suiteBulk (s : Suite) : Option Bulk :=
  match s.cipher, s.modeFlag with
  | .aes, false => some .aesCbc
  | .camellia, false => some .camelliaCbc
  | .camellia, true => some .camelliaGcm
  | .tripleDES, false => some .tripleDesEdeCbc
  | .idea, false => some .ideaCbc
  | .rc4, false => some .rc4_128
  | .chacha, true => some .chacha20Poly1305
  | .aesgcm, true => some .aesGcm
  | .aesccm, true => some .aesCcm
  | _, _ => none

/-- the RFC's SecurityParameters for a resolved suite in a protocol version -/
def rfcParams (P : Prims) (pv : ProtocolVersion) (s : Suite) (b : Bulk) : SecurityParameters :=
  { prfHash := tls12PrfHash P (s.mac = .sha384)
    macKeyLength := if b.isAead then 0 else (macSuite P s.mac).outLen
    encKeyLength := s.keyLen
    fixedIvLength := recordIvLength pv b }

/-- the IV length the implementation's tables give -/
def implIvLength (v : Version) (s : Suite) : Nat :=
  match v with
  | .tls12 => ivLenTls12 s.cipher s.modeFlag
  | _ => ivLenLegacy s.cipher

/-- The implementation's IV-length tables agree with the RFCs wherever the RFC takes an IV from the
    key block (SSL 3.0 / TLS 1.0 CBC: one cipher block - 8 bytes for 3DES and IDEA, 16 for AES and
    Camellia; TLS 1.2 AEAD: 4, ChaCha20-Poly1305: 12). -/
theorem iv_table_eq_rfc (v : Version) (pv : ProtocolVersion) (hv : specVersion v = some pv) (s : Suite) (b : Bulk)
    (hb : suiteBulk s = some b) (haead : b.isAead = true → v = .tls12) (hiv : 0 < recordIvLength pv b) :
    implIvLength v s = recordIvLength pv b := by
  obtain ⟨c, cf, mf, kl, m⟩ := s
  cases v <;> cases c <;> cases mf <;> simp [suiteBulk] at hb <;> subst hb <;> simp [specVersion] at hv <;>
    subst hv <;> first
      | rfl
      | (exfalso; revert hiv; decide)
      | (exfalso; have := haead rfl; cases this)

/-- The table as it was before the repair (`IDEA` missing from the 8-byte branch) is wrong for the
    IDEA suites in SSL 3.0 and TLS 1.0: 4 bytes where the RFC needs the 8-byte block. -/
def ivLenLegacyUnrepaired : CipherTag → Nat
  | .aes | .camellia => 16
  | .tripleDES => 8
  | _ => 4

theorem unrepaired_idea_iv_not_rfc :
    ivLenLegacyUnrepaired .idea ≠ recordIvLength .tls10 .ideaCbc ∧
    ivLenLegacyUnrepaired .idea ≠ recordIvLength .ssl30 .ideaCbc ∧
    ivLenLegacy .idea = recordIvLength .tls10 .ideaCbc := by decide

/-- **Installed = schedule.** For every master secret (even length for TLS 1.0/1.1; the RFC's is 48
    bytes), every pair of randoms, every protocol version SSL 3.0 … TLS 1.2, every resolved suite that
    denotes a bulk cipher (AEAD only in TLS 1.2) and every hash suite: what `generate_keys` hands to
    the `Decryptor` when the key log holds the connection's `CLIENT_RANDOM` master secret is - in
    the RFC's order - the RFC's client/server MAC key (empty for AEAD), client/server key, and, where
    the RFC's record protection takes an IV from the key block at all, the client/server IV of the
    RFC's length. The randoms enter as `server_random + client_random` in all four versions. -/
theorem installed_eq_schedule (P : Prims) (hP : P.Lawful) (v : Version) (pv : ProtocolVersion)
    (hv : specVersion v = some pv) (s : Suite) (b : Bulk) (hb : suiteBulk s = some b)
    (haead : b.isAead = true → v = .tls12) (hcf : v = .ssl30 → s.cryptoFlag = s.modeFlag)
    (ms cr sr : Bytes) (rest : List Secret)
    (hms : v = .tls10 ∨ v = .tls11 → ms.length % 2 = 0)
    (hssl : v = .ssl30 →
      2 * s.keyLen + 2 * (macSuite P s.mac).outLen + 2 * ivLenLegacy s.cipher ≤ 10 * P.md5.outLen) :
    ∃ k, generateKeys P v s ((.clientRandom, ms) :: rest) cr sr = .ok (some (.legacy k)) ∧
      (let rfc := connectionKeys P pv (rfcParams P pv s b) ms cr sr
       k.clientMac = rfc.clientWriteMacKey ∧ k.serverMac = rfc.serverWriteMacKey ∧
       k.clientKey = rfc.clientWriteKey ∧ k.serverKey = rfc.serverWriteKey ∧
       (0 < recordIvLength pv b → k.clientIv = rfc.clientWriteIv ∧ k.serverIv = rfc.serverWriteIv)) := by
  have hmf : s.modeFlag = b.isAead := by
    obtain ⟨c, cf, mf, kl, m⟩ := s
    cases c <;> cases mf <;> simp [suiteBulk] at hb <;> subst hb <;> rfl
  -- the exact result with the implementation's IV length
  have key : ∃ k, generateKeys P v s ((.clientRandom, ms) :: rest) cr sr = .ok (some (.legacy k)) ∧
      toSpec k = connectionKeys P pv
        ⟨tls12PrfHash P (s.mac = .sha384), if b.isAead then 0 else (macSuite P s.mac).outLen, s.keyLen,
         implIvLength v s⟩ ms cr sr := by
    have hlen : 2 * (if b.isAead = true then 0 else (macSuite P s.mac).outLen) + 2 * s.keyLen ≤
        2 * s.keyLen + 2 * (macSuite P s.mac).outLen := by split <;> omega
    cases v with
    | tls13 => simp [specVersion] at hv
    | tls12 =>
      simp [specVersion] at hv; subst hv
      have hl : (prfHash12 P s.mac).Lawful := by unfold prfHash12; split; exact hP.sha384; exact hP.sha256
      have := tls12_keys_eq_rfc P s.mac hl ms cr sr s.keyLen (macSuite P s.mac).outLen
        (2 * s.keyLen + 2 * (macSuite P s.mac).outLen) s.cipher s.modeFlag (by rw [hmf]; exact hlen)
      simp only [generateKeys]
      cases hd : devTls12Keys P ms cr sr s.keyLen (macSuite P s.mac).outLen
          (2 * s.keyLen + 2 * (macSuite P s.mac).outLen) s.cipher s.modeFlag s.mac with
      | error e => rw [hd] at this; simp [Except.map] at this
      | ok k =>
        rw [hd] at this
        simp only [Except.map, Except.ok.injEq] at this
        exact ⟨k, rfl, by simp only [implIvLength]; rw [this, hmf]⟩
    | tls10 =>
      simp [specVersion] at hv; subst hv
      have := tls10_keys_eq_rfc P hP.md5 hP.sha1 ms sr cr s.keyLen (macSuite P s.mac).outLen
        (2 * s.keyLen + 2 * (macSuite P s.mac).outLen) s.cipher s.modeFlag (hms (.inl rfl))
        (by rw [hmf]; exact hlen) .tls10 (.inl rfl) (tls12PrfHash P (s.mac = .sha384))
      simp only [generateKeys]
      cases hd : devTls1011Keys P ms sr cr s.keyLen (macSuite P s.mac).outLen
          (2 * s.keyLen + 2 * (macSuite P s.mac).outLen) s.cipher s.modeFlag with
      | error e => rw [hd] at this; simp [Except.map] at this
      | ok k =>
        rw [hd] at this
        simp only [Except.map, Except.ok.injEq] at this
        exact ⟨k, rfl, by simp only [implIvLength]; rw [this, hmf]⟩
    | tls11 =>
      simp [specVersion] at hv; subst hv
      have := tls10_keys_eq_rfc P hP.md5 hP.sha1 ms sr cr s.keyLen (macSuite P s.mac).outLen
        (2 * s.keyLen + 2 * (macSuite P s.mac).outLen) s.cipher s.modeFlag (hms (.inr rfl))
        (by rw [hmf]; exact hlen) .tls11 (.inr rfl) (tls12PrfHash P (s.mac = .sha384))
      simp only [generateKeys]
      cases hd : devTls1011Keys P ms sr cr s.keyLen (macSuite P s.mac).outLen
          (2 * s.keyLen + 2 * (macSuite P s.mac).outLen) s.cipher s.modeFlag with
      | error e => rw [hd] at this; simp [Except.map] at this
      | ok k =>
        rw [hd] at this
        simp only [Except.map, Except.ok.injEq] at this
        exact ⟨k, rfl, by simp only [implIvLength]; rw [this, hmf]⟩
    | ssl30 =>
      simp [specVersion] at hv; subst hv
      have hcf' : s.cryptoFlag = b.isAead := by rw [hcf rfl, hmf]
      have := ssl30_keys_eq_rfc P hP.md5 ms sr cr s.keyLen (macSuite P s.mac).outLen
        (2 * s.keyLen + 2 * (macSuite P s.mac).outLen) s.cipher s.cryptoFlag (by rw [hcf']; exact hlen)
        (hssl rfl) (tls12PrfHash P (s.mac = .sha384))
      simp only [generateKeys]
      cases hd : devSsl30Keys P ms sr cr s.keyLen (macSuite P s.mac).outLen
          (2 * s.keyLen + 2 * (macSuite P s.mac).outLen) s.cipher s.cryptoFlag with
      | error e => rw [hd] at this; simp [Except.map] at this
      | ok k =>
        rw [hd] at this
        simp only [Except.map, Except.ok.injEq] at this
        exact ⟨k, rfl, by simp only [implIvLength]; rw [this, hcf']⟩
  obtain ⟨k, hk, hspec⟩ := key
  refine ⟨k, hk, ?_⟩
  have hprf : (tls12PrfHash P (s.mac = .sha384)).Lawful := by
    unfold tls12PrfHash; split; exact hP.sha384; exact hP.sha256
  have hmk := connectionKeys_macs_keys P hP pv (tls12PrfHash P (s.mac = .sha384)) hprf
    (if b.isAead then 0 else (macSuite P s.mac).outLen) s.keyLen (implIvLength v s) (recordIvLength pv b) ms cr sr
  have f1 : k.clientMac = (toSpec k).clientWriteMacKey := rfl
  have f2 : k.serverMac = (toSpec k).serverWriteMacKey := rfl
  have f3 : k.clientKey = (toSpec k).clientWriteKey := rfl
  have f4 : k.serverKey = (toSpec k).serverWriteKey := rfl
  have f5 : k.clientIv = (toSpec k).clientWriteIv := rfl
  have f6 : k.serverIv = (toSpec k).serverWriteIv := rfl
  simp only [rfcParams]
  refine ⟨by rw [f1, hspec]; exact hmk.1, by rw [f2, hspec]; exact hmk.2.1, by rw [f3, hspec]; exact hmk.2.2.1,
    by rw [f4, hspec]; exact hmk.2.2.2, ?_⟩
  intro hiv
  have := iv_table_eq_rfc v pv hv s b hb haead hiv
  rw [f5, f6, hspec, this]
  exact ⟨rfl, rfl⟩

/-! ## the pre-master-secret path (`RSA <client_random> <pre_master_secret>` key-log entries) -/

/-- the `gen_master_secret_*` call `generate_keys` makes for the version -/
def genMaster (P : Prims) (v : Version) (mac : MacTag) (pms cr sr : Bytes) : R Bytes :=
  match v with
  | .ssl30 => genMasterSsl30 P pms cr sr
  | .tls10 | .tls11 => genMasterTls1011 P pms cr sr
  | _ => .ok (genMasterTls12 P mac pms cr sr)

/-- RFC 6101 §6.1 / RFC 2246 §8.1 / RFC 5246 §8.1 -/
def rfcMasterSecret (P : Prims) (pv : ProtocolVersion) (s : Suite) (pms cr sr : Bytes) : Bytes :=
  match pv with
  | .ssl30 => ssl3MasterSecret P.md5 P.sha1 pms cr sr
  | .tls10 | .tls11 => masterSecret10 P.md5 P.sha1 pms cr sr
  | .tls12 => masterSecret12 (tls12PrfHash P (s.mac = .sha384)) pms cr sr

/-- With an `RSA` entry `generate_keys` does exactly what it does with a `CLIENT_RANDOM` entry holding
    the master secret it derives first: same randoms in the same places, same lengths. -/
theorem generateKeys_premaster (P : Prims) (v : Version) (hv : v ≠ .tls13) (s : Suite) (pms cr sr : Bytes)
    (rest : List Secret) :
    generateKeys P v s ((.rsa, pms) :: rest) cr sr =
      (genMaster P v s.mac pms cr sr).bind fun ms => generateKeys P v s ((.clientRandom, ms) :: rest) cr sr := by
  cases v with
  | tls13 => exact absurd rfl hv
  | tls12 => rfl
  | tls10 => simp only [generateKeys, genMaster, bind, Except.bind]
  | tls11 => simp only [generateKeys, genMaster, bind, Except.bind]
  | ssl30 => simp only [generateKeys, genMaster, bind, Except.bind]

/-- **Installed = schedule, from a pre-master secret.** For every even-length pre-master secret (the
    RFC's has 48 bytes), randoms, version SSL 3.0 … TLS 1.2 and suite: the installed MAC keys, keys and
    IVs are the RFC's for the RFC's master secret (`"master secret"`, client random first; P_SHA384 for the
    SHA384 suites in TLS 1.2). Hash sizes enter because the code asks for the literal 48 bytes / two
    unrolled rounds: MD5 = 16 bytes for SSL 3.0, PRF hash ≥ 24 bytes for TLS 1.2.
    (RFC 7627 extended master secrets are outside this path: they need the handshake transcript.) -/
theorem installed_eq_schedule_premaster (P : Prims) (hP : P.Lawful) (v : Version) (pv : ProtocolVersion)
    (hv : specVersion v = some pv) (s : Suite) (b : Bulk) (hb : suiteBulk s = some b)
    (haead : b.isAead = true → v = .tls12) (hcf : v = .ssl30 → s.cryptoFlag = s.modeFlag)
    (pms cr sr : Bytes) (rest : List Secret)
    (hpms : v = .tls10 ∨ v = .tls11 → pms.length % 2 = 0)
    (h16 : v = .ssl30 → P.md5.outLen = 16)
    (h24 : v = .tls12 → 24 ≤ (prfHash12 P s.mac).outLen)
    (hssl : v = .ssl30 →
      2 * s.keyLen + 2 * (macSuite P s.mac).outLen + 2 * ivLenLegacy s.cipher ≤ 10 * P.md5.outLen) :
    ∃ k, generateKeys P v s ((.rsa, pms) :: rest) cr sr = .ok (some (.legacy k)) ∧
      (let rfc := connectionKeys P pv (rfcParams P pv s b) (rfcMasterSecret P pv s pms cr sr) cr sr
       k.clientMac = rfc.clientWriteMacKey ∧ k.serverMac = rfc.serverWriteMacKey ∧
       k.clientKey = rfc.clientWriteKey ∧ k.serverKey = rfc.serverWriteKey ∧
       (0 < recordIvLength pv b → k.clientIv = rfc.clientWriteIv ∧ k.serverIv = rfc.serverWriteIv)) := by
  have hne : v ≠ .tls13 := by intro h; subst h; simp [specVersion] at hv
  have hgm : genMaster P v s.mac pms cr sr = .ok (rfcMasterSecret P pv s pms cr sr) := by
    cases v with
    | tls13 => exact absurd rfl hne
    | tls12 =>
      simp [specVersion] at hv; subst hv
      have hl : (prfHash12 P s.mac).Lawful := by unfold prfHash12; split; exact hP.sha384; exact hP.sha256
      simp only [genMaster, rfcMasterSecret, master_secret_tls12_eq_rfc P s.mac hl (h24 rfl)]
    | tls10 =>
      simp [specVersion] at hv; subst hv
      exact master_secret_tls10_eq_rfc P hP.md5 hP.sha1 pms cr sr (hpms (.inl rfl))
    | tls11 =>
      simp [specVersion] at hv; subst hv
      exact master_secret_tls10_eq_rfc P hP.md5 hP.sha1 pms cr sr (hpms (.inr rfl))
    | ssl30 =>
      simp [specVersion] at hv; subst hv
      exact master_secret_ssl30_eq_rfc P hP.md5 (h16 rfl) pms cr sr
  rw [generateKeys_premaster P v hne, hgm]
  refine installed_eq_schedule P hP v pv hv s b hb haead hcf _ cr sr rest ?_ hssl
  intro h10
  have : pv = .tls10 ∨ pv = .tls11 := by
    rcases h10 with rfl | rfl <;> simp [specVersion] at hv <;> simp [← hv]
  rcases this with rfl | rfl <;>
    simp [rfcMasterSecret, masterSecret10, prf10_length P hP.md5 hP.sha1]

/-- The call as it was before the repair (`dev_tls_10_11_keys(master_secret, client_random, server_random, …)`
    in the `RSA` branch, against the signature `(master_secret, server_random, client_random, …)`) derives a
    different key block: the two randoms are not interchangeable. -/
theorem unrepaired_premaster_call_swaps_randoms :
    (devTls1011Keys toyPrims [1, 2] [3] [4] 1 1 4 .aes false).toOption ≠
      (devTls1011Keys toyPrims [1, 2] [4] [3] 1 1 4 .aes false).toOption := by decide +kernel

/-! ## Non-vacuity: every hypothesis above is met by concrete, non-trivial inputs -/

/-- a lawful instance with the real digest sizes (16, 20, 32, 48) -/
def sizedToy : Prims := ⟨toy 16, toy 20, toy 32, toy 48⟩

theorem sizedToy_lawful : sizedToy.Lawful :=
  ⟨toy_lawful 16 (by decide), toy_lawful 20 (by decide), toy_lawful 32 (by decide), toy_lawful 48 (by decide)⟩

-- installed_eq_schedule: TLS 1.0 AES-128-CBC-SHA, SSL 3.0 IDEA-CBC-SHA, TLS 1.2 AES-256-GCM-SHA384, TLS 1.2 ChaCha20
example := installed_eq_schedule sizedToy sizedToy_lawful .tls10 .tls10 rfl ⟨.aes, false, false, 16, .sha1⟩ .aesCbc rfl
  (by decide) (by decide) (List.replicate 48 7) [1, 2] [3, 4] [] (by decide) (by decide)
example := installed_eq_schedule sizedToy sizedToy_lawful .ssl30 .ssl30 rfl ⟨.idea, false, false, 16, .sha1⟩ .ideaCbc rfl
  (by decide) (by decide) (List.replicate 48 7) [1, 2] [3, 4] [] (by decide) (by decide)
example := installed_eq_schedule sizedToy sizedToy_lawful .tls12 .tls12 rfl ⟨.aesgcm, true, true, 32, .sha384⟩ .aesGcm rfl
  (by decide) (by decide) (List.replicate 48 7) [1, 2] [3, 4] [(.other, [9])] (by decide) (by decide)
example := installed_eq_schedule sizedToy sizedToy_lawful .tls12 .tls12 rfl ⟨.chacha, true, true, 32, .sha256⟩
  .chacha20Poly1305 rfl (by decide) (by decide) [5, 6, 7] [1, 2] [3, 4] [] (by decide) (by decide)
example := installed_eq_schedule_premaster sizedToy sizedToy_lawful .ssl30 .ssl30 rfl ⟨.tripleDES, false, false, 24, .sha1⟩
  .tripleDesEdeCbc rfl (by decide) (by decide) (List.replicate 48 9) [1, 2] [3, 4] [] (by decide) (by decide) (by decide)
  (by decide)
example := installed_eq_schedule_premaster sizedToy sizedToy_lawful .tls12 .tls12 rfl ⟨.aes, false, false, 32, .sha384⟩
  .aesCbc rfl (by decide) (by decide) (List.replicate 48 9) [1, 2] [3, 4] [] (by decide) (by decide) (by decide)
  (by decide)
-- the installed values are real data of the right sizes (AES-128-CBC-SHA in TLS 1.0: 20/20/16/16/16/16)
example : ((generateKeys sizedToy .tls10 ⟨.aes, false, false, 16, .sha1⟩ [(.clientRandom, List.replicate 48 7)] [1, 2]
    [3, 4]).toOption.map fun
      | some (.legacy k) => [k.clientMac.length, k.serverMac.length, k.clientKey.length, k.serverKey.length,
                             k.clientIv.length, k.serverIv.length, if k.clientKey = k.serverKey then 1 else 0]
      | _ => []) = some [20, 20, 16, 16, 16, 16, 0] := by decide +kernel
-- ssl30_keys_eq_rfc's bound is met by the largest SSL 3.0 suite (AES-256-CBC-SHA: 2*32 + 2*20 + 2*16 = 136 <= 160)
example : 2 * 32 + 2 * 20 + 2 * ivLenLegacy .aes ≤ 10 * sizedToy.md5.outLen := by decide
-- tls10_prf_eq_rfc_partial / tls10_keys_eq_rfc: a 48-byte master secret is even
example : (List.replicate 48 (7 : UInt8)).length % 2 = 0 := by decide
-- hkdf_label_bytes: both branches occur
example : makeInfo bQuicKey 16 = .ok [0, 16, 14, 0x74, 0x6c, 0x73, 0x31, 0x33, 0x20, 0x71, 0x75, 0x69, 0x63, 0x20, 0x6b,
    0x65, 0x79, 0] := by rfl
example : makeInfo bQuicKey 65536 = .error .overflow := by rfl
-- tls13 / quic: key logs with and without handshake secrets
example : lastOf .clientTraffic0 [(.clientTraffic0, [1]), (.serverTraffic0, [2]), (.clientTraffic0, [3])] = some [3] := by
  decide
example := tls13_installed_eq_rfc sizedToy ⟨.aesgcm, true, true, 16, .sha256⟩
  [(.serverTraffic0, [4]), (.clientHandshake, [1]), (.serverHandshake, [2]), (.clientTraffic0, [3])] [] [] (by decide)
  (by decide) [1] [2] [3] [4] (by decide) (by decide) (by decide) (by decide)
example := tls13_installed_without_handshake_secrets sizedToy ⟨.aesgcm, true, true, 16, .sha256⟩
  [(.serverTraffic0, [4]), (.clientTraffic0, [3])] [] [] (by decide) (by decide) [3] [4] (by decide) (by decide)
  (by decide) (by decide)
example := quic_installed_eq_rfc sizedToy 0x1302 32 (by decide)
  [(.serverTraffic0, [4]), (.clientHandshake, [1]), (.clientEarly, [5]), (.serverHandshake, [2]), (.clientTraffic0, [3])]
  [1] [2] [3] [4] (by decide) (by decide) (by decide) (by decide)
example := quic_initial_eq_rfc (toy 32) rfl [0x83, 0x94, 0xc8, 0xf0, 0x3e, 0x51, 0x57, 0x08]
example := quic_key_update_eq_rfc (toy 32) (toy_lawful 32 (by decide)) 16 (by decide) (by decide)
  (List.replicate 32 1) (List.replicate 32 2) (by decide) (by decide) 4
-- successive generations really are different secrets
example : quicGeneration (toy 32) (List.replicate 32 1) 1 ≠ quicGeneration (toy 32) (List.replicate 32 1) 2 ∧
    quicGeneration (toy 32) (List.replicate 32 1) 2 ≠ quicGeneration (toy 32) (List.replicate 32 1) 3 := by
  decide +kernel

end TLX.Props.C15
