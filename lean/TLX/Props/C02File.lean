import TLX.Props.C01File
import TLX.Props.C01File2
import TLX.Props.C02Capstone
import TLX.Spec.QuicCapture
set_option linter.unusedSimpArgs false
set_option linter.unusedVariables false
set_option autoImplicit false
namespace TLX.Props.C02File
open TLX TLX.MainLoop TLX.Spec.Demux TLX.Lemmas.MainLoop TLX.Dissect TLX.OutBytes
open TLX.Container (Item)
open TLX.Props.C01File TLX.Spec.FrameBuild TLX.Spec.TlsCapture TLX.Spec.QuicCapture TLX.Props.C12Dissect
open TLX.Spec.QuicSender TLX.Spec.QuicConnection TLX.Spec.QuicPackets TLX.QuicPipeline TLX.Props.C02Capstone

/-! ### a datagram of the connection, as dpkt and the main loop see it -/

theorem dissect_dg (fl : Flow) (d : Bool) (fr : Spec.FrameBuild.Frame) (u : Udp) (h : IsDg fl d fr u) :
    dissect fr.encode = .ok (viewOf fr) := by
  obtain ⟨hwf, hu, _, _, hnet⟩ := h
  unfold viewOf
  cases hn : fr.net with
  | v4 h4 => exact dissect_build_v4 fr h4 hn hwf
  | v6 h6 =>
    rw [hn] at hnet
    obtain ⟨_, hex, _, _⟩ := hnet
    refine dissect_build_v6 fr h6 hn hwf (by rw [hex]; intro e he; cases he) ?_
    rw [hex, hu]
    simp [encChain, Upper.proto]

theorem pktOf_dg (fl : Flow) (d : Bool) (fr : Spec.FrameBuild.Frame) (u : Udp) (h : IsDg fl d fr u) (tag : Nat) :
    pktOf tag (viewOf fr) =
      ⟨.udp, if d then serverEp fl else clientEp fl, if d then clientEp fl else serverEp fl, u.payload, true, tag⟩ := by
  obtain ⟨_, hu, hsp, hdp, hnet⟩ := h
  unfold viewOf
  cases hn : fr.net with
  | v4 h4 =>
    rw [hn] at hnet
    obtain ⟨_, hs, hd⟩ := hnet
    simp only [pktOf, hu, transportOf, hs, hd, hsp, hdp, clientEp, serverEp]
    cases d <;> rfl
  | v6 h6 =>
    rw [hn] at hnet
    obtain ⟨_, _, hs, hd⟩ := hnet
    simp only [pktOf, hu, transportOf, hs, hd, hsp, hdp, clientEp, serverEp]
    cases d <;> rfl

theorem infoOf_dg (fl : Flow) (d : Bool) (fr : Spec.FrameBuild.Frame) (u : Udp) (h : IsDg fl d fr u) (us : Nat) :
    infoOf us (viewOf fr) = ⟨0, us, fr.srcMac, fr.dstMac, fl.v6⟩ := by
  obtain ⟨_, hu, _, _, hnet⟩ := h
  unfold viewOf
  cases hn : fr.net with
  | v4 h4 =>
    rw [hn] at hnet
    simp only [infoOf, hu, transportOf, hnet.1]
  | v6 h6 =>
    rw [hn] at hnet
    simp only [infoOf, hu, transportOf, hnet.1]

/-! ### `handle_quic_packet` with one session in the list -/

section Routing
variable {κ τ ο : Type}

theorem quicHandle_new (M : QuicMachine κ τ ο) (o : Opts) (kl : List κ) (dcid : Bytes) (v : MainLoop.Version) (p : Pkt) :
    quicHandleH M o kl (.long dcid v) [] p = [quicNew M o kl (.long dcid v) p] := by
  simp [quicHandleH, quicLoop]

/-- a long-header datagram on the session's address pair goes to the session with the DCID of its first packet, whether or
    not that DCID is a known connection ID -/
theorem quicHandle_long (M : QuicMachine κ τ ο) (o : Opts) (kl : List κ) (dcid : Bytes) (v : MainLoop.Version) (p : Pkt)
    (s : QuicSess τ) (hm : s.matches p = true) :
    quicHandleH M o kl (.long dcid v) [s] p = [{ s with st := M.feed s.st kl p dcid v }] := by
  have ht : quicTake M (.long dcid v) p s = some dcid := by
    unfold quicTake
    simp only [cidMatch]
    by_cases hc : 0 < dcid.length ∧ (dcid ∈ M.clientCids s.st ∨ dcid ∈ M.serverCids s.st)
    · simp [hc]
    · simp [hc, hm, Hdr.dcid]
  simp [quicHandleH, quicLoop, ht, Hdr.ver]

/-- what a passive observer needs to find a short-header packet's connection ID among the ones it knows (`cands`: those the
    RECEIVER issued): the packet's DCID is one of them or empty, and no LONGER known one happens to be a prefix of the
    packet's bytes after the first (the length of the DCID is not on the wire: RFC 9000 §17.3.1) -/
def RouteOk (cands : List Bytes) (wire dcid : Bytes) : Prop :=
  (dcid = [] ∨ (dcid ∈ cands ∧ dcid <+: wire.drop 1)) ∧
  ∀ c ∈ cands, c ≠ [] → c <+: wire.drop 1 → c.length ≤ dcid.length

theorem shortPick_route (cands : List Bytes) (wire dcid : Bytes) (h : RouteOk cands wire dcid) :
    (shortPick cands wire).getD [] = dcid := by
  obtain ⟨h1, h2⟩ := h
  cases hp : shortPick cands wire with
  | none =>
    rcases h1 with rfl | ⟨hm, hpre⟩
    · rfl
    · by_cases hne : dcid = []
      · subst hne; rfl
      · exact absurd hpre ((shortPick_eq_none_iff _ _).mp hp dcid hm hne)
  | some c =>
    obtain ⟨c1, c2, c3⟩ := shortPick_some hp
    have hle := h2 c c1 c2 c3
    rcases h1 with rfl | ⟨hm, hpre⟩
    · have : c.length = 0 := by simpa using hle
      exact absurd (List.eq_nil_of_length_eq_zero this) c2
    · by_cases hne : dcid = []
      · subst hne
        have : c.length = 0 := by simpa using hle
        exact absurd (List.eq_nil_of_length_eq_zero this) c2
      · have hge := shortPick_longest hp dcid hm hne hpre
        have hlen : c.length = dcid.length := by omega
        simp only [Option.getD_some]
        rw [List.prefix_iff_eq_take] at c3 hpre
        rw [c3, hpre, hlen]

theorem quicHandle_short (M : QuicMachine κ τ ο) (o : Opts) (kl : List κ) (p : Pkt) (s : QuicSess τ)
    (hm : s.matches p = true) (dcid : Bytes)
    (hr : RouteOk (shortCandidates (M.clientCids s.st) (M.serverCids s.st) (s.side p)) p.payload dcid) :
    quicHandleH M o kl .short [s] p = [{ s with st := M.feed s.st kl p dcid .unknown }] := by
  have hg := shortPick_route _ _ _ hr
  have ht : quicTake M .short p s = some dcid := by
    unfold quicTake cidMatch
    simp only
    cases hp : shortPick (shortCandidates (M.clientCids s.st) (M.serverCids s.st) (s.side p)) p.payload with
    | none => rw [hp] at hg; simp at hg; simp [hm, Hdr.dcid, hg]
    | some c => rw [hp] at hg; simp at hg; simp [hg]
  simp [quicHandleH, quicLoop, ht, Hdr.ver]

end Routing

/-! ### what the main loop reads in the first bytes of the connection's datagrams -/

section Header

theorem bits_of_byte : ∀ n : Fin 256,
    (((UInt8.ofNat n.val).toNat >>> 7) &&& 1 = 1 ↔ Quic.Dissect.isLong (UInt8.ofNat n.val) = true) ∧
    ((UInt8.ofNat n.val >>> 6 = 1 ∨ UInt8.ofNat n.val >>> 6 = 3) → ((UInt8.ofNat n.val).toNat &&& 0x40) >>> 6 = 1) := by
  decide +kernel

theorem longBit_iff (b : UInt8) : ((b.toNat >>> 7) &&& 1 = 1) ↔ Quic.Dissect.isLong b = true := by
  have := (bits_of_byte ⟨b.toNat, b.toNat_lt⟩).1
  simpa using this

theorem fixedBit_of_shift (b : UInt8) (h : b >>> 6 = 1 ∨ b >>> 6 = 3) : (b.toNat &&& 0x40) >>> 6 = 1 := by
  have := (bits_of_byte ⟨b.toNat, b.toNat_lt⟩).2
  simp only [UInt8.ofNat_toNat] at this
  exact this h

theorem shift6_mask (a m c : UInt8) (hc : c >>> 6 = 0) : (a ^^^ (m &&& c)) >>> 6 = a >>> 6 := by
  rw [UInt8.shiftRight_xor, UInt8.shiftRight_and, hc, UInt8.and_zero, UInt8.xor_zero]

theorem long_first_shift : ∀ t : Fin 3, ∀ r l : Fin 4, UInt8.ofNat (0xC0 + t.val * 16 + r.val * 4 + l.val) >>> 6 = 3 := by
  decide

/-- the classification and the header `handle_quic_packet` parses for a datagram that starts with a protected long-header
    packet of version 1: QUIC (fixed bit), long header, the packet's DCID, version 1 -/
theorem long_wire_header (p : Long) (hr : p.reserved < 4) (h1 : 1 ≤ p.pn.length) (h4 : p.pn.length ≤ 4)
    (hv : p.version = [0, 0, 0, 1]) (hd : p.dcid.length ≤ 20) (hs63 : p.scid.length ≤ 63) (m more : Bytes) :
    ∃ b0 rest, p.protect m ++ more = b0 :: rest ∧ (b0.toNat &&& 0x40) >>> 6 = 1 ∧
      parseHeader1 b0 rest = .long p.dcid .v1 := by
  have hb : p.ty.bits < 3 := by cases p.ty <;> simp [LType.bits]
  have hf6 : p.first >>> 6 = 3 := by
    have := long_first_shift ⟨p.ty.bits, hb⟩ ⟨p.reserved, hr⟩ ⟨p.pn.length - 1, by omega⟩
    simpa [Long.first] using this
  have hL : Quic.Dissect.isLong p.first = true := by
    have := (Lemmas.QuicDissect.long_first_bits ⟨p.ty.bits, hb⟩ ⟨p.reserved, hr⟩ ⟨p.pn.length - 1, by omega⟩).1
    simpa [Long.first] using this
  generalize hb0 : p.first ^^^ (m.headD 0 &&& 0x0f) = b0
  have e6 : b0 >>> 6 = 3 := by rw [← hb0, shift6_mask _ _ _ (by decide)]; exact hf6
  have eL : Quic.Dissect.isLong b0 = true := by
    rw [← hb0, Lemmas.QuicDissect.isLong_mask _ _ _ (by decide)]; exact hL
  refine ⟨b0, p.mid ++ xorBytes p.pn ((m.drop 1).take p.pn.length) ++ p.payload ++ more, ?_, fixedBit_of_shift b0 (.inr e6), ?_⟩
  · rw [← hb0]; simp [Long.protect, applyMask]
  · -- the header fields
    have hshape : b0 :: (p.mid ++ xorBytes p.pn ((m.drop 1).take p.pn.length) ++ p.payload ++ more) =
        b0 :: (p.version ++ (UInt8.ofNat p.dcid.length :: (p.dcid ++ (UInt8.ofNat p.scid.length :: (p.scid ++
          (p.tokenPart ++ p.lengthField ++ xorBytes p.pn ((m.drop 1).take p.pn.length) ++ p.payload ++ more)))))) := by
      simp [Long.mid, List.append_assoc]
    obtain ⟨_, f1, f2, _, f4, _⟩ := Lemmas.QuicDissect.header_facts b0 p.version p.dcid p.scid _ _ (by rw [hv]; rfl)
      hs63 hshape
    unfold parseHeader1
    rw [if_pos ((longBit_iff b0).mpr eL)]
    have hlen : ¬ (b0 :: (p.mid ++ xorBytes p.pn ((m.drop 1).take p.pn.length) ++ p.payload ++ more)).length < 6 := by
      rw [hshape]; simp only [List.length_cons, List.length_append, hv, List.length_nil]; omega
    simp only [hlen, if_false, f2]
    have hdl : (UInt8.ofNat p.dcid.length).toNat = p.dcid.length := by simp; omega
    rw [hdl, f4, f1, hv, show versionOf (Bytes.beNat [0, 0, 0, 1]) = .v1 by decide]

/-- … and for a datagram that is one protected short-header packet: QUIC, short header -/
theorem short_wire_header (p : Short) (hwf : p.wf) (m : Bytes) :
    ∃ b0 rest, p.protect m = b0 :: rest ∧ (b0.toNat &&& 0x40) >>> 6 = 1 ∧ parseHeader1 b0 rest = .short ∧
      rest = p.dcid ++ xorBytes p.pn ((m.drop 1).take p.pn.length) ++ p.payload := by
  obtain ⟨hL, _, _, h6⟩ := Lemmas.QuicDissect.short_first p hwf
  generalize hb0 : p.first ^^^ (m.headD 0 &&& 0x1f) = b0
  have e6 : b0 >>> 6 = 1 := by rw [← hb0, shift6_mask _ _ _ (by decide)]; exact h6
  have eL : Quic.Dissect.isLong b0 = false := by
    rw [← hb0, Lemmas.QuicDissect.isLong_mask _ _ _ (by decide)]; exact hL
  refine ⟨b0, _, by rw [← hb0]; simp [Short.protect, applyMask], fixedBit_of_shift b0 (.inl e6), ?_, rfl⟩
  unfold parseHeader1
  rw [if_neg (by rw [longBit_iff, eL]; simp)]

end Header

/-! ### the session list of the main loop along the connection's datagrams -/

section Runs
open TLX.Quic.Session TLX.Cipher TLX.Props.C02Session
variable (maskFn : Quic.Dissect.MaskFn) (H : Crypto.Prims) (Pc : Cipher.Prims) (info : Nat → Pipeline.Info)

/-- handshake datagrams (long headers) on the session's address pair: the loop feeds the session exactly as `hsFeedAll` -/
theorem quicRun_hs (o : Opts) (items : List (List Keylog.Key × MainLoop.Pkt × DgH)) (s : QuicSess QConn)
    (hm : ∀ x ∈ items, s.matches x.2.1 = true) :
    quicRun (quicMachine maskFn H Pc info) o [s]
        (items.map fun x => (⟨x.1, .long (dgDcid x.2.2) .v1, x.2.1⟩ : QIn Keylog.Key)) =
      [{ s with st := hsFeedAll (quicMachine maskFn H Pc info) s.st items }] := by
  induction items generalizing s with
  | nil => simp [quicRun, hsFeedAll]
  | cons x rest ih =>
    obtain ⟨kl, p, d⟩ := x
    have h1 := hm (kl, p, d) (List.mem_cons_self ..)
    simp only [List.map_cons, quicRun, List.foldl_cons, hsFeedAll]
    rw [quicHandle_long _ o kl _ _ p s h1]
    exact ih _ (fun y hy => hm y (List.mem_cons_of_mem _ hy))

/-- RFC 9000 §5.1 seen by the observer: every 1-RTT datagram is addressed to a connection ID its RECEIVER issued (or to the
    empty one), and no longer CID that receiver issued is a prefix of the protected packet (`RouteOk`); `cc` / `sc` grow with
    the NEW_CONNECTION_ID frames as in `Send1` -/
def Routes1 (w : Dg1 → Bytes) : (cc sc : List Bytes) → List Dg1 → Prop
  | _, _, [] => True
  | cc, sc, d :: rest =>
    RouteOk (if d.x.srv then cc else sc) (w d) d.x.dcid ∧
    Routes1 w (if d.x.srv then cc else issue cc (newCids d.x.frames))
      (if d.x.srv then issue sc (newCids d.x.frames) else sc) rest

/-- 1-RTT datagrams of a conformant history on the session's address pair: the loop finds each packet's connection ID and
    feeds the session exactly as `feedAll` (the hypothesis under which `quic_one_rtt_connection_exact` speaks) -/
theorem quicRun_one (o : Opts) (kl : List Keylog.Key) (L : SealLaws Pc) (sel : SuiteSel) (v : Quic.Session.Version)
    (k0 : AppKeys) (hpC hpS : Bytes) (chacha : Bool) (hk : KeysWf (params H Pc kl) sel v k0)
    (items : List (MainLoop.Pkt × Dg1)) (s : QuicSess QConn) (gc gs lc ls : Nat) (cc sc : List Bytes)
    (hcl : s.client = s.st.client) (hr : s.st.raised = none)
    (hest : Est H Pc kl sel v k0 hpC hpS chacha s.st.st gc gs lc ls cc sc)
    (hm : ∀ x ∈ items, s.matches x.1 = true)
    (hcar : ∀ x ∈ items, Carries info s.st (wireOf H Pc L sel v k0) x.1 x.2)
    (hsend : Send1 maskFn H Pc L sel v k0 hpC hpS chacha gc gs lc ls cc sc (items.map (·.2)))
    (hroute : Routes1 (wireOf H Pc L sel v k0) cc sc (items.map (·.2))) :
    quicRun (quicMachine maskFn H Pc info) o [s] (items.map fun x => (⟨kl, .short, x.1⟩ : QIn Keylog.Key)) =
      [{ s with st := C02Capstone.feedAll (quicMachine maskFn H Pc info) s.st (items.map fun x => (kl, x.1, x.2)) }] := by
  induction items generalizing s gc gs lc ls cc sc with
  | nil => simp [quicRun, C02Capstone.feedAll]
  | cons x rest ih =>
    obtain ⟨p, d⟩ := x
    obtain ⟨h1, h2, h3, h4, h5, h6, h7, h8⟩ := hsend
    obtain ⟨r1, r2⟩ := hroute
    obtain ⟨w1, w2, w3⟩ := hcar (p, d) (List.mem_cons_self ..)
    have hmp := hm (p, d) (List.mem_cons_self ..)
    obtain ⟨s1, s2, s3⟩ := datagram_step maskFn H Pc kl L sel v k0 hpC hpS chacha hk s.st.st gc gs lc ls cc sc hest d
      h1 h2 h3 h4 h5 h6 h7
    have hfeed : (quicMachine maskFn H Pc info).feed s.st kl p d.x.dcid .unknown =
        { s.st with st := (handleDatagram maskFn H (params H Pc kl) s.st.st (!d.x.srv) d.x.dcid .unknown d.x.ts
                          (wireOf H Pc L sel v k0 d)).1, raised := none } := by
      simp only [quicMachine, hr, sver]
      rw [w1, w2, w3]
      unfold wireOf
      rw [s1]
    -- routing: the candidates are the CIDs the receiver issued
    have hside : shortCandidates ((quicMachine maskFn H Pc info).clientCids s.st)
        ((quicMachine maskFn H Pc info).serverCids s.st) (s.side p) = (if d.x.srv then cc else sc) := by
      have e1 : (quicMachine maskFn H Pc info).clientCids s.st = cc := hest.cc
      have e2 : (quicMachine maskFn H Pc info).serverCids s.st = sc := hest.sc
      rw [e1, e2]
      unfold Sess.side
      rw [hmp, hcl]
      simp only [if_true]
      have : (p.src == s.st.client) = !d.x.srv := w3
      cases hs : d.x.srv <;> simp [hs] at this <;> simp [this, shortCandidates, hs]
    simp only [List.map_cons, quicRun, List.foldl_cons, C02Capstone.feedAll]
    rw [quicHandle_short _ o kl p s hmp d.x.dcid (by rw [hside, w1]; exact r1), hfeed]
    exact ih _ _ _ _ _ _ _ hcl rfl s3 (fun y hy => hm y (List.mem_cons_of_mem _ hy))
      (fun y hy => by
        obtain ⟨a, b, c⟩ := hcar y (List.mem_cons_of_mem _ hy)
        exact ⟨a, b, c⟩) h8 r2

end Runs

/-! ### a capture described from the senders' side -/

/-- a described capture: handshake datagrams and 1-RTT datagrams of the connection (each with the time the reader yields for
    it, the frame of the independent encoder that carries it and its UDP part), and anything else -/
inductive QEv
  | hs (t : Container.Time) (fr : Spec.FrameBuild.Frame) (u : Udp) (d : DgH)
  | one (t : Container.Time) (fr : Spec.FrameBuild.Frame) (u : Udp) (d : Dg1)
  | foreign (e : CapEv)

def QEv.cap : QEv → CapEv
  | .hs t fr _ _ => ⟨t, fr.encode, viewOf fr⟩
  | .one t fr _ _ => ⟨t, fr.encode, viewOf fr⟩
  | .foreign e => e

/-- the main loop does not take the packet for QUIC: not UDP, or UDP without payload, or (without `-g`) a first payload byte
    without the QUIC fixed bit -/
def NotQuic (o : Opts) (p : MainLoop.Pkt) : Prop :=
  p.l4 = .udp → p.payload = [] ∨ (o.greasy = false ∧ ∀ b0 r, p.payload = b0 :: r → (b0.toNat &&& 0x40) >>> 6 ≠ 1)

/-- the first packet of a handshake datagram is a QUIC v1 long-header packet (it carries what the main loop routes by) -/
def HdrOk (d : DgH) : Prop :=
  ∃ q qs, d.pkts = q :: qs ∧ LongShape q.x ∧ 1 ≤ q.x.pnLen ∧ q.x.pnLen ≤ 4

/-- `wH` / `w1`: the UDP payload of a handshake / 1-RTT datagram of this connection (`dgWire` / `wireOf`: packet protection
    and header protection under the connection's keys) -/
def QDescribed (fl : Flow) (wH : DgH → Bytes) (w1 : Dg1 → Bytes) (o : Opts) (evs : List QEv) : Prop :=
  ∀ ev ∈ evs, match ev with
    | .hs t fr u d => IsDg fl d.srv fr u ∧ u.payload = wH d ∧ d.ts = Container.usOfFloat t.toFloat ∧ HdrOk d
    | .one t fr u d => IsDg fl d.x.srv fr u ∧ u.payload = w1 d ∧ d.x.ts = Container.usOfFloat t.toFloat ∧
        1 ≤ d.x.pnLen ∧ d.x.pnLen ≤ 4
    | .foreign e => dissect e.buf = .ok e.d ∧ ∀ tag, NotQuic o (pktOf tag e.d)

def dgPkt (fl : Flow) (srv : Bool) (payload : Bytes) (tag : Nat) : MainLoop.Pkt :=
  ⟨.udp, if srv then serverEp fl else clientEp fl, if srv then clientEp fl else serverEp fl, payload, true, tag⟩

/-- the handshake datagrams with the `Packet` objects the loop makes of them (tag = position in the capture) -/
def hsItems (fl : Flow) (kl : List Keylog.Key) : Nat → List QEv → List (List Keylog.Key × MainLoop.Pkt × DgH)
  | _, [] => []
  | n, .hs _ _ u d :: rest => (kl, dgPkt fl d.srv u.payload n, d) :: hsItems fl kl (n + 1) rest
  | n, _ :: rest => hsItems fl kl (n + 1) rest

def oneItems (fl : Flow) : Nat → List QEv → List (MainLoop.Pkt × Dg1)
  | _, [] => []
  | n, .one _ _ u d :: rest => (dgPkt fl d.x.srv u.payload n, d) :: oneItems fl (n + 1) rest
  | n, _ :: rest => oneItems fl (n + 1) rest

def noOne : QEv → Bool | .one .. => false | _ => true
def noHs : QEv → Bool | .hs .. => false | _ => true

theorem capOk_of_qdescribed (fl : Flow) (wH : DgH → Bytes) (w1 : Dg1 → Bytes) (o : Opts) (evs : List QEv)
    (h : QDescribed fl wH w1 o evs) (ht : ∀ e ∈ evs.map QEv.cap, Ingest.isMinusOne e.t = false) :
    CapOk (evs.map QEv.cap) := by
  intro e he
  refine ⟨?_, ht e he⟩
  obtain ⟨ev, hev, rfl⟩ := List.mem_map.mp he
  have := h ev hev
  cases ev with
  | hs t fr u d => exact dissect_dg fl d.srv fr u this.1
  | one t fr u d => exact dissect_dg fl d.x.srv fr u this.1
  | foreign e => exact this.1

theorem quicView_cons (o : Opts) (kl : List Keylog.Key) (p : MainLoop.Pkt) (l : List (MainLoop.Item Keylog.Key)) :
    quicView o kl (.frame p :: l) = quicView o kl [.frame p] ++ quicView o kl l := by
  simp only [quicView]
  split
  · rename_i ks hk; exact absurd hk (classify_frame_not_keys o p ks)
  · simp
  · simp

theorem quicView_notQuic (o : Opts) (hc : o.checksumTest = false) (p : MainLoop.Pkt) (h : NotQuic o p)
    (kl : List Keylog.Key) : quicView o kl [.frame p] = [] := by
  have hcl : ∀ p' b0 r, (classify o (.frame p) : Class Keylog.Key) ≠ .quic p' b0 r := by
    intro p' b0 r hq
    cases hl : p.l4 with
    | tcp =>
      simp only [classify, hl] at hq
      repeat' split at hq
      all_goals cases hq
    | other => simp only [classify, hl] at hq; cases hq
    | udp =>
      cases hpl : p.payload with
      | nil => simp only [classify, hl, hpl] at hq; cases hq
      | cons b r' =>
        simp only [classify, hl, hpl, hc, Bool.false_and, Bool.false_eq_true, if_false] at hq
        rcases h hl with hh | ⟨hg, hh⟩
        · rw [hpl] at hh; cases hh
        · have := hh b r' hpl
          simp only [hg, Bool.or_false, decide_eq_true_eq] at hq
          rw [if_neg this] at hq
          cases hq
  simp only [quicView]
  split
  · rfl
  · rename_i p' b0 r hq; exact absurd hq (hcl p' b0 r)
  · rfl

theorem quicView_dgram (o : Opts) (hc : o.checksumTest = false) (p : MainLoop.Pkt) (hu : p.l4 = .udp) (b0 : UInt8)
    (rest : Bytes) (hp : p.payload = b0 :: rest) (hfix : (b0.toNat &&& 0x40) >>> 6 = 1) (kl : List Keylog.Key) :
    quicView o kl [.frame p] = [⟨kl, parseHeader1 b0 rest, p⟩] := by
  simp [quicView, classify, hu, hp, hc, hfix]

/-- what the main loop reads off the first bytes of the connection's datagrams (discharged by `hs_wire_header` /
    `one_wire_header` for the wire formats of the connection) -/
def HsHeader (wH : DgH → Bytes) : Prop :=
  ∀ d, HdrOk d → ∃ b0 rest, wH d = b0 :: rest ∧ (b0.toNat &&& 0x40) >>> 6 = 1 ∧ parseHeader1 b0 rest = .long (dgDcid d) .v1

def OneHeader (w1 : Dg1 → Bytes) : Prop :=
  ∀ d : Dg1, 1 ≤ d.x.pnLen → d.x.pnLen ≤ 4 →
    ∃ b0 rest, w1 d = b0 :: rest ∧ (b0.toNat &&& 0x40) >>> 6 = 1 ∧ parseHeader1 b0 rest = .short

theorem quicView_hsPhase (fl : Flow) (wH : DgH → Bytes) (w1 : Dg1 → Bytes) (o : Opts) (hc : o.checksumTest = false)
    (hH : HsHeader wH) (kl : List Keylog.Key) (evs : List QEv) (hd : QDescribed fl wH w1 o evs)
    (hph : ∀ ev ∈ evs, noOne ev = true) (n : Nat) :
    quicView o kl (itemsFrom n (evs.map QEv.cap)) =
      (hsItems fl kl n evs).map fun x => (⟨x.1, .long (dgDcid x.2.2) .v1, x.2.1⟩ : QIn Keylog.Key) := by
  induction evs generalizing n with
  | nil => rfl
  | cons ev rest ih =>
    have hrest := ih (fun e he => hd e (List.mem_cons_of_mem _ he)) (fun e he => hph e (List.mem_cons_of_mem _ he)) (n + 1)
    have hev := hd ev (List.mem_cons_self ..)
    have hp1 := hph ev (List.mem_cons_self ..)
    rw [List.map_cons, itemsFrom, quicView_cons, hrest]
    cases ev with
    | one t fr u d => cases hp1
    | foreign e =>
      simp only [QEv.cap, hsItems]
      rw [quicView_notQuic o hc _ (hev.2 n) kl]; rfl
    | hs t fr u d =>
      obtain ⟨hdg, hpay, _, hhdr⟩ := hev
      obtain ⟨b0, r, hw, hfix, hparse⟩ := hH d hhdr
      simp only [QEv.cap, hsItems, List.map_cons]
      rw [pktOf_dg fl d.srv fr u hdg n,
        quicView_dgram o hc _ rfl b0 r (by show u.payload = _; rw [hpay, hw]) hfix kl, hparse]
      rfl

theorem quicView_onePhase (fl : Flow) (wH : DgH → Bytes) (w1 : Dg1 → Bytes) (o : Opts) (hc : o.checksumTest = false)
    (hO : OneHeader w1) (kl : List Keylog.Key) (evs : List QEv) (hd : QDescribed fl wH w1 o evs)
    (hph : ∀ ev ∈ evs, noHs ev = true) (n : Nat) :
    quicView o kl (itemsFrom n (evs.map QEv.cap)) =
      (oneItems fl n evs).map fun x => (⟨kl, .short, x.1⟩ : QIn Keylog.Key) := by
  induction evs generalizing n with
  | nil => rfl
  | cons ev rest ih =>
    have hrest := ih (fun e he => hd e (List.mem_cons_of_mem _ he)) (fun e he => hph e (List.mem_cons_of_mem _ he)) (n + 1)
    have hev := hd ev (List.mem_cons_self ..)
    have hp1 := hph ev (List.mem_cons_self ..)
    rw [List.map_cons, itemsFrom, quicView_cons, hrest]
    cases ev with
    | hs t fr u d => cases hp1
    | foreign e =>
      simp only [QEv.cap, oneItems]
      rw [quicView_notQuic o hc _ (hev.2 n) kl]; rfl
    | one t fr u d =>
      obtain ⟨hdg, hpay, _, h1, h4⟩ := hev
      obtain ⟨b0, r, hw, hfix, hparse⟩ := hO d h1 h4
      simp only [QEv.cap, oneItems, List.map_cons]
      rw [pktOf_dg fl d.x.srv fr u hdg n,
        quicView_dgram o hc _ rfl b0 r (by show u.payload = _; rw [hpay, hw]) hfix kl, hparse]
      rfl

theorem itemsFrom_append (a b : List CapEv) (n : Nat) :
    itemsFrom n (a ++ b) = itemsFrom n a ++ itemsFrom (n + a.length) b := by
  induction a generalizing n with
  | nil => simp [itemsFrom]
  | cons e rest ih =>
    have : n + 1 + rest.length = n + (rest.length + 1) := by omega
    simp [itemsFrom, ih (n + 1), this]

theorem quicView_append (o : Opts) (kl : List Keylog.Key) (a : List CapEv) (l : List (MainLoop.Item Keylog.Key)) (n : Nat) :
    quicView o kl (itemsFrom n a ++ l) = quicView o kl (itemsFrom n a) ++ quicView o kl l := by
  induction a generalizing n with
  | nil => simp [itemsFrom, quicView]
  | cons e rest ih =>
    rw [itemsFrom, List.cons_append, quicView_cons, ih (n + 1), quicView_cons o kl _ (itemsFrom (n + 1) rest),
      List.append_assoc]

section WireHeaders
open TLX.Quic.Session TLX.Cipher
variable (H : Crypto.Prims) (Pc : Cipher.Prims)

theorem hsHeader_dgWire (L : SealLaws Pc) (dcid0 : Bytes) (sel : SuiteSel) (sh ch : Bytes) :
    HsHeader (dgWire H Pc L dcid0 sel sh ch) := by
  intro d ⟨q, qs, hp, hshape, h1, h4⟩
  have hw : dgWire H Pc L dcid0 sel sh ch d =
      (longOf q.x (protectedPayload L.aeadSeal (lvlDec H dcid0 sel sh ch q.x.level).alg
        (lvlKey H dcid0 sel sh ch q.x.level q.x.srv) q.x)).protect q.mask ++
      (qs.map (pkWire H Pc L dcid0 sel sh ch)).flatten := by
    unfold dgWire; rw [hp]; rfl
  have hd : dgDcid d = q.x.dcid := by unfold dgDcid; rw [hp]
  rw [hw, hd]
  exact long_wire_header _ (by show q.x.lowBits % 4 < 4; omega)
    (by show 1 ≤ (pnBytes q.x.pnLen q.x.pn).length; rw [pnBytes_length]; exact h1)
    (by show (pnBytes q.x.pnLen q.x.pn).length ≤ 4; rw [pnBytes_length]; exact h4)
    hshape.version hshape.dcid (by have := hshape.scid; show q.x.scid.length ≤ 63; omega) _ _

theorem oneHeader_wireOf (L : SealLaws Pc) (sel : SuiteSel) (v : Quic.Session.Version) (k0 : AppKeys) :
    OneHeader (wireOf H Pc L sel v k0) := by
  intro d h1 h4
  obtain ⟨b0, rest, e1, e2, e3, _⟩ := short_wire_header
    (shortOf d.x (protectedPayload L.aeadSeal sel.alg (genDir (keyUpdate H sel v) k0 d.x.srv d.x.gen) d.x))
    (shortOf_wf _ _ h1 h4) d.mask
  exact ⟨b0, rest, e1, e2, e3⟩

end WireHeaders

/-! ### the layers glued around the connection's QUIC session -/
section Glue
open TLX.Export

/-- **The file layers around one QUIC session.** Capture file (any container the reader model reads as the packets `cap`,
    every frame dissected without exception), key-log file, options without `-c`. If the QUIC view of the capture leaves
    exactly ONE session in `quic_sessions` and `blk` is what it exports, the run gets past option parsing and the read loop,
    and either dies in the write loop (some frame of some session does not fit scapy's fields) or writes a file that
    `ReadsBack` exactly `blk` (after the blocks of the TLS sessions of the capture). -/
theorem export_of_quic_session (mask : Quic.Dissect.MaskFn) (H : Crypto.Prims) (P : Cipher.Prims) (args : Args)
    (legacy : Bool) (keyFile : Option Keylog.Str) (file : Bytes) (cap : List CapEv)
    (hread : Container.read legacy file = .ok (cap.map CapEv.item)) (hok : CapOk cap)
    (hnoc : args.checksumTest = false)
    (pm : List (Int × Int)) (ports : List Int)
    (hpm : Options.getPortMap Options.Src.bare args.mArg = .ok pm)
    (hports : Options.serverPorts Options.Src.builtin Options.Src.pDefault args.pArg = .ok ports)
    (sess : QuicSess QConn)
    (hq : quicRun (quicMachine mask H P (capInfo cap)) (optsOf args ports pm) []
      (quicView (optsOf args ports pm) ((fileKeysOf keyFile).getD []) (itemsFrom 0 cap)) = [sess])
    (blk : List Pipeline.OutPkt)
    (hblk : (quicMachine mask H P (capInfo cap)).out args.metadata sess.st = blk) :
    (∃ e, exportFile mask H P args legacy keyFile file = .abort (.write e)) ∨
    ∃ f, exportFile mask H P args legacy keyFile file = .file f ∧ ReadsBack f blk := by
  have hopt := optionsBad_false args pm ports hpm hports
  have hing := ingest_of_capture Keylog.srcHexClass legacy file cap hread hok
  rw [← hnoc] at hing
  have hout := C18.fresh_run_is (Pipeline.tlsMachine H P (capInfo cap)) (quicMachine mask H P (capInfo cap))
    (optsOf args ports pm) ((fileKeysOf keyFile).getD []) (itemsFrom 0 cap)
  rw [hq] at hout
  simp only [List.flatMap_cons, List.flatMap_nil, List.append_nil] at hout
  have hmd : (optsOf args ports pm).metadata = args.metadata := rfl
  rw [hmd, hblk] at hout
  generalize (List.flatMap (fun s => (Pipeline.tlsMachine H P (capInfo cap)).out s.st
    ((fileKeysOf keyFile).getD [] ++ dsbKeys (optsOf args ports pm) (itemsFrom 0 cap)))
    (tlsRun (Pipeline.tlsMachine H P (capInfo cap)) (optsOf args ports pm) []
      (Spec.Demux.tcpView (optsOf args ports pm) (itemsFrom 0 cap)))) = pre at hout
  have hfr := framesFrom_eq mask H P args (fileKeysOf keyFile) (itemsFrom 0 cap) (capInfo cap) pm ports hpm hports
  rw [hout] at hfr
  rcases Props.Export.exportFrom_stages mask H P freshState args legacy keyFile file hopt with
    ⟨e, hi, _⟩ | ⟨xs, is, out, hi, hf, hw⟩
  · rw [hing] at hi; cases hi
  rw [hing] at hi
  cases hi
  rw [show Ingest.lookup (infosFrom 0 cap) = capInfo cap from rfl, hfr] at hf
  cases hf
  rcases hw with ⟨e, _, he⟩ | ⟨f, hw, he⟩
  · exact .inl ⟨e, he⟩
  · refine .inr ⟨f, he, ?_⟩
    have hwf := Lemmas.Export.framesFrom_wf mask H P freshState args _ _ _ _
      (Lemmas.Export.itemsWith_good _ _ _ _ _ _ hing) hfr
    have hw' : fileOf (pre ++ blk ++ []) = .ok f := by rw [List.append_nil]; exact hw
    obtain ⟨A, C, B, _, _, hB, hr, hg⟩ := file_of_frames pre blk [] f (by rw [List.append_nil]; exact hwf) hw'
    exact ⟨A, C, B, hB, hr, hg⟩

end Glue

theorem lookup_infosFrom (cap : List CapEv) (n i : Nat) (e : CapEv) (h : cap[i]? = some e) :
    Ingest.lookup (infosFrom n cap) (n + i) = infoOf e.us e.d := by
  induction cap generalizing n i with
  | nil => cases h
  | cons c rest ih =>
    cases i with
    | zero =>
      simp only [List.getElem?_cons_zero, Option.some.injEq] at h
      subst h
      rw [infosFrom]; simp only [Nat.add_zero]; rw [Lemmas.Export.lookup_cons_eq]
    | succ j =>
      simp only [List.getElem?_cons_succ] at h
      rw [infosFrom, Lemmas.Export.lookup_cons_ne _ _ _ _ (by omega)]
      have := ih (n + 1) j h
      rw [show n + 1 + j = n + (j + 1) by omega] at this
      exact this

theorem capInfo_at (cap : List CapEv) (i : Nat) (e : CapEv) (h : cap[i]? = some e) :
    capInfo cap i = infoOf e.us e.d := by
  have := lookup_infosFrom cap 0 i e h
  rw [Nat.zero_add] at this
  exact this

theorem hsItems_mem (fl : Flow) (kl : List Keylog.Key) (evs : List QEv) (n : Nat)
    (x : List Keylog.Key × MainLoop.Pkt × DgH) (hx : x ∈ hsItems fl kl n evs) :
    ∃ i t fr u, evs[i]? = some (.hs t fr u x.2.2) ∧ x = (kl, dgPkt fl x.2.2.srv u.payload (n + i), x.2.2) := by
  induction evs generalizing n with
  | nil => cases hx
  | cons ev rest ih =>
    cases ev with
    | hs t fr u d =>
      simp only [hsItems, List.mem_cons] at hx
      rcases hx with rfl | hx
      · exact ⟨0, t, fr, u, rfl, rfl⟩
      · obtain ⟨i, t', fr', u', h1, h2⟩ := ih (n + 1) hx
        exact ⟨i + 1, t', fr', u', by simpa using h1, by rw [h2, show n + 1 + i = n + (i + 1) by omega]⟩
    | one t fr u d =>
      simp only [hsItems] at hx
      obtain ⟨i, t', fr', u', h1, h2⟩ := ih (n + 1) hx
      exact ⟨i + 1, t', fr', u', by simpa using h1, by rw [h2, show n + 1 + i = n + (i + 1) by omega]⟩
    | foreign e =>
      simp only [hsItems] at hx
      obtain ⟨i, t', fr', u', h1, h2⟩ := ih (n + 1) hx
      exact ⟨i + 1, t', fr', u', by simpa using h1, by rw [h2, show n + 1 + i = n + (i + 1) by omega]⟩

theorem oneItems_mem (fl : Flow) (evs : List QEv) (n : Nat) (x : MainLoop.Pkt × Dg1) (hx : x ∈ oneItems fl n evs) :
    ∃ i t fr u, evs[i]? = some (.one t fr u x.2) ∧ x = (dgPkt fl x.2.x.srv u.payload (n + i), x.2) := by
  induction evs generalizing n with
  | nil => cases hx
  | cons ev rest ih =>
    cases ev with
    | one t fr u d =>
      simp only [oneItems, List.mem_cons] at hx
      rcases hx with rfl | hx
      · exact ⟨0, t, fr, u, rfl, rfl⟩
      · obtain ⟨i, t', fr', u', h1, h2⟩ := ih (n + 1) hx
        exact ⟨i + 1, t', fr', u', by simpa using h1, by rw [h2, show n + 1 + i = n + (i + 1) by omega]⟩
    | hs t fr u d =>
      simp only [oneItems] at hx
      obtain ⟨i, t', fr', u', h1, h2⟩ := ih (n + 1) hx
      exact ⟨i + 1, t', fr', u', by simpa using h1, by rw [h2, show n + 1 + i = n + (i + 1) by omega]⟩
    | foreign e =>
      simp only [oneItems] at hx
      obtain ⟨i, t', fr', u', h1, h2⟩ := ih (n + 1) hx
      exact ⟨i + 1, t', fr', u', by simpa using h1, by rw [h2, show n + 1 + i = n + (i + 1) by omega]⟩

theorem dgPkt_src_client (fl : Flow) (hne : clientEp fl ≠ serverEp fl) (srv : Bool) (pl : Bytes) (tag : Nat) :
    ((dgPkt fl srv pl tag).src == clientEp fl) = !srv := by
  cases srv
  · simp [dgPkt]
  · simp only [dgPkt, if_true, Bool.not_true, beq_eq_false_iff_ne, ne_eq]
    exact fun h => hne h.symm

theorem dgPkt_matches {α : Type} (fl : Flow) (s : Sess α) (hs : s.server = serverEp fl) (hc : s.client = clientEp fl)
    (srv : Bool) (pl : Bytes) (tag : Nat) : s.matches (dgPkt fl srv pl tag) = true := by
  cases srv <;> simp [Sess.matches, dgPkt, hs, hc]

/-- the handshake datagrams of a described capture are carried by the `Packet` objects the read loop makes of them -/
theorem carriesH_of_described (fl : Flow) (hne : clientEp fl ≠ serverEp fl) (wH : DgH → Bytes) (w1 : Dg1 → Bytes)
    (o : Opts) (kl : List Keylog.Key) (evs : List QEv) (hd : QDescribed fl wH w1 o evs) (full : List CapEv) (off : Nat)
    (hfull : ∀ i ev, evs[i]? = some ev → full[off + i]? = some ev.cap)
    (c : QConn) (hc : c.client = clientEp fl) :
    ∀ x ∈ hsItems fl kl off evs, x.1 = kl ∧ CarriesH (capInfo full) c wH x.2.1 x.2.2 ∧
      x.2.1 = dgPkt fl x.2.2.srv (wH x.2.2) x.2.1.tag := by
  intro x hx
  obtain ⟨i, t, fr, u, hi, hxe⟩ := hsItems_mem fl kl evs off x hx
  have hmem : QEv.hs t fr u x.2.2 ∈ evs := List.mem_of_getElem? hi
  obtain ⟨hdg, hpay, hts, _⟩ := hd _ hmem
  have hinfo := capInfo_at full (off + i) _ (hfull i _ hi)
  simp only [QEv.cap] at hinfo
  have hx1 : x.2.1 = dgPkt fl x.2.2.srv u.payload (off + i) := by rw [hxe]
  refine ⟨by rw [hxe], ⟨by rw [hx1]; exact hpay, ?_, ?_⟩, by rw [hx1, hpay]; rfl⟩
  · rw [hx1]
    show (capInfo full (off + i)).ts = _
    rw [hinfo, infoOf_dg fl _ fr u hdg]
    exact hts.symm
  · rw [hx1, hc]; exact dgPkt_src_client fl hne _ _ _

theorem carries_of_described (fl : Flow) (hne : clientEp fl ≠ serverEp fl) (wH : DgH → Bytes) (w1 : Dg1 → Bytes)
    (o : Opts) (evs : List QEv) (hd : QDescribed fl wH w1 o evs) (full : List CapEv) (off : Nat)
    (hfull : ∀ i ev, evs[i]? = some ev → full[off + i]? = some ev.cap)
    (c : QConn) (hc : c.client = clientEp fl) :
    ∀ x ∈ oneItems fl off evs, Carries (capInfo full) c w1 x.1 x.2 ∧ x.1 = dgPkt fl x.2.x.srv (w1 x.2) x.1.tag := by
  intro x hx
  obtain ⟨i, t, fr, u, hi, hxe⟩ := oneItems_mem fl evs off x hx
  have hmem : QEv.one t fr u x.2 ∈ evs := List.mem_of_getElem? hi
  obtain ⟨hdg, hpay, hts, _⟩ := hd _ hmem
  have hinfo := capInfo_at full (off + i) _ (hfull i _ hi)
  simp only [QEv.cap] at hinfo
  have hx1 : x.1 = dgPkt fl x.2.x.srv u.payload (off + i) := by rw [hxe]
  refine ⟨⟨by rw [hx1]; exact hpay, ?_, ?_⟩, by rw [hx1, hpay]; rfl⟩
  · rw [hx1]
    show (capInfo full (off + i)).ts = _
    rw [hinfo, infoOf_dg fl _ fr u hdg]
    exact hts.symm
  · rw [hx1, hc]; exact dgPkt_src_client fl hne _ _ _

theorem quicRun_append {κ τ ο : Type} (M : QuicMachine κ τ ο) (o : Opts) (ss : List (QuicSess τ)) (a b : List (QIn κ)) :
    quicRun M o ss (a ++ b) = quicRun M o (quicRun M o ss a) b := by
  simp [quicRun, List.foldl_append]

section Final
open TLX.Export TLX.Quic.Session TLX.Cipher TLX.Props.C02Session TLX.Spec.KeySchedules
variable (maskFn : Quic.Dissect.MaskFn) (H : Crypto.Prims) (Pc : Cipher.Prims)

/-- the core of `quic_capture_exact`: the QUIC view of the described capture leaves exactly ONE session in
    `quic_sessions`, and what it exports is `expectedOut` of the 1-RTT datagrams -/
theorem quic_capture_session (hl : H.Lawful) (h32 : H.sha256.outLen = 32) (L : SealLaws Pc)
    -- the files and the options
    (args : Args) (keyFile : Option Keylog.Str) (evsH evsO : List QEv)
    (htime : ∀ e ∈ (evsH ++ evsO).map QEv.cap, Ingest.isMinusOne e.t = false)
    (hnoc : args.checksumTest = false) (hmeta : args.metadata = false)
    (pm : List (Int × Int)) (ports : List Int)
    (hpm : Options.getPortMap Options.Src.bare args.mArg = .ok pm)
    (hports : Options.serverPorts Options.Src.builtin Options.Src.pDefault args.pArg = .ok ports)
    -- the flow
    (fl : Flow) (hne : clientEp fl ≠ serverEp fl) (hcp : ports.contains (fl.clientPort : Int) = false)
    -- the connection as sent (hypotheses of `quic_connection_exact_conformant`; key log = the key-log file)
    (hs : ConfHs) (hsok : hs.Ok) (ch sh ca sa : Bytes) (early : Option Bytes) (sel : SuiteSel)
    (hsel : selectSuite hs.sh.cipherSuite = some sel)
    (ho : (hashOf H sel.hash).outLen < 65536)
    (hsa : sa.length = (hashOf H sel.hash).outLen) (hca : ca.length = (hashOf H sel.hash).outLen)
    (hkl : KeylogHas ((fileKeysOf keyFile).getD []) hs.ch.random ch sh ca sa early)
    -- the capture of the connection: handshake datagrams (`evsH`), then 1-RTT datagrams (`evsO`), foreign packets anywhere
    (kl0 : List Keylog.Key) (p0 : MainLoop.Pkt) (d0 : DgH) (items : List (List Keylog.Key × MainLoop.Pkt × DgH))
    (hfirst : hsItems fl ((fileKeysOf keyFile).getD []) 0 evsH = (kl0, p0, d0) :: items) (hd0 : d0.srv = false)
    (hdesc : QDescribed fl (dgWire H Pc L (dgDcid d0) sel sh ch)
      (wireOf H Pc L sel .v1 (rfcGen (hashOf H sel.hash) sel.keyLen sa ca 0)) (optsOf args ports pm) (evsH ++ evsO))
    (hphH : ∀ ev ∈ evsH, noOne ev = true) (hphO : ∀ ev ∈ evsO, noHs ev = true)
    (hok : HsDgs maskFn H Pc L (dgDcid d0) sel sh ch trk0 (d0 :: items.map (·.2.2)))
    (hins : allIns (d0 :: items.map (·.2.2)) = hs.ins)
    (hkeyed : (trk0.runDgs (d0 :: items.map (·.2.2))).keyed = true)
    (hsend : Send1 maskFn H Pc L sel .v1 (rfcGen (hashOf H sel.hash) sel.keyLen sa ca 0)
      (quicHp (hashOf H sel.hash) ca sel.keyLen) (quicHp (hashOf H sel.hash) sa sel.keyLen)
      (chachaOf (trk0.runDgs (d0 :: items.map (·.2.2))).core) 0 0
      (trk0.runDgs (d0 :: items.map (·.2.2))).tc.app (trk0.runDgs (d0 :: items.map (·.2.2))).ts.app
      (trk0.runDgs (d0 :: items.map (·.2.2))).cc (trk0.runDgs (d0 :: items.map (·.2.2))).sc
      ((oneItems fl evsH.length evsO).map (·.2)))
    (hroute : Routes1 (wireOf H Pc L sel .v1 (rfcGen (hashOf H sel.hash) sel.keyLen sa ca 0))
      (trk0.runDgs (d0 :: items.map (·.2.2))).cc (trk0.runDgs (d0 :: items.map (·.2.2))).sc
      ((oneItems fl evsH.length evsO).map (·.2)))
    (htimes : (((oneItems fl evsH.length evsO).map (·.2)).map fun d => (d.x.ts, d.x.srv)).Pairwise (· ≠ ·)) :
    CapOk ((evsH ++ evsO).map QEv.cap) ∧
    ∃ sess : QuicSess QConn,
      quicRun (quicMachine maskFn H Pc (capInfo ((evsH ++ evsO).map QEv.cap))) (optsOf args ports pm) []
        (quicView (optsOf args ports pm) ((fileKeysOf keyFile).getD []) (itemsFrom 0 ((evsH ++ evsO).map QEv.cap))) = [sess] ∧
      (quicMachine maskFn H Pc (capInfo ((evsH ++ evsO).map QEv.cap))).out args.metadata sess.st =
        expectedOut ((quicMachine maskFn H Pc (capInfo ((evsH ++ evsO).map QEv.cap))).new (optsOf args ports pm) p0)
          ((oneItems fl evsH.length evsO).map (·.2)) := by
  -- names
  generalize hcapdef : (evsH ++ evsO).map QEv.cap = cap at *
  generalize hkeys : (fileKeysOf keyFile).getD [] = keys at *
  generalize hodef : optsOf args ports pm = o at *
  have hoc : o.checksumTest = false := by rw [← hodef]; exact hnoc
  have hop : o.ports = ports := by rw [← hodef]; rfl
  let QM := quicMachine maskFn H Pc (capInfo cap)
  let wH := dgWire H Pc L (dgDcid d0) sel sh ch
  let w1 := wireOf H Pc L sel .v1 (rfcGen (hashOf H sel.hash) sel.keyLen sa ca 0)
  have hcapOk : CapOk cap := by
    rw [← hcapdef]; exact capOk_of_qdescribed fl wH w1 o _ hdesc (by rw [hcapdef]; exact htime)
  have hdH : QDescribed fl wH w1 o evsH := fun ev he => hdesc ev (List.mem_append_left _ he)
  have hdO : QDescribed fl wH w1 o evsO := fun ev he => hdesc ev (List.mem_append_right _ he)
  have hfullH : ∀ i ev, evsH[i]? = some ev → cap[0 + i]? = some ev.cap := by
    intro i ev h
    rw [← hcapdef, Nat.zero_add, List.getElem?_map, List.getElem?_append_left (List.getElem?_eq_some_iff.mp h).1, h]; rfl
  have hfullO : ∀ i ev, evsO[i]? = some ev → cap[evsH.length + i]? = some ev.cap := by
    intro i ev h
    rw [← hcapdef, List.getElem?_map, List.getElem?_append_right (by omega), Nat.add_sub_cancel_left, h]; rfl
  -- the first datagram creates the session
  have hp0mem : (kl0, p0, d0) ∈ hsItems fl keys 0 evsH := by rw [hfirst]; simp
  let c0 := QM.new o p0
  have hc0cl : c0.client = clientEp fl ∧ (rolesOf o.ports p0) = (serverEp fl, clientEp fl) := by
    obtain ⟨_, _, hp⟩ := carriesH_of_described fl hne wH w1 o keys evsH hdH cap 0 hfullH
      { c0 with client := clientEp fl } rfl _ hp0mem
    simp only at hp
    have hr : rolesOf o.ports p0 = (serverEp fl, clientEp fl) := by
      have hc' : ¬ (fl.clientPort : Int) ∈ ports := by simpa using hcp
      rw [hp, hd0, hop]
      simp [rolesOf, dgPkt, clientEp, hc']
    exact ⟨congrArg Prod.snd hr, hr⟩
  obtain ⟨hc0c, hroles⟩ := hc0cl
  -- the QUIC view of the capture and the run over its handshake part
  have hview : quicView o keys (itemsFrom 0 cap) =
      ((kl0, p0, d0) :: items).map (fun x => (⟨x.1, .long (dgDcid x.2.2) .v1, x.2.1⟩ : QIn Keylog.Key)) ++
      (oneItems fl evsH.length evsO).map (fun x => (⟨keys, .short, x.1⟩ : QIn Keylog.Key)) := by
    rw [← hcapdef, List.map_append, itemsFrom_append, quicView_append,
      quicView_hsPhase fl wH w1 o hoc (hsHeader_dgWire H Pc L _ sel sh ch) keys evsH hdH hphH 0, hfirst,
      List.length_map, Nat.zero_add,
      quicView_onePhase fl wH w1 o hoc (oneHeader_wireOf H Pc L sel .v1 _) keys evsO hdO hphO evsH.length]
  have hcarAll := carriesH_of_described fl hne wH w1 o keys evsH hdH cap 0 hfullH c0 hc0c
  rw [hfirst] at hcarAll
  have hkl0 : kl0 = keys := (hcarAll _ (List.mem_cons_self ..)).1
  let s0 : QuicSess QConn := ⟨serverEp fl, clientEp fl, QM.feed c0 kl0 p0 (dgDcid d0) .v1⟩
  have hrunH : quicRun QM o [] (((kl0, p0, d0) :: items).map
      (fun x => (⟨x.1, .long (dgDcid x.2.2) .v1, x.2.1⟩ : QIn Keylog.Key))) =
      [{ s0 with st := hsFeedAll QM c0 ((kl0, p0, d0) :: items) }] := by
    simp only [List.map_cons, quicRun, List.foldl_cons]
    rw [quicHandle_new]
    have hnew : quicNew QM o kl0 (.long (dgDcid d0) .v1) p0 = s0 := by
      simp only [quicNew, hroles, Hdr.dcid, Hdr.ver]; rfl
    rw [hnew]
    have := quicRun_hs maskFn H Pc (capInfo cap) o items s0 (by
      intro x hx
      obtain ⟨_, _, hp⟩ := hcarAll x (List.mem_cons_of_mem _ hx)
      rw [hp]; exact dgPkt_matches fl s0 rfl rfl _ _ _)
    simp only [quicRun] at this
    rw [this]
    rfl
  -- the handshake establishes the 1-RTT state
  obtain ⟨e1, e2, e3, e4, e5, e6, e7, e8, e9⟩ := quic_handshake_establishes maskFn H Pc (capInfo cap) hl h32 L hs.ch.random
    hs.sh.cipherSuite ch sh ca sa early sel hsel kl0 p0 d0 items
    (by intro x hx; rw [(hcarAll x hx).1]; exact hkl)
    c0 (new_fresh maskFn H Pc (capInfo cap) o p0) hok (by rw [hins]; exact ptrace_of_conformant hs hsok)
    (fun x hx => (hcarAll x hx).2.1) hkeyed keys
  generalize hc1 : hsFeedAll QM c0 ((kl0, p0, d0) :: items) = c1 at *
  have hc1c : c1.client = clientEp fl := by rw [show c1.client = c0.client from e6]; exact hc0c
  -- the run over the 1-RTT part
  have hcarO := carries_of_described fl hne wH w1 o evsO hdO cap evsH.length hfullO c1 hc1c
  have hk := keysWf_rfc H hl Pc keys hs.sh.cipherSuite sel hsel .v1 ho sa ca hsa hca
  have hrunO := quicRun_one maskFn H Pc (capInfo cap) o keys L sel .v1 _ _ _ _ hk (oneItems fl evsH.length evsO)
    { s0 with st := c1 } 0 0 _ _ _ _ hc1c.symm e1 e2
    (by
      intro x hx
      obtain ⟨_, hp⟩ := hcarO x hx
      rw [hp]; exact dgPkt_matches fl _ rfl rfl _ _ _)
    (fun x hx => (hcarO x hx).1) hsend hroute
  have hrun : quicRun QM o [] (quicView o keys (itemsFrom 0 cap)) =
      [{ s0 with st := C02Capstone.feedAll QM c1 ((oneItems fl evsH.length evsO).map fun x => (keys, x.1, x.2)) }] := by
    rw [hview, quicRun_append, hrunH]
    exact hrunO
  -- the session's export
  have hmap : ((oneItems fl evsH.length evsO).map fun x => (keys, x.1, x.2)).map (·.2.2) =
      (oneItems fl evsH.length evsO).map (·.2) := by simp [List.map_map]
  obtain ⟨r1, r2⟩ := quic_one_rtt_connection_exact maskFn H Pc (capInfo cap) keys L sel .v1 _ _ _ _ hk
    ((oneItems fl evsH.length evsO).map fun x => (keys, x.1, x.2)) c1 0 0 _ _ _ _ e1 e2 e3
    (by
      intro x hx
      obtain ⟨y, hy, rfl⟩ := List.mem_map.mp hx
      exact (hcarO y hy).1)
    (by rw [hmap]; exact hsend) (by rw [hmap]; exact htimes)
  have hblk : QM.out args.metadata (C02Capstone.feedAll QM c1 ((oneItems fl evsH.length evsO).map fun x => (keys, x.1, x.2))) =
      expectedOut c0 ((oneItems fl evsH.length evsO).map (·.2)) := by
    rw [hmeta, r2, hmap]
    unfold expectedOut
    rw [addressed_congr c0 c1 e4 e5 e6 e7 e8 e9]
  subst hodef
  subst hkeys
  exact ⟨hcapOk, _, hrun, hblk⟩

end Final

section NoAbort
open TLX.Export TLX.Props.C01File2

/-- `export_of_quic_session` without the abort alternative: if the frames of the block and of the other sessions are taken
    by the write loop (`WritesOk`: scapy serialises the frame, dpkt stores its time), the file IS written -/
theorem export_of_quic_session_file (mask : Quic.Dissect.MaskFn) (H : Crypto.Prims) (P : Cipher.Prims) (args : Args)
    (legacy : Bool) (keyFile : Option Keylog.Str) (file : Bytes) (cap : List CapEv)
    (hread : Container.read legacy file = .ok (cap.map CapEv.item)) (hok : CapOk cap)
    (hnoc : args.checksumTest = false)
    (pm : List (Int × Int)) (ports : List Int)
    (hpm : Options.getPortMap Options.Src.bare args.mArg = .ok pm)
    (hports : Options.serverPorts Options.Src.builtin Options.Src.pDefault args.pArg = .ok ports)
    (sess : QuicSess QConn)
    (hq : quicRun (quicMachine mask H P (capInfo cap)) (optsOf args ports pm) []
      (quicView (optsOf args ports pm) ((fileKeysOf keyFile).getD []) (itemsFrom 0 cap)) = [sess])
    (blk : List Pipeline.OutPkt)
    (hblk : (quicMachine mask H P (capInfo cap)).out args.metadata sess.st = blk)
    (hfit : ∀ x ∈ blk, WritesOk x) (hothers : OthersFit mask H P args keyFile cap blk) :
    ∃ f, exportFile mask H P args legacy keyFile file = .file f ∧ ReadsBack f blk := by
  rcases export_of_quic_session mask H P args legacy keyFile file cap hread hok hnoc pm ports hpm hports sess hq blk hblk
    with ⟨e, he⟩ | h
  · exfalso
    obtain ⟨_, xs, is, out, hi, hf, hw⟩ := (Props.Export.export_abort_write_iff mask H P args legacy keyFile file e).mp he
    have hing := ingest_of_capture Keylog.srcHexClass legacy file cap hread hok
    rw [← hnoc, hi] at hing
    cases hing
    have hout := C18.fresh_run_is (Pipeline.tlsMachine H P (capInfo cap)) (quicMachine mask H P (capInfo cap))
      (optsOf args ports pm) ((fileKeysOf keyFile).getD []) (itemsFrom 0 cap)
    rw [hq] at hout
    simp only [List.flatMap_cons, List.flatMap_nil, List.append_nil] at hout
    have hmd : (optsOf args ports pm).metadata = args.metadata := rfl
    rw [hmd, hblk] at hout
    generalize (List.flatMap (fun s => (Pipeline.tlsMachine H P (capInfo cap)).out s.st
      ((fileKeysOf keyFile).getD [] ++ dsbKeys (optsOf args ports pm) (itemsFrom 0 cap)))
      (tlsRun (Pipeline.tlsMachine H P (capInfo cap)) (optsOf args ports pm) []
        (Spec.Demux.tcpView (optsOf args ports pm) (itemsFrom 0 cap)))) = pre at hout
    have hfr := framesFrom_eq mask H P args (fileKeysOf keyFile) (itemsFrom 0 cap) (capInfo cap) pm ports hpm hports
    rw [hout] at hfr
    have hf' : framesFrom mask H P freshState args (fileKeysOf keyFile) (itemsFrom 0 cap) (capInfo cap) = .ok out := hf
    rw [hfr] at hf'
    cases hf'
    have hwf := Lemmas.Export.framesFrom_wf mask H P freshState args _ _ _ _
      (Lemmas.Export.itemsWith_good _ _ _ _ _ _ hi) hfr
    have hall : ∀ x ∈ pre ++ blk, WritesOk x := by
      intro x hx
      rcases List.mem_append.mp hx with hx | hx
      · exact hothers _ pre [] hfr (by rw [List.append_nil]) x (by simp [hx])
      · exact hfit x hx
    have hex : ∃ f, fileOfFrames ((pre ++ blk).map Frame.ofOutPkt) = .ok f := by
      apply (C06Bytes.fileOf_ok_iff _ ?_).mpr
      · intro fr hfr'
        simp only [List.mem_map] at hfr'
        obtain ⟨x, hx, rfl⟩ := hfr'
        exact hall x hx
      · intro fr hfr'
        simp only [List.mem_map] at hfr'
        obtain ⟨x, hx, rfl⟩ := hfr'
        exact hwf x hx
    obtain ⟨f, hfok⟩ := hex
    have : fileOf (pre ++ blk) = .ok f := hfok
    rw [this] at hw
    cases hw
  · exact h

end NoAbort
/-! ### C02 from file to file -/

section Capture
open TLX.Export TLX.Quic.Session TLX.Cipher TLX.Props.C02Session TLX.Spec.KeySchedules TLX.Props.C01File2
variable (maskFn : Quic.Dissect.MaskFn) (H : Crypto.Prims) (Pc : Cipher.Prims)

/-- EVERYTHING the file-level theorems assume, in one place (each field with its justification).
    Parameters: the primitives (`maskFn` any header-protection primitive, `H` hash functions, `Pc` AEAD with `SealLaws`),
    the options, the key-log file, the flow, the TLS side of the handshake `hs`, the connection's secrets, the capture as
    two phases of events (`evsH`: handshake datagrams and foreign packets, `evsO`: 1-RTT datagrams and foreign packets),
    the first handshake datagram `(kl0, p0, d0)` and the others `items`. -/
structure QuicCapture (L : SealLaws Pc) (args : Args) (keyFile : Option Keylog.Str) (pm : List (Int × Int))
    (ports : List Int) (fl : Flow) (hs : ConfHs) (ch sh ca sa : Bytes) (early : Option Bytes) (sel : SuiteSel)
    (evsH evsO : List QEv) (kl0 : List Keylog.Key) (p0 : MainLoop.Pkt) (d0 : DgH)
    (items : List (List Keylog.Key × MainLoop.Pkt × DgH)) : Prop where
  /-- the hash functions are lawful (output lengths, HKDF-Expand length), SHA-256 has 32 bytes -/
  lawful : H.Lawful
  sha256 : H.sha256.outLen = 32
  /-- no packet's time stamp evaluates to −1.0 (the tool would take it for a secrets block) -/
  times : ∀ e ∈ (evsH ++ evsO).map QEv.cap, Ingest.isMinusOne e.t = false
  /-- options: no `-c` (checksums are not looked at), no `-a`; `-m` / `-p` parse -/
  noc : args.checksumTest = false
  nometa : args.metadata = false
  pmOk : Options.getPortMap Options.Src.bare args.mArg = .ok pm
  portsOk : Options.serverPorts Options.Src.builtin Options.Src.pDefault args.pArg = .ok ports
  /-- the two endpoints differ; the client's port is not a server port (else the tool swaps the roles) -/
  endpoints : clientEp fl ≠ serverEp fl
  clientPort : ports.contains (fl.clientPort : Int) = false
  /-- the TLS handshake is conformant (`ConfHs.Ok`: RFC 8446 messages, any cut / order of the ClientHello) -/
  hsOk : hs.Ok
  /-- the ServerHello selects one of the four QUIC v1 suites; the traffic secrets have the hash's length -/
  suite : selectSuite hs.sh.cipherSuite = some sel
  outLen : (hashOf H sel.hash).outLen < 65536
  saLen : sa.length = (hashOf H sel.hash).outLen
  caLen : ca.length = (hashOf H sel.hash).outLen
  /-- the key-log FILE has the connection's lines (last line of each label: `KeylogHas`) -/
  keylog : KeylogHas ((fileKeysOf keyFile).getD []) hs.ch.random ch sh ca sa early
  /-- the first handshake datagram of the capture is the client's first Initial; the handshake datagrams are these -/
  first : hsItems fl ((fileKeysOf keyFile).getD []) 0 evsH = (kl0, p0, d0) :: items
  fromClient : d0.srv = false
  /-- the capture, sender side: every event is a datagram of the flow carrying the connection's wire bytes at the
      reader's time, or a foreign packet the main loop does not take for QUIC; handshake before 1-RTT -/
  described : QDescribed fl (dgWire H Pc L (dgDcid d0) sel sh ch)
    (wireOf H Pc L sel .v1 (rfcGen (hashOf H sel.hash) sel.keyLen sa ca 0)) (optsOf args ports pm) (evsH ++ evsO)
  phaseH : ∀ ev ∈ evsH, noOne ev = true
  phaseO : ∀ ev ∈ evsO, noHs ev = true
  /-- the handshake datagrams are conformant packets (`HsDgs`) carrying the handshake's CRYPTO frames (`hins`), and contain
      a Handshake-level packet after the ServerHello (`keyed`) -/
  hsDgs : HsDgs maskFn H Pc L (dgDcid d0) sel sh ch trk0 (d0 :: items.map (·.2.2))
  hsIns : allIns (d0 :: items.map (·.2.2)) = hs.ins
  keyed : (trk0.runDgs (d0 :: items.map (·.2.2))).keyed = true
  /-- the 1-RTT datagrams are a conformant history (`Send1`), routable by a passive observer (`Routes1`), pairwise
      different in (capture microsecond, direction) -/
  send1 : Send1 maskFn H Pc L sel .v1 (rfcGen (hashOf H sel.hash) sel.keyLen sa ca 0)
      (quicHp (hashOf H sel.hash) ca sel.keyLen) (quicHp (hashOf H sel.hash) sa sel.keyLen)
      (chachaOf (trk0.runDgs (d0 :: items.map (·.2.2))).core) 0 0
      (trk0.runDgs (d0 :: items.map (·.2.2))).tc.app (trk0.runDgs (d0 :: items.map (·.2.2))).ts.app
      (trk0.runDgs (d0 :: items.map (·.2.2))).cc (trk0.runDgs (d0 :: items.map (·.2.2))).sc
      ((oneItems fl evsH.length evsO).map (·.2))
  routes : Routes1 (wireOf H Pc L sel .v1 (rfcGen (hashOf H sel.hash) sel.keyLen sa ca 0))
      (trk0.runDgs (d0 :: items.map (·.2.2))).cc (trk0.runDgs (d0 :: items.map (·.2.2))).sc
      ((oneItems fl evsH.length evsO).map (·.2))
  distinct : (((oneItems fl evsH.length evsO).map (·.2)).map fun d => (d.x.ts, d.x.srv)).Pairwise (· ≠ ·)

variable {maskFn H Pc}

/-- what C02 demands of the output: the block of the connection's session is one UDP frame per 1-RTT datagram that carried a
    STREAM frame, in capture order, payload = that datagram's STREAM data, its capture microsecond, addressed
    client→server / server→client with the exported server port (`QuicPipeline.addressed`: `-m` map or 8080) -/
def blockOf (args : Args) (pm : List (Int × Int)) (ports : List Int) (fl : Flow) (evsH evsO : List QEv) (p0 : MainLoop.Pkt) :
    List Pipeline.OutPkt :=
  expectedOut ((quicMachine maskFn H Pc (capInfo ((evsH ++ evsO).map QEv.cap))).new (optsOf args ports pm) p0)
    ((oneItems fl evsH.length evsO).map (·.2))

/-- **C02 FROM FILE TO FILE** (any file the reader model reads as the described packets). `exportFile` on the bytes of the
    capture and the text of the key-log file gets past option parsing and the read loop and — unless scapy / dpkt refuse a
    frame in the write loop — writes a file in which the tool's own reader and the independent frame parser find, as the
    block of the connection's session, exactly `blockOf`. -/
theorem quic_capture_exact {L : SealLaws Pc} {args : Args} {keyFile : Option Keylog.Str} {pm : List (Int × Int)}
    {ports : List Int} {fl : Flow} {hs : ConfHs} {ch sh ca sa : Bytes} {early : Option Bytes} {sel : SuiteSel}
    {evsH evsO : List QEv} {kl0 : List Keylog.Key} {p0 : MainLoop.Pkt} {d0 : DgH}
    {items : List (List Keylog.Key × MainLoop.Pkt × DgH)}
    (h : QuicCapture maskFn H Pc L args keyFile pm ports fl hs ch sh ca sa early sel evsH evsO kl0 p0 d0 items)
    (legacy : Bool) (file : Bytes)
    (hread : Container.read legacy file = .ok (((evsH ++ evsO).map QEv.cap).map CapEv.item)) :
    (∃ e, exportFile maskFn H Pc args legacy keyFile file = .abort (.write e)) ∨
    ∃ f, exportFile maskFn H Pc args legacy keyFile file = .file f ∧
      ReadsBack f (blockOf (maskFn := maskFn) (H := H) (Pc := Pc) args pm ports fl evsH evsO p0) := by
  obtain ⟨hcap, sess, hq, hblk⟩ := quic_capture_session maskFn H Pc h.lawful h.sha256 L args keyFile evsH evsO h.times
    h.noc h.nometa pm ports h.pmOk h.portsOk fl h.endpoints h.clientPort hs h.hsOk ch sh ca sa early sel h.suite h.outLen
    h.saLen h.caLen h.keylog kl0 p0 d0 items h.first h.fromClient h.described h.phaseH h.phaseO h.hsDgs h.hsIns h.keyed
    h.send1 h.routes h.distinct
  exact export_of_quic_session maskFn H Pc args legacy keyFile file _ hread hcap h.noc pm ports h.pmOk h.portsOk sess hq
    _ hblk

/-- … WITHOUT the abort alternative, under explicit range hypotheses: every frame of the block is taken by the write loop
    (`WritesOk`: scapy serialises it — UDP payload at most 65507 bytes, ports below 65536, addresses of the IP version's
    length — and dpkt can store its time), and so is whatever the other sessions of the capture export (`OthersFit`). -/
theorem quic_capture_exact_file {L : SealLaws Pc} {args : Args} {keyFile : Option Keylog.Str} {pm : List (Int × Int)}
    {ports : List Int} {fl : Flow} {hs : ConfHs} {ch sh ca sa : Bytes} {early : Option Bytes} {sel : SuiteSel}
    {evsH evsO : List QEv} {kl0 : List Keylog.Key} {p0 : MainLoop.Pkt} {d0 : DgH}
    {items : List (List Keylog.Key × MainLoop.Pkt × DgH)}
    (h : QuicCapture maskFn H Pc L args keyFile pm ports fl hs ch sh ca sa early sel evsH evsO kl0 p0 d0 items)
    (legacy : Bool) (file : Bytes)
    (hread : Container.read legacy file = .ok (((evsH ++ evsO).map QEv.cap).map CapEv.item))
    (hfit : ∀ x ∈ blockOf (maskFn := maskFn) (H := H) (Pc := Pc) args pm ports fl evsH evsO p0, WritesOk x)
    (hothers : OthersFit maskFn H Pc args keyFile ((evsH ++ evsO).map QEv.cap)
      (blockOf (maskFn := maskFn) (H := H) (Pc := Pc) args pm ports fl evsH evsO p0)) :
    ∃ f, exportFile maskFn H Pc args legacy keyFile file = .file f ∧
      ReadsBack f (blockOf (maskFn := maskFn) (H := H) (Pc := Pc) args pm ports fl evsH evsO p0) := by
  obtain ⟨hcap, sess, hq, hblk⟩ := quic_capture_session maskFn H Pc h.lawful h.sha256 L args keyFile evsH evsO h.times
    h.noc h.nometa pm ports h.pmOk h.portsOk fl h.endpoints h.clientPort hs h.hsOk ch sh ca sa early sel h.suite h.outLen
    h.saLen h.caLen h.keylog kl0 p0 d0 items h.first h.fromClient h.described h.phaseH h.phaseO h.hsDgs h.hsIns h.keyed
    h.send1 h.routes h.distinct
  exact export_of_quic_session_file maskFn H Pc args legacy keyFile file _ hread hcap h.noc pm ports h.pmOk h.portsOk sess
    hq _ hblk hfit hothers

/-- … for the BYTES of a capture file written by the independent container encoder in ANY variant (pcapng in any variant,
    libpcap µs / ns): `Props.C12.reader_roundtrip` gives the reader's view. -/
theorem quic_capture_exact_encoded {L : SealLaws Pc} {args : Args} {keyFile : Option Keylog.Str} {pm : List (Int × Int)}
    {ports : List Int} {fl : Flow} {hs : ConfHs} {ch sh ca sa : Bytes} {early : Option Bytes} {sel : SuiteSel}
    {evsH evsO : List QEv} {kl0 : List Keylog.Key} {p0 : MainLoop.Pkt} {d0 : DgH}
    {items : List (List Keylog.Key × MainLoop.Pkt × DgH)}
    (h : QuicCapture maskFn H Pc L args keyFile pm ports fl hs ch sh ca sa early sel evsH evsO kl0 p0 d0 items)
    (cv : Spec.Containers.Variant) (cevs : List Spec.Containers.Ev) (hcwf : cv.WF cevs)
    (hitems : cevs.filterMap (Spec.Containers.scale cv) = ((evsH ++ evsO).map QEv.cap).map CapEv.item) :
    (∃ e, exportFile maskFn H Pc args cv.isLegacy keyFile (Spec.Containers.encode cv cevs) = .abort (.write e)) ∨
    ∃ f, exportFile maskFn H Pc args cv.isLegacy keyFile (Spec.Containers.encode cv cevs) = .file f ∧
      ReadsBack f (blockOf (maskFn := maskFn) (H := H) (Pc := Pc) args pm ports fl evsH evsO p0) :=
  quic_capture_exact h cv.isLegacy _ (by rw [Props.C12.reader_roundtrip cv cevs hcwf, hitems])

end Capture

/-! ### no abort: nothing else exported, explicit ranges -/

section Ranges
open TLX.Export TLX.Quic.Session TLX.Cipher TLX.Props.C02Session TLX.Spec.KeySchedules TLX.Props.C01File2
variable (maskFn : Quic.Dissect.MaskFn) (H : Crypto.Prims) (Pc : Cipher.Prims)

/-- a packet the TLS side of the main loop does not take: not a TCP segment with payload -/
def NotTls (p : MainLoop.Pkt) : Prop := ¬ (p.l4 = .tcp ∧ p.payload ≠ [])

theorem tcpView_qdescribed (fl : Flow) (wH : DgH → Bytes) (w1 : Dg1 → Bytes) (o : Opts) (hc : o.checksumTest = false)
    (evs : List QEv) (hd : QDescribed fl wH w1 o evs)
    (hf : ∀ e, QEv.foreign e ∈ evs → ∀ tag, NotTls (pktOf tag e.d)) (n : Nat) :
    Spec.Demux.tcpView o (itemsFrom n (evs.map QEv.cap)) = [] := by
  induction evs generalizing n with
  | nil => rfl
  | cons ev rest ih =>
    rw [List.map_cons, itemsFrom, tcpView_cons,
      ih (fun e he => hd e (List.mem_cons_of_mem _ he)) (fun e he => hf e (List.mem_cons_of_mem _ he)), List.append_nil,
      tcpView_frame o hc]
    have hev := hd ev (List.mem_cons_self ..)
    cases ev with
    | hs t fr u d =>
      have hp := pktOf_dg fl d.srv fr u hev.1 n
      simp only [QEv.cap, hp]; simp
    | one t fr u d =>
      have hp := pktOf_dg fl d.x.srv fr u hev.1 n
      simp only [QEv.cap, hp]; simp
    | foreign e =>
      have := hf e (List.mem_cons_self ..) n
      have h' : ¬ ((pktOf n (QEv.foreign e).cap.d).l4 = .tcp ∧ (pktOf n (QEv.foreign e).cap.d).payload ≠ []) := this
      exact if_neg h'

/-- nothing else is exported when the capture has no TCP payload besides the QUIC session: `OthersFit` -/
theorem othersFit_of_noTcp (args : Args) (keyFile : Option Keylog.Str) (cap : List CapEv)
    (pm : List (Int × Int)) (ports : List Int)
    (hpm : Options.getPortMap Options.Src.bare args.mArg = .ok pm)
    (hports : Options.serverPorts Options.Src.builtin Options.Src.pDefault args.pArg = .ok ports)
    (htcp : Spec.Demux.tcpView (optsOf args ports pm) (itemsFrom 0 cap) = [])
    (sess : QuicSess QConn)
    (hq : quicRun (quicMachine maskFn H Pc (capInfo cap)) (optsOf args ports pm) []
      (quicView (optsOf args ports pm) ((fileKeysOf keyFile).getD []) (itemsFrom 0 cap)) = [sess])
    (blk : List Pipeline.OutPkt)
    (hblk : (quicMachine maskFn H Pc (capInfo cap)).out args.metadata sess.st = blk) :
    OthersFit maskFn H Pc args keyFile cap blk := by
  intro out pre post hout hsplit
  have hrun := C18.fresh_run_is (Pipeline.tlsMachine H Pc (capInfo cap)) (quicMachine maskFn H Pc (capInfo cap))
    (optsOf args ports pm) ((fileKeysOf keyFile).getD []) (itemsFrom 0 cap)
  rw [hq, htcp] at hrun
  simp only [tlsRun, List.foldl_nil, List.flatMap_cons, List.flatMap_nil, List.append_nil, List.nil_append] at hrun
  have hmd : (optsOf args ports pm).metadata = args.metadata := rfl
  rw [hmd, hblk] at hrun
  have hfr := framesFrom_eq maskFn H Pc args (fileKeysOf keyFile) (itemsFrom 0 cap) (capInfo cap) pm ports hpm hports
  rw [hrun] at hfr
  rw [hfr] at hout
  cases hout
  obtain ⟨h1, h2⟩ := append3_self pre blk post hsplit
  subst h1; subst h2
  intro x hx; cases hx

/-- the write loop takes a UDP frame of the export: ports below 2^16, the payload fits the IP version's datagram, the time
    fits dpkt's field -/
theorem writesOk_addressed (c : QConn) (d : Quic.UdpOut.Dgram) (hcp : c.client.port < 65536)
    (hsp : TcpOut.exportedServerPort c.opts.keep (Pipeline.portmapFn c.opts.portmap) c.server.port < 65536)
    (hlen : (if c.ipv6 then 0 else 20) + 8 + d.payload.length < 65536) (hts : d.ts < 2 ^ 64) :
    WritesOk (addressed c d) := by
  refine ⟨(C06Bytes.serialize_ok_iff _).mpr ?_, ?_⟩
  · unfold addressed
    cases d.isServer <;> simp [Frame.ofOutPkt, hcp, hsp, hlen]
  · unfold addressed
    cases d.isServer <;> simpa using hts


variable {maskFn H Pc}

/-- the connection object the loop creates from the first datagram of a `QuicCapture`: the flow's endpoints in their roles,
    its IP version, the run's options; the client's port is below 2^16 (it was in a UDP header) -/
theorem conn_of_capture {L : SealLaws Pc} {args : Args} {keyFile : Option Keylog.Str} {pm : List (Int × Int)}
    {ports : List Int} {fl : Flow} {hs : ConfHs} {ch sh ca sa : Bytes} {early : Option Bytes} {sel : SuiteSel}
    {evsH evsO : List QEv} {kl0 : List Keylog.Key} {p0 : MainLoop.Pkt} {d0 : DgH}
    {items : List (List Keylog.Key × MainLoop.Pkt × DgH)}
    (h : QuicCapture maskFn H Pc L args keyFile pm ports fl hs ch sh ca sa early sel evsH evsO kl0 p0 d0 items) :
    let c := (quicMachine maskFn H Pc (capInfo ((evsH ++ evsO).map QEv.cap))).new (optsOf args ports pm) p0
    c.client = clientEp fl ∧ c.server = serverEp fl ∧ c.ipv6 = fl.v6 ∧ c.opts = optsOf args ports pm ∧
      fl.clientPort < 65536 := by
  intro c
  have hmem : (kl0, p0, d0) ∈ hsItems fl ((fileKeysOf keyFile).getD []) 0 evsH := by rw [h.first]; simp
  obtain ⟨i, t, fr, u, hi, hx⟩ := hsItems_mem fl _ evsH 0 _ hmem
  simp only [Prod.mk.injEq] at hx
  obtain ⟨_, hp0, _⟩ := hx
  rw [h.fromClient, Nat.zero_add] at hp0
  have hev : QEv.hs t fr u d0 ∈ evsH ++ evsO := List.mem_append_left _ (List.mem_of_getElem? hi)
  obtain ⟨hdg, _, _, _⟩ := h.described _ hev
  rw [h.fromClient] at hdg
  have hc' : ¬ (fl.clientPort : Int) ∈ ports := by simpa using h.clientPort
  have hroles : rolesOf (optsOf args ports pm).ports p0 = (serverEp fl, clientEp fl) := by
    rw [hp0]; simp [rolesOf, dgPkt, clientEp, optsOf, hc']
  have hcap : ((evsH ++ evsO).map QEv.cap)[i]? = some (QEv.hs t fr u d0).cap := by
    rw [List.getElem?_map, List.getElem?_append_left (List.getElem?_eq_some_iff.mp hi).1, hi]; rfl
  have hinfo := capInfo_at _ i _ hcap
  simp only [QEv.cap] at hinfo
  rw [infoOf_dg fl false fr u hdg] at hinfo
  have htag : p0.tag = i := by rw [hp0]; rfl
  refine ⟨congrArg Prod.snd hroles, congrArg Prod.fst hroles, ?_, rfl, ?_⟩
  · show (capInfo _ p0.tag).ipv6 = fl.v6
    rw [htag, hinfo]
  · obtain ⟨hwf, hu, hsp, _⟩ := hdg
    obtain ⟨_, _, huw, _⟩ := hwf
    rw [hu] at huw
    have : u.sport < 65536 := huw.1
    rw [hsp] at this
    simpa using this

/-- **C02 FROM FILE TO FILE, no abort, explicit ranges.** Besides `QuicCapture`:
    `hforeign`  the capture has no TCP payload (the foreign packets are not taken by the TLS side either), so the
                connection's block is everything the run exports;
    `hsp`       the exported server port (`-m` map, else 8080, or the original one) is below 2^16;
    `hlen`      the STREAM data of one datagram fits a UDP datagram of the flow's IP version (it came out of one, so this
                always holds for the same IP version; stated, not derived);
    `hts`       the capture microseconds fit dpkt's 64-bit field (an IEEE-754 fact about the reader's doubles).
    Then the file IS written and reads back exactly `blockOf`. -/
theorem quic_capture_exact_ranges {L : SealLaws Pc} {args : Args} {keyFile : Option Keylog.Str} {pm : List (Int × Int)}
    {ports : List Int} {fl : Flow} {hs : ConfHs} {ch sh ca sa : Bytes} {early : Option Bytes} {sel : SuiteSel}
    {evsH evsO : List QEv} {kl0 : List Keylog.Key} {p0 : MainLoop.Pkt} {d0 : DgH}
    {items : List (List Keylog.Key × MainLoop.Pkt × DgH)}
    (h : QuicCapture maskFn H Pc L args keyFile pm ports fl hs ch sh ca sa early sel evsH evsO kl0 p0 d0 items)
    (legacy : Bool) (file : Bytes)
    (hread : Container.read legacy file = .ok (((evsH ++ evsO).map QEv.cap).map CapEv.item))
    (hforeign : ∀ e, QEv.foreign e ∈ evsH ++ evsO → ∀ tag, NotTls (pktOf tag e.d))
    (hsp : TcpOut.exportedServerPort (Options.keepOriginalPorts args.mArg) (Pipeline.portmapFn pm) fl.serverPort < 65536)
    (hlen : ∀ d ∈ (oneItems fl evsH.length evsO).map (·.2),
      (if fl.v6 then 0 else 20) + 8 + (streamData d.x.frames).flatten.length < 65536)
    (hts : ∀ d ∈ (oneItems fl evsH.length evsO).map (·.2), d.x.ts < 2 ^ 64) :
    ∃ f, exportFile maskFn H Pc args legacy keyFile file = .file f ∧
      ReadsBack f (blockOf (maskFn := maskFn) (H := H) (Pc := Pc) args pm ports fl evsH evsO p0) := by
  obtain ⟨hcap, sess, hq, hblk⟩ := quic_capture_session maskFn H Pc h.lawful h.sha256 L args keyFile evsH evsO h.times
    h.noc h.nometa pm ports h.pmOk h.portsOk fl h.endpoints h.clientPort hs h.hsOk ch sh ca sa early sel h.suite h.outLen
    h.saLen h.caLen h.keylog kl0 p0 d0 items h.first h.fromClient h.described h.phaseH h.phaseO h.hsDgs h.hsIns h.keyed
    h.send1 h.routes h.distinct
  obtain ⟨c1, c2, c3, c4, c5⟩ := conn_of_capture h
  refine export_of_quic_session_file maskFn H Pc args legacy keyFile file _ hread hcap h.noc pm ports h.pmOk h.portsOk sess
    hq (expectedOut _ _) hblk ?_ ?_
  · intro x hx
    simp only [expectedOut, List.mem_map, List.mem_filter] at hx
    obtain ⟨d, ⟨hd, _⟩, rfl⟩ := hx
    have hd : d ∈ (oneItems fl evsH.length evsO).map (·.2) := List.mem_map.mpr hd
    apply writesOk_addressed
    · rw [c1]; exact c5
    · rw [c4, c2]; exact hsp
    · rw [c3]; exact hlen d hd
    · exact hts d hd
  · exact othersFit_of_noTcp maskFn H Pc args keyFile _ pm ports h.pmOk h.portsOk
      (tcpView_qdescribed fl _ _ _ h.noc _ h.described hforeign 0) sess hq _ hblk

end Ranges

/-! ### what `ReadsBack … blockOf` means for an independent receiver -/

section Receiver
open TLX.Export TLX.Spec.FrameParse TLX.Spec.QuicConnection
variable {maskFn : Quic.Dissect.MaskFn} {H : Crypto.Prims} {Pc : Cipher.Prims}

/-- In the block of the output file, packet `i` belongs to the `i`-th 1-RTT datagram `d` that carried a STREAM frame: the
    tool's own reader yields it at `d`'s microsecond, and the INDEPENDENT frame parser reads a UDP datagram whose payload
    is exactly `d`'s STREAM data, from the client's endpoint to the server's address with the exported server port, or
    back, according to `d`'s direction, with the MAC addresses and IP version of the connection's first packet. -/
theorem block_frames_parse (args : Args) (pm : List (Int × Int)) (ports : List Int) (fl : Flow) (evsH evsO : List QEv)
    (p0 : MainLoop.Pkt) (f : Bytes)
    (h : ReadsBack f (blockOf (maskFn := maskFn) (H := H) (Pc := Pc) args pm ports fl evsH evsO p0)) :
    let c := (quicMachine maskFn H Pc (capInfo ((evsH ++ evsO).map QEv.cap))).new (optsOf args ports pm) p0
    let ds := ((oneItems fl evsH.length evsO).map (·.2)).filter fun d => hasStream d.x.frames
    let sp : MainLoop.Endpoint :=
      ⟨c.server.ip, TcpOut.exportedServerPort c.opts.keep (Pipeline.portmapFn c.opts.portmap) c.server.port⟩
    ∃ (A C : List Item) (B : List Bytes), B.length = ds.length ∧
      Container.read false f = .ok (A ++ (ds.zip B).map (fun db => Item.pkt ⟨db.1.x.ts, 10 ^ 6, 0, false⟩ db.2) ++ C) ∧
      ∀ db ∈ ds.zip B, ∃ q, parse db.2 = some q ∧ q.l4 = .udp ∧ q.payload = (streamData db.1.x.frames).flatten ∧
        q.v6 = c.ipv6 ∧
        (q.src, q.sport, q.srcMac) = (if db.1.x.srv then (sp.ip, sp.port, c.serverMac) else (c.client.ip, c.client.port, c.clientMac)) ∧
        (q.dst, q.dport, q.dstMac) = (if db.1.x.srv then (c.client.ip, c.client.port, c.clientMac) else (sp.ip, sp.port, c.serverMac)) := by
  intro c ds sp
  obtain ⟨A, C, B, hB, hread, hgood⟩ := h
  have hblk : blockOf (maskFn := maskFn) (H := H) (Pc := Pc) args pm ports fl evsH evsO p0 =
      ds.map fun d => addressed c ⟨d.x.srv, d.x.ts, (streamData d.x.frames).flatten⟩ := rfl
  rw [hblk] at hB hread hgood
  refine ⟨A, C, B, by simpa using hB, ?_, ?_⟩
  · rw [hread, List.zip_map_left, List.map_map]
    congr 3
    apply List.map_congr_left
    intro db _
    simp only [Function.comp, Prod.map, id]
    congr 2
    unfold addressed
    split <;> rfl
  · intro db hdb
    have hmem : (addressed c ⟨db.1.x.srv, db.1.x.ts, (streamData db.1.x.frames).flatten⟩, db.2) ∈
        (ds.map fun d => addressed c ⟨d.x.srv, d.x.ts, (streamData d.x.frames).flatten⟩).zip B := by
      rw [List.zip_map_left]
      exact List.mem_map.mpr ⟨db, hdb, rfl⟩
    have hg := hgood _ hmem
    obtain ⟨seg, hp⟩ := C06Bytes.parse_serialize _ _ hg.wf hg.serialised
    refine ⟨_, hp, ?_⟩
    cases hsrv : db.1.x.srv <;> simp [Frame.ofOutPkt, addressed, hsrv, sp]

end Receiver

end TLX.Props.C02File

/-! ### non-vacuity: a concrete capture file, key-log file and option vector

A tiny QUIC v1 connection: hello exchange (client Initial; server Initial + Handshake coalesced; client Handshake) and two
1-RTT datagrams, interleaved with an ARP request and two DNS queries. Toy primitives (`C15.sizedToy`: lawful hash
functions with the real digest sizes; `Cipher.Toy`: an AEAD with `SealLaws`; a constant header-protection mask). Every
field of `QuicCapture` is discharged by evaluation. -/
namespace TLX.Props.C02File.Ex
open TLX TLX.MainLoop TLX.Spec.Demux TLX.Dissect TLX.OutBytes TLX.Export
open TLX.Props.C01File TLX.Spec.FrameBuild TLX.Spec.TlsCapture TLX.Spec.QuicCapture
open TLX.Spec.QuicSender TLX.Spec.QuicConnection TLX.Spec.QuicPackets TLX.QuicPipeline TLX.Props.C02Capstone
open TLX.Quic.Session TLX.Cipher TLX.Props.C02Session TLX.Spec.QuicFrames
open TLX.Spec.TlsHello TLX.Spec.TlsHandshakeFraming TLX.Props.C02Capstone.ExConf
open TLX.Spec.KeySchedules
open TLX.Props.C01File.Ex (timeAt arp notMinusOne cMac sMac)

def H : Crypto.Prims := Props.C15.sizedToy
def Pc : Cipher.Prims := Cipher.Toy.prims
def L : SealLaws Pc := Cipher.Toy.laws
def m5 : Bytes := [0xa5, 0x5a, 0xff, 0x00, 0x11]
def maskFn : Quic.Dissect.MaskFn := fun _ _ _ => some m5
def sel : SuiteSel := ⟨.sha256, .aesgcm, 16⟩

def M : Bytes := encodeClientHello chx
def F : Bytes := encodeEncryptedExtensions [⟨16, alpnBody [[0x68, 0x33]]⟩] ++
    (handshake 11 [0, 0, 0, 5, 1, 2, 3, 4, 5] ++ (handshake 15 [8, 4, 0, 2, 9, 9] ++ handshake 20 [7, 7, 7, 7]))

def hs : ConfHs :=
  { ch := chx, sh := shx, shExts := [⟨43, [3, 4]⟩], ee := [⟨16, alpnBody [[0x68, 0x33]]⟩],
    cert := [0, 0, 0, 5, 1, 2, 3, 4, 5], cv := [8, 4, 0, 2, 9, 9], sfin := [7, 7, 7, 7], cfin := [6, 6, 6, 6],
    chFrs := [M], chDl := [(0, M, M.length)], chDups := [], sFrs := [F] }

theorem hs_ok : hs.Ok := by
  refine ⟨by decide, by decide, rfl, by decide, by decide, by decide, by decide, by decide, ⟨by decide, by decide⟩, ?_,
    by decide, ⟨by decide, by decide⟩⟩
  decide

/-- the four secrets of the connection -/
def chS : Bytes := List.replicate 32 0x11
def shS : Bytes := List.replicate 32 0x22
def caS : Bytes := List.replicate 32 0x33
def saS : Bytes := List.replicate 32 0x44

def w0 : VW := ⟨0, by omega⟩
def w2 : VW := ⟨1, by omega⟩

/-- capture microsecond of the packet at position `n` (as the tool evaluates it: a double) -/
def usAt (n : Nat) : Nat := Container.usOfFloat (timeAt n).toFloat

def cidS0 : Bytes := [0x51, 0x51, 0x51, 0x51, 0x51, 0x51, 0x51, 0x51]
def cidS : Bytes := [0x52, 0x01]
def cidC : Bytes := [0xc1]

/-- the client's first Initial: the whole ClientHello, padded -/
def qCI : PkH :=
  ⟨{ level := .initial, srv := false, ts := usAt 1, pn := 0, pnLen := 1, frames := [.crypto ⟨0, w0⟩ w2 M, .padding 30],
     dcid := cidS0, scid := cidC, typeBits := 0, lenW := w2 }, m5⟩
/-- the server's Initial (ServerHello) and Handshake packet (the rest of its flight), coalesced -/
def qSI : PkH :=
  ⟨{ level := .initial, srv := true, ts := usAt 2, pn := 0, pnLen := 2, frames := [.crypto ⟨0, w0⟩ w2 (encodeServerHello shx)],
     dcid := cidC, scid := cidS, typeBits := 0, lenW := w2, lowBits := 3 }, m5⟩
def qSH : PkH :=
  ⟨{ level := .handshake, srv := true, ts := usAt 2, pn := 0, pnLen := 1, frames := [.crypto ⟨0, w0⟩ w2 F],
     dcid := cidC, scid := cidS, typeBits := 2, lenW := w2 }, m5⟩
/-- the client's Finished -/
def qCH : PkH :=
  ⟨{ level := .handshake, srv := false, ts := usAt 4, pn := 0, pnLen := 1,
     frames := [.crypto ⟨0, w0⟩ w0 (handshake 20 [6, 6, 6, 6]), .ping],
     dcid := cidS, scid := cidC, typeBits := 2, lenW := w2 }, m5⟩

def dg0 : DgH := ⟨false, usAt 1, [qCI]⟩
def dgS : DgH := ⟨true, usAt 2, [qSI, qSH]⟩
def dgC : DgH := ⟨false, usAt 4, [qCH]⟩

/-- 1-RTT: a request and a reply -/
def o0 : Dg1 :=
  ⟨{ level := .oneRtt, srv := false, ts := usAt 5, pn := 0, pnLen := 1,
     frames := [.stream true ⟨0, w0⟩ none (some w0) [0x47, 0x45, 0x54], .padding 3], dcid := cidS, gen := 0 }, m5⟩
def o1 : Dg1 :=
  ⟨{ level := .oneRtt, srv := true, ts := usAt 7, pn := 0, pnLen := 2,
     frames := [.ping, .stream false ⟨3, w0⟩ none none [0x4f, 0x4b]], dcid := cidC, gen := 0, lowBits := 5 }, m5⟩

def wH : DgH → Bytes := dgWire H Pc L (dgDcid dg0) sel shS chS
def w1 : Dg1 → Bytes := wireOf H Pc L sel .v1 (rfcGen (hashOf H sel.hash) sel.keyLen saS caS 0)

def fl : Flow := ⟨false, [10, 0, 0, 1], 50000, [10, 0, 0, 2], 443⟩

def udpOf (d : Bool) (payload : Bytes) : Udp := ⟨if d then 443 else 50000, if d then 50000 else 443, 0, payload⟩
/-- Ethernet II / IPv4 (DF, TTL 64, no options) / UDP, no trailer -/
def dgFrame (d : Bool) (payload : Bytes) : Spec.FrameBuild.Frame :=
  ⟨if d then cMac else sMac, if d then sMac else cMac,
   .v4 ⟨0, 1, true, false, 64, 0, if d then [10, 0, 0, 2] else [10, 0, 0, 1], if d then [10, 0, 0, 1] else [10, 0, 0, 2], []⟩,
   .udp (udpOf d payload), []⟩

theorem isDg_mk (d : Bool) (payload : Bytes) (hp : payload.length < 60000) :
    IsDg fl d (dgFrame d payload) (udpOf d payload) := by
  cases d <;>
    simp [IsDg, Spec.FrameBuild.Frame.WF, Upper.WF, Udp.WF, V4.WF, dgFrame, udpOf, Upper.encode, Udp.encode, be2, fl, cMac, sMac] <;> omega

def hsEv (n : Nat) (d : DgH) : QEv := .hs (timeAt n) (dgFrame d.srv (wH d)) (udpOf d.srv (wH d)) d
def oneEv (n : Nat) (d : Dg1) : QEv := .one (timeAt n) (dgFrame d.x.srv (w1 d)) (udpOf d.x.srv (w1 d)) d

/-- a foreign UDP datagram (a DNS query of the client: first payload byte without the QUIC fixed bit) -/
def flDns : Flow := ⟨false, [10, 0, 0, 1], 50001, [10, 0, 0, 53], 53⟩
def dnsU : Udp := ⟨50001, 53, 0, [0x12, 0x34, 1, 0, 0, 1, 0, 0, 0, 0, 0, 0, 1, 0x61, 0, 0, 1, 0, 1]⟩
def dnsFrame : Spec.FrameBuild.Frame :=
  ⟨sMac, cMac, .v4 ⟨0, 7, false, false, 64, 0, [10, 0, 0, 1], [10, 0, 0, 53], []⟩, .udp dnsU, []⟩
def dns (n : Nat) : CapEv := ⟨timeAt n, dnsFrame.encode, viewOf dnsFrame⟩

def evsH : List QEv := [.foreign arp, hsEv 1 dg0, hsEv 2 dgS, .foreign (dns 3), hsEv 4 dgC]
def evsO : List QEv := [oneEv 5 o0, .foreign (dns 6), oneEv 7 o1]

/-- the key-log FILE: the connection's four lines (and a line of another connection) -/
def line (label : Keylog.Str) (cr secret : Bytes) : Keylog.Str :=
  label ++ [32] ++ Keylog.hexOf (Pipeline.natsOfBytes cr) ++ [32] ++ Keylog.hexOf (Pipeline.natsOfBytes secret) ++ [10]
def keyText : Keylog.Str :=
  line Keylog.s_SHTS chx.random shS ++ line Keylog.s_CTS0 (List.replicate 32 9) [1, 2] ++
  line Keylog.s_CHTS chx.random chS ++ line Keylog.s_STS0 chx.random saS ++ line Keylog.s_CTS0 chx.random caS

def keys : List Keylog.Key := (fileKeysOf (some keyText)).getD []

theorem keylog0 : KeylogHas keys chx.random chS shS caS saS none := by
  refine ⟨⟨(Keylog.quicSessionKeys keys (Pipeline.natsOfBytes chx.random)).getD [],
    (quicSecrets ((Keylog.quicSessionKeys keys (Pipeline.natsOfBytes chx.random)).getD [])).getD [], ?_⟩⟩
  decide +kernel


open TLX.Props.C01File.Ex (args0 ports0)

def items0 : List (List Keylog.Key × MainLoop.Pkt × DgH) :=
  [(keys, dgPkt fl true (wH dgS) 2, dgS), (keys, dgPkt fl false (wH dgC) 4, dgC)]
def p0 : MainLoop.Pkt := dgPkt fl false (wH dg0) 1

theorem first0 : hsItems fl keys 0 evsH = (keys, p0, dg0) :: items0 := rfl

theorem hsIns0 : allIns (dg0 :: items0.map (·.2.2)) = hs.ins := by decide +kernel

theorem keyed0 : (trk0.runDgs (dg0 :: items0.map (·.2.2))).keyed = true := by decide +kernel

theorem phaseH0 : ∀ ev ∈ evsH, noOne ev = true := by decide
theorem phaseO0 : ∀ ev ∈ evsO, noHs ev = true := by decide


theorem wfCI : WellFormedSeq qCI.x.frames := by
  simp [qCI, WellFormedSeq, QFrame.wf, QFrame.greedy, optOk, optFits]; decide +kernel
theorem wfSI : WellFormedSeq qSI.x.frames := by
  simp [qSI, WellFormedSeq, QFrame.wf, QFrame.greedy, optOk, optFits]; decide +kernel
theorem wfSH : WellFormedSeq qSH.x.frames := by
  simp [qSH, WellFormedSeq, QFrame.wf, QFrame.greedy, optOk, optFits]; decide +kernel
theorem wfCH : WellFormedSeq qCH.x.frames := by
  simp [qCH, WellFormedSeq, QFrame.wf, QFrame.greedy, optOk, optFits]; decide +kernel

instance (a b c : Nat) : Decidable (PnLenOk a b c) := by unfold PnLenOk; infer_instance

def dcid0 : Bytes := dgDcid dg0
def tA : Trk := trk0.step qCI.x
def tB : Trk := tA.step qSI.x
def tC : Trk := tB.step qSH.x

theorem pkCI : HsPkOk maskFn H Pc L dcid0 sel shS chS trk0 qCI :=
  ⟨⟨by decide, by decide, by decide, by decide, by decide, by decide, by decide +kernel, by decide +kernel⟩,
    by decide +kernel, by decide +kernel, by decide +kernel, wfCI, by decide +kernel, rfl, by decide⟩
theorem pkSI : HsPkOk maskFn H Pc L dcid0 sel shS chS tA qSI :=
  ⟨⟨by decide, by decide, by decide, by decide, by decide, by decide, by decide +kernel, by decide +kernel⟩,
    by decide +kernel, by decide +kernel, by decide +kernel, wfSI, by decide +kernel, rfl, by decide⟩
theorem pkSH : HsPkOk maskFn H Pc L dcid0 sel shS chS tB qSH :=
  ⟨⟨by decide, by decide, by decide, by decide, by decide, by decide, by decide +kernel, by decide +kernel⟩,
    by decide +kernel, by decide +kernel, by decide +kernel, wfSH, by decide +kernel, rfl, by decide⟩
theorem pkCH : HsPkOk maskFn H Pc L dcid0 sel shS chS tC qCH :=
  ⟨⟨by decide, by decide, by decide, by decide, by decide, by decide, by decide +kernel, by decide +kernel⟩,
    by decide +kernel, by decide +kernel, by decide +kernel, wfCH, by decide +kernel, rfl, by decide⟩

theorem hsDgs0 : HsDgs maskFn H Pc L (dgDcid dg0) sel shS chS trk0 (dg0 :: items0.map (·.2.2)) := by
  refine ⟨⟨?_, by decide +kernel, pkCI, trivial⟩, ⟨?_, by decide +kernel, pkSI, pkSH, trivial⟩,
    ⟨?_, by decide +kernel, pkCH, trivial⟩, trivial⟩
  · intro q hq; simp only [dg0, List.mem_singleton] at hq; subst hq; exact ⟨rfl, rfl⟩
  · intro q hq; simp only [dgS, List.mem_cons, List.not_mem_nil, or_false] at hq; rcases hq with rfl | rfl <;> exact ⟨rfl, rfl⟩
  · intro q hq; simp only [dgC, List.mem_singleton] at hq; subst hq; exact ⟨rfl, rfl⟩


def o : Opts := optsOf args0 ports0 []

theorem lenH (d : DgH) (h : d ∈ [dg0, dgS, dgC]) : (wH d).length < 60000 := by
  simp only [List.mem_cons, List.not_mem_nil, or_false] at h
  rcases h with rfl | rfl | rfl <;> decide +kernel

theorem len1 (d : Dg1) (h : d ∈ [o0, o1]) : (w1 d).length < 60000 := by
  simp only [List.mem_cons, List.not_mem_nil, or_false] at h
  rcases h with rfl | rfl <;> decide +kernel

theorem hsEv_ok (n : Nat) (d : DgH) (h : d ∈ [dg0, dgS, dgC]) (hts : d.ts = usAt n) (hh : HdrOk d) :
    IsDg fl d.srv (dgFrame d.srv (wH d)) (udpOf d.srv (wH d)) ∧ (udpOf d.srv (wH d)).payload = wH d ∧
      d.ts = Container.usOfFloat (timeAt n).toFloat ∧ HdrOk d :=
  ⟨isDg_mk _ _ (lenH d h), rfl, hts, hh⟩

theorem arp_notQuic : dissect arp.buf = .ok arp.d ∧ ∀ tag, NotQuic o (pktOf tag arp.d) := by
  refine ⟨by decide +kernel, ?_⟩
  intro tag h
  simp [arp, pktOf, Ingest.otherPkt] at h

theorem dnsDg : IsDg flDns false dnsFrame dnsU := by
  simp [IsDg, Spec.FrameBuild.Frame.WF, Upper.WF, Udp.WF, V4.WF, dnsFrame, dnsU, Upper.encode, Udp.encode, be2, flDns, cMac, sMac]

theorem dns_notQuic (n : Nat) : dissect (dns n).buf = .ok (dns n).d ∧ ∀ tag, NotQuic o (pktOf tag (dns n).d) := by
  refine ⟨dissect_dg flDns false dnsFrame dnsU dnsDg, ?_⟩
  intro tag _
  right
  refine ⟨rfl, ?_⟩
  intro b0 r hb
  have hp : (pktOf tag (dns n).d).payload = dnsU.payload := by
    show (pktOf tag (viewOf dnsFrame)).payload = _
    rw [pktOf_dg flDns false dnsFrame dnsU dnsDg]
  rw [hp] at hb
  simp only [dnsU, List.cons.injEq] at hb
  rw [← hb.1]; decide

theorem described0 : QDescribed fl wH w1 o (evsH ++ evsO) := by
  intro ev hev
  simp only [evsH, evsO, List.cons_append, List.nil_append, List.mem_cons, List.not_mem_nil, or_false] at hev
  rcases hev with rfl | rfl | rfl | rfl | rfl | rfl | rfl | rfl
  · exact arp_notQuic
  · exact hsEv_ok 1 dg0 (by simp) rfl ⟨qCI, [], rfl, pkCI.shape, by decide, by decide⟩
  · exact hsEv_ok 2 dgS (by simp) rfl ⟨qSI, [qSH], rfl, pkSI.shape, by decide, by decide⟩
  · exact dns_notQuic 3
  · exact hsEv_ok 4 dgC (by simp) rfl ⟨qCH, [], rfl, pkCH.shape, by decide, by decide⟩
  · exact ⟨isDg_mk _ _ (len1 o0 (by simp)), rfl, rfl, by decide, by decide⟩
  · exact dns_notQuic 6
  · exact ⟨isDg_mk _ _ (len1 o1 (by simp)), rfl, rfl, by decide, by decide⟩

theorem times0 : ∀ e ∈ (evsH ++ evsO).map QEv.cap, Ingest.isMinusOne e.t = false := by
  intro e he
  simp only [evsH, evsO, List.cons_append, List.nil_append, List.map_cons, List.map_nil, List.mem_cons, List.not_mem_nil,
    or_false] at he
  rcases he with rfl | rfl | rfl | rfl | rfl | rfl | rfl | rfl <;> exact notMinusOne _


def tF : Trk := trk0.runDgs (dg0 :: items0.map (·.2.2))

theorem ones0 : (oneItems fl evsH.length evsO).map (·.2) = [o0, o1] := rfl

theorem wfO0 : WellFormedSeq o0.x.frames := by
  simp [o0, WellFormedSeq, QFrame.wf, QFrame.greedy, optOk, optFits]; decide +kernel
theorem wfO1 : WellFormedSeq o1.x.frames := by
  simp [o1, WellFormedSeq, QFrame.wf, QFrame.greedy, optOk, optFits]; decide +kernel

theorem tF_eq : chachaOf tF.core = false ∧ tF.tc.app = 0 ∧ tF.ts.app = 0 ∧ tF.cc = [cidC] ∧ tF.sc = [cidS0, cidS] := by
  decide +kernel

theorem send1_0 : Send1 maskFn H Pc L sel .v1 (rfcGen (hashOf H sel.hash) sel.keyLen saS caS 0)
    (quicHp (hashOf H sel.hash) caS sel.keyLen) (quicHp (hashOf H sel.hash) saS sel.keyLen)
    (chachaOf tF.core) 0 0 tF.tc.app tF.ts.app tF.cc tF.sc ((oneItems fl evsH.length evsO).map (·.2)) := by
  obtain ⟨e1, e2, e3, e4, e5⟩ := tF_eq
  rw [ones0, e1, e2, e3, e4, e5]
  refine ⟨rfl, by decide, by decide, by decide +kernel, wfO0, ⟨by decide, by decide +kernel, rfl, by decide⟩, by decide,
    rfl, by decide, by decide, by decide +kernel, wfO1, ⟨by decide, by decide +kernel, rfl, by decide⟩, by decide, trivial⟩

instance (c : List Bytes) (w d : Bytes) : Decidable (RouteOk c w d) := by unfold RouteOk; infer_instance

theorem routes0 : Routes1 w1 tF.cc tF.sc ((oneItems fl evsH.length evsO).map (·.2)) := by
  obtain ⟨_, _, _, e4, e5⟩ := tF_eq
  rw [ones0, e4, e5]
  refine ⟨?_, ?_, trivial⟩ <;> decide +kernel

theorem distinct0 : (((oneItems fl evsH.length evsO).map (·.2)).map fun d => (d.x.ts, d.x.srv)).Pairwise (· ≠ ·) := by
  rw [ones0]
  simp [o0, o1]


open TLX.Props.C01File.Ex (cv0 cevOf legacy_wf filterMap_map_some)

/-- **every hypothesis of the file-level theorems holds** for this capture, key-log file and option vector -/
theorem capture0 : QuicCapture maskFn H Pc L args0 (some keyText) [] ports0 fl hs chS shS caS saS none sel evsH evsO
    keys p0 dg0 items0 where
  lawful := Props.C15.sizedToy_lawful
  sha256 := rfl
  times := times0
  noc := rfl
  nometa := rfl
  pmOk := rfl
  portsOk := rfl
  endpoints := by decide
  clientPort := by decide +kernel
  hsOk := hs_ok
  suite := by decide
  outLen := by decide
  saLen := rfl
  caLen := rfl
  keylog := keylog0
  first := first0
  fromClient := rfl
  described := described0
  phaseH := phaseH0
  phaseO := phaseO0
  hsDgs := hsDgs0
  hsIns := hsIns0
  keyed := keyed0
  send1 := send1_0
  routes := routes0
  distinct := distinct0

/-! the capture FILE: nanosecond libpcap, little endian (`C01File.Ex.cv0`) -/
def cevs0 : List Spec.Containers.Ev := ((evsH ++ evsO).map QEv.cap).map cevOf


open TLX.Props.C01File.Ex (scale_cev)

theorem dgFrame_length (d : Bool) (pl : Bytes) : (dgFrame d pl).encode.length = 42 + pl.length := by
  cases d <;>
    simp [dgFrame, udpOf, Spec.FrameBuild.Frame.encode, Spec.FrameBuild.Frame.etherType, Spec.FrameBuild.Frame.datagram,
      V4.encode, V4.fixed, Upper.encode, Udp.encode, be2, cMac, sMac, Upper.proto] <;> omega

theorem evs_bounds : ∀ e ∈ (evsH ++ evsO).map QEv.cap, ∃ k, k < 100 ∧ e.t = timeAt k ∧ e.buf.length < 70000 := by
  intro e he
  simp only [evsH, evsO, List.cons_append, List.nil_append, List.map_cons, List.map_nil, List.mem_cons, List.not_mem_nil,
    or_false] at he
  rcases he with rfl | rfl | rfl | rfl | rfl | rfl | rfl | rfl
  · exact ⟨0, by decide, rfl, by decide⟩
  · exact ⟨1, by decide, rfl, by simp only [hsEv, QEv.cap, dgFrame_length]; have := lenH dg0 (by simp); omega⟩
  · exact ⟨2, by decide, rfl, by simp only [hsEv, QEv.cap, dgFrame_length]; have := lenH dgS (by simp); omega⟩
  · exact ⟨3, by decide, rfl, by decide +kernel⟩
  · exact ⟨4, by decide, rfl, by simp only [hsEv, QEv.cap, dgFrame_length]; have := lenH dgC (by simp); omega⟩
  · exact ⟨5, by decide, rfl, by simp only [oneEv, QEv.cap, dgFrame_length]; have := len1 o0 (by simp); omega⟩
  · exact ⟨6, by decide, rfl, by decide +kernel⟩
  · exact ⟨7, by decide, rfl, by simp only [oneEv, QEv.cap, dgFrame_length]; have := len1 o1 (by simp); omega⟩

theorem cwf0 : cv0.WF cevs0 := by
  refine ⟨by decide, by decide, by decide, by decide, by decide, legacy_wf _ _ rfl ?_ 0⟩
  intro ev hev
  simp only [cevs0, List.mem_map] at hev
  obtain ⟨e, ⟨c, hc, rfl⟩, rfl⟩ := hev
  obtain ⟨k, hk, ht, hl⟩ := evs_bounds _ (List.mem_map.mpr ⟨c, hc, rfl⟩)
  refine ⟨_, _, rfl, ?_, by omega⟩
  rw [ht]
  simp only [timeAt, Spec.Containers.LegacyVariant.unitsPerSecond, if_true]
  have : ((1700000000 : Int).toNat * 10 ^ 9 + (1000 + k)) / 10 ^ 9 = 1700000000 := by
    have : (1700000000 : Int).toNat = 1700000000 := rfl
    rw [this]; omega
  rw [this]; decide

theorem citems0 : cevs0.filterMap (Spec.Containers.scale cv0) = ((evsH ++ evsO).map QEv.cap).map CapEv.item := by
  unfold cevs0
  apply filterMap_map_some
  intro e he
  obtain ⟨k, hk, ht, _⟩ := evs_bounds e he
  exact scale_cev _ k hk ht

/-- what the export must contain: the request from the client's endpoint to the server's (no `-m`: the original port is kept), the reply back -/
theorem block0 : blockOf (maskFn := maskFn) (H := H) (Pc := Pc) args0 [] ports0 fl evsH evsO p0 =
    [⟨usAt 5, cMac, sMac, ⟨[10, 0, 0, 1], 50000⟩, ⟨[10, 0, 0, 2], 443⟩, false, 0, 0, 0, [0x47, 0x45, 0x54], true⟩,
     ⟨usAt 7, sMac, cMac, ⟨[10, 0, 0, 2], 443⟩, ⟨[10, 0, 0, 1], 50000⟩, false, 0, 0, 0, [0x4f, 0x4b], true⟩] := by
  rfl


def out0 : List Pipeline.OutPkt :=
  [⟨usAt 5, cMac, sMac, ⟨[10, 0, 0, 1], 50000⟩, ⟨[10, 0, 0, 2], 443⟩, false, 0, 0, 0, [0x47, 0x45, 0x54], true⟩,
   ⟨usAt 7, sMac, cMac, ⟨[10, 0, 0, 2], 443⟩, ⟨[10, 0, 0, 1], 50000⟩, false, 0, 0, 0, [0x4f, 0x4b], true⟩]

/-- **Non-vacuity of `quic_capture_exact` (through `quic_capture_exact_encoded`).** EVERY hypothesis holds for a concrete
    input: the capture FILE is the nanosecond-libpcap encoding of an ARP request, the client's Initial (whole ClientHello,
    padded), the server's Initial + Handshake packet coalesced in one datagram, a DNS query, the client's Handshake packet
    (Finished), a 1-RTT request `GET`, another DNS query, the 1-RTT reply `OK` — as Ethernet / IPv4 / UDP frames built by
    `Spec.FrameBuild`; the key-log FILE has the connection's four lines in any order plus a line of another connection; no
    options; toy hash functions with the real digest sizes, the toy AEAD, a constant header-protection mask. So the
    conclusion holds: the run gets to the write loop, and the file it writes contains exactly `GET` / `OK`. -/
theorem quic_file_instance :
    (∃ e, exportFile maskFn H Pc args0 cv0.isLegacy (some keyText) (Spec.Containers.encode cv0 cevs0) = .abort (.write e)) ∨
    ∃ f, exportFile maskFn H Pc args0 cv0.isLegacy (some keyText) (Spec.Containers.encode cv0 cevs0) = .file f ∧
      ReadsBack f out0 := by
  have h := quic_capture_exact_encoded capture0 cv0 cevs0 cwf0 citems0
  rw [block0] at h
  exact h

theorem arp_notTls (tag : Nat) : NotTls (pktOf tag arp.d) := by
  intro h
  simp [arp, pktOf, Ingest.otherPkt] at h

theorem dns_notTls (n tag : Nat) : NotTls (pktOf tag (dns n).d) := by
  intro h
  have hp : (pktOf tag (dns n).d).l4 = .udp := by
    show (pktOf tag (viewOf dnsFrame)).l4 = _
    rw [pktOf_dg flDns false dnsFrame dnsU dnsDg]
  rw [hp] at h
  cases h.1

/-- **Non-vacuity of `quic_capture_exact_ranges`**: … and the file IS written — every hypothesis discharged EXCEPT the one
    IEEE-754 fact (`hus`: the doubles the tool computes for the two packet times round to less than 2^64 µs), which no
    Lean proof can evaluate (`#eval usAt 5` gives 1700000000000001). -/
theorem quic_file_instance_written (hus : usAt 5 < 2 ^ 64 ∧ usAt 7 < 2 ^ 64) :
    ∃ f, exportFile maskFn H Pc args0 cv0.isLegacy (some keyText) (Spec.Containers.encode cv0 cevs0) = .file f ∧
      ReadsBack f out0 := by
  have h := quic_capture_exact_ranges capture0 cv0.isLegacy (Spec.Containers.encode cv0 cevs0)
    (by rw [Props.C12.reader_roundtrip cv0 cevs0 cwf0, citems0])
    (by
      intro e he tag
      simp only [evsH, evsO, List.cons_append, List.nil_append, List.mem_cons, List.not_mem_nil, or_false, hsEv, oneEv,
        reduceCtorEq, false_or, QEv.foreign.injEq] at he
      rcases he with rfl | rfl | rfl
      · exact arp_notTls tag
      · exact dns_notTls 3 tag
      · exact dns_notTls 6 tag)
    (by decide +kernel)
    (by rw [ones0]; decide +kernel)
    (by
      rw [ones0]
      intro d hd
      simp only [List.mem_cons, List.not_mem_nil, or_false] at hd
      rcases hd with rfl | rfl
      · exact hus.1
      · exact hus.2)
  rw [block0] at h
  exact h

/-- … and what an independent receiver finds in that file (`block_frames_parse`) -/
example (f : Bytes) (h : ReadsBack f (blockOf (maskFn := maskFn) (H := H) (Pc := Pc) args0 [] ports0 fl evsH evsO p0)) :=
  block_frames_parse args0 [] ports0 fl evsH evsO p0 f h

end TLX.Props.C02File.Ex
