import TLX.Props.C01File
import TLX.Props.C02Capstone
import TLX.Spec.QuicCapture
set_option linter.unusedSimpArgs false
set_option linter.unusedVariables false
set_option autoImplicit false
namespace TLX.Props.C02File
open TLX TLX.MainLoop TLX.Spec.Demux TLX.Lemmas.MainLoop TLX.Dissect TLX.OutBytes
open TLX.Container (Item)
open TLX.Props.C01File TLX.Spec.FrameBuild TLX.Spec.TlsCapture TLX.Spec.QuicCapture TLX.Props.C12Dissect
open TLX.Spec.QuicSender TLX.Spec.QuicConnection TLX.Spec.QuicPackets TLX.QuicPipeline TLX.Props.C02Capstone

/-! ### a datagram of the connection, as dpkt and the main loop see it -/

theorem dissect_dg (fl : Flow) (d : Bool) (fr : Spec.FrameBuild.Frame) (u : Udp) (h : IsDg fl d fr u) :
    dissect fr.encode = .ok (viewOf fr) := by
  obtain ⟨hwf, hu, _, _, hnet⟩ := h
  unfold viewOf
  cases hn : fr.net with
  | v4 h4 => exact dissect_build_v4 fr h4 hn hwf
  | v6 h6 =>
    rw [hn] at hnet
    obtain ⟨_, hex, _, _⟩ := hnet
    refine dissect_build_v6 fr h6 hn hwf (by rw [hex]; intro e he; cases he) ?_
    rw [hex, hu]
    simp [encChain, Upper.proto]

theorem pktOf_dg (fl : Flow) (d : Bool) (fr : Spec.FrameBuild.Frame) (u : Udp) (h : IsDg fl d fr u) (tag : Nat) :
    pktOf tag (viewOf fr) =
      ⟨.udp, if d then serverEp fl else clientEp fl, if d then clientEp fl else serverEp fl, u.payload, true, tag⟩ := by
  obtain ⟨_, hu, hsp, hdp, hnet⟩ := h
  unfold viewOf
  cases hn : fr.net with
  | v4 h4 =>
    rw [hn] at hnet
    obtain ⟨_, hs, hd⟩ := hnet
    simp only [pktOf, hu, transportOf, hs, hd, hsp, hdp, clientEp, serverEp]
    cases d <;> rfl
  | v6 h6 =>
    rw [hn] at hnet
    obtain ⟨_, _, hs, hd⟩ := hnet
    simp only [pktOf, hu, transportOf, hs, hd, hsp, hdp, clientEp, serverEp]
    cases d <;> rfl

theorem infoOf_dg (fl : Flow) (d : Bool) (fr : Spec.FrameBuild.Frame) (u : Udp) (h : IsDg fl d fr u) (us : Nat) :
    infoOf us (viewOf fr) = ⟨0, us, fr.srcMac, fr.dstMac, fl.v6⟩ := by
  obtain ⟨_, hu, _, _, hnet⟩ := h
  unfold viewOf
  cases hn : fr.net with
  | v4 h4 =>
    rw [hn] at hnet
    simp only [infoOf, hu, transportOf, hnet.1]
  | v6 h6 =>
    rw [hn] at hnet
    simp only [infoOf, hu, transportOf, hnet.1]

/-! ### `handle_quic_packet` with one session in the list -/

section Routing
variable {κ τ ο : Type}

theorem quicHandle_new (M : QuicMachine κ τ ο) (o : Opts) (kl : List κ) (dcid : Bytes) (v : MainLoop.Version) (p : Pkt) :
    quicHandleH M o kl (.long dcid v) [] p = [quicNew M o kl (.long dcid v) p] := by
  simp [quicHandleH, quicLoop]

/-- a long-header datagram on the session's address pair goes to the session with the DCID of its first packet, whether or
    not that DCID is a known connection ID -/
theorem quicHandle_long (M : QuicMachine κ τ ο) (o : Opts) (kl : List κ) (dcid : Bytes) (v : MainLoop.Version) (p : Pkt)
    (s : QuicSess τ) (hm : s.matches p = true) :
    quicHandleH M o kl (.long dcid v) [s] p = [{ s with st := M.feed s.st kl p dcid v }] := by
  have ht : quicTake M (.long dcid v) p s = some dcid := by
    unfold quicTake
    simp only [cidMatch]
    by_cases hc : 0 < dcid.length ∧ (dcid ∈ M.clientCids s.st ∨ dcid ∈ M.serverCids s.st)
    · simp [hc]
    · simp [hc, hm, Hdr.dcid]
  simp [quicHandleH, quicLoop, ht, Hdr.ver]

/-- what a passive observer needs to find a short-header packet's connection ID among the ones it knows (`cands`: those the
    RECEIVER issued): the packet's DCID is one of them or empty, and no LONGER known one happens to be a prefix of the
    packet's bytes after the first (the length of the DCID is not on the wire: RFC 9000 §17.3.1) -/
def RouteOk (cands : List Bytes) (wire dcid : Bytes) : Prop :=
  (dcid = [] ∨ (dcid ∈ cands ∧ dcid <+: wire.drop 1)) ∧
  ∀ c ∈ cands, c ≠ [] → c <+: wire.drop 1 → c.length ≤ dcid.length

theorem shortPick_route (cands : List Bytes) (wire dcid : Bytes) (h : RouteOk cands wire dcid) :
    (shortPick cands wire).getD [] = dcid := by
  obtain ⟨h1, h2⟩ := h
  cases hp : shortPick cands wire with
  | none =>
    rcases h1 with rfl | ⟨hm, hpre⟩
    · rfl
    · by_cases hne : dcid = []
      · subst hne; rfl
      · exact absurd hpre ((shortPick_eq_none_iff _ _).mp hp dcid hm hne)
  | some c =>
    obtain ⟨c1, c2, c3⟩ := shortPick_some hp
    have hle := h2 c c1 c2 c3
    rcases h1 with rfl | ⟨hm, hpre⟩
    · have : c.length = 0 := by simpa using hle
      exact absurd (List.eq_nil_of_length_eq_zero this) c2
    · by_cases hne : dcid = []
      · subst hne
        have : c.length = 0 := by simpa using hle
        exact absurd (List.eq_nil_of_length_eq_zero this) c2
      · have hge := shortPick_longest hp dcid hm hne hpre
        have hlen : c.length = dcid.length := by omega
        simp only [Option.getD_some]
        rw [List.prefix_iff_eq_take] at c3 hpre
        rw [c3, hpre, hlen]

theorem quicHandle_short (M : QuicMachine κ τ ο) (o : Opts) (kl : List κ) (p : Pkt) (s : QuicSess τ)
    (hm : s.matches p = true) (dcid : Bytes)
    (hr : RouteOk (shortCandidates (M.clientCids s.st) (M.serverCids s.st) (s.side p)) p.payload dcid) :
    quicHandleH M o kl .short [s] p = [{ s with st := M.feed s.st kl p dcid .unknown }] := by
  have hg := shortPick_route _ _ _ hr
  have ht : quicTake M .short p s = some dcid := by
    unfold quicTake cidMatch
    simp only
    cases hp : shortPick (shortCandidates (M.clientCids s.st) (M.serverCids s.st) (s.side p)) p.payload with
    | none => rw [hp] at hg; simp at hg; simp [hm, Hdr.dcid, hg]
    | some c => rw [hp] at hg; simp at hg; simp [hg]
  simp [quicHandleH, quicLoop, ht, Hdr.ver]

end Routing

/-! ### what the main loop reads in the first bytes of the connection's datagrams -/

section Header

theorem bits_of_byte : ∀ n : Fin 256,
    (((UInt8.ofNat n.val).toNat >>> 7) &&& 1 = 1 ↔ Quic.Dissect.isLong (UInt8.ofNat n.val) = true) ∧
    ((UInt8.ofNat n.val >>> 6 = 1 ∨ UInt8.ofNat n.val >>> 6 = 3) → ((UInt8.ofNat n.val).toNat &&& 0x40) >>> 6 = 1) := by
  decide +kernel

theorem longBit_iff (b : UInt8) : ((b.toNat >>> 7) &&& 1 = 1) ↔ Quic.Dissect.isLong b = true := by
  have := (bits_of_byte ⟨b.toNat, b.toNat_lt⟩).1
  simpa using this

theorem fixedBit_of_shift (b : UInt8) (h : b >>> 6 = 1 ∨ b >>> 6 = 3) : (b.toNat &&& 0x40) >>> 6 = 1 := by
  have := (bits_of_byte ⟨b.toNat, b.toNat_lt⟩).2
  simp only [UInt8.ofNat_toNat] at this
  exact this h

theorem shift6_mask (a m c : UInt8) (hc : c >>> 6 = 0) : (a ^^^ (m &&& c)) >>> 6 = a >>> 6 := by
  rw [UInt8.shiftRight_xor, UInt8.shiftRight_and, hc, UInt8.and_zero, UInt8.xor_zero]

theorem long_first_shift : ∀ t : Fin 3, ∀ r l : Fin 4, UInt8.ofNat (0xC0 + t.val * 16 + r.val * 4 + l.val) >>> 6 = 3 := by
  decide

/-- the classification and the header `handle_quic_packet` parses for a datagram that starts with a protected long-header
    packet of version 1: QUIC (fixed bit), long header, the packet's DCID, version 1 -/
theorem long_wire_header (p : Long) (hwf : p.wf) (hv : p.version = [0, 0, 0, 1]) (hd : p.dcid.length ≤ 20)
    (hs63 : p.scid.length ≤ 63) (m more : Bytes) :
    ∃ b0 rest, p.protect m ++ more = b0 :: rest ∧ (b0.toNat &&& 0x40) >>> 6 = 1 ∧
      parseHeader1 b0 rest = .long p.dcid .v1 := by
  obtain ⟨hr, _, _, hsl, h1, h4, _⟩ := hwf
  have hb : p.ty.bits < 3 := by cases p.ty <;> simp [LType.bits]
  have hf6 : p.first >>> 6 = 3 := by
    have := long_first_shift ⟨p.ty.bits, hb⟩ ⟨p.reserved, hr⟩ ⟨p.pn.length - 1, by omega⟩
    simpa [Long.first] using this
  have hL : Quic.Dissect.isLong p.first = true := (Lemmas.QuicDissect.long_first p ⟨hr, by rw [hv]; rfl, by omega, hsl, h1, h4,
    ‹_›⟩).1
  generalize hb0 : p.first ^^^ (m.headD 0 &&& 0x0f) = b0
  have e6 : b0 >>> 6 = 3 := by rw [← hb0, shift6_mask _ _ _ (by decide)]; exact hf6
  have eL : Quic.Dissect.isLong b0 = true := by
    rw [← hb0, Lemmas.QuicDissect.isLong_mask _ _ _ (by decide)]; exact hL
  refine ⟨b0, p.mid ++ xorBytes p.pn ((m.drop 1).take p.pn.length) ++ p.payload ++ more, ?_, fixedBit_of_shift b0 (.inr e6), ?_⟩
  · rw [← hb0]; simp [Long.protect, applyMask]
  · -- the header fields
    have hshape : b0 :: (p.mid ++ xorBytes p.pn ((m.drop 1).take p.pn.length) ++ p.payload ++ more) =
        b0 :: (p.version ++ (UInt8.ofNat p.dcid.length :: (p.dcid ++ (UInt8.ofNat p.scid.length :: (p.scid ++
          (p.tokenPart ++ p.lengthField ++ xorBytes p.pn ((m.drop 1).take p.pn.length) ++ p.payload ++ more)))))) := by
      simp [Long.mid, List.append_assoc]
    obtain ⟨_, f1, f2, _, f4, _⟩ := Lemmas.QuicDissect.header_facts b0 p.version p.dcid p.scid _ _ (by rw [hv]; rfl)
      hs63 hshape
    unfold parseHeader1
    rw [if_pos ((longBit_iff b0).mpr eL)]
    have hlen : ¬ (b0 :: (p.mid ++ xorBytes p.pn ((m.drop 1).take p.pn.length) ++ p.payload ++ more)).length < 6 := by
      rw [hshape]; simp only [List.length_cons, List.length_append, hv, List.length_nil]; omega
    simp only [hlen, if_false, f2]
    have hdl : (UInt8.ofNat p.dcid.length).toNat = p.dcid.length := by simp; omega
    rw [hdl, f4, f1, hv, show versionOf (Bytes.beNat [0, 0, 0, 1]) = .v1 by decide]

/-- … and for a datagram that is one protected short-header packet: QUIC, short header -/
theorem short_wire_header (p : Short) (hwf : p.wf) (m : Bytes) :
    ∃ b0 rest, p.protect m = b0 :: rest ∧ (b0.toNat &&& 0x40) >>> 6 = 1 ∧ parseHeader1 b0 rest = .short ∧
      rest = p.dcid ++ xorBytes p.pn ((m.drop 1).take p.pn.length) ++ p.payload := by
  obtain ⟨hL, _, _, h6⟩ := Lemmas.QuicDissect.short_first p hwf
  generalize hb0 : p.first ^^^ (m.headD 0 &&& 0x1f) = b0
  have e6 : b0 >>> 6 = 1 := by rw [← hb0, shift6_mask _ _ _ (by decide)]; exact h6
  have eL : Quic.Dissect.isLong b0 = false := by
    rw [← hb0, Lemmas.QuicDissect.isLong_mask _ _ _ (by decide)]; exact hL
  refine ⟨b0, _, by rw [← hb0]; simp [Short.protect, applyMask], fixedBit_of_shift b0 (.inl e6), ?_, rfl⟩
  unfold parseHeader1
  rw [if_neg (by rw [longBit_iff, eL]; simp)]

end Header

/-! ### the session list of the main loop along the connection's datagrams -/

section Runs
open TLX.Quic.Session TLX.Cipher TLX.Props.C02Session
variable (maskFn : Quic.Dissect.MaskFn) (H : Crypto.Prims) (Pc : Cipher.Prims) (info : Nat → Pipeline.Info)

/-- handshake datagrams (long headers) on the session's address pair: the loop feeds the session exactly as `hsFeedAll` -/
theorem quicRun_hs (o : Opts) (items : List (List Keylog.Key × MainLoop.Pkt × DgH)) (s : QuicSess QConn)
    (hm : ∀ x ∈ items, s.matches x.2.1 = true) :
    quicRun (quicMachine maskFn H Pc info) o [s]
        (items.map fun x => (⟨x.1, .long (dgDcid x.2.2) .v1, x.2.1⟩ : QIn Keylog.Key)) =
      [{ s with st := hsFeedAll (quicMachine maskFn H Pc info) s.st items }] := by
  induction items generalizing s with
  | nil => simp [quicRun, hsFeedAll]
  | cons x rest ih =>
    obtain ⟨kl, p, d⟩ := x
    have h1 := hm (kl, p, d) (List.mem_cons_self ..)
    simp only [List.map_cons, quicRun, List.foldl_cons, hsFeedAll]
    rw [quicHandle_long _ o kl _ _ p s h1]
    exact ih _ (fun y hy => hm y (List.mem_cons_of_mem _ hy))

/-- RFC 9000 §5.1 seen by the observer: every 1-RTT datagram is addressed to a connection ID its RECEIVER issued (or to the
    empty one), and no longer CID that receiver issued is a prefix of the protected packet (`RouteOk`); `cc` / `sc` grow with
    the NEW_CONNECTION_ID frames as in `Send1` -/
def Routes1 (w : Dg1 → Bytes) : (cc sc : List Bytes) → List Dg1 → Prop
  | _, _, [] => True
  | cc, sc, d :: rest =>
    RouteOk (if d.x.srv then cc else sc) (w d) d.x.dcid ∧
    Routes1 w (if d.x.srv then cc else issue cc (newCids d.x.frames))
      (if d.x.srv then issue sc (newCids d.x.frames) else sc) rest

/-- 1-RTT datagrams of a conformant history on the session's address pair: the loop finds each packet's connection ID and
    feeds the session exactly as `feedAll` (the hypothesis under which `quic_one_rtt_connection_exact` speaks) -/
theorem quicRun_one (o : Opts) (kl : List Keylog.Key) (L : SealLaws Pc) (sel : SuiteSel) (v : Quic.Session.Version)
    (k0 : AppKeys) (hpC hpS : Bytes) (chacha : Bool) (hk : KeysWf (params H Pc kl) sel v k0)
    (items : List (MainLoop.Pkt × Dg1)) (s : QuicSess QConn) (gc gs lc ls : Nat) (cc sc : List Bytes)
    (hcl : s.client = s.st.client) (hr : s.st.raised = none)
    (hest : Est H Pc kl sel v k0 hpC hpS chacha s.st.st gc gs lc ls cc sc)
    (hm : ∀ x ∈ items, s.matches x.1 = true)
    (hcar : ∀ x ∈ items, Carries info s.st (wireOf H Pc L sel v k0) x.1 x.2)
    (hsend : Send1 maskFn H Pc L sel v k0 hpC hpS chacha gc gs lc ls cc sc (items.map (·.2)))
    (hroute : Routes1 (wireOf H Pc L sel v k0) cc sc (items.map (·.2))) :
    quicRun (quicMachine maskFn H Pc info) o [s] (items.map fun x => (⟨kl, .short, x.1⟩ : QIn Keylog.Key)) =
      [{ s with st := C02Capstone.feedAll (quicMachine maskFn H Pc info) s.st (items.map fun x => (kl, x.1, x.2)) }] := by
  induction items generalizing s gc gs lc ls cc sc with
  | nil => simp [quicRun, C02Capstone.feedAll]
  | cons x rest ih =>
    obtain ⟨p, d⟩ := x
    obtain ⟨h1, h2, h3, h4, h5, h6, h7, h8⟩ := hsend
    obtain ⟨r1, r2⟩ := hroute
    obtain ⟨w1, w2, w3⟩ := hcar (p, d) (List.mem_cons_self ..)
    have hmp := hm (p, d) (List.mem_cons_self ..)
    obtain ⟨s1, s2, s3⟩ := datagram_step maskFn H Pc kl L sel v k0 hpC hpS chacha hk s.st.st gc gs lc ls cc sc hest d
      h1 h2 h3 h4 h5 h6 h7
    have hfeed : (quicMachine maskFn H Pc info).feed s.st kl p d.x.dcid .unknown =
        { s.st with st := (handleDatagram maskFn H (params H Pc kl) s.st.st (!d.x.srv) d.x.dcid .unknown d.x.ts
                          (wireOf H Pc L sel v k0 d)).1, raised := none } := by
      simp only [quicMachine, hr, sver]
      rw [w1, w2, w3]
      unfold wireOf
      rw [s1]
    -- routing: the candidates are the CIDs the receiver issued
    have hside : shortCandidates ((quicMachine maskFn H Pc info).clientCids s.st)
        ((quicMachine maskFn H Pc info).serverCids s.st) (s.side p) = (if d.x.srv then cc else sc) := by
      have e1 : (quicMachine maskFn H Pc info).clientCids s.st = cc := hest.cc
      have e2 : (quicMachine maskFn H Pc info).serverCids s.st = sc := hest.sc
      rw [e1, e2]
      unfold Sess.side
      rw [hmp, hcl]
      simp only [if_true]
      have : (p.src == s.st.client) = !d.x.srv := w3
      cases hs : d.x.srv <;> simp [hs] at this <;> simp [this, shortCandidates, hs]
    simp only [List.map_cons, quicRun, List.foldl_cons, C02Capstone.feedAll]
    rw [quicHandle_short _ o kl p s hmp d.x.dcid (by rw [hside, w1]; exact r1), hfeed]
    exact ih _ _ _ _ _ _ _ hcl rfl s3 (fun y hy => hm y (List.mem_cons_of_mem _ hy))
      (fun y hy => by
        obtain ⟨a, b, c⟩ := hcar y (List.mem_cons_of_mem _ hy)
        exact ⟨a, b, c⟩) h8 r2

end Runs

end TLX.Props.C02File
