/-
C04 — concurrent connections are demultiplexed; each is exported as if it were alone.

Property theorems over the model of the main loop (`TLX/MainLoop.lean`), for ANY session machines (`TlsMachine`,
`QuicMachine`), any number of connections and packets. "Every interleaving" is either a statement about an arbitrary packet
list, or about an arbitrary order-preserving merge (`Spec.Demux.Merge`) of two arbitrary captures — one of which may itself be
a merge of any number of connections and unrelated traffic.

TLS over TCP needs no hypothesis: routing is by the 4-tuple only, which never changes. QUIC routing reads the sessions' CID
sets, which grow while packets are processed; `quic_route_exact` states the hypothesis under which it is exact
(`QuicSeparated`), `quic_foreign_iff` spells it out, and `quic_cross_routing_*` shows on concrete captures that each part of
it is needed. What the QUIC statements do NOT cover: they compare runs in which a datagram meets the same key log
(`QIn.kl`); that keys of other connections in the log do not change a session's decryption is a statement about the key
lookup (C09), not about the loop.
-/
import TLX.Lemmas.MainLoop
namespace TLX.Props.C04
open TLX TLX.MainLoop TLX.Spec.Demux TLX.Lemmas.MainLoop

variable {κ σ τ ο : Type}

/-! ## what a merge is (sanity of the definition used below) -/

theorem merge_keeps_both {α : Type} {a b m : List α} (h : Merge a b m) :
    a.Sublist m ∧ b.Sublist m ∧ m.Perm (a ++ b) :=
  ⟨h.sublist_left, h.symm.sublist_left, h.perm⟩

example : Merge [1, 2, 3] [10, 20] [1, 10, 2, 20, 3] := .left _ (.right _ (.left _ (.right _ (.left _ .nil))))

/-! ## TLS over TCP -/

/-- A flow qualifies by its ports only: every packet of a flow is a candidate for session creation, or none is. -/
theorem flow_qualifies_as_a_whole (o : Opts) {p q : Pkt} (h : sameFlow p q = true) : candidate o p = candidate o q :=
  candidate_congr_sameFlow o h

/-- The candidate test and the roles are those of the port-option model (C10). -/
theorem roles_agree_with_options (o : Opts) (p : Pkt) :
    candidate o p = Options.tlsCandidate o.ports p.src.port p.dst.port ∧
    rolesOf o.ports p =
      (if (Options.roles o.ports p.src.port p.dst.port).serverIsSender then (p.src, p.dst) else (p.dst, p.src)) ∧
    ((rolesOf o.ports p).1.port = (Options.roles o.ports p.src.port p.dst.port).serverPort) ∧
    ((rolesOf o.ports p).2.port = (Options.roles o.ports p.src.port p.dst.port).clientPort) := by
  refine ⟨rfl, ?_, ?_, ?_⟩ <;> simp only [rolesOf, Options.roles] <;> split <;> rfl

/-- For EVERY packet list (= every interleaving of any number of connections and other traffic) the session list after the
    run is: one session per flow that has a server port at one end, in order of first appearance, each created from the
    first packet of its flow and fed exactly the later packets of that flow, in capture order. -/
theorem tls_demux_exact (M : TlsMachine κ σ ο) (o : Opts) (pkts : List Pkt) :
    tlsRun M o [] pkts = groupByFlow M o pkts :=
  tls_run_eq_groupByFlow M o pkts

/-- The session a packet `q` would go to is the session the capture restricted to `q`'s flow produces on its own. -/
theorem tls_session_for (M : TlsMachine κ σ ο) (o : Opts) (pkts : List Pkt) (q : Pkt) :
    (tlsRun M o [] pkts).find? (·.matches q) = alone M o (pkts.filter (sameFlow q)) := by
  rw [tls_demux_exact]; exact groupByFlow_find M o q pkts

/-- … and `alone` is literally the main loop on a capture that holds one flow only. -/
theorem tls_alone_is_run (M : TlsMachine κ σ ο) (o : Opts) (q : Pkt) (l : List Pkt) (h : ∀ x ∈ l, sameFlow q x = true) :
    tlsRun M o [] l = (alone M o l).toList := by
  rw [tls_demux_exact]
  induction l with
  | nil => simp [groupByFlow, alone]
  | cons p ps ih =>
    have hp : sameFlow q p = true := h p List.mem_cons_self
    have hps : ∀ x ∈ ps, sameFlow p x = true := fun x hx =>
      sameFlow_trans (by rw [sameFlow_symm]; exact hp) (h x (List.mem_cons_of_mem _ hx))
    rw [groupByFlow]
    by_cases hc : candidate o p = true
    · have h1 : ps.filter (sameFlow p) = ps := List.filter_eq_self.mpr hps
      have h2 : others p ps = [] := by
        simp only [others, List.filter_eq_nil_iff]
        intro x hx; simp [hps x hx]
      simp [hc, alone, h1, h2, groupByFlow]
    · have hc' : candidate o p = false := by simpa using hc
      simp only [hc', Bool.false_eq_true, if_false, alone, Option.toList]
      rw [ih fun x hx => h x (List.mem_cons_of_mem _ hx)]
      have := alone_none_of_not_candidate M o hc' hp ps
      rw [List.filter_eq_self.mpr fun x hx => h x (List.mem_cons_of_mem _ hx)] at this
      rw [this]; rfl

/-- C04 for TLS. `A`, `B`: two captures no packet of which share a flow (`B` may hold any number of other connections and
    unrelated traffic), `C` any order-preserving merge. The session of any flow of `A` is the same object — same roles, same
    state — in the run on `C` and in the run on `A` alone; so is its export under the same final key log. -/
theorem tls_solo_equals_merged (M : TlsMachine κ σ ο) (o : Opts) {A B C : List Pkt} (hm : Merge A B C)
    (hd : ∀ a ∈ A, ∀ b ∈ B, sameFlow a b = false) (q : Pkt) (hq : q ∈ A) :
    (tlsRun M o [] C).find? (·.matches q) = (tlsRun M o [] A).find? (·.matches q) ∧
    ∀ kl : List κ, ((tlsRun M o [] C).find? (·.matches q)).map (fun s => M.out s.st kl) =
                   ((tlsRun M o [] A).find? (·.matches q)).map (fun s => M.out s.st kl) := by
  have h : (tlsRun M o [] C).find? (·.matches q) = (tlsRun M o [] A).find? (·.matches q) := by
    rw [tls_session_for, tls_session_for]
    have hB : B.filter (sameFlow q) = [] := by
      simp only [List.filter_eq_nil_iff]
      intro b hb; simp [hd q hq b hb]
    have := hm.filter (sameFlow q)
    rw [hB] at this
    rw [this.eq_of_right_nil]
  exact ⟨h, fun kl => by rw [h]⟩

/-- The sessions of the merged capture are the sessions of the two captures, interleaved (each list in its own order). -/
theorem tls_sessions_merge (M : TlsMachine κ σ ο) (o : Opts) {A B C : List Pkt} (hm : Merge A B C)
    (hd : ∀ a ∈ A, ∀ b ∈ B, sameFlow a b = false) :
    Merge (tlsRun M o [] A) (tlsRun M o [] B) (tlsRun M o [] C) :=
  tls_run_merge M o hm hd

/-- what `run()` concatenates for the TLS sessions -/
def tlsExport (M : TlsMachine κ σ ο) (ss : List (TlsSess σ)) (kl : List κ) : List ο := ss.flatMap fun s => M.out s.st kl

/-- The output of the merged capture is the union of the per-capture outputs: the per-session blocks, permuted. -/
theorem tls_export_union (M : TlsMachine κ σ ο) (o : Opts) {A B C : List Pkt} (hm : Merge A B C)
    (hd : ∀ a ∈ A, ∀ b ∈ B, sameFlow a b = false) (kl : List κ) :
    (tlsExport M (tlsRun M o [] C) kl).Perm (tlsExport M (tlsRun M o [] A) kl ++ tlsExport M (tlsRun M o [] B) kl) :=
  (tls_sessions_merge M o hm hd).flatMap _

/-! ## QUIC -/

/-- The routing hypothesis, spelled out: a session leaves a datagram alone iff the datagram is `Apart` from it — other
    4-tuple; long header: empty DCID or a DCID the session does not know; short header: no non-empty CID of the session is a
    prefix of bytes 1.. of the datagram. (The receiver-side restriction of the candidates applies only ON the session's
    4-tuple, where the session takes the datagram anyway through the fallback; so for "leaves alone" all CIDs still count and
    this statement is the same for the old and the repaired rule — see `own_cid_never_misdirects` for what changed.) -/
theorem quic_foreign_iff (M : QuicMachine κ τ ο) (s : QuicSess τ) (x : QIn κ) (hx : x.h ≠ .tooShort) :
    quicTake M x.h x.p s = none ↔ Apart M s x :=
  quicTake_eq_none_iff M s x hx

/-- C04 for QUIC. If at no moment of either solo run a session exists that recognises a datagram of the other capture
    (`QuicSeparated`, both ways), then for every merge the sessions of the merged run are the sessions of the two solo runs
    — same roles, same states, hence same outputs — interleaved.
    Of the hypothesis, distinct 4-tuples are a fact about the capture; "a DCID of `B` is no CID of an `A` session" and "no CID
    of an `A` session is a prefix of bytes 1.. of a short-header datagram of `B`" hold for conformant endpoints that draw CIDs
    at random only with probability 1 − (number of pairs)·2^(−8·len): nothing in the protocol forbids two connections from
    using equal or prefix-related CIDs towards different hosts. -/
theorem quic_route_exact (M : QuicMachine κ τ ο) (o : Opts) {A B C : List (QIn κ)} (hm : Merge A B C)
    (hAB : QuicSeparated M o A B) (hBA : QuicSeparated M o B A) :
    Merge (quicRun M o [] A) (quicRun M o [] B) (quicRun M o [] C) :=
  quic_run_merge M o hm hAB hBA

theorem quic_solo_equals_merged (M : QuicMachine κ τ ο) (o : Opts) {A B C : List (QIn κ)} (hm : Merge A B C)
    (hAB : QuicSeparated M o A B) (hBA : QuicSeparated M o B A) (s : QuicSess τ) :
    s ∈ quicRun M o [] C ↔ s ∈ quicRun M o [] A ∨ s ∈ quicRun M o [] B :=
  (quic_route_exact M o hm hAB hBA).mem s

def quicExport (M : QuicMachine κ τ ο) (md : Bool) (ss : List (QuicSess τ)) : List ο := ss.flatMap fun s => M.out md s.st

theorem quic_export_union (M : QuicMachine κ τ ο) (o : Opts) {A B C : List (QIn κ)} (hm : Merge A B C)
    (hAB : QuicSeparated M o A B) (hBA : QuicSeparated M o B A) (md : Bool) :
    (quicExport M md (quicRun M o [] C)).Perm
      (quicExport M md (quicRun M o [] A) ++ quicExport M md (quicRun M o [] B)) :=
  (quic_route_exact M o hm hAB hBA).flatMap _

/-- `QuicSeparated` can be checked on the finitely many prefixes. -/
theorem quicSeparated_of_check [DecidableEq τ] (M : QuicMachine κ τ ο) (o : Opts) (A B : List (QIn κ))
    (h : ∀ n ∈ List.range (A.length + 1), ∀ s ∈ quicRun M o [] (A.take n), ∀ x ∈ B,
          x.h ≠ .tooShort → quicTake M x.h x.p s = none) : QuicSeparated M o A B := by
  intro n s hs x hx ht
  rw [← quic_foreign_iff M s x ht]
  by_cases hn : n ≤ A.length
  · exact h n (List.mem_range.mpr (by omega)) s hs x hx ht
  · have : A.take n = A.take A.length := by rw [List.take_length, List.take_of_length_le (by omega)]
    rw [this] at hs
    exact h A.length (List.mem_range.mpr (by omega)) s hs x hx ht

/-! ### zero-length connection IDs -/

/-- A long header with an empty DCID never matches by CID — whatever the session knows, the empty string included — and
    falls through to the 4-tuple; the session then gets `b""` as DCID. -/
theorem empty_dcid_falls_to_tuple (M : QuicMachine κ τ ο) (v : Version) (p : Pkt) (s : QuicSess τ) :
    quicTake M (.long [] v) p s = if s.matches p then some [] else none := by
  simp [quicTake, cidMatch, Hdr.dcid]

/-- A short header is never matched with an empty CID, though `b""` is a prefix of everything. -/
theorem empty_cid_never_chosen (cids : List Bytes) (payload : Bytes) : shortPick cids payload ≠ some [] := by
  intro h
  exact (shortPick_some h).2.1 rfl

/-- A session whose candidate CIDs for this datagram (the receiver's CIDs on the session's own address pair, all of them
    elsewhere) are all empty takes a short-header datagram by its 4-tuple or not at all. -/
theorem short_with_only_empty_cids_falls_to_tuple (M : QuicMachine κ τ ο) (p : Pkt) (s : QuicSess τ)
    (h : ∀ c ∈ shortCandidates (M.clientCids s.st) (M.serverCids s.st) (s.side p), c = []) :
    quicTake M .short p s = if s.matches p then some [] else none := by
  have : shortPick (shortCandidates (M.clientCids s.st) (M.serverCids s.st) (s.side p)) p.payload = none := by
    rw [shortPick_eq_none_iff]
    intro c hc hne
    exact absurd (h c hc) hne
  simp [quicTake, cidMatch, this, Hdr.dcid]

/-! ### a session's own CIDs on its own address pair -/

/-- `QuicSession.packet_isserver(packet, dcid)` (quic_session.py:240-249) on the two CID sets: the direction `handle_packet`
    derives from the DCID it is handed; `fromClientAddr` = the datagram comes from the session's client endpoint.
    (`Quic.Session.packetIsServer` is this function on the session state.) -/
def dirIsServer (cc sc : List Bytes) (fromClientAddr : Bool) (dcid : Bytes) : Bool :=
  if dcid.length > 0 ∧ dcid ∈ sc ∧ dcid ∉ cc then false
  else if dcid.length > 0 ∧ dcid ∈ cc ∧ dcid ∉ sc then true
  else if fromClientAddr then false
  else true

/-- On the session's own 4-tuple a short-header datagram is handed over either with a non-empty CID chosen by its RECEIVER
    that it starts with (a `server_cids` member for a datagram from the client endpoint, a `client_cids` member otherwise), or
    — no such CID — through the 4-tuple fallback with the header-derived DCID `b""`. Never with a CID of its sender. -/
theorem own_cid_never_misdirects (M : QuicMachine κ τ ο) (p : Pkt) (s : QuicSess τ) (hm : s.matches p = true) :
    ∃ c, quicTake M .short p s = some c ∧
      (c = [] ∨ (c ≠ [] ∧ c <+: p.payload.drop 1 ∧
        if p.src = s.client then c ∈ M.serverCids s.st else c ∈ M.clientCids s.st)) := by
  unfold quicTake
  cases hc : cidMatch (M.clientCids s.st) (M.serverCids s.st) (s.side p) .short p.payload with
  | none => exact ⟨[], by simp [hm, Hdr.dcid], .inl rfl⟩
  | some c =>
    refine ⟨c, rfl, .inr ?_⟩
    simp only [cidMatch] at hc
    obtain ⟨h1, h2, h3⟩ := shortPick_some hc
    refine ⟨h2, h3, ?_⟩
    by_cases hs : p.src = s.client
    · simpa [Sess.side, hm, hs, shortCandidates] using h1
    · simpa [Sess.side, hm, hs, shortCandidates] using h1

/-- Hence the direction `packet_isserver` reads off the DCID it is handed agrees with the direction by address — with NO
    assumption about the two CID sets: since the repair of `packet_isserver` (a CID that both endpoints chose decides
    nothing, the addresses do) this holds even when the endpoints happened to choose the same CID bytes. -/
theorem own_cid_direction_agrees (M : QuicMachine κ τ ο) (p : Pkt) (s : QuicSess τ) (hm : s.matches p = true) (c : Bytes)
    (h : quicTake M .short p s = some c) :
    dirIsServer (M.clientCids s.st) (M.serverCids s.st) (p.src == s.client) c = !(p.src == s.client) := by
  obtain ⟨c', h', hc⟩ := own_cid_never_misdirects M p s hm
  rw [h] at h'; cases h'
  rcases hc with rfl | ⟨hne, _, hmem⟩
  · cases hb : (p.src == s.client) <;> simp [dirIsServer]
  · have hlen : 0 < c.length := List.length_pos_iff.mpr hne
    by_cases hs : p.src = s.client
    · simp only [hs, if_true] at hmem
      by_cases hc2 : c ∈ M.clientCids s.st <;> simp [dirIsServer, hs, hlen, hmem, hc2]
    · simp only [hs, if_false] at hmem
      by_cases hs2 : c ∈ M.serverCids s.st <;> simp [dirIsServer, hs, hlen, hmem, hs2]

/-- What is chosen for a short header is the LONGEST non-empty CID of the session that the datagram starts with. -/
theorem short_choice_is_longest (cids : List Bytes) (payload c : Bytes) (h : shortPick cids payload = some c) :
    c ∈ cids ∧ c ≠ [] ∧ c <+: payload.drop 1 ∧ ∀ d ∈ cids, d ≠ [] → d <+: payload.drop 1 → d.length ≤ c.length := by
  obtain ⟨h1, h2, h3⟩ := shortPick_some h
  exact ⟨h1, h2, h3, shortPick_longest h⟩

/-- A short-header datagram no session takes creates nothing; a long header in fewer than 6 bytes changes nothing. -/
theorem short_never_creates (M : QuicMachine κ τ ο) (o : Opts) (kl : List κ) (p : Pkt) :
    quicHandleH M o kl .short [] p = [] ∧ ∀ ss, quicHandleH M o kl .tooShort ss p = ss := by
  simp [quicHandleH, quicLoop]

/-! ## TLS and QUIC do not touch each other; unrelated traffic changes nothing -/

/-- The three parts of the state after the loop are functions of three separate views of the capture: the TLS sessions of
    its TCP segments that pass the gate, the key log of its DSBs, the QUIC sessions of its QUIC datagrams (each with the key
    log at that moment). In particular UDP never reaches a TLS session and TCP never reaches a QUIC session. -/
theorem tls_quic_independent (TM : TlsMachine κ σ ο) (QM : QuicMachine κ τ ο) (o : Opts) (items : List (Item κ))
    (st : State κ σ τ) :
    (runItems TM QM o st items).tls = tlsRun TM o st.tls (tcpView o items) ∧
    (runItems TM QM o st items).keylog = st.keylog ++ dsbKeys o items ∧
    (runItems TM QM o st items).quic = quicRun QM o st.quic (quicView o st.keylog items) :=
  runItems_proj TM QM o items st

theorem tcp_leaves_quic_alone (TM : TlsMachine κ σ ο) (QM : QuicMachine κ τ ο) (o : Opts) (st : State κ σ τ) (p : Pkt)
    (h : p.l4 = .tcp) :
    (step TM QM o st (.frame p)).quic = st.quic ∧ (step TM QM o st (.frame p)).keylog = st.keylog := by
  by_cases h1 : p.payload.length = 0 <;> by_cases h2 : (o.checksumTest && !p.csumOk) = true <;>
    simp [step, classify, h, h1, h2]

theorem udp_leaves_tls_alone (TM : TlsMachine κ σ ο) (QM : QuicMachine κ τ ο) (o : Opts) (st : State κ σ τ) (p : Pkt)
    (h : p.l4 = .udp) :
    (step TM QM o st (.frame p)).tls = st.tls ∧ (step TM QM o st (.frame p)).keylog = st.keylog := by
  simp only [step, classify, h]
  cases p.payload with
  | nil => exact ⟨rfl, rfl⟩
  | cons b0 rest =>
    by_cases h2 : (o.checksumTest && !p.csumOk) = true <;>
      by_cases h3 : ((b0.toNat &&& 0x40) >>> 6 = 1 || o.greasy) = true <;> simp [h2, h3]

/-- An item the loop ignores — not IP, IP without TCP/UDP, empty payload, bad checksum under `-c`, UDP without the fixed
    bit (DTLS-looking) unless `-g` — changes nothing, wherever it stands in the capture. -/
theorem unrelated_ignored (TM : TlsMachine κ σ ο) (QM : QuicMachine κ τ ο) (o : Opts) (st : State κ σ τ)
    (a b : List (Item κ)) (it : Item κ) (w : Why) (h : classify o it = .ignore w) :
    runItems TM QM o st (a ++ it :: b) = runItems TM QM o st (a ++ b) := by
  simp only [runItems, List.foldl_append, List.foldl_cons]
  congr 1
  simp only [step, h]

/-- which frames are ignored -/
theorem ignored_iff (o : Opts) (p : Pkt) :
    (∃ w, classify (κ := κ) o (.frame p) = .ignore w) ↔
      (p.l4 = .other ∨ p.payload = [] ∨ (o.checksumTest = true ∧ p.csumOk = false ∧ p.l4 ≠ .other) ∨
       (p.l4 = .udp ∧ o.greasy = false ∧ ∃ b0 rest, p.payload = b0 :: rest ∧ (b0.toNat &&& 0x40) >>> 6 ≠ 1)) := by
  cases hl : p.l4 with
  | other => simp [classify, hl]
  | tcp =>
    cases hp : p.payload with
    | nil => simp [classify, hl, hp]
    | cons b0 rest =>
      cases hc : o.checksumTest <;> cases hk : p.csumOk <;> simp [classify, hl, hp, hc, hk]
  | udp =>
    cases hp : p.payload with
    | nil => simp [classify, hl, hp]
    | cons b0 rest =>
      cases hc : o.checksumTest <;> cases hk : p.csumOk <;> cases hg : o.greasy <;>
        by_cases hb : (b0.toNat &&& 0x40) >>> 6 = 1 <;> simp [classify, hl, hp, hc, hk, hg, hb]

/-- Whole captures (TCP, UDP, DSBs, junk): the TLS sessions of a merge are the interleaved TLS sessions of its parts. -/
theorem run_tls_sessions_merge (TM : TlsMachine κ σ ο) (QM : QuicMachine κ τ ο) (o : Opts) {A B C : List (Item κ)}
    (hm : Merge A B C) (hd : ∀ a ∈ tcpView o A, ∀ b ∈ tcpView o B, sameFlow a b = false) (st : State κ σ τ)
    (h0 : st.tls = []) :
    Merge (runItems TM QM o st A).tls (runItems TM QM o st B).tls (runItems TM QM o st C).tls := by
  rw [(tls_quic_independent TM QM o A st).1, (tls_quic_independent TM QM o B st).1,
    (tls_quic_independent TM QM o C st).1, h0]
  exact tls_sessions_merge TM o (hm.filterMap _) hd

/-! ## concrete captures: the hypotheses are satisfiable, the theorems say something, and what happens without them -/

namespace Ex
def ep (a port : Nat) : Endpoint := ⟨[10, 0, 0, UInt8.ofNat a], port⟩
def ep6 (a port : Nat) : Endpoint := ⟨[0x20, 1, 0xd, 0xb8, 0, 0, 0, 0, 0, 0, 0, 0, 0, 0, 0, UInt8.ofNat a], port⟩
def tcp (tag : Nat) (s d : Endpoint) : Pkt := ⟨.tcp, s, d, [22, 3, 1], true, tag⟩
def udp (tag : Nat) (s d : Endpoint) (payload : Bytes) : Pkt := ⟨.udp, s, d, payload, true, tag⟩
def opts : Opts := ⟨[443, 44330, 443], false, false, false, true, []⟩

/-- same client port towards two servers, same hosts with another client port, an IPv6 flow with the same ports, a flow
    whose first captured packet comes from the server, and a flow without a server port -/
def capA : List Pkt := [tcp 1 (ep 1 5000) (ep 8 443), tcp 4 (ep 8 443) (ep 1 5000), tcp 7 (ep 1 5000) (ep 8 443)]
def capB : List Pkt :=
  [tcp 2 (ep 1 5000) (ep 9 443), tcp 3 (ep 8 443) (ep 1 5001), tcp 5 (ep6 1 5000) (ep6 8 443), tcp 6 (ep 1 5001) (ep 8 443),
   tcp 8 (ep 1 6000) (ep 2 8080), tcp 9 (ep 9 443) (ep 1 5000)]
def capC : List Pkt :=
  [tcp 1 (ep 1 5000) (ep 8 443), tcp 2 (ep 1 5000) (ep 9 443), tcp 3 (ep 8 443) (ep 1 5001), tcp 4 (ep 8 443) (ep 1 5000),
   tcp 5 (ep6 1 5000) (ep6 8 443), tcp 6 (ep 1 5001) (ep 8 443), tcp 7 (ep 1 5000) (ep 8 443), tcp 8 (ep 1 6000) (ep 2 8080),
   tcp 9 (ep 9 443) (ep 1 5000)]

theorem capC_is_merge : Merge capA capB capC :=
  .left _ (.right _ (.right _ (.left _ (.right _ (.right _ (.left _ (.right _ (.right _ .nil))))))))

theorem capAB_disjoint : ∀ a ∈ capA, ∀ b ∈ capB, sameFlow a b = false := by decide

/-- the run on the merged capture: four sessions in order of first appearance, each with its own packets; the session
    whose first packet came from port 443 has that side as server -/
example : (tlsRun Rec.tls opts [] capC).map (fun s => (s.server.port, s.client.port, s.st)) =
    [(443, 5000, [1, 4, 7]), (443, 5000, [2, 9]), (443, 5001, [3, 6]), (443, 5000, [5])] := by decide

example : (tlsRun Rec.tls opts [] capA).map (·.st) = [[1, 4, 7]] ∧
    (tlsRun Rec.tls opts [] capB).map (·.st) = [[2, 9], [3, 6], [5]] := by decide

/-! QUIC: `a1`, `b1` long headers (Initial-like) of two connections from different clients to the same server, `b2` a
short-header datagram of the second connection from the server. The scripts give connection A the client CID `02` and
connection B the client CID `02 07`: the CID SETS of the two sessions are disjoint and the 4-tuples differ, but a CID of A is a
prefix of a CID of B. -/
def long (dcid : Bytes) : Bytes := [0xC0, 0, 0, 0, 1, UInt8.ofNat dcid.length] ++ dcid ++ [0, 1, 2, 3]
def a1 : QIn Nat := ⟨[], .long [0xAA] .v1, udp 1 (ep 1 5000) (ep 9 443) (long [0xAA])⟩
def b1 : QIn Nat := ⟨[], .long [0xBB] .v1, udp 2 (ep 2 6000) (ep 9 443) (long [0xBB])⟩
def b2 : QIn Nat := ⟨[], .short, udp 3 (ep 9 443) (ep 2 6000) [0x40, 2, 7, 99, 98]⟩
def b2' : QIn Nat := ⟨[], .short, udp 3 (ep 9 443) (ep 2 6000) [0x40, 3, 7, 99, 98]⟩
def script (cidB : Bytes) (tag : Nat) : List Bytes × List Bytes :=
  if tag = 1 then ([[2]], [[0xAA]]) else if tag = 2 then ([cidB], [[0xBB]]) else ([], [])

example : parseHeader a1.p.payload = some a1.h ∧ parseHeader b1.p.payload = some b1.h ∧
    parseHeader b2.p.payload = some b2.h := by decide +kernel

/-- with CIDs `02` and `03 07` the two connections are separated, and the merged run is the interleaving of the solo runs -/
theorem separated_example :
    QuicSeparated (Rec.quic (script [3, 7])) opts [a1] [b1, b2'] ∧ QuicSeparated (Rec.quic (script [3, 7])) opts [b1, b2'] [a1] :=
  ⟨quicSeparated_of_check _ _ _ _ (by decide +kernel), quicSeparated_of_check _ _ _ _ (by decide +kernel)⟩

example : (quicRun (Rec.quic (script [3, 7])) opts [] [a1, b1, b2']).map (fun s => s.st.log.map (·.1)) = [[1], [2, 3]] := by
  decide

/-- Without prefix-freedom: 4-tuples distinct, CID sets disjoint (`{02, aa}` and `{02 07, bb}`), yet the short-header
    datagram of connection B is given to the session of connection A (as DCID `02`), for the merge `a1, b1, b2`. -/
theorem quic_cross_routing_by_prefix :
    Merge [a1] [b1, b2] [a1, b1, b2] ∧
    (quicRun (Rec.quic (script [2, 7])) opts [] [a1, b1, b2]).map (fun s => s.st.log.map fun e => (e.1, e.2.1)) =
      [[(1, [0xAA]), (3, [2])], [(2, [0xBB])]] ∧
    (quicRun (Rec.quic (script [2, 7])) opts [] [b1, b2]).map (fun s => s.st.log.map fun e => (e.1, e.2.1)) =
      [[(2, [0xBB]), (3, [2, 7])]] ∧
    ¬ Merge (quicRun (Rec.quic (script [2, 7])) opts [] [a1]) (quicRun (Rec.quic (script [2, 7])) opts [] [b1, b2])
        (quicRun (Rec.quic (script [2, 7])) opts [] [a1, b1, b2]) := by
  refine ⟨.left _ (.right _ (.right _ .nil)), by decide, by decide, ?_⟩
  intro h
  have := h.perm
  revert this
  decide

/-- The statement one would like to have for QUIC — "connections with distinct 4-tuples and disjoint CID sets are
    demultiplexed exactly" — here for the recording sessions with an arbitrary CID script. It is FALSE for the code as it is
    (and for any passive observer that does not try decryption: a short header does not say how long its DCID is). -/
def quic_route_statement : Prop :=
  ∀ (script : Nat → List Bytes × List Bytes) (A B C : List (QIn Nat)), Merge A B C →
    (∀ n ∈ List.range (A.length + 1), ∀ s ∈ quicRun (Rec.quic script) opts [] (A.take n), ∀ x ∈ B, s.matches x.p = false) →
    (∀ m ∈ List.range (B.length + 1), ∀ t ∈ quicRun (Rec.quic script) opts [] (B.take m), ∀ x ∈ A, t.matches x.p = false) →
    (∀ n ∈ List.range (A.length + 1), ∀ m ∈ List.range (B.length + 1),
      ∀ s ∈ quicRun (Rec.quic script) opts [] (A.take n), ∀ t ∈ quicRun (Rec.quic script) opts [] (B.take m),
        ∀ c ∈ s.st.cc ++ s.st.sc, c ∉ t.st.cc ++ t.st.sc) →
    Merge (quicRun (Rec.quic script) opts [] A) (quicRun (Rec.quic script) opts [] B) (quicRun (Rec.quic script) opts [] C)

/-- `quic_route_exact` is the `_partial` form (extra hypothesis: `QuicSeparated`, i.e. additionally no CID of one connection
    is a prefix of bytes 1.. of a short-header datagram of the other); this is the counterexample to the full statement.
    Failing input, replayable on the real code (harness/m1_mainloop.py `replay_cross_routing`): three datagrams
    `a1` = 10.0.0.1:5000 → 10.0.0.9:443 long header DCID `aa` (its session learns client CID `02`),
    `b1` = 10.0.0.2:6000 → 10.0.0.9:443 long header DCID `bb` (its session learns client CID `02 07`),
    `b2` = 10.0.0.9:443 → 10.0.0.2:6000 short header `40 02 07 63 62`: given to the FIRST session, as DCID `02`. -/
theorem quic_route_counterexample : ¬ quic_route_statement := by
  intro H
  have := H (script [2, 7]) [a1] [b1, b2] [a1, b1, b2] (.left _ (.right _ (.right _ .nil))) (by decide) (by decide)
    (by decide)
  exact quic_cross_routing_by_prefix.2.2.2 this

/-- Without distinct 4-tuples (same client address and port towards the same server, e.g. two captures of a reused port
    merged): the second connection's Initial, whose DCID the first session does not know, is taken by the first session
    through the 4-tuple fallback. -/
theorem quic_cross_routing_by_tuple :
    (quicRun (Rec.quic (script [3, 7])) opts [] [a1, { b1 with p := udp 2 (ep 1 5000) (ep 9 443) (long [0xBB]) }]).map
      (fun s => s.st.log.map (·.1)) = [[1, 2]] := by decide

/-- The rule as it was (every CID of the session is a candidate in both directions): the client uses the CID `fe`, the server
    a zero-length CID; a client→server short-header datagram carries NO DCID, and its first protected byte happens to be `fe`
    (1 datagram in 256). It was matched with the client's own CID `fe` and `packet_isserver` then took it for a datagram from
    the server; under the receiver-side rule it falls through to the 4-tuple with DCID `b""` and the direction is right. -/
theorem legacy_own_cid_misdirects :
    let M := Rec.quic fun _ => ([], [])
    let s : QuicSess Rec.QState := ⟨ep 9 443, ep 1 5000, ⟨[], [[0xfe]], [[]]⟩⟩
    let p := udp 7 (ep 1 5000) (ep 9 443) [0x40, 0xfe, 1, 2, 3]
    s.matches p = true ∧
    Legacy.quicTake M .short p s = some [0xfe] ∧ dirIsServer s.st.cc s.st.sc (p.src == s.client) [0xfe] = true ∧
    quicTake M .short p s = some [] ∧ dirIsServer s.st.cc s.st.sc (p.src == s.client) [] = false := by decide

/-- the other direction: a server→client datagram is still matched with the client's CID -/
example :
    let M := Rec.quic fun _ => ([], [])
    let s : QuicSess Rec.QState := ⟨ep 9 443, ep 1 5000, ⟨[], [[0xfe]], [[]]⟩⟩
    quicTake M .short (udp 8 (ep 9 443) (ep 1 5000) [0x40, 0xfe, 1, 2, 3]) s = some [0xfe] := by decide

end Ex

end TLX.Props.C04
