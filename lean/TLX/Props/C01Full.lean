/-
C01 FROM FILE TO FILE WITHOUT THE REMAINING RESTRICTIONS of `Props/C01File2.tls12/13_capture_exact_text` and
`Props/C01Rfc.tls12/13_capture_exact_rfc` (`-c` off, `-a` off, IPv6 without extension headers).

  `tls13_capture_exact_full`, `tls12_capture_exact_full`   for ANY combination of `-a`, `-c`, `-m`, `-p`, over IPv4 or IPv6
        with extension headers, hypotheses in RFC terms (the style of `Props/C01Rfc`):

  `-c`   the connection's data segments carry valid TCP checksums (`CsumValid`: the RFC 1071 receiver of `Spec.Rfc1071`
         accepts the segment under the pseudo-header of the frame's addresses — `Spec.FrameBuild` leaves the checksum
         fields FREE, so this is a hypothesis on the frames, decidable for concrete ones); foreign frames may carry right
         or wrong checksums: a rejected foreign frame changes nothing for this session (`Lemmas.C01Full.flow_filter_c`).
         The verdict bit the tool computes is the RFC 1071 receiver's (`Props.C11.check_eq_rfc_verify` through dpkt's
         dissection: `Lemmas.C01Full.verdict_segX`). Route: directly through the read loop with the verdict bits
         (`ingest_of_capture_c`), not through `ExportInputs.export_checksum_filter` — the filter form would need the same
         re-gluing of the session's block, plus a renaming of tags.
  `-a`   the conclusion is the exact `-a` conversation (`expect12` / `expect13`): each direction's stream is its hello
         record verbatim, then per record in the order sent: clear-text handshake and ChangeCipherSpec records verbatim;
         TLS ≤ 1.2 protected handshake records as plaintext followed by the record as captured; TLS 1.3 protected
         handshake records nothing (their outer type is 23); application data as plaintext
         (`Lemmas.Capstone2.metaStream12/13`). With `-a` the TLS ≤ 1.2 theorem needs the stronger causality `Causal13`
         (ClientHello released first, ServerHello second), as `tls12_connection_meta_exact` does.
  IPv6   `Lemmas.C01Full.IsSegX`: ANY chain of well-formed hop-by-hop / destination options / routing / fragment (offset 0) /
         authentication headers between the IPv6 header and TCP (`extOk_opts` closes the case C12Dissect left to the
         correspondence) — EXCEPT chains that start with a fragment header and end with another kind (e.g. fragment,
         destination options — the RFC 8200 order): dpkt raises AttributeError there and the run aborts
         (`Props.C12Dissect.Ex.attribute_aborts`); that stays outside.
  Hypotheses that remain beyond `Props/C01Rfc`: with `-c`, the checksum functions do not raise on foreign frames
  (`ForeignC`: they raise only for transport segments of 2^16 bytes or more over IPv4).
-/
import TLX.Lemmas.C01Full
import TLX.Props.C01Rfc
set_option autoImplicit false
set_option linter.unusedSimpArgs false
set_option linter.unusedVariables false
namespace TLX.Props.C01Full
open TLX TLX.MainLoop TLX.OutBytes TLX.Export TLX.Props.C01File TLX.Lemmas.BuildBounds TLX.Props.C01File2
open TLX.Lemmas.Pipeline TLX.Props.C01Pipeline
open TLX.Spec.Demux TLX.Lemmas.MainLoop TLX.Dissect TLX.Spec.FrameBuild TLX.Spec.TlsCapture TLX.Props.C12Dissect
open TLX.Cipher TLX.RecordLayer TLX.Spec.TlsSender TLX.Props.C01 TLX.Spec.TlsConnection
open TLX.Lemmas.Capstone TLX.Lemmas.Capstone2 TLX.Spec.TlsFraming TLX.Props.C01Capstone
open TLX.Spec.RfcSuite TLX.Spec.KeySchedules TLX.Lemmas.C01Rfc TLX.Lemmas.C01Full TLX.Props.C01Rfc

/-! ### what the export must contain -/

/-- the two payload streams of the exported conversation, TLS 1.3: without `-a` the application data each endpoint sent;
    with `-a` each direction's records as `-a` exports them -/
def expect13 (m : Bool) (P : Prims) (L : SealLaws P) (cls : CipherClass) (t : Transcript) (x : Snd) : Bytes × Bytes :=
  if m then (t.chRecord ++ metaStream13 P L cls t.ver x.c t.cEvs, t.shRecord ++ metaStream13 P L cls t.ver x.s t.sEvs)
  else (Spec.TlsConnection.plainOf t.cEvs, Spec.TlsConnection.plainOf t.sEvs)

/-- … SSL 3.0 – TLS 1.2 -/
def expect12 (m : Bool) (P : Prims) (L : SealLaws P) (cls : CipherClass) (t : Transcript) (x : Snd) : Bytes × Bytes :=
  if m then (t.chRecord ++ metaStream12 P L cls t.ver x.c t.cEvs, t.shRecord ++ metaStream12 P L cls t.ver x.s t.sEvs)
  else (Spec.TlsConnection.plainOf t.cEvs, Spec.TlsConnection.plainOf t.sEvs)

theorem metaStream12_ivfree (P : Prims) (L : SealLaws P) (cls : CipherClass) (h : IvFree cls) (ver : Bytes)
    (evs : List DirEv) (a b : SDir) (hab : SameKey a b) :
    metaStream12 P L cls ver a evs = metaStream12 P L cls ver b evs := by
  induction evs generalizing a b with
  | nil => rfl
  | cons e rest ih =>
    simp only [metaStream12]
    cases e with
    | clear body => simp only [evRaw, evNext]; rw [ih a b hab]
    | ccs => simp only [evRaw, evNext]; rw [ih a b hab]
    | enc typ pt f =>
      obtain ⟨e1, e2⟩ := protect_ivfree P L cls h ver a b hab typ pt f
      simp only [evRaw, evNext]; rw [e1, ih _ _ e2]
    | hs13 msgs f =>
      obtain ⟨e1, e2⟩ := protect_ivfree P L cls h ver a b hab 22 (hsBytes msgs) f
      simp only [evRaw, evNext]; rw [e1, ih _ _ (switchN_sameKey _ _ _ e2)]

/-! ### one connection, any `-a`, hypotheses in RFC terms -/

/-- **C01 for a whole TLS 1.3 connection, `-a` on or off, RFC terms** (the connection level of `tls13_capture_exact_full`) -/
theorem tls13_connection_full (H : Crypto.Prims) (hH : H.Lawful) (P : Prims) (L : SealLaws P)
    (ls : List (C09Found.FLine × Bool)) (hls : ∀ x ∈ ls, x.1.WF)
    (info : Nat → Pipeline.Info) (c : Pipeline.Conn)
    (t : Transcript) (hch : t.ch.WellFormed) (hsh : t.sh.WellFormed) (hrc : t.rvC.length = 2) (hrs : t.rvS.length = 2)
    (hv : t.ver.length = 2) (hcomp : t.sh.compressionMethod = 0) (hneg : Negotiated t.rvS t.sh .tls13)
    (haccept : CipherSuite.resolve (Bytes.beNat t.sh.cipherSuite) ≠ none)
    (sp : SuiteSpec) (hsuite : suiteOfCode (Bytes.beNat t.sh.cipherSuite) = some sp)
    (cls : CipherClass) (hcls : cls13 sp = some cls)
    (chts shts cats sats : Bytes)
    (hl1 : HasLine ls labelCHTS (Pipeline.natsOfBytes t.ch.random) (Pipeline.natsOfBytes chts))
    (hl2 : HasLine ls labelSHTS (Pipeline.natsOfBytes t.ch.random) (Pipeline.natsOfBytes shts))
    (hl3 : HasLine ls labelCTS0 (Pipeline.natsOfBytes t.ch.random) (Pipeline.natsOfBytes cats))
    (hl4 : HasLine ls labelSTS0 (Pipeline.natsOfBytes t.ch.random) (Pipeline.natsOfBytes sats))
    (ho1 : OnlySecret ls labelCHTS (Pipeline.natsOfBytes t.ch.random) (Pipeline.natsOfBytes chts))
    (ho2 : OnlySecret ls labelSHTS (Pipeline.natsOfBytes t.ch.random) (Pipeline.natsOfBytes shts))
    (ho3 : OnlySecret ls labelCTS0 (Pipeline.natsOfBytes t.ch.random) (Pipeline.natsOfBytes cats))
    (ho4 : OnlySecret ls labelSTS0 (Pipeline.natsOfBytes t.ch.random) (Pipeline.natsOfBytes sats))
    (hsc : Script13 t.cEvs) (hss : Script13 t.sEvs)
    (hokc : ∀ e ∈ t.cEvs, EvOk1 cls (sp.hash.suite H).outLen e)
    (hoks : ∀ e ∈ t.sEvs, EvOk1 cls (sp.hash.suite H).outLen e)
    (hwr : ∀ d, ∀ r ∈ t.records P L cls (snd13 H sp chts shts cats sats) d, WholeRecord r)
    (hlen : budget13 t ≤ seqLimit)
    (hdel : DeliveredInOrder info c (t.stream P L cls (snd13 H sp chts shts cats sats)))
    (hcausal : Causal13 (connRecs info c)) :
    ∃ frames, Pipeline.connOut H P info c ((fileKeysOf (some (C09Found.fileText ls))).getD [])
        = some (frames.map (Pipeline.addressed c.opts c)) ∧
      Spec.reassemble frames = some (expect13 c.opts.metadata P L cls t (snd13 H sp chts shts cats sats)) := by
  obtain ⟨ps, sp', hres, hsuite', hwf, hargs, _⟩ := resolve_rfc _ haccept
  rw [hsuite] at hsuite'
  cases hsuite'
  obtain ⟨e1, e2, e3, e4, e5, _⟩ := labelOf_13
  obtain ⟨fk, fks, hfound⟩ := linesFor_ne_nil _ ls _ _ hl1
  have hsec := secretsOf13_lines (Pipeline.natsOfBytes t.ch.random) ls hls
  rw [hfound] at hsec
  have hfound' : Keylog.findSessionSecrets ((fileKeysOf (some (C09Found.fileText ls))).getD [])
      (Pipeline.natsOfBytes t.ch.random) = fk :: fks := by
    rw [C09Found.found13_fileText ls hls]; exact hfound
  have m1 : labelCHTS ∈ Keylog.labels13 := by rw [e5]; simp
  have m2 : labelSHTS ∈ Keylog.labels13 := by rw [e5]; simp
  have m3 : labelCTS0 ∈ Keylog.labels13 := by rw [e5]; simp
  have m4 : labelSTS0 ∈ Keylog.labels13 := by rw [e5]; simp
  have q1 := lastOf_lines _ ls _ m1 chts hl1 ho1
  have q2 := lastOf_lines _ ls _ m2 shts hl2 ho2
  have q3 := lastOf_lines _ ls _ m3 cats hl3 ho3
  have q4 := lastOf_lines _ ls _ m4 sats hl4 ho4
  rw [e1] at q1; rw [e2] at q2; rw [e3] at q3; rw [e4] at q4
  have hkl : sp.keyLen ≤ 32 := keyLen_le sp hwf
  have hnil : ls.filterMap (lineSec (Pipeline.natsOfBytes t.ch.random)) ≠ [] := by
    intro h; rw [h] at q1; cases q1
  have hgen := Props.C15.tls13_installed_eq_rfc H (argsOf sp).ks _ t.ch.random t.sh.random
    (show (argsOf sp).ks.keyLen < 65536 by show sp.keyLen < 65536; omega) hnil chts shts cats sats q1 q2 q3 q4
  simp only [macSuite_argsOf] at hgen
  have hl := hash_lawful H hH sp.hash
  have k1 := tls13_key_lengths _ hl chts sp.keyLen (by omega)
  have k2 := tls13_key_lengths _ hl shts sp.keyLen (by omega)
  have k3 := tls13_key_lengths _ hl cats sp.keyLen (by omega)
  have k4 := tls13_key_lengths _ hl sats sp.keyLen (by omega)
  cases hm : c.opts.metadata with
  | false =>
    obtain ⟨frames, g1, g2, _⟩ := tls13_connection_exact H P L _ info c hm t hch hsh hrc hrs hv hcomp hneg ps hres
      (argsOf sp) hargs fk fks hfound' _ hsec _ hgen _ _ _ _ _ _ _ _ ⟨rfl, rfl, rfl, rfl, rfl, rfl, rfl, rfl⟩ cls
      (classOf_cls13 _ sp cls hcls)
      (keyMatOk13 sp hwf cls hcls _ _ k1.1 k1.2) (keyMatOk13 sp hwf cls hcls _ _ k3.1 k3.2)
      (keyMatOk13 sp hwf cls hcls _ _ k2.1 k2.2) (keyMatOk13 sp hwf cls hcls _ _ k4.1 k4.2)
      hsc hss (by rw [macSuite_argsOf]; exact hokc) (by rw [macSuite_argsOf]; exact hoks) hwr hlen hdel hcausal
    exact ⟨frames, g1, g2⟩
  | true =>
    obtain ⟨frames, g1, g2, _⟩ := tls13_connection_meta_exact H P L _ info c hm t hch hsh hrc hrs hv hcomp hneg ps hres
      (argsOf sp) hargs fk fks hfound' _ hsec _ hgen _ _ _ _ _ _ _ _ ⟨rfl, rfl, rfl, rfl, rfl, rfl, rfl, rfl⟩ cls
      (classOf_cls13 _ sp cls hcls)
      (keyMatOk13 sp hwf cls hcls _ _ k1.1 k1.2) (keyMatOk13 sp hwf cls hcls _ _ k3.1 k3.2)
      (keyMatOk13 sp hwf cls hcls _ _ k2.1 k2.2) (keyMatOk13 sp hwf cls hcls _ _ k4.1 k4.2)
      hsc hss (by rw [macSuite_argsOf]; exact hokc) (by rw [macSuite_argsOf]; exact hoks) hwr hlen hdel hcausal
    exact ⟨frames, g1, g2⟩

/-- **C01 for a whole SSL 3.0 – TLS 1.2 connection, `-a` on or off, RFC terms** -/
theorem tls12_connection_full (H : Crypto.Prims) (hH : H.Lawful) (P : Prims) (L : SealLaws P)
    (ls : List (C09Found.FLine × Bool)) (hls : ∀ x ∈ ls, x.1.WF)
    (info : Nat → Pipeline.Info) (c : Pipeline.Conn)
    (t : Transcript) (hch : t.ch.WellFormed) (hsh : t.sh.WellFormed) (hrc : t.rvC.length = 2) (hrs : t.rvS.length = 2)
    (hv : t.ver.length = 2) (hcomp : t.sh.compressionMethod = 0)
    (pv : ProtocolVersion) (hneg : Negotiated t.rvS t.sh (sessVer pv))
    (hsz : pv = .ssl30 → H.md5.outLen = 16 ∧ H.sha1.outLen = 20)
    (haccept : CipherSuite.resolve (Bytes.beNat t.sh.cipherSuite) ≠ none)
    (sp : SuiteSpec) (hsuite : suiteOfCode (Bytes.beNat t.sh.cipherSuite) = some sp) (hvalid : ValidFor sp pv)
    (cls : CipherClass) (hcls : cls12 pv (etmNegotiated t.sh) sp = some cls)
    (ms : Bytes) (hms : ms.length = 48)
    (hl1 : HasLine ls labelClientRandom (Pipeline.natsOfBytes t.ch.random) (Pipeline.natsOfBytes ms))
    (ho1 : OnlySecret ls labelClientRandom (Pipeline.natsOfBytes t.ch.random) (Pipeline.natsOfBytes ms))
    (hsc : Script12 t.cEvs) (hss : Script12 t.sEvs)
    (hokc : ∀ e ∈ t.cEvs, EvOk1 cls (sp.hash.suite H).outLen e)
    (hoks : ∀ e ∈ t.sEvs, EvOk1 cls (sp.hash.suite H).outLen e)
    (hwr : ∀ d, ∀ r ∈ t.records P L cls (snd12 H pv sp ms t.ch.random t.sh.random) d, WholeRecord r)
    (hlen : t.cEvs.length + t.sEvs.length ≤ seqLimit)
    (hdel : DeliveredInOrder info c (t.stream P L cls (snd12 H pv sp ms t.ch.random t.sh.random)))
    (hc12 : c.opts.metadata = false → Causal12 (connRecs info c))
    (hc13 : c.opts.metadata = true → Causal13 (connRecs info c)) :
    ∃ frames, Pipeline.connOut H P info c ((fileKeysOf (some (C09Found.fileText ls))).getD [])
        = some (frames.map (Pipeline.addressed c.opts c)) ∧
      Spec.reassemble frames = some (expect12 c.opts.metadata P L cls t (snd12 H pv sp ms t.ch.random t.sh.random)) := by
  obtain ⟨ps, sp', hres, hsuite', hwf, hargs, _⟩ := resolve_rfc _ haccept
  rw [hsuite] at hsuite'
  cases hsuite'
  obtain ⟨fk, fks, srest, hfound, hsec⟩ := legacy_lines _ ls hls ms hl1 ho1
  have hfound' : (Keylog.findSessionSecrets ((fileKeysOf (some (C09Found.fileText ls))).getD [])
      (Pipeline.natsOfBytes t.ch.random)).filter
        (fun k => k.label == Keylog.s_CLIENT_RANDOM || k.label == Keylog.s_RSA) = fk :: fks := by
    rw [C09Found.found12_fileText ls hls]; exact hfound
  have haead : sp.bulk.isAead = true → ksVer pv = .tls12 := by
    intro h; have := hvalid (.inl h); subst this; rfl
  have hkl : sp.keyLen ≤ 32 := keyLen_le sp hwf
  obtain ⟨k, hgen, hkeys⟩ := Props.C15.installed_eq_schedule H hH (ksVer pv) pv (specVersion_ksVer pv) (argsOf sp).ks sp.bulk
    (suiteBulk_argsOf sp) haead (fun _ => rfl) ms t.ch.random t.sh.random srest
    (by intro _; rw [hms])
    (by
      intro h30
      have hpv : pv = .ssl30 := by cases pv <;> simp [ksVer] at h30 ⊢
      obtain ⟨z1, z2⟩ := hsz hpv
      have hnot : ¬ (sp.bulk.isAead = true ∨ sp.hash = .sha256 ∨ sp.hash = .sha384) := by
        intro h; have := hvalid h; rw [hpv] at this; cases this
      rw [macSuite_argsOf, z1]
      have hm : (sp.hash.suite H).outLen ≤ 20 := by
        obtain ⟨b, kl, hs, tg⟩ := sp
        cases hs <;> simp [HashName.suite, z1, z2] at hnot ⊢
      have hi : KeySchedule.ivLenLegacy (argsOf sp).ks.cipher ≤ 16 := by
        generalize (argsOf sp).ks.cipher = c
        cases c <;> simp [KeySchedule.ivLenLegacy]
      show 2 * sp.keyLen + _ + _ ≤ _
      omega)
  rw [rfcParams_argsOf] at hkeys
  obtain ⟨_, _, hck, hsk, hivs⟩ := hkeys
  obtain ⟨l1, l2, l3, l4⟩ := connectionKeys_lengths H hH pv (secParams H pv sp) (prfHash_lawful H hH _) ms t.ch.random
    t.sh.random
  -- the RFC sender's states against the installed keys: equal, or equal in everything the class reads
  have hstates : legacySnd k = snd12 H pv sp ms t.ch.random t.sh.random ∨
      (IvFree cls ∧ SameKey (legacySnd k).c (snd12 H pv sp ms t.ch.random t.sh.random).c ∧
        SameKey (legacySnd k).s (snd12 H pv sp ms t.ch.random t.sh.random).s) := by
    by_cases h0 : 0 < recordIvLength pv sp.bulk
    · obtain ⟨hi1, hi2⟩ := hivs h0
      left
      simp only [legacySnd, snd12, hck, hsk, hi1, hi2]
    · exact .inr ⟨ivFree_of_cls12 pv _ sp cls hcls h0, ⟨hck, rfl, rfl⟩, ⟨hsk, rfl, rfl⟩⟩
  have hrecs : ∀ d, t.records P L cls (legacySnd k) d = t.records P L cls (snd12 H pv sp ms t.ch.random t.sh.random) d := by
    rcases hstates with h | ⟨hf, a, b⟩
    · intro d; rw [h]
    · intro d; exact records_ivfree P L cls hf t _ _ a b d
  have hstream : t.stream P L cls (legacySnd k) = t.stream P L cls (snd12 H pv sp ms t.ch.random t.sh.random) := by
    funext d
    simp only [Transcript.stream, hrecs d]
  have hexp : ∀ m, expect12 m P L cls t (legacySnd k) = expect12 m P L cls t (snd12 H pv sp ms t.ch.random t.sh.random) := by
    intro m
    rcases hstates with h | ⟨hf, a, b⟩
    · rw [h]
    · cases m
      · rfl
      · simp only [expect12, if_true]
        rw [metaStream12_ivfree P L cls hf t.ver t.cEvs _ _ a, metaStream12_ivfree P L cls hf t.ver t.sEvs _ _ b]
  have hcls' : classOf (argsOf sp).bulk (Pipeline.rlVersion (sessVer pv))
      (Session.extGet ((t.sh.extensions.getD []).map extPair) [0x00, 0x16]).isSome (argsOf sp).tagLen = some cls := by
    rw [etm_extGet _ (exts_wf t.sh hsh)]
    exact classOf_cls12 pv _ sp cls hcls
  rw [← ksVersion_sessVer] at hgen
  have hmac : 0 < (KeySchedule.macSuite H (argsOf sp).ks.mac).outLen := by
    rw [macSuite_argsOf]; exact (hash_lawful H hH sp.hash).outLen_pos
  have hk1 := keyMatOk12 pv _ sp hwf cls hcls k.clientKey k.clientIv (by rw [hck]; exact l1)
    (fun h0 => by rw [(hivs h0).1]; exact l3)
  have hk2 := keyMatOk12 pv _ sp hwf cls hcls k.serverKey k.serverIv (by rw [hsk]; exact l2)
    (fun h0 => by rw [(hivs h0).2]; exact l4)
  cases hm : c.opts.metadata with
  | false =>
    obtain ⟨frames, g1, g2, _⟩ := tls12_connection_exact H P L _ info c hm t hch hsh hrc hrs hv hcomp (sessVer pv)
      (sessVer_ne13 pv) hneg ps hres (argsOf sp) hargs fk fks hfound' _ hsec k hgen cls hcls' hmac hk1 hk2 hsc hss
      (by rw [macSuite_argsOf]; exact hokc) (by rw [macSuite_argsOf]; exact hoks)
      (by intro d; rw [hrecs d]; exact hwr d) hlen (by rw [hstream]; exact hdel) (hc12 hm)
    exact ⟨frames, g1, g2⟩
  | true =>
    obtain ⟨frames, g1, g2, _⟩ := tls12_connection_meta_exact H P L _ info c hm t hch hsh hrc hrs hv hcomp (sessVer pv)
      (sessVer_ne13 pv) hneg ps hres (argsOf sp) hargs fk fks hfound' _ hsec k hgen cls hcls' hmac hk1 hk2 hsc hss
      (by rw [macSuite_argsOf]; exact hokc) (by rw [macSuite_argsOf]; exact hoks)
      (by intro d; rw [hrecs d]; exact hwr d) hlen (by rw [hstream]; exact hdel) (hc13 hm)
    refine ⟨frames, g1, ?_⟩
    rw [g2, ← hexp true]
    rfl

/-! ### from the described capture to the output file -/

/-- whatever else the run hands to the writer — before and after the block of the session of interest — is also taken by
    the write loop (`Props.C01File2.OthersFit` for the items of the read loop under the run's `-c`) -/
def OthersFitC (mask : Quic.Dissect.MaskFn) (H : Crypto.Prims) (P : Cipher.Prims) (args : Args)
    (keyFile : Option Keylog.Str) (cap : List CapEv) (blk : List Pipeline.OutPkt) : Prop :=
  ∀ out pre post, framesFrom mask H P freshState args (fileKeysOf keyFile) (itemsFromC args.checksumTest 0 cap)
      (capInfo cap) = .ok out → out = pre ++ blk ++ post → ∀ q ∈ pre ++ post, WritesOk q

/-- **The file layers around one session, without the restrictions.** A capture described from the sender's side
    (`DescribedX`), any container variant, any options: if THE session object of the flow exports `frames` (addressed)
    reassembling to `(pc, psv)`, and the write loop takes what is handed to it, the output file `Exact`ly contains that
    conversation. -/
theorem capture_exact_glue (mask : Quic.Dissect.MaskFn) (H : Crypto.Prims) (P : Prims)
    (fl : Flow) (hne : clientEp fl ≠ serverEp fl) (evs : List CEv) (args : Args)
    (hdesc : DescribedX fl args.checksumTest evs)
    (hnot1 : ∀ e ∈ evs.map CEv.cap, Ingest.isMinusOne e.t = false)
    (cv : Spec.Containers.Variant) (cevs : List Spec.Containers.Ev) (hcwf : cv.WF cevs)
    (hitems : cevs.filterMap (Spec.Containers.scale cv) = (evs.map CEv.cap).map CapEv.item)
    (keyFile : Option Keylog.Str)
    (pm : List (Int × Int)) (ports : List Int)
    (hpm : Options.getPortMap Options.Src.bare args.mArg = .ok pm)
    (hports : Options.serverPorts Options.Src.builtin Options.Src.pDefault args.pArg = .ok ports)
    (hsp : ports.contains (fl.serverPort : Int) = true) (hcp : ports.contains (fl.clientPort : Int) = false)
    (p0 : Pkt) (rest : List Pkt) (hfp : flowPkts fl 0 evs = p0 :: rest)
    (pc psv : Bytes)
    (hconn : ∃ frames, Pipeline.connOut H P (capInfo (evs.map CEv.cap))
        (sessionOf (evs.map CEv.cap) (optsOf args ports pm) p0 rest) ((fileKeysOf keyFile).getD [])
          = some (frames.map (Pipeline.addressed (optsOf args ports pm) (sessionOf (evs.map CEv.cap) (optsOf args ports pm) p0 rest))) ∧
        Spec.reassemble frames = some (pc, psv))
    (hcport : fl.clientPort < 65536) (hsport : fl.serverPort < 65536) (hpmv : ∀ kv ∈ pm, kv.2.toNat < 65536)
    (hbytes : pc.length + psv.length + 1 < 2 ^ 32)
    (hrec : RecordsFit H P (capInfo (evs.map CEv.cap)) (sessionOf (evs.map CEv.cap) (optsOf args ports pm) p0 rest)
      ((fileKeysOf keyFile).getD []))
    (hus : ∀ e ∈ evs.map CEv.cap, e.us < 2 ^ 64)
    (hothers : ∀ blk, Pipeline.connOut H P (capInfo (evs.map CEv.cap))
        (sessionOf (evs.map CEv.cap) (optsOf args ports pm) p0 rest) ((fileKeysOf keyFile).getD []) = some blk →
      OthersFitC mask H P args keyFile (evs.map CEv.cap) blk) :
    ∃ f, exportFile mask H P args cv.isLegacy keyFile (Spec.Containers.encode cv cevs) = .file f ∧
      Exact f (sessionOf (evs.map CEv.cap) (optsOf args ports pm) p0 rest) pc psv := by
  have hread : Container.read cv.isLegacy (Spec.Containers.encode cv cevs) = .ok ((evs.map CEv.cap).map CapEv.item) := by
    rw [Props.C12.reader_roundtrip cv cevs hcwf, hitems]
  have hok := capOkC_of_describedX fl args.checksumTest evs hdesc hnot1
  have hing := ingest_of_capture_c Keylog.srcHexClass args.checksumTest cv.isLegacy _ (evs.map CEv.cap) hread hok
  obtain ⟨hF, hcand, hsrv, hcli, _⟩ :=
    described_session_x fl hne evs (optsOf args ports pm) hdesc hsp hcp p0 rest hfp
  obtain ⟨frames, hc, hre⟩ := hconn
  have hfits := connOut_fits H P (capInfo (evs.map CEv.cap)) (sessionOf (evs.map CEv.cap) (optsOf args ports pm) p0 rest)
    ((fileKeysOf keyFile).getD []) frames _ _ hc hre hrec hbytes
    (by rw [hcli]; exact hcport)
    (by rw [hsrv]; exact exported_lt _ _ _ hsport hpmv)
    (capInfo_ts _ hus)
  obtain ⟨f, hf, hrb⟩ := export_of_items_file mask H P args cv.isLegacy keyFile _ _ _ hing pm ports hpm hports
    (refPkt fl) p0 rest hF hcand _
    (by
      show Pipeline.connOut H P (capInfo (evs.map CEv.cap)) (sessionOf (evs.map CEv.cap) (optsOf args ports pm) p0 rest) _ = _
      rw [dsbKeys_itemsFromC, List.append_nil]; exact hc)
    hfits (hothers _ hc)
  exact ⟨f, hf, frames, hrb, hre⟩

/-- **C01, TLS 1.3, from file to file, ANY options, IPv4 / IPv6 with extension headers, RFC terms.**
    Beyond `Props.C01Rfc.tls13_capture_exact_rfc`: `-c` on or off (with it: valid TCP checksums on the connection's data
    segments, anything on foreign frames), `-a` on or off (the conclusion is `expect13 args.metadata …`), IPv6 extension
    headers in the connection's segments (`IsSegX`). -/
theorem tls13_capture_exact_full (mask : Quic.Dissect.MaskFn) (H : Crypto.Prims) (hH : H.Lawful) (P : Prims) (L : SealLaws P)
    -- the capture file: bytes written by the independent encoder in ANY container variant, holding the described packets;
    -- the connection's segments over IPv4 or IPv6 WITH extension headers, with `-c` carrying valid TCP checksums
    (fl : Flow) (hne : clientEp fl ≠ serverEp fl) (evs : List CEv) (args : Args)
    (hdesc : DescribedX fl args.checksumTest evs)
    (hnot1 : ∀ e ∈ evs.map CEv.cap, Ingest.isMinusOne e.t = false)
    (cv : Spec.Containers.Variant) (cevs : List Spec.Containers.Ev) (hcwf : cv.WF cevs)
    (hitems : cevs.filterMap (Spec.Containers.scale cv) = (evs.map CEv.cap).map CapEv.item)
    -- the options: ANY `-a`, `-c`, `-m`, `-p`; the server port is a server port, the client port is not
    (ls : List (C09Found.FLine × Bool)) (hls : ∀ x ∈ ls, x.1.WF)
    (pm : List (Int × Int)) (ports : List Int)
    (hpm : Options.getPortMap Options.Src.bare args.mArg = .ok pm)
    (hports : Options.serverPorts Options.Src.builtin Options.Src.pDefault args.pArg = .ok ports)
    (hsp : ports.contains (fl.serverPort : Int) = true) (hcp : ports.contains (fl.clientPort : Int) = false)
    (p0 : Pkt) (rest : List Pkt) (hfp : flowPkts fl 0 evs = p0 :: rest)
    -- the connection as sent: hellos per RFC 8446 §4.1
    (t : Transcript) (hch : t.ch.WellFormed) (hsh : t.sh.WellFormed) (hrc : t.rvC.length = 2) (hrs : t.rvS.length = 2)
    (hv : t.ver.length = 2) (hcomp : t.sh.compressionMethod = 0) (hneg : Negotiated t.rvS t.sh .tls13)
    -- the negotiated suite: a code point the tool supports; `sp` is what its IANA name denotes; an AEAD suite
    (haccept : CipherSuite.resolve (Bytes.beNat t.sh.cipherSuite) ≠ none)
    (sp : SuiteSpec) (hsuite : suiteOfCode (Bytes.beNat t.sh.cipherSuite) = some sp)
    (cls : CipherClass) (hcls : cls13 sp = some cls)
    -- the four traffic secrets of the connection, and their lines in the key-log file
    (chts shts cats sats : Bytes)
    (hl1 : HasLine ls labelCHTS (Pipeline.natsOfBytes t.ch.random) (Pipeline.natsOfBytes chts))
    (hl2 : HasLine ls labelSHTS (Pipeline.natsOfBytes t.ch.random) (Pipeline.natsOfBytes shts))
    (hl3 : HasLine ls labelCTS0 (Pipeline.natsOfBytes t.ch.random) (Pipeline.natsOfBytes cats))
    (hl4 : HasLine ls labelSTS0 (Pipeline.natsOfBytes t.ch.random) (Pipeline.natsOfBytes sats))
    (ho1 : OnlySecret ls labelCHTS (Pipeline.natsOfBytes t.ch.random) (Pipeline.natsOfBytes chts))
    (ho2 : OnlySecret ls labelSHTS (Pipeline.natsOfBytes t.ch.random) (Pipeline.natsOfBytes shts))
    (ho3 : OnlySecret ls labelCTS0 (Pipeline.natsOfBytes t.ch.random) (Pipeline.natsOfBytes cats))
    (ho4 : OnlySecret ls labelSTS0 (Pipeline.natsOfBytes t.ch.random) (Pipeline.natsOfBytes sats))
    -- what follows the hellos: RFC 8446 records, protected with the keys of §7.3
    (hsc : Script13 t.cEvs) (hss : Script13 t.sEvs)
    (hokc : ∀ e ∈ t.cEvs, EvOk1 cls (sp.hash.suite H).outLen e)
    (hoks : ∀ e ∈ t.sEvs, EvOk1 cls (sp.hash.suite H).outLen e)
    (hwr : ∀ d, ∀ r ∈ t.records P L cls (snd13 H sp chts shts cats sats) d, WholeRecord r)
    (hlen : budget13 t ≤ seqLimit)
    -- the capture of the connection, sender side; causality on the released records as in the connection capstone
    (hwires : WiresInOrder evs (t.stream P L cls (snd13 H sp chts shts cats sats)))
    (hcausal : Causal13 (connRecs (capInfo (evs.map CEv.cap)) (sessionOf (evs.map CEv.cap) (optsOf args ports pm) p0 rest)))
    -- what the write loop needs (each CAN fail on the real tool: see the header of `Props/C01File2`)
    (hcport : fl.clientPort < 65536) (hsport : fl.serverPort < 65536) (hpmv : ∀ kv ∈ pm, kv.2.toNat < 65536)
    (hbytes : (expect13 args.metadata P L cls t (snd13 H sp chts shts cats sats)).1.length + (expect13 args.metadata P L cls t (snd13 H sp chts shts cats sats)).2.length + 1 < 2 ^ 32)
    (hrec : RecordsFit H P (capInfo (evs.map CEv.cap)) (sessionOf (evs.map CEv.cap) (optsOf args ports pm) p0 rest)
      ((fileKeysOf (some (C09Found.fileText ls))).getD []))
    (hus : ∀ e ∈ evs.map CEv.cap, e.us < 2 ^ 64)
    (hothers : ∀ blk, Pipeline.connOut H P (capInfo (evs.map CEv.cap))
        (sessionOf (evs.map CEv.cap) (optsOf args ports pm) p0 rest) ((fileKeysOf (some (C09Found.fileText ls))).getD []) = some blk →
      OthersFitC mask H P args (some (C09Found.fileText ls)) (evs.map CEv.cap) blk) :
    ∃ f, exportFile mask H P args cv.isLegacy (some (C09Found.fileText ls)) (Spec.Containers.encode cv cevs) = .file f ∧
      Exact f (sessionOf (evs.map CEv.cap) (optsOf args ports pm) p0 rest) (expect13 args.metadata P L cls t (snd13 H sp chts shts cats sats)).1 (expect13 args.metadata P L cls t (snd13 H sp chts shts cats sats)).2 := by
  obtain ⟨_, _, _, _, hdelv⟩ := described_session_x fl hne evs (optsOf args ports pm) hdesc hsp hcp p0 rest hfp
  have hconn := tls13_connection_full H hH P L ls hls (capInfo (evs.map CEv.cap))
    (sessionOf (evs.map CEv.cap) (optsOf args ports pm) p0 rest) t hch hsh hrc hrs hv hcomp hneg haccept sp hsuite cls hcls
    chts shts cats sats hl1 hl2 hl3 hl4 ho1 ho2 ho3 ho4 hsc hss hokc hoks hwr hlen (hdelv _ hwires) hcausal
  exact capture_exact_glue mask H P fl hne evs args hdesc hnot1 cv cevs hcwf hitems (some (C09Found.fileText ls)) pm ports
    hpm hports hsp hcp p0 rest hfp _ _ hconn hcport hsport hpmv hbytes hrec hus hothers

/-- **C01, SSL 3.0 – TLS 1.2, from file to file, ANY options, IPv4 / IPv6 with extension headers, RFC terms.**
    Beyond `Props.C01Rfc.tls12_capture_exact_rfc`: `-c`, `-a` (conclusion `expect12 args.metadata …`; with `-a` the
    causality hypothesis is `Causal13`: ClientHello released first, ServerHello second), IPv6 extension headers. -/
theorem tls12_capture_exact_full (mask : Quic.Dissect.MaskFn) (H : Crypto.Prims) (hH : H.Lawful) (P : Prims) (L : SealLaws P)
    -- the capture file: bytes written by the independent encoder in ANY container variant, holding the described packets;
    -- the connection's segments over IPv4 or IPv6 WITH extension headers, with `-c` carrying valid TCP checksums
    (fl : Flow) (hne : clientEp fl ≠ serverEp fl) (evs : List CEv) (args : Args)
    (hdesc : DescribedX fl args.checksumTest evs)
    (hnot1 : ∀ e ∈ evs.map CEv.cap, Ingest.isMinusOne e.t = false)
    (cv : Spec.Containers.Variant) (cevs : List Spec.Containers.Ev) (hcwf : cv.WF cevs)
    (hitems : cevs.filterMap (Spec.Containers.scale cv) = (evs.map CEv.cap).map CapEv.item)
    -- the options: ANY `-a`, `-c`, `-m`, `-p`; the server port is a server port, the client port is not
    (ls : List (C09Found.FLine × Bool)) (hls : ∀ x ∈ ls, x.1.WF)
    (pm : List (Int × Int)) (ports : List Int)
    (hpm : Options.getPortMap Options.Src.bare args.mArg = .ok pm)
    (hports : Options.serverPorts Options.Src.builtin Options.Src.pDefault args.pArg = .ok ports)
    (hsp : ports.contains (fl.serverPort : Int) = true) (hcp : ports.contains (fl.clientPort : Int) = false)
    (p0 : Pkt) (rest : List Pkt) (hfp : flowPkts fl 0 evs = p0 :: rest)
    -- the connection as sent: hellos per RFC; the negotiated version
    (t : Transcript) (hch : t.ch.WellFormed) (hsh : t.sh.WellFormed) (hrc : t.rvC.length = 2) (hrs : t.rvS.length = 2)
    (hv : t.ver.length = 2) (hcomp : t.sh.compressionMethod = 0)
    (pv : ProtocolVersion) (hneg : Negotiated t.rvS t.sh (sessVer pv))
    -- SSL 3.0 only: the real digest sizes of MD5 and SHA-1 (the tool knows ten of RFC 6101's salts)
    (hsz : pv = .ssl30 → H.md5.outLen = 16 ∧ H.sha1.outLen = 20)
    -- the negotiated suite: a code point the tool supports; `sp` is what its IANA name denotes; valid for the version
    (haccept : CipherSuite.resolve (Bytes.beNat t.sh.cipherSuite) ≠ none)
    (sp : SuiteSpec) (hsuite : suiteOfCode (Bytes.beNat t.sh.cipherSuite) = some sp) (hvalid : ValidFor sp pv)
    (cls : CipherClass) (hcls : cls12 pv (etmNegotiated t.sh) sp = some cls)
    -- the master secret of the connection, and its line in the key-log file
    (ms : Bytes) (hms : ms.length = 48)
    (hl1 : HasLine ls labelClientRandom (Pipeline.natsOfBytes t.ch.random) (Pipeline.natsOfBytes ms))
    (ho1 : OnlySecret ls labelClientRandom (Pipeline.natsOfBytes t.ch.random) (Pipeline.natsOfBytes ms))
    -- what follows the hellos: clear handshake records, ChangeCipherSpec, records protected with the keys of the key block
    (hsc : Script12 t.cEvs) (hss : Script12 t.sEvs)
    (hokc : ∀ e ∈ t.cEvs, EvOk1 cls (sp.hash.suite H).outLen e)
    (hoks : ∀ e ∈ t.sEvs, EvOk1 cls (sp.hash.suite H).outLen e)
    (hwr : ∀ d, ∀ r ∈ t.records P L cls (snd12 H pv sp ms t.ch.random t.sh.random) d, WholeRecord r)
    (hlen : t.cEvs.length + t.sEvs.length ≤ seqLimit)
    -- the capture of the connection, sender side; causality on the released records as in the connection capstones
    (hwires : WiresInOrder evs (t.stream P L cls (snd12 H pv sp ms t.ch.random t.sh.random)))
    (hc12 : args.metadata = false →
      Causal12 (connRecs (capInfo (evs.map CEv.cap)) (sessionOf (evs.map CEv.cap) (optsOf args ports pm) p0 rest)))
    (hc13 : args.metadata = true →
      Causal13 (connRecs (capInfo (evs.map CEv.cap)) (sessionOf (evs.map CEv.cap) (optsOf args ports pm) p0 rest)))
    -- what the write loop needs (each CAN fail on the real tool: see the header of `Props/C01File2`)
    (hcport : fl.clientPort < 65536) (hsport : fl.serverPort < 65536) (hpmv : ∀ kv ∈ pm, kv.2.toNat < 65536)
    (hbytes : (expect12 args.metadata P L cls t (snd12 H pv sp ms t.ch.random t.sh.random)).1.length + (expect12 args.metadata P L cls t (snd12 H pv sp ms t.ch.random t.sh.random)).2.length + 1 < 2 ^ 32)
    (hrec : RecordsFit H P (capInfo (evs.map CEv.cap)) (sessionOf (evs.map CEv.cap) (optsOf args ports pm) p0 rest)
      ((fileKeysOf (some (C09Found.fileText ls))).getD []))
    (hus : ∀ e ∈ evs.map CEv.cap, e.us < 2 ^ 64)
    (hothers : ∀ blk, Pipeline.connOut H P (capInfo (evs.map CEv.cap))
        (sessionOf (evs.map CEv.cap) (optsOf args ports pm) p0 rest) ((fileKeysOf (some (C09Found.fileText ls))).getD []) = some blk →
      OthersFitC mask H P args (some (C09Found.fileText ls)) (evs.map CEv.cap) blk) :
    ∃ f, exportFile mask H P args cv.isLegacy (some (C09Found.fileText ls)) (Spec.Containers.encode cv cevs) = .file f ∧
      Exact f (sessionOf (evs.map CEv.cap) (optsOf args ports pm) p0 rest) (expect12 args.metadata P L cls t (snd12 H pv sp ms t.ch.random t.sh.random)).1 (expect12 args.metadata P L cls t (snd12 H pv sp ms t.ch.random t.sh.random)).2 := by
  obtain ⟨_, _, _, _, hdelv⟩ := described_session_x fl hne evs (optsOf args ports pm) hdesc hsp hcp p0 rest hfp
  have hconn := tls12_connection_full H hH P L ls hls (capInfo (evs.map CEv.cap))
    (sessionOf (evs.map CEv.cap) (optsOf args ports pm) p0 rest) t hch hsh hrc hrs hv hcomp pv hneg hsz haccept sp hsuite
    hvalid cls hcls ms hms hl1 ho1 hsc hss hokc hoks hwr hlen (hdelv _ hwires) hc12 hc13
  exact capture_exact_glue mask H P fl hne evs args hdesc hnot1 cv cevs hcwf hitems (some (C09Found.fileText ls)) pm ports
    hpm hports hsp hcp p0 rest hfp _ _ hconn hcport hsport hpmv hbytes hrec hus hothers

end TLX.Props.C01Full
