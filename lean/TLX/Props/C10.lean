/-
C10 — server-port selection and port mapping behave as documented.
Property theorems over the model `TLX/Options.lean`; the constants of the tree under test come from
`TLX/OptionsSrc.lean` (regenerated each run), so `documented_defaults` is re-checked by the kernel
against the current source.
-/
import TLX.OptionsSrc
import TLX.Lemmas.Options
namespace TLX.Props.C10
open TLX.Options TLX.Lemmas.Options

/-! ## which ports count as server ports -/

/-- Effective server ports: the built-in list followed by the `-p` values (or the `-p` default). -/
theorem server_ports_effective (builtin pDefault : List Int) :
    serverPorts builtin pDefault none = .ok (builtin ++ pDefault) ∧
    ∀ vs ps, vs.mapM pyInt = some ps → serverPorts builtin pDefault (some vs) = .ok (builtin ++ ps) := by
  refine ⟨rfl, ?_⟩
  intro vs ps h
  simp [serverPorts, h]

/-- A TCP packet outside every known session starts a TLS session iff its destination or its source
    port is a server port. -/
theorem tls_candidate_iff (ports : List Int) (sport dport : Nat) :
    tlsCandidate ports sport dport = true ↔ ((dport : Int) ∈ ports ∨ (sport : Int) ∈ ports) := by
  simp [tlsCandidate]

/-- Who is the server of a new flow: the side whose port is a server port; if both are, the sender
    of the first packet. The two ports are never altered, only assigned. -/
theorem server_role (ports : List Int) (sport dport : Nat) (h : tlsCandidate ports sport dport = true) :
    ((roles ports sport dport).serverPort : Int) ∈ ports ∧
    (((sport : Int) ∈ ports → roles ports sport dport = ⟨sport, dport, true⟩) ∧
     ((sport : Int) ∉ ports → roles ports sport dport = ⟨dport, sport, false⟩)) := by
  rw [tls_candidate_iff] at h
  by_cases hs : (sport : Int) ∈ ports
  · simp [roles, hs]
  · have hd : (dport : Int) ∈ ports := by rcases h with h | h; exact h; exact absurd h hs
    simp [roles, hs, hd]

/-- No session — hence no output — for a flow neither of whose ports is a server port. -/
theorem not_candidate_iff (ports : List Int) (sport dport : Nat) :
    tlsCandidate ports sport dport = false ↔ ((dport : Int) ∉ ports ∧ (sport : Int) ∉ ports) := by
  simp [tlsCandidate]

/-! ## `-m` -/

/-- `-m` absent: ports are kept and the map is empty; `-m` present (bare or with values): ports are
    not kept. -/
theorem keep_iff_m_absent (builtin pDefault : List Int) (bare : List (List Nat))
    (pArg mArg : Option (List (List Nat))) (P : Parsed) (h : parse builtin pDefault bare pArg mArg = .ok P) :
    P.keep = mArg.isNone ∧ (mArg = none → P.portmap = []) := by
  unfold parse at h
  split at h
  · cases h
  · rename_i pm hpm
    split at h
    · cases h
    · cases h
      refine ⟨rfl, ?_⟩
      intro hm; subst hm
      simp [getPortMap] at hpm
      exact hpm

/-- Commas in `-m` values are dropped before anything else: trailing (or any other) commas do not
    change the map. -/
theorem commas_irrelevant (bare : List (List Nat)) (vs₁ vs₂ : List (List Nat))
    (h : vs₁.map (·.filter (· ≠ 44)) = vs₂.map (·.filter (· ≠ 44))) (hb : vs₁.isEmpty = vs₂.isEmpty) :
    getPortMap bare (some vs₁) = getPortMap bare (some vs₂) := by
  have key : ∀ (l₁ l₂ : List (List Nat)) (m : List (Int × Int)),
      l₁.map (·.filter (· ≠ 44)) = l₂.map (·.filter (· ≠ 44)) →
      l₁.foldlM (fun m tok => (mapEntry tok).map fun e => dictSet m e.1 e.2) m =
      l₂.foldlM (fun m tok => (mapEntry tok).map fun e => dictSet m e.1 e.2) m := by
    intro l₁
    induction l₁ with
    | nil => intro l₂ m h; cases l₂ <;> simp_all
    | cons a as ih =>
      intro l₂ m h
      cases l₂ with
      | nil => simp at h
      | cons b bs =>
        simp only [List.map_cons, List.cons.injEq] at h
        have he : mapEntry a = mapEntry b := by
          unfold mapEntry
          have : List.filter (fun x => decide (x ≠ 44)) a = List.filter (fun x => decide (x ≠ 44)) b := h.1
          rw [this]
        simp only [List.foldlM_cons, he]
        cases hb' : mapEntry b with
        | error e => rfl
        | ok e => exact ih bs _ h.2
  unfold getPortMap mapPortsAction
  simp only [hb]
  split
  · rfl
  · exact key vs₁ vs₂ [] h

/-- `d[k] = v; d.get(k')` -/
theorem dictGet_dictSet (m : List (Int × Int)) (k v k' : Int) :
    dictGet? (dictSet m k v) k' = if k' = k then some v else dictGet? m k' := by
  unfold dictSet
  split
  · rename_i hany
    rw [dictGet_update, hany]
    simp
  · rename_i hany
    have hnone : m.find? (fun e => e.1 == k) = none := by
      rw [List.find?_eq_none]
      intro e he hek
      exact hany (List.any_eq_true.mpr ⟨e, he, hek⟩)
    unfold dictGet?
    rw [List.find?_append]
    by_cases hk : k' = k
    · subst hk; simp [hnone]
    · have : (k == k') = false := by simp; exact fun e => hk e.symm
      simp [hk, this]

/-! ## the ports written to the output -/

/-- What both builders are required to do with the ports of a flow. -/
def exported_ports_statement (out : Bool → List (Int × Int) → Roles → Int × Int) (dflt : Int) : Prop :=
  ∀ (pm : List (Int × Int)) (r : Roles),
    out true pm r = ((r.serverPort : Int), (r.clientPort : Int)) ∧
    out false pm r = ((dictGet? pm r.serverPort).getD dflt, (r.clientPort : Int))

/-- TCP builder: without `-m` the server port is the original one; with `-m` it is the mapped port
    for listed server ports and the fallback port for others; the client port is never changed. -/
theorem exported_ports (dflt : Int) : exported_ports_statement (tcpOut dflt) dflt := by
  intro pm r
  simp [tcpOut, outServerPort]

/-- QUIC builder, repaired: the same. -/
theorem exported_ports_quic (dflt : Int) : exported_ports_statement (quicOut true dflt) dflt := by
  intro pm r
  simp [quicOut, outServerPort]

/-- QUIC builder as found (ignores `keep_original_ports`): without `-m` a flow to port 443 is
    exported with server port 8080. -/
theorem quic_always_maps_counterexample : ¬ exported_ports_statement (quicOut false 8080) 8080 := by
  intro H
  have := (H [] ⟨443, 50000, false⟩).1
  revert this
  decide

/-- The documented defaults, re-checked against the constants extracted from the tree under test:
    built-in server ports 443 and 44330, `-p` default 443, bare `-m` = `443:8080`, fallback 8080 in
    both builders. -/
theorem documented_defaults :
    (Src.parse none none).toOption = some ⟨[443, 44330, 443], true, []⟩ ∧
    (Src.parse none (some [])).toOption = some ⟨[443, 44330, 443], false, [(443, 8080)]⟩ ∧
    Src.tcpDefault = 8080 ∧ Src.quicDefault = 8080 := by decide

/-- End to end over the options: `-p 8443 9443 -m 443:9000, 8443:9001` (trailing comma) selects
    443, 44330, 8443, 9443; a flow to 8443 is exported on 9001, one to 9443 on 8080, the client
    port stays; without `-m` both keep their port. -/
example :
    (match Src.parse (some [[56, 52, 52, 51], [57, 52, 52, 51]]) (some [[52, 52, 51, 58, 57, 48, 48, 48, 44], [56, 52, 52, 51, 58, 57, 48, 48, 49]]) with
     | .ok P => (P.serverPorts, P.keep, tcpOut Src.tcpDefault P.keep P.portmap (roles P.serverPorts 40000 8443),
                 quicOut true Src.quicDefault P.keep P.portmap (roles P.serverPorts 50000 9443))
     | .error _ => ([], true, (0, 0), (0, 0))) =
    ([443, 44330, 8443, 9443], false, (9001, 40000), (8080, 50000)) ∧
    (match Src.parse (some [[56, 52, 52, 51]]) none with
     | .ok P => (tcpOut Src.tcpDefault P.keep P.portmap (roles P.serverPorts 40000 8443), tlsCandidate P.serverPorts 40000 9443)
     | .error _ => ((0, 0), true)) = ((8443, 40000), false) := by decide

-- non-vacuity of `server_role`: both ports are server ports → the sender is taken for the server
example : tlsCandidate [443, 44330] 44330 443 = true ∧ roles [443, 44330] 44330 443 = ⟨44330, 443, true⟩ := by decide
example : tlsCandidate [443, 44330] 40000 443 = true ∧ roles [443, 44330] 40000 443 = ⟨443, 40000, false⟩ := by decide

end TLX.Props.C10
